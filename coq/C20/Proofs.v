(* C20 — lemmas about the job name calculation. *)
From Coq Require Import List NArith Bool Arith Lia Relations.
Require Import BobV.C20.Model.
Import ListNotations.

(* ------------------------------------------------------------------ sets *)
Lemma mem_In x l : mem x l = true <-> In x l.
Proof.
  induction l as [|y l IH]; simpl; [split; [discriminate|tauto]|].
  rewrite orb_true_iff, N.eqb_eq, IH. split; intros [H|H]; auto.
Qed.

Lemma mem_false x l : mem x l = false <-> ~ In x l.
Proof. rewrite <- mem_In. destruct (mem x l); split; congruence. Qed.

Lemma In_union x a b : In x (union a b) <-> In x a \/ In x b.
Proof.
  unfold union. rewrite in_app_iff, filter_In. split.
  - intros [H|[H _]]; auto.
  - intros [H|H]; auto. destruct (mem x a) eqn:E.
    + left. now apply mem_In.
    + right. split; [exact H|reflexivity].
Qed.

Lemma subset_spec a b : subset a b = true <-> sub a b.
Proof.
  unfold subset, sub. rewrite forallb_forall. split; intros H x Hx.
  - apply mem_In. auto.
  - apply mem_In. auto.
Qed.

Lemma subset_false a b : subset a b = false -> ~ sub a b.
Proof. intros H H1. apply subset_spec in H1. congruence. Qed.

Lemma sub_refl a : sub a a.
Proof. intros x; auto. Qed.

Lemma sub_trans a b c : sub a b -> sub b c -> sub a c.
Proof. unfold sub; auto. Qed.

Lemma sub_union_l a b : sub a (union a b).
Proof. intros x H. apply In_union; auto. Qed.

Lemma sub_union_r a b : sub b (union a b).
Proof. intros x H. apply In_union; auto. Qed.

Lemma sub_union_lub a b c : sub a c -> sub b c -> sub (union a b) c.
Proof. intros H1 H2 x H. apply In_union in H as [H|H]; auto. Qed.

(* ------------------------------------------------------------------ contraction of two vertices of a DAG *)
Section Contract.
  Variable V : Type.
  Variable V_eq_dec : forall a b : V, {a = b} + {a <> b}.
  Variable R : V -> V -> Prop.
  Variables i j : V.

  Definition cf (x : V) : V := if V_eq_dec x j then i else x.

  (* edges of the graph in which j has been collapsed into i *)
  Definition R' (a b : V) : Prop := exists a0 b0, R a0 b0 /\ cf a0 = a /\ cf b0 = b.

  Hypothesis acyc : forall x, ~ clos_trans_1n V R x x.
  Hypothesis nij : ~ clos_trans_1n V R i j.
  Hypothesis nji : ~ clos_trans_1n V R j i.

  Definition inS (x : V) : Prop := x = i \/ x = j.

  Lemma noSS u w : inS u -> inS w -> ~ clos_trans_1n V R u w.
  Proof. intros [->| ->] [->| ->]; auto. Qed.

  Lemma cf_eq a b : cf a = cf b -> a = b \/ (inS a /\ inS b).
  Proof.
    unfold cf, inS. destruct (V_eq_dec a j), (V_eq_dec b j); intros H; subst; auto.
  Qed.

  Lemma t1n_app x y z : clos_trans_1n V R x y -> clos_trans_1n V R y z -> clos_trans_1n V R x z.
  Proof.
    intros H1 H2. apply clos_trans_t1n. eapply t_trans; apply clos_t1n_trans; eassumption.
  Qed.

  (* a path of the contracted graph lifts to a path of the original graph with at most one jump
     between i and j *)
  Lemma lift x y : clos_trans_1n V R' x y ->
    (exists a b, cf a = x /\ cf b = y /\ clos_trans_1n V R a b) \/
    (exists a b u w, cf a = x /\ cf b = y /\ inS u /\ inS w /\ clos_trans_1n V R a u /\ clos_trans_1n V R w b).
  Proof.
    induction 1 as [x y (a0 & b0 & HR & Ha & Hb) | x z y (a0 & b0 & HR & Ha & Hb) _ IH].
    - left. exists a0, b0. repeat split; auto. now apply t1n_step.
    - destruct IH as [(c & d & Hc & Hd & P) | (c & d & u & w & Hc & Hd & Hu & Hw & P1 & P2)].
      + assert (E : cf b0 = cf c) by congruence. apply cf_eq in E as [->|[S1 S2]].
        * left. exists a0, d. repeat split; auto. eapply t1n_app; [apply t1n_step; eassumption|exact P].
        * right. exists a0, d, b0, c. repeat split; auto. now apply t1n_step.
      + assert (E : cf b0 = cf c) by congruence. apply cf_eq in E as [->|[S1 S2]].
        * right. exists a0, d, u, w. repeat split; auto.
          eapply t1n_app; [apply t1n_step; eassumption|exact P1].
        * exfalso. exact (noSS c u S2 Hu P1).
  Qed.

  Lemma contract_acyclic x : ~ clos_trans_1n V R' x x.
  Proof.
    intros H. apply lift in H as [(a & b & Ha & Hb & P) | (a & b & u & w & Ha & Hb & Hu & Hw & P1 & P2)].
    - assert (E : cf a = cf b) by congruence. apply cf_eq in E as [->|[S1 S2]].
      + exact (acyc _ P).
      + exact (noSS _ _ S1 S2 P).
    - assert (E : cf a = cf b) by congruence. apply cf_eq in E as [->|[S1 S2]].
      + exact (noSS _ _ Hw Hu (t1n_app _ _ _ P2 P1)).
      + exact (noSS _ _ S1 Hu P1).
  Qed.
End Contract.

(* ------------------------------------------------------------------ the heap of abstract jobs *)

Lemma get_set_job st j a k : get_job (set_job st j a) k = if Nat.eqb k j then a else get_job st k.
Proof. unfold get_job, set_job. simpl. destruct (Nat.eqb k j); reflexivity. Qed.

Lemma get_set_job_same st j a : get_job (set_job st j a) j = a.
Proof. rewrite get_set_job, Nat.eqb_refl. reflexivity. Qed.

Lemma get_set_job_other st j a k : k <> j -> get_job (set_job st j a) k = get_job st k.
Proof. intros H. rewrite get_set_job. apply Nat.eqb_neq in H. now rewrite H. Qed.

Lemma crt_map {A} (R1 R2 : A -> A -> Prop) x y :
  (forall a b, R1 a b -> R2 a b) -> clos_refl_trans A R1 x y -> clos_refl_trans A R2 x y.
Proof.
  intros H P. induction P as [u v H1|u|u v w _ IH1 _ IH2].
  - apply rt_step. auto.
  - apply rt_refl.
  - eapply rt_trans; eassumption.
Qed.

Lemma t1n_map {A} (R1 R2 : A -> A -> Prop) x y :
  (forall a b, R1 a b -> R2 a b) -> clos_trans_1n A R1 x y -> clos_trans_1n A R2 x y.
Proof.
  intros H P. induction P as [u v H1|u v w H1 _ IH].
  - apply t1n_step. auto.
  - eapply Relation_Operators.t1n_trans; [apply H; exact H1|exact IH].
Qed.

(* ---- addChilds *)
Record ACRel (X : vset) (T : nat -> Prop) (st st' : sstate) : Prop := {
  ac_v2j : st_v2j st' = st_v2j st;
  ac_n2j : st_n2j st' = st_n2j st;
  ac_v2n : st_v2n st' = st_v2n st;
  ac_ref : st_ref st' = st_ref st;
  ac_next : st_next st' = st_next st;
  ac_pk : forall j, pk st' j = pk st j;
  ac_pa : forall j, pa st' j = pa st j;
  ac_mono : forall j, sub (ch st j) (ch st' j);
  ac_upper : forall j x, In x (ch st' j) -> In x (ch st j) \/ In x X;
  ac_all : forall j, sub (ch st' j) (ch st j) \/ sub X (ch st' j);
  ac_new : forall K, sub X (ch st' K) ->
           sub X (ch st K) \/ (forall p J, In p (pa st K) -> jobof st p = Some J -> sub X (ch st' J));
  ac_touch : forall K x, In x (ch st' K) -> ~ In x (ch st K) -> T K
}.

Lemma ACRel_refl X T st : ACRel X T st st.
Proof.
  constructor; auto; try (intros; apply sub_refl).
  - intros j. left. apply sub_refl.
  - intros K x H1 H2. contradiction.
Qed.

Lemma ACRel_weaken X (T T' : nat -> Prop) a b : (forall K, T K -> T' K) -> ACRel X T a b -> ACRel X T' a b.
Proof. intros HT H. destruct H. constructor; auto. intros K x H1 H2. eauto. Qed.

Lemma ACRel_E X T a b : ACRel X T a b -> forall J K, E b J K <-> E a J K.
Proof.
  intros H J K. unfold E, live, jobof. rewrite (ac_v2j _ _ _ _ H).
  split; intros (p & L & P & Q); exists p; (split; [exact L|split; [|exact Q]]).
  - rewrite <- (ac_pa _ _ _ _ H). exact P.
  - rewrite (ac_pa _ _ _ _ H). exact P.
Qed.

Lemma ACRel_trans X T a b c : ACRel X T a b -> ACRel X T b c -> ACRel X T a c.
Proof.
  intros H1 H2. constructor.
  - rewrite (ac_v2j _ _ _ _ H2). apply H1.
  - rewrite (ac_n2j _ _ _ _ H2). apply H1.
  - rewrite (ac_v2n _ _ _ _ H2). apply H1.
  - rewrite (ac_ref _ _ _ _ H2). apply H1.
  - rewrite (ac_next _ _ _ _ H2). apply H1.
  - intros j. rewrite (ac_pk _ _ _ _ H2). apply H1.
  - intros j. rewrite (ac_pa _ _ _ _ H2). apply H1.
  - intros j. eapply sub_trans; [apply H1|apply H2].
  - intros j x Hx. apply (ac_upper _ _ _ _ H2) in Hx as [Hx|Hx]; auto. apply (ac_upper _ _ _ _ H1) in Hx; auto.
  - intros j. destruct (ac_all _ _ _ _ H2 j) as [A|A]; auto.
    destruct (ac_all _ _ _ _ H1 j) as [B|B].
    + left. eapply sub_trans; eassumption.
    + right. eapply sub_trans; [exact B|apply H2].
  - intros K HK. destruct (ac_new _ _ _ _ H2 K HK) as [A|A].
    + destruct (ac_new _ _ _ _ H1 K A) as [B|B]; auto.
      right. intros p J Hp HJ. eapply sub_trans; [eapply B; eassumption|apply H2].
    + right. intros p J Hp HJ. apply (A p J).
      * rewrite (ac_pa _ _ _ _ H1). exact Hp.
      * unfold jobof. rewrite (ac_v2j _ _ _ _ H1). exact HJ.
  - intros K x Hc Ha. destruct (in_dec N.eq_dec x (ch b K)) as [Hb|Hb].
    + eapply (ac_touch _ _ _ _ H1); eassumption.
    + eapply (ac_touch _ _ _ _ H2); eassumption.
Qed.

(* jobs whose childs may grow: the (reflexive, transitive) ancestors of the jobs of [ps] *)
Definition Anc (st : sstate) (ps : vset) (K : nat) : Prop :=
  exists p J0, In p ps /\ jobof st p = Some J0 /\ clos_refl_trans nat (E st) K J0.

Lemma add_childs_spec : forall fuel X ps st st',
  add_childs fuel ps X st = Ok st' ->
  ACRel X (Anc st ps) st st' /\ (forall p J, In p ps -> jobof st p = Some J -> sub X (ch st' J)).
Proof.
  induction fuel as [|f IHf]; intros X ps st st' H; [discriminate|].
  simpl in H. revert st st' H.
  induction ps as [|p r IHr]; intros st st' H; simpl in H.
  - inversion H; subst. split; [apply ACRel_refl|intros p J []].
  - destruct (lookupN p (st_v2j st)) as [j|] eqn:Ej; [|discriminate].
    destruct (subset X (a_childs (get_job st j))) eqn:Es.
    + apply IHr in H as [R C]. split.
      * eapply ACRel_weaken; [|exact R]. intros K (q & J0 & Hq & HJ & P). exists q, J0. simpl; auto.
      * intros q J [<-|Hq] HJ.
        -- unfold jobof in HJ. rewrite Ej in HJ. inversion HJ; subst J.
           apply subset_spec in Es. eapply sub_trans; [exact Es|apply R].
        -- eapply C; eassumption.
    + set (a := get_job st j) in *.
      set (st1 := set_job st j (mkJob (a_pkgs a) (a_parents a) (union (a_childs a) X))) in *.
      destruct (add_childs f (a_parents a) X st1) as [st2| |] eqn:E2; try discriminate.
      apply IHf in E2 as [R12 C12].
      apply IHr in H as [R2 C2].
      assert (Hj1 : forall k, k <> j -> get_job st1 k = get_job st k)
        by (intros k Hk; apply get_set_job_other; exact Hk).
      assert (Hjj : get_job st1 j = mkJob (a_pkgs a) (a_parents a) (union (a_childs a) X))
        by apply get_set_job_same.
      assert (Hpa1 : forall k, pa st1 k = pa st k).
      { intros k. unfold pa. destruct (Nat.eq_dec k j) as [->|Hk].
        - rewrite Hjj. reflexivity.
        - rewrite Hj1 by exact Hk. reflexivity. }
      assert (HE1 : forall J K, E st1 J K <-> E st J K).
      { intros J K. unfold E, live, jobof. simpl. split; intros (q & L & P & Q); exists q; (split; [exact L|split; [|exact Q]]).
        - rewrite <- Hpa1. exact P.
        - rewrite Hpa1. exact P. }
      assert (Hlj : live st j) by (exists p; exact Ej).
      assert (R02 : ACRel X (Anc st (p :: r)) st st2).
      { constructor.
        - rewrite (ac_v2j _ _ _ _ R12). reflexivity.
        - rewrite (ac_n2j _ _ _ _ R12). reflexivity.
        - rewrite (ac_v2n _ _ _ _ R12). reflexivity.
        - rewrite (ac_ref _ _ _ _ R12). reflexivity.
        - rewrite (ac_next _ _ _ _ R12). reflexivity.
        - intros k. rewrite (ac_pk _ _ _ _ R12). unfold pk. destruct (Nat.eq_dec k j) as [->|Hk].
          + rewrite Hjj. reflexivity.
          + rewrite Hj1 by exact Hk. reflexivity.
        - intros k. rewrite (ac_pa _ _ _ _ R12). apply Hpa1.
        - intros k. eapply sub_trans; [|apply R12]. unfold ch. destruct (Nat.eq_dec k j) as [->|Hk].
          + rewrite Hjj. simpl. apply sub_union_l.
          + rewrite Hj1 by exact Hk. apply sub_refl.
        - intros k x Hx. apply (ac_upper _ _ _ _ R12) in Hx as [Hx|Hx]; auto.
          unfold ch in Hx. destruct (Nat.eq_dec k j) as [->|Hk].
          + rewrite Hjj in Hx. simpl in Hx. apply In_union in Hx. exact Hx.
          + rewrite Hj1 in Hx by exact Hk. left. exact Hx.
        - intros k. destruct (Nat.eq_dec k j) as [->|Hk].
          + right. eapply sub_trans; [|apply R12]. unfold ch. rewrite Hjj. simpl. apply sub_union_r.
          + destruct (ac_all _ _ _ _ R12 k) as [A|A]; auto.
            left. unfold ch in A. rewrite Hj1 in A by exact Hk. exact A.
        - intros K HK. destruct (ac_new _ _ _ _ R12 K HK) as [A|A].
          + destruct (Nat.eq_dec K j) as [->|Hk].
            * right. intros q J Hq HJ. apply (C12 q J); [exact Hq|exact HJ].
            * left. unfold ch in A. rewrite Hj1 in A by exact Hk. exact A.
          + right. intros q J Hq HJ. apply (A q J).
            * rewrite Hpa1. exact Hq.
            * exact HJ.
        - intros K x Hc Ha. destruct (in_dec N.eq_dec x (ch st1 K)) as [Hb|Hb].
          + (* touched by the update of j itself *)
            destruct (Nat.eq_dec K j) as [->|Hk].
            * exists p, j. split; [left; reflexivity|]. split; [exact Ej|apply rt_refl].
            * exfalso. apply Ha. unfold ch in Hb. rewrite Hj1 in Hb by exact Hk. exact Hb.
          + destruct (ac_touch _ _ _ _ R12 K x Hc Hb) as (q & J0 & Hq & HJ & P).
            exists p, j. split; [left; reflexivity|]. split; [exact Ej|].
            eapply rt_trans.
            * eapply crt_map; [|exact P]. intros u v. apply HE1.
            * apply rt_step. exists q. split; [exact Hlj|]. split; [exact Hq|exact HJ]. }
      split.
      * eapply ACRel_trans; [exact R02|].
        eapply ACRel_weaken; [|exact R2].
        intros K (q & J0 & Hq & HJ & P). exists q, J0. split; [right; exact Hq|].
        split; [unfold jobof in *; rewrite <- (ac_v2j _ _ _ _ R02); exact HJ|].
        eapply crt_map; [|exact P]. intros u v. apply (ACRel_E _ _ _ _ R02).
      * intros q J [<-|Hq] HJ.
        -- unfold jobof in HJ. rewrite Ej in HJ. inversion HJ; subst J.
           eapply sub_trans; [|apply R2]. eapply sub_trans; [|apply R12].
           unfold ch. rewrite Hjj. simpl. apply sub_union_r.
        -- apply (C2 q J Hq). unfold jobof. rewrite (ac_v2j _ _ _ _ R02). exact HJ.
Qed.

(* ------------------------------------------------------------------ the invariant of the merge phase *)
Lemma E_live_l st J K : E st J K -> live st J.
Proof. intros (p & _ & _ & H). exists p. exact H. Qed.

Lemma E_live_r st J K : E st J K -> live st K.
Proof. intros (p & H & _). exact H. Qed.

(* the test of the merge loop: "i reaches j" is visible in the childs sets *)
Lemma reach_closed st I J : Inv st -> clos_trans_1n nat (E st) I J ->
  sub (pk st J) (ch st I) /\ sub (ch st J) (ch st I).
Proof.
  intros HI P. induction P as [I J (p & L & Hp & HJ)|I K J (p & L & Hp & HJ) _ [IH1 IH2]].
  - eapply inv_closed; eassumption.
  - destruct (inv_closed _ HI K p I L Hp HJ) as [_ C].
    split; eapply sub_trans; eassumption.
Qed.

Lemma reaches_spec st i j : reaches st i j = true <-> sub (pk st j) (ch st i) /\ sub (ch st j) (ch st i).
Proof.
  unfold reaches, reach_set. rewrite subset_spec. unfold pk, ch. split.
  - intros H. split; intros x Hx; apply H, In_union; auto.
  - intros [H1 H2] x Hx. apply In_union in Hx as [Hx|Hx]; auto.
Qed.

Lemma not_reaches st i j : Inv st -> reaches st i j = false -> ~ clos_trans_1n nat (E st) i j.
Proof.
  intros HI H P. apply (reach_closed _ _ _ HI) in P. apply reaches_spec in P. congruence.
Qed.

Lemma lookup_remap v ps i m : lookupN v (remap ps i m) = if mem v ps then Some i else lookupN v m.
Proof.
  revert m. induction ps as [|k r IH]; intros m; simpl; [reflexivity|].
  rewrite IH. simpl. destruct (mem v r); [now rewrite orb_true_r|].
  rewrite orb_false_r. destruct (N.eqb v k); reflexivity.
Qed.

Lemma step_crt_t1n {A} (R : A -> A -> Prop) x y z :
  R x y -> clos_refl_trans A R y z -> clos_trans_1n A R x z.
Proof.
  intros H P. apply clos_rt_rt1n in P. revert x H.
  induction P as [y|y y' z Hy _ IH]; intros x H.
  - now apply t1n_step.
  - eapply Relation_Operators.t1n_trans; [exact H|]. apply IH. exact Hy.
Qed.

Definition cfn (i j k : nat) : nat := if Nat.eq_dec k j then i else k.

Lemma merge_two_inv st i j st' :
  Inv st -> live st i -> live st j -> i <> j ->
  reaches st i j = false -> reaches st j i = false ->
  merge_two st i j = Ok st' ->
  Inv st' /\
  (forall v, jobof st' v = option_map (cfn i j) (jobof st v)) /\
  st_n2j st' = st_n2j st /\ st_v2n st' = st_v2n st /\ st_ref st' = st_ref st /\ st_next st' = st_next st /\
  (forall x, In x (pk st' i) <-> In x (pk st i) \/ In x (pk st j)) /\
  (forall k, k <> i -> pk st' k = pk st k) /\
  (forall k, sub (pa st k) (pa st' (cfn i j k))).
Proof.
  intros HI Li Lj Hij Rij Rji H.
  unfold merge_two in H.
  set (ai := get_job st i) in *. set (aj := get_job st j) in *.
  set (ai' := mkJob (union (a_pkgs ai) (a_pkgs aj)) (union (a_parents ai) (a_parents aj))
                    (union (a_childs ai) (a_childs aj))) in *.
  set (st1 := set_job st i ai') in *.
  set (X := reach_set ai') in *.
  destruct (add_childs (S (st_next st)) (a_parents ai') X st1) as [st2| |] eqn:E2; try discriminate.
  inversion H; subst st'; clear H.
  apply add_childs_spec in E2 as [R C].
  pose proof (not_reaches _ _ _ HI Rij) as Nij.
  pose proof (not_reaches _ _ _ HI Rji) as Nji.
  (* the state after the assignment to i *)
  assert (G1i : get_job st1 i = ai') by apply get_set_job_same.
  assert (G1o : forall k, k <> i -> get_job st1 k = get_job st k) by (intros; now apply get_set_job_other).
  assert (J1 : forall v, jobof st1 v = jobof st v) by reflexivity.
  assert (J2 : forall v, jobof st2 v = jobof st v) by (intros v; unfold jobof; now rewrite (ac_v2j _ _ _ _ R)).
  (* membership of the packages of j *)
  assert (Mj : forall v, mem v (a_pkgs aj) = true <-> jobof st v = Some j).
  { intros v. rewrite mem_In. split; intros Hv.
    - apply (inv_own _ HI); assumption.
    - apply (inv_in _ HI); assumption. }
  set (st' := mkSt (st_jobs st2) (st_next st2) (remap (a_pkgs aj) i (st_v2j st2)) (st_v2n st2) (st_ref st2) (st_n2j st2)).
  assert (JF : forall v, jobof st' v = option_map (cfn i j) (jobof st v)).
  { intros v. unfold jobof at 1. simpl. rewrite lookup_remap.
    destruct (mem v (a_pkgs aj)) eqn:Em.
    - apply Mj in Em. rewrite Em. simpl. unfold cfn. destruct (Nat.eq_dec j j); congruence.
    - fold (jobof st2 v). rewrite J2. destruct (jobof st v) as [k|] eqn:Ek; [|reflexivity].
      simpl. unfold cfn. destruct (Nat.eq_dec k j) as [->|]; [|reflexivity].
      apply Mj in Ek. congruence. }
  assert (GF : forall k, get_job st' k = get_job st2 k) by reflexivity.
  assert (PK : forall k, pk st' k = pk st1 k) by (intros k; unfold pk at 1; rewrite GF; apply (ac_pk _ _ _ _ R)).
  assert (PA : forall k, pa st' k = pa st1 k) by (intros k; unfold pa at 1; rewrite GF; apply (ac_pa _ _ _ _ R)).
  assert (PKi : forall x, In x (pk st' i) <-> In x (pk st i) \/ In x (pk st j)).
  { intros x. rewrite PK. unfold pk at 1. rewrite G1i. simpl. apply In_union. }
  assert (PKo : forall k, k <> i -> pk st' k = pk st k).
  { intros k Hk. rewrite PK. unfold pk. now rewrite G1o. }
  assert (PAi : forall x, In x (pa st' i) <-> In x (pa st i) \/ In x (pa st j)).
  { intros x. rewrite PA. unfold pa at 1. rewrite G1i. simpl. apply In_union. }
  assert (PAo : forall k, k <> i -> pa st' k = pa st k).
  { intros k Hk. rewrite PA. unfold pa. now rewrite G1o. }
  assert (CH1i : forall x, In x (ch st1 i) <-> In x (ch st i) \/ In x (ch st j)).
  { intros x. unfold ch at 1. rewrite G1i. simpl. apply In_union. }
  assert (CH1o : forall k, k <> i -> ch st1 k = ch st k).
  { intros k Hk. unfold ch. now rewrite G1o. }
  assert (XX : forall x, In x X <-> (In x (pk st i) \/ In x (pk st j)) \/ (In x (ch st i) \/ In x (ch st j))).
  { intros x. unfold X, reach_set. simpl. rewrite In_union, !In_union. reflexivity. }
  (* liveness *)
  assert (LV : forall K, live st' K -> K <> j /\ ((K = i) \/ (K <> i /\ live st K))).
  { intros K (v & Hv). rewrite JF in Hv. destruct (jobof st v) as [k|] eqn:Ek; [|discriminate].
    simpl in Hv. inversion Hv; subst K. unfold cfn. destruct (Nat.eq_dec k j) as [->|Hk].
    - split; [exact Hij|left; reflexivity].
    - split; [exact Hk|]. destruct (Nat.eq_dec k i); [left; assumption|right; split; [assumption|exists v; exact Ek]]. }
  (* edges of the new graph are images of old edges *)
  assert (EE : forall J K, E st' J K -> R' nat Nat.eq_dec (E st) i j J K).
  { intros J K (p & L & Hp & HJ). rewrite JF in HJ. destruct (jobof st p) as [a0|] eqn:Ea; [|discriminate].
    simpl in HJ. inversion HJ; subst J. destruct (LV K L) as [Kj [->|[Ki LK]]].
    - apply PAi in Hp as [Hp|Hp].
      + exists a0, i. split; [exists p; auto|]. split; [reflexivity|]. unfold cf. destruct (Nat.eq_dec i j); congruence.
      + exists a0, j. split; [exists p; auto|]. split; [reflexivity|]. unfold cf. destruct (Nat.eq_dec j j); congruence.
    - rewrite PAo in Hp by exact Ki. exists a0, K. split; [exists p; auto|]. split; [reflexivity|].
      unfold cf. destruct (Nat.eq_dec K j); congruence. }
  (* parents of the merged job are not in j *)
  assert (NPj : forall p, In p (pa st i) \/ In p (pa st j) -> jobof st p <> Some j).
  { intros p [Hp|Hp] Hj.
    - apply Nji. apply t1n_step. exists p. auto.
    - apply (inv_acyclic _ HI j). apply t1n_step. exists p. auto. }
  (* a job whose childs grow reaches i or j in the old graph *)
  assert (E1E : forall u v, E st1 u v -> E st u v \/ (v = i /\ E st u j)).
  { intros u v (q & L & Hq & HJ). destruct (Nat.eq_dec v i) as [->|Hv].
    - unfold pa in Hq. rewrite G1i in Hq. simpl in Hq. apply In_union in Hq as [Hq|Hq].
      + left. exists q. auto.
      + right. split; [reflexivity|]. exists q. auto.
    - left. exists q. split; [exact L|]. split; [|exact HJ]. unfold pa in *. rewrite G1o in Hq by exact Hv. exact Hq. }
  assert (P1E : forall u v, clos_refl_trans nat (E st1) u v ->
                 clos_refl_trans nat (E st) u v \/ clos_refl_trans nat (E st) u j).
  { intros u v P. apply clos_rt_rt1n in P. induction P as [u|u w v Huw _ IH].
    - left. apply rt_refl.
    - apply E1E in Huw as [Huw|[-> Huw]].
      + destruct IH as [IH|IH]; [left|right]; (eapply rt_trans; [apply rt_step; exact Huw|exact IH]).
      + right. apply rt_step. exact Huw. }
  assert (ANC : forall K, Anc st1 (a_parents ai') K ->
                clos_refl_trans nat (E st) K i \/ clos_refl_trans nat (E st) K j).
  { intros K (q & J0 & Hq & HJ0 & P). unfold ai' in Hq. simpl in Hq. apply In_union in Hq. rewrite J1 in HJ0.
    apply P1E in P as [P|P]; [|right; exact P].
    destruct Hq as [Hq|Hq]; [left|right]; (eapply rt_trans; [exact P|apply rt_step; exists q; auto]). }
  split; [|split; [exact JF|split; [apply R|split; [apply R|split; [apply R|split; [apply R|split; [exact PKi|split; [exact PKo|]]]]]]]].
  2:{ intros k x Hx. unfold cfn. destruct (Nat.eq_dec k j) as [->|Hk].
      - apply PAi. right. exact Hx.
      - destruct (Nat.eq_dec k i) as [->|Hki]; [apply PAi; left; exact Hx|rewrite PAo by exact Hki; exact Hx]. }
  constructor.
  - (* inv_in *)
    intros v K Hv. rewrite JF in Hv. destruct (jobof st v) as [k|] eqn:Ek; [|discriminate].
    simpl in Hv. inversion Hv; subst K. pose proof (inv_in _ HI v k Ek) as Hin.
    unfold cfn. destruct (Nat.eq_dec k j) as [->|Hk].
    + apply PKi. right. exact Hin.
    + destruct (Nat.eq_dec k i) as [->|Hki].
      * apply PKi. left. exact Hin.
      * rewrite PKo by exact Hki. exact Hin.
  - (* inv_own *)
    intros K v L Hv. destruct (LV K L) as [Kj [->|[Ki LK]]].
    + apply PKi in Hv. rewrite JF. destruct Hv as [Hv|Hv].
      * rewrite (inv_own _ HI i v Li Hv). simpl. unfold cfn. destruct (Nat.eq_dec i j); congruence.
      * rewrite (inv_own _ HI j v Lj Hv). simpl. unfold cfn. destruct (Nat.eq_dec j j); congruence.
    + rewrite PKo in Hv by exact Ki. rewrite JF, (inv_own _ HI K v LK Hv). simpl.
      unfold cfn. destruct (Nat.eq_dec K j); congruence.
  - (* inv_par *)
    intros K p L Hp. assert (Hk : exists a, jobof st p = Some a).
    { destruct (LV K L) as [Kj [->|[Ki LK]]].
      - apply PAi in Hp as [Hp|Hp]; [apply (inv_par _ HI i p Li Hp)|apply (inv_par _ HI j p Lj Hp)].
      - rewrite PAo in Hp by exact Ki. apply (inv_par _ HI K p LK Hp). }
    destruct Hk as [a Ha]. rewrite JF, Ha. simpl. eauto.
  - (* inv_closed *)
    intros K p J' L Hp HJ. rewrite JF in HJ. destruct (jobof st p) as [A|] eqn:EA; [|discriminate].
    simpl in HJ. inversion HJ; subst J'; clear HJ.
    unfold ch. rewrite !GF. fold (ch st2 K). fold (ch st2 (cfn i j A)).
    destruct (LV K L) as [Kj [->|[Ki LK]]].
    + (* K = i *)
      apply PAi in Hp.
      assert (HA : A <> j) by (intros ->; exact (NPj p Hp EA)).
      unfold cfn. destruct (Nat.eq_dec A j) as [|_]; [contradiction|].
      assert (CX : sub X (ch st2 A)).
      { apply (C p A); [|rewrite J1; exact EA]. unfold ai'. simpl. apply In_union. exact Hp. }
      split.
      * intros x Hx. apply CX, XX. left. apply PKi. exact Hx.
      * intros x Hx. apply CX. apply (ac_upper _ _ _ _ R) in Hx as [Hx|Hx]; [|exact Hx].
        apply XX. right. apply CH1i. exact Hx.
    + (* K <> i, K <> j, live before *)
      rewrite PAo in Hp by exact Ki. rewrite PKo by exact Ki.
      destruct (inv_closed _ HI K p A LK Hp EA) as [C1 C2].
      assert (EAK : E st A K) by (exists p; auto).
      unfold cfn. destruct (Nat.eq_dec A j) as [->|HA].
      * (* the parent was j: now i.  K cannot have grown *)
        assert (UT : sub (ch st2 K) (ch st K)).
        { intros x Hx. destruct (in_dec N.eq_dec x (ch st1 K)) as [Hb|Hb].
          - rewrite CH1o in Hb by exact Ki. exact Hb.
          - exfalso. destruct (ANC K (ac_touch _ _ _ _ R K x Hx Hb)) as [P|P].
            + exact (Nji (step_crt_t1n _ _ _ _ EAK P)).
            + exact (inv_acyclic _ HI j (step_crt_t1n _ _ _ _ EAK P)). }
        assert (I2 : sub (ch st j) (ch st2 i)).
        { intros x Hx. apply (ac_mono _ _ _ _ R). apply CH1i. right. exact Hx. }
        split; eapply sub_trans; try exact I2; [exact C1|eapply sub_trans; [exact UT|exact C2]].
      * (* the parent stays *)
        assert (I2 : sub (ch st A) (ch st2 A)).
        { intros x Hx. apply (ac_mono _ _ _ _ R). destruct (Nat.eq_dec A i) as [->|HAi].
          - apply CH1i. left. exact Hx.
          - rewrite CH1o by exact HAi. exact Hx. }
        split; [eapply sub_trans; [exact C1|exact I2]|].
        intros x Hx. destruct (in_dec N.eq_dec x (ch st1 K)) as [Hb|Hb].
        -- rewrite CH1o in Hb by exact Ki. apply I2, C2, Hb.
        -- (* K has grown: it now contains X, and so do its parents *)
           assert (HX : In x X).
           { apply (ac_upper _ _ _ _ R) in Hx as [Hx|Hx]; [contradiction|exact Hx]. }
           assert (SX : sub X (ch st2 K)).
           { destruct (ac_all _ _ _ _ R K) as [S|S]; [exfalso; apply Hb, S, Hx|exact S]. }
           destruct (ac_new _ _ _ _ R K SX) as [S|S].
           ++ rewrite CH1o in S by exact Ki. apply I2, C2, S, HX.
           ++ apply (S p A); [|rewrite J1; exact EA|exact HX].
              unfold pa. rewrite G1o by exact Ki. exact Hp.
  - (* inv_acyclic *)
    intros J P. apply (t1n_map _ _ _ _ EE) in P.
    exact (contract_acyclic nat Nat.eq_dec (E st) i j (inv_acyclic _ HI) Nij Nji J P).
Qed.

(* ------------------------------------------------------------------ the merge loops *)
(* parents only grow, whatever job a package ends up in *)
Definition PMono (st st' : sstate) : Prop :=
  forall v j, jobof st v = Some j -> exists j', jobof st' v = Some j' /\ sub (pa st j) (pa st' j').

Lemma PMono_refl st : PMono st st.
Proof. intros v j H. exists j. split; [exact H|apply sub_refl]. Qed.

Lemma PMono_trans a b c : PMono a b -> PMono b c -> PMono a c.
Proof.
  intros H1 H2 v j H. destruct (H1 v j H) as (j1 & A & B). destruct (H2 v j1 A) as (j2 & C & D).
  exists j2. split; [exact C|eapply sub_trans; eassumption].
Qed.

Definition same_tables (st st' : sstate) : Prop :=
  st_n2j st' = st_n2j st /\ st_v2n st' = st_v2n st /\ st_ref st' = st_ref st /\
  (forall v, jobof st' v = None <-> jobof st v = None) /\ PMono st st'.

Lemma same_tables_refl st : same_tables st st.
Proof. split; [reflexivity|]. split; [reflexivity|]. split; [reflexivity|]. split; [tauto|apply PMono_refl]. Qed.

Lemma same_tables_trans a b c : same_tables a b -> same_tables b c -> same_tables a c.
Proof.
  intros (A1 & A2 & A3 & A4 & A5) (B1 & B2 & B3 & B4 & B5).
  split; [congruence|]. split; [congruence|]. split; [congruence|]. split; [|eapply PMono_trans; eassumption].
  intros v. rewrite B4. apply A4.
Qed.

Lemma merge_inner_spec : forall rem i st todo st',
  merge_inner i rem st = Ok (todo, st') ->
  Inv st -> live st i -> (forall j, In j rem -> live st j) -> ~ In i rem -> NoDup rem ->
  Inv st' /\ live st' i /\ (forall j, In j todo -> In j rem /\ live st' j) /\ NoDup todo /\
  (forall k, ~ In k rem -> live st k -> live st' k) /\ (forall k, live st' k -> live st k) /\
  same_tables st st' /\ (forall k, In k rem -> live st' k -> In k todo).
Proof.
  induction rem as [|j r IH]; intros i st todo st' H HI Li Lr Ni ND; simpl in H.
  - inversion H; subst. split; [exact HI|]. split; [exact Li|]. split; [intros ? []|]. split; [constructor|].
    split; [auto|]. split; [auto|]. split; [apply same_tables_refl|intros ? []].
  - assert (Hji : j <> i) by (intros ->; apply Ni; left; reflexivity).
    assert (Nir : ~ In i r) by (intros Hx; apply Ni; right; exact Hx).
    inversion ND as [|? ? Njr NDr]; subst.
    destruct (reaches st i j || reaches st j i) eqn:Et.
    + destruct (merge_inner i r st) as [[todo0 st0]| |] eqn:Em; try discriminate.
      inversion H; subst; clear H.
      destruct (IH i st todo0 st' Em HI Li (fun k Hk => Lr k (or_intror Hk)) Nir NDr)
        as (I' & Li' & T & NDt & O & B & S & D).
      split; [exact I'|]. split; [exact Li'|]. split; [|split; [|split; [|split; [exact B|split; [exact S|]]]]].
      4:{ intros k [<-|Hk] Lk; [left; reflexivity|right; apply D; assumption]. }
      * intros k [<-|Hk].
        -- split; [left; reflexivity|]. apply O; [exact Njr|]. apply Lr. left. reflexivity.
        -- destruct (T k Hk). split; [right|]; assumption.
      * constructor; [|exact NDt]. intros Hx. apply Njr. apply T. exact Hx.
      * intros k Hk Lk. apply O; [|exact Lk]. intros Hx. apply Hk. right. exact Hx.
    + apply orb_false_iff in Et as [Rij Rji].
      destruct (merge_two st i j) as [st1| |] eqn:E2; try discriminate.
      assert (Lj : live st j) by (apply Lr; left; reflexivity).
      destruct (merge_two_inv st i j st1 HI Li Lj (fun e => Hji (eq_sym e)) Rij Rji E2)
        as (I1 & JF & T1 & T2 & T3 & _ & _ & _ & PM).
      assert (LK : forall k, k <> j -> live st k -> live st1 k).
      { intros k Hk (v & Hv). exists v. rewrite JF, Hv. simpl. unfold cfn. destruct (Nat.eq_dec k j); congruence. }
      assert (LB : forall k, live st1 k -> live st k).
      { intros k (v & Hv). rewrite JF in Hv. destruct (jobof st v) as [k0|] eqn:Ek; [|discriminate].
        simpl in Hv. inversion Hv; subst k. unfold cfn. destruct (Nat.eq_dec k0 j); [exact Li|exists v; exact Ek]. }
      destruct (IH i st1 todo st' H I1 (LK i (fun e => Hji (eq_sym e)) Li)) as (I' & Li' & T & NDt & O & B & S & D); auto.
      { intros k Hk. apply LK; [intros ->; contradiction|]. apply Lr. right. exact Hk. }
      assert (Dj : ~ live st1 j).
      { intros (v & Hv). rewrite JF in Hv. destruct (jobof st v) as [k0|]; [|discriminate]. simpl in Hv.
        inversion Hv as [Hc]. unfold cfn in Hc. destruct (Nat.eq_dec k0 j); congruence. }
      split; [exact I'|]. split; [exact Li'|]. split; [|split; [exact NDt|split; [|split; [|split]]]].
      5:{ intros k [<-|Hk] Lk; [exfalso; apply Dj, B, Lk|apply D; assumption]. }
      * intros k Hk. destruct (T k Hk). split; [right|]; assumption.
      * intros k Hk Lk. apply O; [intros Hx; apply Hk; right; exact Hx|].
        apply LK; [intros ->; apply Hk; left; reflexivity|exact Lk].
      * intros k Lk. apply LB, B, Lk.
      * eapply same_tables_trans; [|exact S]. split; [exact T1|]. split; [exact T2|]. split; [exact T3|]. split.
        -- intros v. split; intros Hn.
           ++ rewrite JF in Hn. destruct (jobof st v); [discriminate|reflexivity].
           ++ rewrite JF, Hn. reflexivity.
        -- intros v k Hv. exists (cfn i j k). split; [rewrite JF, Hv; reflexivity|apply PM].
Qed.

Lemma merge_name_spec : forall fuel todo st jobs st',
  merge_name fuel todo st = Ok (jobs, st') ->
  Inv st -> (forall j, In j todo -> live st j) -> NoDup todo ->
  Inv st' /\ (forall j, In j jobs -> In j todo /\ live st' j) /\ NoDup jobs /\
  (forall k, ~ In k todo -> live st k -> live st' k) /\ (forall k, live st' k -> live st k) /\
  same_tables st st' /\ (forall k, In k todo -> live st' k -> In k jobs).
Proof.
  induction fuel as [|f IH]; intros todo st jobs st' H HI Lt ND; [discriminate|].
  simpl in H. destruct todo as [|i remaining].
  - inversion H; subst. split; [exact HI|]. split; [intros ? []|]. split; [constructor|].
    split; [auto|]. split; [auto|]. split; [apply same_tables_refl|intros ? []].
  - inversion ND as [|? ? Ni NDr]; subst.
    destruct (merge_inner i remaining st) as [[todo' st1]| |] eqn:Ei; try discriminate.
    destruct (merge_name f todo' st1) as [[jobs0 st2]| |] eqn:En; try discriminate.
    inversion H; subst; clear H.
    destruct (merge_inner_spec remaining i st todo' st1 Ei HI (Lt i (or_introl eq_refl))
                (fun k Hk => Lt k (or_intror Hk)) Ni NDr) as (I1 & Li1 & T1 & ND1 & O1 & B1 & S1 & D1).
    destruct (IH todo' st1 jobs0 st' En I1 (fun k Hk => proj2 (T1 k Hk)) ND1) as (I2 & T2 & ND2 & O2 & B2 & S2 & D2).
    assert (Ni' : ~ In i todo') by (intros Hx; apply Ni; apply T1; exact Hx).
    split; [exact I2|]. split; [|split; [|split; [|split; [|split]]]].
    6:{ intros k [<-|Hk] Lk; [left; reflexivity|right]. apply D2; [|exact Lk]. apply D1; [exact Hk|apply B2, Lk]. }
    + intros k [<-|Hk].
      * split; [left; reflexivity|]. apply O2; assumption.
      * destruct (T2 k Hk) as [A B]. split; [right; apply T1; exact A|exact B].
    + constructor; [|exact ND2]. intros Hx. apply Ni'. apply T2. exact Hx.
    + intros k Hk Lk. apply O2.
      * intros Hx. apply Hk. right. apply T1. exact Hx.
      * apply O1; [intros Hx; apply Hk; right; exact Hx|exact Lk].
    + intros k Lk. apply B1, B2, Lk.
    + eapply same_tables_trans; eassumption.
Qed.

(* ---- the lists of nameToJobs *)
Definition jobs_listed (st : sstate) : list nat := flat_map snd (st_n2j st).

Record LInv (st : sstate) : Prop := {
  li_nodup : NoDup (jobs_listed st);
  li_live : forall j, In j (jobs_listed st) -> live st j;
  li_all : forall j, live st j -> In j (jobs_listed st)
}.

Lemma NoDup_app_iff {A} (l1 l2 : list A) :
  NoDup (l1 ++ l2) <-> NoDup l1 /\ NoDup l2 /\ (forall x, In x l1 -> ~ In x l2).
Proof.
  induction l1 as [|a l1 IH]; simpl.
  - split; [intros H; repeat split; auto; constructor|tauto].
  - split.
    + intros H. inversion H as [|? ? Hn Hd]; subst. apply IH in Hd as (A1 & A2 & A3).
      split; [constructor; [intros Hx; apply Hn, in_or_app; auto|exact A1]|].
      split; [exact A2|]. intros x [<-|Hx]; [intros Hx; apply Hn, in_or_app; auto|auto].
    + intros (A1 & A2 & A3). inversion A1 as [|? ? Hn Hd]; subst. constructor.
      * intros Hx. apply in_app_or in Hx as [Hx|Hx]; [auto|]. exact (A3 a (or_introl eq_refl) Hx).
      * apply IH. repeat split; auto.
Qed.

Lemma lookup_str_split {A} (k : str) (f : option A -> A) (m : list (str * A)) (v : A) :
  lookup_str k m = Some v ->
  exists a k' b, m = a ++ (k', v) :: b /\ update_str k f m = a ++ (k', f (Some v)) :: b.
Proof.
  induction m as [|[k0 v0] m IH]; simpl; [discriminate|].
  destruct (str_eqb k k0) eqn:E.
  - intros H. inversion H; subst. exists [], k0, m. split; reflexivity.
  - intros H. destruct (IH H) as (a & k' & b & -> & ->). exists ((k0, v0) :: a), k', b. split; reflexivity.
Qed.

Definition same_tables2 (st st' : sstate) : Prop :=
  st_v2n st' = st_v2n st /\ st_ref st' = st_ref st /\ (forall v, jobof st' v = None <-> jobof st v = None) /\
  PMono st st'.

Lemma merge_names_spec : forall names st st',
  merge_names names st = Ok st' -> Inv st -> LInv st ->
  Inv st' /\ LInv st' /\ same_tables2 st st'.
Proof.
  induction names as [|name rest IH]; intros st st' H HI HL; cbn [merge_names] in H.
  - inversion H; subst. split; [exact HI|]. split; [exact HL|].
    split; [reflexivity|]. split; [reflexivity|]. split; [tauto|apply PMono_refl].
  - destruct (lookup_str name (st_n2j st)) as [todo|] eqn:El; [|discriminate].
    destruct (merge_name (S (length todo)) todo st) as [[jobs st1]| |] eqn:Em; try discriminate.
    destruct (lookup_str_split name (fun _ => jobs) _ _ El) as (a & k' & b & Hm & Hu).
    assert (Hl : jobs_listed st = flat_map snd a ++ todo ++ flat_map snd b).
    { unfold jobs_listed. rewrite Hm, flat_map_app. reflexivity. }
    destruct HL as [L1 L2 L3]. rewrite Hl in L1, L2, L3.
    apply NoDup_app_iff in L1 as (Na & Ntb & Dab). apply NoDup_app_iff in Ntb as (Nt & Nb & Dtb).
    destruct (merge_name_spec _ _ _ _ _ Em HI) as (I1 & T1 & ND1 & O1 & B1 & (S1 & S2 & S3 & S4 & S5) & D1); auto.
    { intros j Hj. apply L2. apply in_or_app. right. apply in_or_app. left. exact Hj. }
    set (st2 := set_n2j st1 (update_str name (fun _ => jobs) (st_n2j st1))) in *.
    assert (I2 : Inv st2) by (destruct I1; constructor; assumption).
    assert (Hl2 : jobs_listed st2 = flat_map snd a ++ jobs ++ flat_map snd b).
    { unfold jobs_listed, st2. simpl. rewrite S1, Hu, flat_map_app. reflexivity. }
    assert (L2' : LInv st2).
    { constructor; rewrite Hl2.
      - apply NoDup_app_iff. split; [exact Na|]. split.
        + apply NoDup_app_iff. split; [exact ND1|]. split; [exact Nb|].
          intros x Hx. apply Dtb. apply T1. exact Hx.
        + intros x Hx Hy. apply (Dab x Hx). apply in_app_or in Hy as [Hy|Hy]; apply in_or_app; [left|right; exact Hy].
          apply T1. exact Hy.
      - intros j Hj. change (live st1 j). apply in_app_or in Hj as [Hj|Hj].
        + apply O1; [|apply L2; apply in_or_app; left; exact Hj]. intros Hx. apply (Dab j Hj). apply in_or_app. left. exact Hx.
        + apply in_app_or in Hj as [Hj|Hj]; [apply T1; exact Hj|].
          apply O1; [|apply L2; apply in_or_app; right; apply in_or_app; right; exact Hj].
          intros Hx. exact (Dtb j Hx Hj).
      - intros j Lj. change (live st1 j) in Lj. pose proof (L3 j (B1 j Lj)) as Hin.
        apply in_app_or in Hin as [Hin|Hin]; [apply in_or_app; left; exact Hin|].
        apply in_app_or in Hin as [Hin|Hin]; apply in_or_app; right; apply in_or_app; [left|right; exact Hin].
        apply D1; assumption. }
    destruct (IH st2 st' H I2 L2') as (I' & L' & (U1 & U2 & U3 & U4)).
    split; [exact I'|]. split; [exact L'|]. split; [rewrite U1; exact S2|]. split; [rewrite U2; exact S3|].
    split; [intros v; rewrite U3; apply S4|]. eapply PMono_trans; [exact S5|exact U4].
Qed.

Lemma merge_all_spec st st' :
  merge_all st = Ok st' -> Inv st -> LInv st -> Inv st' /\ LInv st' /\ same_tables2 st st'.
Proof. apply merge_names_spec. Qed.

(* ------------------------------------------------------------------ the spanning phase *)
Definition known (st : sstate) (v : N) : Prop := exists j, jobof st v = Some j.
Definition reach (st : sstate) (j : nat) : vset := reach_set (get_job st j).

Lemma In_reach st j x : In x (reach st j) <-> In x (pk st j) \/ In x (ch st j).
Proof. unfold reach, reach_set, pk, ch. apply In_union. Qed.

Lemma lookup_nat_cons {A} k k' (v : A) m :
  lookup_nat k ((k', v) :: m) = if Nat.eqb k k' then Some v else lookup_nat k m.
Proof. reflexivity. Qed.

Lemma lookupN_cons {A} k k' (v : A) m :
  lookupN k ((k', v) :: m) = if N.eqb k k' then Some v else lookupN k m.
Proof. reflexivity. Qed.

Record Frame (stk : list N) (ps : vset) (st st' : sstate) : Prop := {
  fr_next : st_next st <= st_next st';
  fr_jobof : forall v j, jobof st v = Some j -> jobof st' v = Some j;
  fr_pk : forall j, j < st_next st -> pk st' j = pk st j;
  fr_pa : forall j, j < st_next st -> sub (pa st j) (pa st' j);
  fr_ch : forall j, j < st_next st -> sub (ch st j) (ch st' j);
  fr_frozen : forall k j, jobof st k = Some j -> ~ In k stk -> sub (ch st' j) (ch st j);
  fr_fresh : forall k j, jobof st' k = Some j -> jobof st k = None -> st_next st <= j;
  (* parents that appear are the caller's packages or new packages *)
  fr_pa_new : forall k j q, jobof st' k = Some j -> In q (pa st' j) ->
              (jobof st k = Some j /\ In q (pa st j)) \/ In q ps \/ jobof st q = None;
  fr_tables : forall k j, jobof st k = Some j ->
              lookupN k (st_ref st') = lookupN k (st_ref st) /\ lookupN k (st_v2n st') = lookupN k (st_v2n st)
}.

Lemma Frame_refl stk ps st : Frame stk ps st st.
Proof.
  constructor; auto; try (intros; apply sub_refl).
  intros k j H1 H2. congruence.
Qed.

Lemma tables_trans (a b c : sstate) k :
  lookupN k (st_ref b) = lookupN k (st_ref a) /\ lookupN k (st_v2n b) = lookupN k (st_v2n a) ->
  lookupN k (st_ref c) = lookupN k (st_ref b) /\ lookupN k (st_v2n c) = lookupN k (st_v2n b) ->
  lookupN k (st_ref c) = lookupN k (st_ref a) /\ lookupN k (st_v2n c) = lookupN k (st_v2n a).
Proof. intros [A B] [C D]. split; congruence. Qed.

Record SI (stk : list N) (st : sstate) : Prop := {
  si_pk : forall v j, jobof st v = Some j -> pk st j = [v] /\ j < st_next st;
  si_even : forall v j, jobof st v = Some j -> N.even v = true;
  si_par : forall k jk q, jobof st k = Some jk -> In q (pa st jk) -> known st q /\ (k < q)%N;
  si_closed : forall k jk q jq, jobof st k = Some jk -> In q (pa st jk) -> ~ In q stk ->
              jobof st q = Some jq -> sub (reach st jk) (ch st jq);
  si_stk_par : forall p jp q, In p stk -> jobof st p = Some jp -> In q (pa st jp) -> In q stk;
  si_stk_known : forall p, In p stk -> known st p;
  si_nodup : NoDup (jobs_listed st);
  si_listed : forall j, In j (jobs_listed st) <-> live st j
}.

Lemma SI_inj stk st v v' j : SI stk st -> jobof st v = Some j -> jobof st v' = Some j -> v = v'.
Proof.
  intros H A B. destruct (si_pk _ _ H v j A) as [P _]. destruct (si_pk _ _ H v' j B) as [P' _]. congruence.
Qed.

Lemma Frame_trans stk ps a b c : Frame stk ps a b -> Frame stk ps b c -> Frame stk ps a c.
Proof.
  intros H1 H2. constructor.
  - etransitivity; [apply H1|apply H2].
  - intros v j H. apply (fr_jobof _ _ _ _ H2), (fr_jobof _ _ _ _ H1), H.
  - intros j Hj. rewrite (fr_pk _ _ _ _ H2); [apply (fr_pk _ _ _ _ H1); exact Hj|].
    pose proof (fr_next _ _ _ _ H1). lia.
  - intros j Hj. eapply sub_trans; [apply (fr_pa _ _ _ _ H1); exact Hj|apply (fr_pa _ _ _ _ H2)].
    pose proof (fr_next _ _ _ _ H1). lia.
  - intros j Hj. eapply sub_trans; [apply (fr_ch _ _ _ _ H1); exact Hj|apply (fr_ch _ _ _ _ H2)].
    pose proof (fr_next _ _ _ _ H1). lia.
  - intros k j Hk Hs. eapply sub_trans; [apply (fr_frozen _ _ _ _ H2 k j); [apply (fr_jobof _ _ _ _ H1), Hk|exact Hs]|].
    apply (fr_frozen _ _ _ _ H1 k j Hk Hs).
  - intros k j Hc Ha. destruct (jobof b k) as [j'|] eqn:Eb.
    + pose proof (fr_jobof _ _ _ _ H2 k j' Eb) as E. rewrite Hc in E. inversion E; subst j'.
      apply (fr_fresh _ _ _ _ H1 k j Eb Ha).
    + pose proof (fr_fresh _ _ _ _ H2 k j Hc Eb). pose proof (fr_next _ _ _ _ H1). lia.
  - intros k j q Hc Hq. destruct (fr_pa_new _ _ _ _ H2 k j q Hc Hq) as [[Hb Hqb]|[Hp|Hn]].
    + destruct (fr_pa_new _ _ _ _ H1 k j q Hb Hqb) as [?|[?|?]]; auto.
    + auto.
    + right. right. destruct (jobof a q) as [jq|] eqn:Eq; [|reflexivity].
      rewrite (fr_jobof _ _ _ _ H1 q jq Eq) in Hn. discriminate.
  - intros k j Hk. eapply tables_trans; [apply (fr_tables _ _ _ _ H1 k j Hk)|].
    apply (fr_tables _ _ _ _ H2 k j), (fr_jobof _ _ _ _ H1), Hk.
Qed.

Definition Ctx (stk : list N) (st : sstate) (par : nat) (ps : vset) : Prop :=
  par < st_next st /\ pk st par = ps /\
  ((stk = [] /\ ps = []) \/ (exists p rest, stk = p :: rest /\ ps = [p] /\ jobof st p = Some par)) /\
  (forall p q, In p ps -> In q stk -> (p <= q)%N).

Definition Pend (st : sstate) (par : nat) (ps : vset) (r : vset) : Prop :=
  forall p k jk, In p ps -> jobof st k = Some jk -> In p (pa st jk) ->
  forall x, In x (reach st jk) -> In x (ch st par) \/ In x r.

Lemma Ctx_in stk st par ps p : Ctx stk st par ps -> In p ps -> In p stk /\ jobof st p = Some par /\ ps = [p].
Proof.
  intros (_ & _ & [[_ ->]|(p0 & rest & -> & -> & Hj)] & _) Hp; [destruct Hp|].
  destruct Hp as [<-|[]]. repeat split; auto. left. reflexivity.
Qed.

(* the job of the caller is not the job of any package outside of the stack *)
Lemma Ctx_other stk st par ps k jk : SI stk st -> Ctx stk st par ps -> jobof st k = Some jk -> ~ In k stk -> jk <> par.
Proof.
  intros HS (_ & Hpk & [[_ ->]|(p0 & rest & -> & -> & Hj)] & _) Hk Hn ->.
  - destruct (si_pk _ _ HS k par Hk) as [P _]. congruence.
  - apply Hn. left. eapply SI_inj; eassumption.
Qed.

(* ---- job.parents |= parentJob.pkgs for a known job *)
Lemma op_known stk st par ps v j :
  SI stk st -> Ctx stk st par ps -> jobof st v = Some j -> (forall p, In p ps -> (v < p)%N) ->
  let a := get_job st j in
  let st1 := set_job st j (mkJob (a_pkgs a) (union (a_parents a) ps) (a_childs a)) in
  SI stk st1 /\ Frame stk ps st st1 /\
  (forall k, pk st1 k = pk st k) /\ (forall k, ch st1 k = ch st k) /\
  (forall x, In x (pa st1 j) <-> In x (pa st j) \/ In x ps) /\ (forall k, k <> j -> pa st1 k = pa st k).
Proof.
  intros HS HC Hv Hlt a st1.
  assert (Gj : get_job st1 j = mkJob (a_pkgs a) (union (a_parents a) ps) (a_childs a)) by apply get_set_job_same.
  assert (Go : forall k, k <> j -> get_job st1 k = get_job st k) by (intros; now apply get_set_job_other).
  assert (PK : forall k, pk st1 k = pk st k).
  { intros k. unfold pk. destruct (Nat.eq_dec k j) as [->|Hk]; [rewrite Gj; reflexivity|now rewrite Go]. }
  assert (CH : forall k, ch st1 k = ch st k).
  { intros k. unfold ch. destruct (Nat.eq_dec k j) as [->|Hk]; [rewrite Gj; reflexivity|now rewrite Go]. }
  assert (PAj : forall x, In x (pa st1 j) <-> In x (pa st j) \/ In x ps).
  { intros x. unfold pa at 1. rewrite Gj. simpl. apply In_union. }
  assert (PAo : forall k, k <> j -> pa st1 k = pa st k) by (intros k Hk; unfold pa; now rewrite Go).
  assert (RE : forall k, reach st1 k = reach st k).
  { intros k. unfold reach, reach_set. fold (pk st1 k) (ch st1 k) (pk st k) (ch st k). now rewrite PK, CH. }
  assert (JO : forall x, jobof st1 x = jobof st x) by reflexivity.
  assert (NS : forall p, In p ps -> ~ In v stk).
  { intros p Hp Hin. destruct HC as (_ & _ & _ & Hs). pose proof (Hs p v Hp Hin). pose proof (Hlt p Hp). lia. }
  split; [|split; [|split; [exact PK|split; [exact CH|split; [exact PAj|exact PAo]]]]].
  - constructor.
    + intros x k Hx. rewrite PK. apply (si_pk _ _ HS x k Hx).
    + intros x k Hx. apply (si_even _ _ HS x k Hx).
    + intros k jk q Hk Hq. destruct (Nat.eq_dec jk j) as [->|Hj].
      * apply PAj in Hq as [Hq|Hq]; [apply (si_par _ _ HS k j q Hk Hq)|].
        destruct (Ctx_in _ _ _ _ _ HC Hq) as (_ & Hp & _).
        assert (k = v) by (eapply SI_inj; eassumption). subst k.
        split; [exists par; exact Hp|apply Hlt; exact Hq].
      * rewrite PAo in Hq by exact Hj. apply (si_par _ _ HS k jk q Hk Hq).
    + intros k jk q jq Hk Hq Hn Hjq. rewrite RE, CH. destruct (Nat.eq_dec jk j) as [->|Hj].
      * apply PAj in Hq as [Hq|Hq]; [apply (si_closed _ _ HS k j q jq Hk Hq Hn Hjq)|].
        exfalso. apply Hn. apply (Ctx_in _ _ _ _ _ HC Hq).
      * rewrite PAo in Hq by exact Hj. apply (si_closed _ _ HS k jk q jq Hk Hq Hn Hjq).
    + intros p jp q Hp Hjp Hq. destruct (Nat.eq_dec jp j) as [->|Hj].
      * apply PAj in Hq as [Hq|Hq]; [apply (si_stk_par _ _ HS p j q Hp Hjp Hq)|].
        apply (Ctx_in _ _ _ _ _ HC Hq).
      * rewrite PAo in Hq by exact Hj. apply (si_stk_par _ _ HS p jp q Hp Hjp Hq).
    + intros p Hp. apply (si_stk_known _ _ HS p Hp).
    + apply (si_nodup _ _ HS).
    + intros k. apply (si_listed _ _ HS k).
  - constructor.
    + apply Nat.le_refl.
    + intros x k Hx. exact Hx.
    + intros k Hk. rewrite PK. reflexivity.
    + intros k Hk x Hx. destruct (Nat.eq_dec k j) as [->|Hj]; [apply PAj; left; exact Hx|rewrite PAo by exact Hj; exact Hx].
    + intros k Hk. rewrite CH. apply sub_refl.
    + intros k j0 Hk Hn. rewrite CH. apply sub_refl.
    + intros k j0 H1 H2. rewrite JO in H1. congruence.
    + intros k j0 q Hk Hq. destruct (Nat.eq_dec j0 j) as [->|Hj].
      * apply PAj in Hq as [Hq|Hq]; [left; split; assumption|right; left; exact Hq].
      * rewrite PAo in Hq by exact Hj. left. split; assumption.
    + intros k j0 Hk. split; reflexivity.
Qed.

(* ---- job.childs |= <returned set>, for the job of the caller *)
Lemma op_childs stk st par ps cs :
  SI stk st -> Ctx stk st par ps ->
  let st1 := add_childs_of st par cs in
  SI stk st1 /\ Frame stk ps st st1 /\
  (forall k, pk st1 k = pk st k) /\ (forall k, pa st1 k = pa st k) /\
  (forall x, In x (ch st1 par) <-> In x (ch st par) \/ In x cs) /\ (forall k, k <> par -> ch st1 k = ch st k).
Proof.
  intros HS HC st1. unfold add_childs_of in st1.
  set (a := get_job st par) in *.
  assert (Gj : get_job st1 par = mkJob (a_pkgs a) (a_parents a) (union (a_childs a) cs)) by apply get_set_job_same.
  assert (Go : forall k, k <> par -> get_job st1 k = get_job st k) by (intros; now apply get_set_job_other).
  assert (PK : forall k, pk st1 k = pk st k).
  { intros k. unfold pk. destruct (Nat.eq_dec k par) as [->|Hk]; [rewrite Gj; reflexivity|now rewrite Go]. }
  assert (PA : forall k, pa st1 k = pa st k).
  { intros k. unfold pa. destruct (Nat.eq_dec k par) as [->|Hk]; [rewrite Gj; reflexivity|now rewrite Go]. }
  assert (CHj : forall x, In x (ch st1 par) <-> In x (ch st par) \/ In x cs).
  { intros x. unfold ch at 1. rewrite Gj. simpl. apply In_union. }
  assert (CHo : forall k, k <> par -> ch st1 k = ch st k) by (intros k Hk; unfold ch; now rewrite Go).
  assert (JO : forall x, jobof st1 x = jobof st x) by reflexivity.
  split; [|split; [|split; [exact PK|split; [exact PA|split; [exact CHj|exact CHo]]]]].
  - constructor.
    + intros x k Hx. rewrite PK. apply (si_pk _ _ HS x k Hx).
    + intros x k Hx. apply (si_even _ _ HS x k Hx).
    + intros k jk q Hk Hq. rewrite PA in Hq. apply (si_par _ _ HS k jk q Hk Hq).
    + intros k jk q jq Hk Hq Hn Hjq. rewrite PA in Hq.
      assert (Hjq' : jq <> par) by (eapply Ctx_other; eassumption).
      assert (Hjk : jk <> par).
      { intros ->. destruct HC as (_ & Hpk & [[_ ->]|(p0 & rest & -> & -> & Hj)] & _).
        - destruct (si_pk _ _ HS k par Hk) as [P _]. congruence.
        - assert (k = p0) by (eapply SI_inj; eassumption). subst k.
          apply Hn. eapply (si_stk_par _ _ HS p0 par q); [left; reflexivity|exact Hj|exact Hq]. }
      rewrite CHo by exact Hjq'. unfold reach. rewrite Go by exact Hjk. apply (si_closed _ _ HS k jk q jq Hk Hq Hn Hjq).
    + intros p jp q Hp Hjp Hq. rewrite PA in Hq. apply (si_stk_par _ _ HS p jp q Hp Hjp Hq).
    + intros p Hp. apply (si_stk_known _ _ HS p Hp).
    + apply (si_nodup _ _ HS).
    + intros k. apply (si_listed _ _ HS k).
  - constructor.
    + apply Nat.le_refl.
    + intros x k Hx. exact Hx.
    + intros k Hk. rewrite PK. reflexivity.
    + intros k Hk. rewrite PA. apply sub_refl.
    + intros k Hk x Hx. destruct (Nat.eq_dec k par) as [->|Hj]; [apply CHj; left; exact Hx|rewrite CHo by exact Hj; exact Hx].
    + intros k j0 Hk Hn. assert (j0 <> par) by (eapply Ctx_other; eassumption). rewrite CHo by assumption. apply sub_refl.
    + intros k j0 H1 H2. rewrite JO in H1. congruence.
    + intros k j0 q Hk Hq. rewrite PA in Hq. left. split; assumption.
    + intros k j0 Hk. split; reflexivity.
Qed.

Lemma listed_append (m : list (str * list nat)) name j :
  exists a b, flat_map snd m = a ++ b /\
    flat_map snd (update_str name (fun o => match o with Some l => l ++ [j] | None => [j] end) m) = a ++ j :: b.
Proof.
  induction m as [|[k0 v0] m IH]; simpl.
  - exists [], []. split; reflexivity.
  - destruct (str_eqb name k0).
    + exists v0, (flat_map snd m). simpl. split; [reflexivity|]. rewrite <- app_assoc. reflexivity.
    + destruct IH as (a & b & E1 & E2). exists (v0 ++ a), b. simpl. rewrite E1, E2, !app_assoc. split; reflexivity.
Qed.

(* ---- a new AbstractJob for a package that is seen for the first time *)
Lemma op_register stk st par ps sid s :
  SI stk st -> Ctx stk st par ps -> jobof st (s_vid s) = None -> N.even (s_vid s) = true ->
  (forall p, In p ps -> (s_vid s < p)%N) ->
  let j := st_next st in
  let st1 := snd (register_pkg st sid s par) in
  fst (register_pkg st sid s par) = j /\
  SI (s_vid s :: stk) st1 /\ Frame stk ps st st1 /\ Ctx (s_vid s :: stk) st1 j [s_vid s] /\
  jobof st1 (s_vid s) = Some j /\ Pend st1 j [s_vid s] [] /\
  (forall x, In x (reach st1 j) -> x = s_vid s) /\ sub ps (pa st1 j) /\
  (forall k, k <> j -> get_job st1 k = get_job st k) /\
  (forall x, x <> s_vid s -> jobof st1 x = jobof st x) /\
  lookupN (s_vid s) (st_ref st1) = Some sid /\ lookupN (s_vid s) (st_v2n st1) = Some (s_name s) /\
  (forall x, x <> s_vid s -> lookupN x (st_ref st1) = lookupN x (st_ref st) /\ lookupN x (st_v2n st1) = lookupN x (st_v2n st)).
Proof.
  intros HS HC Hn Hev Hlt j st1.
  set (v := s_vid s) in *.
  destruct HC as (Hpar & Hpk & Hshape & Hsorted).
  assert (HC : Ctx stk st par ps) by (repeat split; assumption).
  unfold register_pkg, alloc_job in st1. simpl in st1.
  set (nj := mkJob [v] (a_pkgs (get_job st par)) []) in *.
  assert (Gj : get_job st1 j = nj).
  { unfold get_job, st1. simpl. unfold j. rewrite Nat.eqb_refl. reflexivity. }
  assert (Go : forall k, k <> j -> get_job st1 k = get_job st k).
  { intros k Hk. unfold get_job, st1. simpl. apply Nat.eqb_neq in Hk. unfold j in Hk. rewrite Hk. reflexivity. }
  assert (Jv : jobof st1 v = Some j).
  { unfold jobof, st1. simpl. fold v. rewrite N.eqb_refl. reflexivity. }
  assert (Jo : forall x, x <> v -> jobof st1 x = jobof st x).
  { intros x Hx. unfold jobof, st1. simpl. fold v. apply N.eqb_neq in Hx. rewrite Hx. reflexivity. }
  assert (Jold : forall x k, jobof st x = Some k -> jobof st1 x = Some k /\ k < j /\ x <> v).
  { intros x k Hx. assert (x <> v) by (intros ->; congruence). rewrite Jo by assumption.
    split; [exact Hx|]. split; [apply (si_pk _ _ HS x k Hx)|assumption]. }
  assert (Jinv : forall x k, jobof st1 x = Some k -> (x = v /\ k = j) \/ (x <> v /\ jobof st x = Some k /\ k < j)).
  { intros x k Hx. destruct (N.eq_dec x v) as [->|Hxv].
    - left. rewrite Jv in Hx. inversion Hx. auto.
    - right. rewrite Jo in Hx by exact Hxv. split; [exact Hxv|]. split; [exact Hx|apply (si_pk _ _ HS x k Hx)]. }
  assert (PKj : pk st1 j = [v]) by (unfold pk; rewrite Gj; reflexivity).
  assert (PAj : pa st1 j = ps) by (unfold pa; rewrite Gj; exact Hpk).
  assert (CHj : ch st1 j = []) by (unfold ch; rewrite Gj; reflexivity).
  assert (PKo : forall k, k <> j -> pk st1 k = pk st k) by (intros k Hk; unfold pk; now rewrite Go).
  assert (PAo : forall k, k <> j -> pa st1 k = pa st k) by (intros k Hk; unfold pa; now rewrite Go).
  assert (CHo : forall k, k <> j -> ch st1 k = ch st k) by (intros k Hk; unfold ch; now rewrite Go).
  assert (REo : forall k, k <> j -> reach st1 k = reach st k) by (intros k Hk; unfold reach; now rewrite Go).
  assert (Kn : forall q, known st q -> known st1 q /\ q <> v).
  { intros q (k & Hk). destruct (Jold q k Hk) as (A & _ & B). split; [exists k; exact A|exact B]. }
  assert (Lv : forall k, live st1 k <-> live st k \/ k = j).
  { intros k. split.
    - intros (x & Hx). destruct (Jinv x k Hx) as [[_ ->]|(_ & Hx' & _)]; [right; reflexivity|left; exists x; exact Hx'].
    - intros [(x & Hx)| ->]; [exists x; apply (Jold x k Hx)|exists v; exact Jv]. }
  assert (Nlj : ~ In j (jobs_listed st)).
  { intros Hin. apply (si_listed _ _ HS) in Hin as (x & Hx). destruct (si_pk _ _ HS x j Hx) as [_ Hlt']. unfold j in Hlt'. lia. }
  destruct (listed_append (st_n2j st) (if s_isolate s then s_name s else s_recipe s) j) as (la & lb & El & El').
  assert (Ls : jobs_listed st1 = la ++ j :: lb) by (unfold jobs_listed, st1; simpl; exact El').
  assert (Lo : jobs_listed st = la ++ lb) by exact El.
  assert (Pin : forall p, In p ps -> In p stk /\ jobof st p = Some par /\ ps = [p]) by (intros p Hp; eapply Ctx_in; eassumption).
  split; [reflexivity|].
  split; [|split; [|split; [|split; [exact Jv|split; [|split; [|split; [|split; [exact Go|split; [exact Jo|]]]]]]]]].
  - (* SI (v :: stk) st1 *)
    constructor.
    + intros x k Hx. destruct (Jinv x k Hx) as [[-> ->]|(Hxv & Hx' & Hk)].
      * split; [exact PKj|]. unfold st1, j. simpl. lia.
      * rewrite PKo by lia. destruct (si_pk _ _ HS x k Hx') as [A B]. split; [exact A|]. unfold st1. simpl. lia.
    + intros x k Hx. destruct (Jinv x k Hx) as [[-> ->]|(Hxv & Hx' & Hk)]; [exact Hev|apply (si_even _ _ HS x k Hx')].
    + intros k jk q Hk Hq. destruct (Jinv k jk Hk) as [[-> ->]|(Hkv & Hk' & Hjk)].
      * rewrite PAj in Hq. destruct (Pin q Hq) as (_ & Hp & _). split; [apply Kn; exists par; exact Hp|apply Hlt; exact Hq].
      * rewrite PAo in Hq by lia. destruct (si_par _ _ HS k jk q Hk' Hq) as [A B]. split; [apply Kn; exact A|exact B].
    + intros k jk q jq Hk Hq Hns Hjq. destruct (Jinv k jk Hk) as [[-> ->]|(Hkv & Hk' & Hjk)].
      * exfalso. rewrite PAj in Hq. apply Hns. right. apply (Pin q Hq).
      * rewrite PAo in Hq by lia. destruct (Jinv q jq Hjq) as [[-> ->]|(Hqv & Hq' & Hjq')].
        -- exfalso. apply Hns. left. reflexivity.
        -- rewrite REo, CHo by lia. apply (si_closed _ _ HS k jk q jq Hk' Hq); [|exact Hq'].
           intros Hin. apply Hns. right. exact Hin.
    + intros p jp q Hp Hjp Hq. destruct (Jinv p jp Hjp) as [[-> ->]|(Hpv & Hp' & Hjp')].
      * rewrite PAj in Hq. right. apply (Pin q Hq).
      * rewrite PAo in Hq by lia. destruct Hp as [Hp|Hp]; [congruence|].
        right. apply (si_stk_par _ _ HS p jp q Hp Hp' Hq).
    + intros p [<-|Hp]; [exists j; exact Jv|apply Kn, (si_stk_known _ _ HS p Hp)].
    + rewrite Ls. pose proof (si_nodup _ _ HS) as ND. rewrite Lo in ND.
      apply NoDup_app_iff in ND as (Na & Nb & Dab). rewrite Lo in Nlj.
      apply NoDup_app_iff. split; [exact Na|]. split.
      * constructor; [intros Hx; apply Nlj, in_or_app; right; exact Hx|exact Nb].
      * intros x Hx [<-|Hy]; [apply Nlj, in_or_app; left; exact Hx|exact (Dab x Hx Hy)].
    + intros k. rewrite Lv, <- (si_listed _ _ HS k), Ls, Lo, !in_app_iff. simpl. intuition congruence.
  - (* Frame *)
    constructor.
    + unfold st1. simpl. lia.
    + intros x k Hx. apply (Jold x k Hx).
    + intros k Hk. apply PKo. unfold j. lia.
    + intros k Hk. rewrite PAo by (unfold j; lia). apply sub_refl.
    + intros k Hk. rewrite CHo by (unfold j; lia). apply sub_refl.
    + intros k j0 Hk _. destruct (Jold k j0 Hk) as (_ & Hj0 & _). rewrite CHo by lia. apply sub_refl.
    + intros k j0 H1 H2. destruct (Jinv k j0 H1) as [[_ ->]|(_ & H3 & _)]; [apply Nat.le_refl|congruence].
    + intros k j0 q Hk Hq. destruct (Jinv k j0 Hk) as [[-> ->]|(Hkv & Hk' & Hj0)].
      * rewrite PAj in Hq. right. left. exact Hq.
      * rewrite PAo in Hq by lia. left. split; assumption.
    + intros k j0 Hk. assert (Hkv : k <> v) by (intros ->; congruence).
      unfold st1. simpl. fold v. apply N.eqb_neq in Hkv. rewrite Hkv. split; reflexivity.
  - (* Ctx *)
    split; [unfold st1, j; simpl; lia|]. split; [exact PKj|]. split.
    + right. exists v, stk. repeat split; auto.
    + intros p q [<-|[]] [<-|Hq]; [lia|].
      destruct Hshape as [[-> _]|(p0 & rest & -> & -> & _)]; [destruct Hq|].
      pose proof (Hlt p0 (or_introl eq_refl)). pose proof (Hsorted p0 q (or_introl eq_refl) Hq). lia.
  - (* Pend: nobody has v as parent yet *)
    intros p k jk [<-|[]] Hk Hq. exfalso. destruct (Jinv k jk Hk) as [[-> ->]|(Hkv & Hk' & Hjk)].
    + rewrite PAj in Hq. destruct (Pin v Hq) as (_ & Hp & _). congruence.
    + rewrite PAo in Hq by lia. destruct (si_par _ _ HS k jk v Hk' Hq) as [(jv & Hjv) _]. congruence.
  - intros x Hx. apply In_reach in Hx. rewrite PKj, CHj in Hx. destruct Hx as [[<-|[]]|[]]. reflexivity.
  - rewrite PAj. apply sub_refl.
  - unfold st1. simpl. fold v. rewrite N.eqb_refl. split; [reflexivity|]. split; [reflexivity|].
    intros x Hx. apply N.eqb_neq in Hx. rewrite Hx. split; reflexivity.
Qed.

Lemma Ctx_frame stk st st' par ps : Ctx stk st par ps -> Frame stk ps st st' -> Ctx stk st' par ps.
Proof.
  intros (A & B & C & D) F. split; [pose proof (fr_next _ _ _ _ F); lia|].
  split; [rewrite (fr_pk _ _ _ _ F) by exact A; exact B|]. split; [|exact D].
  destruct C as [C|(p & rest & C1 & C2 & C3)]; [left; exact C|right].
  exists p, rest. repeat split; auto. apply (fr_jobof _ _ _ _ F), C3.
Qed.

Lemma Frame_push stk ps v st st1 st2 :
  jobof st v = None -> Frame stk ps st st1 -> Frame (v :: stk) [v] st1 st2 -> Frame stk ps st st2.
Proof.
  intros Hv H1 H2. constructor.
  - etransitivity; [apply H1|apply H2].
  - intros x j H. apply (fr_jobof _ _ _ _ H2), (fr_jobof _ _ _ _ H1), H.
  - intros j Hj. rewrite (fr_pk _ _ _ _ H2); [apply (fr_pk _ _ _ _ H1); exact Hj|].
    pose proof (fr_next _ _ _ _ H1). lia.
  - intros j Hj. eapply sub_trans; [apply (fr_pa _ _ _ _ H1); exact Hj|apply (fr_pa _ _ _ _ H2)].
    pose proof (fr_next _ _ _ _ H1). lia.
  - intros j Hj. eapply sub_trans; [apply (fr_ch _ _ _ _ H1); exact Hj|apply (fr_ch _ _ _ _ H2)].
    pose proof (fr_next _ _ _ _ H1). lia.
  - intros k j Hk Hs. eapply sub_trans; [apply (fr_frozen _ _ _ _ H2 k j); [apply (fr_jobof _ _ _ _ H1), Hk|]|].
    + intros [<-|Hin]; [congruence|contradiction].
    + apply (fr_frozen _ _ _ _ H1 k j Hk Hs).
  - intros k j Hc Ha. destruct (jobof st1 k) as [j'|] eqn:Eb.
    + pose proof (fr_jobof _ _ _ _ H2 k j' Eb) as E. rewrite Hc in E. inversion E; subst j'.
      apply (fr_fresh _ _ _ _ H1 k j Eb Ha).
    + pose proof (fr_fresh _ _ _ _ H2 k j Hc Eb). pose proof (fr_next _ _ _ _ H1). lia.
  - intros k j q Hc Hq. destruct (fr_pa_new _ _ _ _ H2 k j q Hc Hq) as [[Hb Hqb]|[[<-|[]]|Hn]].
    + destruct (fr_pa_new _ _ _ _ H1 k j q Hb Hqb) as [?|[?|?]]; auto.
    + right. right. exact Hv.
    + right. right. destruct (jobof st q) as [jq|] eqn:Eq; [|reflexivity].
      rewrite (fr_jobof _ _ _ _ H1 q jq Eq) in Hn. discriminate.
  - intros k j Hk. eapply tables_trans; [apply (fr_tables _ _ _ _ H1 k j Hk)|].
    apply (fr_tables _ _ _ _ H2 k j), (fr_jobof _ _ _ _ H1), Hk.
Qed.

(* the package on top of the stack is finished *)
Lemma SI_pop stk v j st :
  SI (v :: stk) st -> jobof st v = Some j -> (forall q, In q stk -> (v < q)%N) -> Pend st j [v] [] -> SI stk st.
Proof.
  intros HS Hv Hlt HP. constructor.
  - apply (si_pk _ _ HS).
  - apply (si_even _ _ HS).
  - apply (si_par _ _ HS).
  - intros k jk q jq Hk Hq Hn Hjq. destruct (N.eq_dec q v) as [->|Hqv].
    + rewrite Hv in Hjq. inversion Hjq; subst jq. intros x Hx.
      destruct (HP v k jk (or_introl eq_refl) Hk Hq x Hx) as [H|[]]. exact H.
    + apply (si_closed _ _ HS k jk q jq Hk Hq); [|exact Hjq]. intros [E|Hin]; [congruence|contradiction].
  - intros p jp q Hp Hjp Hq.
    destruct (si_stk_par _ _ HS p jp q (or_intror Hp) Hjp Hq) as [<-|Hin]; [|exact Hin].
    exfalso. destruct (si_par _ _ HS p jp v Hjp Hq) as [_ Hlt']. pose proof (Hlt p Hp). lia.
  - intros p Hp. apply (si_stk_known _ _ HS p (or_intror Hp)).
  - apply (si_nodup _ _ HS).
  - apply (si_listed _ _ HS).
Qed.

(* ---- well-formed graphs *)
Definition vid_at (g : graph) (i : nat) : N := match nth_error g i with Some s => s_vid s | None => 0%N end.

Definition RankOK (g : graph) (s : step) (ps : vset) : Prop :=
  forall p, In p ps -> if is_pkg s then (s_vid s < p)%N else vid_at g (s_pkgstep s) = p.

Lemma wf_from_nth b g : forall l i k s, wf_from b g i l = true -> nth_error l k = Some s -> wf_step b g (i + k) s = true.
Proof.
  induction l as [|a l IH]; intros i k s H Hn; [destruct k; discriminate|].
  simpl in H. apply andb_true_iff in H as [H1 H2]. destruct k as [|k]; simpl in Hn.
  - inversion Hn; subst. now rewrite Nat.add_0_r.
  - replace (i + S k) with (S i + k) by lia. apply IH; assumption.
Qed.

Lemma wf_nth g i s : wf g = true -> nth_error g i = Some s -> wf_step true g i s = true.
Proof. intros H Hn. apply (wf_from_nth true g g 0 i s H Hn). Qed.

Lemma wf_dep_rank g i s d pv :
  wf g = true -> nth_error g i = Some s -> In d (alldeps s) -> vid_at g (s_pkgstep s) = pv ->
  d < i /\ exists sd, nth_error g d = Some sd /\ RankOK g sd [pv].
Proof.
  intros W Hn Hd Hpv. pose proof (wf_nth g i s W Hn) as Hs. unfold wf_step in Hs.
  apply andb_true_iff in Hs as [_ Hs]. rewrite forallb_forall in Hs. specialize (Hs d Hd).
  unfold wf_dep in Hs. apply andb_true_iff in Hs as [Hlt Hs]. apply Nat.ltb_lt in Hlt. split; [exact Hlt|].
  destruct (nth_error g d) as [sd|] eqn:Ed; [|discriminate].
  unfold vid_at in Hpv. destruct (nth_error g (s_pkgstep s)) as [ps0|] eqn:Ep; [|discriminate].
  exists sd. split; [reflexivity|]. intros p [<-|[]]. destruct (is_pkg sd) eqn:Ek.
  - apply andb_true_iff in Hs as [Hs _]. apply N.ltb_lt in Hs. rewrite <- Hpv. exact Hs.
  - apply Nat.eqb_eq in Hs. unfold vid_at. rewrite Hs, Ep. exact Hpv.
Qed.

Lemma wf_pkg_self g i s : wf g = true -> nth_error g i = Some s -> is_pkg s = true ->
  s_pkgstep s = i /\ N.even (s_vid s) = true.
Proof.
  intros W Hn Hk. pose proof (wf_nth g i s W Hn) as Hs. unfold wf_step in Hs.
  apply andb_true_iff in Hs as [Hs _]. apply andb_true_iff in Hs as [Hs _]. apply andb_true_iff in Hs as [H1 H2].
  rewrite Hk in H1, H2. apply Nat.eqb_eq in H2. split; [exact H2|].
  destruct (N.even (s_vid s)); [reflexivity|discriminate].
Qed.

Lemma wf_nonpkg_odd g i s : wf g = true -> nth_error g i = Some s -> is_pkg s = false -> N.even (s_vid s) = false.
Proof.
  intros W Hn Hk. pose proof (wf_nth g i s W Hn) as Hs. unfold wf_step in Hs.
  apply andb_true_iff in Hs as [Hs _]. apply andb_true_iff in Hs as [Hs _]. apply andb_true_iff in Hs as [H1 _].
  rewrite Hk in H1. destruct (N.even (s_vid s)); [discriminate|reflexivity].
Qed.

(* ---- what addStep records about the dependencies *)
Definition CV (g : graph) (stk : list N) (st : sstate) : Prop :=
  forall k j, jobof st k = Some j -> ~ In k stk -> cov_entry g st k.

(* every package step that step [d] stands for is known and has the packages [ps] of the caller among its parents *)
Definition CovT (g : graph) (st : sstate) (ps : vset) (d : nat) : Prop :=
  forall Q sQ, target g d Q -> nth_error g Q = Some sQ ->
  exists jq, jobof st (s_vid sQ) = Some jq /\ sub ps (pa st jq).

Lemma CovT_frame g stk ps ps' st st' d :
  SI stk st -> Frame stk ps' st st' -> CovT g st ps d -> CovT g st' ps d.
Proof.
  intros HS F H Q sQ HT HQ. destruct (H Q sQ HT HQ) as (jq & Hj & Hs).
  exists jq. split; [apply (fr_jobof _ _ _ _ F), Hj|].
  eapply sub_trans; [exact Hs|]. apply (fr_pa _ _ _ _ F). apply (si_pk _ _ HS _ _ Hj).
Qed.

Lemma cov_entry_frame g stk ps st st' k j :
  SI stk st -> Frame stk ps st st' -> jobof st k = Some j -> cov_entry g st k -> cov_entry g st' k.
Proof.
  intros HS F Hk (P & sP & H1 & H2 & H3 & H4 & H5 & H6).
  destruct (fr_tables _ _ _ _ F k j Hk) as [T1 T2].
  exists P, sP. split; [rewrite T1; exact H1|]. split; [exact H2|]. split; [exact H3|]. split; [exact H4|].
  split; [rewrite T2; exact H5|].
  intros Q sQ HQ HsQ. destruct (H6 Q sQ HQ HsQ) as (jq & Hj & Hin).
  exists jq. split; [apply (fr_jobof _ _ _ _ F), Hj|].
  apply (fr_pa _ _ _ _ F jq); [apply (si_pk _ _ HS _ _ Hj)|exact Hin].
Qed.

(* a step that adds no new packages *)
Lemma CV_frame g stk ps st st' :
  SI stk st -> Frame stk ps st st' -> (forall k j, jobof st' k = Some j -> jobof st k = Some j) ->
  CV g stk st -> CV g stk st'.
Proof.
  intros HS F Hb H k j Hk Hn. pose proof (Hb k j Hk) as Hk0.
  eapply cov_entry_frame; [exact HS|exact F|exact Hk0|]. apply (H k j Hk0 Hn).
Qed.

(* ---- addStep *)
Definition StepSpec (g : graph) (rec : nat -> nat -> sstate -> res (sstate * vset)) : Prop :=
  forall sid par st st' r stk s ps,
  rec sid par st = Ok (st', r) -> nth_error g sid = Some s ->
  SI stk st -> Ctx stk st par ps -> RankOK g s ps -> Pend st par ps [] -> CV g stk st ->
  SI stk st' /\ Frame stk ps st st' /\ Pend st' par ps r /\ CV g stk st' /\ CovT g st' ps sid.

Lemma loop_spec g rec : StepSpec g rec -> forall ds j st st' stk ps,
  (forall d, In d ds -> exists sd, nth_error g d = Some sd /\ RankOK g sd ps) ->
  loop_deps rec ds j st = Ok st' -> SI stk st -> Ctx stk st j ps -> Pend st j ps [] -> CV g stk st ->
  SI stk st' /\ Frame stk ps st st' /\ Pend st' j ps [] /\ CV g stk st' /\ (forall d, In d ds -> CovT g st' ps d).
Proof.
  intros HR. induction ds as [|d ds IH]; intros j st st' stk ps Hds H HS HC HP HV; simpl in H.
  - inversion H; subst. split; [exact HS|]. split; [apply Frame_refl|]. split; [exact HP|]. split; [exact HV|intros ? []].
  - destruct (rec d j st) as [[st1 cs]| |] eqn:Er; try discriminate.
    destruct (Hds d (or_introl eq_refl)) as (sd & Hsd & Hrk).
    destruct (HR d j st st1 cs stk sd ps Er Hsd HS HC Hrk HP HV) as (S1 & F1 & P1 & V1 & T1).
    pose proof (Ctx_frame _ _ _ _ _ HC F1) as C1.
    destruct (op_childs stk st1 j ps cs S1 C1) as (S2 & F2 & PK2 & PA2 & CHj & CHo).
    set (st2 := add_childs_of st1 j cs) in *.
    pose proof (Ctx_frame _ _ _ _ _ C1 F2) as C2.
    assert (P2 : Pend st2 j ps []).
    { intros p k jk Hp Hk Hq x Hx. left. change (jobof st1 k = Some jk) in Hk. rewrite PA2 in Hq.
      assert (Hjk : jk <> j).
      { intros ->. destruct (Ctx_in _ _ _ _ _ C1 Hp) as (_ & Hpj & _).
        assert (k = p) by (eapply SI_inj; eassumption). subst k.
        destruct (si_par _ _ S1 p j p Hk Hq) as [_ Hlt]. lia. }
      assert (Hx1 : In x (reach st1 jk)).
      { apply In_reach. apply In_reach in Hx. rewrite PK2, CHo in Hx by exact Hjk. exact Hx. }
      apply CHj. destruct (P1 p k jk Hp Hk Hq x Hx1) as [A|A]; auto. }
    assert (V2 : CV g stk st2) by (eapply CV_frame; [exact S1|exact F2|intros k j0 Hk; exact Hk|exact V1]).
    destruct (IH j st2 st' stk ps (fun d' Hd' => Hds d' (or_intror Hd')) H S2 C2 P2 V2) as (S3 & F3 & P3 & V3 & T3).
    split; [exact S3|]. split; [|split; [exact P3|split; [exact V3|]]].
    + eapply Frame_trans; [exact F1|]. eapply Frame_trans; [exact F2|exact F3].
    + intros d' [<-|Hd']; [|apply T3; exact Hd'].
      eapply CovT_frame; [exact S2|exact F3|]. eapply CovT_frame; [exact S1|exact F2|exact T1].
Qed.

Lemma reach_same st st' k : pk st' k = pk st k -> ch st' k = ch st k -> forall x, In x (reach st' k) <-> In x (reach st k).
Proof. intros A B x. rewrite !In_reach, A, B. reflexivity. Qed.

Lemma target_pkg g d sd Q : nth_error g d = Some sd -> is_pkg sd = true -> target g d Q -> Q = d.
Proof. intros H1 H2 HT. inversion HT; subst; [reflexivity|congruence]. Qed.

Lemma add_step_spec g : wf g = true -> forall fuel, StepSpec g (add_step fuel g).
Proof.
  intros W. induction fuel as [|f IHf]; intros sid par st st' r stk s ps H Hs HS HC HR HP HV; [discriminate|].
  cbn [add_step] in H. rewrite Hs in H.
  destruct (lookupN (s_vid s) (st_v2j st)) as [j|] eqn:Ej.
  - (* the package is known: only the parents grow *)
    assert (Hk : is_pkg s = true).
    { destruct (is_pkg s) eqn:Ek; [reflexivity|].
      pose proof (wf_nonpkg_odd g sid s W Hs Ek) as Ho. pose proof (si_even _ _ HS _ _ Ej). congruence. }
    assert (Hlt : forall p, In p ps -> (s_vid s < p)%N).
    { intros p Hp. specialize (HR p Hp). rewrite Hk in HR. exact HR. }
    destruct (op_known stk st par ps (s_vid s) j HS HC Ej Hlt) as (S1 & F1 & PK1 & CH1 & PAj & PAo).
    assert (Hpk : a_pkgs (get_job st par) = ps) by apply HC. rewrite Hpk in H.
    inversion H; subst st' r; clear H.
    set (st1 := set_job st j _) in *.
    split; [exact S1|]. split; [exact F1|]. split; [|split].
    + intros p k jk Hp Hkj Hq x Hx. change (jobof st k = Some jk) in Hkj.
      destruct (Nat.eq_dec jk j) as [->|Hj].
      * right. exact Hx.
      * left. rewrite PAo in Hq by exact Hj. rewrite CH1.
        apply (reach_same st st1 jk (PK1 jk) (CH1 jk)) in Hx.
        destruct (HP p k jk Hp Hkj Hq x Hx) as [A|[]]. exact A.
    + eapply CV_frame; [exact HS|exact F1|intros k j0 Hk0; exact Hk0|exact HV].
    + intros Q sQ HT HQ. pose proof (target_pkg g sid s Q Hs Hk HT). subst Q.
      rewrite Hs in HQ. inversion HQ; subst sQ. exists j. split; [exact Ej|].
      intros x Hx. apply PAj. right. exact Hx.
  - destruct (is_pkg s) eqn:Ek.
    + (* a new package *)
      destruct (register_pkg st sid s par) as [j st1] eqn:Er.
      destruct (loop_deps (add_step f g) (alldeps s) j st1) as [st2| |] eqn:El; try discriminate.
      inversion H; subst st' r; clear H.
      destruct (wf_pkg_self g sid s W Hs Ek) as [Hself Hev].
      assert (Hlt : forall p, In p ps -> (s_vid s < p)%N).
      { intros p Hp. specialize (HR p Hp). rewrite Ek in HR. exact HR. }
      pose proof (op_register stk st par ps sid s HS HC Ej Hev Hlt) as OR. rewrite Er in OR. simpl in OR.
      destruct OR as (Ejn & S1 & F1 & C1 & Jv & P1 & _ & Hps & Go & Jo & Rv & Nv & _).
      rewrite <- Ejn in C1, Jv, P1, Go, Hps.
      set (v := s_vid s) in *.
      assert (Hds : forall d, In d (alldeps s) -> exists sd, nth_error g d = Some sd /\ RankOK g sd [v]).
      { intros d Hd. apply (wf_dep_rank g sid s d v W Hs Hd). unfold vid_at. rewrite Hself, Hs. reflexivity. }
      assert (V1 : CV g (v :: stk) st1).
      { intros k j0 Hk Hn. assert (Hkv : k <> v) by (intros ->; apply Hn; left; reflexivity).
        rewrite Jo in Hk by exact Hkv.
        eapply cov_entry_frame; [exact HS|exact F1|exact Hk|]. apply (HV k j0 Hk). intros Hin. apply Hn. right. exact Hin. }
      destruct (loop_spec g (add_step f g) IHf (alldeps s) j st1 st2 (v :: stk) [v] Hds El S1 C1 P1 V1)
        as (S2 & F2 & P2 & V2 & T2).
      pose proof (fr_jobof _ _ _ _ F2 v j Jv) as Jv2.
      assert (Hvs : forall q, In q stk -> (v < q)%N).
      { intros q Hq. destruct HC as (_ & _ & [[-> _]|(p0 & rest & -> & -> & _)] & Hsort); [destruct Hq|].
        pose proof (Hlt p0 (or_introl eq_refl)). pose proof (Hsort p0 q (or_introl eq_refl) Hq). lia. }
      pose proof (Frame_push _ _ _ _ _ _ Ej F1 F2) as F02.
      split; [eapply SI_pop; eassumption|]. split; [exact F02|]. split; [|split].
      * intros p k jk Hp Hkj Hq x Hx.
        destruct (Ctx_in _ _ _ _ _ HC Hp) as (Hpstk & Hppar & _).
        assert (Hpv : p <> v) by (intros ->; unfold jobof in Hppar; congruence).
        destruct (fr_pa_new _ _ _ _ F2 k jk p Hkj Hq) as [[Hk1 Hq1]|[[E|[]]|Hn]]; [|congruence|].
        2:{ rewrite (fr_jobof _ _ _ _ F1 p par Hppar) in Hn. discriminate. }
        destruct (N.eq_dec k v) as [->|Hkv].
        -- right. rewrite Jv in Hk1. inversion Hk1; subst jk. exact Hx.
        -- left. rewrite Jo in Hk1 by exact Hkv.
           assert (Hjk : jk <> j) by (destruct (si_pk _ _ HS k jk Hk1) as [_ L]; rewrite Ejn; lia).
           unfold pa in Hq1. rewrite Go in Hq1 by exact Hjk. fold (pa st jk) in Hq1.
           destruct (si_par _ _ HS k jk p Hk1 Hq1) as [_ Hkp].
           assert (Hks : ~ In k stk).
           { intros Hin. destruct HC as (_ & _ & _ & Hsort). pose proof (Hsort p k Hp Hin). lia. }
           destruct (si_pk _ _ HS k jk Hk1) as [_ Ljk].
           assert (Hx0 : In x (reach st jk)).
           { apply In_reach. apply In_reach in Hx. rewrite (fr_pk _ _ _ _ F02 jk Ljk) in Hx.
             destruct Hx as [Hx|Hx]; [left; exact Hx|right; apply (fr_frozen _ _ _ _ F02 k jk Hk1 Hks); exact Hx]. }
           destruct (HP p k jk Hp Hk1 Hq1 x Hx0) as [A|[]].
           apply (fr_ch _ _ _ _ F02 par); [apply HC|exact A].
      * (* the finished package is covered by its own loop *)
        intros k j0 Hk Hn. destruct (N.eq_dec k v) as [->|Hkv].
        -- destruct (fr_tables _ _ _ _ F2 v j Jv) as [T1 T2'].
           exists sid, s. split; [rewrite T1; exact Rv|]. split; [exact Hs|]. split; [exact Ek|]. split; [reflexivity|].
           split; [rewrite T2'; exact Nv|].
           intros Q sQ (sP & e & HsP & _ & He & HT) HQ. rewrite Hs in HsP. inversion HsP; subst sP.
           destruct (T2 e He Q sQ HT HQ) as (jq & Hjq & Hsub). exists jq. split; [exact Hjq|].
           apply Hsub. left. reflexivity.
        -- apply (V2 k j0 Hk). intros [E|Hin]; [congruence|contradiction].
      * intros Q sQ HT HQ. pose proof (target_pkg g sid s Q Hs Ek HT). subst Q.
        rewrite Hs in HQ. inversion HQ; subst sQ. exists j. split; [exact Jv2|].
        eapply sub_trans; [exact Hps|]. apply (fr_pa _ _ _ _ F2 j). apply (si_pk _ _ S1 _ _ Jv).
    + (* a checkout or build step: it belongs to the job of the caller *)
      destruct (loop_deps (add_step f g) (alldeps s) par st) as [st2| |] eqn:El; try discriminate.
      inversion H; subst st' r; clear H.
      assert (Hds : forall d, In d (alldeps s) -> exists sd, nth_error g d = Some sd /\ RankOK g sd ps).
      { intros d Hd. destruct (wf_dep_rank g sid s d _ W Hs Hd eq_refl) as (_ & sd & Hsd & Hrk).
        exists sd. split; [exact Hsd|]. intros p Hp. specialize (HR p Hp). rewrite Ek in HR.
        apply Hrk. left. exact HR. }
      destruct (loop_spec g (add_step f g) IHf (alldeps s) par st st2 stk ps Hds El HS HC HP HV) as (S2 & F2 & P2 & V2 & T2).
      split; [exact S2|]. split; [exact F2|]. split; [|split; [exact V2|]].
      * intros p k jk Hp Hkj Hq x Hx. destruct (P2 p k jk Hp Hkj Hq x Hx) as [A|[]]. left. exact A.
      * intros Q sQ HT HQ. inversion HT as [d sd H1 H2|d sd e q H1 H2 H3 H4]; subst.
        -- rewrite Hs in H1. inversion H1; subst sd. congruence.
        -- rewrite Hs in H1. inversion H1; subst sd. apply (T2 e H3 Q sQ H4 HQ).
Qed.

(* ---- the roots *)
Lemma op_dummy st : SI [] st ->
  let st1 := snd (alloc_job st empty_job) in
  SI [] st1 /\ Ctx [] st1 (st_next st) [] /\ Frame [] [] st st1 /\
  st_ref st1 = st_ref st /\ st_v2n st1 = st_v2n st /\ st_v2j st1 = st_v2j st.
Proof.
  intros HS st1. unfold alloc_job in st1. simpl in st1.
  set (j := st_next st) in *.
  assert (Gj : get_job st1 j = empty_job) by (unfold get_job, st1; simpl; fold j; now rewrite Nat.eqb_refl).
  assert (Go : forall k, k <> j -> get_job st1 k = get_job st k).
  { intros k Hk. unfold get_job, st1. simpl. fold j. apply Nat.eqb_neq in Hk. now rewrite Hk. }
  assert (JO : forall x, jobof st1 x = jobof st x) by reflexivity.
  assert (Lt : forall x k, jobof st x = Some k -> k <> j).
  { intros x k Hx. destruct (si_pk _ _ HS x k Hx) as [_ L]. unfold j. lia. }
  split; [|split; [|split; [|repeat split]]].
  - constructor.
    + intros x k Hx. change (jobof st x = Some k) in Hx. unfold pk. rewrite Go by (eapply Lt; eassumption).
      destruct (si_pk _ _ HS x k Hx) as [A B]. split; [exact A|]. unfold st1. simpl. lia.
    + intros x k Hx. apply (si_even _ _ HS x k Hx).
    + intros k jk q Hk Hq. change (jobof st k = Some jk) in Hk. unfold pa in Hq. rewrite Go in Hq by (eapply Lt; eassumption).
      apply (si_par _ _ HS k jk q Hk Hq).
    + intros k jk q jq Hk Hq Hn Hjq. change (jobof st k = Some jk) in Hk. change (jobof st q = Some jq) in Hjq.
      unfold pa in Hq. rewrite Go in Hq by (eapply Lt; eassumption).
      unfold reach, ch. rewrite !Go by (eapply Lt; eassumption). apply (si_closed _ _ HS k jk q jq Hk Hq Hn Hjq).
    + intros p jp q [].
    + intros p [].
    + apply (si_nodup _ _ HS).
    + apply (si_listed _ _ HS).
  - split; [unfold st1; simpl; unfold j; lia|]. split; [unfold pk; rewrite Gj; reflexivity|].
    split; [left; split; reflexivity|intros p q []].
  - constructor.
    + unfold st1. simpl. lia.
    + intros x k Hx. exact Hx.
    + intros k Hk. unfold pk. rewrite Go by (unfold j; lia). reflexivity.
    + intros k Hk. unfold pa. rewrite Go by (unfold j; lia). apply sub_refl.
    + intros k Hk. unfold ch. rewrite Go by (unfold j; lia). apply sub_refl.
    + intros k j0 Hk _. unfold ch. rewrite Go by (eapply Lt; eassumption). apply sub_refl.
    + intros k j0 H1 H2. rewrite JO in H1. congruence.
    + intros k j0 q Hk Hq. left. change (jobof st k = Some j0) in Hk. split; [exact Hk|].
      unfold pa in Hq. rewrite Go in Hq by (eapply Lt; eassumption). exact Hq.
    + intros k j0 Hk. split; reflexivity.
Qed.

Lemma span_roots_spec g : wf g = true -> forall roots st st',
  span_roots g roots st = Ok st' -> SI [] st -> CV g [] st ->
  SI [] st' /\ CV g [] st' /\ (forall v j, jobof st v = Some j -> jobof st' v = Some j) /\
  (forall r s, In r roots -> nth_error g r = Some s -> is_pkg s = true -> exists j, jobof st' (s_vid s) = Some j).
Proof.
  intros W. induction roots as [|r rest IH]; intros st st' H HS HV; cbn [span_roots] in H.
  - inversion H; subst. split; [exact HS|]. split; [exact HV|]. split; [auto|intros ? ? []].
  - destruct (op_dummy st HS) as (S1 & C1 & F1 & _).
    unfold alloc_job in H, S1, C1, F1. cbn [snd] in S1, C1, F1.
    set (st1 := mkSt _ _ _ _ _ _) in *.
    destruct (add_step (S (length g)) g r (st_next st) st1) as [[st2 cs]| |] eqn:Ea; try discriminate.
    assert (Hr : exists s, nth_error g r = Some s).
    { cbn [add_step] in Ea. destruct (nth_error g r) as [s|]; [exists s; reflexivity|discriminate]. }
    destruct Hr as [s Hs].
    assert (V1 : CV g [] st1) by (eapply CV_frame; [exact HS|exact F1|intros k j0 Hk; exact Hk|exact HV]).
    destruct (add_step_spec g W (S (length g)) r (st_next st) st1 st2 cs [] s [] Ea Hs S1 C1) as (S2 & F2 & _ & V2 & T2); auto.
    + intros p [].
    + intros p k jk [].
    + destruct (IH st2 st' H S2 V2) as (S3 & V3 & M3 & R3).
      split; [exact S3|]. split; [exact V3|]. split.
      * intros v j Hv. apply M3. apply (fr_jobof _ _ _ _ F2). exact Hv.
      * intros r0 s0 [<-|Hr0] Hs0 Hp0.
        -- rewrite Hs in Hs0. inversion Hs0; subst s0.
           destruct (T2 r s (tg_pkg g r s Hs Hp0) Hs) as (jq & Hjq & _). exists jq. apply M3. exact Hjq.
        -- apply (R3 r0 s0 Hr0 Hs0 Hp0).
Qed.

Lemma SI_init : SI [] init_state.
Proof.
  constructor; try (intros; discriminate); try (intros ? []).
  - constructor.
  - intros j. split; [intros []|intros (v & Hv); discriminate].
Qed.

(* after spanning: the invariant of the merge phase *)
Lemma SI_rank st J K : SI [] st -> clos_trans_1n nat (E st) J K ->
  forall vJ vK, jobof st vJ = Some J -> jobof st vK = Some K -> (vK < vJ)%N.
Proof.
  intros HS P. induction P as [J K (p & L & Hp & HJ)|J M K (p & (vM & HM) & Hp & HJ) _ IH]; intros vJ vK HvJ HvK.
  - assert (p = vJ) by (eapply SI_inj; eassumption). subst p.
    apply (si_par _ _ HS vK K vJ HvK Hp).
  - assert (p = vJ) by (eapply SI_inj; eassumption). subst p.
    destruct (si_par _ _ HS vM M vJ HM Hp) as [_ L1]. pose proof (IH vM vK HM HvK). lia.
Qed.

Lemma SI_Inv st : SI [] st -> Inv st /\ LInv st.
Proof.
  intros HS. split.
  - constructor.
    + intros v j Hv. destruct (si_pk _ _ HS v j Hv) as [-> _]. left. reflexivity.
    + intros j v (v0 & Hv0) Hin. destruct (si_pk _ _ HS v0 j Hv0) as [E0 _]. rewrite E0 in Hin.
      destruct Hin as [<-|[]]. exact Hv0.
    + intros j p (v0 & Hv0) Hp. apply (si_par _ _ HS v0 j p Hv0 Hp).
    + intros K p J (k & Hk) Hp HJ.
      pose proof (si_closed _ _ HS k K p J Hk Hp (fun x => x) HJ) as C.
      split; intros x Hx; apply C, In_reach; auto.
    + intros J P. assert (L : live st J) by (inversion P; subst; eapply E_live_l; eassumption).
      destruct L as (vJ & HvJ).
      pose proof (SI_rank st J J HS P vJ vJ HvJ HvJ). lia.
  - constructor.
    + apply (si_nodup _ _ HS).
    + intros j Hj. apply (si_listed _ _ HS), Hj.
    + intros j Hj. apply (si_listed _ _ HS), Hj.
Qed.

Lemma CV_init g : CV g [] init_state.
Proof. intros k j H. discriminate. Qed.

Definition roots_known (g : graph) (roots : list nat) (st : sstate) : Prop :=
  forall r s, In r roots -> nth_error g r = Some s -> is_pkg s = true -> exists j, jobof st (s_vid s) = Some j.

Theorem span_Inv g roots st : wf g = true -> span g roots = Ok st ->
  Inv st /\ LInv st /\ Cover g st /\ roots_known g roots st.
Proof.
  intros W H.
  destruct (span_roots_spec g W roots init_state st H SI_init (CV_init g)) as (S & V & _ & R).
  destruct (SI_Inv st S) as [I L]. split; [exact I|]. split; [exact L|]. split; [|exact R].
  intros k j Hk. apply (V k j Hk). intros [].
Qed.

Lemma Cover_mono g st st' :
  Cover g st -> PMono st st' -> st_ref st' = st_ref st -> st_v2n st' = st_v2n st ->
  (forall v, jobof st' v = None <-> jobof st v = None) -> Cover g st'.
Proof.
  intros HC PM R1 R2 HN k j' Hk.
  destruct (jobof st k) as [j|] eqn:Ek; [|apply HN in Ek; congruence].
  destruct (HC k j Ek) as (P & sP & H1 & H2 & H3 & H4 & H5 & H6).
  exists P, sP. split; [rewrite R1; exact H1|]. split; [exact H2|]. split; [exact H3|]. split; [exact H4|].
  split; [rewrite R2; exact H5|].
  intros Q sQ HQ HsQ. destruct (H6 Q sQ HQ HsQ) as (jq & Hjq & Hin).
  destruct (PM _ _ Hjq) as (jq' & A & B). exists jq'. split; [exact A|apply B; exact Hin].
Qed.

Theorem sanitize_Inv g roots nm : wf g = true -> sanitize g roots = Ok nm ->
  Inv (nm_state nm) /\ LInv (nm_state nm) /\ Cover g (nm_state nm) /\ roots_known g roots (nm_state nm).
Proof.
  intros W H. unfold sanitize in H.
  destruct (span g roots) as [st0| |] eqn:Es; try discriminate.
  destruct (merge_all st0) as [st| |] eqn:Em; try discriminate.
  destruct (final_names st (sort_by fst (st_n2j st)) []) as [fnm| |]; try discriminate.
  inversion H; subst nm; clear H. simpl.
  destruct (span_Inv g roots st0 W Es) as (I0 & L0 & C0 & R0).
  destruct (merge_all_spec st0 st Em I0 L0) as (I1 & L1 & (T1 & T2 & T3 & T4)).
  split; [exact I1|]. split; [exact L1|]. split.
  - eapply Cover_mono; eassumption.
  - intros r s Hr Hs Hp. destruct (R0 r s Hr Hs Hp) as (j & Hj). destruct (T4 _ _ Hj) as (j' & A & _). exists j'. exact A.
Qed.

(* ------------------------------------------------------------------ witnesses (findings F4 and F13) *)
Open Scope N_scope.
(* witness_f13: corpus/C20/f13_cyclic_reference_instance.json *)
Definition witness_f13_graph : graph :=
  [(mkS KCheckout 1 23 0 [117;116;105;108;45;97] [117;116;105;108] false false (@nil N) (@nil N) None);
   (mkS KCheckout 1 21 1 [117;116;105;108] [117;116;105;108] false false (@nil N) (@nil N) None);
   (mkS KCheckout 1 19 2 [115;98;120;45;100;101;118] [115;98;120] false false (@nil N) (@nil N) None);
   (mkS KCheckout 1 17 3 [115;98;120;45;97;45;98] [115;98;120] false false (@nil N) (@nil N) None);
   (mkS KCheckout 1 15 4 [115;98;120] [115;98;120] false false (@nil N) (@nil N) None);
   (mkS KBuild 3 15 4 [115;98;120] [115;98;120] false true [4] (@nil N) None);
   (mkS KCheckout 1 14 5 [115;98;120;45;50] [115;98;120] false false (@nil N) (@nil N) None);
   (mkS KCheckout 1 12 6 [115;98;120;45;100;101;118] [115;98;120] false false (@nil N) (@nil N) None);
   (mkS KCheckout 1 10 7 [115;98;120;45;97;45;98] [115;98;120] false false (@nil N) (@nil N) None);
   (mkS KBuild 5 10 7 [115;98;120;45;97;45;98] [115;98;120] false true [8] (@nil N) None);
   (mkS KPackage 2 10 7 [115;98;120;45;97;45;98] [115;98;120] false true [9] (@nil N) None);
   (mkS KBuild 7 12 6 [115;98;120;45;100;101;118] [115;98;120] false true [7; 10] (@nil N) (Some 10));
   (mkS KPackage 10 12 6 [115;98;120;45;100;101;118] [115;98;120] false true [11] (@nil N) (Some 10));
   (mkS KBuild 9 14 5 [115;98;120;45;50] [115;98;120] false true [6; 12] (@nil N) None);
   (mkS KPackage 4 14 5 [115;98;120;45;50] [115;98;120] false true [13] (@nil N) None);
   (mkS KPackage 6 15 4 [115;98;120] [115;98;120] false true [5] [14] None);
   (mkS KBuild 11 17 3 [115;98;120;45;97;45;98] [115;98;120] false true [3] (@nil N) (Some 15));
   (mkS KPackage 8 17 3 [115;98;120;45;97;45;98] [115;98;120] false true [16] (@nil N) (Some 15));
   (mkS KBuild 7 19 2 [115;98;120;45;100;101;118] [115;98;120] false true [2; 17] (@nil N) (Some 17));
   (mkS KPackage 10 19 2 [115;98;120;45;100;101;118] [115;98;120] false true [18] (@nil N) (Some 17));
   (mkS KBuild 13 21 1 [117;116;105;108] [117;116;105;108] false true [1; 19] (@nil N) (Some 15));
   (mkS KPackage 12 21 1 [117;116;105;108] [117;116;105;108] false true [20] (@nil N) (Some 15));
   (mkS KBuild 15 23 0 [117;116;105;108;45;97] [117;116;105;108] false true [0; 21] (@nil N) (Some 15));
   (mkS KPackage 14 23 0 [117;116;105;108;45;97] [117;116;105;108] false true [22] (@nil N) (Some 15))].
Definition witness_f13_roots : list nat := map N.to_nat [23].
Definition witness_f13_sroots : list nat := map N.to_nat [23].
(* witness_f4: corpus/C20/f4_case_collision.json *)
Definition witness_f4_graph : graph :=
  [(mkS KCheckout 1 11 0 [114;111;111;116] [114;111;111;116] false false (@nil N) (@nil N) None);
   (mkS KCheckout 1 9 1 [108;105;98] [108;105;98] false false (@nil N) (@nil N) None);
   (mkS KCheckout 1 7 2 [109;105;100] [109;105;100] false false (@nil N) (@nil N) None);
   (mkS KCheckout 1 5 3 [76;105;98] [76;105;98] false false (@nil N) (@nil N) None);
   (mkS KBuild 3 5 3 [76;105;98] [76;105;98] false true [3] (@nil N) None);
   (mkS KPackage 2 5 3 [76;105;98] [76;105;98] false true [4] (@nil N) None);
   (mkS KBuild 5 7 2 [109;105;100] [109;105;100] false true [2; 5] (@nil N) None);
   (mkS KPackage 4 7 2 [109;105;100] [109;105;100] false true [6] (@nil N) None);
   (mkS KBuild 7 9 1 [108;105;98] [108;105;98] false true [1; 7] (@nil N) None);
   (mkS KPackage 6 9 1 [108;105;98] [108;105;98] false true [8] (@nil N) None);
   (mkS KBuild 9 11 0 [114;111;111;116] [114;111;111;116] false true [0; 9] (@nil N) None);
   (mkS KPackage 8 11 0 [114;111;111;116] [114;111;111;116] false true [10] (@nil N) None)].
Definition witness_f4_roots : list nat := map N.to_nat [11].
Definition witness_f4_sroots : list nat := map N.to_nat [11].
(* witness_merge: corpus/C20/f4_numbering_collision.json: jobs {q-a,q-b}[V=1] -> t -> {q-b,q-c}[V=2], numbered q-1, q-2; recipe q-1 *)
Definition witness_merge_graph : graph :=
  [(mkS KCheckout 1 20 0 [114;111;111;116] [114;111;111;116] false false (@nil N) (@nil N) None);
   (mkS KCheckout 1 12 1 [113;45;97] [113] false false (@nil N) (@nil N) None);
   (mkS KCheckout 1 10 2 [116] [116] false false (@nil N) (@nil N) None);
   (mkS KCheckout 1 5 3 [113;45;98] [113] false false (@nil N) (@nil N) None);
   (mkS KBuild 3 5 3 [113;45;98] [113] false true [3] (@nil N) None);
   (mkS KPackage 2 5 3 [113;45;98] [113] false true [4] (@nil N) None);
   (mkS KCheckout 1 8 4 [113;45;99] [113] false false (@nil N) (@nil N) None);
   (mkS KBuild 5 8 4 [113;45;99] [113] false true [6] (@nil N) None);
   (mkS KPackage 4 8 4 [113;45;99] [113] false true [7] (@nil N) None);
   (mkS KBuild 7 10 2 [116] [116] false true [2; 5; 8] (@nil N) None);
   (mkS KPackage 6 10 2 [116] [116] false true [9] (@nil N) None);
   (mkS KBuild 9 12 1 [113;45;97] [113] false true [1; 10] (@nil N) None);
   (mkS KPackage 8 12 1 [113;45;97] [113] false true [11] (@nil N) None);
   (mkS KCheckout 1 15 5 [113;45;98] [113] false false (@nil N) (@nil N) None);
   (mkS KBuild 11 15 5 [113;45;98] [113] false true [13] (@nil N) None);
   (mkS KPackage 10 15 5 [113;45;98] [113] false true [14] (@nil N) None);
   (mkS KCheckout 1 18 6 [113;45;49] [113;45;49] false false (@nil N) (@nil N) None);
   (mkS KBuild 13 18 6 [113;45;49] [113;45;49] false true [16] (@nil N) None);
   (mkS KPackage 12 18 6 [113;45;49] [113;45;49] false true [17] (@nil N) None);
   (mkS KBuild 15 20 0 [114;111;111;116] [114;111;111;116] false true [0; 12; 15; 18] (@nil N) None);
   (mkS KPackage 14 20 0 [114;111;111;116] [114;111;111;116] false true [19] (@nil N) None)].
Definition witness_merge_roots : list nat := map N.to_nat [20].
(* impl: abstract [[[2, 4], [6], [2, 4]], [[6], [8], [2, 4, 6]], [[8, 10], [14], [2, 4, 6, 8, 10]], [[12], [14], [12]], [[14], [], [2, 4, 6, 8, 10, 12, 14]]] names [[2, 'q-2'], [4, 'q-2'], [6, 't'], [8, 'q-1'], [10, 'q-1'], [12, 'q-1'], [14, 'root']] *)

Close Scope N_scope.

(* two distinct abstract jobs whose names differ only in case: one internal Jenkins job name *)
Definition name_collision (nm : named) : Prop :=
  exists v1 v2 n1 n2 j1 j2,
    lookupN v1 (nm_names nm) = Some n1 /\ lookupN v2 (nm_names nm) = Some n2 /\
    jobof (nm_state nm) v1 = Some j1 /\ jobof (nm_state nm) v2 = Some j2 /\ j1 <> j2 /\
    internal_of n1 = internal_of n2.

Lemma names_unique_refuted_proof :
  exists g roots nm, wf g = true /\ wf_roots g roots = true /\ sanitize g roots = Ok nm /\ name_collision nm.
Proof.
  exists witness_f4_graph, witness_f4_roots.
  destruct (sanitize witness_f4_graph witness_f4_roots) as [nm| |] eqn:E; [|vm_compute in E; discriminate..].
  exists nm. split; [vm_compute; reflexivity|]. split; [vm_compute; reflexivity|]. split; [reflexivity|].
  vm_compute in E. inversion E; subst nm; clear E.
  exists 2%N, 6%N. eexists. eexists. eexists. eexists.
  split; [vm_compute; reflexivity|]. split; [vm_compute; reflexivity|].
  split; [vm_compute; reflexivity|]. split; [vm_compute; reflexivity|]. split; [discriminate|].
  vm_compute. reflexivity.
Qed.

Definition no_collision (names : list (N * str)) : bool :=
  forallb (fun '(v1, n1) => forallb (fun '(v2, n2) => str_eqb n1 n2 || negb (str_eqb (internal_of n1) (internal_of n2))) names) names.

(* an acyclic project, well-formed in shape, without any name collision: the generated jobs are cyclic *)
Lemma job_graph_acyclic_refuted_proof :
  exists g roots sroots abs names jobs,
    wf_shape g = true /\ wf_roots g roots = true /\
    run [] false g roots sroots = Jobs abs names jobs true /\ no_collision names = true /\
    length abs = length names.
Proof.
  exists witness_f13_graph, witness_f13_roots, witness_f13_sroots.
  destruct (run [] false witness_f13_graph witness_f13_roots witness_f13_sroots) as [a n j c| | |] eqn:E;
    [|vm_compute in E; discriminate..].
  exists a, n, j. vm_compute in E. inversion E; subst. repeat split; vm_compute; reflexivity.
Qed.

(* ------------------------------------------------------------------ main lemmas *)
Lemma reaches_complete st I J : Inv st -> clos_trans_1n nat (E st) I J -> reaches st I J = true.
Proof. intros HI P. apply reaches_spec. apply reach_closed; assumption. Qed.

Lemma childs_closed_invariant_proof :
  (forall g roots st, wf g = true -> span g roots = Ok st -> closed st) /\
  (forall st i j st', Inv st -> live st i -> live st j -> i <> j ->
     reaches st i j = false -> reaches st j i = false -> merge_two st i j = Ok st' -> Inv st') /\
  (forall g roots nm, wf g = true -> sanitize g roots = Ok nm -> closed (nm_state nm)) /\
  (forall st I J, Inv st -> clos_trans_1n nat (E st) I J -> reaches st I J = true).
Proof.
  split; [|split; [|split]].
  - intros g roots st W H. apply (inv_closed _ (proj1 (span_Inv g roots st W H))).
  - intros st i j st' HI Li Lj Hij R1 R2 H. apply (merge_two_inv st i j st' HI Li Lj Hij R1 R2 H).
  - intros g roots nm W H. apply (inv_closed _ (proj1 (sanitize_Inv g roots nm W H))).
  - exact reaches_complete.
Qed.

Lemma merge_preserves_acyclic_proof : forall g roots nm,
  wf g = true -> sanitize g roots = Ok nm -> forall J, ~ clos_trans_1n nat (E (nm_state nm)) J J.
Proof. intros g roots nm W H. apply (inv_acyclic _ (proj1 (sanitize_Inv g roots nm W H))). Qed.

(* ---- the recorded job graph covers the real dependencies *)
Lemma jdep_E g st J K : Cover g st -> jdep g st J K -> E st J K.
Proof.
  intros HC (k & P & Q & sQ & Hk & HP & HQ & HsQ & HK).
  destruct (HC k J Hk) as (P' & sP & H1 & _ & _ & _ & _ & H6). rewrite HP in H1. inversion H1; subst P'.
  destruct (H6 Q sQ HQ HsQ) as (jq & Hjq & Hin). rewrite HK in Hjq. inversion Hjq; subst jq.
  exists k. split; [exists (s_vid sQ); exact HK|]. split; [exact Hin|exact Hk].
Qed.

Lemma job_graph_acyclic_partial_proof : forall g roots nm,
  wf g = true -> sanitize g roots = Ok nm -> forall J, ~ clos_trans_1n nat (jdep g (nm_state nm)) J J.
Proof.
  intros g roots nm W H J P. destruct (sanitize_Inv g roots nm W H) as (I & _ & C & _).
  apply (inv_acyclic _ I J). eapply t1n_map; [|exact P]. intros a b. apply jdep_E. exact C.
Qed.

Lemma known_one_job st v j : Inv st -> jobof st v = Some j -> in_exactly_one_job st v.
Proof.
  intros I Hv. exists j. split; [exists v; exact Hv|]. split; [apply (inv_in _ I), Hv|].
  intros K LK Hin. pose proof (inv_own _ I K v LK Hin). congruence.
Qed.

Lemma needed_known g st roots : Cover g st -> roots_known g roots st -> wf_roots g roots = true ->
  forall k, needed g st roots k -> exists j, jobof st k = Some j.
Proof.
  intros HC HR WR k Hn. induction Hn as [r s Hr Hs|k P Q sQ _ [j Hj] HP HQ HsQ].
  - apply (HR r s Hr Hs). unfold wf_roots in WR. rewrite forallb_forall in WR. specialize (WR r Hr). now rewrite Hs in WR.
  - destruct (HC k j Hj) as (P' & sP & H1 & _ & _ & _ & _ & H6). rewrite HP in H1. inversion H1; subst P'.
    destruct (H6 Q sQ HQ HsQ) as (jq & Hjq & _). exists jq. exact Hjq.
Qed.

Lemma every_needed_variant_in_exactly_one_job_proof : forall g roots nm,
  wf g = true -> wf_roots g roots = true -> sanitize g roots = Ok nm ->
  forall k, needed g (nm_state nm) roots k -> in_exactly_one_job (nm_state nm) k.
Proof.
  intros g roots nm W WR H k Hn. destruct (sanitize_Inv g roots nm W H) as (I & _ & C & R).
  destruct (needed_known g _ roots C R WR k Hn) as [j Hj]. eapply known_one_job; eassumption.
Qed.

Lemma target_is_pkg g d Q : target g d Q -> exists sQ, nth_error g Q = Some sQ /\ is_pkg sQ = true.
Proof. induction 1 as [d sd H1 H2|d sd e q _ _ _ _ IH]; [exists sd; auto|exact IH]. Qed.

Lemma every_reachable_pkg_in_exactly_one_job_proof : forall g roots nm,
  wf g = true -> wf_roots g roots = true -> consistent_deps g -> sanitize g roots = Ok nm ->
  forall Q sQ, reachable g roots Q -> nth_error g Q = Some sQ -> in_exactly_one_job (nm_state nm) (s_vid sQ).
Proof.
  intros g roots nm W WR CD H Q sQ HQ HsQ. destruct (sanitize_Inv g roots nm W H) as (I & _ & C & R).
  assert (K : exists j, jobof (nm_state nm) (s_vid sQ) = Some j /\ is_pkg sQ = true).
  { revert sQ HsQ. induction HQ as [r Hr|P Q HP IH HPQ]; intros sQ HsQ.
    - assert (Hp : is_pkg sQ = true).
      { unfold wf_roots in WR. rewrite forallb_forall in WR. specialize (WR r Hr). now rewrite HsQ in WR. }
      destruct (R r sQ Hr HsQ Hp) as [j Hj]. exists j. auto.
    - destruct HPQ as (sP & e & HsP & HpP & He & HT). destruct (IH sP HsP) as (j & Hj & _).
      destruct (C (s_vid sP) j Hj) as (P' & sP' & H1 & H2 & H3 & H4 & _ & H6).
      destruct (CD P P' sP sP' Q sQ HsP H2 HpP H3 (eq_sym H4)) as (Q' & sQ' & HPQ' & HsQ' & Hv); auto.
      { exists sP, e. auto. }
      destruct (H6 Q' sQ' HPQ' HsQ') as (jq & Hjq & _). rewrite Hv in Hjq.
      destruct (target_is_pkg g e Q HT) as (sQ0 & A & B). rewrite HsQ in A. inversion A; subst sQ0.
      exists jq. auto. }
  destruct K as (j & Hj & _). eapply known_one_job; eassumption.
Qed.

(* a job depends on the jobs of all dependencies of its packages, and never on itself *)
Lemma job_depends_on_jobs_of_deps_proof : forall g roots nm,
  wf g = true -> sanitize g roots = Ok nm ->
  forall k J P Q sQ, jobof (nm_state nm) k = Some J -> lookupN k (st_ref (nm_state nm)) = Some P ->
  pdep g P Q -> nth_error g Q = Some sQ ->
  exists K, jobof (nm_state nm) (s_vid sQ) = Some K /\ K <> J /\ In k (pa (nm_state nm) K) /\
            sub (pk (nm_state nm) K) (ch (nm_state nm) J) /\ sub (ch (nm_state nm) K) (ch (nm_state nm) J).
Proof.
  intros g roots nm W H k J P Q sQ Hk HP HQ HsQ. destruct (sanitize_Inv g roots nm W H) as (I & _ & C & _).
  destruct (C k J Hk) as (P' & sP & H1 & _ & _ & _ & _ & H6). rewrite HP in H1. inversion H1; subst P'.
  destruct (H6 Q sQ HQ HsQ) as (K & HK & Hin). exists K. split; [exact HK|].
  assert (L : live (nm_state nm) K) by (exists (s_vid sQ); exact HK).
  split; [|split; [exact Hin|apply (inv_closed _ I K k J L Hin Hk)]].
  intros ->. apply (inv_acyclic _ I J). apply t1n_step. exists k. auto.
Qed.

(* ------------------------------------------------------------------ names *)
Lemma In_insert_by {A} (key : A -> str) a l x : In x (insert_by key a l) <-> x = a \/ In x l.
Proof.
  induction l as [|y l IH]; simpl; [intuition|].
  destruct (str_ltb (key a) (key y)); simpl; [intuition|]. rewrite IH. intuition.
Qed.

Lemma In_sort_fold {A} (key : A -> str) l : forall acc x,
  In x (fold_left (fun acc y => insert_by key y acc) l acc) <-> In x l \/ In x acc.
Proof.
  induction l as [|y l IH]; intros acc x; simpl; [intuition|].
  rewrite IH, In_insert_by. intuition.
Qed.

Lemma In_sort_by {A} (key : A -> str) l x : In x (sort_by key l) <-> In x l.
Proof. unfold sort_by. rewrite In_sort_fold. simpl. intuition. Qed.

Lemma In_flat_sort (m : list (str * list nat)) j :
  In j (flat_map snd (sort_by fst m)) <-> In j (flat_map snd m).
Proof.
  rewrite !in_flat_map. split; intros (x & Hx & Hj); exists x; (split; [|exact Hj]); apply In_sort_by in Hx || apply In_sort_by; exact Hx.
Qed.

Lemma In_fn_append name js fnm j :
  In j (flat_map snd (fn_append name js fnm)) <-> In j (flat_map snd fnm) \/ In j js.
Proof.
  unfold fn_append. induction fnm as [|[k0 v0] m IH]; simpl.
  - rewrite app_nil_r. intuition.
  - destruct (str_eqb name k0); simpl; rewrite !in_app_iff; [intuition|]. rewrite IH. intuition.
Qed.

Lemma final_names_jobs_In st : forall jobs fnm fnm', final_names_jobs st jobs fnm = Ok fnm' ->
  forall j, In j (flat_map snd fnm') <-> In j (flat_map snd fnm) \/ In j jobs.
Proof.
  induction jobs as [|a jobs IH]; intros fnm fnm' H j; simpl in H.
  - inversion H; subst. simpl. intuition.
  - destruct (longest_prefix st (a_pkgs (get_job st a))) as [n| |]; try discriminate.
    rewrite (IH _ _ H j), In_fn_append. simpl. intuition.
Qed.

Lemma final_names_In st : forall items fnm fnm', final_names st items fnm = Ok fnm' ->
  forall j, In j (flat_map snd fnm') <-> In j (flat_map snd fnm) \/ In j (flat_map snd items).
Proof.
  induction items as [|[name jobs] items IH]; intros fnm fnm' H j; simpl in H.
  - inversion H; subst. simpl. intuition.
  - simpl. rewrite in_app_iff. destruct (Nat.ltb 1 (length jobs)).
    + destruct (final_names_jobs st jobs fnm) as [f1| |] eqn:E1; try discriminate.
      rewrite (IH _ _ H j), (final_names_jobs_In st _ _ _ E1 j). intuition.
    + rewrite (IH _ _ H j), In_fn_append. intuition.
Qed.

Lemma assign_lookup ps name : forall pn v,
  lookupN v (assign ps name pn) = if mem v ps then Some name else lookupN v pn.
Proof.
  unfold assign. induction ps as [|p r IH]; intros pn v; simpl; [reflexivity|].
  rewrite IH. simpl. destruct (mem v r); [now rewrite orb_true_r|]. rewrite orb_false_r. reflexivity.
Qed.

(* two packages that are in the same jobs get the same name *)
Definition same_jobs (st : sstate) (jobs : list nat) (v1 v2 : N) : Prop :=
  forall j, In j jobs -> mem v1 (pk st j) = mem v2 (pk st j).

Lemma number_jobs_same st name : forall jobs i pn v1 v2,
  same_jobs st jobs v1 v2 -> lookupN v1 pn = lookupN v2 pn ->
  lookupN v1 (number_jobs st name i jobs pn) = lookupN v2 (number_jobs st name i jobs pn).
Proof.
  induction jobs as [|j jobs IH]; intros i pn v1 v2 HS HE; simpl; [exact HE|].
  apply IH; [intros k Hk; apply HS; right; exact Hk|].
  rewrite !assign_lookup. fold (pk st j). rewrite (HS j (or_introl eq_refl)). destruct (mem v2 (pk st j)); auto.
Qed.

Lemma package_names_same st : forall items pn v1 v2,
  same_jobs st (flat_map snd items) v1 v2 -> lookupN v1 pn = lookupN v2 pn ->
  lookupN v1 (package_names st items pn) = lookupN v2 (package_names st items pn).
Proof.
  induction items as [|[name jobs] items IH]; intros pn v1 v2 HS HE; simpl; [exact HE|].
  assert (HS1 : same_jobs st jobs v1 v2) by (intros k Hk; apply HS; simpl; apply in_or_app; left; exact Hk).
  assert (HS2 : same_jobs st (flat_map snd items) v1 v2) by (intros k Hk; apply HS; simpl; apply in_or_app; right; exact Hk).
  destruct jobs as [|j [|j2 jobs]].
  - apply IH; [exact HS2|exact HE].
  - apply IH; [exact HS2|]. rewrite !assign_lookup. fold (pk st j). rewrite (HS1 j (or_introl eq_refl)).
    destruct (mem v2 (pk st j)); auto.
  - apply IH; [exact HS2|]. apply number_jobs_same; assumption.
Qed.

Lemma number_jobs_some st name : forall jobs i pn v,
  (lookupN v pn <> None \/ exists j, In j jobs /\ In v (pk st j)) ->
  lookupN v (number_jobs st name i jobs pn) <> None.
Proof.
  induction jobs as [|j jobs IH]; intros i pn v H; simpl.
  - destruct H as [H|(j & [] & _)]. exact H.
  - apply IH. rewrite assign_lookup. fold (pk st j). destruct (mem v (pk st j)) eqn:Em; [left; discriminate|].
    destruct H as [H|(k & [<-|Hk] & Hv)]; [left; exact H| |right; exists k; auto].
    apply mem_In in Hv. congruence.
Qed.

Lemma package_names_some st : forall items pn v,
  (lookupN v pn <> None \/ exists j, In j (flat_map snd items) /\ In v (pk st j)) ->
  lookupN v (package_names st items pn) <> None.
Proof.
  induction items as [|[name jobs] items IH]; intros pn v H; simpl.
  - destruct H as [H|(j & [] & _)]. exact H.
  - assert (C : (lookupN v pn <> None \/ exists j, In j jobs /\ In v (pk st j)) \/
                exists j, In j (flat_map snd items) /\ In v (pk st j)).
    { destruct H as [H|(j & Hj & Hv)]; [left; left; exact H|]. simpl in Hj. apply in_app_or in Hj as [Hj|Hj]; [left; right|right]; exists j; auto. }
    destruct jobs as [|j [|j2 jobs]]; apply IH.
    + destruct C as [[C|(j & [] & _)]|C]; [left; exact C|right; exact C].
    + rewrite assign_lookup. fold (pk st j). destruct (mem v (pk st j)) eqn:Em; [left; discriminate|].
      destruct C as [[C|(k & [<-|[]] & Hv)]|C]; [left; exact C| |right; exact C].
      apply mem_In in Hv. congruence.
    + destruct C as [C|C]; [left; apply number_jobs_some; exact C|right; exact C].
Qed.

(* a job has one name, and every package that was spanned has a name *)
Lemma names_unique_partial_proof : forall g roots nm,
  wf g = true -> sanitize g roots = Ok nm ->
  (forall v j, jobof (nm_state nm) v = Some j -> exists n, lookupN v (nm_names nm) = Some n) /\
  (forall v1 v2 j, jobof (nm_state nm) v1 = Some j -> jobof (nm_state nm) v2 = Some j ->
                   lookupN v1 (nm_names nm) = lookupN v2 (nm_names nm)).
Proof.
  intros g roots nm W H. destruct (sanitize_Inv g roots nm W H) as (I & L & _ & _).
  unfold sanitize in H.
  destruct (span g roots) as [st0| |]; try discriminate.
  destruct (merge_all st0) as [st| |]; try discriminate.
  destruct (final_names st (sort_by fst (st_n2j st)) []) as [fnm| |] eqn:Ef; try discriminate.
  inversion H; subst nm; clear H. simpl in *.
  assert (HJ : forall j, In j (flat_map snd (sort_by fst fnm)) <-> live st j).
  { intros j. rewrite In_flat_sort, (final_names_In st _ _ _ Ef j). simpl. rewrite In_flat_sort.
    split; [intros [[]|Hj]; apply (li_live _ L), Hj|intros Hj; right; apply (li_all _ L), Hj]. }
  split.
  - intros v j Hv. destruct (lookupN v (package_names st (sort_by fst fnm) [])) as [n|] eqn:E; [exists n; reflexivity|].
    exfalso. revert E. apply package_names_some. right. exists j. split; [apply HJ; exists v; exact Hv|apply (inv_in _ I), Hv].
  - intros v1 v2 j H1 H2. apply package_names_same; [|reflexivity].
    intros k Hk. apply HJ in Hk.
    destruct (mem v1 (pk st k)) eqn:E1, (mem v2 (pk st k)) eqn:E2; try reflexivity; exfalso.
    + apply mem_In in E1. pose proof (inv_own _ I k v1 Hk E1) as A. rewrite H1 in A. inversion A; subst k.
      apply mem_false in E2. apply E2. apply (inv_in _ I), H2.
    + apply mem_In in E2. pose proof (inv_own _ I k v2 Hk E2) as A. rewrite H2 in A. inversion A; subst k.
      apply mem_false in E1. apply E1. apply (inv_in _ I), H1.
Qed.

(* ------------------------------------------------------------------ JenkinsJob.addStep / _genJenkinsJobs *)
Lemma str_eqb_refl a : str_eqb a a = true.
Proof. induction a as [|x a IH]; simpl; [reflexivity|]. now rewrite N.eqb_refl, IH. Qed.

Lemma str_eqb_eq a b : str_eqb a b = true <-> a = b.
Proof.
  revert b; induction a as [|x a IH]; intros [|y b]; simpl; split; intro H; try congruence; try reflexivity.
  - apply andb_true_iff in H as [H1 H2]. apply N.eqb_eq in H1. apply IH in H2. congruence.
  - inversion H; subst. now rewrite N.eqb_refl, str_eqb_refl.
Qed.

Lemma lookup_update_str {A} k (f : option A -> A) (m : list (str * A)) n :
  lookup_str n (update_str k f m) = if str_eqb n k then Some (f (lookup_str k m)) else lookup_str n m.
Proof.
  induction m as [|[k0 v0] m IH]; simpl.
  - destruct (str_eqb n k); reflexivity.
  - destruct (str_eqb k k0) eqn:E; simpl.
    + apply str_eqb_eq in E. subst k0. destruct (str_eqb n k); reflexivity.
    + rewrite IH. destruct (str_eqb n k0) eqn:E0; [|reflexivity].
      destruct (str_eqb n k) eqn:E1; [|reflexivity].
      apply str_eqb_eq in E0, E1. subst. rewrite str_eqb_refl in E. discriminate.
Qed.

Definition have (jj : jjob) (v : N) : Prop := In v (j_steps jj) \/ In v (map fst (j_deps jj)).

Definition deps_wf (g : graph) (deps : list (N * nat)) : Prop :=
  forall v d, In (v, d) deps -> exists sd, nth_error g d = Some sd /\ s_vid sd = v /\ s_valid sd = true.

(* every variant built by the job has an instance all of whose valid dependencies are built by the job
   or recorded as dependencies; recorded dependencies are valid steps that the job does not build *)
Definition JJ_ok (g : graph) (jj : jjob) : Prop :=
  deps_wf g (j_deps jj) /\
  (forall v, In v (map fst (j_deps jj)) -> ~ In v (j_steps jj)) /\
  (forall v, In v (j_steps jj) -> exists sid s, nth_error g sid = Some s /\ s_vid s = v /\
     forall d sd, In d (alldeps s) -> nth_error g d = Some sd -> s_valid sd = true -> have jj (s_vid sd)).

Lemma lookupN_In {A} k (v : A) m : lookupN k m = Some v -> In (k, v) m.
Proof.
  induction m as [|[k0 v0] m IH]; simpl; [discriminate|]. destruct (N.eqb k k0) eqn:E.
  - intros H. inversion H; subst. apply N.eqb_eq in E. subst. left. reflexivity.
  - intros H. right. apply IH, H.
Qed.

Lemma lookupN_None {A} k (m : list (N * A)) : lookupN k m = None -> ~ In k (map fst m).
Proof.
  induction m as [|[k0 v0] m IH]; simpl; [tauto|]. destruct (N.eqb k k0) eqn:E; [discriminate|].
  intros H [H1|H1]; [apply N.eqb_neq in E; congruence|exact (IH H H1)].
Qed.

Lemma In_setdefaultN {A} k (v : A) m e : In e (setdefaultN k v m) <-> In e m \/ (lookupN k m = None /\ e = (k, v)).
Proof.
  unfold setdefaultN. destruct (lookupN k m) eqn:E.
  - split; [auto|intros [H|[H _]]; [exact H|discriminate]].
  - rewrite in_app_iff. simpl. split; intros [H|H]; auto.
    + destruct H as [<-|[]]. auto.
    + destruct H as [_ ->]. auto.
Qed.

Lemma setdefaultN_key {A} k (v : A) m : In k (map fst (setdefaultN k v m)).
Proof.
  unfold setdefaultN. destruct (lookupN k m) eqn:E.
  - apply lookupN_In in E. apply in_map_iff. exists (k, a). auto.
  - rewrite map_app, in_app_iff. right. left. reflexivity.
Qed.

Lemma In_remove_keyN {A} k (m : list (N * A)) v d : In (v, d) (remove_keyN k m) <-> In (v, d) m /\ v <> k.
Proof.
  induction m as [|[k0 v0] m IH]; simpl; [tauto|]. destruct (N.eqb k k0) eqn:E.
  - apply N.eqb_eq in E. subst k0. rewrite IH. split; [intros [H1 H2]; auto|].
    intros [[H|H] H2]; [inversion H; congruence|auto].
  - apply N.eqb_neq in E. simpl. rewrite IH. split.
    + intros [H|[H1 H2]]; [inversion H; subst; auto|auto].
    + intros [[H|H] H2]; auto.
Qed.

Lemma add_deps_spec g : forall ds steps deps deps',
  add_deps g ds steps deps = Ok deps' -> deps_wf g deps -> (forall v, In v (map fst deps) -> ~ In v steps) ->
  deps_wf g deps' /\ (forall v, In v (map fst deps') -> ~ In v steps) /\
  (forall e, In e deps -> In e deps') /\
  (forall d sd, In d ds -> nth_error g d = Some sd -> s_valid sd = true -> In (s_vid sd) steps \/ In (s_vid sd) (map fst deps')).
Proof.
  induction ds as [|d ds IH]; intros steps deps deps' H W D; simpl in H.
  - inversion H; subst. repeat split; auto. intros d sd [].
  - destruct (nth_error g d) as [sd|] eqn:Ed; [|discriminate].
    destruct (s_valid sd) eqn:Ev; simpl in H.
    + destruct (mem (s_vid sd) steps) eqn:Em.
      * destruct (IH _ _ _ H W D) as (A & B & C & F). repeat split; auto.
        intros d0 sd0 [<-|Hd] H0 V0; [|eapply F; eassumption].
        rewrite Ed in H0. inversion H0; subst sd0. left. apply mem_In. exact Em.
      * assert (W1 : deps_wf g (setdefaultN (s_vid sd) d deps)).
        { intros v d0 Hin. apply In_setdefaultN in Hin as [Hin|[_ Hin]]; [apply W; exact Hin|].
          inversion Hin; subst. exists sd. auto. }
        assert (D1 : forall v, In v (map fst (setdefaultN (s_vid sd) d deps)) -> ~ In v steps).
        { intros v Hv. apply in_map_iff in Hv as ([v0 d0] & <- & Hin). simpl.
          apply In_setdefaultN in Hin as [Hin|[_ Hin]].
          - apply D. apply in_map_iff. exists (v0, d0). auto.
          - inversion Hin; subst. apply mem_false. exact Em. }
        destruct (IH _ _ _ H W1 D1) as (A & B & C & F). split; [exact A|]. split; [exact B|]. split.
        -- intros e He. apply C. apply In_setdefaultN. left. exact He.
        -- intros d0 sd0 [<-|Hd] H0 V0; [|eapply F; eassumption].
           rewrite Ed in H0. inversion H0; subst sd0. right.
           pose proof (setdefaultN_key (s_vid sd) d deps) as K. apply in_map_iff in K as ([v0 d0] & E0 & Hin).
           simpl in E0. subst v0. apply in_map_iff. exists (s_vid sd, d0). split; [reflexivity|apply C; exact Hin].
    + destruct (IH _ _ _ H W D) as (A & B & C & F). repeat split; auto.
      intros d0 sd0 [<-|Hd] H0 V0; [|eapply F; eassumption]. rewrite Ed in H0. inversion H0; subst sd0. congruence.
Qed.

Lemma jj_add_step_ok g sid s jj jj' :
  nth_error g sid = Some s -> jj_add_step g sid s jj = Ok jj' -> JJ_ok g jj -> JJ_ok g jj' /\ j_name jj' = j_name jj.
Proof.
  intros Hs H (W & D & B). unfold jj_add_step in H.
  set (jj1 := match s_kind s with
              | KCheckout => _ | KBuild => _ | KPackage => _ end) in H.
  assert (E1 : j_steps jj1 = j_steps jj /\ j_deps jj1 = j_deps jj /\ j_name jj1 = j_name jj).
  { unfold jj1. destruct (s_kind s); simpl; auto. }
  destruct E1 as (E1 & E2 & E3).
  destruct (mem (s_vid s) (j_steps jj1)) eqn:Em.
  - inversion H; subst jj'. split; [|exact E3]. unfold JJ_ok, have. rewrite E1, E2. auto.
  - destruct (add_deps g (alldeps s) (j_steps jj1 ++ [s_vid s]) (remove_keyN (s_vid s) (j_deps jj1))) as [deps| |] eqn:Ea; try discriminate.
    inversion H; subst jj'; clear H. simpl. split; [|exact E3].
    rewrite E1, E2 in Ea. rewrite E1 in Em.
    assert (W0 : deps_wf g (remove_keyN (s_vid s) (j_deps jj))).
    { intros v d Hin. apply In_remove_keyN in Hin as [Hin _]. apply W. exact Hin. }
    assert (D0 : forall v, In v (map fst (remove_keyN (s_vid s) (j_deps jj))) -> ~ In v (j_steps jj ++ [s_vid s])).
    { intros v Hv Hin. apply in_map_iff in Hv as ([v0 d0] & <- & Hd). simpl in *.
      apply In_remove_keyN in Hd as [Hd Hne]. apply in_app_or in Hin as [Hin|[Hin|[]]]; [|congruence].
      apply (D v0); [apply in_map_iff; exists (v0, d0); auto|exact Hin]. }
    destruct (add_deps_spec g _ _ _ _ Ea W0 D0) as (A1 & A2 & A3 & A4).
    unfold JJ_ok, have. simpl. rewrite E1. split; [exact A1|]. split; [exact A2|].
    intros v Hv. apply in_app_or in Hv as [Hv|[<-|[]]].
    + destruct (B v Hv) as (sid0 & s0 & H0 & Hv0 & F0). exists sid0, s0. split; [exact H0|]. split; [exact Hv0|].
      intros d sd Hd Hsd Hval. destruct (F0 d sd Hd Hsd Hval) as [F|F].
      * left. apply in_or_app. left. exact F.
      * destruct (N.eq_dec (s_vid sd) (s_vid s)) as [E|NE].
        -- left. apply in_or_app. right. left. symmetry. exact E.
        -- right. apply in_map_iff in F as ([v0 d0] & E0 & Hin). simpl in E0. subst v0.
           apply in_map_iff. exists (s_vid sd, d0). split; [reflexivity|]. apply A3. apply In_remove_keyN. auto.
    + exists sid, s. split; [exact Hs|]. split; [reflexivity|]. intros d sd Hd Hsd Hval. apply (A4 d sd Hd Hsd Hval).
Qed.

Definition GOK (g : graph) (jobs : list (str * jjob)) : Prop :=
  forall n jj, lookup_str n jobs = Some jj -> JJ_ok g jj.

Lemma JJ_ok_empty g name disp : JJ_ok g (mkJJ name disp false [] [] [] [] []).
Proof. split; [intros v d []|]. split; [intros v []|intros v []]. Qed.

Lemma GOK_update g jobs name jj' : GOK g jobs -> JJ_ok g jj' -> GOK g (update_str name (fun _ => jj') jobs).
Proof.
  intros HG HJ n jj H. rewrite lookup_update_str in H. destruct (str_eqb n name).
  - inversion H; subst. exact HJ.
  - apply (HG n jj H).
Qed.

Definition GenSpec (g : graph) (rec : nat -> gstate -> res gstate) : Prop :=
  forall d gs gs', rec d gs = Ok gs' -> GOK g (g_jobs gs) -> GOK g (g_jobs gs').

Lemma loop_gen_ok g rec : GenSpec g rec -> forall ds gs gs', loop_gen rec ds gs = Ok gs' -> GOK g (g_jobs gs) -> GOK g (g_jobs gs').
Proof.
  intros HR. induction ds as [|d ds IH]; intros gs gs' H HG; simpl in H; [inversion H; subst; exact HG|].
  destruct (rec d gs) as [gs1| |] eqn:E; try discriminate. apply (IH gs1 gs' H). apply (HR d gs gs1 E HG).
Qed.

Lemma loop_gen_seen_ok g rec : GenSpec g rec -> forall ds gs gs', loop_gen_seen g rec ds gs = Ok gs' -> GOK g (g_jobs gs) -> GOK g (g_jobs gs').
Proof.
  intros HR. induction ds as [|d ds IH]; intros gs gs' H HG; simpl in H; [inversion H; subst; exact HG|].
  destruct (nth_error g d) as [sd|]; [|discriminate].
  destruct (mem (s_stack sd) (g_seen gs)); [apply (IH gs gs' H HG)|].
  destruct (rec d _) as [gs1| |] eqn:E; try discriminate. apply (IH gs1 gs' H). apply (HR d _ gs1 E). exact HG.
Qed.

Lemma gen_jobs_ok prefix short g nm : forall fuel, GenSpec g (gen_jobs fuel prefix short g nm).
Proof.
  induction fuel as [|f IH]; intros sid0 gs gs' H HG; [discriminate|].
  cbn [gen_jobs] in H.
  destruct (nth_error g sid0) as [s0|]; [|discriminate].
  destruct (if is_pkg s0 then lookupN (s_vid s0) (st_ref (nm_state nm)) else Some sid0) as [sid|]; [|discriminate].
  destruct (nth_error g sid) as [s|] eqn:Hs; [|discriminate].
  destruct (internal_name prefix g nm s) as [name| |]; destruct (display_name prefix g nm s) as [disp| |]; try discriminate.
  destruct (is_pkg s && short && mem (s_vid s) (g_vids gs)).
  - destruct (lookup_str name (g_jobs gs)); [|discriminate]. inversion H; subst. exact HG.
  - set (jj := match lookup_str name (g_jobs gs) with Some jj => jj | None => _ end) in H.
    assert (HJ : JJ_ok g jj).
    { unfold jj. destruct (lookup_str name (g_jobs gs)) as [jj0|] eqn:E; [apply (HG name jj0 E)|apply JJ_ok_empty]. }
    destruct (jj_add_step g sid s jj) as [jj'| |] eqn:Ea; try discriminate.
    destruct (jj_add_step_ok g sid s jj jj' Hs Ea HJ) as [HJ' _].
    match type of H with match loop_gen _ ?args ?gs1 with _ => _ end = _ =>
      destruct (loop_gen (gen_jobs f prefix short g nm) args gs1) as [gs2| |] eqn:El; try discriminate;
      assert (G2 : GOK g (g_jobs gs2)) by (apply (loop_gen_ok g _ IH _ _ _ El); simpl; apply GOK_update; assumption)
    end.
    destruct (is_pkg s).
    + apply (loop_gen_seen_ok g _ IH _ _ _ H G2).
    + inversion H; subst. exact G2.
Qed.

Lemma make_root_ok g n jobs : GOK g jobs -> GOK g (make_root n jobs).
Proof.
  intros HG. unfold make_root. destruct (lookup_str n jobs) as [jj|] eqn:E; [|exact HG].
  apply GOK_update; [exact HG|]. apply (HG n jj E).
Qed.

Lemma gen_roots_ok prefix short g nm : forall roots jobs jobs',
  gen_roots prefix short g nm roots jobs = Ok jobs' -> GOK g jobs -> GOK g jobs'.
Proof.
  induction roots as [|r rest IH]; intros jobs jobs' H HG; cbn [gen_roots] in H; [inversion H; subst; exact HG|].
  destruct (gen_jobs (S (S (length g))) prefix short g nm r (mkG jobs [] [])) as [gs| |] eqn:Eg; try discriminate.
  pose proof (gen_jobs_ok prefix short g nm _ r _ gs Eg HG) as G1.
  match type of H with match ?o with Some n => _ | None => _ end = _ => destruct o as [n|]; [|discriminate] end.
  apply (IH _ _ H). apply make_root_ok. exact G1.
Qed.

Lemma In_add_name n l x : In x (add_name n l) <-> In x l \/ x = n.
Proof.
  induction l as [|y l IH]; simpl; [intuition|]. destruct (str_eqb n y) eqn:E.
  - apply str_eqb_eq in E. subst y. simpl. intuition.
  - simpl. rewrite IH. intuition.
Qed.

Lemma upstream_of_spec prefix g nm : forall deps acc ups,
  upstream_of prefix g nm deps acc = Ok ups ->
  (forall n, In n acc -> In n ups) /\
  (forall v d sd, In (v, d) deps -> nth_error g d = Some sd -> exists n, internal_name prefix g nm sd = Ok n /\ In n ups).
Proof.
  induction deps as [|[v d] deps IH]; intros acc ups H; simpl in H.
  - inversion H; subst. split; [auto|intros v d sd []].
  - destruct (nth_error g d) as [sd|] eqn:Ed; [|discriminate].
    destruct (internal_name prefix g nm sd) as [n| |] eqn:En; try discriminate.
    destruct (IH _ _ H) as [A B]. split.
    + intros n0 Hn. apply A. apply In_add_name. left. exact Hn.
    + intros v0 d0 sd0 [Hin|Hin] Hd0.
      * inversion Hin; subst. rewrite Ed in Hd0. inversion Hd0; subst sd0. exists n. split; [exact En|].
        apply A. apply In_add_name. right. reflexivity.
      * apply (B v0 d0 sd0 Hin Hd0).
Qed.

(* every variant a Jenkins job builds has an instance whose valid dependencies (arguments, tools, sandbox)
   are all either built by the same job or the internal name of their job is among the upstream jobs *)
Lemma jenkins_job_upstream_complete_proof : forall prefix short g nm roots jobs n jj ups,
  gen_roots prefix short g nm roots [] = Ok jobs -> lookup_str n jobs = Some jj ->
  upstream prefix g nm jj = Ok ups ->
  forall v, In v (j_steps jj) -> exists sid s, nth_error g sid = Some s /\ s_vid s = v /\
    forall d sd, In d (alldeps s) -> nth_error g d = Some sd -> s_valid sd = true ->
      In (s_vid sd) (j_steps jj) \/
      (~ In (s_vid sd) (j_steps jj) /\
       exists d' sd' m, nth_error g d' = Some sd' /\ s_vid sd' = s_vid sd /\ s_valid sd' = true /\
                        internal_name prefix g nm sd' = Ok m /\ In m ups).
Proof.
  intros prefix short g nm roots jobs n jj ups H Hn Hu v Hv.
  assert (HG : GOK g jobs) by (eapply gen_roots_ok; [exact H|intros ? ? E; discriminate]).
  destruct (HG n jj Hn) as (W & D & B). destruct (B v Hv) as (sid & s & Hs & Hvs & F).
  exists sid, s. split; [exact Hs|]. split; [exact Hvs|]. intros d sd Hd Hsd Hval.
  destruct (F d sd Hd Hsd Hval) as [A|A]; [left; exact A|right]. split; [apply D; exact A|].
  apply in_map_iff in A as ([v0 d'] & E0 & Hin). simpl in E0. subst v0.
  destruct (W _ _ Hin) as (sd' & Hd' & Hv' & Hval'). unfold upstream in Hu.
  destruct (upstream_of_spec prefix g nm _ _ _ Hu) as [_ U]. destruct (U _ _ sd' Hin Hd') as (m & Hm & Hin').
  exists d', sd', m. auto.
Qed.
