(* C20 — lemmas about the job name calculation. *)
From Coq Require Import List NArith Bool Arith Lia Relations.
Require Import BobV.C20.Model.
Import ListNotations.

(* ------------------------------------------------------------------ sets *)
Lemma mem_In x l : mem x l = true <-> In x l.
Proof.
  induction l as [|y l IH]; simpl; [split; [discriminate|tauto]|].
  rewrite orb_true_iff, N.eqb_eq, IH. split; intros [H|H]; auto.
Qed.

Lemma mem_false x l : mem x l = false <-> ~ In x l.
Proof. rewrite <- mem_In. destruct (mem x l); split; congruence. Qed.

Lemma In_union x a b : In x (union a b) <-> In x a \/ In x b.
Proof.
  unfold union. rewrite in_app_iff, filter_In. split.
  - intros [H|[H _]]; auto.
  - intros [H|H]; auto. destruct (mem x a) eqn:E.
    + left. now apply mem_In.
    + right. split; [exact H|reflexivity].
Qed.

Definition sub (a b : vset) : Prop := forall x, In x a -> In x b.

Lemma subset_spec a b : subset a b = true <-> sub a b.
Proof.
  unfold subset, sub. rewrite forallb_forall. split; intros H x Hx.
  - apply mem_In. auto.
  - apply mem_In. auto.
Qed.

Lemma subset_false a b : subset a b = false -> ~ sub a b.
Proof. intros H H1. apply subset_spec in H1. congruence. Qed.

Lemma sub_refl a : sub a a.
Proof. intros x; auto. Qed.

Lemma sub_trans a b c : sub a b -> sub b c -> sub a c.
Proof. unfold sub; auto. Qed.

Lemma sub_union_l a b : sub a (union a b).
Proof. intros x H. apply In_union; auto. Qed.

Lemma sub_union_r a b : sub b (union a b).
Proof. intros x H. apply In_union; auto. Qed.

Lemma sub_union_lub a b c : sub a c -> sub b c -> sub (union a b) c.
Proof. intros H1 H2 x H. apply In_union in H as [H|H]; auto. Qed.

(* ------------------------------------------------------------------ contraction of two vertices of a DAG *)
Section Contract.
  Variable V : Type.
  Variable V_eq_dec : forall a b : V, {a = b} + {a <> b}.
  Variable R : V -> V -> Prop.
  Variables i j : V.

  Definition cf (x : V) : V := if V_eq_dec x j then i else x.

  (* edges of the graph in which j has been collapsed into i *)
  Definition R' (a b : V) : Prop := exists a0 b0, R a0 b0 /\ cf a0 = a /\ cf b0 = b.

  Hypothesis acyc : forall x, ~ clos_trans_1n V R x x.
  Hypothesis nij : ~ clos_trans_1n V R i j.
  Hypothesis nji : ~ clos_trans_1n V R j i.

  Definition inS (x : V) : Prop := x = i \/ x = j.

  Lemma noSS u w : inS u -> inS w -> ~ clos_trans_1n V R u w.
  Proof. intros [->| ->] [->| ->]; auto. Qed.

  Lemma cf_eq a b : cf a = cf b -> a = b \/ (inS a /\ inS b).
  Proof.
    unfold cf, inS. destruct (V_eq_dec a j), (V_eq_dec b j); intros H; subst; auto.
  Qed.

  Lemma t1n_app x y z : clos_trans_1n V R x y -> clos_trans_1n V R y z -> clos_trans_1n V R x z.
  Proof.
    intros H1 H2. apply clos_trans_t1n. eapply t_trans; apply clos_t1n_trans; eassumption.
  Qed.

  (* a path of the contracted graph lifts to a path of the original graph with at most one jump
     between i and j *)
  Lemma lift x y : clos_trans_1n V R' x y ->
    (exists a b, cf a = x /\ cf b = y /\ clos_trans_1n V R a b) \/
    (exists a b u w, cf a = x /\ cf b = y /\ inS u /\ inS w /\ clos_trans_1n V R a u /\ clos_trans_1n V R w b).
  Proof.
    induction 1 as [x y (a0 & b0 & HR & Ha & Hb) | x z y (a0 & b0 & HR & Ha & Hb) _ IH].
    - left. exists a0, b0. repeat split; auto. now apply t1n_step.
    - destruct IH as [(c & d & Hc & Hd & P) | (c & d & u & w & Hc & Hd & Hu & Hw & P1 & P2)].
      + assert (E : cf b0 = cf c) by congruence. apply cf_eq in E as [->|[S1 S2]].
        * left. exists a0, d. repeat split; auto. eapply t1n_app; [apply t1n_step; eassumption|exact P].
        * right. exists a0, d, b0, c. repeat split; auto. now apply t1n_step.
      + assert (E : cf b0 = cf c) by congruence. apply cf_eq in E as [->|[S1 S2]].
        * right. exists a0, d, u, w. repeat split; auto.
          eapply t1n_app; [apply t1n_step; eassumption|exact P1].
        * exfalso. exact (noSS c u S2 Hu P1).
  Qed.

  Lemma contract_acyclic x : ~ clos_trans_1n V R' x x.
  Proof.
    intros H. apply lift in H as [(a & b & Ha & Hb & P) | (a & b & u & w & Ha & Hb & Hu & Hw & P1 & P2)].
    - assert (E : cf a = cf b) by congruence. apply cf_eq in E as [->|[S1 S2]].
      + exact (acyc _ P).
      + exact (noSS _ _ S1 S2 P).
    - assert (E : cf a = cf b) by congruence. apply cf_eq in E as [->|[S1 S2]].
      + exact (noSS _ _ Hw Hu (t1n_app _ _ _ P2 P1)).
      + exact (noSS _ _ S1 Hu P1).
  Qed.
End Contract.

(* ------------------------------------------------------------------ the heap of abstract jobs *)
Definition pk (st : sstate) (j : nat) : vset := a_pkgs (get_job st j).
Definition pa (st : sstate) (j : nat) : vset := a_parents (get_job st j).
Definition ch (st : sstate) (j : nat) : vset := a_childs (get_job st j).
Definition jobof (st : sstate) (v : N) : option nat := lookupN v (st_v2j st).

Lemma get_set_job st j a k : get_job (set_job st j a) k = if Nat.eqb k j then a else get_job st k.
Proof. unfold get_job, set_job. simpl. destruct (Nat.eqb k j); reflexivity. Qed.

Lemma get_set_job_same st j a : get_job (set_job st j a) j = a.
Proof. rewrite get_set_job, Nat.eqb_refl. reflexivity. Qed.

Lemma get_set_job_other st j a k : k <> j -> get_job (set_job st j a) k = get_job st k.
Proof. intros H. rewrite get_set_job. apply Nat.eqb_neq in H. now rewrite H. Qed.

Definition live (st : sstate) (j : nat) : Prop := exists v, jobof st v = Some j.

(* the job graph as the algorithm records it: J -> K when a package of J is a parent of K *)
Definition E (st : sstate) (J K : nat) : Prop :=
  exists p, live st K /\ In p (pa st K) /\ jobof st p = Some J.

Lemma crt_map {A} (R1 R2 : A -> A -> Prop) x y :
  (forall a b, R1 a b -> R2 a b) -> clos_refl_trans A R1 x y -> clos_refl_trans A R2 x y.
Proof.
  intros H P. induction P as [u v H1|u|u v w _ IH1 _ IH2].
  - apply rt_step. auto.
  - apply rt_refl.
  - eapply rt_trans; eassumption.
Qed.

Lemma t1n_map {A} (R1 R2 : A -> A -> Prop) x y :
  (forall a b, R1 a b -> R2 a b) -> clos_trans_1n A R1 x y -> clos_trans_1n A R2 x y.
Proof.
  intros H P. induction P as [u v H1|u v w H1 _ IH].
  - apply t1n_step. auto.
  - eapply Relation_Operators.t1n_trans; [apply H; exact H1|exact IH].
Qed.

(* ---- addChilds *)
Record ACRel (X : vset) (T : nat -> Prop) (st st' : sstate) : Prop := {
  ac_v2j : st_v2j st' = st_v2j st;
  ac_n2j : st_n2j st' = st_n2j st;
  ac_v2n : st_v2n st' = st_v2n st;
  ac_ref : st_ref st' = st_ref st;
  ac_next : st_next st' = st_next st;
  ac_pk : forall j, pk st' j = pk st j;
  ac_pa : forall j, pa st' j = pa st j;
  ac_mono : forall j, sub (ch st j) (ch st' j);
  ac_upper : forall j x, In x (ch st' j) -> In x (ch st j) \/ In x X;
  ac_all : forall j, sub (ch st' j) (ch st j) \/ sub X (ch st' j);
  ac_new : forall K, sub X (ch st' K) ->
           sub X (ch st K) \/ (forall p J, In p (pa st K) -> jobof st p = Some J -> sub X (ch st' J));
  ac_touch : forall K x, In x (ch st' K) -> ~ In x (ch st K) -> T K
}.

Lemma ACRel_refl X T st : ACRel X T st st.
Proof.
  constructor; auto; try (intros; apply sub_refl).
  - intros j. left. apply sub_refl.
  - intros K x H1 H2. contradiction.
Qed.

Lemma ACRel_weaken X (T T' : nat -> Prop) a b : (forall K, T K -> T' K) -> ACRel X T a b -> ACRel X T' a b.
Proof. intros HT H. destruct H. constructor; auto. intros K x H1 H2. eauto. Qed.

Lemma ACRel_E X T a b : ACRel X T a b -> forall J K, E b J K <-> E a J K.
Proof.
  intros H J K. unfold E, live, jobof. rewrite (ac_v2j _ _ _ _ H).
  split; intros (p & L & P & Q); exists p; (split; [exact L|split; [|exact Q]]).
  - rewrite <- (ac_pa _ _ _ _ H). exact P.
  - rewrite (ac_pa _ _ _ _ H). exact P.
Qed.

Lemma ACRel_trans X T a b c : ACRel X T a b -> ACRel X T b c -> ACRel X T a c.
Proof.
  intros H1 H2. constructor.
  - rewrite (ac_v2j _ _ _ _ H2). apply H1.
  - rewrite (ac_n2j _ _ _ _ H2). apply H1.
  - rewrite (ac_v2n _ _ _ _ H2). apply H1.
  - rewrite (ac_ref _ _ _ _ H2). apply H1.
  - rewrite (ac_next _ _ _ _ H2). apply H1.
  - intros j. rewrite (ac_pk _ _ _ _ H2). apply H1.
  - intros j. rewrite (ac_pa _ _ _ _ H2). apply H1.
  - intros j. eapply sub_trans; [apply H1|apply H2].
  - intros j x Hx. apply (ac_upper _ _ _ _ H2) in Hx as [Hx|Hx]; auto. apply (ac_upper _ _ _ _ H1) in Hx; auto.
  - intros j. destruct (ac_all _ _ _ _ H2 j) as [A|A]; auto.
    destruct (ac_all _ _ _ _ H1 j) as [B|B].
    + left. eapply sub_trans; eassumption.
    + right. eapply sub_trans; [exact B|apply H2].
  - intros K HK. destruct (ac_new _ _ _ _ H2 K HK) as [A|A].
    + destruct (ac_new _ _ _ _ H1 K A) as [B|B]; auto.
      right. intros p J Hp HJ. eapply sub_trans; [eapply B; eassumption|apply H2].
    + right. intros p J Hp HJ. apply (A p J).
      * rewrite (ac_pa _ _ _ _ H1). exact Hp.
      * unfold jobof. rewrite (ac_v2j _ _ _ _ H1). exact HJ.
  - intros K x Hc Ha. destruct (in_dec N.eq_dec x (ch b K)) as [Hb|Hb].
    + eapply (ac_touch _ _ _ _ H1); eassumption.
    + eapply (ac_touch _ _ _ _ H2); eassumption.
Qed.

(* jobs whose childs may grow: the (reflexive, transitive) ancestors of the jobs of [ps] *)
Definition Anc (st : sstate) (ps : vset) (K : nat) : Prop :=
  exists p J0, In p ps /\ jobof st p = Some J0 /\ clos_refl_trans nat (E st) K J0.

Lemma add_childs_spec : forall fuel X ps st st',
  add_childs fuel ps X st = Ok st' ->
  ACRel X (Anc st ps) st st' /\ (forall p J, In p ps -> jobof st p = Some J -> sub X (ch st' J)).
Proof.
  induction fuel as [|f IHf]; intros X ps st st' H; [discriminate|].
  simpl in H. revert st st' H.
  induction ps as [|p r IHr]; intros st st' H; simpl in H.
  - inversion H; subst. split; [apply ACRel_refl|intros p J []].
  - destruct (lookupN p (st_v2j st)) as [j|] eqn:Ej; [|discriminate].
    destruct (subset X (a_childs (get_job st j))) eqn:Es.
    + apply IHr in H as [R C]. split.
      * eapply ACRel_weaken; [|exact R]. intros K (q & J0 & Hq & HJ & P). exists q, J0. simpl; auto.
      * intros q J [<-|Hq] HJ.
        -- unfold jobof in HJ. rewrite Ej in HJ. inversion HJ; subst J.
           apply subset_spec in Es. eapply sub_trans; [exact Es|apply R].
        -- eapply C; eassumption.
    + set (a := get_job st j) in *.
      set (st1 := set_job st j (mkJob (a_pkgs a) (a_parents a) (union (a_childs a) X))) in *.
      destruct (add_childs f (a_parents a) X st1) as [st2| |] eqn:E2; try discriminate.
      apply IHf in E2 as [R12 C12].
      apply IHr in H as [R2 C2].
      assert (Hj1 : forall k, k <> j -> get_job st1 k = get_job st k)
        by (intros k Hk; apply get_set_job_other; exact Hk).
      assert (Hjj : get_job st1 j = mkJob (a_pkgs a) (a_parents a) (union (a_childs a) X))
        by apply get_set_job_same.
      assert (Hpa1 : forall k, pa st1 k = pa st k).
      { intros k. unfold pa. destruct (Nat.eq_dec k j) as [->|Hk].
        - rewrite Hjj. reflexivity.
        - rewrite Hj1 by exact Hk. reflexivity. }
      assert (HE1 : forall J K, E st1 J K <-> E st J K).
      { intros J K. unfold E, live, jobof. simpl. split; intros (q & L & P & Q); exists q; (split; [exact L|split; [|exact Q]]).
        - rewrite <- Hpa1. exact P.
        - rewrite Hpa1. exact P. }
      assert (Hlj : live st j) by (exists p; exact Ej).
      assert (R02 : ACRel X (Anc st (p :: r)) st st2).
      { constructor.
        - rewrite (ac_v2j _ _ _ _ R12). reflexivity.
        - rewrite (ac_n2j _ _ _ _ R12). reflexivity.
        - rewrite (ac_v2n _ _ _ _ R12). reflexivity.
        - rewrite (ac_ref _ _ _ _ R12). reflexivity.
        - rewrite (ac_next _ _ _ _ R12). reflexivity.
        - intros k. rewrite (ac_pk _ _ _ _ R12). unfold pk. destruct (Nat.eq_dec k j) as [->|Hk].
          + rewrite Hjj. reflexivity.
          + rewrite Hj1 by exact Hk. reflexivity.
        - intros k. rewrite (ac_pa _ _ _ _ R12). apply Hpa1.
        - intros k. eapply sub_trans; [|apply R12]. unfold ch. destruct (Nat.eq_dec k j) as [->|Hk].
          + rewrite Hjj. simpl. apply sub_union_l.
          + rewrite Hj1 by exact Hk. apply sub_refl.
        - intros k x Hx. apply (ac_upper _ _ _ _ R12) in Hx as [Hx|Hx]; auto.
          unfold ch in Hx. destruct (Nat.eq_dec k j) as [->|Hk].
          + rewrite Hjj in Hx. simpl in Hx. apply In_union in Hx. exact Hx.
          + rewrite Hj1 in Hx by exact Hk. left. exact Hx.
        - intros k. destruct (Nat.eq_dec k j) as [->|Hk].
          + right. eapply sub_trans; [|apply R12]. unfold ch. rewrite Hjj. simpl. apply sub_union_r.
          + destruct (ac_all _ _ _ _ R12 k) as [A|A]; auto.
            left. unfold ch in A. rewrite Hj1 in A by exact Hk. exact A.
        - intros K HK. destruct (ac_new _ _ _ _ R12 K HK) as [A|A].
          + destruct (Nat.eq_dec K j) as [->|Hk].
            * right. intros q J Hq HJ. apply (C12 q J); [exact Hq|exact HJ].
            * left. unfold ch in A. rewrite Hj1 in A by exact Hk. exact A.
          + right. intros q J Hq HJ. apply (A q J).
            * rewrite Hpa1. exact Hq.
            * exact HJ.
        - intros K x Hc Ha. destruct (in_dec N.eq_dec x (ch st1 K)) as [Hb|Hb].
          + (* touched by the update of j itself *)
            destruct (Nat.eq_dec K j) as [->|Hk].
            * exists p, j. split; [left; reflexivity|]. split; [exact Ej|apply rt_refl].
            * exfalso. apply Ha. unfold ch in Hb. rewrite Hj1 in Hb by exact Hk. exact Hb.
          + destruct (ac_touch _ _ _ _ R12 K x Hc Hb) as (q & J0 & Hq & HJ & P).
            exists p, j. split; [left; reflexivity|]. split; [exact Ej|].
            eapply rt_trans.
            * eapply crt_map; [|exact P]. intros u v. apply HE1.
            * apply rt_step. exists q. split; [exact Hlj|]. split; [exact Hq|exact HJ]. }
      split.
      * eapply ACRel_trans; [exact R02|].
        eapply ACRel_weaken; [|exact R2].
        intros K (q & J0 & Hq & HJ & P). exists q, J0. split; [right; exact Hq|].
        split; [unfold jobof in *; rewrite <- (ac_v2j _ _ _ _ R02); exact HJ|].
        eapply crt_map; [|exact P]. intros u v. apply (ACRel_E _ _ _ _ R02).
      * intros q J [<-|Hq] HJ.
        -- unfold jobof in HJ. rewrite Ej in HJ. inversion HJ; subst J.
           eapply sub_trans; [|apply R2]. eapply sub_trans; [|apply R12].
           unfold ch. rewrite Hjj. simpl. apply sub_union_r.
        -- apply (C2 q J Hq). unfold jobof. rewrite (ac_v2j _ _ _ _ R02). exact HJ.
Qed.

(* ------------------------------------------------------------------ the invariant of the merge phase *)
Record Inv (st : sstate) : Prop := {
  inv_in : forall v j, jobof st v = Some j -> In v (pk st j);
  inv_own : forall j v, live st j -> In v (pk st j) -> jobof st v = Some j;
  inv_par : forall j p, live st j -> In p (pa st j) -> exists i, jobof st p = Some i;
  (* childs is closed under job level reachability *)
  inv_closed : forall K p J, live st K -> In p (pa st K) -> jobof st p = Some J ->
               sub (pk st K) (ch st J) /\ sub (ch st K) (ch st J);
  inv_acyclic : forall J, ~ clos_trans_1n nat (E st) J J
}.

Lemma E_live_l st J K : E st J K -> live st J.
Proof. intros (p & _ & _ & H). exists p. exact H. Qed.

Lemma E_live_r st J K : E st J K -> live st K.
Proof. intros (p & H & _). exact H. Qed.

(* the test of the merge loop: "i reaches j" is visible in the childs sets *)
Lemma reach_closed st I J : Inv st -> clos_trans_1n nat (E st) I J ->
  sub (pk st J) (ch st I) /\ sub (ch st J) (ch st I).
Proof.
  intros HI P. induction P as [I J (p & L & Hp & HJ)|I K J (p & L & Hp & HJ) _ [IH1 IH2]].
  - eapply inv_closed; eassumption.
  - destruct (inv_closed _ HI K p I L Hp HJ) as [_ C].
    split; eapply sub_trans; eassumption.
Qed.

Lemma reaches_spec st i j : reaches st i j = true <-> sub (pk st j) (ch st i) /\ sub (ch st j) (ch st i).
Proof.
  unfold reaches, reach_set. rewrite subset_spec. unfold pk, ch. split.
  - intros H. split; intros x Hx; apply H, In_union; auto.
  - intros [H1 H2] x Hx. apply In_union in Hx as [Hx|Hx]; auto.
Qed.

Lemma not_reaches st i j : Inv st -> reaches st i j = false -> ~ clos_trans_1n nat (E st) i j.
Proof.
  intros HI H P. apply (reach_closed _ _ _ HI) in P. apply reaches_spec in P. congruence.
Qed.

Lemma lookup_remap v ps i m : lookupN v (remap ps i m) = if mem v ps then Some i else lookupN v m.
Proof.
  revert m. induction ps as [|k r IH]; intros m; simpl; [reflexivity|].
  rewrite IH. simpl. destruct (mem v r); [now rewrite orb_true_r|].
  rewrite orb_false_r. destruct (N.eqb v k); reflexivity.
Qed.

Lemma step_crt_t1n {A} (R : A -> A -> Prop) x y z :
  R x y -> clos_refl_trans A R y z -> clos_trans_1n A R x z.
Proof.
  intros H P. apply clos_rt_rt1n in P. revert x H.
  induction P as [y|y y' z Hy _ IH]; intros x H.
  - now apply t1n_step.
  - eapply Relation_Operators.t1n_trans; [exact H|]. apply IH. exact Hy.
Qed.

Definition cfn (i j k : nat) : nat := if Nat.eq_dec k j then i else k.

Lemma merge_two_inv st i j st' :
  Inv st -> live st i -> live st j -> i <> j ->
  reaches st i j = false -> reaches st j i = false ->
  merge_two st i j = Ok st' ->
  Inv st' /\
  (forall v, jobof st' v = option_map (cfn i j) (jobof st v)) /\
  st_n2j st' = st_n2j st /\ st_v2n st' = st_v2n st /\ st_ref st' = st_ref st /\ st_next st' = st_next st /\
  (forall x, In x (pk st' i) <-> In x (pk st i) \/ In x (pk st j)) /\
  (forall k, k <> i -> pk st' k = pk st k).
Proof.
  intros HI Li Lj Hij Rij Rji H.
  unfold merge_two in H.
  set (ai := get_job st i) in *. set (aj := get_job st j) in *.
  set (ai' := mkJob (union (a_pkgs ai) (a_pkgs aj)) (union (a_parents ai) (a_parents aj))
                    (union (a_childs ai) (a_childs aj))) in *.
  set (st1 := set_job st i ai') in *.
  set (X := reach_set ai') in *.
  destruct (add_childs (S (st_next st)) (a_parents ai') X st1) as [st2| |] eqn:E2; try discriminate.
  inversion H; subst st'; clear H.
  apply add_childs_spec in E2 as [R C].
  pose proof (not_reaches _ _ _ HI Rij) as Nij.
  pose proof (not_reaches _ _ _ HI Rji) as Nji.
  (* the state after the assignment to i *)
  assert (G1i : get_job st1 i = ai') by apply get_set_job_same.
  assert (G1o : forall k, k <> i -> get_job st1 k = get_job st k) by (intros; now apply get_set_job_other).
  assert (J1 : forall v, jobof st1 v = jobof st v) by reflexivity.
  assert (J2 : forall v, jobof st2 v = jobof st v) by (intros v; unfold jobof; now rewrite (ac_v2j _ _ _ _ R)).
  (* membership of the packages of j *)
  assert (Mj : forall v, mem v (a_pkgs aj) = true <-> jobof st v = Some j).
  { intros v. rewrite mem_In. split; intros Hv.
    - apply (inv_own _ HI); assumption.
    - apply (inv_in _ HI); assumption. }
  set (st' := mkSt (st_jobs st2) (st_next st2) (remap (a_pkgs aj) i (st_v2j st2)) (st_v2n st2) (st_ref st2) (st_n2j st2)).
  assert (JF : forall v, jobof st' v = option_map (cfn i j) (jobof st v)).
  { intros v. unfold jobof at 1. simpl. rewrite lookup_remap.
    destruct (mem v (a_pkgs aj)) eqn:Em.
    - apply Mj in Em. rewrite Em. simpl. unfold cfn. destruct (Nat.eq_dec j j); congruence.
    - fold (jobof st2 v). rewrite J2. destruct (jobof st v) as [k|] eqn:Ek; [|reflexivity].
      simpl. unfold cfn. destruct (Nat.eq_dec k j) as [->|]; [|reflexivity].
      apply Mj in Ek. congruence. }
  assert (GF : forall k, get_job st' k = get_job st2 k) by reflexivity.
  assert (PK : forall k, pk st' k = pk st1 k) by (intros k; unfold pk at 1; rewrite GF; apply (ac_pk _ _ _ _ R)).
  assert (PA : forall k, pa st' k = pa st1 k) by (intros k; unfold pa at 1; rewrite GF; apply (ac_pa _ _ _ _ R)).
  assert (PKi : forall x, In x (pk st' i) <-> In x (pk st i) \/ In x (pk st j)).
  { intros x. rewrite PK. unfold pk at 1. rewrite G1i. simpl. apply In_union. }
  assert (PKo : forall k, k <> i -> pk st' k = pk st k).
  { intros k Hk. rewrite PK. unfold pk. now rewrite G1o. }
  assert (PAi : forall x, In x (pa st' i) <-> In x (pa st i) \/ In x (pa st j)).
  { intros x. rewrite PA. unfold pa at 1. rewrite G1i. simpl. apply In_union. }
  assert (PAo : forall k, k <> i -> pa st' k = pa st k).
  { intros k Hk. rewrite PA. unfold pa. now rewrite G1o. }
  assert (CH1i : forall x, In x (ch st1 i) <-> In x (ch st i) \/ In x (ch st j)).
  { intros x. unfold ch at 1. rewrite G1i. simpl. apply In_union. }
  assert (CH1o : forall k, k <> i -> ch st1 k = ch st k).
  { intros k Hk. unfold ch. now rewrite G1o. }
  assert (XX : forall x, In x X <-> (In x (pk st i) \/ In x (pk st j)) \/ (In x (ch st i) \/ In x (ch st j))).
  { intros x. unfold X, reach_set. simpl. rewrite In_union, !In_union. reflexivity. }
  (* liveness *)
  assert (LV : forall K, live st' K -> K <> j /\ ((K = i) \/ (K <> i /\ live st K))).
  { intros K (v & Hv). rewrite JF in Hv. destruct (jobof st v) as [k|] eqn:Ek; [|discriminate].
    simpl in Hv. inversion Hv; subst K. unfold cfn. destruct (Nat.eq_dec k j) as [->|Hk].
    - split; [exact Hij|left; reflexivity].
    - split; [exact Hk|]. destruct (Nat.eq_dec k i); [left; assumption|right; split; [assumption|exists v; exact Ek]]. }
  (* edges of the new graph are images of old edges *)
  assert (EE : forall J K, E st' J K -> R' nat Nat.eq_dec (E st) i j J K).
  { intros J K (p & L & Hp & HJ). rewrite JF in HJ. destruct (jobof st p) as [a0|] eqn:Ea; [|discriminate].
    simpl in HJ. inversion HJ; subst J. destruct (LV K L) as [Kj [->|[Ki LK]]].
    - apply PAi in Hp as [Hp|Hp].
      + exists a0, i. split; [exists p; auto|]. split; [reflexivity|]. unfold cf. destruct (Nat.eq_dec i j); congruence.
      + exists a0, j. split; [exists p; auto|]. split; [reflexivity|]. unfold cf. destruct (Nat.eq_dec j j); congruence.
    - rewrite PAo in Hp by exact Ki. exists a0, K. split; [exists p; auto|]. split; [reflexivity|].
      unfold cf. destruct (Nat.eq_dec K j); congruence. }
  (* parents of the merged job are not in j *)
  assert (NPj : forall p, In p (pa st i) \/ In p (pa st j) -> jobof st p <> Some j).
  { intros p [Hp|Hp] Hj.
    - apply Nji. apply t1n_step. exists p. auto.
    - apply (inv_acyclic _ HI j). apply t1n_step. exists p. auto. }
  (* a job whose childs grow reaches i or j in the old graph *)
  assert (E1E : forall u v, E st1 u v -> E st u v \/ (v = i /\ E st u j)).
  { intros u v (q & L & Hq & HJ). destruct (Nat.eq_dec v i) as [->|Hv].
    - unfold pa in Hq. rewrite G1i in Hq. simpl in Hq. apply In_union in Hq as [Hq|Hq].
      + left. exists q. auto.
      + right. split; [reflexivity|]. exists q. auto.
    - left. exists q. split; [exact L|]. split; [|exact HJ]. unfold pa in *. rewrite G1o in Hq by exact Hv. exact Hq. }
  assert (P1E : forall u v, clos_refl_trans nat (E st1) u v ->
                 clos_refl_trans nat (E st) u v \/ clos_refl_trans nat (E st) u j).
  { intros u v P. apply clos_rt_rt1n in P. induction P as [u|u w v Huw _ IH].
    - left. apply rt_refl.
    - apply E1E in Huw as [Huw|[-> Huw]].
      + destruct IH as [IH|IH]; [left|right]; (eapply rt_trans; [apply rt_step; exact Huw|exact IH]).
      + right. apply rt_step. exact Huw. }
  assert (ANC : forall K, Anc st1 (a_parents ai') K ->
                clos_refl_trans nat (E st) K i \/ clos_refl_trans nat (E st) K j).
  { intros K (q & J0 & Hq & HJ0 & P). unfold ai' in Hq. simpl in Hq. apply In_union in Hq. rewrite J1 in HJ0.
    apply P1E in P as [P|P]; [|right; exact P].
    destruct Hq as [Hq|Hq]; [left|right]; (eapply rt_trans; [exact P|apply rt_step; exists q; auto]). }
  split; [|repeat split; auto; try apply R; apply PKi].
  constructor.
  - (* inv_in *)
    intros v K Hv. rewrite JF in Hv. destruct (jobof st v) as [k|] eqn:Ek; [|discriminate].
    simpl in Hv. inversion Hv; subst K. pose proof (inv_in _ HI v k Ek) as Hin.
    unfold cfn. destruct (Nat.eq_dec k j) as [->|Hk].
    + apply PKi. right. exact Hin.
    + destruct (Nat.eq_dec k i) as [->|Hki].
      * apply PKi. left. exact Hin.
      * rewrite PKo by exact Hki. exact Hin.
  - (* inv_own *)
    intros K v L Hv. destruct (LV K L) as [Kj [->|[Ki LK]]].
    + apply PKi in Hv. rewrite JF. destruct Hv as [Hv|Hv].
      * rewrite (inv_own _ HI i v Li Hv). simpl. unfold cfn. destruct (Nat.eq_dec i j); congruence.
      * rewrite (inv_own _ HI j v Lj Hv). simpl. unfold cfn. destruct (Nat.eq_dec j j); congruence.
    + rewrite PKo in Hv by exact Ki. rewrite JF, (inv_own _ HI K v LK Hv). simpl.
      unfold cfn. destruct (Nat.eq_dec K j); congruence.
  - (* inv_par *)
    intros K p L Hp. assert (Hk : exists a, jobof st p = Some a).
    { destruct (LV K L) as [Kj [->|[Ki LK]]].
      - apply PAi in Hp as [Hp|Hp]; eapply (inv_par _ HI); eassumption.
      - rewrite PAo in Hp by exact Ki. eapply (inv_par _ HI); eassumption. }
    destruct Hk as [a Ha]. rewrite JF, Ha. simpl. eauto.
  - (* inv_closed *)
    intros K p J' L Hp HJ. rewrite JF in HJ. destruct (jobof st p) as [A|] eqn:EA; [|discriminate].
    simpl in HJ. inversion HJ; subst J'; clear HJ.
    unfold ch. rewrite !GF. fold (ch st2 K). fold (ch st2 (cfn i j A)).
    destruct (LV K L) as [Kj [->|[Ki LK]]].
    + (* K = i *)
      apply PAi in Hp.
      assert (HA : A <> j) by (intros ->; exact (NPj p Hp EA)).
      unfold cfn. destruct (Nat.eq_dec A j) as [|_]; [contradiction|].
      assert (CX : sub X (ch st2 A)).
      { apply (C p A); [|rewrite J1; exact EA]. unfold ai'. simpl. apply In_union. exact Hp. }
      split.
      * intros x Hx. apply CX, XX. left. apply PKi. exact Hx.
      * intros x Hx. apply CX. apply (ac_upper _ _ _ _ R) in Hx as [Hx|Hx]; [|exact Hx].
        apply XX. right. apply CH1i. exact Hx.
    + (* K <> i, K <> j, live before *)
      rewrite PAo in Hp by exact Ki. rewrite PKo by exact Ki.
      destruct (inv_closed _ HI K p A LK Hp EA) as [C1 C2].
      assert (EAK : E st A K) by (exists p; auto).
      unfold cfn. destruct (Nat.eq_dec A j) as [->|HA].
      * (* the parent was j: now i.  K cannot have grown *)
        assert (UT : sub (ch st2 K) (ch st K)).
        { intros x Hx. destruct (in_dec N.eq_dec x (ch st1 K)) as [Hb|Hb].
          - rewrite CH1o in Hb by exact Ki. exact Hb.
          - exfalso. destruct (ANC K (ac_touch _ _ _ _ R K x Hx Hb)) as [P|P].
            + exact (Nji (step_crt_t1n _ _ _ _ EAK P)).
            + exact (inv_acyclic _ HI j (step_crt_t1n _ _ _ _ EAK P)). }
        assert (I2 : sub (ch st j) (ch st2 i)).
        { intros x Hx. apply (ac_mono _ _ _ _ R). apply CH1i. right. exact Hx. }
        split; eapply sub_trans; try exact I2; [exact C1|eapply sub_trans; [exact UT|exact C2]].
      * (* the parent stays *)
        assert (I2 : sub (ch st A) (ch st2 A)).
        { intros x Hx. apply (ac_mono _ _ _ _ R). destruct (Nat.eq_dec A i) as [->|HAi].
          - apply CH1i. left. exact Hx.
          - rewrite CH1o by exact HAi. exact Hx. }
        split; [eapply sub_trans; [exact C1|exact I2]|].
        intros x Hx. destruct (in_dec N.eq_dec x (ch st1 K)) as [Hb|Hb].
        -- rewrite CH1o in Hb by exact Ki. apply I2, C2, Hb.
        -- (* K has grown: it now contains X, and so do its parents *)
           assert (HX : In x X).
           { apply (ac_upper _ _ _ _ R) in Hx as [Hx|Hx]; [contradiction|exact Hx]. }
           assert (SX : sub X (ch st2 K)).
           { destruct (ac_all _ _ _ _ R K) as [S|S]; [exfalso; apply Hb, S, Hx|exact S]. }
           destruct (ac_new _ _ _ _ R K SX) as [S|S].
           ++ rewrite CH1o in S by exact Ki. apply I2, C2, S, HX.
           ++ apply (S p A); [|rewrite J1; exact EA|exact HX].
              unfold pa. rewrite G1o by exact Ki. exact Hp.
  - (* inv_acyclic *)
    intros J P. apply (t1n_map _ _ _ _ EE) in P.
    exact (contract_acyclic nat Nat.eq_dec (E st) i j (inv_acyclic _ HI) Nij Nji J P).
Qed.
