(* C20 — model of pym/bob/cmds/jenkins/jenkins.py:
     JobNameCalculator.sanitize (graph spanning, greedy merge of same-named
     jobs, prefix naming, numbering), getJobDisplayName/getJobInternalName,
     JenkinsJob.addStep (step and dependency book-keeping), _genJenkinsJobs,
     genJenkinsJobs (roots, reverse dependencies) and genJenkinsBuildOrder.
   Definitions only.

   Input: the step graph exactly as the code sees it through the Step API
   (getAllDepSteps = getArguments + tools sorted by name + sandbox).  A node is
   one Step object (one package instance has a checkout, a build and a package
   step); several instances may carry the same Jenkins variant id.
   Python sets are lists read as sets; dicts are association lists.  Object
   references to AbstractJob are job ids into a store. *)
From Coq Require Import List NArith Bool Arith Relations.
Require Import BobV.Gen.ConstsC20.
Import ListNotations.

Definition str := list N.
Definition vset := list N.

Inductive res (A : Type) : Type :=
| Ok (a : A)
| OutOfFuel        (* the model ran out of fuel (excluded for well-formed inputs) *)
| KeyError.        (* Python KeyError / dangling reference *)
Arguments Ok {A} a.
Arguments OutOfFuel {A}.
Arguments KeyError {A}.

Definition bind {A B} (r : res A) (f : A -> res B) : res B :=
  match r with Ok a => f a | OutOfFuel => OutOfFuel | KeyError => KeyError end.

(* ------------------------------------------------------------------ sets *)
Fixpoint mem (x : N) (l : vset) : bool :=
  match l with [] => false | y :: r => N.eqb x y || mem x r end.

Definition union (a b : vset) : vset := a ++ filter (fun x => negb (mem x a)) b.

Definition subset (a b : vset) : bool := forallb (fun x => mem x b) a.

(* ------------------------------------------------------------------ strings *)
Fixpoint str_eqb (a b : str) : bool :=
  match a, b with
  | [], [] => true
  | x :: a', y :: b' => N.eqb x y && str_eqb a' b'
  | _, _ => false
  end.

(* Python's < on str: lexicographic by code point *)
Fixpoint str_ltb (a b : str) : bool :=
  match a, b with
  | _, [] => false
  | [], _ :: _ => true
  | x :: a', y :: b' => if N.ltb x y then true else if N.eqb x y then str_ltb a' b' else false
  end.

(* stable insertion sort by a string key: sorted(xs, key=...) *)
Fixpoint insert_by {A} (key : A -> str) (x : A) (l : list A) : list A :=
  match l with
  | [] => [x]
  | y :: r => if str_ltb (key x) (key y) then x :: l else y :: insert_by key x r
  end.

Definition sort_by {A} (key : A -> str) (l : list A) : list A :=
  fold_left (fun acc x => insert_by key x acc) l [].

(* ------------------------------------------------------------------ association lists *)
Fixpoint lookupN {A} (k : N) (m : list (N * A)) : option A :=
  match m with [] => None | (k', v) :: r => if N.eqb k k' then Some v else lookupN k r end.

Fixpoint lookup_nat {A} (k : nat) (m : list (nat * A)) : option A :=
  match m with [] => None | (k', v) :: r => if Nat.eqb k k' then Some v else lookup_nat k r end.

Fixpoint lookup_str {A} (k : str) (m : list (str * A)) : option A :=
  match m with [] => None | (k', v) :: r => if str_eqb k k' then Some v else lookup_str k r end.

(* d[k] = f(d.get(k)) keeping the position of an existing key, appending a new one *)
Fixpoint update_str {A} (k : str) (f : option A -> A) (m : list (str * A)) : list (str * A) :=
  match m with
  | [] => [(k, f None)]
  | (k', v) :: r => if str_eqb k k' then (k', f (Some v)) :: r else (k', v) :: update_str k f r
  end.

Fixpoint remove_keyN {A} (k : N) (m : list (N * A)) : list (N * A) :=
  match m with [] => [] | (k', v) :: r => if N.eqb k k' then remove_keyN k r else (k', v) :: remove_keyN k r end.

(* ------------------------------------------------------------------ the step graph *)
Inductive kind := KCheckout | KBuild | KPackage.

Record step := mkStep {
  s_kind : kind;
  s_vid : N;            (* getJenkinsVariantId(step), interned *)
  s_pkgstep : nat;      (* step.getPackage().getPackageStep() *)
  s_stack : N;          (* "/".join(step.getPackage().getStack()), interned *)
  s_name : str;         (* step.getPackage().getName() *)
  s_recipe : str;       (* step.getPackage().getRecipe().getName() *)
  s_isolate : bool;     (* the jobs.isolate regex matches the package name (Python re, not modelled) *)
  s_valid : bool;       (* step.isValid() *)
  s_args : list nat;    (* step.getArguments() *)
  s_tools : list nat;   (* [ t.getStep() for name, t in sorted(step.getTools().items()) ] *)
  s_sandbox : option nat (* step.getSandbox().getStep() *)
}.

Definition graph := list step.

Definition is_pkg (s : step) : bool := match s_kind s with KPackage => true | _ => false end.

(* Step.getAllDepSteps *)
Definition alldeps (s : step) : list nat :=
  s_args s ++ s_tools s ++ match s_sandbox s with Some x => [x] | None => [] end.

(* ------------------------------------------------------------------ abstract jobs *)
Record ajob := mkJob { a_pkgs : vset; a_parents : vset; a_childs : vset }.
Definition empty_job : ajob := mkJob [] [] [].

Record sstate := mkSt {
  st_jobs : list (nat * ajob);        (* the heap of AbstractJob objects; latest binding first *)
  st_next : nat;                      (* next unused job id *)
  st_v2j : list (N * nat);            (* vidToJob *)
  st_v2n : list (N * str);            (* vidToName *)
  st_ref : list (N * nat);            (* self.__referenceStep *)
  st_n2j : list (str * list nat)      (* nameToJobs *)
}.

Definition init_state : sstate := mkSt [] 0 [] [] [] [].

Definition get_job (st : sstate) (j : nat) : ajob :=
  match lookup_nat j (st_jobs st) with Some a => a | None => empty_job end.

Definition set_job (st : sstate) (j : nat) (a : ajob) : sstate :=
  mkSt ((j, a) :: st_jobs st) (st_next st) (st_v2j st) (st_v2n st) (st_ref st) (st_n2j st).

Definition set_v2j (st : sstate) (v : N) (j : nat) : sstate :=
  mkSt (st_jobs st) (st_next st) ((v, j) :: st_v2j st) (st_v2n st) (st_ref st) (st_n2j st).

Definition set_n2j (st : sstate) (m : list (str * list nat)) : sstate :=
  mkSt (st_jobs st) (st_next st) (st_v2j st) (st_v2n st) (st_ref st) m.

(* AbstractJob(pkgs, parents) *)
Definition alloc_job (st : sstate) (a : ajob) : nat * sstate :=
  (st_next st,
   mkSt ((st_next st, a) :: st_jobs st) (S (st_next st)) (st_v2j st) (st_v2n st) (st_ref st) (st_n2j st)).

Definition reach_set (a : ajob) : vset := union (a_pkgs a) (a_childs a).

Definition add_childs_of (st : sstate) (j : nat) (cs : vset) : sstate :=
  let a := get_job st j in set_job st j (mkJob (a_pkgs a) (a_parents a) (union (a_childs a) cs)).

(* ---- sanitize, part 1: addStep(step, parentJob) *)
Fixpoint loop_deps (rec : nat -> nat -> sstate -> res (sstate * vset)) (ds : list nat) (j : nat)
                   (st : sstate) : res sstate :=
  match ds with
  | [] => Ok st
  | d :: r =>
      match rec d j st with
      | Ok (st1, cs) => loop_deps rec r j (add_childs_of st1 j cs)    (* job.childs |= addStep(d, job) *)
      | OutOfFuel => OutOfFuel
      | KeyError => KeyError
      end
  end.

Definition register_pkg (st : sstate) (sid : nat) (s : step) (par : nat) : nat * sstate :=
  let '(j, st1) := alloc_job st (mkJob [s_vid s] (a_pkgs (get_job st par)) []) in
  let name := if s_isolate s then s_name s else s_recipe s in
  (j, mkSt (st_jobs st1) (st_next st1)
           ((s_vid s, j) :: st_v2j st1)
           ((s_vid s, s_name s) :: st_v2n st1)
           ((s_vid s, sid) :: st_ref st1)
           (update_str name (fun o => match o with Some l => l ++ [j] | None => [j] end) (st_n2j st1))).

Fixpoint add_step (fuel : nat) (g : graph) (sid : nat) (par : nat) (st : sstate) : res (sstate * vset) :=
  match fuel with
  | O => OutOfFuel
  | S f =>
    match nth_error g sid with
    | None => KeyError
    | Some s =>
      match lookupN (s_vid s) (st_v2j st) with
      | Some j =>
          (* job.parents |= parentJob.pkgs *)
          let a := get_job st j in
          let st1 := set_job st j (mkJob (a_pkgs a) (union (a_parents a) (a_pkgs (get_job st par))) (a_childs a)) in
          Ok (st1, reach_set (get_job st1 j))
      | None =>
          let '(j, st1) := if is_pkg s then register_pkg st sid s par else (par, st) in
          match loop_deps (add_step f g) (alldeps s) j st1 with
          | Ok st2 => Ok (st2, reach_set (get_job st2 j))
          | OutOfFuel => OutOfFuel
          | KeyError => KeyError
          end
      end
    end
  end.

(* for r in self.__roots: addStep(r, AbstractJob()) *)
Fixpoint span_roots (g : graph) (roots : list nat) (st : sstate) : res sstate :=
  match roots with
  | [] => Ok st
  | r :: rest =>
      let '(dummy, st1) := alloc_job st empty_job in
      match add_step (S (length g)) g r dummy st1 with
      | Ok (st2, _) => span_roots g rest st2
      | OutOfFuel => OutOfFuel
      | KeyError => KeyError
      end
  end.

Definition span (g : graph) (roots : list nat) : res sstate := span_roots g roots init_state.

(* ---- sanitize, part 2: merging *)
(* def addChilds(pkgs, childs) *)
Fixpoint add_childs_loop (rec : vset -> sstate -> res sstate) (X : vset) (ps : vset) (st : sstate) : res sstate :=
  match ps with
  | [] => Ok st
  | p :: r =>
      match lookupN p (st_v2j st) with
      | None => KeyError                                   (* j = vidToJob[i] *)
      | Some j =>
          let a := get_job st j in
          if subset X (a_childs a) then add_childs_loop rec X r st
          else
            let st1 := set_job st j (mkJob (a_pkgs a) (a_parents a) (union (a_childs a) X)) in
            match rec (a_parents a) st1 with
            | Ok st2 => add_childs_loop rec X r st2
            | OutOfFuel => OutOfFuel
            | KeyError => KeyError
            end
      end
  end.

Fixpoint add_childs (fuel : nat) (ps : vset) (X : vset) (st : sstate) : res sstate :=
  match fuel with
  | O => OutOfFuel
  | S f => add_childs_loop (fun ps' st' => add_childs f ps' X st') X ps st
  end.

(* (i.childs >= (j.pkgs|j.childs)) *)
Definition reaches (st : sstate) (i j : nat) : bool :=
  subset (reach_set (get_job st j)) (a_childs (get_job st i)).

Fixpoint remap (ps : vset) (i : nat) (m : list (N * nat)) : list (N * nat) :=
  match ps with [] => m | k :: r => remap r i ((k, i) :: m) end.

(* the else branch of the inner loop: collapse j into i *)
Definition merge_two (st : sstate) (i j : nat) : res sstate :=
  let ai := get_job st i in
  let aj := get_job st j in
  let ai' := mkJob (union (a_pkgs ai) (a_pkgs aj)) (union (a_parents ai) (a_parents aj))
                   (union (a_childs ai) (a_childs aj)) in
  let st1 := set_job st i ai' in
  match add_childs (S (st_next st)) (a_parents ai') (reach_set ai') st1 with
  | Ok st2 => Ok (mkSt (st_jobs st2) (st_next st2) (remap (a_pkgs aj) i (st_v2j st2)) (st_v2n st2) (st_ref st2)
                       (st_n2j st2))
  | OutOfFuel => OutOfFuel
  | KeyError => KeyError
  end.

(* for j in remaining: ...   returns (todo, state) *)
Fixpoint merge_inner (i : nat) (remaining : list nat) (st : sstate) : res (list nat * sstate) :=
  match remaining with
  | [] => Ok ([], st)
  | j :: r =>
      if reaches st i j || reaches st j i then
        match merge_inner i r st with
        | Ok (todo, st') => Ok (j :: todo, st')
        | OutOfFuel => OutOfFuel
        | KeyError => KeyError
        end
      else
        match merge_two st i j with
        | Ok st1 => merge_inner i r st1
        | OutOfFuel => OutOfFuel
        | KeyError => KeyError
        end
  end.

(* while todo: i = todo.pop(0) ... jobs.append(i) *)
Fixpoint merge_name (fuel : nat) (todo : list nat) (st : sstate) : res (list nat * sstate) :=
  match fuel with
  | O => OutOfFuel
  | S f =>
      match todo with
      | [] => Ok ([], st)
      | i :: remaining =>
          match merge_inner i remaining st with
          | Ok (todo', st1) =>
              match merge_name f todo' st1 with
              | Ok (jobs, st2) => Ok (i :: jobs, st2)
              | OutOfFuel => OutOfFuel
              | KeyError => KeyError
              end
          | OutOfFuel => OutOfFuel
          | KeyError => KeyError
          end
      end
  end.

Definition sorted_names (m : list (str * list nat)) : list str := sort_by (fun x => x) (map fst m).

(* for name in sorted(nameToJobs.keys()): ... nameToJobs[name] = jobs *)
Fixpoint merge_names (names : list str) (st : sstate) : res sstate :=
  match names with
  | [] => Ok st
  | name :: rest =>
      match lookup_str name (st_n2j st) with
      | None => KeyError
      | Some todo =>
          match merge_name (S (length todo)) todo st with
          | Ok (jobs, st1) => merge_names rest (set_n2j st1 (update_str name (fun _ => jobs) (st_n2j st1)))
          | OutOfFuel => OutOfFuel
          | KeyError => KeyError
          end
      end
  end.

Definition merge_all (st : sstate) : res sstate := merge_names (sorted_names (st_n2j st)) st.

(* ---- sanitize, part 3: names *)
Fixpoint split_sep (s : str) (cur : str) : list str :=
  match s with
  | [] => [rev cur]
  | c :: r => if N.eqb c NAME_SEP then rev cur :: split_sep r [] else split_sep r (c :: cur)
  end.

Fixpoint join_sep (parts : list str) : str :=
  match parts with
  | [] => []
  | [p] => p
  | p :: r => p ++ NAME_SEP :: join_sep r
  end.

Fixpoint lcp2 (a b : list str) : list str :=
  match a, b with
  | x :: a', y :: b' => if str_eqb x y then x :: lcp2 a' b' else []
  | _, _ => []
  end.

Definition lcp (ls : list (list str)) : list str :=
  match ls with [] => [] | l :: r => fold_left lcp2 r l end.

Fixpoint names_of (v2n : list (N * str)) (ps : vset) : res (list str) :=
  match ps with
  | [] => Ok []
  | p :: r =>
      match lookupN p v2n with
      | None => KeyError
      | Some n => match names_of v2n r with Ok l => Ok (n :: l) | OutOfFuel => OutOfFuel | KeyError => KeyError end
      end
  end.

(* def longestPrefix(pkgs) *)
Definition longest_prefix (st : sstate) (pkgs : vset) : res str :=
  match names_of (st_v2n st) pkgs with
  | Ok [n] => Ok n
  | Ok ns => Ok (join_sep (lcp (map (fun n => split_sep n []) ns)))
  | OutOfFuel => OutOfFuel
  | KeyError => KeyError
  end.

Definition fn_append (name : str) (js : list nat) (fnm : list (str * list nat)) : list (str * list nat) :=
  update_str name (fun o => match o with Some l => l ++ js | None => js end) fnm.

Fixpoint final_names_jobs (st : sstate) (jobs : list nat) (fnm : list (str * list nat)) : res (list (str * list nat)) :=
  match jobs with
  | [] => Ok fnm
  | j :: r =>
      match longest_prefix st (a_pkgs (get_job st j)) with
      | Ok n => final_names_jobs st r (fn_append n [j] fnm)
      | OutOfFuel => OutOfFuel
      | KeyError => KeyError
      end
  end.

(* finalNames = {} ; for (name, jobs) in sorted(nameToJobs.items()): ... *)
Fixpoint final_names (st : sstate) (items : list (str * list nat)) (fnm : list (str * list nat)) : res (list (str * list nat)) :=
  match items with
  | [] => Ok fnm
  | (name, jobs) :: rest =>
      if Nat.ltb 1 (length jobs) then
        match final_names_jobs st jobs fnm with
        | Ok fnm' => final_names st rest fnm'
        | OutOfFuel => OutOfFuel
        | KeyError => KeyError
        end
      else final_names st rest (fn_append name jobs fnm)
  end.

(* decimal rendering of a positive counter *)
Fixpoint dec_aux (fuel : nat) (n : N) (acc : str) : str :=
  match fuel with
  | O => acc
  | S f => let d := N.modulo n 10 in let q := N.div n 10 in
           if N.eqb q 0 then (48 + d)%N :: acc else dec_aux f q ((48 + d)%N :: acc)
  end.
Definition dec (n : nat) : str := dec_aux (S n) (N.of_nat n) [].

Definition assign (ps : vset) (name : str) (pn : list (N * str)) : list (N * str) :=
  fold_left (fun m v => (v, name) :: m) ps pn.

Fixpoint number_jobs (st : sstate) (name : str) (i : nat) (jobs : list nat) (pn : list (N * str)) : list (N * str) :=
  match jobs with
  | [] => pn
  | j :: r => number_jobs st name (S i) r (assign (a_pkgs (get_job st j)) (name ++ NAME_SEP :: dec (S i)) pn)
  end.

(* for (name, jobs) in sorted(finalNames.items()): ... self.__packageName[vid] = ... *)
Fixpoint package_names (st : sstate) (items : list (str * list nat)) (pn : list (N * str)) : list (N * str) :=
  match items with
  | [] => pn
  | (name, jobs) :: rest =>
      match jobs with
      | [j] => package_names st rest (assign (a_pkgs (get_job st j)) name pn)
      | _ => package_names st rest (number_jobs st name 0 jobs pn)
      end
  end.

Record named := mkNamed {
  nm_state : sstate;                 (* after merging *)
  nm_final : list (str * list nat);  (* finalNames, sorted *)
  nm_names : list (N * str)          (* self.__packageName *)
}.

Definition sanitize (g : graph) (roots : list nat) : res named :=
  match span g roots with
  | Ok st0 =>
      match merge_all st0 with
      | Ok st =>
          match final_names st (sort_by fst (st_n2j st)) [] with
          | Ok fnm => let items := sort_by fst fnm in Ok (mkNamed st items (package_names st items []))
          | OutOfFuel => OutOfFuel
          | KeyError => KeyError
          end
      | OutOfFuel => OutOfFuel
      | KeyError => KeyError
      end
  | OutOfFuel => OutOfFuel
  | KeyError => KeyError
  end.

(* ------------------------------------------------------------------ job names *)
(* getJobDisplayName without the prefix: self.__packageName[vid] *)
Definition package_name (g : graph) (nm : named) (s : step) : res str :=
  let ovid := if is_pkg s then Some (s_vid s)
              else match nth_error g (s_pkgstep s) with Some p => Some (s_vid p) | None => None end in
  match ovid with
  | None => KeyError
  | Some v => match lookupN v (nm_names nm) with Some n => Ok n | None => KeyError end
  end.

Definition lower_char (c : N) : str :=
  match lookupN c JOBNAME_LOWER with Some l => l | None => [c] end.

(* self.__regexJobName.sub('_', name).lower() *)
Definition internal_of (display : str) : str :=
  flat_map lower_char (flat_map (fun c => if mem c JOBNAME_KEEP then [c] else JOBNAME_REPL) display).

Definition display_name (prefix : str) (g : graph) (nm : named) (s : step) : res str :=
  match package_name g nm s with Ok n => Ok (prefix ++ n) | OutOfFuel => OutOfFuel | KeyError => KeyError end.

Definition internal_name (prefix : str) (g : graph) (nm : named) (s : step) : res str :=
  match display_name prefix g nm s with Ok n => Ok (internal_of n) | OutOfFuel => OutOfFuel | KeyError => KeyError end.

(* ------------------------------------------------------------------ JenkinsJob *)
Record jjob := mkJJ {
  j_name : str;
  j_display : str;
  j_root : bool;
  j_co : list (N * nat);      (* __checkoutSteps: vid -> step *)
  j_bu : list (N * nat);      (* __buildSteps *)
  j_pk : list (N * nat);      (* __packageSteps *)
  j_steps : vset;             (* __steps *)
  j_deps : list (N * nat)     (* __deps: vid -> step, insertion ordered *)
}.

Definition setdefaultN {A} (k : N) (v : A) (m : list (N * A)) : list (N * A) :=
  match lookupN k m with Some _ => m | None => m ++ [(k, v)] end.

Fixpoint add_deps (g : graph) (ds : list nat) (steps : vset) (deps : list (N * nat)) : res (list (N * nat)) :=
  match ds with
  | [] => Ok deps
  | d :: r =>
      match nth_error g d with
      | None => KeyError
      | Some sd =>
          if negb (s_valid sd) then add_deps g r steps deps
          else if mem (s_vid sd) steps then add_deps g r steps deps
          else add_deps g r steps (setdefaultN (s_vid sd) d deps)
      end
  end.

(* JenkinsJob.addStep *)
Definition jj_add_step (g : graph) (sid : nat) (s : step) (jj : jjob) : res jjob :=
  let vid := s_vid s in
  let jj1 :=
    match s_kind s with
    | KCheckout => mkJJ (j_name jj) (j_display jj) (j_root jj) (setdefaultN vid sid (j_co jj)) (j_bu jj) (j_pk jj) (j_steps jj) (j_deps jj)
    | KBuild => mkJJ (j_name jj) (j_display jj) (j_root jj) (j_co jj) (setdefaultN vid sid (j_bu jj)) (j_pk jj) (j_steps jj) (j_deps jj)
    | KPackage => mkJJ (j_name jj) (j_display jj) (j_root jj) (j_co jj) (j_bu jj) (setdefaultN vid sid (j_pk jj)) (j_steps jj) (j_deps jj)
    end in
  if mem vid (j_steps jj1) then Ok jj1
  else
    let steps := j_steps jj1 ++ [vid] in
    match add_deps g (alldeps s) steps (remove_keyN vid (j_deps jj1)) with
    | Ok deps => Ok (mkJJ (j_name jj1) (j_display jj1) (j_root jj1) (j_co jj1) (j_bu jj1) (j_pk jj1) steps deps)
    | OutOfFuel => OutOfFuel
    | KeyError => KeyError
    end.

Record gstate := mkG {
  g_jobs : list (str * jjob);    (* jobs: internal name -> JenkinsJob, insertion ordered *)
  g_seen : vset;                 (* seenPackages (interned stacks) *)
  g_vids : vset                  (* allVariantIds *)
}.

(* sorted(step.getArguments(), key=lambda d: d.getPackage().getName()) *)
Definition arg_name (g : graph) (d : nat) : str :=
  match nth_error g d with Some s => s_name s | None => [] end.

Definition is_valid (g : graph) (d : nat) : bool :=
  match nth_error g d with Some s => s_valid s | None => false end.

Fixpoint loop_gen (rec : nat -> gstate -> res gstate) (ds : list nat) (gs : gstate) : res gstate :=
  match ds with
  | [] => Ok gs
  | d :: r =>
      match rec d gs with
      | Ok gs1 => loop_gen rec r gs1
      | OutOfFuel => OutOfFuel
      | KeyError => KeyError
      end
  end.

(* tools and sandbox: early reject on the package stack *)
Fixpoint loop_gen_seen (g : graph) (rec : nat -> gstate -> res gstate) (ds : list nat) (gs : gstate) : res gstate :=
  match ds with
  | [] => Ok gs
  | d :: r =>
      match nth_error g d with
      | None => KeyError
      | Some sd =>
          if mem (s_stack sd) (g_seen gs) then loop_gen_seen g rec r gs
          else
            match rec d (mkG (g_jobs gs) (g_seen gs ++ [s_stack sd]) (g_vids gs)) with
            | Ok gs1 => loop_gen_seen g rec r gs1
            | OutOfFuel => OutOfFuel
            | KeyError => KeyError
            end
      end
  end.

(* _genJenkinsJobs *)
Fixpoint gen_jobs (fuel : nat) (prefix : str) (short : bool) (g : graph) (nm : named) (sid0 : nat) (gs : gstate)
  : res gstate :=
  match fuel with
  | O => OutOfFuel
  | S f =>
    match nth_error g sid0 with
    | None => KeyError
    | Some s0 =>
      (* if step.isPackageStep(): step = nameCalculator.getReferenceStep(step) *)
      let osid := if is_pkg s0 then lookupN (s_vid s0) (st_ref (nm_state nm)) else Some sid0 in
      match osid with
      | None => KeyError
      | Some sid =>
        match nth_error g sid with
        | None => KeyError
        | Some s =>
          match internal_name prefix g nm s, display_name prefix g nm s with
          | Ok name, Ok disp =>
              if is_pkg s && short && mem (s_vid s) (g_vids gs) then
                match lookup_str name (g_jobs gs) with Some _ => Ok gs | None => KeyError end
              else
                let vids := if is_pkg s && short then g_vids gs ++ [s_vid s] else g_vids gs in
                let jj := match lookup_str name (g_jobs gs) with
                          | Some jj => jj
                          | None => mkJJ name disp false [] [] [] [] []
                          end in
                match jj_add_step g sid s jj with
                | Ok jj' =>
                    let gs1 := mkG (update_str name (fun _ => jj') (g_jobs gs)) (g_seen gs) vids in
                    let args := filter (is_valid g) (sort_by (arg_name g) (s_args s)) in
                    match loop_gen (gen_jobs f prefix short g nm) args gs1 with
                    | Ok gs2 =>
                        if is_pkg s then
                          loop_gen_seen g (gen_jobs f prefix short g nm)
                                        (s_tools s ++ match s_sandbox s with Some x => [x] | None => [] end) gs2
                        else Ok gs2
                    | OutOfFuel => OutOfFuel
                    | KeyError => KeyError
                    end
                | OutOfFuel => OutOfFuel
                | KeyError => KeyError
                end
          | OutOfFuel, _ => OutOfFuel
          | _, OutOfFuel => OutOfFuel
          | _, _ => KeyError
          end
        end
      end
    end
  end.

Definition make_root (name : str) (jobs : list (str * jjob)) : list (str * jjob) :=
  match lookup_str name jobs with
  | Some jj => update_str name (fun _ => mkJJ (j_name jj) (j_display jj) true (j_co jj) (j_bu jj) (j_pk jj)
                                              (j_steps jj) (j_deps jj)) jobs
  | None => jobs
  end.

(* for root in sorted(rootPackages, key=name): _genJenkinsJobs(root, jobs, ..., set(), set(), short).makeRoot() *)
Fixpoint gen_roots (prefix : str) (short : bool) (g : graph) (nm : named) (roots : list nat)
                   (jobs : list (str * jjob)) : res (list (str * jjob)) :=
  match roots with
  | [] => Ok jobs
  | r :: rest =>
      match gen_jobs (S (S (length g))) prefix short g nm r (mkG jobs [] []) with
      | Ok gs =>
          (* the returned job is the one of the (reference) root step *)
          let oname :=
            match nth_error g r with
            | Some s0 =>
                match (if is_pkg s0 then lookupN (s_vid s0) (st_ref (nm_state nm)) else Some r) with
                | Some sid => match nth_error g sid with
                              | Some s => match internal_name prefix g nm s with Ok n => Some n | _ => None end
                              | None => None
                              end
                | None => None
                end
            | None => None
            end in
          match oname with
          | Some n => gen_roots prefix short g nm rest (make_root n (g_jobs gs))
          | None => KeyError
          end
      | OutOfFuel => OutOfFuel
      | KeyError => KeyError
      end
  end.

(* JenkinsJob.getUpstreamJobs: names of the jobs of all recorded dependencies *)
Fixpoint add_name (n : str) (l : list str) : list str :=
  match l with [] => [n] | x :: r => if str_eqb n x then l else x :: add_name n r end.

Fixpoint upstream_of (prefix : str) (g : graph) (nm : named) (deps : list (N * nat)) (acc : list str) : res (list str) :=
  match deps with
  | [] => Ok acc
  | (_, d) :: r =>
      match nth_error g d with
      | None => KeyError
      | Some sd =>
          match internal_name prefix g nm sd with
          | Ok n => upstream_of prefix g nm r (add_name n acc)
          | OutOfFuel => OutOfFuel
          | KeyError => KeyError
          end
      end
  end.

Definition upstream (prefix : str) (g : graph) (nm : named) (jj : jjob) : res (list str) :=
  upstream_of prefix g nm (j_deps jj) [].

(* "Add reverse dependencies": jobs[dep] must exist *)
Fixpoint check_upstream (prefix : str) (g : graph) (nm : named) (all : list (str * jjob)) (js : list (str * jjob))
  : res (list (str * list str)) :=
  match js with
  | [] => Ok []
  | (n, jj) :: r =>
      match upstream prefix g nm jj with
      | Ok ups =>
          if forallb (fun u => match lookup_str u all with Some _ => true | None => false end) ups then
            match check_upstream prefix g nm all r with
            | Ok l => Ok ((n, ups) :: l)
            | OutOfFuel => OutOfFuel
            | KeyError => KeyError
            end
          else KeyError
      | OutOfFuel => OutOfFuel
      | KeyError => KeyError
      end
  end.

(* ------------------------------------------------------------------ genJenkinsBuildOrder *)
Fixpoint str_mem (s : str) (l : list str) : bool :=
  match l with [] => false | x :: r => str_eqb s x || str_mem s r end.

Fixpoint str_remove (s : str) (l : list str) : list str :=
  match l with [] => [] | x :: r => if str_eqb s x then str_remove s r else x :: str_remove s r end.

Record ostate := mkO { o_pending : list str; o_processing : list str; o_order : list str }.

Inductive ores := OOk (o : ostate) | OCyclic | OFuel | OKeyError.

(* def visit(j, pending, processing, order, stack) *)
Fixpoint visit (fuel : nat) (ups : list (str * list str)) (j : str) (o : ostate) : ores :=
  match fuel with
  | O => OFuel
  | S f =>
      if str_mem j (o_processing o) then OCyclic
      else if str_mem j (o_pending o) then
        match lookup_str j ups with
        | None => OKeyError
        | Some ds =>
            let o1 := mkO (o_pending o) (j :: o_processing o) (o_order o) in
            let r := (fix loop (ds : list str) (o : ostate) : ores :=
                        match ds with
                        | [] => OOk o
                        | d :: r => match visit f ups d o with OOk o' => loop r o' | e => e end
                        end) ds o1 in
            match r with
            | OOk o2 => OOk (mkO (str_remove j (o_pending o2)) (str_remove j (o_processing o2)) (o_order o2 ++ [j]))
            | e => e
            end
        end
      else OOk o
  end.

Fixpoint order_loop (fuel : nat) (ups : list (str * list str)) (o : ostate) : ores :=
  match fuel with
  | O => OFuel
  | S f =>
      match o_pending o with
      | [] => OOk o
      | j :: _ =>
          match visit (S (S (length ups))) ups j o with
          | OOk o' => order_loop f ups o'
          | e => e
          end
      end
  end.

Definition build_order (ups : list (str * list str)) : ores :=
  order_loop (S (length ups)) ups (mkO (map fst ups) [] []).

(* ------------------------------------------------------------------ canonical views for the correspondence *)
Fixpoint insertN (x : N) (l : list N) : list N :=
  match l with [] => [x] | y :: r => if N.ltb x y then x :: l else if N.eqb x y then l else y :: insertN x r end.
Definition sortN (l : list N) : list N := fold_left (fun acc x => insertN x acc) l [].

Definition job_view := (list N * (list N * list N))%type.

Definition headN (l : list N) : N := match l with x :: _ => x | [] => 0%N end.

Fixpoint insert_job (x : job_view) (l : list job_view) : list job_view :=
  match l with
  | [] => [x]
  | y :: r => if N.ltb (headN (fst x)) (headN (fst y)) then x :: l else y :: insert_job x r
  end.

(* live abstract jobs: the members of the nameToJobs lists *)
Definition live_jobs (st : sstate) : list nat := flat_map snd (st_n2j st).

Definition abstract_view (st : sstate) : list job_view :=
  fold_left (fun acc j => let a := get_job st j in
                          insert_job (sortN (a_pkgs a), (sortN (a_parents a), sortN (a_childs a))) acc)
            (live_jobs st) [].

Fixpoint insert_nm (x : N * str) (l : list (N * str)) : list (N * str) :=
  match l with
  | [] => [x]
  | y :: r => if N.ltb (fst x) (fst y) then x :: l else if N.eqb (fst x) (fst y) then l else y :: insert_nm x r
  end.

(* the names dict, sorted by vid (first binding of the association list = latest assignment wins) *)
Definition names_view (pn : list (N * str)) : list (N * str) :=
  fold_left (fun acc x => insert_nm x acc) pn [].

Definition jjob_view := (str * (str * (bool * (list N * (list N * (list N * list str))))))%type.

Definition jobs_view (jobs : list (str * jjob)) (ups : list (str * list str)) : list jjob_view :=
  sort_by fst
    (map (fun '(n, jj) =>
            (n, (j_display jj, (j_root jj, (sortN (map fst (j_co jj)), (sortN (map fst (j_bu jj)),
                (sortN (map fst (j_pk jj)),
                 sort_by (fun x => x) (match lookup_str n ups with Some u => u | None => [] end))))))))
         jobs).

Inductive outcome :=
| Jobs (abs : list job_view) (names : list (N * str)) (jobs : list jjob_view) (cyclic : bool)
| SanitizeKeyError                 (* KeyError inside JobNameCalculator.sanitize *)
| GenKeyError (abs : list job_view) (names : list (N * str))   (* KeyError inside genJenkinsJobs after sanitize *)
| ModelOutOfFuel.

(* genJenkinsJobs + genJenkinsBuildOrder.  [roots] are in config.roots order, [sroots] the same sorted by name. *)
Definition run (prefix : str) (short : bool) (g : graph) (roots sroots : list nat) : outcome :=
  match sanitize g roots with
  | OutOfFuel => ModelOutOfFuel
  | KeyError => SanitizeKeyError
  | Ok nm =>
      let av := abstract_view (nm_state nm) in
      let nv := names_view (nm_names nm) in
      match gen_roots prefix short g nm sroots [] with
      | OutOfFuel => ModelOutOfFuel
      | KeyError => GenKeyError av nv
      | Ok jobs =>
          match check_upstream prefix g nm jobs jobs with
          | OutOfFuel => ModelOutOfFuel
          | KeyError => GenKeyError av nv
          | Ok ups =>
              match build_order ups with
              | OOk _ => Jobs av nv (jobs_view jobs ups) false
              | OCyclic => Jobs av nv (jobs_view jobs ups) true
              | OFuel => ModelOutOfFuel
              | OKeyError => GenKeyError av nv
              end
          end
      end
  end.

(* constructor with N indices, used for literals written by the harness *)
Definition mkS (k : kind) (vid : N) (pkgstep stack : N) (name recipe : str) (iso valid : bool)
               (args tools : list N) (sbx : option N) : step :=
  mkStep k vid (N.to_nat pkgstep) stack name recipe iso valid (map N.to_nat args) (map N.to_nat tools)
         (match sbx with Some x => Some (N.to_nat x) | None => None end).

(* ------------------------------------------------------------------ well-formed inputs *)
(* What the harness guarantees about the extracted graph (and re-checks by evaluation):
   [wf_shape]: dependencies have smaller indices (the instance graph is a DAG); package steps carry
   even ids, other steps odd ones (distinct hash values); a checkout/build step belongs to exactly one
   package and a non-package dependency belongs to the same package.
   [wf] = [wf_shape] + the interned variant ids of the package dependencies of EVERY instance are
   smaller than the id of the depending package, i.e. the variant graph over all instances is acyclic.
   This second part fails exactly when instances of one variant depend on each other through different
   sandboxes (finding F13). *)
Definition wf_dep (ranked : bool) (g : graph) (i : nat) (s : step) (d : nat) : bool :=
  Nat.ltb d i &&
  match nth_error g d, nth_error g (s_pkgstep s) with
  | Some sd, Some ps =>
      if is_pkg sd then (negb ranked || N.ltb (s_vid sd) (s_vid ps)) && Nat.eqb (s_pkgstep sd) d
      else Nat.eqb (s_pkgstep sd) (s_pkgstep s)
  | _, _ => false
  end.

Definition wf_step (ranked : bool) (g : graph) (i : nat) (s : step) : bool :=
  Bool.eqb (is_pkg s) (N.even (s_vid s)) &&
  (if is_pkg s then Nat.eqb (s_pkgstep s) i else Nat.ltb i (s_pkgstep s)) &&
  match nth_error g (s_pkgstep s) with Some ps => is_pkg ps | None => false end &&
  forallb (wf_dep ranked g i s) (alldeps s).

Fixpoint wf_from (ranked : bool) (g : graph) (i : nat) (l : list step) : bool :=
  match l with [] => true | s :: r => wf_step ranked g i s && wf_from ranked g (S i) r end.

Definition wf (g : graph) : bool := wf_from true g 0 g.
Definition wf_shape (g : graph) : bool := wf_from false g 0 g.

Definition wf_roots (g : graph) (roots : list nat) : bool :=
  forallb (fun r => match nth_error g r with Some s => is_pkg s | None => false end) roots.

(* ------------------------------------------------------------------ specification vocabulary *)
Definition sub (a b : vset) : Prop := forall x, In x a -> In x b.

Definition pk (st : sstate) (j : nat) : vset := a_pkgs (get_job st j).
Definition pa (st : sstate) (j : nat) : vset := a_parents (get_job st j).
Definition ch (st : sstate) (j : nat) : vset := a_childs (get_job st j).
Definition jobof (st : sstate) (v : N) : option nat := lookupN v (st_v2j st).   (* vidToJob.get(v) *)

(* an AbstractJob object that is still referenced by vidToJob *)
Definition live (st : sstate) (j : nat) : Prop := exists v, jobof st v = Some j.

(* the job graph as the algorithm records it: J -> K when a package of J is a parent of K *)
Definition E (st : sstate) (J K : nat) : Prop :=
  exists p, live st K /\ In p (pa st K) /\ jobof st p = Some J.

(* "childs is closed under job level reachability": every job that has a package among the parents of K
   contains the packages and childs of K in its childs *)
Definition closed (st : sstate) : Prop :=
  forall K p J, live st K -> In p (pa st K) -> jobof st p = Some J ->
  sub (pk st K) (ch st J) /\ sub (ch st K) (ch st J).

Record Inv (st : sstate) : Prop := {
  inv_in : forall v j, jobof st v = Some j -> In v (pk st j);
  inv_own : forall j v, live st j -> In v (pk st j) -> jobof st v = Some j;
  inv_par : forall j p, live st j -> In p (pa st j) -> exists i, jobof st p = Some i;
  inv_closed : closed st;
  inv_acyclic : forall J, ~ clos_trans_1n nat (E st) J J
}.

(* the package steps a step stands for in addStep: itself if it is a package step, otherwise the
   package steps reached through checkout/build steps *)
Inductive target (g : graph) : nat -> nat -> Prop :=
| tg_pkg d sd : nth_error g d = Some sd -> is_pkg sd = true -> target g d d
| tg_via d sd e q : nth_error g d = Some sd -> is_pkg sd = false -> In e (alldeps sd) -> target g e q ->
                    target g d q.

(* Q is a direct package dependency (argument, tool or sandbox of the package, build or checkout step)
   of the package instance P *)
Definition pdep (g : graph) (P Q : nat) : Prop :=
  exists sP e, nth_error g P = Some sP /\ is_pkg sP = true /\ In e (alldeps sP) /\ target g e Q.

(* the dependencies of instance P are recorded for variant k: each is known and has k among its parents *)
Definition covered (g : graph) (st : sstate) (k : N) (P : nat) : Prop :=
  forall Q sQ, pdep g P Q -> nth_error g Q = Some sQ ->
  exists jq, jobof st (s_vid sQ) = Some jq /\ In k (pa st jq).

(* the reference instance of variant k, its name and its dependencies *)
Definition cov_entry (g : graph) (st : sstate) (k : N) : Prop :=
  exists P sP, lookupN k (st_ref st) = Some P /\ nth_error g P = Some sP /\ is_pkg sP = true /\
               s_vid sP = k /\ lookupN k (st_v2n st) = Some (s_name sP) /\ covered g st k P.

Definition Cover (g : graph) (st : sstate) : Prop :=
  forall k j, jobof st k = Some j -> cov_entry g st k.

(* job J depends on job K: the reference instance of a package of J has a direct package dependency
   (argument, tool or sandbox of its package, build or checkout step) that is built by K *)
Definition jdep (g : graph) (st : sstate) (J K : nat) : Prop :=
  exists k P Q sQ, jobof st k = Some J /\ lookupN k (st_ref st) = Some P /\ pdep g P Q /\
                   nth_error g Q = Some sQ /\ jobof st (s_vid sQ) = Some K.

(* the variants that have to be built: the roots and, transitively, the direct package dependencies of the
   reference instances *)
Inductive needed (g : graph) (st : sstate) (roots : list nat) : N -> Prop :=
| nd_root r s : In r roots -> nth_error g r = Some s -> needed g st roots (s_vid s)
| nd_dep k P Q sQ : needed g st roots k -> lookupN k (st_ref st) = Some P -> pdep g P Q ->
                    nth_error g Q = Some sQ -> needed g st roots (s_vid sQ).

(* all instances of one variant have the same dependency variants *)
Definition consistent_deps (g : graph) : Prop :=
  forall P P' sP sP' Q sQ, nth_error g P = Some sP -> nth_error g P' = Some sP' ->
  is_pkg sP = true -> is_pkg sP' = true -> s_vid sP = s_vid sP' ->
  pdep g P Q -> nth_error g Q = Some sQ ->
  exists Q' sQ', pdep g P' Q' /\ nth_error g Q' = Some sQ' /\ s_vid sQ' = s_vid sQ.

(* the package instances reachable from the roots *)
Inductive reachable (g : graph) (roots : list nat) : nat -> Prop :=
| rc_root r : In r roots -> reachable g roots r
| rc_dep P Q : reachable g roots P -> pdep g P Q -> reachable g roots Q.

(* v is built by exactly one abstract job *)
Definition in_exactly_one_job (st : sstate) (v : N) : Prop :=
  exists J, live st J /\ In v (pk st J) /\ forall K, live st K -> In v (pk st K) -> K = J.
