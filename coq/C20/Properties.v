(* C20 — property theorems (work in progress) *)
From Coq Require Import List NArith Bool.
Require Import BobV.C20.Model BobV.C20.Proofs.
Import ListNotations.
