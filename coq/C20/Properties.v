(* C20 — property theorems.  This file contains only statements, each closed by [exact] of a lemma
   from Proofs.v, and non-vacuity examples.  The vocabulary (pk/pa/ch, jobof, live, E, closed, Inv, wf,
   wf_shape, target, pdep, jdep, needed, reachable, consistent_deps, in_exactly_one_job) is defined at the
   end of Model.v; name_collision/no_collision and the witness graphs are in Proofs.v.

   [wf g] = the extracted step graph has the shape the Step API guarantees ([wf_shape]) AND the interned
   variant ids of the package dependencies of every instance are smaller than the id of the depending
   package, i.e. the variant graph over ALL package instances is acyclic. *)
From Coq Require Import List NArith Bool Arith Relations.
Require Import BobV.C20.Model BobV.C20.Proofs BobV.C20.FuelProofs.
Import ListNotations.

(* P1. "childs is closed under job-level reachability" holds after the spanning phase of every
   well-formed step graph, is preserved (together with the rest of the invariant) by every single
   merge the greedy loop performs, holds at the end of sanitize(), and it is the reason why the test
   [i.childs >= j.pkgs | j.childs] means "i reaches j". *)
Theorem childs_closed_invariant :
  (forall g roots st, wf g = true -> span g roots = Ok st -> closed st) /\
  (forall st i j st', Inv st -> live st i -> live st j -> i <> j ->
     reaches st i j = false -> reaches st j i = false -> merge_two st i j = Ok st' -> Inv st') /\
  (forall g roots nm, wf g = true -> sanitize g roots = Ok nm -> closed (nm_state nm)) /\
  (forall st I J, Inv st -> clos_trans_1n nat (E st) I J -> reaches st I J = true).
Proof. exact childs_closed_invariant_proof. Qed.

(* P1. The graph of abstract jobs, as recorded in the parents sets, is acyclic after all merges
   (contracting two mutually unreachable vertices of a DAG keeps it a DAG). *)
Theorem merge_preserves_acyclic : forall g roots nm,
  wf g = true -> sanitize g roots = Ok nm -> forall J, ~ clos_trans_1n nat (E (nm_state nm)) J J.
Proof. exact merge_preserves_acyclic_proof. Qed.

(* P1. ... and the recorded graph contains every real dependency: the job graph induced by the direct
   package dependencies (arguments, tools, sandbox of the package, build and checkout step) of the
   reference instances is acyclic.
   Full statement (FALSE of the code, finding F13, see job_graph_acyclic_refuted): the same with
   [wf_shape g] instead of [wf g].  Missing: nothing in the proof; the hypothesis "the variant graph
   over all instances is acyclic" is necessary. *)
Theorem job_graph_acyclic_partial : forall g roots nm,
  wf g = true -> sanitize g roots = Ok nm -> forall J, ~ clos_trans_1n nat (jdep g (nm_state nm)) J J.
Proof. exact job_graph_acyclic_partial_proof. Qed.

Theorem job_graph_acyclic_refuted :
  exists g roots sroots abs names jobs,
    wf_shape g = true /\ wf_roots g roots = true /\
    run [] false g roots sroots = Jobs abs names jobs true /\ no_collision names = true /\
    length abs = length names.
Proof. exact job_graph_acyclic_refuted_proof. Qed.

(* P1. Every variant that has to be built (the roots and, transitively, the dependencies of the
   reference instances) is in the package set of exactly one abstract job ... *)
Theorem every_needed_variant_in_exactly_one_job : forall g roots nm,
  wf g = true -> wf_roots g roots = true -> sanitize g roots = Ok nm ->
  forall k, needed g (nm_state nm) roots k -> in_exactly_one_job (nm_state nm) k.
Proof. exact every_needed_variant_in_exactly_one_job_proof. Qed.

(* ... and when all instances of a variant have the same dependency variants this is every package
   reachable from the roots. *)
Theorem every_reachable_pkg_in_exactly_one_job : forall g roots nm,
  wf g = true -> wf_roots g roots = true -> consistent_deps g -> sanitize g roots = Ok nm ->
  forall Q sQ, reachable g roots Q -> nth_error g Q = Some sQ -> in_exactly_one_job (nm_state nm) (s_vid sQ).
Proof. exact every_reachable_pkg_in_exactly_one_job_proof. Qed.

(* P1 (partial). The abstract job J of a package depends on the job K of every direct dependency of its
   reference instance: K is another job, it records the package as parent, and J's childs contain
   everything K builds or reaches.
   Full statement: additionally K's internal name is in JenkinsJob.getUpstreamJobs() of the Jenkins job
   that builds J.  The Jenkins-level half is jenkins_job_upstream_complete below; missing is the link
   between the two (that the instance stored in the JenkinsJob is the reference instance and that the
   internal name identifies the abstract job — the latter is false, F4). *)
Theorem job_depends_on_jobs_of_deps_partial : forall g roots nm,
  wf g = true -> sanitize g roots = Ok nm ->
  forall k J P Q sQ, jobof (nm_state nm) k = Some J -> lookupN k (st_ref (nm_state nm)) = Some P ->
  pdep g P Q -> nth_error g Q = Some sQ ->
  exists K, jobof (nm_state nm) (s_vid sQ) = Some K /\ K <> J /\ In k (pa (nm_state nm) K) /\
            sub (pk (nm_state nm) K) (ch (nm_state nm) J) /\ sub (ch (nm_state nm) K) (ch (nm_state nm) J).
Proof. exact job_depends_on_jobs_of_deps_proof. Qed.

(* P1 (Jenkins level). For every JenkinsJob produced by genJenkinsJobs (any prefix, shortdescription
   setting, root list): every variant the job builds has an instance all of whose valid dependencies
   (arguments, tools, sandbox) are either built by the same job or are recorded dependencies whose job
   name is in getUpstreamJobs(); a recorded dependency is never built by the job itself.
   Not covered (exercised by the correspondence and the oracle): that _genJenkinsJobs reaches every needed
   package (seenPackages/allVariantIds early rejects) and that the job name calculated from the display
   name identifies the abstract job (false, F4). *)
Theorem jenkins_job_upstream_complete : forall prefix short g nm roots jobs n jj ups,
  gen_roots prefix short g nm roots [] = Ok jobs -> lookup_str n jobs = Some jj ->
  upstream prefix g nm jj = Ok ups ->
  forall v, In v (j_steps jj) -> exists sid s, nth_error g sid = Some s /\ s_vid s = v /\
    forall d sd, In d (alldeps s) -> nth_error g d = Some sd -> s_valid sd = true ->
      In (s_vid sd) (j_steps jj) \/
      (~ In (s_vid sd) (j_steps jj) /\
       exists d' sd' m, nth_error g d' = Some sd' /\ s_vid sd' = s_vid sd /\ s_valid sd' = true /\
                        internal_name prefix g nm sd' = Ok m /\ In m ups).
Proof. exact jenkins_job_upstream_complete_proof. Qed.

(* P1 names_unique. Full statement (FALSE of the code, finding F4):
     forall g roots nm, wf g = true -> sanitize g roots = Ok nm -> ~ name_collision nm
   i.e. distinct abstract jobs get distinct internal Jenkins job names. *)
Theorem names_unique_refuted :
  exists g roots nm, wf g = true /\ wf_roots g roots = true /\ sanitize g roots = Ok nm /\ name_collision nm.
Proof. exact names_unique_refuted_proof. Qed.

(* What does hold: the name is a total function of the job (every spanned package gets a name, all
   packages of one abstract job get the same name).  Missing for the full statement: injectivity, which
   fails for names that differ only in case or in characters replaced by '_', and for numbering
   suffixes that collide with existing names. *)
Theorem names_unique_partial : forall g roots nm,
  wf g = true -> sanitize g roots = Ok nm ->
  (forall v j, jobof (nm_state nm) v = Some j -> exists n, lookupN v (nm_names nm) = Some n) /\
  (forall v1 v2 j, jobof (nm_state nm) v1 = Some j -> jobof (nm_state nm) v2 = Some j ->
                   lookupN v1 (nm_names nm) = lookupN v2 (nm_names nm)).
Proof. exact names_unique_partial_proof. Qed.

(* ---- non-vacuity: concrete instances, evaluated *)

(* a well-formed graph on which jobs are merged ({q-a,q-b} and {q-b,q-c}) and numbered (q-1, q-2) *)
Example sanitize_nonvacuous :
  wf witness_merge_graph = true /\ wf_roots witness_merge_graph witness_merge_roots = true /\
  exists nm, sanitize witness_merge_graph witness_merge_roots = Ok nm /\
    (exists J, jobof (nm_state nm) 8%N = Some J /\ jobof (nm_state nm) 10%N = Some J) /\
    lookupN 8%N (nm_names nm) = Some [113; 45; 49]%N /\ lookupN 2%N (nm_names nm) = Some [113; 45; 50]%N.
Proof.
  split; [vm_compute; reflexivity|]. split; [vm_compute; reflexivity|].
  destruct (sanitize witness_merge_graph witness_merge_roots) as [nm| |] eqn:E; [|vm_compute in E; discriminate..].
  exists nm. split; [reflexivity|]. vm_compute in E. inversion E; subst nm; clear E.
  split; [eexists; split; vm_compute; reflexivity|]. split; vm_compute; reflexivity.
Qed.

(* the job graph is not empty: on the F4 witness the job of root depends on the job of lib *)
Example jdep_nonvacuous :
  exists nm J K, sanitize witness_f4_graph witness_f4_roots = Ok nm /\ jdep witness_f4_graph (nm_state nm) J K.
Proof.
  destruct (sanitize witness_f4_graph witness_f4_roots) as [nm| |] eqn:E; [|vm_compute in E; discriminate..].
  exists nm. vm_compute in E. inversion E; subst nm; clear E.
  eexists. eexists. split; [reflexivity|].
  exists 8%N, 11, 9. eexists. split; [vm_compute; reflexivity|]. split; [vm_compute; reflexivity|].
  split; [|split; vm_compute; reflexivity].
  eexists. exists 10. split; [vm_compute; reflexivity|]. split; [reflexivity|]. split; [vm_compute; auto|].
  eapply tg_via; [vm_compute; reflexivity|reflexivity|vm_compute; auto|].
  eapply tg_pkg; [vm_compute; reflexivity|reflexivity].
Qed.

(* the test of the merge loop says "reaches" where there is a path, and the merged jobs were unreachable *)
Example reaches_nonvacuous :
  exists nm Jroot Jt, sanitize witness_merge_graph witness_merge_roots = Ok nm /\
    jobof (nm_state nm) 14%N = Some Jroot /\ jobof (nm_state nm) 6%N = Some Jt /\
    reaches (nm_state nm) Jroot Jt = true /\ reaches (nm_state nm) Jt Jroot = false.
Proof.
  destruct (sanitize witness_merge_graph witness_merge_roots) as [nm| |] eqn:E; [|vm_compute in E; discriminate..].
  exists nm. vm_compute in E. inversion E; subst nm; clear E.
  eexists. eexists. split; [reflexivity|]. split; [vm_compute; reflexivity|]. split; [vm_compute; reflexivity|].
  split; vm_compute; reflexivity.
Qed.

(* the Jenkins level: on the merge witness the job of root has the jobs of its dependencies upstream *)
Example upstream_nonvacuous :
  exists nm jobs jj ups, sanitize witness_merge_graph witness_merge_roots = Ok nm /\
    gen_roots [] false witness_merge_graph nm witness_merge_roots [] = Ok jobs /\
    lookup_str [114; 111; 111; 116]%N jobs = Some jj /\ upstream [] witness_merge_graph nm jj = Ok ups /\
    length (j_steps jj) = 2 /\ length ups = 1.
Proof.
  destruct (sanitize witness_merge_graph witness_merge_roots) as [nm| |] eqn:E; [|vm_compute in E; discriminate..].
  exists nm. vm_compute in E. inversion E; subst nm; clear E.
  eexists. eexists. eexists. split; [reflexivity|]. split; [vm_compute; reflexivity|].
  split; [vm_compute; reflexivity|]. split; [vm_compute; reflexivity|]. split; vm_compute; reflexivity.
Qed.

(* ---- fuel sufficiency: the recursive functions of Model.v run on explicit fuel and return OutOfFuel
   (OFuel in the build order) when it is used up; the theorems above exclude that result by hypothesis
   ([... = Ok ...]).  The theorems below show that it cannot occur with the fuel the entry points of the model
   pass, so nothing is lost.  Vocabulary (defined in FuelProofs.v, all boolean):
     [topo g]      every dependency (argument, tool, sandbox) of the step at position i is at a position < i
                   (the harness numbers the Step objects in post-order; the recipe graph of Bob is acyclic);
     [bounded st]  every AbstractJob referenced by vidToJob or by a list of nameToJobs has been allocated
                   (its id is below the allocation counter st_next);
     [refs_ok g r] self.__referenceStep maps a variant id to a package step of the graph with that id;
     [dval l], [is_digit c]   the value of a string of decimal digits / '0' <= c <= '9'. *)

(* [topo] is implied by what the harness checks on every extracted graph *)
Theorem wf_implies_topo : forall g,
  (wf_shape g = true -> topo g = true) /\ (wf g = true -> topo g = true).
Proof. exact (fun g => conj (wf_shape_topo_proof g) (wf_topo g)). Qed.

(* addStep: the recursion follows dependencies, i.e. goes to smaller positions, so [sid + 1] units of fuel are
   enough for the step at position sid and [length g + 1] for any step (span_roots passes S (length g)) *)
Theorem add_step_fuel_enough : forall g sid par st, topo g = true ->
  (forall fuel, sid < fuel -> add_step fuel g sid par st <> OutOfFuel) /\
  add_step (S (length g)) g sid par st <> OutOfFuel.
Proof. exact (fun g sid par st T => conj (fun fuel H => add_step_fuel g T fuel sid par st H)
                                         (add_step_fuel_enough_proof g sid par st T)). Qed.

(* the spanning phase never runs out of fuel, and it establishes the two invariants the later phases need *)
Theorem span_fuel_enough : forall g roots, topo g = true ->
  span g roots <> OutOfFuel /\
  forall st, span g roots = Ok st -> bounded st = true /\ refs_ok g (st_ref st) = true.
Proof. exact (fun g roots T => conj (span_fuel_enough_proof g roots T) (span_bounded_proof g roots)). Qed.

(* addChilds: a job is entered only while its childs do not contain X and is marked before the recursion;
   so a chain of calls visits distinct allocated jobs and S (st_next st) units of fuel (what merge_two
   passes) are enough — whether or not the parents relation is acyclic *)
Theorem add_childs_fuel_enough : forall st ps X,
  bounded st = true -> add_childs (S (st_next st)) ps X st <> OutOfFuel.
Proof. exact add_childs_fuel_enough_proof. Qed.

(* the greedy merge loop of one name: every round removes at least the head of the todo list *)
Theorem merge_name_fuel_enough : forall st todo,
  bounded st = true -> forallb (fun k => Nat.ltb k (st_next st)) todo = true ->
  merge_name (S (length todo)) todo st <> OutOfFuel.
Proof. exact merge_name_fuel_enough_proof. Qed.

(* ... and the loop over all names *)
Theorem merge_all_fuel_enough : forall st, bounded st = true -> merge_all st <> OutOfFuel.
Proof. exact merge_all_fuel_enough_proof. Qed.

(* prefix naming has no fuel of its own; the decimal rendering of the counter (fuel n + 1, silently
   truncating when the fuel is used up) is never truncated: the digits denote n, and any larger fuel gives the
   same string *)
Theorem names_fuel_enough :
  (forall st items fnm, final_names st items fnm <> OutOfFuel) /\
  (forall n, dval (dec n) = N.of_nat n /\ forallb is_digit (dec n) = true /\ dec n <> [] /\
             forall fuel, n < fuel -> dec_aux fuel (N.of_nat n) [] = dec n).
Proof. exact (conj names_fuel_enough_proof dec_fuel_enough_proof). Qed.

(* JobNameCalculator.sanitize as a whole *)
Theorem sanitize_fuel_enough : forall g roots, topo g = true -> sanitize g roots <> OutOfFuel.
Proof. exact sanitize_fuel_enough_proof. Qed.

(* _genJenkinsJobs: under [wf g] the pair (variant id of the owning package, position inside the package)
   decreases along every call, also across getReferenceStep (which keeps the variant id); at most
   [length g] nested calls, gen_roots passes S (S (length g)).
   Full statement (FALSE of the model, see gen_jobs_fuel_wf_shape_refuted): the same with [wf_shape g]. *)
Theorem gen_jobs_fuel_enough : forall prefix short g nm sid gs,
  wf g = true -> refs_ok g (st_ref (nm_state nm)) = true ->
  gen_jobs (S (S (length g))) prefix short g nm sid gs <> OutOfFuel.
Proof.
  exact (fun prefix short g nm sid gs W R =>
           gen_jobs_fuel prefix short g nm W R (S (S (length g))) sid gs
                         (le_n_S _ _ (Nat.le_trans _ _ _ (rank_bound g sid) (Nat.le_succ_diag_r _)))).
Qed.

Theorem gen_roots_fuel_enough : forall prefix short g roots sroots nm jobs,
  wf g = true -> sanitize g roots = Ok nm -> gen_roots prefix short g nm sroots jobs <> OutOfFuel.
Proof. exact gen_roots_fuel_enough_proof. Qed.

(* genJenkinsBuildOrder, for every upstream relation (cyclic ones end in OCyclic): a job is put into
   [processing] before its upstream jobs are visited, and every round of the outer loop removes the picked
   job from [pending] *)
Theorem build_order_fuel_enough : forall ups,
  (forall j o, visit (S (S (length ups))) ups j o <> OFuel) /\ build_order ups <> OFuel.
Proof. exact (fun ups => conj (visit_fuel_enough_proof ups) (build_order_fuel_enough_proof ups)). Qed.

(* the entry point (genJenkinsJobs + genJenkinsBuildOrder): never out of fuel on a well-formed graph, for
   every prefix, shortdescription setting and root lists *)
Theorem gen_jobs_never_out_of_fuel : forall prefix short g roots sroots,
  wf g = true -> run prefix short g roots sroots <> ModelOutOfFuel.
Proof. exact run_never_out_of_fuel_proof. Qed.

(* Without "the variant graph over all instances is acyclic" the recursion of the MODEL of _genJenkinsJobs
   need not be well-founded: two instances of one variant, the reference instance depending through arguments
   on the other one.  (Not an input of the real code: getVariantId hashes the variant ids of arguments and
   tools, only sandbox edges can close such a cycle, and those are cut by seenPackages.) *)
Theorem gen_jobs_fuel_wf_shape_refuted :
  exists g roots, wf_shape g = true /\ wf_roots g roots = true /\ topo g = true /\
                  (exists nm, sanitize g roots = Ok nm) /\ run [] false g roots roots = ModelOutOfFuel.
Proof. exact gen_jobs_fuel_wf_shape_refuted_proof. Qed.

(* non-vacuity: the merge witness satisfies all hypotheses, the run goes through spanning, merging (two
   merged jobs), numbering, job generation and the build order, and ends with four Jenkins jobs in a DAG *)
Example fuel_nonvacuous :
  wf witness_merge_graph = true /\ topo witness_merge_graph = true /\
  (exists st, span witness_merge_graph witness_merge_roots = Ok st /\ bounded st = true /\
              refs_ok witness_merge_graph (st_ref st) = true /\ 0 < st_next st /\
              exists name todo, lookup_str name (st_n2j st) = Some todo /\ 1 < length todo /\
                                exists jobs st', merge_name (S (length todo)) todo st = Ok (jobs, st') /\
                                                 length jobs < length todo) /\
  (exists abs names jobs, run [] false witness_merge_graph witness_merge_roots witness_merge_roots
                          = Jobs abs names jobs false /\ 2 < length jobs) /\
  dec 120 = [49; 50; 48]%N.
Proof. exact fuel_nonvacuous_proof. Qed.
