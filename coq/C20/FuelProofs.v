(* C20 — fuel sufficiency: with the fuel the model's entry points use, no function of Model.v returns
   OutOfFuel / OFuel on well-formed inputs, and [dec] never truncates a number.

   Termination arguments (they are the arguments for the loops of jenkins.py as well):
     addStep        the step graph is a DAG: dependencies have smaller indices ([topo g]);
     addChilds      a job is entered only when its childs set does not yet contain X and is marked before
                    the recursion, so every chain of calls visits distinct jobs (no acyclicity needed);
     merge loop     the todo list shrinks by at least its head in every round;
     numbering      the quotient by 10 of a positive number is smaller;
     _genJenkinsJobs  under [wf g] the pair (variant id of the owning package, position inside the package)
                    decreases lexicographically along every call, also across getReferenceStep;
     visit          a job enters [processing] before its upstream jobs are visited and a job that is being
                    processed stops the descent (cycle report);
     build order    every round removes the picked job from [pending]. *)
From Coq Require Import List NArith Bool Arith Lia Relations.
Require Import BobV.C20.Model BobV.C20.Proofs.
Import ListNotations.

(* ------------------------------------------------------------------ counting *)
Lemma filter_length_le {A} (P Q : A -> bool) l :
  (forall x, In x l -> P x = true -> Q x = true) -> length (filter P l) <= length (filter Q l).
Proof.
  induction l as [|a l IH]; intros H; simpl; [lia|].
  assert (IH' : length (filter P l) <= length (filter Q l)) by (apply IH; intros x Hx; apply H; right; exact Hx).
  destruct (P a) eqn:Pa.
  - rewrite (H a (or_introl eq_refl) Pa). simpl. lia.
  - destruct (Q a); simpl; lia.
Qed.

Lemma filter_length_lt {A} (P Q : A -> bool) l d :
  (forall x, In x l -> P x = true -> Q x = true) -> In d l -> P d = false -> Q d = true ->
  length (filter P l) < length (filter Q l).
Proof.
  induction l as [|a l IH]; intros H Hd Pd Qd; [destruct Hd|]. simpl.
  assert (Hl : forall x, In x l -> P x = true -> Q x = true) by (intros x Hx; apply H; right; exact Hx).
  destruct Hd as [->|Hd].
  - rewrite Pd, Qd. simpl. pose proof (filter_length_le P Q l Hl). lia.
  - specialize (IH Hl Hd Pd Qd). destruct (P a) eqn:Pa.
    + rewrite (H a (or_introl eq_refl) Pa). simpl. lia.
    + destruct (Q a); simpl; lia.
Qed.

Lemma filter_length_bound {A} (P : A -> bool) l : length (filter P l) <= length l.
Proof. induction l as [|a l IH]; simpl; [lia|]. destruct (P a); simpl; lia. Qed.

(* ------------------------------------------------------------------ A. addStep: the step graph is a DAG *)
(* every dependency (argument, tool, sandbox) of the step at position i is at a smaller position *)
Definition topo_step (i : nat) (s : step) : bool := forallb (fun d => Nat.ltb d i) (alldeps s).

Fixpoint topo_from (i : nat) (l : list step) : bool :=
  match l with [] => true | s :: r => topo_step i s && topo_from (S i) r end.

Definition topo (g : graph) : bool := topo_from 0 g.

Lemma topo_from_nth : forall l i k s d,
  topo_from i l = true -> nth_error l k = Some s -> In d (alldeps s) -> d < i + k.
Proof.
  induction l as [|a l IH]; intros i k s d H Hn Hd; [destruct k; discriminate|].
  simpl in H. apply andb_true_iff in H as [H1 H2]. destruct k as [|k]; simpl in Hn.
  - inversion Hn; subst. unfold topo_step in H1. rewrite forallb_forall in H1.
    specialize (H1 d Hd). apply Nat.ltb_lt in H1. lia.
  - specialize (IH (S i) k s d H2 Hn Hd). lia.
Qed.

Lemma topo_nth g i s d : topo g = true -> nth_error g i = Some s -> In d (alldeps s) -> d < i.
Proof. intros H Hn Hd. exact (topo_from_nth g 0 i s d H Hn Hd). Qed.

Lemma wf_from_topo b g : forall l i, wf_from b g i l = true -> topo_from i l = true.
Proof.
  induction l as [|a l IH]; intros i H; [reflexivity|]. simpl in H |- *.
  apply andb_true_iff in H as [H1 H2]. rewrite (IH _ H2), andb_true_r.
  unfold wf_step in H1. apply andb_true_iff in H1 as [_ H1].
  unfold topo_step. rewrite forallb_forall in H1 |- *. intros d Hd. specialize (H1 d Hd).
  unfold wf_dep in H1. apply andb_true_iff in H1 as [H1 _]. exact H1.
Qed.

Lemma wf_shape_topo_proof g : wf_shape g = true -> topo g = true.
Proof. apply wf_from_topo. Qed.

Lemma wf_topo g : wf g = true -> topo g = true.
Proof. apply wf_from_topo. Qed.

Lemma loop_deps_fuel rec : forall ds j st,
  (forall d, In d ds -> forall j' st', rec d j' st' <> OutOfFuel) -> loop_deps rec ds j st <> OutOfFuel.
Proof.
  induction ds as [|d r IH]; intros j st H; simpl; [discriminate|].
  destruct (rec d j st) as [[st1 cs]| |] eqn:E; [|exfalso; exact (H d (or_introl eq_refl) j st E)|discriminate].
  apply IH. intros d' Hd'. apply H. right. exact Hd'.
Qed.

Lemma add_step_fuel g : topo g = true -> forall fuel sid par st,
  sid < fuel -> add_step fuel g sid par st <> OutOfFuel.
Proof.
  intros T. induction fuel as [|f IH]; intros sid par st Hlt; [lia|].
  cbn [add_step]. destruct (nth_error g sid) as [s|] eqn:En; [|discriminate].
  destruct (lookupN (s_vid s) (st_v2j st)) as [j|]; [discriminate|].
  destruct (if is_pkg s then register_pkg st sid s par else (par, st)) as [j st1].
  assert (H : loop_deps (add_step f g) (alldeps s) j st1 <> OutOfFuel).
  { apply loop_deps_fuel. intros d Hd j' st'. apply IH. pose proof (topo_nth g sid s d T En Hd). lia. }
  destruct (loop_deps (add_step f g) (alldeps s) j st1); [discriminate|contradiction|discriminate].
Qed.

Lemma add_step_fuel_enough_proof : forall g sid par st,
  topo g = true -> add_step (S (length g)) g sid par st <> OutOfFuel.
Proof.
  intros g sid par st T. destruct (Nat.lt_ge_cases sid (S (length g))) as [H|H].
  - apply add_step_fuel; assumption.
  - cbn [add_step]. assert (E : nth_error g sid = None) by (apply nth_error_None; lia). rewrite E. discriminate.
Qed.

Lemma span_roots_fuel g : topo g = true -> forall roots st, span_roots g roots st <> OutOfFuel.
Proof.
  intros T. induction roots as [|r rest IH]; intros st; cbn [span_roots]; [discriminate|].
  destruct (alloc_job st empty_job) as [dummy st1].
  pose proof (add_step_fuel_enough_proof g r dummy st1 T) as H.
  destruct (add_step (S (length g)) g r dummy st1) as [[st2 cs]| |]; [apply IH|contradiction|discriminate].
Qed.

Lemma span_fuel_enough_proof : forall g roots, topo g = true -> span g roots <> OutOfFuel.
Proof. intros g roots T. apply span_roots_fuel. exact T. Qed.

(* ------------------------------------------------------------------ B. job references point to allocated jobs *)
(* every AbstractJob referenced by vidToJob or by a nameToJobs list has been allocated, and
   self.__referenceStep maps a variant to a package step with that variant *)
Definition ref_ok (g : graph) (kp : N * nat) : bool :=
  match nth_error g (snd kp) with Some sP => is_pkg sP && N.eqb (s_vid sP) (fst kp) | None => false end.

Definition refs_ok (g : graph) (refs : list (N * nat)) : bool := forallb (ref_ok g) refs.

Definition bounded (st : sstate) : bool :=
  forallb (fun vj => Nat.ltb (snd vj) (st_next st)) (st_v2j st) &&
  forallb (fun nl => forallb (fun j => Nat.ltb j (st_next st)) (snd nl)) (st_n2j st).

Definition Bv (st : sstate) : Prop := forall v j, In (v, j) (st_v2j st) -> j < st_next st.
Definition Bn (st : sstate) : Prop := forall n l j, In (n, l) (st_n2j st) -> In j l -> j < st_next st.
Definition Bnd (st : sstate) : Prop := Bv st /\ Bn st.

Lemma bounded_Bnd st : bounded st = true <-> Bnd st.
Proof.
  unfold bounded, Bnd, Bv, Bn. rewrite andb_true_iff, !forallb_forall. split.
  - intros [H1 H2]. split.
    + intros v j H. apply Nat.ltb_lt. exact (H1 (v, j) H).
    + intros n l j H Hj. specialize (H2 (n, l) H). simpl in H2. rewrite forallb_forall in H2.
      apply Nat.ltb_lt. exact (H2 j Hj).
  - intros [H1 H2]. split.
    + intros [v j] H. apply Nat.ltb_lt. exact (H1 v j H).
    + intros [n l] H. simpl. rewrite forallb_forall. intros j Hj. apply Nat.ltb_lt. exact (H2 n l j H Hj).
Qed.

Definition RefOK (g : graph) (st : sstate) : Prop := refs_ok g (st_ref st) = true.

Lemma In_update_str {A} k (f : option A -> A) m n l :
  In (n, l) (update_str k f m) -> In (n, l) m \/ l = f None \/ exists l0, In (n, l0) m /\ l = f (Some l0).
Proof.
  induction m as [|[k0 v0] m IH]; simpl.
  - intros [H|[]]. inversion H; subst. right. left. reflexivity.
  - destruct (str_eqb k k0).
    + intros [H|H].
      * inversion H; subst. right. right. exists v0. split; [left; reflexivity|reflexivity].
      * left. right. exact H.
    + intros [H|H].
      * left. left. exact H.
      * destruct (IH H) as [H1|[H1|(l0 & H1 & H2)]]; auto. right. right. exists l0. split; [right; exact H1|exact H2].
Qed.

(* what every operation of the spanning phase keeps *)
Definition Keep (g : graph) (st st' : sstate) : Prop :=
  (Bnd st -> Bnd st') /\ (RefOK g st -> RefOK g st') /\ st_next st <= st_next st'.

Lemma Keep_refl g st : Keep g st st.
Proof. split; [auto|]. split; [auto|lia]. Qed.

Lemma Keep_trans g a b c : Keep g a b -> Keep g b c -> Keep g a c.
Proof. intros (A1 & A2 & A3) (B1 & B2 & B3). split; [auto|]. split; [auto|lia]. Qed.

Lemma Keep_set_job g st j a : Keep g st (set_job st j a).
Proof. split; [intros H; exact H|]. split; [intros H; exact H|simpl; lia]. Qed.

Lemma Keep_alloc g st a j st1 : alloc_job st a = (j, st1) -> Keep g st st1 /\ j < st_next st1.
Proof.
  unfold alloc_job. intros H. inversion H; subst; clear H. split; [|simpl; lia].
  split; [|split; [intros H; exact H|simpl; lia]].
  intros [H1 H2]. split.
  - intros v k Hk. simpl in *. specialize (H1 v k Hk). lia.
  - intros n l k Hl Hk. simpl in *. specialize (H2 n l k Hl Hk). lia.
Qed.

Lemma Keep_register g st sid s par j st1 :
  nth_error g sid = Some s -> is_pkg s = true -> register_pkg st sid s par = (j, st1) -> Keep g st st1.
Proof.
  intros En Hk H. unfold register_pkg, alloc_job in H. inversion H; subst; clear H.
  split; [|split; [|simpl; lia]].
  - intros [H1 H2]. split.
    + intros v k [Hk'|Hk']; simpl in *.
      * inversion Hk'; subst. lia.
      * specialize (H1 v k Hk'). lia.
    + intros n l k Hl Hk'. simpl in *. apply In_update_str in Hl as [Hl|[->|(l0 & Hl & ->)]].
      * specialize (H2 n l k Hl Hk'). lia.
      * destruct Hk' as [<-|[]]. lia.
      * apply in_app_or in Hk' as [Hk'|[<-|[]]]; [|lia]. specialize (H2 n l0 k Hl Hk'). lia.
  - unfold RefOK, refs_ok. simpl. intros H. rewrite H, andb_true_r. unfold ref_ok. simpl.
    rewrite En, Hk, N.eqb_refl. reflexivity.
Qed.

Definition StepKeep (g : graph) (rec : nat -> nat -> sstate -> res (sstate * vset)) : Prop :=
  forall d j st st' cs, rec d j st = Ok (st', cs) -> Keep g st st'.

Lemma loop_deps_keep g rec : StepKeep g rec -> forall ds j st st',
  loop_deps rec ds j st = Ok st' -> Keep g st st'.
Proof.
  intros HR. induction ds as [|d r IH]; intros j st st' H; simpl in H.
  - inversion H; subst. apply Keep_refl.
  - destruct (rec d j st) as [[st1 cs]| |] eqn:E; try discriminate.
    eapply Keep_trans; [exact (HR _ _ _ _ _ E)|].
    eapply Keep_trans; [|exact (IH _ _ _ H)]. unfold add_childs_of. apply Keep_set_job.
Qed.

Lemma add_step_keep g : forall fuel, StepKeep g (add_step fuel g).
Proof.
  induction fuel as [|f IH]; intros sid par st st' cs H; [discriminate|].
  cbn [add_step] in H. destruct (nth_error g sid) as [s|] eqn:En; [|discriminate].
  destruct (lookupN (s_vid s) (st_v2j st)) as [j|].
  - inversion H; subst. apply Keep_set_job.
  - destruct (is_pkg s) eqn:Hk.
    + destruct (register_pkg st sid s par) as [j st1] eqn:Er.
      destruct (loop_deps (add_step f g) (alldeps s) j st1) as [st2| |] eqn:El; try discriminate.
      inversion H; subst. eapply Keep_trans; [exact (Keep_register g _ _ _ _ _ _ En Hk Er)|].
      exact (loop_deps_keep g _ IH _ _ _ _ El).
    + destruct (loop_deps (add_step f g) (alldeps s) par st) as [st2| |] eqn:El; try discriminate.
      inversion H; subst. exact (loop_deps_keep g _ IH _ _ _ _ El).
Qed.

Lemma span_roots_keep g : forall roots st st', span_roots g roots st = Ok st' -> Keep g st st'.
Proof.
  induction roots as [|r rest IH]; intros st st' H; cbn [span_roots] in H.
  - inversion H; subst. apply Keep_refl.
  - destruct (alloc_job st empty_job) as [dummy st1] eqn:Ea.
    destruct (add_step (S (length g)) g r dummy st1) as [[st2 cs]| |] eqn:E; try discriminate.
    eapply Keep_trans; [exact (proj1 (Keep_alloc g _ _ _ _ Ea))|].
    eapply Keep_trans; [exact (add_step_keep g _ _ _ _ _ _ E)|exact (IH _ _ H)].
Qed.

Lemma span_bounded_proof : forall g roots st, span g roots = Ok st -> bounded st = true /\ refs_ok g (st_ref st) = true.
Proof.
  intros g roots st H. destruct (span_roots_keep g roots init_state st H) as (A & B & _). split.
  - apply bounded_Bnd. apply A. split; [intros ? ? []|intros ? ? ? []].
  - apply B. reflexivity.
Qed.

(* ------------------------------------------------------------------ C. addChilds *)
(* the allocated jobs whose childs do not yet contain X *)
Definition unmarked (X : vset) (st : sstate) : nat :=
  length (filter (fun j => negb (subset X (a_childs (get_job st j)))) (seq 0 (st_next st))).

Lemma unmarked_bound X st : unmarked X st <= st_next st.
Proof. unfold unmarked. etransitivity; [apply filter_length_bound|]. rewrite seq_length. lia. Qed.

Lemma add_childs_fuel : forall fuel X ps st,
  Bv st -> unmarked X st < fuel -> add_childs fuel ps X st <> OutOfFuel.
Proof.
  induction fuel as [|f IHf]; intros X ps st HB Hm; [lia|].
  cbn [add_childs]. revert st HB Hm.
  induction ps as [|p r IHr]; intros st HB Hm; cbn [add_childs_loop]; [discriminate|].
  destruct (lookupN p (st_v2j st)) as [j|] eqn:Ej; [|discriminate].
  destruct (subset X (a_childs (get_job st j))) eqn:Es; [apply IHr; assumption|].
  set (a := get_job st j) in *.
  set (st1 := set_job st j (mkJob (a_pkgs a) (a_parents a) (union (a_childs a) X))) in *.
  assert (Hj : j < st_next st) by exact (HB p j (lookupN_In _ _ _ Ej)).
  assert (Hlt : unmarked X st1 < unmarked X st).
  { unfold unmarked. change (st_next st1) with (st_next st).
    apply filter_length_lt with (d := j).
    - intros k _ Hk. destruct (Nat.eq_dec k j) as [->|Hkj].
      + unfold st1 in Hk. rewrite get_set_job_same in Hk. simpl in Hk.
        assert (S : subset X (union (a_childs a) X) = true) by (apply subset_spec, sub_union_r).
        rewrite S in Hk. discriminate.
      + unfold st1 in Hk. rewrite get_set_job_other in Hk by exact Hkj. exact Hk.
    - apply in_seq. lia.
    - unfold st1. rewrite get_set_job_same. simpl.
      assert (S : subset X (union (a_childs a) X) = true) by (apply subset_spec, sub_union_r).
      rewrite S. reflexivity.
    - fold a. rewrite Es. reflexivity. }
  assert (HB1 : Bv st1) by exact HB.
  pose proof (IHf X (a_parents a) st1 HB1 ltac:(lia)) as Hrec.
  destruct (add_childs f (a_parents a) X st1) as [st2| |] eqn:E2; [|contradiction|discriminate].
  destruct (add_childs_spec _ _ _ _ _ E2) as [R _].
  apply IHr.
  - unfold Bv. rewrite (ac_v2j _ _ _ _ R), (ac_next _ _ _ _ R). exact HB1.
  - assert (Hle : unmarked X st2 <= unmarked X st1).
    { unfold unmarked. rewrite (ac_next _ _ _ _ R). apply filter_length_le. intros k _ Hk.
      apply negb_true_iff in Hk. apply negb_true_iff.
      destruct (subset X (a_childs (get_job st1 k))) eqn:Ek; [|reflexivity].
      apply subset_spec in Ek. pose proof (ac_mono _ _ _ _ R k) as Hmono. unfold ch in Hmono.
      assert (Hs : subset X (a_childs (get_job st2 k)) = true)
        by (apply subset_spec; eapply sub_trans; eassumption).
      rewrite Hs in Hk. discriminate. }
    lia.
Qed.

Lemma add_childs_fuel_enough_proof : forall st ps X,
  bounded st = true -> add_childs (S (st_next st)) ps X st <> OutOfFuel.
Proof.
  intros st ps X HB. apply bounded_Bnd in HB as [HB _]. apply add_childs_fuel; [exact HB|].
  pose proof (unmarked_bound X st). lia.
Qed.

(* ------------------------------------------------------------------ D. the merge loops *)
Lemma In_remap ps i : forall m v k, In (v, k) (remap ps i m) -> k = i \/ In (v, k) m.
Proof.
  induction ps as [|p r IH]; intros m v k H; simpl in H; [right; exact H|].
  apply IH in H as [H|[H|H]]; auto. inversion H; subst. left. reflexivity.
Qed.

(* what the merge phase keeps: allocation counter, nameToJobs, __referenceStep, bounded references *)
Definition MKeep (st st' : sstate) : Prop :=
  st_next st' = st_next st /\ st_n2j st' = st_n2j st /\ st_ref st' = st_ref st /\ Bnd st'.

Lemma merge_two_fuel st i j :
  Bnd st -> i < st_next st ->
  merge_two st i j <> OutOfFuel /\ forall st', merge_two st i j = Ok st' -> MKeep st st'.
Proof.
  intros [HB HN] Hi. unfold merge_two.
  set (ai := get_job st i). set (aj := get_job st j).
  set (ai' := mkJob (union (a_pkgs ai) (a_pkgs aj)) (union (a_parents ai) (a_parents aj))
                    (union (a_childs ai) (a_childs aj))).
  set (st1 := set_job st i ai').
  assert (H : add_childs (S (st_next st)) (a_parents ai') (reach_set ai') st1 <> OutOfFuel).
  { apply add_childs_fuel; [exact HB|]. pose proof (unmarked_bound (reach_set ai') st1).
    change (st_next st1) with (st_next st) in *. lia. }
  destruct (add_childs (S (st_next st)) (a_parents ai') (reach_set ai') st1) as [st2| |] eqn:E2;
    [|contradiction|split; [discriminate|intros ? ?; discriminate]].
  split; [discriminate|]. intros st' H'. inversion H'; subst; clear H'.
  destruct (add_childs_spec _ _ _ _ _ E2) as [R _].
  unfold MKeep. simpl. rewrite (ac_next _ _ _ _ R), (ac_n2j _ _ _ _ R), (ac_ref _ _ _ _ R).
  split; [reflexivity|]. split; [reflexivity|]. split; [reflexivity|]. split.
  - intros v k Hk. simpl in *. apply In_remap in Hk as [->|Hk]; [exact Hi|].
    rewrite (ac_v2j _ _ _ _ R) in Hk. exact (HB v k Hk).
  - intros n l k Hl Hk. simpl in *. exact (HN n l k Hl Hk).
Qed.

Lemma MKeep_trans a b c : MKeep a b -> MKeep b c -> MKeep a c.
Proof. intros (A1 & A2 & A3 & A4) (B1 & B2 & B3 & B4). repeat split; try congruence; apply B4. Qed.

Lemma merge_inner_fuel : forall rem i st,
  Bnd st -> i < st_next st ->
  merge_inner i rem st <> OutOfFuel /\
  forall todo st', merge_inner i rem st = Ok (todo, st') ->
    MKeep st st' /\ (forall k, In k todo -> In k rem) /\ length todo <= length rem.
Proof.
  induction rem as [|j r IH]; intros i st HB Hi; cbn [merge_inner].
  - split; [discriminate|]. intros todo st' H. inversion H; subst.
    split; [repeat split; auto; apply HB|]. split; [auto|lia].
  - destruct (reaches st i j || reaches st j i).
    + destruct (IH i st HB Hi) as [F K].
      destruct (merge_inner i r st) as [[todo0 st0]| |] eqn:Em; [|contradiction|split; [discriminate|intros ? ? ?; discriminate]].
      split; [discriminate|]. intros todo st' H. inversion H; subst; clear H.
      destruct (K _ _ eq_refl) as (K1 & K2 & K3). split; [exact K1|]. split.
      * intros k [<-|Hk]; [left; reflexivity|right; apply K2; exact Hk].
      * simpl. lia.
    + destruct (merge_two_fuel st i j HB Hi) as [F K].
      destruct (merge_two st i j) as [st1| |] eqn:E2; [|contradiction|split; [discriminate|intros ? ? ?; discriminate]].
      pose proof (K _ eq_refl) as K1. destruct K1 as (N1 & N2 & N3 & B1).
      destruct (IH i st1 B1 ltac:(lia)) as [F' K'].
      split; [exact F'|]. intros todo st' H. destruct (K' _ _ H) as (M & T & L).
      split; [eapply MKeep_trans; [|exact M]; exact (conj N1 (conj N2 (conj N3 B1)))|].
      split; [intros k Hk; right; apply T; exact Hk|simpl; lia].
Qed.

Lemma merge_name_fuel : forall fuel todo st,
  length todo < fuel -> Bnd st -> (forall k, In k todo -> k < st_next st) ->
  merge_name fuel todo st <> OutOfFuel /\
  forall jobs st', merge_name fuel todo st = Ok (jobs, st') -> MKeep st st' /\ (forall k, In k jobs -> In k todo).
Proof.
  induction fuel as [|f IH]; intros todo st Hl HB Ht; [lia|].
  cbn [merge_name]. destruct todo as [|i remaining].
  - split; [discriminate|]. intros jobs st' H. inversion H; subst. split; [repeat split; auto; apply HB|auto].
  - assert (Hi : i < st_next st) by (apply Ht; left; reflexivity).
    destruct (merge_inner_fuel remaining i st HB Hi) as [F K].
    destruct (merge_inner i remaining st) as [[todo' st1]| |] eqn:Ei;
      [|contradiction|split; [discriminate|intros ? ? ?; discriminate]].
    destruct (K _ _ eq_refl) as ((N1 & N2 & N3 & B1) & T1 & L1).
    assert (Hl' : length todo' < f) by (simpl in Hl; lia).
    assert (Ht' : forall k, In k todo' -> k < st_next st1).
    { intros k Hk. rewrite N1. apply Ht. right. apply T1. exact Hk. }
    destruct (IH todo' st1 Hl' B1 Ht') as [F' K'].
    destruct (merge_name f todo' st1) as [[jobs0 st2]| |] eqn:En;
      [|contradiction|split; [discriminate|intros ? ? ?; discriminate]].
    split; [discriminate|]. intros jobs st' H. inversion H; subst; clear H.
    destruct (K' _ _ eq_refl) as (M2 & T2). split.
    + eapply MKeep_trans; [|exact M2]. exact (conj N1 (conj N2 (conj N3 B1))).
    + intros k [<-|Hk]; [left; reflexivity|right; apply T1, T2; exact Hk].
Qed.

Lemma merge_name_fuel_enough_proof : forall st todo,
  bounded st = true -> forallb (fun k => Nat.ltb k (st_next st)) todo = true ->
  merge_name (S (length todo)) todo st <> OutOfFuel.
Proof.
  intros st todo HB Ht. apply bounded_Bnd in HB. rewrite forallb_forall in Ht.
  apply merge_name_fuel; [lia|exact HB|]. intros k Hk. apply Nat.ltb_lt. apply Ht. exact Hk.
Qed.

Lemma lookup_str_In {A} k (v : A) m : lookup_str k m = Some v -> exists k', In (k', v) m.
Proof.
  induction m as [|[k0 v0] m IH]; simpl; [discriminate|]. destruct (str_eqb k k0).
  - intros H. inversion H; subst. exists k0. left. reflexivity.
  - intros H. destruct (IH H) as (k' & Hk). exists k'. right. exact Hk.
Qed.

Lemma merge_names_fuel : forall names st,
  Bnd st -> merge_names names st <> OutOfFuel /\
  forall st', merge_names names st = Ok st' -> st_ref st' = st_ref st /\ Bnd st'.
Proof.
  induction names as [|name rest IH]; intros st HB; cbn [merge_names].
  - split; [discriminate|]. intros st' H. inversion H; subst. split; [reflexivity|exact HB].
  - destruct (lookup_str name (st_n2j st)) as [todo|] eqn:El; [|split; [discriminate|intros ? ?; discriminate]].
    destruct (lookup_str_In _ _ _ El) as (k' & Hin).
    assert (Ht : forall k, In k todo -> k < st_next st) by (intros k Hk; exact (proj2 HB k' todo k Hin Hk)).
    destruct (merge_name_fuel (S (length todo)) todo st ltac:(lia) HB Ht) as [F K].
    destruct (merge_name (S (length todo)) todo st) as [[jobs st1]| |] eqn:Em;
      [|contradiction|split; [discriminate|intros ? ?; discriminate]].
    destruct (K _ _ eq_refl) as ((N1 & N2 & N3 & [B1 B2]) & T).
    set (st2 := set_n2j st1 (update_str name (fun _ => jobs) (st_n2j st1))).
    assert (HB2 : Bnd st2).
    { split; [exact B1|]. intros n l k Hl Hk. simpl in *.
      apply In_update_str in Hl as [Hl|[->|(l0 & Hl & ->)]].
      - exact (B2 n l k Hl Hk).
      - rewrite N1. apply Ht, T. exact Hk.
      - rewrite N1. apply Ht, T. exact Hk. }
    destruct (IH st2 HB2) as [F' K']. split; [exact F'|].
    intros st' H. destruct (K' _ H) as [R B]. split; [|exact B]. rewrite R. simpl. exact N3.
Qed.

Lemma merge_all_fuel_enough_proof : forall st, bounded st = true -> merge_all st <> OutOfFuel.
Proof. intros st HB. apply bounded_Bnd in HB. apply merge_names_fuel. exact HB. Qed.

(* ------------------------------------------------------------------ E. names *)
Lemma names_of_fuel v2n : forall ps, names_of v2n ps <> OutOfFuel.
Proof.
  induction ps as [|p r IH]; simpl; [discriminate|]. destruct (lookupN p v2n); [|discriminate].
  destruct (names_of v2n r); [discriminate|contradiction|discriminate].
Qed.

Lemma longest_prefix_fuel st pkgs : longest_prefix st pkgs <> OutOfFuel.
Proof.
  unfold longest_prefix. pose proof (names_of_fuel (st_v2n st) pkgs) as H.
  destruct (names_of (st_v2n st) pkgs) as [[|n [|m l]]| |]; try discriminate. contradiction.
Qed.

Lemma final_names_jobs_fuel st : forall jobs fnm, final_names_jobs st jobs fnm <> OutOfFuel.
Proof.
  induction jobs as [|j r IH]; intros fnm; simpl; [discriminate|].
  pose proof (longest_prefix_fuel st (a_pkgs (get_job st j))) as H.
  destruct (longest_prefix st (a_pkgs (get_job st j))); [apply IH|contradiction|discriminate].
Qed.

Lemma final_names_fuel st : forall items fnm, final_names st items fnm <> OutOfFuel.
Proof.
  induction items as [|[name jobs] rest IH]; intros fnm; cbn [final_names]; [discriminate|].
  destruct (Nat.ltb 1 (length jobs)); [|apply IH].
  pose proof (final_names_jobs_fuel st jobs fnm) as H.
  destruct (final_names_jobs st jobs fnm); [apply IH|contradiction|discriminate].
Qed.

(* the value of a string of decimal digits *)
Definition dval (l : str) : N := fold_left (fun a c => (10 * a + (c - 48))%N) l 0%N.
Definition is_digit (c : N) : bool := N.leb 48 c && N.leb c 57.

Lemma dval_app l c : dval (l ++ [c]) = (10 * dval l + (c - 48))%N.
Proof. unfold dval. rewrite fold_left_app. reflexivity. Qed.

Lemma dec_aux_spec : forall fuel n acc, N.to_nat n < fuel ->
  exists ds, dec_aux fuel n acc = ds ++ acc /\ dval ds = n /\ forallb is_digit ds = true /\ ds <> [].
Proof.
  induction fuel as [|f IH]; intros n acc H; [lia|].
  cbn [dec_aux]. cbv zeta.
  assert (Hd : (n mod 10 < 10)%N) by (apply N.mod_lt; discriminate).
  assert (Hn : n = (10 * (n / 10) + n mod 10)%N) by (apply N.div_mod; discriminate).
  set (q := (n / 10)%N) in *. set (d := (n mod 10)%N) in *. clearbody q d.
  assert (Hdig : is_digit (48 + d) = true).
  { unfold is_digit. apply andb_true_iff. split; apply N.leb_le; lia. }
  destruct (N.eqb q 0) eqn:Eq.
  - apply N.eqb_eq in Eq. exists [(48 + d)%N]. split; [reflexivity|]. split.
    + unfold dval. cbn [fold_left]. lia.
    + split; [cbn [forallb]; rewrite Hdig; reflexivity|discriminate].
  - apply N.eqb_neq in Eq.
    assert (Hq : N.to_nat q < f) by lia.
    destruct (IH q ((48 + d)%N :: acc) Hq) as (ds & E & V & D & _).
    exists (ds ++ [(48 + d)%N]). split; [rewrite E, <- app_assoc; reflexivity|]. split.
    + rewrite dval_app, V. lia.
    + split; [rewrite forallb_app, D; cbn [forallb]; rewrite Hdig; reflexivity|].
      intros Hx. apply app_eq_nil in Hx as [_ Hx]. discriminate.
Qed.

Lemma dec_aux_more_fuel : forall fuel n acc, N.to_nat n < fuel -> dec_aux (S fuel) n acc = dec_aux fuel n acc.
Proof.
  induction fuel as [|f IH]; intros n acc H; [lia|].
  change (dec_aux (S (S f)) n acc) with
    (if N.eqb (n / 10) 0 then (48 + n mod 10)%N :: acc else dec_aux (S f) (n / 10) ((48 + n mod 10)%N :: acc)).
  change (dec_aux (S f) n acc) with
    (if N.eqb (n / 10) 0 then (48 + n mod 10)%N :: acc else dec_aux f (n / 10) ((48 + n mod 10)%N :: acc)).
  assert (Hd : (n mod 10 < 10)%N) by (apply N.mod_lt; discriminate).
  assert (Hn : n = (10 * (n / 10) + n mod 10)%N) by (apply N.div_mod; discriminate).
  set (q := (n / 10)%N) in *. set (d := (n mod 10)%N) in *. clearbody q d.
  destruct (N.eqb q 0) eqn:Eq; [reflexivity|]. apply N.eqb_neq in Eq.
  apply IH. lia.
Qed.

Lemma dec_fuel_enough_proof : forall n,
  dval (dec n) = N.of_nat n /\ forallb is_digit (dec n) = true /\ dec n <> [] /\
  forall fuel, n < fuel -> dec_aux fuel (N.of_nat n) [] = dec n.
Proof.
  intros n. unfold dec.
  destruct (dec_aux_spec (S n) (N.of_nat n) [] ltac:(lia)) as (ds & E & V & D & NE).
  rewrite app_nil_r in E. rewrite E. split; [exact V|]. split; [exact D|]. split; [exact NE|].
  intros fuel H. rewrite <- E. clear E V D NE ds.
  induction fuel as [|f IH]; [lia|]. destruct (Nat.eq_dec f n) as [->|Hne]; [reflexivity|].
  rewrite dec_aux_more_fuel by lia. apply IH. lia.
Qed.

Lemma names_fuel_enough_proof : forall st items fnm, final_names st items fnm <> OutOfFuel.
Proof. intros. apply final_names_fuel. Qed.

Lemma sanitize_fuel_enough_proof : forall g roots, topo g = true -> sanitize g roots <> OutOfFuel.
Proof.
  intros g roots T. unfold sanitize. pose proof (span_fuel_enough_proof g roots T) as H1.
  destruct (span g roots) as [st0| |] eqn:Es; [|contradiction|discriminate].
  destruct (span_bounded_proof _ _ _ Es) as [HB _].
  pose proof (merge_all_fuel_enough_proof st0 HB) as H2.
  destruct (merge_all st0) as [st| |]; [|contradiction|discriminate].
  pose proof (final_names_fuel st (sort_by fst (st_n2j st)) []) as H3.
  destruct (final_names st (sort_by fst (st_n2j st)) []); [discriminate|contradiction|discriminate].
Qed.

Lemma sanitize_refs_ok g roots nm : sanitize g roots = Ok nm -> refs_ok g (st_ref (nm_state nm)) = true.
Proof.
  unfold sanitize. intros H. destruct (span g roots) as [st0| |] eqn:Es; try discriminate.
  destruct (span_bounded_proof _ _ _ Es) as [HB HR].
  destruct (merge_all st0) as [st| |] eqn:Em; try discriminate.
  apply bounded_Bnd in HB. destruct (merge_names_fuel (sorted_names (st_n2j st0)) st0 HB) as [_ K]. destruct (K _ Em) as [R _].
  destruct (final_names st (sort_by fst (st_n2j st)) []); try discriminate.
  inversion H; subst. simpl. rewrite R. exact HR.
Qed.

(* ------------------------------------------------------------------ F. _genJenkinsJobs *)
(* the variant of the package a step belongs to, and the position of the step inside its package: package
   steps come first (also the reference instance, wherever it is stored), then the other steps by index *)
Definition ovid (g : graph) (i : nat) : N :=
  match nth_error g i with Some s => vid_at g (s_pkgstep s) | None => 0%N end.

Definition pos (g : graph) (i : nat) : nat :=
  match nth_error g i with Some s => if is_pkg s then length g else i | None => 0 end.

Definition key_ltb (g : graph) (a b : nat) : bool :=
  N.ltb (ovid g a) (ovid g b) || (N.eqb (ovid g a) (ovid g b) && Nat.ltb (pos g a) (pos g b)).

(* the number of steps with a smaller key: at most [length g], decreases along every call *)
Definition rank (g : graph) (i : nat) : nat := length (filter (fun k => key_ltb g k i) (seq 0 (length g))).

Lemma key_ltb_spec g a b : key_ltb g a b = true <->
  (ovid g a < ovid g b)%N \/ (ovid g a = ovid g b /\ pos g a < pos g b).
Proof.
  unfold key_ltb. rewrite orb_true_iff, andb_true_iff, N.ltb_lt, N.eqb_eq, Nat.ltb_lt. tauto.
Qed.

Lemma rank_bound g i : rank g i <= length g.
Proof. unfold rank. etransitivity; [apply filter_length_bound|]. rewrite seq_length. lia. Qed.

Lemma rank_lt g d i : d < length g -> key_ltb g d i = true -> rank g d < rank g i.
Proof.
  intros Hd Hk. unfold rank. apply filter_length_lt with (d := d).
  - intros k _ H. apply key_ltb_spec in H. apply key_ltb_spec in Hk. apply key_ltb_spec. lia.
  - apply in_seq. lia.
  - destruct (key_ltb g d d) eqn:E; [|reflexivity]. apply key_ltb_spec in E. lia.
  - exact Hk.
Qed.

Lemma rank_same g i i' : ovid g i = ovid g i' -> pos g i = pos g i' -> rank g i = rank g i'.
Proof. intros H1 H2. unfold rank, key_ltb. rewrite H1, H2. reflexivity. Qed.

(* a dependency of a step has a smaller key *)
Lemma dep_key g sid s d : wf g = true -> nth_error g sid = Some s -> In d (alldeps s) ->
  d < length g /\ key_ltb g d sid = true.
Proof.
  intros W En Hd.
  assert (Hsid : sid < length g) by (apply nth_error_Some; congruence).
  destruct (wf_dep_rank g sid s d (vid_at g (s_pkgstep s)) W En Hd eq_refl) as (Hlt & sd & Ed & HR).
  split; [lia|]. apply key_ltb_spec. unfold ovid, pos. rewrite En, Ed.
  specialize (HR _ (or_introl eq_refl)). destruct (is_pkg sd) eqn:Ek.
  - left. destruct (wf_pkg_self g d sd W Ed Ek) as [Hp _]. rewrite Hp. unfold vid_at at 1. rewrite Ed. exact HR.
  - right. split; [exact HR|]. destruct (is_pkg s); lia.
Qed.

(* getReferenceStep keeps the key *)
Lemma ref_key g refs sid0 s0 sid : wf g = true -> refs_ok g refs = true ->
  nth_error g sid0 = Some s0 -> is_pkg s0 = true -> lookupN (s_vid s0) refs = Some sid -> rank g sid = rank g sid0.
Proof.
  intros W HR En0 Hk0 Hl. apply lookupN_In in Hl. unfold refs_ok in HR. rewrite forallb_forall in HR.
  specialize (HR _ Hl). unfold ref_ok in HR. simpl in HR.
  destruct (nth_error g sid) as [s|] eqn:En; [|discriminate].
  apply andb_true_iff in HR as [Hk Hv]. apply N.eqb_eq in Hv.
  destruct (wf_pkg_self g sid s W En Hk) as [Hp _]. destruct (wf_pkg_self g sid0 s0 W En0 Hk0) as [Hp0 _].
  apply rank_same; unfold ovid, pos; rewrite En, En0.
  - rewrite Hp, Hp0. unfold vid_at. rewrite En, En0. exact Hv.
  - rewrite Hk, Hk0. reflexivity.
Qed.

Lemma package_name_fuel g nm s : package_name g nm s <> OutOfFuel.
Proof.
  unfold package_name.
  destruct (if is_pkg s then Some (s_vid s)
            else match nth_error g (s_pkgstep s) with Some p => Some (s_vid p) | None => None end); [|discriminate].
  destruct (lookupN n (nm_names nm)); discriminate.
Qed.

Lemma display_name_fuel prefix g nm s : display_name prefix g nm s <> OutOfFuel.
Proof.
  unfold display_name. pose proof (package_name_fuel g nm s).
  destruct (package_name g nm s); [discriminate|contradiction|discriminate].
Qed.

Lemma internal_name_fuel prefix g nm s : internal_name prefix g nm s <> OutOfFuel.
Proof.
  unfold internal_name. pose proof (display_name_fuel prefix g nm s).
  destruct (display_name prefix g nm s); [discriminate|contradiction|discriminate].
Qed.

Lemma add_deps_fuel g : forall ds steps deps, add_deps g ds steps deps <> OutOfFuel.
Proof.
  induction ds as [|d r IH]; intros steps deps; simpl; [discriminate|].
  destruct (nth_error g d) as [sd|]; [|discriminate].
  destruct (negb (s_valid sd)); [apply IH|]. destruct (mem (s_vid sd) steps); apply IH.
Qed.

Lemma jj_add_step_fuel g sid s jj : jj_add_step g sid s jj <> OutOfFuel.
Proof.
  unfold jj_add_step.
  match goal with |- (if mem _ (j_steps ?x) then _ else _) <> _ => set (jj1 := x) end.
  destruct (mem (s_vid s) (j_steps jj1)); [discriminate|].
  pose proof (add_deps_fuel g (alldeps s) (j_steps jj1 ++ [s_vid s]) (remove_keyN (s_vid s) (j_deps jj1))) as H.
  destruct (add_deps g (alldeps s) (j_steps jj1 ++ [s_vid s]) (remove_keyN (s_vid s) (j_deps jj1)));
    [discriminate|contradiction|discriminate].
Qed.

Lemma loop_gen_fuel rec : forall ds gs,
  (forall d, In d ds -> forall gs', rec d gs' <> OutOfFuel) -> loop_gen rec ds gs <> OutOfFuel.
Proof.
  induction ds as [|d r IH]; intros gs H; simpl; [discriminate|].
  pose proof (H d (or_introl eq_refl) gs) as Hd.
  destruct (rec d gs); [|contradiction|discriminate]. apply IH. intros d' Hd'. apply H. right. exact Hd'.
Qed.

Lemma loop_gen_seen_fuel g rec : forall ds gs,
  (forall d, In d ds -> forall gs', rec d gs' <> OutOfFuel) -> loop_gen_seen g rec ds gs <> OutOfFuel.
Proof.
  induction ds as [|d r IH]; intros gs H; simpl; [discriminate|].
  assert (Hr : forall d', In d' r -> forall gs', rec d' gs' <> OutOfFuel) by (intros d' Hd'; apply H; right; exact Hd').
  destruct (nth_error g d) as [sd|]; [|discriminate].
  destruct (mem (s_stack sd) (g_seen gs)); [apply IH; exact Hr|].
  pose proof (H d (or_introl eq_refl) (mkG (g_jobs gs) (g_seen gs ++ [s_stack sd]) (g_vids gs))) as Hd.
  destruct (rec d (mkG (g_jobs gs) (g_seen gs ++ [s_stack sd]) (g_vids gs))); [|contradiction|discriminate].
  apply IH. exact Hr.
Qed.

Lemma gen_jobs_fuel prefix short g nm :
  wf g = true -> refs_ok g (st_ref (nm_state nm)) = true ->
  forall fuel sid0 gs, rank g sid0 < fuel -> gen_jobs fuel prefix short g nm sid0 gs <> OutOfFuel.
Proof.
  intros W HR. induction fuel as [|f IH]; intros sid0 gs Hlt; [lia|].
  cbn [gen_jobs]. destruct (nth_error g sid0) as [s0|] eqn:En0; [|discriminate].
  destruct (if is_pkg s0 then lookupN (s_vid s0) (st_ref (nm_state nm)) else Some sid0) as [sid|] eqn:Eo; [|discriminate].
  destruct (nth_error g sid) as [s|] eqn:En; [|discriminate].
  assert (Hrk : rank g sid = rank g sid0).
  { destruct (is_pkg s0) eqn:Hk0.
    - eapply ref_key; eassumption.
    - inversion Eo; subst. reflexivity. }
  pose proof (internal_name_fuel prefix g nm s) as Hi. pose proof (display_name_fuel prefix g nm s) as Hdn.
  destruct (internal_name prefix g nm s) as [name| |]; [|contradiction|];
    (destruct (display_name prefix g nm s) as [disp| |]; [|contradiction|]); try discriminate.
  destruct (is_pkg s && short && mem (s_vid s) (g_vids gs)).
  { destruct (lookup_str name (g_jobs gs)); discriminate. }
  match goal with |- match jj_add_step g sid s ?x with _ => _ end <> _ => set (jj := x) end.
  pose proof (jj_add_step_fuel g sid s jj) as Hj.
  destruct (jj_add_step g sid s jj) as [jj'| |]; [|contradiction|discriminate].
  assert (Hrec : forall d, In d (alldeps s) -> forall gs', gen_jobs f prefix short g nm d gs' <> OutOfFuel).
  { intros d Hd gs'. apply IH. destruct (dep_key g sid s d W En Hd) as [Hdl Hkey].
    pose proof (rank_lt g d sid Hdl Hkey). lia. }
  match goal with |- match loop_gen ?r ?a ?x with _ => _ end <> _ =>
    assert (Hl : loop_gen r a x <> OutOfFuel); [|destruct (loop_gen r a x) as [gs2| |]; [|contradiction|discriminate]] end.
  { apply loop_gen_fuel. intros d Hd. apply Hrec. apply filter_In in Hd as [Hd _]. apply In_sort_by in Hd.
    unfold alldeps. apply in_or_app. left. exact Hd. }
  destruct (is_pkg s); [|discriminate].
  apply loop_gen_seen_fuel. intros d Hd. apply Hrec. unfold alldeps. apply in_or_app. right. exact Hd.
Qed.

Lemma gen_roots_fuel prefix short g nm :
  wf g = true -> refs_ok g (st_ref (nm_state nm)) = true ->
  forall roots jobs, gen_roots prefix short g nm roots jobs <> OutOfFuel.
Proof.
  intros W HR. induction roots as [|r rest IH]; intros jobs; cbn [gen_roots]; [discriminate|].
  pose proof (gen_jobs_fuel prefix short g nm W HR (S (S (length g))) r (mkG jobs [] [])) as H.
  pose proof (rank_bound g r). specialize (H ltac:(lia)).
  destruct (gen_jobs (S (S (length g))) prefix short g nm r (mkG jobs [] [])) as [gs| |]; [|contradiction|discriminate].
  match goal with |- match ?o with Some _ => _ | None => _ end <> _ => destruct o end; [apply IH|discriminate].
Qed.

Lemma gen_roots_fuel_enough_proof : forall prefix short g roots sroots nm jobs,
  wf g = true -> sanitize g roots = Ok nm -> gen_roots prefix short g nm sroots jobs <> OutOfFuel.
Proof.
  intros prefix short g roots sroots nm jobs W Hs. apply gen_roots_fuel; [exact W|].
  eapply sanitize_refs_ok. exact Hs.
Qed.

(* ------------------------------------------------------------------ G. reverse dependencies *)
Lemma upstream_of_fuel prefix g nm : forall deps acc, upstream_of prefix g nm deps acc <> OutOfFuel.
Proof.
  induction deps as [|[v d] r IH]; intros acc; simpl; [discriminate|].
  destruct (nth_error g d) as [sd|]; [|discriminate].
  pose proof (internal_name_fuel prefix g nm sd) as H.
  destruct (internal_name prefix g nm sd); [apply IH|contradiction|discriminate].
Qed.

Lemma check_upstream_fuel prefix g nm all : forall js, check_upstream prefix g nm all js <> OutOfFuel.
Proof.
  induction js as [|[n jj] r IH]; simpl; [discriminate|].
  pose proof (upstream_of_fuel prefix g nm (j_deps jj) []) as H. unfold upstream.
  destruct (upstream_of prefix g nm (j_deps jj) []) as [ups| |]; [|contradiction|discriminate].
  destruct (forallb _ ups); [|discriminate].
  destruct (check_upstream prefix g nm all r); [discriminate|contradiction|discriminate].
Qed.

(* ------------------------------------------------------------------ H. genJenkinsBuildOrder *)
Inductive subseq {A} : list A -> list A -> Prop :=
| ss_nil : subseq [] []
| ss_skip x l1 l2 : subseq l1 l2 -> subseq l1 (x :: l2)
| ss_keep x l1 l2 : subseq l1 l2 -> subseq (x :: l1) (x :: l2).

Lemma subseq_refl {A} (l : list A) : subseq l l.
Proof. induction l; constructor; assumption. Qed.

Lemma subseq_trans {A} (l1 l2 l3 : list A) : subseq l1 l2 -> subseq l2 l3 -> subseq l1 l3.
Proof.
  intros H1 H2. revert l1 H1. induction H2 as [|x a b H2 IH|x a b H2 IH]; intros l1 H1.
  - exact H1.
  - apply ss_skip. apply IH. exact H1.
  - inversion H1; subst.
    + apply ss_skip. apply IH. assumption.
    + apply ss_keep. apply IH. assumption.
Qed.

Lemma subseq_length {A} (l1 l2 : list A) : subseq l1 l2 -> length l1 <= length l2.
Proof. induction 1; simpl; lia. Qed.

Lemma subseq_length_eq {A} (l1 l2 : list A) : subseq l1 l2 -> length l1 = length l2 -> l1 = l2.
Proof.
  induction 1 as [|x a b H IH|x a b H IH]; intros Hl; [reflexivity| |].
  - apply subseq_length in H. simpl in Hl. lia.
  - simpl in Hl. f_equal. apply IH. lia.
Qed.

Lemma str_remove_subseq s l : subseq (str_remove s l) l.
Proof. induction l as [|x l IH]; simpl; [constructor|]. destruct (str_eqb s x); constructor; exact IH. Qed.

Lemma str_mem_remove s l : str_mem s (str_remove s l) = false.
Proof.
  induction l as [|x l IH]; simpl; [reflexivity|]. destruct (str_eqb s x) eqn:E; [exact IH|].
  simpl. rewrite E, IH. reflexivity.
Qed.

Lemma str_remove_not_mem s l : str_mem s l = false -> str_remove s l = l.
Proof.
  induction l as [|x l IH]; simpl; [reflexivity|]. intros H. apply orb_false_iff in H as [H1 H2].
  rewrite H1, IH by exact H2. reflexivity.
Qed.

(* the dependency loop of visit *)
Fixpoint visit_loop (rec : str -> ostate -> ores) (ds : list str) (o : ostate) : ores :=
  match ds with
  | [] => OOk o
  | d :: r => match rec d o with OOk o' => visit_loop rec r o' | e => e end
  end.

Lemma visit_S f ups j o :
  visit (S f) ups j o =
  if str_mem j (o_processing o) then OCyclic
  else if str_mem j (o_pending o) then
    match lookup_str j ups with
    | None => OKeyError
    | Some ds =>
        match visit_loop (visit f ups) ds (mkO (o_pending o) (j :: o_processing o) (o_order o)) with
        | OOk o2 => OOk (mkO (str_remove j (o_pending o2)) (str_remove j (o_processing o2)) (o_order o2 ++ [j]))
        | OCyclic => OCyclic
        | OFuel => OFuel
        | OKeyError => OKeyError
        end
    end
  else OOk o.
Proof.
  cbn [visit]. destruct (str_mem j (o_processing o)); [reflexivity|].
  destruct (str_mem j (o_pending o)); [|reflexivity].
  destruct (lookup_str j ups) as [ds|]; [|reflexivity].
  match goal with |- match ?a with _ => _ end = match ?b with _ => _ end => assert (E : a = b) end.
  { generalize (mkO (o_pending o) (j :: o_processing o) (o_order o)).
    induction ds as [|d r IH]; intros o1; simpl; [reflexivity|].
    destruct (visit f ups d o1); try reflexivity. apply IH. }
  rewrite E. destruct (visit_loop (visit f ups) ds (mkO (o_pending o) (j :: o_processing o) (o_order o))); reflexivity.
Qed.

Definition VisitKeeps (rec : str -> ostate -> ores) : Prop :=
  forall d o o', rec d o = OOk o' ->
    o_processing o' = o_processing o /\ subseq (o_pending o') (o_pending o) /\
    (str_mem d (o_pending o) = true -> str_mem d (o_pending o') = false).

Lemma visit_loop_keeps rec : VisitKeeps rec -> forall ds o o',
  visit_loop rec ds o = OOk o' -> o_processing o' = o_processing o /\ subseq (o_pending o') (o_pending o).
Proof.
  intros HR. induction ds as [|d r IH]; intros o o' H; simpl in H.
  - inversion H; subst. split; [reflexivity|apply subseq_refl].
  - destruct (rec d o) as [o1| | |] eqn:E; try discriminate.
    destruct (HR _ _ _ E) as (A & B & _). destruct (IH _ _ H) as (A' & B').
    split; [congruence|eapply subseq_trans; eassumption].
Qed.

Lemma visit_keeps ups : forall fuel, VisitKeeps (visit fuel ups).
Proof.
  induction fuel as [|f IH]; intros j o o' H; [discriminate|].
  rewrite visit_S in H. destruct (str_mem j (o_processing o)) eqn:Ep; [discriminate|].
  destruct (str_mem j (o_pending o)) eqn:Eq.
  - destruct (lookup_str j ups) as [ds|]; [|discriminate].
    destruct (visit_loop (visit f ups) ds (mkO (o_pending o) (j :: o_processing o) (o_order o))) as [o2| | |] eqn:El;
      try discriminate.
    inversion H; subst; clear H. destruct (visit_loop_keeps _ IH _ _ _ El) as [A B]. simpl in A, B |- *.
    split; [|split].
    + rewrite A. simpl. rewrite str_eqb_refl. apply str_remove_not_mem. exact Ep.
    + eapply subseq_trans; [apply str_remove_subseq|exact B].
    + intros _. apply str_mem_remove.
  - inversion H; subst. split; [reflexivity|]. split; [apply subseq_refl|]. intros Hx. congruence.
Qed.

(* the jobs that are not being processed *)
Definition idle (ups : list (str * list str)) (p : list str) : nat :=
  length (filter (fun kv => negb (str_mem (fst kv) p)) ups).

Lemma lookup_str_key {A} k (v : A) m : lookup_str k m = Some v -> In (k, v) m.
Proof.
  induction m as [|[k0 v0] m IH]; simpl; [discriminate|]. destruct (str_eqb k k0) eqn:E.
  - intros H. inversion H; subst. apply str_eqb_eq in E. subst. left. reflexivity.
  - intros H. right. apply IH. exact H.
Qed.

Lemma visit_loop_fuel rec p : VisitKeeps rec ->
  (forall d o, o_processing o = p -> rec d o <> OFuel) ->
  forall ds o, o_processing o = p -> visit_loop rec ds o <> OFuel.
Proof.
  intros HK HR. induction ds as [|d r IH]; intros o Hp; simpl; [discriminate|].
  pose proof (HR d o Hp) as Hd. destruct (rec d o) as [o1| | |] eqn:E; try discriminate; [|contradiction].
  apply IH. destruct (HK _ _ _ E) as (A & _). congruence.
Qed.

Lemma visit_fuel ups : forall fuel j o, idle ups (o_processing o) < fuel -> visit fuel ups j o <> OFuel.
Proof.
  induction fuel as [|f IH]; intros j o Hlt; [lia|].
  rewrite visit_S. destruct (str_mem j (o_processing o)) eqn:Ep; [discriminate|].
  destruct (str_mem j (o_pending o)); [|discriminate].
  destruct (lookup_str j ups) as [ds|] eqn:El; [|discriminate].
  assert (Hdec : idle ups (j :: o_processing o) < idle ups (o_processing o)).
  { unfold idle. apply filter_length_lt with (d := (j, ds)).
    - intros [k v] _ H. simpl in *. apply negb_true_iff in H. apply orb_false_iff in H as [_ H].
      rewrite H. reflexivity.
    - apply lookup_str_key. exact El.
    - simpl. rewrite str_eqb_refl. reflexivity.
    - simpl. rewrite Ep. reflexivity. }
  assert (H : visit_loop (visit f ups) ds (mkO (o_pending o) (j :: o_processing o) (o_order o)) <> OFuel).
  { apply visit_loop_fuel with (p := j :: o_processing o); [apply visit_keeps| |reflexivity].
    intros d o1 Hp. apply IH. rewrite Hp. lia. }
  destruct (visit_loop (visit f ups) ds (mkO (o_pending o) (j :: o_processing o) (o_order o)));
    [discriminate|discriminate|contradiction|discriminate].
Qed.

Lemma idle_bound ups p : idle ups p <= length ups.
Proof. apply filter_length_bound. Qed.

Lemma order_loop_fuel ups : forall fuel o,
  length (o_pending o) < fuel -> o_processing o = [] -> order_loop fuel ups o <> OFuel.
Proof.
  induction fuel as [|f IH]; intros o Hlt Hp; [lia|].
  cbn [order_loop]. destruct (o_pending o) as [|j rest] eqn:Eq; [discriminate|].
  assert (Hv : visit (S (S (length ups))) ups j o <> OFuel).
  { apply visit_fuel. pose proof (idle_bound ups (o_processing o)). lia. }
  destruct (visit (S (S (length ups))) ups j o) as [o'| | |] eqn:Ev; try discriminate; [|contradiction].
  destruct (visit_keeps ups _ _ _ _ Ev) as (A & B & C).
  apply IH; [|congruence].
  rewrite Eq in B, C. assert (Hm : str_mem j (j :: rest) = true) by (simpl; rewrite str_eqb_refl; reflexivity).
  specialize (C Hm). pose proof (subseq_length _ _ B) as Hle.
  destruct (Nat.eq_dec (length (o_pending o')) (length (j :: rest))) as [He|Hne]; [|simpl in *; lia].
  apply (subseq_length_eq _ _ B) in He. rewrite He in C. congruence.
Qed.

Lemma build_order_fuel_enough_proof : forall ups, build_order ups <> OFuel.
Proof.
  intros ups. unfold build_order. apply order_loop_fuel; [simpl; rewrite map_length; lia|reflexivity].
Qed.

Lemma visit_fuel_enough_proof : forall ups j o, visit (S (S (length ups))) ups j o <> OFuel.
Proof. intros ups j o. apply visit_fuel. pose proof (idle_bound ups (o_processing o)). lia. Qed.

(* ------------------------------------------------------------------ the entry point *)
Lemma run_never_out_of_fuel_proof : forall prefix short g roots sroots,
  wf g = true -> run prefix short g roots sroots <> ModelOutOfFuel.
Proof.
  intros prefix short g roots sroots W. unfold run.
  pose proof (sanitize_fuel_enough_proof g roots (wf_topo g W)) as H1.
  destruct (sanitize g roots) as [nm| |] eqn:Es; [|contradiction|discriminate].
  pose proof (gen_roots_fuel_enough_proof prefix short g roots sroots nm [] W Es) as H2.
  destruct (gen_roots prefix short g nm sroots []) as [jobs| |]; [|contradiction|discriminate].
  pose proof (check_upstream_fuel prefix g nm jobs jobs) as H3.
  destruct (check_upstream prefix g nm jobs jobs) as [ups| |]; [|contradiction|discriminate].
  pose proof (build_order_fuel_enough_proof ups) as H4.
  destruct (build_order ups); [discriminate|discriminate|contradiction|discriminate].
Qed.

(* ------------------------------------------------------------------ witnesses *)
(* two instances (positions 0 and 2) of variant 2; the reference instance (2, discovered first) depends on
   variant 4 whose only instance depends on the other instance of variant 2: well-formed in shape, not ranked *)
Definition witness_fuel_graph : graph :=
  [mkS KPackage 2 0 0 [112%N] [112%N] false true (@nil N) (@nil N) None;
   mkS KPackage 4 1 1 [120%N] [120%N] false true [0%N] (@nil N) None;
   mkS KPackage 2 2 2 [112%N] [112%N] false true [1%N] (@nil N) None].
Definition witness_fuel_roots : list nat := [2].

Lemma gen_jobs_fuel_wf_shape_refuted_proof :
  exists g roots, wf_shape g = true /\ wf_roots g roots = true /\ topo g = true /\
                  (exists nm, sanitize g roots = Ok nm) /\ run [] false g roots roots = ModelOutOfFuel.
Proof.
  exists witness_fuel_graph, witness_fuel_roots.
  split; [vm_compute; reflexivity|]. split; [vm_compute; reflexivity|]. split; [vm_compute; reflexivity|].
  split; [|vm_compute; reflexivity].
  destruct (sanitize witness_fuel_graph witness_fuel_roots) as [nm| |] eqn:E; [|vm_compute in E; discriminate..].
  exists nm. reflexivity.
Qed.

Lemma fuel_nonvacuous_proof :
  wf witness_merge_graph = true /\ topo witness_merge_graph = true /\
  (exists st, span witness_merge_graph witness_merge_roots = Ok st /\ bounded st = true /\
              refs_ok witness_merge_graph (st_ref st) = true /\ 0 < st_next st /\
              exists name todo, lookup_str name (st_n2j st) = Some todo /\ 1 < length todo /\
                                exists jobs st', merge_name (S (length todo)) todo st = Ok (jobs, st') /\
                                                 length jobs < length todo) /\
  (exists abs names jobs, run [] false witness_merge_graph witness_merge_roots witness_merge_roots
                          = Jobs abs names jobs false /\ 2 < length jobs) /\
  dec 120 = [49; 50; 48]%N.
Proof.
  split; [vm_compute; reflexivity|]. split; [vm_compute; reflexivity|]. split; [|split; [|vm_compute; reflexivity]].
  - destruct (span witness_merge_graph witness_merge_roots) as [st| |] eqn:E; [|vm_compute in E; discriminate..].
    exists st. split; [reflexivity|]. vm_compute in E. inversion E; subst st; clear E.
    split; [vm_compute; reflexivity|]. split; [vm_compute; reflexivity|]. split; [vm_compute; lia|].
    exists [113%N]. eexists. split; [vm_compute; reflexivity|]. split; [vm_compute; lia|].
    match goal with |- exists jobs st', ?m = _ /\ _ => destruct m as [[jobs st']| |] eqn:Em; [|vm_compute in Em; discriminate..] end.
    exists jobs, st'. split; [reflexivity|]. vm_compute in Em. inversion Em; subst; clear Em. vm_compute. lia.
  - destruct (run [] false witness_merge_graph witness_merge_roots witness_merge_roots) as [a n j c| | |] eqn:E;
      [|vm_compute in E; discriminate..].
    vm_compute in E. inversion E; subst; clear E. eexists. eexists. eexists. split; [reflexivity|]. vm_compute. lia.
Qed.
