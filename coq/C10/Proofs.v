(* C10 — proofs.  Part A: Adler-32 facts.  Part B: the crash-recovery
   invariant of the generic protocol.  Part C: the Bob instance. *)
From Coq Require Import List NArith Bool Arith Lia.
Require Import BobV.C10.Fs BobV.C10.Model.
Import ListNotations.
Open Scope N_scope.

(* ------------------------------------------------------------------ *)
(* Part A: bytes and Adler-32                                          *)

Lemma bytes_eqb_refl a : bytes_eqb a a = true.
Proof. induction a as [|x a IH]; simpl; [reflexivity|]. now rewrite N.eqb_refl, IH. Qed.

Lemma bytes_eqb_eq a b : bytes_eqb a b = true <-> a = b.
Proof.
  revert b; induction a as [|x a IH]; intros [|y b]; simpl; split; intro H; try congruence; try reflexivity.
  - apply andb_true_iff in H as [H1 H2]. apply N.eqb_eq in H1. apply IH in H2. congruence.
  - inversion H; subst. now rewrite N.eqb_refl, bytes_eqb_refl.
Qed.

Lemma le32_length v : length (le32 v) = 4%nat.
Proof. reflexivity. Qed.

Lemma verify_seal_proof p : verify_ok (seal p) = true.
Proof.
  unfold verify_ok, seal. rewrite app_length, le32_length.
  replace (length p + 4 - 4)%nat with (length p + 0)%nat by lia.
  rewrite firstn_app_2, skipn_app. simpl firstn. rewrite app_nil_r.
  replace (length p + 0 - length p)%nat with 0%nat by lia.
  rewrite Nat.add_0_r, skipn_all. cbn [skipn app]. apply bytes_eqb_refl.
Qed.

(* a file shorter than the trailer never verifies *)
Lemma short_file_rejected_proof d : (length d < 4)%nat -> verify_ok d = false.
Proof.
  intros H. unfold verify_ok. replace (length d - 4)%nat with 0%nat by lia.
  simpl firstn. simpl skipn.
  destruct d as [|a [|b [|c [|e d]]]]; simpl in *; try lia; try reflexivity.
Qed.

(* the low half of Adler-32 over zeros stays 1 *)
Lemma adler_go_zeros n : forall b, fst (adler_go 1 b (repeat 0 n)) = 1.
Proof.
  induction n as [|n IH]; intros b; simpl; [reflexivity|].
  change ((1 + 0) mod ADLER_MOD) with 1. apply IH.
Qed.

(* a file that consists of zeros only (allocated but never written: the
   classical result of delayed allocation) never verifies *)
Lemma zero_file_rejected_proof n : verify_ok (repeat 0 n) = false.
Proof.
  destruct (Nat.lt_ge_cases n 4) as [H|H].
  - apply short_file_rejected_proof. now rewrite repeat_length.
  - unfold verify_ok. rewrite repeat_length.
    assert (E : repeat 0 n = repeat 0 (n - 4) ++ repeat 0 4)
      by (rewrite <- repeat_app; f_equal; lia).
    rewrite E, firstn_app, skipn_app, repeat_length.
    replace (n - 4 - (n - 4))%nat with 0%nat by lia.
    rewrite firstn_all2 by (rewrite repeat_length; lia).
    rewrite skipn_all2 by (rewrite repeat_length; lia).
    simpl firstn. simpl skipn. rewrite app_nil_r. simpl app.
    unfold adler32. pose proof (adler_go_zeros (n - 4) 0) as Ha.
    destruct (adler_go 1 0 (repeat 0 (n - 4))) as [a b]. simpl in Ha. subst a.
    unfold le32. cbn [bytes_eqb repeat].
    replace ((b * 65536 + 1) mod 256) with 1; [reflexivity|].
    replace (b * 65536 + 1) with (1 + (b * 256) * 256) by lia.
    rewrite N.mod_add by lia. reflexivity.
Qed.

(* ---- a single changed payload byte is always detected *)
Lemma adler_go_fst : forall d a b, a < ADLER_MOD -> fst (adler_go a b d) = (a + bsum d) mod ADLER_MOD.
Proof.
  induction d as [|x d IH]; intros a b Ha; simpl.
  - rewrite N.add_0_r. symmetry. apply N.mod_small. exact Ha.
  - rewrite IH by (apply N.mod_lt; discriminate).
    rewrite N.add_mod_idemp_l by discriminate. f_equal. lia.
Qed.

Lemma adler_go_bounds : forall d a b, a < ADLER_MOD -> b < ADLER_MOD ->
  fst (adler_go a b d) < ADLER_MOD /\ snd (adler_go a b d) < ADLER_MOD.
Proof.
  induction d as [|x d IH]; intros a b Ha Hb; simpl; [auto|].
  apply IH; apply N.mod_lt; discriminate.
Qed.

Lemma bsum_app a b : bsum (a ++ b) = bsum a + bsum b.
Proof. induction a; simpl; lia. Qed.

Lemma mod_shift n d : 0 < d -> d < ADLER_MOD -> (n + d) mod ADLER_MOD <> n mod ADLER_MOD.
Proof.
  intros H0 H1 E. unfold ADLER_MOD in *.
  pose proof (N.div_mod n 65521 ltac:(discriminate)) as D1.
  pose proof (N.div_mod (n + d) 65521 ltac:(discriminate)) as D2.
  pose proof (N.mod_lt n 65521 ltac:(discriminate)).
  rewrite E in D2. 
  assert (65521 * ((n + d) / 65521) = 65521 * (n / 65521) + d) by lia.
  assert ((n + d) / 65521 = n / 65521 \/ (n + d) / 65521 >= n / 65521 + 1 \/ (n + d) / 65521 + 1 <= n / 65521) by lia.
  nia.
Qed.

Lemma adler32_low d : adler32 d mod 65536 = fst (adler_go 1 0 d).
Proof.
  unfold adler32. pose proof (adler_go_bounds d 1 0 ltac:(reflexivity) ltac:(reflexivity)) as [Ha Hb].
  destruct (adler_go 1 0 d) as [a b]. simpl in *.
  rewrite N.add_comm, N.mod_add by discriminate. apply N.mod_small. unfold ADLER_MOD in *. lia.
Qed.

Lemma adler32_bound d : adler32 d < 4294967296.
Proof.
  unfold adler32. pose proof (adler_go_bounds d 1 0 ltac:(reflexivity) ltac:(reflexivity)) as [Ha Hb].
  destruct (adler_go 1 0 d) as [a b]. simpl in *. unfold ADLER_MOD in *. lia.
Qed.

Lemma le32_inj v w : v < 4294967296 -> w < 4294967296 -> le32 v = le32 w -> v = w.
Proof.
  intros Hv Hw E. unfold le32 in E. inversion E as [[E0 E1 E2 E3]].
  pose proof (N.div_mod v 256 ltac:(discriminate)). pose proof (N.div_mod w 256 ltac:(discriminate)).
  pose proof (N.div_mod (v/256) 256 ltac:(discriminate)). pose proof (N.div_mod (w/256) 256 ltac:(discriminate)).
  pose proof (N.div_mod (v/65536) 256 ltac:(discriminate)). pose proof (N.div_mod (w/65536) 256 ltac:(discriminate)).
  pose proof (N.div_mod (v/16777216) 256 ltac:(discriminate)). pose proof (N.div_mod (w/16777216) 256 ltac:(discriminate)).
  assert (v / 65536 = v / 256 / 256) by (rewrite N.div_div by discriminate; reflexivity).
  assert (w / 65536 = w / 256 / 256) by (rewrite N.div_div by discriminate; reflexivity).
  assert (v / 16777216 = v / 65536 / 256) by (rewrite N.div_div by discriminate; reflexivity).
  assert (w / 16777216 = w / 65536 / 256) by (rewrite N.div_div by discriminate; reflexivity).
  assert (v / 16777216 < 256) by (apply N.div_lt_upper_bound; [discriminate|lia]).
  assert (w / 16777216 < 256) by (apply N.div_lt_upper_bound; [discriminate|lia]).
  rewrite (N.mod_small (v / 16777216)) in E3 by assumption.
  rewrite (N.mod_small (w / 16777216)) in E3 by assumption.
  lia.
Qed.

(* one changed payload byte is always detected *)
Lemma adler_detects_single_byte_proof l1 x y l2 :
  x < 256 -> y < 256 -> x <> y ->
  verify_ok (l1 ++ y :: l2 ++ le32 (adler32 (l1 ++ x :: l2))) = false.
Proof.
  intros Hx Hy Hne.
  replace (l1 ++ y :: l2 ++ le32 (adler32 (l1 ++ x :: l2)))
     with ((l1 ++ y :: l2) ++ le32 (adler32 (l1 ++ x :: l2))) by (rewrite <- app_assoc; reflexivity).
  set (p := l1 ++ x :: l2). set (q := l1 ++ y :: l2).
  unfold verify_ok. rewrite app_length, le32_length.
  replace (length q + 4 - 4)%nat with (length q + 0)%nat by lia.
  rewrite firstn_app_2, skipn_app. simpl firstn. rewrite app_nil_r.
  replace (length q + 0 - length q)%nat with 0%nat by lia.
  rewrite Nat.add_0_r, skipn_all. cbn [skipn app].
  destruct (bytes_eqb (le32 (adler32 q)) (le32 (adler32 p))) eqn:E; [|reflexivity].
  exfalso. apply bytes_eqb_eq in E. apply le32_inj in E; try apply adler32_bound.
  assert (Ea : fst (adler_go 1 0 q) = fst (adler_go 1 0 p)) by (rewrite <- !adler32_low, E; reflexivity).
  rewrite !adler_go_fst in Ea by reflexivity.
  unfold p, q in Ea. rewrite !bsum_app in Ea. simpl bsum in Ea.
  destruct (N.lt_ge_cases x y) as [Hlt|Hge].
  - apply (mod_shift (1 + (bsum l1 + (x + bsum l2))) (y - x)); [lia|unfold ADLER_MOD; lia|].
    rewrite <- Ea. f_equal. lia.
  - apply (mod_shift (1 + (bsum l1 + (y + bsum l2))) (x - y)); [lia|unfold ADLER_MOD; lia|].
    rewrite Ea. f_equal. lia.
Qed.

(* ------------------------------------------------------------------ *)
(* Part B: the generic protocol                                        *)

Section ProtoProofs.
  Variables (S C A R : Type) (s0 : S) (sealS : S -> C) (verify : C -> bool)
            (load : C -> option S) (cempty : C) (mutate : S -> A -> S * bool * R).

  Hypothesis Hvs : forall s, verify (sealS s) = true.
  Hypothesis Hls : forall s, load (sealS s) = Some s.
  Hypothesis Hmut : forall s a s' r, mutate s a = (s', false, r) -> s' = s.

  Notation world := (world S C).
  Notation proc := (proc S).
  Notation start := (start S C s0 verify load cempty).
  Notation commit_ops := (commit_ops C verify).
  Notation finalize_ops := (finalize_ops C verify).
  Notation save_ops := (save_ops S C sealS).
  Notation exec := (exec S C A R s0 sealS verify load cempty mutate).
  Notation step := (step S C A R s0 sealS verify load cempty mutate).
  Notation run := (run S C A R s0 sealS verify load cempty mutate).
  Notation proc_step := (proc_step S A R mutate).
  Notation request_save := (request_save S).
  Notation detectable := (detectable C verify).
  Notation detectable_run := (detectable_run S C A R s0 sealS verify load cempty mutate).
  Notation fs_at_crash := (fs_at_crash S C A R s0 sealS verify load cempty mutate).
  Notation candidates := (candidates S).
  Notation saved_marks := (saved_marks S).

  (* the file holds a complete, correctly sealed candidate snapshot *)
  Definition holds (cands : list S) (x : file C) : Prop :=
    exists s, In s cands /\ f_data x = sealS s.

  (* file-system part of the invariant *)
  Definition FInv (f : fs C) (cands : list S) : Prop :=
    match at_pickle f with
    | None => In s0 cands
    | Some x => f_synced x = true /\ holds cands x
    end /\
    match at_new f with
    | None => True
    | Some y => holds cands y \/ verify (f_data y) = false
    end.

  (* the newest thing on disk is the snapshot m *)
  Definition mem_on_disk (f : fs C) (m : S) : Prop :=
    match at_new f with
    | Some y => f_data y = sealS m
    | None => match at_pickle f with Some x => f_data x = sealS m | None => m = s0 end
    end.

  Definition PInv (w : world) (cands : list S) : Prop :=
    match w_proc w with
    | None => at_lock (w_fs w) = None
    | Some p =>
        at_lock (w_fs w) <> None /\
        (p_async p = 0%nat -> p_dirty p = false) /\
        (p_dirty p = false -> mem_on_disk (w_fs w) (p_mem p)) /\
        match at_new (w_fs w) with Some y => holds cands y | None => True end
    end.

  Definition Inv (w : world) (cands : list S) : Prop := FInv (w_fs w) cands /\ PInv w cands.

  Lemma holds_mono c c' x : incl c c' -> holds c x -> holds c' x.
  Proof. intros Hi (s & Hs & Hd). exists s. split; [apply Hi, Hs|exact Hd]. Qed.

  Lemma FInv_mono f c c' : incl c c' -> FInv f c -> FInv f c'.
  Proof.
    intros Hi [Hp Hn]. split.
    - destruct (at_pickle f); [destruct Hp; split; eauto using holds_mono|apply Hi, Hp].
    - destruct (at_new f); [|exact I]. destruct Hn; [left; eauto using holds_mono|right; assumption].
  Qed.

  Lemma candidates_app c m1 m2 : candidates c (m1 ++ m2) = candidates (candidates c m1) m2.
  Proof. revert c; induction m1 as [|[s|s|s] m1 IH]; intros c; simpl; auto. Qed.

  Lemma candidates_saved c sv k :
    candidates c (saved_marks sv k) =
    match sv with Some s => if Nat.leb 1 k then c ++ [s] else c | None => c end.
  Proof. destruct sv; simpl; [destruct k|]; reflexivity. Qed.

  (* ---- crash *)
  Lemma FInv_recover f c adv :
    FInv f c -> detectable adv f -> FInv (recover adv f) c /\ at_lock (recover adv f) = None.
  Proof.
    intros [Hp Hn] Hd. destruct f as [pk nw dt lk]. unfold detectable in Hd. cbn in *.
    split; [|reflexivity]. split; cbn.
    - destruct pk as [x|]; cbn; [|exact Hp]. destruct Hp as [Hs Hh]. rewrite Hs. cbn. auto.
    - destruct nw as [y|]; cbn; [|exact I].
      destruct (f_synced y) eqn:E; cbn; [exact Hn|].
      destruct (Hd eq_refl) as [H|H]; [rewrite H; exact Hn|right; exact H].
  Qed.

  (* ---- start *)
  Ltac fin := cbn; repeat split; auto; try discriminate;
              try (eexists; split; [left; reflexivity|eassumption || reflexivity]);
              try (left; reflexivity).

  Lemma start_spec f c :
    FInv f c -> at_lock f = None ->
    exists s, fst (start f) = SLoaded s /\ In s c /\
      let f' := apply_ops f (snd (start f)) in
      FInv f' [s] /\ at_lock f' <> None /\ at_new f' = None /\ mem_on_disk f' s.
  Proof.
    intros [Hp Hn] Hl. destruct f as [pk nw dt lk]. cbn in Hl. subst lk.
    unfold start, Model.commit_ops, FInv, mem_on_disk in *. cbn in *.
    destruct nw as [y|]; cbn.
    - destruct (verify (f_data y)) eqn:Ev; cbn.
      + destruct Hn as [(s & Hs & Hd)|Hn]; [|congruence].
        rewrite Hd, Hls. exists s. fin.
      + destruct pk as [x|]; cbn.
        * destruct Hp as [Hsy (s & Hs & Hd)]. rewrite Hd, Hls. exists s. fin.
        * exists s0. fin.
    - destruct pk as [x|]; cbn.
      + destruct Hp as [Hsy (s & Hs & Hd)]. rewrite Hd, Hls. exists s. fin.
      + exists s0. fin.
  Qed.

  Lemma start_prefix f c k :
    FInv f c -> at_lock f = None -> FInv (apply_ops f (firstn k (snd (start f)))) c.
  Proof.
    intros [Hp Hn] Hl. destruct f as [pk nw dt lk]. cbn in Hl. subst lk.
    unfold start, Model.commit_ops, FInv in *. cbn in *.
    destruct nw as [y|]; cbn.
    - destruct (verify (f_data y)) eqn:Ev; cbn.
      + destruct Hn as [Hh|Hn]; [|congruence].
        assert (El : exists s, load (f_data y) = Some s)
          by (destruct Hh as (s & Hs & Hd); exists s; rewrite Hd; apply Hls).
        destruct El as [s El]. rewrite El. cbn.
        destruct k as [|[|[|[|k]]]]; cbn; auto.
      + assert (El : snd (match pk with
                     | Some x => match load (f_data x) with
                                 | Some s => (SLoaded s, [OCreateExcl NLock cempty; OFsync NNew; OUnlink NNew])
                                 | None => (SLoadError, [OCreateExcl NLock cempty; OFsync NNew; OUnlink NNew; OUnlink NLock])
                                 end
                     | None => (SLoaded s0, [OCreateExcl NLock cempty; OFsync NNew; OUnlink NNew])
                     end) = [OCreateExcl NLock cempty; OFsync NNew; OUnlink NNew]).
        { destruct pk as [x|]; [|reflexivity]. destruct Hp as [_ (s & Hs & Hd)]. rewrite Hd, Hls. reflexivity. }
        rewrite El.
        destruct k as [|[|[|[|k]]]]; cbn; rewrite ?Ev; auto.
    - assert (El : snd (match pk with
                     | Some x => match load (f_data x) with
                                 | Some s => (SLoaded s, [OCreateExcl NLock cempty])
                                 | None => (SLoadError, [OCreateExcl NLock cempty; OUnlink NLock])
                                 end
                     | None => (SLoaded s0, [OCreateExcl NLock cempty])
                     end) = [OCreateExcl NLock cempty]).
      { destruct pk as [x|]; [|reflexivity]. destruct Hp as [_ (s & Hs & Hd)]. rewrite Hd, Hls. reflexivity. }
      rewrite El. destruct k as [|[|k]]; cbn; auto.
  Qed.

  Lemma start_locked f : at_lock f <> None -> start f = (SRefused, []).
  Proof. intros H. unfold start. cbn. destruct (at_lock f); [reflexivity|congruence]. Qed.

  (* ---- save *)
  Lemma save_prefix f c s k :
    FInv f c ->
    FInv (apply_ops f (firstn k (save_ops s))) (if Nat.leb 1 k then c ++ [s] else c).
  Proof.
    intros Hf. destruct f as [pk nw dt lk]. unfold Model.save_ops.
    destruct k as [|[|k]]; cbn [Nat.leb firstn].
    - exact Hf.
    - apply FInv_mono with c; [apply incl_appl, incl_refl|]. exact Hf.
    - rewrite firstn_nil.
      apply FInv_mono with (c := c) (c' := c ++ [s]) in Hf; [|apply incl_appl, incl_refl].
      destruct Hf as [Hp Hn]. split; cbn in *; [exact Hp|].
      left. exists s. split; [apply in_or_app; right; left; reflexivity|reflexivity].
  Qed.

  Lemma save_full f s :
    let f' := apply_ops f (save_ops s) in
    at_lock f' = at_lock f /\ at_pickle f' = at_pickle f /\
    exists y, at_new f' = Some y /\ f_data y = sealS s.
  Proof. destruct f as [pk nw dt lk]. cbn. repeat split. eexists; split; reflexivity. Qed.

  (* ---- finalize *)
  Lemma finalize_prefix f c k :
    FInv f c -> match at_new f with Some y => holds c y | None => True end ->
    FInv (apply_ops f (firstn k (finalize_ops f))) c.
  Proof.
    intros [Hp Hn] Hh. destruct f as [pk nw dt lk]. unfold Model.finalize_ops, Model.commit_ops, FInv in *. cbn in *.
    destruct nw as [y|]; cbn.
    - destruct k as [|[|[|k]]]; cbn; auto.
      rewrite firstn_nil. cbn. auto.
    - destruct k as [|k]; cbn; auto.
      rewrite firstn_nil. cbn. auto.
  Qed.

  Lemma finalize_full f c m :
    FInv f c -> mem_on_disk f m ->
    let f' := apply_ops f (finalize_ops f) in
    FInv f' [m] /\ at_lock f' = None /\ at_new f' = None /\ mem_on_disk f' m.
  Proof.
    intros [Hp Hn] Hm. destruct f as [pk nw dt lk].
    unfold Model.finalize_ops, Model.commit_ops, FInv, mem_on_disk in *. cbn in *.
    destruct nw as [y|]; cbn.
    - repeat split; auto. exists m. split; [left; reflexivity|exact Hm].
    - destruct pk as [x|]; cbn.
      + destruct Hp as [Hsy _]. repeat split; auto. exists m. split; [left; reflexivity|exact Hm].
      + repeat split; auto.
  Qed.

  (* ---- calls on the live instance *)
  Lemma proc_step_spec p pc p' r sv :
    proc_step p pc = (p', r, sv) ->
    (p_async p = 0%nat -> p_dirty p = false) ->
    (p_async p' = 0%nat -> p_dirty p' = false) /\
    match sv with
    | Some s => s = p_mem p' /\ p_dirty p' = false
    | None => p_dirty p' = false -> p_dirty p = false /\ p_mem p' = p_mem p
    end.
  Proof.
    intros H HA. destruct p as [m a d]. cbn in HA. destruct pc as [ap| |]; cbn in H.
    - destruct (mutate m ap) as [[s' b] r'] eqn:Em. destruct b.
      + unfold Model.request_save in H. cbn in H. destruct (Nat.eqb a 0) eqn:Ea; inversion H; subst; cbn.
        * split; auto.
        * apply Nat.eqb_neq in Ea. split; [intros; lia|discriminate].
      + inversion H; subst; cbn. apply Hmut in Em. subst. auto.
    - inversion H; subst; cbn. split; [discriminate|auto].
    - destruct a as [|n].
      + inversion H; subst; cbn. auto.
      + destruct (Nat.eqb n 0 && d) eqn:E.
        * apply andb_true_iff in E as [En Ed]. apply Nat.eqb_eq in En. subst.
          unfold Model.request_save in H. cbn in H. inversion H; subst; cbn. auto.
        * inversion H; subst; cbn. apply andb_false_iff in E. split; [|auto].
          intros ->. destruct E as [E|E]; [discriminate|exact E].
  Qed.

  (* ---- one event *)
  Lemma step_inv w c e :
    Inv w c ->
    match e with ECrashDuring cm k adv => detectable adv (fs_at_crash w cm k) | ECmd _ => True end ->
    Inv (fst (step w e)) (candidates c (snd (step w e))).
  Proof.
    intros [HF HP] Hd. destruct w as [f pr]. unfold PInv in HP. cbn [w_fs w_proc] in *.
    destruct e as [cm|cm k adv]; cbn [step fst snd].
    - (* a command that completes *)
      rewrite candidates_app, candidates_saved.
      destruct cm as [| |pc]; destruct pr as [p|]; cbn [exec w_fs w_proc Model.exec].
      + (* CStart while in use *)
        destruct HP as (HL & HA & HB & HN). rewrite (start_locked f HL). cbn.
        split; [exact HF|]. unfold PInv; cbn. auto.
      + (* CStart *)
        destruct (start_spec f c HF HP) as (s & Hr & Hs & HF' & HL' & HN' & HM').
        destruct (start f) as [res ops]. cbn in Hr. subst res. cbn in *.
        split; [exact HF'|]. unfold PInv; cbn. rewrite HN'. auto.
      + (* CFinalize *)
        destruct HP as (HL & HA & HB & HN).
        destruct (Nat.eqb (p_async p) 0 && negb (p_dirty p)) eqn:E; cbn.
        * apply andb_true_iff in E as [_ Ed]. apply negb_true_iff in Ed.
          destruct (finalize_full f c (p_mem p) HF (HB Ed)) as (HF' & HL' & _).
          split; [exact HF'|]. unfold PInv; cbn. exact HL'.
        * split; [exact HF|]. unfold PInv; cbn. auto.
      + split; [exact HF|]. unfold PInv; cbn. exact HP.
      + (* a call on the live instance *)
        destruct HP as (HL & HA & HB & HN).
        destruct (proc_step p pc) as [[p' r] sv] eqn:Eps. cbn.
        destruct (proc_step_spec _ _ _ _ _ Eps HA) as [HA' Hsv].
        destruct sv as [s|]; cbn.
        * destruct Hsv as [-> Hdf].
          pose proof (save_prefix f c (p_mem p') 2 HF) as HF'. cbn [Nat.leb firstn] in HF'.
          split; [exact HF'|]. unfold PInv; cbn [w_fs w_proc].
          cbn. repeat split; auto.
          exists (p_mem p'). split; [apply in_or_app; right; left; reflexivity|reflexivity].
        * split; [exact HF|]. unfold PInv; cbn. repeat split; auto.
          intros Hd'. destruct (Hsv Hd') as [Hd0 Hm]. rewrite Hm. auto.
      + split; [exact HF|]. unfold PInv; cbn. exact HP.
    - (* a crash after k operations of the command *)
      rewrite candidates_saved. unfold Model.fs_at_crash in Hd. cbn [w_fs] in Hd.
      assert (HFk : FInv (apply_ops f (firstn k (e_ops _ _ _ (exec (mkWorld f pr) cm))))
                         (match e_saved _ _ _ (exec (mkWorld f pr) cm) with
                          | Some s => if Nat.leb 1 k then c ++ [s] else c | None => c end)).
      { destruct cm as [| |pc]; destruct pr as [p|]; cbn [exec w_fs w_proc Model.exec].
        - destruct HP as (HL & _). rewrite (start_locked f HL). cbn. destruct k; exact HF.
        - pose proof (start_prefix f c k HF HP) as H.
          destruct (start f) as [[| |s] ops]; cbn in *; exact H.
        - destruct HP as (HL & HA & HB & HN).
          destruct (Nat.eqb (p_async p) 0 && negb (p_dirty p)); cbn.
          + apply finalize_prefix; assumption.
          + destruct k; exact HF.
        - cbn. destruct k; exact HF.
        - destruct (proc_step p pc) as [[p' r] sv] eqn:Eps. cbn.
          destruct sv as [s|]; [apply save_prefix; exact HF|destruct k; exact HF].
        - cbn. destruct k; exact HF. }
      destruct (FInv_recover _ _ adv HFk Hd) as [HF' HL'].
      unfold Model.fs_at_crash. cbn [w_fs].
      split; [exact HF'|]. unfold PInv; cbn. exact HL'.
  Qed.

  Lemma run_inv : forall evs w c,
    Inv w c -> detectable_run w evs ->
    Inv (fst (run w evs)) (candidates c (snd (run w evs))).
  Proof.
    induction evs as [|e evs IH]; intros w c HI Hd; cbn [run Model.run].
    - exact HI.
    - cbn [Model.detectable_run] in Hd. destruct Hd as [Hd1 Hd2].
      pose proof (step_inv w c e HI Hd1) as H1.
      destruct (step w e) as [w1 m1] eqn:Es. cbn [fst snd] in *.
      specialize (IH w1 _ H1 Hd2).
      destruct (run w1 evs) as [w2 m2]. cbn [fst snd] in *.
      rewrite candidates_app. exact IH.
  Qed.

  Lemma Inv_w0 : Inv (w0 S C) [s0].
  Proof. split; [split; cbn; auto|reflexivity]. Qed.

  Lemma reachable_inv evs :
    detectable_run (w0 S C) evs ->
    Inv (fst (run (w0 S C) evs)) (candidates [s0] (snd (run (w0 S C) evs))).
  Proof. apply run_inv, Inv_w0. Qed.

  (* P1: after any history — any number of invocations, crashes at any
     operation boundary, torn uncommitted files — once no instance is alive
     the next start loads, without error, a candidate snapshot *)
  Theorem recover_generic evs :
    detectable_run (w0 S C) evs ->
    w_proc (fst (run (w0 S C) evs)) = None ->
    exists s, fst (start (w_fs (fst (run (w0 S C) evs)))) = SLoaded s /\
              In s (candidates [s0] (snd (run (w0 S C) evs))).
  Proof.
    intros Hd Hp. destruct (reachable_inv evs Hd) as [HF HP].
    unfold PInv in HP. rewrite Hp in HP.
    destruct (start_spec _ _ HF HP) as (s & Hr & Hs & _). eauto.
  Qed.

  Lemma run_snoc_crash_dead : forall evs w cm k adv,
    w_proc (fst (run w (evs ++ [ECrashDuring cm k adv]))) = None.
  Proof.
    induction evs as [|e evs IH]; intros w cm k adv; cbn [app run Model.run].
    - cbn. reflexivity.
    - destruct (step w e) as [w1 m1]. specialize (IH w1 cm k adv).
      destruct (run w1 (evs ++ [ECrashDuring cm k adv])) as [w2 m2]. exact IH.
  Qed.

  (* ... in particular after a crash at any operation boundary of any command *)
  Theorem recover_after_crash_generic evs cm k adv :
    detectable_run (w0 S C) (evs ++ [ECrashDuring cm k adv]) ->
    exists s, fst (start (w_fs (fst (run (w0 S C) (evs ++ [ECrashDuring cm k adv]))))) = SLoaded s /\
              In s (candidates [s0] (snd (run (w0 S C) (evs ++ [ECrashDuring cm k adv])))).
  Proof. intros Hd. apply recover_generic; [exact Hd|apply run_snoc_crash_dead]. Qed.

  (* P1: the committed file is durable at every instant *)
  Theorem pickle_durable_generic evs cm k x :
    detectable_run (w0 S C) evs ->
    at_pickle (fs_at_crash (fst (run (w0 S C) evs)) cm k) = Some x -> f_synced x = true.
  Proof.
    intros Hd Hx.
    set (w := fst (run (w0 S C) evs)) in *.
    set (f := fs_at_crash w cm k) in *.
    set (adv := fun n => match lookup n f with Some y => f_data y | None => cempty end).
    assert (Hdet : detectable adv f).
    { unfold Model.detectable. destruct (lookup NNew f) eqn:E; [|exact I].
      intros _. left. unfold adv. rewrite E. reflexivity. }
    pose proof (reachable_inv evs Hd) as HI. fold w in HI.
    pose proof (step_inv w _ (ECrashDuring cm k adv) HI Hdet) as [[HP _] _].
    cbn [step Model.step fst w_fs] in HP. fold f in HP.
    unfold recover, crash in HP. cbn in HP. rewrite Hx in HP. cbn in HP.
    destruct (f_synced x) eqn:E; [reflexivity|]. cbn in HP. destruct HP as [HP _]. discriminate.
  Qed.

  (* P1: single writer *)
  Theorem single_writer_generic evs p :
    detectable_run (w0 S C) evs ->
    w_proc (fst (run (w0 S C) evs)) = Some p ->
    start (w_fs (fst (run (w0 S C) evs))) = (SRefused, []).
  Proof.
    intros Hd Hp. destruct (reachable_inv evs Hd) as [_ HP].
    unfold PInv in HP. rewrite Hp in HP. apply start_locked, HP.
  Qed.

  (* P1: outside asynchronous sections the newest file on disk is the memory *)
  Theorem sync_on_disk_generic evs p :
    detectable_run (w0 S C) evs ->
    w_proc (fst (run (w0 S C) evs)) = Some p ->
    p_async p = 0%nat ->
    p_dirty p = false /\
    match disk_latest C (w_fs (fst (run (w0 S C) evs))) with
    | Some c => c = sealS (p_mem p)
    | None => p_mem p = s0
    end.
  Proof.
    intros Hd Hp Ha. destruct (reachable_inv evs Hd) as [_ HP].
    unfold PInv in HP. rewrite Hp in HP. destruct HP as (_ & HA & HB & _).
    split; [auto|]. specialize (HB (HA Ha)). unfold mem_on_disk in HB. unfold disk_latest. cbn.
    destruct (at_new _); [exact HB|]. destruct (at_pickle _); exact HB.
  Qed.

  (* P1: a completed invocation leaves exactly its final state committed *)
  Theorem finalize_commits_generic evs p :
    detectable_run (w0 S C) evs ->
    w_proc (fst (run (w0 S C) evs)) = Some p ->
    p_async p = 0%nat ->
    let w' := fst (step (fst (run (w0 S C) evs)) (ECmd CFinalize)) in
    w_proc w' = None /\ at_lock (w_fs w') = None /\ at_new (w_fs w') = None /\
    match at_pickle (w_fs w') with
    | Some x => f_synced x = true /\ f_data x = sealS (p_mem p)
    | None => p_mem p = s0
    end.
  Proof.
    intros Hd Hp Ha. destruct (reachable_inv evs Hd) as [HF HP].
    destruct (fst (run (w0 S C) evs)) as [f pr]. cbn in Hp. subst pr.
    unfold PInv in HP. cbn in HP. destruct HP as (_ & HA & HB & _).
    specialize (HA Ha). specialize (HB HA).
    cbn [step Model.step exec Model.exec w_proc w_fs fst].
    rewrite Ha, HA. cbn [Nat.eqb negb andb e_ops e_proc].
    destruct (finalize_full f _ (p_mem p) HF HB) as (HF' & HL' & HN' & HM').
    cbn [w_proc w_fs]. repeat split; auto.
    destruct HF' as [HP' _]. unfold mem_on_disk in HM'. rewrite HN' in HM'.
    destruct (at_pickle _); [|exact HM']. destruct HP' as [Hsy _]. auto.
  Qed.

  (* P1: nothing is lost needlessly.  If the uncommitted file survives the
     crash intact (SIGKILL, or a power loss after the data reached the disk)
     the next start loads exactly the memory of the killed instance *)
  Theorem intact_recovers_memory_generic evs p adv :
    detectable_run (w0 S C) evs ->
    w_proc (fst (run (w0 S C) evs)) = Some p ->
    p_async p = 0%nat ->
    (forall y, at_new (w_fs (fst (run (w0 S C) evs))) = Some y -> adv NNew = f_data y) ->
    fst (start (recover adv (w_fs (fst (run (w0 S C) evs))))) = SLoaded (p_mem p).
  Proof.
    intros Hd Hp Ha Hadv. destruct (reachable_inv evs Hd) as [HF HP].
    destruct (fst (run (w0 S C) evs)) as [f pr]. cbn in Hp. subst pr.
    unfold PInv in HP. cbn in HP. destruct HP as (_ & HA & HB & _).
    specialize (HB (HA Ha)). destruct HF as [HPk _]. cbn [w_fs] in *.
    destruct f as [pk nw dt lk]. unfold mem_on_disk in HB. cbn in *.
    unfold start, recover, crash, Model.commit_ops. cbn.
    destruct nw as [y|]; cbn.
    - destruct (f_synced y) eqn:Esy; cbn.
      + rewrite HB, Hvs. cbn. rewrite ?HB, Hls. reflexivity.
      + rewrite (Hadv y eq_refl), HB, Hvs. cbn. rewrite ?(Hadv y eq_refl), ?HB, Hls. reflexivity.
    - destruct pk as [x|]; cbn.
      + destruct HPk as [Hsy _]. rewrite Hsy. cbn. rewrite HB, Hls. reflexivity.
      + rewrite HB. reflexivity.
  Qed.

  (* while asynchronous nothing is written *)
  Theorem async_defers_generic p pc p' r sv :
    proc_step p pc = (p', r, sv) -> (0 < p_async p')%nat -> sv = None.
  Proof.
    intros H Ha. destruct p as [m a d]. destruct pc as [ap| |]; cbn in H.
    - destruct (mutate m ap) as [[s' b] r']. destruct b; [|inversion H; reflexivity].
      unfold Model.request_save in H. cbn in H. destruct (Nat.eqb a 0) eqn:Ea; inversion H; subst; [|reflexivity].
      apply Nat.eqb_eq in Ea. cbn in Ha. lia.
    - inversion H; reflexivity.
    - destruct a as [|n]; [inversion H; reflexivity|].
      destruct (Nat.eqb n 0 && d) eqn:E; [|inversion H; reflexivity].
      apply andb_true_iff in E as [En _]. apply Nat.eqb_eq in En. subst.
      unfold Model.request_save in H. cbn in H. inversion H; subst. cbn in Ha. lia.
  Qed.
End ProtoProofs.

(* ------------------------------------------------------------------ *)
(* Part C: the Bob instance                                            *)

Lemma reset_ws_same s k v s' : reset_ws s k v = (s', false) -> s' = s.
Proof.
  unfold reset_ws.
  destruct (amem k (s_results s)); [|].
  all: repeat match goal with
       | |- context [if ?c then _ else _] => destruct c
       | |- context [match ?v with Some _ => _ | None => _ end] => destruct v
       end; intros H; inversion H; reflexivity.
Qed.

Lemma mutate_nosave_same norm s a s' r : mutate norm s a = (s', false, r) -> s' = s.
Proof.
  destruct a; cbn; intros H;
  try (inversion H; reflexivity);
  try (destruct (reset_ws s k _) as [s1 b] eqn:E; inversion H; subst; apply reset_ws_same in E; exact E);
  repeat match type of H with
         | context [match ?x with _ => _ end] => destruct x
         end; inversion H; reflexivity.
Qed.

Section BobProofs.
  Variables (enc : state -> bytes) (dec : bytes -> option state) (norm : key -> key).
  Hypothesis dec_enc : forall s, dec (seal (enc s)) = Some s.

  Let Hvs : forall s, verify_ok (b_seal enc s) = true := fun s => verify_seal_proof (enc s).

  Lemma recover_is_saved_snapshot_proof (evs : list bevent) :
    b_detectable_run enc dec norm b_w0 evs ->
    w_proc (fst (b_run enc dec norm b_w0 evs)) = None ->
    exists s, fst (b_start dec (w_fs (fst (b_run enc dec norm b_w0 evs)))) = SLoaded s /\
              In s (b_candidates [init_state] (snd (b_run enc dec norm b_w0 evs))).
  Proof. exact (recover_generic _ _ _ _ _ _ _ _ _ _ dec_enc (mutate_nosave_same norm) evs). Qed.

  Lemma recover_after_crash_proof (evs : list bevent) cm k adv :
    b_detectable_run enc dec norm b_w0 (evs ++ [ECrashDuring cm k adv]) ->
    exists s, fst (b_start dec (w_fs (fst (b_run enc dec norm b_w0 (evs ++ [ECrashDuring cm k adv]))))) = SLoaded s /\
              In s (b_candidates [init_state] (snd (b_run enc dec norm b_w0 (evs ++ [ECrashDuring cm k adv])))).
  Proof. exact (recover_after_crash_generic _ _ _ _ _ _ _ _ _ _ dec_enc (mutate_nosave_same norm) evs cm k adv). Qed.

  Lemma committed_file_durable_proof (evs : list bevent) cm k x :
    b_detectable_run enc dec norm b_w0 evs ->
    at_pickle (b_fs_at_crash enc dec norm (fst (b_run enc dec norm b_w0 evs)) cm k) = Some x ->
    f_synced x = true.
  Proof. exact (pickle_durable_generic _ _ _ _ _ _ _ _ _ _ dec_enc (mutate_nosave_same norm) evs cm k x). Qed.

  Lemma single_writer_proof (evs : list bevent) p :
    b_detectable_run enc dec norm b_w0 evs ->
    w_proc (fst (b_run enc dec norm b_w0 evs)) = Some p ->
    b_start dec (w_fs (fst (b_run enc dec norm b_w0 evs))) = (SRefused, []).
  Proof. exact (single_writer_generic _ _ _ _ _ _ _ _ _ _ dec_enc (mutate_nosave_same norm) evs p). Qed.

  Lemma sync_state_on_disk_proof (evs : list bevent) p :
    b_detectable_run enc dec norm b_w0 evs ->
    w_proc (fst (b_run enc dec norm b_w0 evs)) = Some p ->
    p_async p = 0%nat ->
    p_dirty p = false /\
    match disk_latest bytes (w_fs (fst (b_run enc dec norm b_w0 evs))) with
    | Some c => c = seal (enc (p_mem p))
    | None => p_mem p = init_state
    end.
  Proof. exact (sync_on_disk_generic _ _ _ _ _ _ _ _ _ _ dec_enc (mutate_nosave_same norm) evs p). Qed.

  Lemma finalize_commits_proof (evs : list bevent) p :
    b_detectable_run enc dec norm b_w0 evs ->
    w_proc (fst (b_run enc dec norm b_w0 evs)) = Some p ->
    p_async p = 0%nat ->
    let w' := fst (b_step enc dec norm (fst (b_run enc dec norm b_w0 evs)) (ECmd CFinalize)) in
    w_proc w' = None /\ at_lock (w_fs w') = None /\ at_new (w_fs w') = None /\
    match at_pickle (w_fs w') with
    | Some x => f_synced x = true /\ f_data x = seal (enc (p_mem p))
    | None => p_mem p = init_state
    end.
  Proof. exact (finalize_commits_generic _ _ _ _ _ _ _ _ _ _ dec_enc (mutate_nosave_same norm) evs p). Qed.

  Lemma intact_recovers_memory_proof (evs : list bevent) p adv :
    b_detectable_run enc dec norm b_w0 evs ->
    w_proc (fst (b_run enc dec norm b_w0 evs)) = Some p ->
    p_async p = 0%nat ->
    (forall y, at_new (w_fs (fst (b_run enc dec norm b_w0 evs))) = Some y -> adv NNew = f_data y) ->
    fst (b_start dec (recover adv (w_fs (fst (b_run enc dec norm b_w0 evs))))) = SLoaded (p_mem p).
  Proof. exact (intact_recovers_memory_generic _ _ _ _ _ _ _ _ _ _ Hvs dec_enc (mutate_nosave_same norm) evs p adv). Qed.
End BobProofs.

Lemma async_defers_proof norm (p : proc state) pc p' r sv :
  proc_step state api ret (mutate norm) p pc = (p', r, sv) -> (0 < p_async p')%nat -> sv = None.
Proof. apply async_defers_generic. Qed.

(* ---- the pickle assumption is satisfiable *)
Lemma cN_ok : codec_ok cN. Proof. intros x r. reflexivity. Qed.

Lemma cBool_ok : codec_ok cBool. Proof. intros [|] r; reflexivity. Qed.

Lemma cPair_ok {A B} (a : codec A) (b : codec B) : codec_ok a -> codec_ok b -> codec_ok (cPair a b).
Proof. intros Ha Hb [x y] r. cbn. rewrite <- app_assoc, Ha, Hb. reflexivity. Qed.

Lemma cOpt_ok {A} (a : codec A) : codec_ok a -> codec_ok (cOpt a).
Proof. intros Ha [x|] r; cbn; [rewrite Ha|]; reflexivity. Qed.

Lemma cList_ok {A} (a : codec A) : codec_ok a -> codec_ok (cList a).
Proof.
  intros Ha l r. cbn. rewrite Nat2N.id.
  induction l as [|x l IH]; cbn; [reflexivity|].
  rewrite <- app_assoc, Ha, IH. reflexivity.
Qed.

Lemma cMap_ok {T U} (f : T -> U) (g : U -> T) (c : codec U) :
  (forall x, g (f x) = x) -> codec_ok c -> codec_ok (cMap f g c).
Proof. intros Hgf Hc x r. cbn. rewrite Hc, Hgf. reflexivity. Qed.

Lemma cKey_ok : codec_ok cKey. Proof. apply cList_ok, cN_ok. Qed.

Lemma cVal_ok : codec_ok cVal. Proof. apply cOpt_ok, cList_ok, cN_ok. Qed.

Lemma cAmap_ok {V} (v : codec V) : codec_ok v -> codec_ok (cAmap v).
Proof. intros H. apply cList_ok, cPair_ok; [apply cKey_ok|exact H]. Qed.

Lemma cJenk_ok : codec_ok cJenk.
Proof.
  apply cMap_ok; [intros []; reflexivity|].
  repeat apply cPair_ok; try apply cAmap_ok; try apply cPair_ok;
    try apply cVal_ok; try apply cN_ok; try apply cKey_ok.
Qed.

Lemma cState_ok : codec_ok cState.
Proof.
  apply cMap_ok; [intros []; reflexivity|].
  repeat apply cPair_ok; try apply cAmap_ok; repeat apply cPair_ok;
    try apply cVal_ok; try apply cN_ok; try apply cKey_ok; try apply cBool_ok; try apply cJenk_ok.
Qed.

Lemma ser_dec_enc s : ser_dec (seal (ser_enc s)) = Some s.
Proof. unfold ser_dec, seal, ser_enc. rewrite cState_ok. reflexivity. Qed.
