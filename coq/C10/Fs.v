(* C10 — a small file system with crash semantics (definitions only).

   The workspace state protocol of pym/bob/state.py touches exactly four
   names in the workspace root.  It never creates hard links, so every inode
   has at most one name and a rename moves the inode (content *and* its
   durability status) to the new name.  The model therefore keeps one record
   per name:  f_data   = the volatile content (what a reader sees now)
              f_synced = true iff that content is known to be on stable storage
                         (an fsync was issued after the last write).
   Directory entries (create, rename, unlink) are assumed atomic and durable in
   program order (DESIGN section 5/C10 "directory-entry durability (assumed
   ordered)").

   A crash keeps every synced file as it is; the content of every file that
   was written but not synced is replaced by bytes chosen by an adversary
   (full content, any truncation, zeros, garbage ...).  The flag stays false
   after a crash, so a later crash may tear the file again (an
   over-approximation of a real disk, exact for SIGKILL where the adversary
   returns the page-cache content).

   The content type C is a parameter: bytes for the real protocol, a symbolic
   type for cheap evaluation of long API sequences. *)
From Coq Require Import List Bool.
Import ListNotations.

Inductive name := NPickle | NNew | NDirty | NLock.

Definition name_eqb (a b : name) : bool :=
  match a, b with
  | NPickle, NPickle | NNew, NNew | NDirty, NDirty | NLock, NLock => true
  | _, _ => false
  end.

Section FS.
  Variable C : Type.

  Record file := mkFile { f_data : C; f_synced : bool }.

  Record fs := mkFs {
    at_pickle : option file;   (* .bob-state.pickle            committed state       *)
    at_new    : option file;   (* .bob-state.pickle.new        saved, uncommitted    *)
    at_dirty  : option file;   (* .bob-state.pickle.new.dirty  being written         *)
    at_lock   : option file    (* .bob-state.lock              instance lock         *)
  }.

  Definition fs_empty : fs := mkFs None None None None.

  Definition lookup (n : name) (f : fs) : option file :=
    match n with
    | NPickle => at_pickle f | NNew => at_new f | NDirty => at_dirty f | NLock => at_lock f
    end.

  Definition update (n : name) (v : option file) (f : fs) : fs :=
    match n with
    | NPickle => mkFs v (at_new f) (at_dirty f) (at_lock f)
    | NNew    => mkFs (at_pickle f) v (at_dirty f) (at_lock f)
    | NDirty  => mkFs (at_pickle f) (at_new f) v (at_lock f)
    | NLock   => mkFs (at_pickle f) (at_new f) (at_dirty f) v
    end.

  (* the mutating operations the protocol issues *)
  Inductive fsop :=
  | OCreateExcl (n : name) (c : C)   (* os.open(n, O_CREAT|O_EXCL|O_WRONLY) succeeded; c = empty content *)
  | OWrite (n : name) (c : C)        (* open(n, "wb"); write c; close  (create or truncate, then write) *)
  | OFsync (n : name)                (* os.fsync on an open descriptor of n *)
  | ORename (a b : name)             (* os.replace(a, b) *)
  | OUnlink (n : name).              (* os.unlink(n) *)

  Definition apply_op (f : fs) (o : fsop) : fs :=
    match o with
    | OCreateExcl n c =>
        match lookup n f with None => update n (Some (mkFile c false)) f | Some _ => f end
    | OWrite n c => update n (Some (mkFile c false)) f
    | OFsync n =>
        match lookup n f with Some x => update n (Some (mkFile (f_data x) true)) f | None => f end
    | ORename a b =>
        match lookup a f with Some x => update a None (update b (Some x) f) | None => f end
    | OUnlink n => update n None f
    end.

  Definition apply_ops (f : fs) (ops : list fsop) : fs := fold_left apply_op ops f.

  (* crash: the adversary supplies the content found, after the crash, in
     every file whose last write was not followed by an fsync *)
  Definition adversary := name -> C.

  Definition crash_file (adv : adversary) (n : name) (x : option file) : option file :=
    match x with
    | None => None
    | Some y => if f_synced y then Some y else Some (mkFile (adv n) false)
    end.

  Definition crash (adv : adversary) (f : fs) : fs :=
    mkFs (crash_file adv NPickle (at_pickle f)) (crash_file adv NNew (at_new f))
         (crash_file adv NDirty (at_dirty f)) (crash_file adv NLock (at_lock f)).

  (* crash followed by the documented manual step "delete .bob-state.lock if
     Bob crashed or was killed" *)
  Definition recover (adv : adversary) (f : fs) : fs := update NLock None (crash adv f).

End FS.

Arguments mkFile {C}. Arguments f_data {C}. Arguments f_synced {C}.
Arguments mkFs {C}. Arguments at_pickle {C}. Arguments at_new {C}. Arguments at_dirty {C}. Arguments at_lock {C}.
Arguments fs_empty {C}. Arguments lookup {C}. Arguments update {C}.
Arguments OCreateExcl {C}. Arguments OWrite {C}. Arguments OFsync {C}. Arguments ORename {C}. Arguments OUnlink {C}.
Arguments apply_op {C}. Arguments apply_ops {C}. Arguments crash_file {C}. Arguments crash {C}. Arguments recover {C}.
