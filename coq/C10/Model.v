(* C10 — model of the workspace state persistence of pym/bob/state.py
   (definitions only).

   Part 1  bytes, Adler-32, the checksum trailer of DigestAdder / __commit
   Part 2  the persistence protocol of _BobState (__init__, __save, __commit,
           finalize, setAsynchronous/setSynchronous) over the file system of
           Fs.v, generic in the snapshot type, the file content type and the
           table of mutators; worlds, crash events, runs, candidate snapshots
   Part 3  the concrete Bob state: every public mutator/getter of _BobState
           (state.py 528-741) over insertion-ordered dictionaries
   Part 4  instances: the real one (files are bytes, pickle is an opaque
           enc/dec pair, checksum is Adler-32) and a symbolic one used to
           evaluate long API sequences cheaply. *)
From Coq Require Import List NArith Bool Arith.
Require Import BobV.Gen.ConstsC10 BobV.C10.Fs.
Import ListNotations.
Open Scope N_scope.

(* ------------------------------------------------------------------ *)
(* Part 1: bytes and Adler-32                                          *)

Definition bytes := list N.

Fixpoint bytes_eqb (a b : bytes) : bool :=
  match a, b with
  | [], [] => true
  | x :: a', y :: b' => (x =? y) && bytes_eqb a' b'
  | _, _ => false
  end.

Definition ADLER_MOD : N := 65521.

(* zlib.adler32(data, start): a = low 16 bit, b = high 16 bit *)
Fixpoint adler_go (a b : N) (d : bytes) : N * N :=
  match d with
  | [] => (a, b)
  | x :: r => let a' := (a + x) mod ADLER_MOD in
              let b' := (b + a') mod ADLER_MOD in
              adler_go a' b' r
  end.

Definition adler32 (d : bytes) : N :=
  let (a, b) := adler_go 1 0 d in b * 65536 + a.

(* struct.pack("=L", v) on a little-endian host *)
Definition le32 (v : N) : bytes :=
  [v mod 256; (v / 256) mod 256; (v / 65536) mod 256; (v / 16777216) mod 256].

(* what DigestAdder leaves in the file: payload followed by the trailer *)
Definition seal (payload : bytes) : bytes := payload ++ le32 (adler32 payload).

(* __commit(verify=True):  struct.pack("=L", adler32(data[:-4])) == data[-4:]
   (Python slicing: for len(data) < 4, data[:-4] is empty and data[-4:] is data) *)
Definition verify_ok (d : bytes) : bool :=
  let n := (length d - 4)%nat in
  bytes_eqb (le32 (adler32 (firstn n d))) (skipn n d).

(* ------------------------------------------------------------------ *)
(* Part 2: the protocol                                                *)

Section Proto.
  Variable S : Type.            (* snapshot: the dictionary pickled by __save *)
  Variable C : Type.            (* file content *)
  Variable A : Type.            (* mutator / getter calls *)
  Variable R : Type.            (* their return values *)
  Variable s0 : S.              (* state of a fresh workspace (no state file) *)
  Variable sealS : S -> C.      (* pickle.dump through DigestAdder: payload ++ trailer *)
  Variable verify : C -> bool.  (* the trailer check of __commit(verify=True) *)
  Variable load : C -> option S.  (* pickle.load + version checks; None = any exception *)
  Variable cempty : C.          (* content of a file just created by os.open(O_CREAT|O_EXCL) *)
  Variable mutate : S -> A -> S * bool * R.   (* new memory, "__save() was called", result *)

  (* in-memory part of a live _BobState *)
  Record proc := mkProc { p_mem : S; p_async : nat; p_dirty : bool }.

  Record world := mkWorld { w_fs : fs C; w_proc : option proc }.

  Definition w0 : world := mkWorld fs_empty None.

  (* __save with __asynchronous == 0 (state.py 441-447):
       open(dirty,"wb"); DigestAdder; pickle.dump; close; replacePath(dirty, new) *)
  Definition save_ops (s : S) : list (fsop C) :=
    [OWrite NDirty (sealS s); ORename NDirty NNew].

  (* __commit(verify) (state.py 453-483) *)
  Definition commit_ops (ver : bool) (f : fs C) : list (fsop C) :=
    match lookup NNew f with
    | None => []                                           (* not os.path.exists(new): return *)
    | Some x =>
        if negb ver || verify (f_data x)
        then [OFsync NNew; ORename NNew NPickle]           (* fsync; replacePath(new, path) *)
        else [OFsync NNew; OUnlink NNew]                   (* fsync; warn; os.unlink(new) *)
    end.

  Inductive start_res := SRefused | SLoadError | SLoaded (s : S).

  (* _BobState.__init__ (state.py 347-422) *)
  Definition start (f : fs C) : start_res * list (fsop C) :=
    match lookup NLock f with
    | Some _ => (SRefused, [])                             (* EEXIST: ParseError, nothing touched *)
    | None =>
        let o1 := [OCreateExcl NLock cempty] in
        let f1 := apply_ops f o1 in
        let o2 := commit_ops true f1 in
        let f2 := apply_ops f1 o2 in
        match lookup NPickle f2 with
        | None => (SLoaded s0, o1 ++ o2)
        | Some x =>
            match load (f_data x) with
            | Some s => (SLoaded s, o1 ++ o2)
            | None =>                                      (* except: self.finalize(); raise *)
                (SLoadError, o1 ++ o2 ++ commit_ops false f2 ++ [OUnlink NLock])
            end
        end
    end.

  (* finalize (state.py 496-517), state part *)
  Definition finalize_ops (f : fs C) : list (fsop C) := commit_ops false f ++ [OUnlink NLock].

  (* calls on a live instance *)
  Inductive pcmd := PApi (a : A) | PAsync | PSync.
  Inductive pret := PRet (r : R) | PUnit | PAssert.

  (* __save: returns the snapshot that goes to disk now, if any *)
  Definition request_save (p : proc) : proc * option S :=
    if Nat.eqb (p_async p) 0
    then (mkProc (p_mem p) (p_async p) false, Some (p_mem p))
    else (mkProc (p_mem p) (p_async p) true, None).

  Definition proc_step (p : proc) (c : pcmd) : proc * pret * option S :=
    match c with
    | PApi a =>
        let '(s', sv, r) := mutate (p_mem p) a in
        let p' := mkProc s' (p_async p) (p_dirty p) in
        if sv then let (p'', w) := request_save p' in (p'', PRet r, w)
        else (p', PRet r, None)
    | PAsync => (mkProc (p_mem p) (Datatypes.S (p_async p)) (p_dirty p), PUnit, None)
    | PSync =>
        match p_async p with
        | O => (p, PAssert, None)                          (* assert self.__asynchronous >= 0 *)
        | Datatypes.S n =>
            let p' := mkProc (p_mem p) n (p_dirty p) in
            if Nat.eqb n 0 && p_dirty p
            then let (p'', w) := request_save p' in (p'', PUnit, w)
            else (p', PUnit, None)
        end
    end.

  Inductive cmd := CStart | CFinalize | CProc (c : pcmd).

  Inductive outcome :=
  | ORefused | OLoadError | OStarted (s : S) | OFinalized | ORet (r : pret)
  | ONoProc          (* call without a live instance: ignored *)
  | OAssertFail      (* finalize() inside an asynchronous section / with unsaved changes *)
  | OSecond.         (* a second instance got hold of a workspace that is in use *)

  (* marks: what an observer of the history knows *)
  Inductive mark :=
  | MSaved (s : S)    (* __save wrote snapshot s (the write to the .dirty file was issued) *)
  | MLoaded (s : S)   (* an invocation started and loaded s *)
  | MFinal (s : S).   (* an invocation completed (finalize returned) with in-memory state s *)

  Record effect := mkEffect {
    e_ops : list (fsop C);       (* file-system operations, in program order *)
    e_proc : option proc;        (* the live instance afterwards *)
    e_out : outcome;
    e_saved : option S;          (* snapshot written by the first operation, if any *)
    e_done : list mark           (* marks earned when the command completes *)
  }.

  Definition exec (w : world) (c : cmd) : effect :=
    match c, w_proc w with
    | CStart, None =>
        match start (w_fs w) with
        | (SRefused, ops) => mkEffect ops None ORefused None []
        | (SLoadError, ops) => mkEffect ops None OLoadError None []
        | (SLoaded s, ops) => mkEffect ops (Some (mkProc s 0 false)) (OStarted s) None [MLoaded s]
        end
    | CStart, Some p =>
        match start (w_fs w) with
        | (SRefused, ops) => mkEffect ops (Some p) ORefused None []
        | (_, ops) => mkEffect ops (Some p) OSecond None []
        end
    | CFinalize, Some p =>
        if Nat.eqb (p_async p) 0 && negb (p_dirty p)
        then mkEffect (finalize_ops (w_fs w)) None OFinalized None [MFinal (p_mem p)]
        else mkEffect [] (Some p) OAssertFail None []
    | CProc pc, Some p =>
        let '(p', r, sv) := proc_step p pc in
        mkEffect (match sv with Some s => save_ops s | None => [] end) (Some p') (ORet r) sv []
    | _, None => mkEffect [] None ONoProc None []
    end.

  Definition saved_marks (sv : option S) (k : nat) : list mark :=
    match sv with Some s => if Nat.leb 1 k then [MSaved s] else [] | None => [] end.

  (* a history: commands that complete, and machine crashes that hit after
     the first k file-system operations of a command (k = 0: before it) *)
  Inductive event :=
  | ECmd (c : cmd)
  | ECrashDuring (c : cmd) (k : nat) (adv : adversary C).

  Definition fs_at_crash (w : world) (c : cmd) (k : nat) : fs C :=
    apply_ops (w_fs w) (firstn k (e_ops (exec w c))).

  Definition step (w : world) (e : event) : world * list mark :=
    match e with
    | ECmd c =>
        let ef := exec w c in
        (mkWorld (apply_ops (w_fs w) (e_ops ef)) (e_proc ef),
         saved_marks (e_saved ef) 1 ++ e_done ef)
    | ECrashDuring c k adv =>
        let ef := exec w c in
        (mkWorld (recover adv (fs_at_crash w c k)) None, saved_marks (e_saved ef) k)
    end.

  Fixpoint run (w : world) (evs : list event) : world * list mark :=
    match evs with
    | [] => (w, [])
    | e :: r => let (w1, m1) := step w e in let (w2, m2) := run w1 r in (w2, m1 ++ m2)
    end.

  (* the snapshots a later start may legitimately load: the state the last
     started/completed invocation had, and everything saved since *)
  Fixpoint candidates (acc : list S) (log : list mark) : list S :=
    match log with
    | [] => acc
    | MSaved s :: r => candidates (acc ++ [s]) r
    | MLoaded s :: r => candidates [s] r
    | MFinal s :: r => candidates [s] r
    end.

  (* the explicit assumption on torn content: whatever is found in the
     uncommitted file after the crash is what was written, or fails the check *)
  Definition detectable (adv : adversary C) (f : fs C) : Prop :=
    match lookup NNew f with
    | Some x => f_synced x = false -> adv NNew = f_data x \/ verify (adv NNew) = false
    | None => True
    end.

  Fixpoint detectable_run (w : world) (evs : list event) : Prop :=
    match evs with
    | [] => True
    | e :: r =>
        match e with
        | ECrashDuring c k adv => detectable adv (fs_at_crash w c k)
        | ECmd _ => True
        end /\ detectable_run (fst (step w e)) r
    end.

  (* what is on disk, newest first *)
  Definition disk_latest (f : fs C) : option C :=
    match lookup NNew f with
    | Some y => Some (f_data y)
    | None => match lookup NPickle f with Some x => Some (f_data x) | None => None end
    end.

  (* per-command view used by the correspondence check *)
  Fixpoint run_view (w : world) (evs : list event) : list (outcome * list (fsop C)) :=
    match evs with
    | [] => []
    | e :: r =>
        let v := match e with
                 | ECmd c => let ef := exec w c in (e_out ef, e_ops ef)
                 | ECrashDuring c k _ => let ef := exec w c in (e_out ef, firstn k (e_ops ef))
                 end in
        v :: run_view (fst (step w e)) r
    end.
End Proto.

Arguments mkProc {S}. Arguments p_mem {S}. Arguments p_async {S}. Arguments p_dirty {S}.
Arguments mkWorld {S C}. Arguments w_fs {S C}. Arguments w_proc {S C}.
Arguments SRefused {S}. Arguments SLoadError {S}. Arguments SLoaded {S}.
Arguments PApi {A}. Arguments PAsync {A}. Arguments PSync {A}.
Arguments PRet {R}. Arguments PUnit {R}. Arguments PAssert {R}.
Arguments CStart {A}. Arguments CFinalize {A}. Arguments CProc {A}.
Arguments ORefused {S R}. Arguments OLoadError {S R}. Arguments OStarted {S R}. Arguments OFinalized {S R}.
Arguments ORet {S R}. Arguments ONoProc {S R}. Arguments OAssertFail {S R}. Arguments OSecond {S R}.
Arguments MSaved {S}. Arguments MLoaded {S}. Arguments MFinal {S}.
Arguments ECmd {C A}. Arguments ECrashDuring {C A}.

(* ------------------------------------------------------------------ *)
(* Part 3: the Bob state and its public API                            *)

Definition key := list N.                 (* str / bytes keys *)
Definition key_eqb : key -> key -> bool := bytes_eqb.
Definition pyval := option (list N).      (* an opaque Python value; None = Python's None *)

Definition pyval_eqb (a b : pyval) : bool :=
  match a, b with
  | None, None => true
  | Some x, Some y => bytes_eqb x y
  | _, _ => false
  end.

(* Python dict: insertion ordered, assignment to an existing key keeps its place *)
Definition amap (V : Type) := list (key * V).

Fixpoint afind {V} (k : key) (m : amap V) : option V :=
  match m with
  | [] => None
  | (k', v) :: r => if key_eqb k k' then Some v else afind k r
  end.

Fixpoint aset {V} (k : key) (v : V) (m : amap V) : amap V :=
  match m with
  | [] => [(k, v)]
  | (k', v') :: r => if key_eqb k k' then (k, v) :: r else (k', v') :: aset k v r
  end.

Fixpoint adel {V} (k : key) (m : amap V) : amap V :=
  match m with
  | [] => []
  | (k', v') :: r => if key_eqb k k' then r else (k', v') :: adel k r
  end.

Definition amem {V} (k : key) (m : amap V) : bool :=
  match afind k m with Some _ => true | None => false end.

Definition akeys {V} (m : amap V) : list key := map fst m.

(* d.get(k) for dictionaries whose values may themselves be None *)
Definition aget (k : key) (m : amap pyval) : pyval :=
  match afind k m with Some v => v | None => None end.

Record jenk := mkJenk {
  j_config : pyval;                 (* config.dump() *)
  j_jobs : amap pyval;
  j_cnt : amap N;                   (* byNameDirs[baseDir] = counter *)
  j_dirs : amap (key * N)           (* byNameDirs[digest] = "baseDir/num" *)
}.

Record state := mkState {
  s_cnt : amap N;                   (* __byNameDirs[baseDir : str] = counter *)
  s_dirs : amap (key * N * bool);   (* __byNameDirs[digest : bytes] = (join(baseDir, num), isSourceDir) *)
  s_results : amap pyval;
  s_inputs : amap pyval;
  s_jenkins : amap jenk;
  s_dirStates : amap pyval;
  s_layers : amap pyval;
  s_build : pyval;
  s_variants : amap pyval;
  s_attic : amap pyval;
  s_storage : amap (list N)
}.

(* the token [] stands for the initial build state {} *)
Definition init_state : state := mkState [] [] [] [] [] [] [] (Some []) [] [] [].

Definition set_cnt_dirs c d s := mkState c d (s_results s) (s_inputs s) (s_jenkins s) (s_dirStates s) (s_layers s) (s_build s) (s_variants s) (s_attic s) (s_storage s).
Definition set_results v s := mkState (s_cnt s) (s_dirs s) v (s_inputs s) (s_jenkins s) (s_dirStates s) (s_layers s) (s_build s) (s_variants s) (s_attic s) (s_storage s).
Definition set_inputs v s := mkState (s_cnt s) (s_dirs s) (s_results s) v (s_jenkins s) (s_dirStates s) (s_layers s) (s_build s) (s_variants s) (s_attic s) (s_storage s).
Definition set_jenkins v s := mkState (s_cnt s) (s_dirs s) (s_results s) (s_inputs s) v (s_dirStates s) (s_layers s) (s_build s) (s_variants s) (s_attic s) (s_storage s).
Definition set_dirStates v s := mkState (s_cnt s) (s_dirs s) (s_results s) (s_inputs s) (s_jenkins s) v (s_layers s) (s_build s) (s_variants s) (s_attic s) (s_storage s).
Definition set_layers v s := mkState (s_cnt s) (s_dirs s) (s_results s) (s_inputs s) (s_jenkins s) (s_dirStates s) v (s_build s) (s_variants s) (s_attic s) (s_storage s).
Definition set_build v s := mkState (s_cnt s) (s_dirs s) (s_results s) (s_inputs s) (s_jenkins s) (s_dirStates s) (s_layers s) v (s_variants s) (s_attic s) (s_storage s).
Definition set_variants v s := mkState (s_cnt s) (s_dirs s) (s_results s) (s_inputs s) (s_jenkins s) (s_dirStates s) (s_layers s) (s_build s) v (s_attic s) (s_storage s).
Definition set_attic v s := mkState (s_cnt s) (s_dirs s) (s_results s) (s_inputs s) (s_jenkins s) (s_dirStates s) (s_layers s) (s_build s) (s_variants s) v (s_storage s).
Definition set_storage v s := mkState (s_cnt s) (s_dirs s) (s_results s) (s_inputs s) (s_jenkins s) (s_dirStates s) (s_layers s) (s_build s) (s_variants s) (s_attic s) v.

Inductive api :=
(* name directories *)
| GetByNameDir (base digest : key) (src : bool) | GetExistingByNameDir (digest : key) | GetAllNameDirs
(* result / input hashes *)
| GetResult (k : key) | SetResult (k : key) (v : pyval)
| GetInputs (k : key) | SetInputs (k : key) (v : pyval) | DelInputs (k : key)
(* layers *)
| GetLayers | HasLayer (k : key) | GetLayer (k : key) | SetLayer (k : key) (v : pyval) | DelLayer (k : key)
(* directory states *)
| GetDirs | HasDir (k : key) | GetDir (k : key) | SetDir (k : key) (v : pyval) | DelDir (k : key)
(* variant ids, storage paths, workspace reset *)
| GetVariant (k : key) | SetVariant (k : key) (v : pyval)
| SetStorage (ws : key) (st : pyval) | GetStorage (ws : key)
| ResetWs (k : key) (v : pyval)
(* attic *)
| SetAttic (k : key) (v : pyval) | GetAttic (k : key) | DelAttic (k : key) | GetAttics
(* Jenkins *)
| GetAllJenkins | AddJenkins (n : key) (v : pyval) | DelJenkins (n : key)
| JenkinsByNameDir (j base digest : key)
| GetJenkinsConfig (n : key) | SetJenkinsConfig (n : key) (v : pyval)
| JenkinsAllJobs (n : key)
| AddJenkinsJob (j job : key) (v : pyval) | DelJenkinsJob (j job : key)
| GetJenkinsJob (j job : key) | SetJenkinsJob (j job : key) (v : pyval)
(* build state *)
| SetBuildState (v : pyval) | GetBuildState.

Inductive ret :=
| RUnit | RVal (v : pyval) | RKeys (l : list key) | RBool (b : bool)
| RPath (base : key) (num : N)        (* join(base, str(num)) *)
| RNoPath
| RPaths (l : list (key * N * bool))
| RKeyError.

Definition cnt_get (k : key) (m : amap N) : N := match afind k m with Some c => c | None => 0 end.

(* resetWorkspaceState (state.py 641-662) *)
Definition reset_ws (s : state) (path : key) (dirState : pyval) : state * bool :=
  let '(s1, n1) := if amem path (s_results s) then (set_results (adel path (s_results s)) s, true) else (s, false) in
  let '(s2, n2) := if amem path (s_inputs s1) then (set_inputs (adel path (s_inputs s1)) s1, true) else (s1, n1) in
  let '(s3, n3) := if pyval_eqb (aget path (s_dirStates s2)) dirState then (s2, n2)
                   else (match dirState with
                         | None => set_dirStates (adel path (s_dirStates s2)) s2
                         | Some _ => set_dirStates (aset path dirState (s_dirStates s2)) s2
                         end, true) in
  let '(s4, n4) := if amem path (s_variants s3) then (set_variants (adel path (s_variants s3)) s3, true) else (s3, n3) in
  let '(s5, n5) := if amem path (s_storage s4) then (set_storage (adel path (s_storage s4)) s4, true) else (s4, n4) in
  (s5, n5).

Section Mutate.
  Variable norm : key -> key.     (* os.path.normpath *)

  Definition mutate (s : state) (a : api) : state * bool * ret :=
    match a with
    | GetByNameDir base digest src =>
        match afind digest (s_dirs s) with
        | Some (b, n, _) => (s, false, RPath b n)
        | None =>
            let num := cnt_get base (s_cnt s) + 1 in
            (set_cnt_dirs (aset base num (s_cnt s)) (aset digest (base, num, src) (s_dirs s)) s, true, RPath base num)
        end
    | GetExistingByNameDir digest =>
        match afind digest (s_dirs s) with
        | Some (b, n, _) => (s, false, RPath b n)
        | None => (s, false, RNoPath)
        end
    | GetAllNameDirs => (s, false, RPaths (map snd (s_dirs s)))
    | GetResult k => (s, false, RVal (aget k (s_results s)))
    | SetResult k v =>
        if pyval_eqb (aget k (s_results s)) v then (s, false, RUnit)
        else (set_results (aset k v (s_results s)) s, true, RUnit)
    | GetInputs k => (s, false, RVal (aget k (s_inputs s)))
    | SetInputs k v =>
        if pyval_eqb (aget k (s_inputs s)) v then (s, false, RUnit)
        else (set_inputs (aset k v (s_inputs s)) s, true, RUnit)
    | DelInputs k =>
        if amem k (s_inputs s) then (set_inputs (adel k (s_inputs s)) s, true, RUnit) else (s, false, RUnit)
    | GetLayers => (s, false, RKeys (akeys (s_layers s)))
    | HasLayer k => (s, false, RBool (amem k (s_layers s)))
    | GetLayer k => (s, false, RVal (aget k (s_layers s)))
    | SetLayer k v => (set_layers (aset k v (s_layers s)) s, true, RUnit)
    | DelLayer k =>
        if amem k (s_layers s) then (set_layers (adel k (s_layers s)) s, true, RUnit) else (s, false, RUnit)
    | GetDirs => (s, false, RKeys (akeys (s_dirStates s)))
    | HasDir k => (s, false, RBool (amem k (s_dirStates s)))
    | GetDir k => (s, false, RVal (aget k (s_dirStates s)))
    | SetDir k v => (set_dirStates (aset k v (s_dirStates s)) s, true, RUnit)
    | DelDir k => let (s', sv) := reset_ws s k None in (s', sv, RUnit)
    | GetVariant k => (s, false, RVal (aget k (s_variants s)))
    | SetVariant k v =>
        if pyval_eqb (aget k (s_variants s)) v then (s, false, RUnit)
        else (set_variants (aset k v (s_variants s)) s, true, RUnit)
    | SetStorage ws st =>
        let st' := if pyval_eqb st (Some ws) then None else st in
        if pyval_eqb (afind ws (s_storage s)) st' then (s, false, RUnit)
        else match st' with
             | None => (set_storage (adel ws (s_storage s)) s, true, RUnit)
             | Some p => (set_storage (aset ws p (s_storage s)) s, true, RUnit)
             end
    | GetStorage ws =>
        (s, false, RVal (match afind ws (s_storage s) with Some p => Some p | None => Some ws end))
    | ResetWs k v => let (s', sv) := reset_ws s k v in (s', sv, RUnit)
    | SetAttic k v => (set_attic (aset (norm k) v (s_attic s)) s, true, RUnit)
    | GetAttic k => (s, false, RVal (aget k (s_attic s)))
    | DelAttic k =>
        if amem k (s_attic s) then (set_attic (adel k (s_attic s)) s, true, RUnit) else (s, false, RUnit)
    | GetAttics => (s, false, RKeys (akeys (s_attic s)))
    | GetAllJenkins => (s, false, RKeys (akeys (s_jenkins s)))
    | AddJenkins n v => (set_jenkins (aset n (mkJenk v [] [] []) (s_jenkins s)) s, true, RUnit)
    | DelJenkins n =>
        if amem n (s_jenkins s) then (set_jenkins (adel n (s_jenkins s)) s, true, RUnit) else (s, false, RUnit)
    | JenkinsByNameDir j base digest =>
        match afind j (s_jenkins s) with
        | None => (s, false, RKeyError)
        | Some jk =>
            match afind digest (j_dirs jk) with
            | Some (b, n) => (s, false, RPath b n)
            | None =>
                let num := cnt_get base (j_cnt jk) + 1 in
                let jk' := mkJenk (j_config jk) (j_jobs jk) (aset base num (j_cnt jk)) (aset digest (base, num) (j_dirs jk)) in
                (set_jenkins (aset j jk' (s_jenkins s)) s, true, RPath base num)
            end
        end
    | GetJenkinsConfig n =>
        match afind n (s_jenkins s) with
        | None => (s, false, RKeyError)
        | Some jk => (s, false, RVal (j_config jk))
        end
    | SetJenkinsConfig n v =>
        match afind n (s_jenkins s) with
        | None => (s, false, RKeyError)
        | Some jk => (set_jenkins (aset n (mkJenk v (j_jobs jk) (j_cnt jk) (j_dirs jk)) (s_jenkins s)) s, true, RUnit)
        end
    | JenkinsAllJobs n =>
        match afind n (s_jenkins s) with
        | None => (s, false, RKeyError)
        | Some jk => (s, false, RKeys (akeys (j_jobs jk)))
        end
    | AddJenkinsJob j job v | SetJenkinsJob j job v =>
        match afind j (s_jenkins s) with
        | None => (s, false, RKeyError)
        | Some jk =>
            (set_jenkins (aset j (mkJenk (j_config jk) (aset job v (j_jobs jk)) (j_cnt jk) (j_dirs jk)) (s_jenkins s)) s, true, RUnit)
        end
    | DelJenkinsJob j job =>
        match afind j (s_jenkins s) with
        | None => (s, false, RKeyError)
        | Some jk =>
            if amem job (j_jobs jk)
            then (set_jenkins (aset j (mkJenk (j_config jk) (adel job (j_jobs jk)) (j_cnt jk) (j_dirs jk)) (s_jenkins s)) s, true, RUnit)
            else (s, false, RKeyError)
        end
    | GetJenkinsJob j job =>
        match afind j (s_jenkins s) with
        | None => (s, false, RKeyError)
        | Some jk => match afind job (j_jobs jk) with
                     | Some v => (s, false, RVal v)
                     | None => (s, false, RKeyError)
                     end
        end
    | SetBuildState v => (set_build v s, true, RUnit)
    | GetBuildState => (s, false, RVal (s_build s))
    end.
End Mutate.

(* ------------------------------------------------------------------ *)
(* Part 4: instances                                                   *)

(* 4a. the real protocol: files are bytes, pickle is an opaque pair enc/dec,
   the checksum is Adler-32 *)
Section BobBytes.
  Variable enc : state -> bytes.            (* pickle.dumps of the state dictionary *)
  Variable dec : bytes -> option state.     (* pickle.load + version checks + field extraction *)
  Variable norm : key -> key.

  Definition b_seal (s : state) : bytes := seal (enc s).
  Definition bworld := world state bytes.
  Definition bevent := event bytes api.
  Definition b_w0 : bworld := w0 state bytes.
  Definition b_start := start state bytes init_state verify_ok dec [].
  Definition b_exec := exec state bytes api ret init_state b_seal verify_ok dec [] (mutate norm).
  Definition b_step := step state bytes api ret init_state b_seal verify_ok dec [] (mutate norm).
  Definition b_run := run state bytes api ret init_state b_seal verify_ok dec [] (mutate norm).
  Definition b_detectable_run := detectable_run state bytes api ret init_state b_seal verify_ok dec [] (mutate norm).
  Definition b_fs_at_crash := fs_at_crash state bytes api ret init_state b_seal verify_ok dec [] (mutate norm).
  Definition b_candidates := candidates state.
End BobBytes.

(* 4b. byte-level start on an arbitrary image; the snapshot is the content
   itself, decodability of a content is supplied as a table (pickle is opaque) *)
Definition dec_table (tab : list (bytes * bool)) (b : bytes) : option bytes :=
  let fix go (t : list (bytes * bool)) :=
    match t with
    | [] => Some b
    | (x, ok) :: r => if bytes_eqb x b then (if ok then Some b else None) else go r
    end in go tab.

Definition raw_start (tab : list (bytes * bool)) (f : fs bytes) :=
  start bytes bytes ([] : bytes) verify_ok (dec_table tab) [] f.

(* 4c. symbolic content: Some s = a completely written snapshot s with a
   correct trailer, None = anything that fails the trailer check *)
Section BobSym.
  Variable norm : key -> key.
  Definition y_seal (s : state) : option state := Some s.
  Definition y_verify (c : option state) : bool := match c with Some _ => true | None => false end.
  Definition y_load (c : option state) : option state := c.
  Definition yworld := world state (option state).
  Definition yevent := event (option state) api.
  Definition y_w0 : yworld := w0 state (option state).
  Definition y_exec := exec state (option state) api ret init_state y_seal y_verify y_load None (mutate norm).
  Definition y_step := step state (option state) api ret init_state y_seal y_verify y_load None (mutate norm).
  Definition y_run := run state (option state) api ret init_state y_seal y_verify y_load None (mutate norm).
  Definition y_fs_at_crash := fs_at_crash state (option state) api ret init_state y_seal y_verify y_load None (mutate norm).
End BobSym.

(* ------------------------------------------------------------------ *)
(* Part 5: tie to the source constants, and the views compared by the  *)
(* correspondence check                                                *)

Definition name_path (n : name) : list N :=
  match n with
  | NPickle => PATH_PICKLE | NNew => PATH_NEW | NDirty => PATH_DIRTY | NLock => PATH_LOCK
  end.

Definition name_id (n : name) : N :=
  match n with NPickle => 0 | NNew => 1 | NDirty => 2 | NLock => 3 end.

(* the model hard-wires: four distinct names, a 4-byte "=L" trailer (le32),
   Adler start value 1, and that snapshots written now (CUR_VERSION) are
   inside the accepted version window *)
Definition model_consts_ok : bool :=
  negb (bytes_eqb PATH_PICKLE PATH_NEW) && negb (bytes_eqb PATH_PICKLE PATH_DIRTY) &&
  negb (bytes_eqb PATH_PICKLE PATH_LOCK) && negb (bytes_eqb PATH_NEW PATH_DIRTY) &&
  negb (bytes_eqb PATH_NEW PATH_LOCK) && negb (bytes_eqb PATH_DIRTY PATH_LOCK) &&
  (TRAILER_LEN =? 4) && bytes_eqb CSUM_FORMAT [61; 76] && (ADLER_START =? 1) &&
  (MIN_VERSION <=? CUR_VERSION).

Definition shape := (N * N * N)%type.   (* kind, name, second name / content flag *)

Definition shape_of {C} (good : C -> bool) (o : fsop C) : shape :=
  match o with
  | OCreateExcl n _ => (0, name_id n, 0)
  | OWrite n c => (1, name_id n, if good c then 1 else 0)
  | OFsync n => (2, name_id n, 0)
  | ORename a b => (3, name_id a, name_id b)
  | OUnlink n => (4, name_id n, 0)
  end.

Inductive oview :=
| VRefused | VLoadError | VStarted | VFinalized | VRet (r : pret ret) | VNoProc | VAssertFail | VSecond.

Definition view_of (o : outcome state ret) : oview :=
  match o with
  | ORefused => VRefused | OLoadError => VLoadError | OStarted _ => VStarted | OFinalized => VFinalized
  | ORet r => VRet r | ONoProc => VNoProc | OAssertFail => VAssertFail | OSecond => VSecond
  end.

(* order-insensitive comparison of key lists / path lists (Python sets, dict views) *)
Fixpoint count_eq {T} (e : T -> T -> bool) (x : T) (l : list T) : nat :=
  match l with [] => O | y :: r => (if e x y then 1 else 0) + count_eq e x r end.

Definition perm_eqb {T} (e : T -> T -> bool) (a b : list T) : bool :=
  Nat.eqb (length a) (length b) && forallb (fun x => Nat.eqb (count_eq e x a) (count_eq e x b)) a.

Definition path_eqb (a b : key * N * bool) : bool :=
  key_eqb (fst (fst a)) (fst (fst b)) && (snd (fst a) =? snd (fst b)) && Bool.eqb (snd a) (snd b).

Definition ret_eqb (a b : ret) : bool :=
  match a, b with
  | RUnit, RUnit => true
  | RVal x, RVal y => pyval_eqb x y
  | RKeys x, RKeys y => perm_eqb key_eqb x y
  | RBool x, RBool y => Bool.eqb x y
  | RPath b1 n1, RPath b2 n2 => key_eqb b1 b2 && (n1 =? n2)
  | RNoPath, RNoPath => true
  | RPaths x, RPaths y => perm_eqb path_eqb x y
  | RKeyError, RKeyError => true
  | _, _ => false
  end.

Definition oview_eqb (a b : oview) : bool :=
  match a, b with
  | VRefused, VRefused | VLoadError, VLoadError | VStarted, VStarted | VFinalized, VFinalized
  | VNoProc, VNoProc | VAssertFail, VAssertFail | VSecond, VSecond => true
  | VRet (PRet x), VRet (PRet y) => ret_eqb x y
  | VRet PUnit, VRet PUnit => true
  | VRet PAssert, VRet PAssert => true
  | _, _ => false
  end.

Definition shape_eqb (a b : shape) : bool :=
  (fst (fst a) =? fst (fst b)) && (snd (fst a) =? snd (fst b)) && (snd a =? snd b).

Fixpoint list_eqb {T} (e : T -> T -> bool) (a b : list T) : bool :=
  match a, b with
  | [], [] => true
  | x :: a', y :: b' => e x y && list_eqb e a' b'
  | _, _ => false
  end.

Definition step_view := (oview * list shape)%type.
Definition step_view_eqb (a b : step_view) : bool :=
  oview_eqb (fst a) (fst b) && list_eqb shape_eqb (snd a) (snd b).

(* test events: a completed command, SIGKILL after k operations (every file
   keeps its content), power loss after k operations (every unsynced file is
   found with content that fails the trailer check) *)
Inductive tev := TCmd (c : cmd api) | TKill (c : cmd api) (k : nat) | TTear (c : cmd api) (k : nat).

Definition norm_of (tab : list (key * key)) (k : key) : key :=
  match afind k tab with Some k' => k' | None => k end.

Section SymRun.
  Variable norm : key -> key.

  Definition adv_keep (f : fs (option state)) : adversary (option state) :=
    fun n => match lookup n f with Some x => f_data x | None => None end.

  Definition to_event (w : yworld) (t : tev) : yevent :=
    match t with
    | TCmd c => ECmd c
    | TKill c k => ECrashDuring c k (adv_keep (y_fs_at_crash norm w c k))
    | TTear c k => ECrashDuring c k (fun _ => None)
    end.

  Fixpoint trun (w : yworld) (ts : list tev) : list step_view :=
    match ts with
    | [] => []
    | t :: r =>
        let e := to_event w t in
        let ef := y_exec norm w (match t with TCmd c | TKill c _ | TTear c _ => c end) in
        let ops := match t with TCmd _ => e_ops _ _ _ ef | TKill _ k | TTear _ k => firstn k (e_ops _ _ _ ef) end in
        (view_of (e_out _ _ _ ef), map (shape_of y_verify) ops) :: trun (fst (y_step norm w e)) r
    end.

  (* a case: the main history, and side histories that branch off after the
     first n events of the main one *)
  Definition run_case (main : list tev) (sides : list (nat * list tev)) : list step_view * list (list step_view) :=
    (trun y_w0 main,
     map (fun sd => skipn (fst sd) (trun y_w0 (firstn (fst sd) main ++ snd sd))) sides).

  Definition case_eqb (a b : list step_view * list (list step_view)) : bool :=
    list_eqb step_view_eqb (fst a) (fst b) && list_eqb (list_eqb step_view_eqb) (snd a) (snd b).
End SymRun.

(* byte-level start on an image: result kind, fingerprint (length, Adler-32)
   of the content that was loaded, operations *)
Definition raw_start_view (tab : list (bytes * bool)) (f : fs bytes) : N * option (N * N) * list shape :=
  match raw_start tab f with
  | (SRefused, ops) => (0, None, map (shape_of verify_ok) ops)
  | (SLoadError, ops) => (1, None, map (shape_of verify_ok) ops)
  | (SLoaded b, ops) => (2, Some (N.of_nat (length b), adler32 b), map (shape_of verify_ok) ops)
  end.

(* ------------------------------------------------------------------ *)
(* Part 6: a toy pickle used only by the non-vacuity examples          *)
(* (encodes the first result hash; enough to tell the example states apart) *)
Definition toy_enc (s : state) : bytes :=
  match s_results s with
  | [] => [0]
  | (k, Some (v :: _)) :: _ => 1 :: v :: k
  | _ => [2]
  end.

Definition toy_dec (b : bytes) : option state :=
  match b with
  | 0 :: _ => Some init_state
  | 1 :: v :: k => Some (set_results [(firstn (length k - 4) k, Some [v])] init_state)
  | _ => None
  end.

Definition toy_norm (k : key) : key := k.
Definition toy_set (v : N) : cmd api := CProc (PApi (SetResult [97] (Some [v]))).
Definition toy_state (v : N) : state := set_results [([97], Some [v])] init_state.

(* ------------------------------------------------------------------ *)
(* Part 7: a concrete pickle                                            *)
(* a self-delimiting serialisation of the model state: shows that the
   assumption "dec (seal (enc s)) = Some s" on the opaque pickle is satisfiable *)

Record codec (T : Type) := mkCodec { put : T -> bytes; get : bytes -> option (T * bytes) }.

Arguments put {T}. Arguments get {T}. Arguments mkCodec {T}.

Definition codec_ok {T} (c : codec T) : Prop := forall x r, get c (put c x ++ r) = Some (x, r).

Definition cN : codec N :=
  mkCodec (fun n : N => [n]) (fun b : bytes => match b with [] => None | n :: r => Some (n, r) end).

Definition cBool : codec bool :=
  mkCodec (fun b : bool => [if b then 1 else 0]) (fun b : bytes => match b with [] => None | n :: r => Some (negb (n =? 0), r) end).

Definition cPair {A B} (a : codec A) (b : codec B) : codec (A * B) :=
  mkCodec (fun p : A * B => put a (fst p) ++ put b (snd p))
          (fun s : bytes => match get a s with
                    | Some (x, r) => match get b r with Some (y, r') => Some ((x, y), r') | None => None end
                    | None => None
                    end).

Definition cOpt {A} (a : codec A) : codec (option A) :=
  mkCodec (fun o : option A => match o with None => [0] | Some x => 1 :: put a x end)
          (fun s : bytes => match s with
                    | [] => None
                    | n :: r => if n =? 0 then Some (None, r)
                                else match get a r with Some (x, r') => Some (Some x, r') | None => None end
                    end).

Fixpoint get_n {A} (a : codec A) (k : nat) (s : bytes) : option (list A * bytes) :=
  match k with
  | O => Some ([], s)
  | S k' => match get a s with
            | Some (x, r) => match get_n a k' r with Some (l, r') => Some (x :: l, r') | None => None end
            | None => None
            end
  end.

Definition cList {A} (a : codec A) : codec (list A) :=
  mkCodec (fun l : list A => N.of_nat (length l) :: flat_map (put a) l)
          (fun s : bytes => match s with [] => None | n :: r => get_n a (N.to_nat n) r end).

Definition cMap {T U} (f : T -> U) (g : U -> T) (c : codec U) : codec T :=
  mkCodec (fun x : T => put c (f x))
          (fun s : bytes => match get c s with Some (u, r) => Some (g u, r) | None => None end).

Definition cKey : codec key := cList cN.

Definition cVal : codec pyval := cOpt (cList cN).

Definition cAmap {V} (v : codec V) : codec (amap V) := cList (cPair cKey v).

Definition cJenk : codec jenk :=
  cMap (fun j => (j_config j, j_jobs j, j_cnt j, j_dirs j))
       (fun t => match t with (a, b, c, d) => mkJenk a b c d end)
       (cPair (cPair (cPair cVal (cAmap cVal)) (cAmap cN)) (cAmap (cPair cKey cN))).

Definition cState : codec state :=
  cMap (fun s => (s_cnt s, s_dirs s, s_results s, s_inputs s, s_jenkins s, s_dirStates s, s_layers s,
                  s_build s, s_variants s, s_attic s, s_storage s))
       (fun t => match t with (a, b, c, d, e, f, g, h, i, j, k) => mkState a b c d e f g h i j k end)
       (cPair (cPair (cPair (cPair (cPair (cPair (cPair (cPair (cPair (cPair
          (cAmap cN) (cAmap (cPair (cPair cKey cN) cBool))) (cAmap cVal)) (cAmap cVal)) (cAmap cJenk))
          (cAmap cVal)) (cAmap cVal)) cVal) (cAmap cVal)) (cAmap cVal)) (cAmap (cList cN))).

Definition ser_enc (s : state) : bytes := put cState s.

Definition ser_dec (b : bytes) : option state := match get cState b with Some (s, _) => Some s | None => None end.

(* sum of the bytes (Adler-32 low half = (1 + bsum d) mod 65521) *)
Fixpoint bsum (d : bytes) : N := match d with [] => 0 | x :: r => x + bsum r end.

