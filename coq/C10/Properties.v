(* C10 — property theorems: workspace state commits atomically and is
   single-writer.  Only statements (closed by [exact] of a lemma of Proofs.v)
   and non-vacuity examples.

   Reading guide.  [bevent] histories are lists of commands that complete
   ([ECmd]: start of an instance, any public mutator/getter call,
   setAsynchronous/setSynchronous, finalize) and machine crashes
   ([ECrashDuring c k adv]: the crash hits after the first k file-system
   operations of command c; every file written but not fsynced is then found
   with the content [adv] chooses; the lock file is removed by hand as the
   error message of Bob instructs).  [b_run] returns the world after the
   history and the marks (snapshots saved, states loaded, states at the end of
   completed invocations); [b_candidates] are the snapshots saved since the
   last state an invocation started from or completed with, plus that state.
   [enc]/[dec] is pickle (opaque), the checksum is the concrete Adler-32.
   [b_detectable_run] is the explicit assumption on torn content: what is
   found in the *uncommitted* file after a crash is what was written or fails
   the trailer check. *)
From Coq Require Import List NArith Bool.
Require Import BobV.C10.Fs BobV.C10.Model BobV.C10.Proofs.
Import ListNotations.
Open Scope N_scope.

(* P1.  After any history, once no instance is alive (crash or finalize), the
   next start loads, without error, exactly one candidate snapshot: never a
   mixture, never older than the state of the last started/completed
   invocation. *)
Theorem recover_is_saved_snapshot :
  forall (enc : state -> bytes) (dec : bytes -> option state) (norm : key -> key),
  (forall s, dec (seal (enc s)) = Some s) ->
  forall evs : list bevent,
  b_detectable_run enc dec norm b_w0 evs ->
  w_proc (fst (b_run enc dec norm b_w0 evs)) = None ->
  exists s, fst (b_start dec (w_fs (fst (b_run enc dec norm b_w0 evs)))) = SLoaded s /\
            In s (b_candidates [init_state] (snd (b_run enc dec norm b_w0 evs))).
Proof. exact recover_is_saved_snapshot_proof. Qed.

(* P1.  ... in particular for a crash at every operation boundary of every
   command of every history (including crashes during recovery itself). *)
Theorem recover_after_any_crash :
  forall (enc : state -> bytes) (dec : bytes -> option state) (norm : key -> key),
  (forall s, dec (seal (enc s)) = Some s) ->
  forall (evs : list bevent) cm k adv,
  b_detectable_run enc dec norm b_w0 (evs ++ [ECrashDuring cm k adv]) ->
  exists s,
    fst (b_start dec (w_fs (fst (b_run enc dec norm b_w0 (evs ++ [ECrashDuring cm k adv]))))) = SLoaded s /\
    In s (b_candidates [init_state] (snd (b_run enc dec norm b_w0 (evs ++ [ECrashDuring cm k adv])))).
Proof. exact recover_after_crash_proof. Qed.

(* P1.  The file under the committed name is fully durable at every instant
   (fsync precedes the rename in every trace). *)
Theorem committed_file_always_durable :
  forall (enc : state -> bytes) (dec : bytes -> option state) (norm : key -> key),
  (forall s, dec (seal (enc s)) = Some s) ->
  forall (evs : list bevent) cm k x,
  b_detectable_run enc dec norm b_w0 evs ->
  at_pickle (b_fs_at_crash enc dec norm (fst (b_run enc dec norm b_w0 evs)) cm k) = Some x ->
  f_synced x = true.
Proof. exact committed_file_durable_proof. Qed.

(* P1.  While an instance is alive a second one refuses and touches nothing. *)
Theorem single_writer :
  forall (enc : state -> bytes) (dec : bytes -> option state) (norm : key -> key),
  (forall s, dec (seal (enc s)) = Some s) ->
  forall (evs : list bevent) p,
  b_detectable_run enc dec norm b_w0 evs ->
  w_proc (fst (b_run enc dec norm b_w0 evs)) = Some p ->
  b_start dec (w_fs (fst (b_run enc dec norm b_w0 evs))) = (SRefused, []).
Proof. exact single_writer_proof. Qed.

(* P1.  Outside asynchronous sections nothing is pending and the newest file
   on disk is the sealed pickle of the in-memory state (every change is saved;
   leaving the last asynchronous section flushes). *)
Theorem sync_state_is_on_disk :
  forall (enc : state -> bytes) (dec : bytes -> option state) (norm : key -> key),
  (forall s, dec (seal (enc s)) = Some s) ->
  forall (evs : list bevent) p,
  b_detectable_run enc dec norm b_w0 evs ->
  w_proc (fst (b_run enc dec norm b_w0 evs)) = Some p ->
  p_async p = 0%nat ->
  p_dirty p = false /\
  match disk_latest bytes (w_fs (fst (b_run enc dec norm b_w0 evs))) with
  | Some c => c = seal (enc (p_mem p))
  | None => p_mem p = init_state
  end.
Proof. exact sync_state_on_disk_proof. Qed.

(* P1.  A completed invocation leaves exactly its final state committed and
   durable, no uncommitted file, no lock. *)
Theorem finalize_commits_final_state :
  forall (enc : state -> bytes) (dec : bytes -> option state) (norm : key -> key),
  (forall s, dec (seal (enc s)) = Some s) ->
  forall (evs : list bevent) p,
  b_detectable_run enc dec norm b_w0 evs ->
  w_proc (fst (b_run enc dec norm b_w0 evs)) = Some p ->
  p_async p = 0%nat ->
  let w' := fst (b_step enc dec norm (fst (b_run enc dec norm b_w0 evs)) (ECmd CFinalize)) in
  w_proc w' = None /\ at_lock (w_fs w') = None /\ at_new (w_fs w') = None /\
  match at_pickle (w_fs w') with
  | Some x => f_synced x = true /\ f_data x = seal (enc (p_mem p))
  | None => p_mem p = init_state
  end.
Proof. exact finalize_commits_proof. Qed.

(* P1.  Nothing is lost needlessly: if the uncommitted file survives intact
   (SIGKILL, or the data had reached the disk) the next start loads exactly
   the memory of the killed instance (uses: a sealed file passes Adler-32). *)
Theorem intact_file_recovers_memory :
  forall (enc : state -> bytes) (dec : bytes -> option state) (norm : key -> key),
  (forall s, dec (seal (enc s)) = Some s) ->
  forall (evs : list bevent) p adv,
  b_detectable_run enc dec norm b_w0 evs ->
  w_proc (fst (b_run enc dec norm b_w0 evs)) = Some p ->
  p_async p = 0%nat ->
  (forall y, at_new (w_fs (fst (b_run enc dec norm b_w0 evs))) = Some y -> adv NNew = f_data y) ->
  fst (b_start dec (recover adv (w_fs (fst (b_run enc dec norm b_w0 evs))))) = SLoaded (p_mem p).
Proof. exact intact_recovers_memory_proof. Qed.

(* P1.  Every public mutator either leaves the memory unchanged or calls
   __save ("save skipped on change" is impossible). *)
Theorem mutators_save_on_change :
  forall norm s a s' r, mutate norm s a = (s', false, r) -> s' = s.
Proof. exact mutate_nosave_same. Qed.

(* While asynchronous no call writes anything. *)
Theorem async_defers :
  forall norm (p : proc state) pc p' r sv,
  proc_step state api ret (mutate norm) p pc = (p', r, sv) -> (0 < p_async p')%nat -> sv = None.
Proof. exact async_defers_proof. Qed.

(* P2.  Adler-32 trailer: a completely written file always verifies; a file
   shorter than the trailer and a zero-filled file of any length never do. *)
Theorem sealed_file_verifies : forall p, verify_ok (seal p) = true.
Proof. exact verify_seal_proof. Qed.

Theorem short_file_rejected : forall d, (length d < 4)%nat -> verify_ok d = false.
Proof. exact short_file_rejected_proof. Qed.

Theorem zero_file_rejected : forall n, verify_ok (repeat 0 n) = false.
Proof. exact zero_file_rejected_proof. Qed.

(* P2.  A single changed byte of the payload is always detected. *)
Theorem adler_detects_single_byte : forall l1 x y l2,
  x < 256 -> y < 256 -> x <> y ->
  verify_ok (l1 ++ y :: l2 ++ le32 (adler32 (l1 ++ x :: l2))) = false.
Proof. exact adler_detects_single_byte_proof. Qed.

(* The assumption on the opaque pickle is satisfiable for the model state
   (a self-delimiting serialisation exists), so P1 is not vacuous ... *)
Theorem pickle_assumption_satisfiable : forall s, ser_dec (seal (ser_enc s)) = Some s.
Proof. exact ser_dec_enc. Qed.

(* ... and P1 instantiated with it has no hypothesis left but [detectable]. *)
Theorem recover_is_saved_snapshot_closed :
  forall (norm : key -> key) (evs : list bevent),
  b_detectable_run ser_enc ser_dec norm b_w0 evs ->
  w_proc (fst (b_run ser_enc ser_dec norm b_w0 evs)) = None ->
  exists s, fst (b_start ser_dec (w_fs (fst (b_run ser_enc ser_dec norm b_w0 evs)))) = SLoaded s /\
            In s (b_candidates [init_state] (snd (b_run ser_enc ser_dec norm b_w0 evs))).
Proof. exact (fun norm => recover_is_saved_snapshot_proof ser_enc ser_dec norm ser_dec_enc). Qed.

(* ---- non-vacuity: concrete histories, evaluated *)

(* the model's hard-wired constants are those of the current source *)
Example source_constants_match_model : model_consts_ok = true.
Proof. vm_compute. reflexivity. Qed.

(* two invocations; the second saved 8, then crashes between the write of
   the .dirty file and its rename while saving 9; the uncommitted file (8) is
   found truncated to three bytes: the start discards it and loads 7 *)
Example recover_nonvacuous_torn :
  let adv := fun n => match n with NNew => firstn 3 (seal (toy_enc (toy_state 8))) | _ => [255] end in
  let evs := [ECmd CStart; ECmd (toy_set 7); ECmd CFinalize; ECmd CStart; ECmd (toy_set 8);
              ECrashDuring (toy_set 9) 1 adv] in
  b_detectable_run toy_enc toy_dec toy_norm b_w0 evs /\
  w_proc (fst (b_run toy_enc toy_dec toy_norm b_w0 evs)) = None /\
  fst (b_start toy_dec (w_fs (fst (b_run toy_enc toy_dec toy_norm b_w0 evs)))) = SLoaded (toy_state 7) /\
  b_candidates [init_state] (snd (b_run toy_enc toy_dec toy_norm b_w0 evs)) = [toy_state 7; toy_state 8; toy_state 9].
Proof.
  cbv zeta. split; [|vm_compute; auto].
  vm_compute. repeat split. intros _. right. reflexivity.
Qed.

(* the same crash with the uncommitted file intact: 8 is recovered *)
Example recover_nonvacuous_intact :
  let adv := fun n => match n with NNew => seal (toy_enc (toy_state 8)) | _ => [255] end in
  let evs := [ECmd CStart; ECmd (toy_set 7); ECmd CFinalize; ECmd CStart; ECmd (toy_set 8);
              ECrashDuring (toy_set 9) 1 adv] in
  b_detectable_run toy_enc toy_dec toy_norm b_w0 evs /\
  fst (b_start toy_dec (w_fs (fst (b_run toy_enc toy_dec toy_norm b_w0 evs)))) = SLoaded (toy_state 8).
Proof.
  cbv zeta. split; [|vm_compute; auto].
  vm_compute. repeat split. intros _. left. reflexivity.
Qed.

(* crash inside the recovery (after its fsync, before its rename), then recovery again *)
Example recover_nonvacuous_crash_during_recovery :
  let adv := fun n => match n with NNew => seal (toy_enc (toy_state 8)) | _ => [255] end in
  let evs := [ECmd CStart; ECmd (toy_set 8); ECrashDuring CFinalize 0 adv; ECrashDuring CStart 2 (fun _ => [])] in
  b_detectable_run toy_enc toy_dec toy_norm b_w0 evs /\
  fst (b_start toy_dec (w_fs (fst (b_run toy_enc toy_dec toy_norm b_w0 evs)))) = SLoaded (toy_state 8).
Proof.
  cbv zeta. split; [|vm_compute; auto].
  vm_compute. repeat split; try (intros _; left; reflexivity). intros H; discriminate H.
Qed.

(* a live instance keeps a second one out *)
Example single_writer_nonvacuous :
  let evs := [ECmd CStart; ECmd (toy_set 7)] in
  (exists p, w_proc (fst (b_run toy_enc toy_dec toy_norm b_w0 evs)) = Some p) /\
  b_start toy_dec (w_fs (fst (b_run toy_enc toy_dec toy_norm b_w0 evs))) = (SRefused, []).
Proof. cbv zeta. split; [eexists|]; vm_compute; reflexivity. Qed.

(* the assumption [detectable] cannot be dropped: a garbage block that
   happens to carry a correct Adler-32 trailer (here of the one-byte payload 2;
   for the real code e.g. the four bytes 01 00 00 00, the trailer of the empty
   payload) is committed when found in the uncommitted file and the start
   fails *)
Example detectable_is_needed :
  verify_ok [1; 0; 0; 0] = true /\ verify_ok [2; 3; 0; 3; 0] = true /\
  let evs := [ECmd CStart; ECmd (toy_set 7); ECrashDuring CFinalize 0 (fun _ => [2; 3; 0; 3; 0])] in
  fst (b_start toy_dec (w_fs (fst (b_run toy_enc toy_dec toy_norm b_w0 evs)))) = SLoadError.
Proof. repeat split; vm_compute; reflexivity. Qed.

(* asynchronous sections: two changes, one save when the section is left *)
Example async_nonvacuous :
  let evs := [ECmd CStart; ECmd (CProc PAsync); ECmd (toy_set 7); ECmd (toy_set 8); ECmd (CProc PSync)] in
  b_candidates [init_state] (snd (b_run toy_enc toy_dec toy_norm b_w0 evs)) = [init_state; toy_state 8].
Proof. vm_compute. reflexivity. Qed.
