(* SHA-1 over byte lists (list N), executable with vm_compute.  Used only to
   *run* models against the implementation; theorems quantify over an
   abstract hash function.  Test vectors at the end. *)
From Coq Require Import List NArith.
Import ListNotations.
Open Scope N_scope.

Definition mask32 : N := 4294967295.
Definition add32 (a b : N) : N := N.land (a + b) mask32.
Definition rotl (n x : N) : N := N.land (N.lor (N.shiftl x n) (N.shiftr x (32 - n))) mask32.
Definition not32 (x : N) : N := N.lxor x mask32.

Fixpoint words_of (bs : list N) : list N :=
  match bs with
  | a :: b :: c :: d :: r => (N.shiftl a 24 + N.shiftl b 16 + N.shiftl c 8 + d) :: words_of r
  | _ => []
  end.

Definition be_bytes32 (w : N) : list N :=
  [N.land (N.shiftr w 24) 255; N.land (N.shiftr w 16) 255; N.land (N.shiftr w 8) 255; N.land w 255].

Definition be_bytes64 (w : N) : list N :=
  be_bytes32 (N.shiftr w 32) ++ be_bytes32 (N.land w mask32).

Definition nthN (l : list N) (k : nat) : N := nth k l 0.

Definition fk (t : nat) (b c d : N) : N * N :=
  if Nat.ltb t 20 then (N.lor (N.land b c) (N.land (not32 b) d), 1518500249)
  else if Nat.ltb t 40 then (N.lxor (N.lxor b c) d, 1859775393)
  else if Nat.ltb t 60 then (N.lor (N.lor (N.land b c) (N.land b d)) (N.land c d), 2400959708)
  else (N.lxor (N.lxor b c) d, 3395469782).

(* win: the last 16 schedule words, most recent first; pending: words of the
   block not yet consumed (for t < 16) *)
Fixpoint rounds (n : nat) (t : nat) (pending win : list N) (a b c d e : N) : N * N * N * N * N :=
  match n with
  | O => (a, b, c, d, e)
  | S n' =>
    let '(w, pending') :=
        match pending with
        | x :: r => (x, r)
        | [] => (rotl 1 (N.lxor (N.lxor (nthN win 2) (nthN win 7)) (N.lxor (nthN win 13) (nthN win 15))), [])
        end in
    let '(f, k) := fk t b c d in
    let temp := add32 (add32 (add32 (add32 (rotl 5 a) f) e) k) w in
    rounds n' (S t) pending' (w :: firstn 15 win) temp a (rotl 30 b) c d
  end.

Definition process_block (h : N * N * N * N * N) (block : list N) : N * N * N * N * N :=
  let '(h0, h1, h2, h3, h4) := h in
  let '(a, b, c, d, e) := rounds 80 0 (words_of block) [] h0 h1 h2 h3 h4 in
  (add32 h0 a, add32 h1 b, add32 h2 c, add32 h3 d, add32 h4 e).

Fixpoint blocks (fuel : nat) (bs : list N) (h : N * N * N * N * N) : N * N * N * N * N :=
  match fuel with
  | O => h
  | S f =>
    match bs with
    | [] => h
    | _ => blocks f (skipn 64 bs) (process_block h (firstn 64 bs))
    end
  end.

Definition pad (msg : list N) : list N :=
  let len := N.of_nat (length msg) in
  let k := (119 - (len mod 64)) mod 64 in   (* zeros so that len + 1 + k = 56 mod 64 *)
  msg ++ [128] ++ repeat 0 (N.to_nat k) ++ be_bytes64 (8 * len).

Definition sha1 (msg : list N) : list N :=
  let p := pad msg in
  let '(h0, h1, h2, h3, h4) :=
      blocks (S (length p)) p (1732584193, 4023233417, 2562383102, 271733878, 3285377520) in
  be_bytes32 h0 ++ be_bytes32 h1 ++ be_bytes32 h2 ++ be_bytes32 h3 ++ be_bytes32 h4.

Example sha1_empty : sha1 [] =
  [218;57;163;238;94;107;75;13;50;85;191;239;149;96;24;144;175;216;7;9].
Proof. vm_compute. reflexivity. Qed.

Example sha1_abc : sha1 [97;98;99] =
  [169;153;62;54;71;6;129;106;186;62;37;113;120;80;194;108;156;208;216;157].
Proof. vm_compute. reflexivity. Qed.

(* 56 bytes: forces a second block *)
Example sha1_two_blocks :
  sha1 [97;98;99;100;98;99;100;101;99;100;101;102;100;101;102;103;101;102;103;104;102;103;104;105;103;104;105;106;104;105;106;107;105;106;107;108;106;107;108;109;107;108;109;110;108;109;110;111;109;110;111;112;110;111;112;113] =
  [132;152;62;68;28;59;210;110;186;174;74;161;249;81;41;229;229;70;112;241].
Proof. vm_compute. reflexivity. Qed.
