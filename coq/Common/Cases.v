(* Helpers used by generated case files: boolean equalities and the
   mismatch collector.  Definitions only. *)
From Coq Require Import List NArith Bool.
Import ListNotations.

Fixpoint eqb_list {A} (e : A -> A -> bool) (a b : list A) : bool :=
  match a, b with
  | [], [] => true
  | x :: a', y :: b' => e x y && eqb_list e a' b'
  | _, _ => false
  end.

Definition eqb_option {A} (e : A -> A -> bool) (a b : option A) : bool :=
  match a, b with
  | None, None => true
  | Some x, Some y => e x y
  | _, _ => false
  end.

Definition eqb_prod {A B} (ea : A -> A -> bool) (eb : B -> B -> bool) (a b : A * B) : bool :=
  ea (fst a) (fst b) && eb (snd a) (snd b).

Definition eqb_str : list N -> list N -> bool := eqb_list N.eqb.
Definition eqb_strs : list (list N) -> list (list N) -> bool := eqb_list eqb_str.

Fixpoint mismatches_from {I O} (ok : I -> O -> bool) (cs : list (I * O)) (k : N) : list N :=
  match cs with
  | [] => []
  | (i, o) :: r => if ok i o then mismatches_from ok r (N.succ k) else k :: mismatches_from ok r (N.succ k)
  end.

Definition mismatches {I O} (ok : I -> O -> bool) (cs : list (I * O)) : list N :=
  mismatches_from ok cs 0%N.
