(* C07 — proofs about the download decision logic. *)
From Coq Require Import List NArith Bool Lia.
Require Import BobV.Common.Cases BobV.C07.Model BobV.C07.Spec.
Import ListNotations.
Open Scope N_scope.

(* ------------------------------------------------------------------ basics *)
Lemma beqb_eq a b : beqb a b = true <-> a = b.
Proof.
  unfold beqb. revert b. induction a as [|x a IH]; intros [|y b]; cbn; split; intros H; try easy.
  - apply andb_true_iff in H. destruct H as [H1 H2]. apply N.eqb_eq in H1. apply IH in H2. now subst.
  - inversion H; subst. apply andb_true_iff. split; [apply N.eqb_refl | now apply IH].
Qed.

Lemma beqb_refl a : beqb a a = true.
Proof. now apply beqb_eq. Qed.

Lemma beqb_neq a b : beqb a b = false <-> a <> b.
Proof.
  split; intros H.
  - intros E. apply beqb_eq in E. congruence.
  - destruct (beqb a b) eqn:E; [|reflexivity]. apply beqb_eq in E. contradiction.
Qed.

Lemma eqb_list_beqb_eq a b : eqb_list beqb a b = true -> a = b.
Proof.
  revert b. induction a as [|x a IH]; intros [|y b]; cbn; intros H; try easy.
  apply andb_true_iff in H. destruct H as [H1 H2]. apply beqb_eq in H1. apply IH in H2. now subst.
Qed.

Lemma memN_In k l : memN k l = true <-> In k l.
Proof.
  induction l as [|x l IH]; cbn; [easy|]. rewrite orb_true_iff, IH, N.eqb_eq. split; intros [H|H]; auto.
Qed.

Lemma lookupB_cons_same {A} k (v : A) l : lookupB k ((k, v) :: l) = Some v.
Proof. cbn. now rewrite beqb_refl. Qed.

Lemma lookupB_cons_other {A} k k' (v : A) l : k <> k' -> lookupB k ((k', v) :: l) = lookupB k l.
Proof. intros H. cbn. apply beqb_neq in H. now rewrite H. Qed.

Lemma lookupN_cons_same {A} k (v : A) l : lookupN k ((k, v) :: l) = Some v.
Proof. cbn. now rewrite N.eqb_refl. Qed.

Lemma lookupN_cons_other {A} k k' (v : A) l : k <> k' -> lookupN k ((k', v) :: l) = lookupN k l.
Proof. intros H. cbn. apply N.eqb_neq in H. now rewrite H. Qed.

Lemma getws_putws_same id w st : getws id (putws id w st) = w.
Proof. unfold getws, putws. cbn. now rewrite N.eqb_refl. Qed.

Lemma getws_putws_other id id' w st : id' <> id -> getws id' (putws id w st) = getws id' st.
Proof. intros H. unfold getws, putws. cbn. apply N.eqb_neq in H. now rewrite H. Qed.

Lemma getws_ev id e st : getws id (ev e st) = getws id st.
Proof. reflexivity. Qed.

(* ------------------------------------------------------------------ trees *)
Scheme pkg_mind := Induction for pkg Sort Prop
  with items_mind := Induction for items Sort Prop.
Combined Scheme pkg_items_mutind from pkg_mind, items_mind.

Fixpoint kids (its : items) : list pkg :=
  match its with
  | INil => []
  | ISrc rest => kids rest
  | IDep q _ _ rest => q :: kids rest
  end.

Lemma nodes_self p : In p (nodes p).
Proof. destruct p. cbn. now left. Qed.

Lemma nodes_trans :
  (forall p q x, In q (nodes p) -> In x (nodes q) -> In x (nodes p)) /\
  (forall its q x, In q (nodes_items its) -> In x (nodes q) -> In x (nodes_items its)).
Proof.
  apply pkg_items_mutind.
  - intros r its IH q x Hq Hx. cbn in Hq. destruct Hq as [<-|Hq]; [exact Hx|].
    cbn. right. eapply IH; eauto.
  - intros q x [].
  - intros rest IH q x Hq Hx. cbn in *. eauto.
  - intros p IHp weak dd rest IHr q x Hq Hx. cbn in *. apply in_app_iff in Hq. apply in_app_iff.
    destruct Hq as [Hq|Hq]; [left; eapply IHp; eauto | right; eapply IHr; eauto].
Qed.

Lemma kids_in_nodes its q : In q (kids its) -> In q (nodes_items its).
Proof.
  induction its as [|rest IH|p weak dd rest IH]; cbn; try easy.
  intros [<-|H]; apply in_app_iff; [left; apply nodes_self | right; auto].
Qed.

Lemma items_in_pkg r its q : In q (nodes_items its) -> In q (nodes (Pkg r its)).
Proof. intros H. cbn. now right. Qed.

Fixpoint psize (p : pkg) : nat :=
  match p with Pkg _ its => S (isize its) end
with isize (its : items) : nat :=
  match its with
  | INil => O
  | ISrc rest => isize rest
  | IDep q _ _ rest => (psize q + isize rest)%nat
  end.

Lemma nodes_size :
  (forall p q, In q (nodes p) -> (psize q <= psize p)%nat) /\
  (forall its q, In q (nodes_items its) -> (psize q <= isize its)%nat).
Proof.
  apply pkg_items_mutind.
  - intros r its IH q [<-|H]; [lia|]. apply IH in H. cbn. lia.
  - intros q [].
  - intros rest IH q H. cbn in *. auto.
  - intros p IHp weak dd rest IHr q H. cbn in *. apply in_app_iff in H. destruct H as [H|H].
    + apply IHp in H. lia.
    + apply IHr in H. lia.
Qed.

Lemma not_own_descendant r its : ~ In (Pkg r its) (nodes_items its).
Proof. intros H. apply (proj2 nodes_size) in H. cbn in H. lia. Qed.

Section Frames.
  Variable hashW : bytes -> bytes.
  Variable bidf : recipe -> option bytes -> list bytes -> bytes.
  Variable run_build : recipe -> list bytes -> bytes.
  Variable run_pkg : recipe -> bytes -> bytes.
  Variable c : cfg.

  Local Notation cook := (cook hashW bidf run_build run_pkg c).
  Local Notation cook_items := (cook_items hashW bidf run_build run_pkg c).
  Local Notation get_bid := (get_bid bidf c).
  Local Notation get_bid_items := (get_bid_items bidf c).
  Local Notation download := (download hashW c).
  Local Notation local_step := (local_step hashW run_build run_pkg c).

  (* ---- unfolding of one package step *)
  Definition dl_phase (r : recipe) (d : N) (b : bytes) (st2 : state) : dlres :=
    if memN (r_id r) (tried st2) then DlDone false st2
    else match download r d b st2 with
         | DlDone g s => DlDone g (set_tried s (r_id r :: tried s))
         | e => e
         end.

  Definition finish (r : recipe) (its : items) (d : N) (b : bytes) (s1 : state) : res :=
    if memN (r_id r) (wasrun s1) then Ok s1 else
    let '(built, s2) := local_step r its b s1 in
    let s3 := set_wasrun s2 (r_id r :: wasrun s2) in
    Ok (if built then upload c r d b s3 else s3).

  Lemma cook_eq d r its st :
    cook d (Pkg r its) st =
    if memN (r_id r) (wasrun st) then Ok st else
    let st1 := unshare r (prepare r st) in
    let '(b, st2) := get_bid (Pkg r its) st1 in
    match dl_phase r d b st2 with
    | DlErr e s => Err e s
    | DlDone true s => Ok (set_wasrun s (r_id r :: wasrun s))
    | DlDone false s =>
      match cook_items d r its s with
      | Ok s1 => finish r its d b s1
      | other => other
      end
    end.
  Proof. reflexivity. Qed.

  (* ---- what the Build-Id phase leaves alone *)
  Definition keeps (st st' : state) : Prop :=
    ws st' = ws st /\ wasrun st' = wasrun st /\ tried st' = tried st /\ arch st' = arch st.

  Lemma keeps_refl st : keeps st st.
  Proof. repeat split. Qed.

  Lemma keeps_trans a b d : keeps a b -> keeps b d -> keeps a d.
  Proof. unfold keeps. intros (A1 & A2 & A3 & A4) (B1 & B2 & B3 & B4). repeat split; congruence. Qed.

  Lemma do_checkout_keeps r st : keeps st (do_checkout c r st).
  Proof.
    unfold do_checkout. destruct (memN (r_src r) (corun st)); [apply keeps_refl|].
    destruct (negb (memN (r_src r) (srcx st)) && c_can_upload c && r_haslive r); [destruct (r_livecalc r)|]; repeat split.
  Qed.

  Lemma translate_keeps l st t s : translate c l st = (t, s) -> keeps st s.
  Proof.
    unfold translate. destruct (lookupB l (trc st)); [intros E; inversion E; apply keeps_refl|].
    destruct (c_can_download c); [destruct (lookupB l (archl st))|]; intros E; inversion E; repeat split.
  Qed.

  Lemma keeps_ev e st : keeps st (ev e st).
  Proof. repeat split. Qed.

  Lemma keeps_set_srcids st x : keeps st (set_srcids st x).
  Proof. repeat split. Qed.

  Lemma src_bid_keeps r st b s : src_bid c r st = (b, s) -> keeps st s.
  Proof.
    unfold src_bid. destruct (lookupN (r_src r) (srcids st)) as [[b0 pr]|]; [intros E; inversion E; apply keeps_refl|].
    destruct (negb (memN (r_src r) (srcx st)) && r_haslive r && c_can_download c).
    - destruct (match r_live r with Some l => translate c l st | None => (None, st) end) as [t s0] eqn:T.
      assert (K0 : keeps st s0).
      { destruct (r_live r) as [l|]; [eapply translate_keeps; eauto | inversion T; apply keeps_refl]. }
      destruct t; intros E; inversion E; subst.
      + eapply keeps_trans; [exact K0|]. eapply keeps_trans; [apply keeps_ev | apply keeps_set_srcids].
      + eapply keeps_trans; [exact K0|]. eapply keeps_trans; [apply keeps_ev|].
        eapply keeps_trans; [apply (do_checkout_keeps r) | apply keeps_set_srcids].
    - intros E; inversion E; subst.
      eapply keeps_trans; [apply (do_checkout_keeps r) | apply keeps_set_srcids].
  Qed.

  Lemma get_bid_eq r its st :
    get_bid (Pkg r its) st =
    match lookupN (r_id r) (bdids st) with
    | Some b => (b, st)
    | None =>
      let '(sb, kb, st1) := get_bid_items r its st in
      (bidf r sb kb, set_bdids st1 ((r_id r, bidf r sb kb) :: bdids st1))
    end.
  Proof. reflexivity. Qed.

  Lemma get_bid_items_nil r st : get_bid_items r INil st = (None, [], st).
  Proof. reflexivity. Qed.

  Lemma get_bid_items_src r rest st :
    get_bid_items r (ISrc rest) st =
    let '(b, st1) := src_bid c r st in
    let '(_, kb, st2) := get_bid_items r rest st1 in (Some b, kb, st2).
  Proof. reflexivity. Qed.

  Lemma get_bid_items_dep r q weak dd rest st :
    get_bid_items r (IDep q weak dd rest) st =
    let '(b, st1) := get_bid q st in
    let '(sb, kb, st2) := get_bid_items r rest st1 in
    (sb, if weak then kb else b :: kb, st2).
  Proof. reflexivity. Qed.

  Lemma cook_items_nil d r st : cook_items d r INil st = Ok st.
  Proof. reflexivity. Qed.

  Lemma cook_items_src d r rest st :
    cook_items d r (ISrc rest) st =
    match cook_checkout c r st with Ok s => cook_items d r rest s | other => other end.
  Proof. reflexivity. Qed.

  Lemma cook_items_dep d r q weak dd rest st :
    cook_items d r (IDep q weak dd rest) st =
    match cook (d + dd) q st with Ok s => cook_items d r rest s | other => other end.
  Proof. reflexivity. Qed.

  Lemma get_bid_keeps :
    (forall p st b s, get_bid p st = (b, s) -> keeps st s) /\
    (forall its r st sb kb s, get_bid_items r its st = (sb, kb, s) -> keeps st s).
  Proof.
    apply pkg_items_mutind.
    - intros r its IH st b s. rewrite get_bid_eq.
      destruct (lookupN (r_id r) (bdids st)); [intros E; inversion E; apply keeps_refl|].
      destruct (get_bid_items r its st) as [[sb kb] s1] eqn:G. intros E; inversion E; subst.
      eapply keeps_trans; [eapply IH; eauto|]. repeat split.
    - intros r st sb kb s E. rewrite get_bid_items_nil in E. inversion E. apply keeps_refl.
    - intros rest IH r st sb kb s. rewrite get_bid_items_src.
      destruct (src_bid c r st) as [b s1] eqn:S. destruct (get_bid_items r rest s1) as [[sb' kb'] s2] eqn:G.
      intros E; inversion E; subst. eapply keeps_trans; [eapply src_bid_keeps; eauto | eapply IH; eauto].
    - intros p IHp weak dd rest IHr r st sb kb s. rewrite get_bid_items_dep.
      destruct (get_bid p st) as [b s1] eqn:G1. destruct (get_bid_items r rest s1) as [[sb' kb'] s2] eqn:G2.
      intros E; inversion E; subst. eapply keeps_trans; [eapply IHp; eauto | eapply IHr; eauto].
  Qed.

  (* ---- which workspaces and "was run" entries one package step can touch *)
  Definition sub_ids (p : pkg) : list label := map pid (nodes p).
  Definition sub_ids_items (its : items) : list label := map pid (nodes_items its).

  Definition frame (S : list label) (st st' : state) : Prop :=
    (forall id, ~ In id S -> getws id st' = getws id st) /\
    (forall id, ~ In id S -> memN id (wasrun st') = true -> memN id (wasrun st) = true).

  Lemma frame_refl S st : frame S st st.
  Proof. split; auto. Qed.

  Lemma frame_trans S a b d : frame S a b -> frame S b d -> frame S a d.
  Proof. intros [A1 A2] [B1 B2]. split; intros id H; [rewrite B1, A1 | intros M]; auto. Qed.

  Lemma frame_incl S S' a b : incl S S' -> frame S a b -> frame S' a b.
  Proof. intros I [A1 A2]. split; intros id H; [apply A1 | apply A2]; intros X; apply H, I, X. Qed.

  Lemma keeps_frame S a b : keeps a b -> frame S a b.
  Proof. intros (K1 & K2 & _). unfold frame, getws. rewrite K1, K2. split; auto. Qed.

  Lemma frame_putws id w st : frame [id] st (putws id w st).
  Proof.
    split; intros id' H; [|auto]. apply getws_putws_other. intros E. apply H. now left.
  Qed.

  Lemma frame_ev S e st : frame S st (ev e st).
  Proof. split; auto. Qed.

  Lemma frame_set_wasrun id st : frame [id] st (set_wasrun st (id :: wasrun st)).
  Proof.
    split; intros id' H; [reflexivity|]. cbn. intros M. apply orb_true_iff in M. destruct M as [M|M]; [|exact M].
    apply N.eqb_eq in M. exfalso. apply H. now left.
  Qed.

  Lemma frame_set_tried S st x : frame S st (set_tried st x).
  Proof. split; auto. Qed.

  (* [upd id st s]: s is st except for the workspace [id] and the trace *)
  Definition upd (id : label) (st s : state) : Prop :=
    (forall id', id' <> id -> getws id' s = getws id' st) /\
    srcx s = srcx st /\ trc s = trc st /\ arch s = arch st /\ archl s = archl st /\
    wasrun s = wasrun st /\ corun s = corun st /\ tried s = tried st /\
    srcids s = srcids st /\ bdids s = bdids st.

  Lemma upd_refl id st : upd id st st.
  Proof. repeat split. Qed.

  Lemma upd_trans id a b d : upd id a b -> upd id b d -> upd id a d.
  Proof.
    intros (A0 & A1 & A2 & A3 & A4 & A5 & A6 & A7 & A8 & A9) (B0 & B1 & B2 & B3 & B4 & B5 & B6 & B7 & B8 & B9).
    split; [intros id' H; rewrite B0, A0; auto|]. repeat split; congruence.
  Qed.

  Lemma upd_putws id w st : upd id st (putws id w st).
  Proof. split; [intros id' H; now apply getws_putws_other|]. repeat split. Qed.

  Lemma upd_ev id e st : upd id st (ev e st).
  Proof. repeat split. Qed.

  Lemma upd_frame id st s : upd id st s -> frame [id] st s.
  Proof.
    intros (A0 & _ & _ & _ & _ & A5 & _). split; intros id' H.
    - apply A0. intros E. apply H. now left.
    - now rewrite A5.
  Qed.

  Lemma prepare_upd r st : upd (r_id r) st (prepare r st).
  Proof.
    unfold prepare.
    destruct (w_exists (getws (r_id r) st) && negb (eqb_option N.eqb (s_vid (getws (r_id r) st)) (Some (r_vid r)))).
    - eapply upd_trans; [apply upd_ev | apply upd_putws].
    - destruct (w_exists (getws (r_id r) st)); [apply upd_refl | apply upd_putws].
  Qed.

  Lemma unshare_upd r st : upd (r_id r) st (unshare r st).
  Proof.
    unfold unshare. destruct (d_shared (dissect (s_inputs (getws (r_id r) st)))); [|apply upd_refl].
    eapply upd_trans; [apply upd_ev | apply upd_putws].
  Qed.

  Lemma dl_check_upd r b a w1 st2 :
    match dl_check hashW r b a w1 st2 with DlDone _ s | DlErr _ s => upd (r_id r) st2 s end.
  Proof.
    unfold dl_check. destruct (a_audit a) as [h|]; [destruct (beqb h (hashW (a_content a)))|]; apply upd_putws.
  Qed.

  Lemma dl_fetch_upd r d b wd w1 st1 :
    match dl_fetch hashW c r d b wd w1 st1 with DlDone _ s | DlErr _ s => upd (r_id r) st1 s end.
  Proof.
    unfold dl_fetch. destruct (s_result w1).
    - destruct wd; [eapply upd_trans; [apply upd_putws | apply upd_ev] | apply upd_putws].
    - destruct (if c_can_download c then lookupB b (arch st1) else None) as [a|].
      + pose proof (dl_check_upd r b a w1 (ev (EDownload (r_id r) true) st1)) as U.
        destruct (dl_check hashW r b a w1 (ev (EDownload (r_id r) true) st1));
          (eapply upd_trans; [apply upd_ev | exact U]).
      + destruct (c_force_depth c <=? d); destruct (c_can_download c);
          try (eapply upd_trans; [apply upd_ev | apply upd_putws]); apply upd_putws.
  Qed.

  Lemma download_upd r d b st :
    match download r d b st with DlDone _ s | DlErr _ s => upd (r_id r) st s end.
  Proof.
    unfold Model.download. destruct (negb (try_download c r d)); [apply upd_refl|].
    cbn zeta.
    set (ds := dissect (s_inputs (getws (r_id r) st))).
    destruct (bid_differs ds b || c_force c).
    - set (e := EPrune (r_id r) (if bid_differs ds b then PrBuildId else PrForced)).
      pose proof (dl_fetch_upd r d b (d_down ds) (pruned_pws r (getws (r_id r) st)) (ev e st)) as U.
      destruct (dl_fetch hashW c r d b (d_down ds) (pruned_pws r (getws (r_id r) st)) (ev e st));
        (eapply upd_trans; [apply upd_ev | exact U]).
    - apply dl_fetch_upd.
  Qed.

  Lemma local_step_upd r its b st : upd (r_id r) st (snd (local_step r its b st)).
  Proof.
    unfold Model.local_step.
    match goal with |- context [if ?X then _ else _] => destruct X end; cbn [snd];
      (eapply upd_trans; [apply upd_putws | apply upd_ev]).
  Qed.

  Lemma prepare_frame r st : frame [r_id r] st (prepare r st).
  Proof. apply upd_frame, prepare_upd. Qed.

  Lemma unshare_frame r st : frame [r_id r] st (unshare r st).
  Proof. apply upd_frame, unshare_upd. Qed.

  Lemma download_frame r d b st :
    match download r d b st with DlDone _ s | DlErr _ s => frame [r_id r] st s end.
  Proof. pose proof (download_upd r d b st) as U. destruct (download r d b st); now apply upd_frame. Qed.

  Lemma local_step_frame r its b st : frame [r_id r] st (snd (local_step r its b st)).
  Proof. apply upd_frame, local_step_upd. Qed.

  Lemma upload_frame S r d b st : frame S st (upload c r d b st).
  Proof.
    unfold upload. destruct (c_can_upload c && (d <=? c_upload_depth c)); [|apply frame_refl].
    destruct (lookupB b (arch st)); split; auto.
  Qed.

  Lemma cook_checkout_frame S r st :
    match cook_checkout c r st with Ok s | Restart s | Err _ s => frame S st s | _ => True end.
  Proof.
    unfold cook_checkout. destruct (memN (r_src r) (corun st)); [apply frame_refl|].
    unfold verify_src. pose proof (keeps_frame S _ _ (do_checkout_keeps r st)) as K.
    destruct (lookupN (r_src r) (srcids (do_checkout c r st))) as [[b pr]|]; [|exact K].
    destruct (beqb b (r_srcid r)); [exact K|]. destruct pr; [|exact I].
    eapply frame_trans; [exact K|]. split; [reflexivity|]. cbn. discriminate.
  Qed.

  Definition res_frame (S : list label) (st : state) (x : res) : Prop :=
    match x with Ok s | Restart s | Err _ s => frame S st s | _ => True end.

  Lemma dl_phase_frame r d b st :
    match dl_phase r d b st with DlDone _ s | DlErr _ s => frame [r_id r] st s end.
  Proof.
    unfold dl_phase. destruct (memN (r_id r) (tried st)); [apply frame_refl|].
    pose proof (download_frame r d b st) as F. destruct (download r d b st); [|exact F].
    eapply frame_trans; [exact F | apply frame_set_tried].
  Qed.

  Lemma finish_frame r its d b s1 : res_frame [r_id r] s1 (finish r its d b s1).
  Proof.
    unfold finish. destruct (memN (r_id r) (wasrun s1)); [apply frame_refl|].
    pose proof (local_step_frame r its b s1) as F. destruct (local_step r its b s1) as [built s2]. cbn [snd] in F.
    cbn [res_frame]. eapply frame_trans; [exact F|].
    destruct built; [eapply frame_trans; [apply frame_set_wasrun | apply upload_frame] | apply frame_set_wasrun].
  Qed.

  Lemma cook_frame :
    (forall p d st, res_frame (sub_ids p) st (cook d p st)) /\
    (forall its d r st, res_frame (sub_ids_items its) st (cook_items d r its st)).
  Proof.
    apply pkg_items_mutind.
    - intros r its IH d st. rewrite cook_eq.
      assert (I1 : incl [r_id r] (sub_ids (Pkg r its))) by (intros x [<-|[]]; now left).
      assert (I2 : incl (sub_ids_items its) (sub_ids (Pkg r its))) by (intros x H; now right).
      destruct (memN (r_id r) (wasrun st)); [apply frame_refl|].
      cbn zeta.
      assert (F1 : frame (sub_ids (Pkg r its)) st (unshare r (prepare r st))).
      { eapply frame_incl; [exact I1|]. eapply frame_trans; [apply prepare_frame | apply unshare_frame]. }
      destruct (get_bid (Pkg r its) (unshare r (prepare r st))) as [b st2] eqn:G.
      apply (proj1 get_bid_keeps) in G. apply (keeps_frame (sub_ids (Pkg r its))) in G.
      pose proof (dl_phase_frame r d b st2) as F3.
      destruct (dl_phase r d b st2) as [got s|e s].
      + assert (F4 : frame (sub_ids (Pkg r its)) st s).
        { eapply frame_trans; [exact F1|]. eapply frame_trans; [exact G|]. eapply frame_incl; [exact I1 | exact F3]. }
        destruct got.
        * cbn [res_frame]. eapply frame_trans; [exact F4|]. eapply frame_incl; [exact I1 | apply frame_set_wasrun].
        * specialize (IH d r s). destruct (cook_items d r its s) as [s1|s1|e s1| |]; cbn [res_frame] in *; try exact I.
          -- pose proof (finish_frame r its d b s1) as F5.
             destruct (finish r its d b s1); cbn [res_frame] in *; try exact I;
               (eapply frame_trans; [exact F4|]; eapply frame_trans; [eapply frame_incl; [exact I2 | exact IH]|];
                eapply frame_incl; [exact I1 | exact F5]).
          -- eapply frame_trans; [exact F4 | eapply frame_incl; [exact I2 | exact IH]].
          -- eapply frame_trans; [exact F4 | eapply frame_incl; [exact I2 | exact IH]].
      + cbn [res_frame]. eapply frame_trans; [exact F1|]. eapply frame_trans; [exact G|]. eapply frame_incl; [exact I1 | exact F3].
    - intros d r st. apply frame_refl.
    - intros rest IH d r st. rewrite cook_items_src.
      pose proof (cook_checkout_frame (sub_ids_items rest) r st) as F.
      destruct (cook_checkout c r st) as [s|s|e s| |]; try exact F; try exact I.
      specialize (IH d r s). unfold sub_ids_items in *. cbn [nodes_items].
      destruct (cook_items d r rest s); cbn [res_frame] in *; try exact I; eapply frame_trans; eauto.
    - intros p IHp weak dd rest IHr d r st. rewrite cook_items_dep.
      assert (I1 : incl (sub_ids p) (sub_ids_items (IDep p weak dd rest))).
      { intros x H. unfold sub_ids_items. cbn [nodes_items]. rewrite map_app. apply in_app_iff. now left. }
      assert (I2 : incl (sub_ids_items rest) (sub_ids_items (IDep p weak dd rest))).
      { intros x H. unfold sub_ids_items. cbn [nodes_items]. rewrite map_app. apply in_app_iff. now right. }
      specialize (IHp (d + dd) st).
      destruct (cook (d + dd) p st) as [s|s|e s| |]; cbn [res_frame] in *; try exact I;
        try (eapply frame_incl; [exact I1 | exact IHp]).
      specialize (IHr d r s).
      destruct (cook_items d r rest s); cbn [res_frame] in *; try exact I;
        (eapply frame_trans; [eapply frame_incl; [exact I1 | exact IHp] | eapply frame_incl; [exact I2 | exact IHr]]).
  Qed.
End Frames.

(* ------------------------------------------------------------------ Build-Ids under beliefs *)
Section Beliefs.
  Variable bidf : recipe -> option bytes -> list bytes -> bytes.

  Lemma tbid_sa_ext :
    (forall p sa1 sa2,
        (forall x, In x (nodes p) -> has_src (items_of x) = true -> sa1 (r_src (recipe_of x)) = sa2 (r_src (recipe_of x))) ->
        tbid_sa bidf sa1 p = tbid_sa bidf sa2 p) /\
    (forall its sa1 sa2,
        (forall x, In x (nodes_items its) -> has_src (items_of x) = true -> sa1 (r_src (recipe_of x)) = sa2 (r_src (recipe_of x))) ->
        tbid_sa_items bidf sa1 its = tbid_sa_items bidf sa2 its).
  Proof.
    apply pkg_items_mutind.
    - intros r its IH sa1 sa2 H. cbn [tbid_sa]. f_equal.
      + destruct (has_src its) eqn:E; [|reflexivity]. f_equal.
        apply (H (Pkg r its)); [apply nodes_self | exact E].
      + apply IH. intros x Hx. apply H. cbn. now right.
    - reflexivity.
    - intros rest IH sa1 sa2 H. cbn [tbid_sa_items]. apply IH. exact H.
    - intros p IHp weak dd rest IHr sa1 sa2 H. cbn [tbid_sa_items].
      assert (E1 : tbid_sa_items bidf sa1 rest = tbid_sa_items bidf sa2 rest).
      { apply IHr. intros x Hx. apply H. cbn. apply in_app_iff. now right. }
      destruct weak; [exact E1|]. f_equal; [|exact E1].
      apply IHp. intros x Hx. apply H. cbn. apply in_app_iff. now left.
  Qed.

  Lemma tbid_sa_right :
    (forall p sa, right_on sa p -> tbid_sa bidf sa p = tbid bidf p) /\
    (forall its sa,
        (forall x, In x (nodes_items its) -> has_src (items_of x) = true -> sa (r_src (recipe_of x)) = r_srcid (recipe_of x)) ->
        tbid_sa_items bidf sa its = tbid_items bidf its).
  Proof.
    apply pkg_items_mutind.
    - intros r its IH sa H. cbn [tbid_sa tbid]. f_equal.
      + destruct (has_src its) eqn:E; [|reflexivity]. f_equal.
        apply (H (Pkg r its)); [apply nodes_self | exact E].
      + apply IH. intros x Hx. apply H. cbn. now right.
    - reflexivity.
    - intros rest IH sa H. cbn [tbid_sa_items tbid_items]. apply IH. exact H.
    - intros p IHp weak dd rest IHr sa H. cbn [tbid_sa_items tbid_items].
      assert (E1 : tbid_sa_items bidf sa rest = tbid_items bidf rest).
      { apply IHr. intros x Hx. apply H. cbn. apply in_app_iff. now right. }
      destruct weak; [exact E1|]. f_equal; [|exact E1].
      apply IHp. intros x Hx. apply H. cbn. apply in_app_iff. now left.
  Qed.
End Beliefs.

(* ------------------------------------------------------------------ the invariant *)
Section Correct.
  Variable hashW : bytes -> bytes.
  Variable bidf : recipe -> option bytes -> list bytes -> bytes.
  Variable run_build : recipe -> list bytes -> bytes.
  Variable run_pkg : recipe -> bytes -> bytes.
  Variable c : cfg.
  Variable root : pkg.
  (* [strict]: the live build-id translations are known to be right.  With
     [strict := True] this gives download_equals_local, with [strict := False]
     the convergence after wrong predictions. *)
  Variable strict : Prop.
  (* [allwf]: additionally track that every stored artifact is well-formed *)
  Variable allwf : Prop.

  Local Notation L := (local run_build run_pkg).
  Local Notation T := (tbid bidf).
  Local Notation Tsa := (tbid_sa bidf).
  Local Notation NN := (nodes root).
  Local Notation cook := (cook hashW bidf run_build run_pkg c).
  Local Notation cook_items := (cook_items hashW bidf run_build run_pkg c).
  Local Notation get_bid := (get_bid bidf c).
  Local Notation get_bid_items := (get_bid_items bidf c).
  Local Notation download := (download hashW c).
  Local Notation local_step := (local_step hashW run_build run_pkg c).
  Local Notation wellformed := (wellformed hashW).

  Hypothesis Huniq : uniq_ids root.
  Hypothesis Hsrc : src_consistent root.
  Hypothesis Hlive : strict -> live_consistent root.
  Hypothesis Hsound : strict -> ids_sound_in bidf run_build run_pkg root.
  Hypothesis Hup : strict \/ c_can_upload c = false.

  Definition sa_of (st : state) : label -> bytes :=
    fun id => match lookupN id (srcids st) with Some (b, _) => b | None => [] end.

  Definition covered (p : pkg) (st : state) : Prop :=
    forall q, In q (nodes p) -> has_src (items_of q) = true -> lookupN (r_src (recipe_of q)) (srcids st) <> None.

  Definition adm (sa : label -> bytes) (p : pkg) : Prop := strict -> right_on sa p.

  Definition trusted_g (p : pkg) (w : pws) : Prop :=
    s_vid w = Some (r_vid (recipe_of p)) ->
    match s_inputs w with
    | PvList (b :: ins) => ins = true_ins hashW run_build run_pkg p -> w_content w = L p
    | PvBytes b => (exists sa, adm sa p /\ b = Tsa sa p) -> w_content w = L p
    | _ => True
    end.

  Record Inv (st : state) : Prop := {
    inv_run : forall p, In p NN -> memN (pid p) (wasrun st) = true -> w_content (getws (pid p) st) = L p;
    inv_trust : forall p, In p NN -> trusted_g p (getws (pid p) st);
    inv_srcf : forall p b, In p NN -> has_src (items_of p) = true ->
                           lookupN (r_src (recipe_of p)) (srcids st) = Some (b, false) -> b = r_srcid (recipe_of p);
    inv_srcs : strict -> forall p b pr, In p NN -> has_src (items_of p) = true ->
                                        lookupN (r_src (recipe_of p)) (srcids st) = Some (b, pr) -> b = r_srcid (recipe_of p);
    inv_bd : forall p b, In p NN -> lookupN (pid p) (bdids st) = Some b -> b = Tsa (sa_of st) p /\ covered p st;
    inv_tr : strict -> translations_right root st;
    inv_arch : forall p sa a, In p NN -> adm sa p -> lookupB (Tsa sa p) (arch st) = Some a -> wellformed a ->
                              a_content a = L p;
    inv_wf : allwf -> all_wellformed hashW (arch st)
  }.

  Lemma node_of_id p q : In p NN -> In q NN -> pid p = pid q -> p = q.
  Proof. apply Huniq. Qed.

  Lemma sub_in p q : In p NN -> In q (nodes p) -> In q NN.
  Proof. intros Hp Hq. eapply (proj1 nodes_trans); eauto. Qed.

  (* ---- a change of one workspace *)
  Lemma Inv_upd id st s :
    Inv st -> upd id st s ->
    (forall p, In p NN -> pid p = id ->
               trusted_g p (getws id s) /\
               (memN id (wasrun st) = true -> w_content (getws id s) = L p)) ->
    Inv s.
  Proof.
    intros I (U0 & U1 & U2 & U3 & U4 & U5 & U6 & U7 & U8 & U9) H.
    assert (SA : sa_of s = sa_of st) by (unfold sa_of; now rewrite U8).
    constructor.
    - intros p Hp M. rewrite U5 in M. destruct (N.eq_dec (pid p) id) as [E|E].
      + rewrite E. apply (H p Hp E). now rewrite <- E.
      + rewrite U0 by exact E. now apply (inv_run st I).
    - intros p Hp. destruct (N.eq_dec (pid p) id) as [E|E].
      + rewrite E. now apply (H p Hp E).
      + rewrite U0 by exact E. now apply (inv_trust st I).
    - intros p b Hp. rewrite U8. now apply (inv_srcf st I).
    - intros S p b pr Hp. rewrite U8. now apply (inv_srcs st I S).
    - intros p b Hp. rewrite U9, SA. unfold covered. rewrite U8. now apply (inv_bd st I).
    - intros S p l x Hp Hl. rewrite U2, U4. now apply (inv_tr st I S).
    - intros p sa a Hp. rewrite U3. now apply (inv_arch st I).
    - rewrite U3. apply (inv_wf st I).
  Qed.

  Lemma Inv_ev e st : Inv st -> Inv (ev e st).
  Proof. intros I. destruct I. constructor; auto. Qed.

  Lemma Inv_set_tried st x : Inv st -> Inv (set_tried st x).
  Proof. intros I. destruct I. constructor; auto. Qed.

  Lemma Inv_set_wasrun st p :
    Inv st -> In p NN -> w_content (getws (pid p) st) = L p -> Inv (set_wasrun st (pid p :: wasrun st)).
  Proof.
    intros I Hp Hc. destruct I. constructor; auto.
    intros q Hq M. cbn in M. apply orb_true_iff in M. destruct M as [M|M].
    - apply N.eqb_eq in M. assert (q = p) by (apply node_of_id; auto). subst q. exact Hc.
    - now apply inv_run0.
  Qed.

  (* ---- source build-ids *)
  Definition grows (st s : state) : Prop :=
    forall id v, lookupN id (srcids st) = Some v -> lookupN id (srcids s) = Some v.

  Lemma grows_refl st : grows st st.
  Proof. intros id v H. exact H. Qed.

  Lemma grows_trans a b d : grows a b -> grows b d -> grows a d.
  Proof. intros A B id v H. apply B, A, H. Qed.

  Lemma grows_covered p st s : grows st s -> covered p st -> covered p s.
  Proof.
    intros G C q Hq Hs. specialize (C q Hq Hs). destruct (lookupN (r_src (recipe_of q)) (srcids st)) as [v|] eqn:E; [|congruence].
    rewrite (G _ _ E). discriminate.
  Qed.

  Lemma grows_tsa p st s : grows st s -> covered p st -> Tsa (sa_of s) p = Tsa (sa_of st) p.
  Proof.
    intros G C. apply (proj1 (tbid_sa_ext bidf)). intros x Hx Hs. specialize (C x Hx Hs). unfold sa_of.
    destruct (lookupN (r_src (recipe_of x)) (srcids st)) as [v|] eqn:E; [|congruence]. now rewrite (G _ _ E).
  Qed.

  (* a state that differs from st in the source tables only *)
  Definition src_step (st s : state) : Prop :=
    keeps st s /\ grows st s /\ bdids s = bdids st.

  Lemma Inv_src_step st s :
    Inv st -> keeps st s -> grows st s -> bdids s = bdids st ->
    (forall p b, In p NN -> has_src (items_of p) = true ->
                 lookupN (r_src (recipe_of p)) (srcids s) = Some (b, false) -> b = r_srcid (recipe_of p)) ->
    (strict -> forall p b pr, In p NN -> has_src (items_of p) = true ->
                              lookupN (r_src (recipe_of p)) (srcids s) = Some (b, pr) -> b = r_srcid (recipe_of p)) ->
    (strict -> translations_right root s) ->
    Inv s.
  Proof.
    intros I (K1 & K2 & K3 & K4) G B F S TR. constructor; auto.
    - intros p Hp. unfold getws. rewrite K1, K2. apply (inv_run st I p Hp).
    - intros p Hp. unfold getws. rewrite K1. apply (inv_trust st I p Hp).
    - intros p b Hp. rewrite B. intros E. destruct (inv_bd st I p b Hp E) as [E1 C]. split.
      + rewrite (grows_tsa p st s G C). exact E1.
      + eapply grows_covered; eauto.
    - intros p sa a Hp. rewrite K4. now apply (inv_arch st I).
    - rewrite K4. apply (inv_wf st I).
  Qed.

  Lemma translate_spec l st t s :
    translate c l st = (t, s) ->
    keeps st s /\ srcids s = srcids st /\ bdids s = bdids st /\ archl s = archl st /\ srcx s = srcx st /\ corun s = corun st /\
    (forall x, t = Some x -> lookupB l (trc st) = Some x \/ lookupB l (archl st) = Some x) /\
    (forall l' x, lookupB l' (trc s) = Some x -> lookupB l' (trc st) = Some x \/ lookupB l' (archl st) = Some x).
  Proof.
    unfold translate. destruct (lookupB l (trc st)) as [b|] eqn:E1.
    - intros E; inversion E; subst. repeat split; auto; try (intros x Hx; left; congruence).
    - destruct (c_can_download c).
      + destruct (lookupB l (archl st)) as [b|] eqn:E2; intros E; inversion E; subst.
        * repeat split; auto; try (intros x Hx; right; congruence).
          intros l' x. cbn. destruct (beqb l' l) eqn:B; [|now left].
          apply beqb_eq in B. subst l'. intros Hx. right. congruence.
        * repeat split; auto; discriminate.
      + intros E; inversion E; subst. repeat split; auto; discriminate.
  Qed.

  Lemma do_checkout_inv r its0 st :
    In (Pkg r its0) NN -> Inv st ->
    Inv (do_checkout c r st) /\ srcids (do_checkout c r st) = srcids st /\ bdids (do_checkout c r st) = bdids st.
  Proof.
    intros Hr I. unfold do_checkout. destruct (memN (r_src r) (corun st)); [auto|].
    set (up := negb (memN (r_src r) (srcx st)) && c_can_upload c && r_haslive r).
    destruct up eqn:U; [destruct (r_livecalc r) as [lc|] eqn:LC|].
    - split; [|split; reflexivity].
      apply (Inv_src_step st _ I); [repeat split | intros id v H; exact H | reflexivity | | |].
      + intros p b Hp. apply (inv_srcf st I p b Hp).
      + intros S p b pr Hp. apply (inv_srcs st I S p b pr Hp).
      + intros S p l x Hp Hl. cbn. intros [H|H]; [apply (inv_tr st I S p l x Hp Hl); now left|].
        destruct (beqb l lc) eqn:B.
        * apply beqb_eq in B. subst l. inversion H; subst.
          apply (Hlive S p (Pkg r its0) lc Hp Hr LC Hl).
        * apply (inv_tr st I S p l x Hp Hl). now right.
    - split; [|split; reflexivity].
      apply (Inv_src_step st _ I); [repeat split | intros id v H; exact H | reflexivity | | |].
      + intros p b Hp. apply (inv_srcf st I p b Hp).
      + intros S p b pr Hp. apply (inv_srcs st I S p b pr Hp).
      + intros S p l x Hp Hl. apply (inv_tr st I S p l x Hp Hl).
    - split; [|split; reflexivity].
      apply (Inv_src_step st _ I); [repeat split | intros id v H; exact H | reflexivity | | |].
      + intros p b Hp. apply (inv_srcf st I p b Hp).
      + intros S p b pr Hp. apply (inv_srcs st I S p b pr Hp).
      + intros S p l x Hp Hl. apply (inv_tr st I S p l x Hp Hl).
  Qed.

  Lemma add_srcid_inv r its0 st b pr :
    In (Pkg r its0) NN -> has_src its0 = true -> Inv st -> lookupN (r_src r) (srcids st) = None ->
    (pr = false -> b = r_srcid r) -> (strict -> b = r_srcid r) ->
    Inv (set_srcids st ((r_src r, (b, pr)) :: srcids st)) /\
    grows st (set_srcids st ((r_src r, (b, pr)) :: srcids st)).
  Proof.
    intros Hr Hs0 I E F S.
    assert (G : grows st (set_srcids st ((r_src r, (b, pr)) :: srcids st))).
    { intros id v H. cbn. destruct (N.eqb id (r_src r)) eqn:B; [|exact H]. apply N.eqb_eq in B. subst. congruence. }
    split; [|exact G].
    apply (Inv_src_step st _ I); [repeat split | exact G | reflexivity | | |].
    - intros p b0 Hp Hsp. cbn. destruct (N.eqb (r_src (recipe_of p)) (r_src r)) eqn:B.
      + apply N.eqb_eq in B. destruct (Hsrc p (Pkg r its0) Hp Hr Hsp Hs0 B) as [Eid _]. cbn [recipe_of] in Eid.
        intros X; inversion X; subst. rewrite Eid. now apply F.
      + apply (inv_srcf st I p b0 Hp Hsp).
    - intros SS p b0 pr0 Hp Hsp. cbn. destruct (N.eqb (r_src (recipe_of p)) (r_src r)) eqn:B.
      + apply N.eqb_eq in B. destruct (Hsrc p (Pkg r its0) Hp Hr Hsp Hs0 B) as [Eid _]. cbn [recipe_of] in Eid.
        intros X; inversion X; subst. rewrite Eid. now apply S.
      + apply (inv_srcs st I SS p b0 pr0 Hp Hsp).
    - intros SS p l x Hp Hl. apply (inv_tr st I SS p l x Hp Hl).
  Qed.

  Lemma src_bid_inv r its0 st b s :
    In (Pkg r its0) NN -> has_src its0 = true -> Inv st -> src_bid c r st = (b, s) ->
    Inv s /\ keeps st s /\ grows st s /\ bdids s = bdids st /\ sa_of s (r_src r) = b /\ lookupN (r_src r) (srcids s) <> None.
  Proof.
    intros Hr Hs0 I X0. pose proof (src_bid_keeps c r st b s X0) as K. revert X0. unfold src_bid.
    destruct (lookupN (r_src r) (srcids st)) as [[b0 pr]|] eqn:E.
    - intros X; inversion X; subst. split; [exact I|]. split; [apply keeps_refl|]. split; [apply grows_refl|].
      split; [reflexivity|]. split; [unfold sa_of; now rewrite E | congruence].
    - destruct (negb (memN (r_src r) (srcx st)) && r_haslive r && c_can_download c).
      + destruct (match r_live r with Some l => translate c l st | None => (None, st) end) as [t s0] eqn:TR.
        assert (T0 : Inv s0 /\ srcids s0 = srcids st /\ bdids s0 = bdids st /\
                     (forall x, t = Some x -> strict -> x = r_srcid r)).
        { destruct (r_live r) as [l|] eqn:LV.
          - destruct (translate_spec l st t s0 TR) as (K0 & A1 & A2 & A3 & A4 & A5 & A6 & A7).
            split; [|split; [exact A1|split; [exact A2|]]].
            + apply (Inv_src_step st _ I); [exact K0 | intros id v; now rewrite A1 | exact A2 | | |].
              * intros p b1 Hp Hsp. rewrite A1. apply (inv_srcf st I p b1 Hp Hsp).
              * intros S p b1 pr Hp Hsp. rewrite A1. apply (inv_srcs st I S p b1 pr Hp Hsp).
              * intros S p l' x Hp Hl. rewrite A3. intros [H|H].
                -- apply A7 in H. apply (inv_tr st I S p l' x Hp Hl H).
                -- apply (inv_tr st I S p l' x Hp Hl). now right.
            + intros x Hx S. apply A6 in Hx. apply (inv_tr st I S (Pkg r its0) l x Hr LV Hx).
          - inversion TR; subst. split; [exact I|]. split; [reflexivity|]. split; [reflexivity|]. discriminate. }
        destruct T0 as (I0 & A1 & A2 & A6).
        destruct t as [x|]; intros X; inversion X; subst.
        * assert (E0 : lookupN (r_src r) (srcids (ev (EQuery (r_src r) true) s0)) = None) by (cbn; now rewrite A1).
          destruct (add_srcid_inv r its0 (ev (EQuery (r_src r) true) s0) b true Hr Hs0 (Inv_ev _ _ I0) E0) as [I1 G1];
            [discriminate | now apply A6 |].
          split; [exact I1|]. split; [exact K|]. split.
          { intros id v H. apply G1. cbn. now rewrite A1. }
          split; [cbn; exact A2|]. split; [unfold sa_of; cbn; now rewrite N.eqb_refl|].
          cbn. rewrite N.eqb_refl. discriminate.
        * destruct (do_checkout_inv r its0 (ev (EQuery (r_src r) false) s0) Hr (Inv_ev _ _ I0)) as (I1 & B1 & B2).
          assert (E0 : lookupN (r_src r) (srcids (do_checkout c r (ev (EQuery (r_src r) false) s0))) = None)
            by (rewrite B1; cbn; now rewrite A1).
          destruct (add_srcid_inv r its0 _ (r_srcid r) false Hr Hs0 I1 E0) as [I2 G2]; auto.
          split; [exact I2|]. split; [exact K|]. split.
          { intros id v H. apply G2. rewrite B1. cbn. now rewrite A1. }
          split; [cbn; rewrite B2; cbn; exact A2|]. split; [unfold sa_of; cbn; now rewrite N.eqb_refl|].
          cbn. rewrite N.eqb_refl. discriminate.
      + intros X; inversion X; subst.
        destruct (do_checkout_inv r its0 st Hr I) as (I1 & B1 & B2).
        assert (E0 : lookupN (r_src r) (srcids (do_checkout c r st)) = None) by (now rewrite B1).
        destruct (add_srcid_inv r its0 _ (r_srcid r) false Hr Hs0 I1 E0) as [I2 G2]; auto.
        split; [exact I2|]. split; [exact K|]. split.
        { intros id v H. apply G2. now rewrite B1. }
        split; [cbn; exact B2|]. split; [unfold sa_of; cbn; now rewrite N.eqb_refl|].
        cbn. rewrite N.eqb_refl. discriminate.
  Qed.

  Lemma Inv_set_bdids st p b :
    Inv st -> In p NN -> b = Tsa (sa_of st) p -> covered p st ->
    Inv (set_bdids st ((pid p, b) :: bdids st)).
  Proof.
    intros I Hp Hb Hc. destruct I. constructor; auto.
    intros q b0 Hq. cbn. destruct (N.eqb (pid q) (pid p)) eqn:B.
    - apply N.eqb_eq in B. assert (q = p) by (apply node_of_id; auto). subst q.
      intros X; inversion X; subst. split; [reflexivity | exact Hc].
    - apply inv_bd0. exact Hq.
  Qed.

  Lemma grows_sa st s id : grows st s -> lookupN id (srcids st) <> None -> sa_of s id = sa_of st id.
  Proof.
    intros G H. unfold sa_of. destruct (lookupN id (srcids st)) as [v|] eqn:E; [|congruence]. now rewrite (G _ _ E).
  Qed.

  Lemma grows_present st s id : grows st s -> lookupN id (srcids st) <> None -> lookupN id (srcids s) <> None.
  Proof.
    intros G H. destruct (lookupN id (srcids st)) as [v|] eqn:E; [|congruence]. rewrite (G _ _ E). discriminate.
  Qed.

  Definition items_cov (its : items) (st : state) : Prop :=
    forall q, In q (nodes_items its) -> has_src (items_of q) = true -> lookupN (r_src (recipe_of q)) (srcids st) <> None.

  Lemma get_bid_inv :
    (forall p st b s, In p NN -> Inv st -> get_bid p st = (b, s) ->
        Inv s /\ keeps st s /\ grows st s /\ b = Tsa (sa_of s) p /\ covered p s) /\
    (forall its r its0 st sb kb s,
        In (Pkg r its0) NN -> (has_src its = true -> has_src its0 = true) ->
        (forall q, In q (nodes_items its) -> In q NN) -> Inv st ->
        get_bid_items r its st = (sb, kb, s) ->
        Inv s /\ keeps st s /\ grows st s /\
        sb = (if has_src its then Some (sa_of s (r_src r)) else None) /\
        kb = tbid_sa_items bidf (sa_of s) its /\ items_cov its s /\
        (has_src its = true -> lookupN (r_src r) (srcids s) <> None)).
  Proof.
    apply pkg_items_mutind.
    - intros r its IH st b s Hp I. rewrite get_bid_eq.
      destruct (lookupN (r_id r) (bdids st)) as [b0|] eqn:E.
      + intros X. injection X as Xb Xs. subst b s. destruct (inv_bd st I (Pkg r its) b0 Hp E) as [E1 C].
        split; [exact I|]. split; [apply keeps_refl|]. split; [apply grows_refl|]. split; assumption.
      + destruct (get_bid_items r its st) as [[sb kb] s1] eqn:G. intros X; inversion X; subst.
        destruct (IH r its st sb kb s1 Hp) as (I1 & K1 & G1 & Esb & Ekb & Cov & Hs); auto.
        { intros q Hq. eapply sub_in; [exact Hp|]. cbn. now right. }
        assert (Eb : bidf r sb kb = Tsa (sa_of s1) (Pkg r its)) by (cbn [tbid_sa]; now rewrite Esb, Ekb).
        assert (C : covered (Pkg r its) s1).
        { intros q [<-|Hq] Hsrc0; [apply Hs; exact Hsrc0 | apply Cov; assumption]. }
        split; [apply (Inv_set_bdids s1 (Pkg r its)); assumption|].
        split; [eapply keeps_trans; [exact K1 | repeat split]|].
        split; [exact G1|]. split; [exact Eb | exact C].
    - intros r its0 st sb kb s Hr Hh Hk I X. rewrite get_bid_items_nil in X. inversion X; subst.
      split; [exact I|]. split; [apply keeps_refl|]. split; [apply grows_refl|].
      split; [reflexivity|]. split; [reflexivity|]. split; [intros q []|discriminate].
    - intros rest IH r its0 st sb kb s Hr Hh Hk I. rewrite get_bid_items_src.
      destruct (src_bid c r st) as [b s1] eqn:S. destruct (get_bid_items r rest s1) as [[sb' kb'] s2] eqn:G.
      intros X; inversion X; subst.
      assert (Hs0 : has_src its0 = true) by (apply Hh; reflexivity).
      destruct (src_bid_inv r its0 st b s1 Hr Hs0 I S) as (I1 & K1 & G1 & B1 & Sa & Pr).
      destruct (IH r its0 s1 sb' kb s Hr (fun _ => Hs0) Hk I1 G) as (I2 & K2 & G2 & _ & Ekb & Cov & _).
      split; [exact I2|]. split; [eapply keeps_trans; eauto|]. split; [eapply grows_trans; eauto|].
      split; [cbn [has_src]; f_equal; rewrite (grows_sa s1 s _ G2 Pr); now rewrite Sa|].
      split; [exact Ekb|]. split; [exact Cov|]. intros _. eapply grows_present; eauto.
    - intros p IHp weak dd rest IHr r its0 st sb kb s Hr Hh Hk I. rewrite get_bid_items_dep.
      destruct (get_bid p st) as [b s1] eqn:G1. destruct (get_bid_items r rest s1) as [[sb' kb'] s2] eqn:G2.
      intros X; inversion X; subst.
      assert (Hp : In p NN) by (apply Hk; cbn; apply in_app_iff; left; apply nodes_self).
      destruct (IHp st b s1 Hp I G1) as (I1 & K1 & Gr1 & Eb & C1).
      assert (Hk' : forall q, In q (nodes_items rest) -> In q NN) by (intros q Hq; apply Hk; cbn; apply in_app_iff; now right).
      destruct (IHr r its0 s1 sb kb' s Hr Hh Hk' I1 G2) as (I2 & K2 & Gr2 & Esb & Ekb & Cov & Hs).
      split; [exact I2|]. split; [eapply keeps_trans; eauto|]. split; [eapply grows_trans; eauto|].
      split; [exact Esb|].
      assert (Eb' : b = Tsa (sa_of s) p) by (rewrite (grows_tsa p s1 s Gr2 C1); exact Eb).
      split; [cbn [tbid_sa_items]; destruct weak; [exact Ekb | now rewrite Eb', Ekb]|].
      split; [|exact Hs].
      intros q Hq Hsrc0. cbn in Hq. apply in_app_iff in Hq. destruct Hq as [Hq|Hq].
      + eapply grows_present; [exact Gr2 | apply C1; assumption].
      + apply Cov; assumption.
  Qed.

  (* ---- the steps that touch the workspace of one node *)
  Lemma eqb_option_N a v : eqb_option N.eqb a (Some v) = true -> a = Some v.
  Proof. destruct a as [x|]; cbn; [|discriminate]. intros H. apply N.eqb_eq in H. now subst. Qed.

  Definition vid_ok (r : recipe) (st : state) : Prop := s_vid (getws (r_id r) st) = Some (r_vid r).

  Lemma Inv_putws r its st w :
    Inv st -> In (Pkg r its) NN -> memN (r_id r) (wasrun st) = false -> trusted_g (Pkg r its) w ->
    Inv (putws (r_id r) w st).
  Proof.
    intros I Hp M Tw. apply (Inv_upd (r_id r) st); [exact I | apply upd_putws |].
    intros p Hq E. assert (p = Pkg r its) by (apply node_of_id; auto). subst p.
    rewrite getws_putws_same. split; [exact Tw | congruence].
  Qed.

  Lemma trusted_none p w : s_inputs w = PvNone -> trusted_g p w.
  Proof. intros E _. now rewrite E. Qed.

  Lemma prepare_inv r its st :
    Inv st -> In (Pkg r its) NN -> memN (r_id r) (wasrun st) = false ->
    Inv (prepare r st) /\ vid_ok r (prepare r st).
  Proof.
    intros I Hp M. unfold prepare, vid_ok.
    destruct (w_exists (getws (r_id r) st)) eqn:EX; cbn [andb].
    - destruct (negb (eqb_option N.eqb (s_vid (getws (r_id r) st)) (Some (r_vid r)))) eqn:V.
      + split; [|now rewrite getws_putws_same].
        apply (Inv_putws r its); auto. { now apply Inv_ev. } now apply trusted_none.
      + split; [exact I|]. apply negb_false_iff in V. now apply eqb_option_N.
    - split; [|now rewrite getws_putws_same]. apply (Inv_putws r its); auto. now apply trusted_none.
  Qed.

  Lemma unshare_inv r its st :
    Inv st -> In (Pkg r its) NN -> memN (r_id r) (wasrun st) = false -> vid_ok r st ->
    Inv (unshare r st) /\ vid_ok r (unshare r st).
  Proof.
    intros I Hp M V. unfold unshare, vid_ok.
    destruct (d_shared (dissect (s_inputs (getws (r_id r) st)))); [|auto].
    split; [|now rewrite getws_putws_same]. apply (Inv_putws r its); auto. { now apply Inv_ev. } now apply trusted_none.
  Qed.

  Lemma upd_wasrun id st s : upd id st s -> wasrun s = wasrun st.
  Proof. intros (_ & _ & _ & _ & _ & H & _). exact H. Qed.

  Lemma upd_srcids id st s : upd id st s -> srcids s = srcids st.
  Proof. intros (_ & _ & _ & _ & _ & _ & _ & _ & H & _). exact H. Qed.

  Definition dl_post (r : recipe) (its : items) (x : dlres) : Prop :=
    match x with
    | DlDone true s => Inv s /\ w_content (getws (r_id r) s) = L (Pkg r its) /\ vid_ok r s
    | DlDone false s => Inv s /\ vid_ok r s
    | DlErr _ _ => True
    end.

  Lemma dl_fetch_inv r its d b wd w1 st1 :
    Inv st1 -> In (Pkg r its) NN -> memN (r_id r) (wasrun st1) = false ->
    b = Tsa (sa_of st1) (Pkg r its) -> adm (sa_of st1) (Pkg r its) ->
    trusted_g (Pkg r its) w1 -> s_vid w1 = Some (r_vid r) ->
    (wd = true -> s_result w1 <> None -> s_inputs w1 = PvBytes b) ->
    dl_post r its (dl_fetch hashW c r d b wd w1 st1).
  Proof.
    intros I Hp M Eb Ad Tw V Hwd. unfold dl_fetch.
    destruct (s_result w1) as [rh|] eqn:R.
    - destruct wd.
      + cbn [dl_post]. split; [apply Inv_ev, (Inv_putws r its); auto|].
        split; [|unfold vid_ok; now rewrite getws_ev, getws_putws_same].
        rewrite getws_ev, getws_putws_same. specialize (Tw V). rewrite Hwd in Tw; [|reflexivity|discriminate].
        apply Tw. exists (sa_of st1). split; assumption.
      + cbn [dl_post]. split; [apply (Inv_putws r its); auto | unfold vid_ok; now rewrite getws_putws_same].
    - destruct (if c_can_download c then lookupB b (arch st1) else None) as [a|] eqn:LK.
      + unfold dl_check. destruct (a_audit a) as [h|] eqn:AU; [|exact Logic.I].
        destruct (beqb h (hashW (a_content a))) eqn:HB; [|exact Logic.I].
        apply beqb_eq in HB. subst h.
        assert (LK' : lookupB b (arch st1) = Some a) by (destruct (c_can_download c); [exact LK | discriminate]).
        assert (CL : a_content a = L (Pkg r its)).
        { apply (inv_arch st1 I (Pkg r its) (sa_of st1) a Hp Ad); [now rewrite <- Eb | exact AU]. }
        cbn [dl_post]. split; [|split].
        * apply (Inv_putws r its); auto. { now apply Inv_ev. }
          intros _. cbn. intros _. exact CL.
        * rewrite getws_putws_same. exact CL.
        * unfold vid_ok. now rewrite getws_putws_same.
      + destruct (c_force_depth c <=? d); [exact Logic.I|]. cbn [dl_post].
        split; [|unfold vid_ok; now rewrite getws_putws_same].
        apply (Inv_putws r its); auto. destruct (c_can_download c); [now apply Inv_ev | exact I].
        destruct (c_can_download c); exact M.
  Qed.

  Lemma download_inv r its d b st :
    Inv st -> In (Pkg r its) NN -> memN (r_id r) (wasrun st) = false -> vid_ok r st ->
    b = Tsa (sa_of st) (Pkg r its) -> adm (sa_of st) (Pkg r its) ->
    dl_post r its (download r d b st).
  Proof.
    intros I Hp M V Eb Ad. unfold Model.download.
    destruct (negb (try_download c r d)); [cbn [dl_post]; auto|].
    cbn zeta. set (w0 := getws (r_id r) st). set (ds := dissect (s_inputs w0)).
    destruct (bid_differs ds b || c_force c) eqn:PR.
    - apply (dl_fetch_inv r its); auto.
      + now apply Inv_ev.
      + now apply trusted_none.
      + intros _ H. now contradiction H.
    - apply (dl_fetch_inv r its); auto.
      + apply (inv_trust st I (Pkg r its) Hp).
      + intros Wd _. apply orb_false_iff in PR. destruct PR as [PR _].
        cbn [touch_pws s_inputs]. subst ds. unfold bid_differs in PR.
        destruct (s_inputs w0) as [|[|b0 ins]|b0|b0 loc]; cbn in Wd, PR; try discriminate.
        apply negb_false_iff, beqb_eq in PR. now subst.
  Qed.

  Lemma kid_contents_local its st :
    (forall q, In q (kids its) -> w_content (getws (pid q) st) = L q) ->
    kid_contents its st = local_items run_build run_pkg its /\
    tool_hashes hashW its st = tool_hashes_local hashW run_build run_pkg its.
  Proof.
    induction its as [|rest IH|q weak dd rest IH]; intros H; cbn; auto.
    destruct IH as [E1 E2]. { intros x Hx. apply H. cbn. now right. }
    rewrite (H q) by (cbn; now left). rewrite E1, E2. split; reflexivity.
  Qed.

  Lemma local_step_inv r its b st :
    Inv st -> In (Pkg r its) NN -> memN (r_id r) (wasrun st) = false -> vid_ok r st ->
    (forall q, In q (kids its) -> memN (pid q) (wasrun st) = true) ->
    let '(built, s) := local_step r its b st in
    Inv s /\ w_content (getws (r_id r) s) = L (Pkg r its) /\
    (built = true -> w_audit (getws (r_id r) s) = Some (hashW (L (Pkg r its)))) /\
    (built = false -> match d_input (dissect (s_inputs (getws (r_id r) st))) with DiList _ => True | _ => False end).
  Proof.
    intros I Hp M V Hk. unfold Model.local_step.
    assert (KL : forall q, In q (kids its) -> w_content (getws (pid q) st) = L q).
    { intros q Hq. apply (inv_run st I); [|now apply Hk].
      eapply sub_in; [exact Hp|]. cbn. right. now apply kids_in_nodes. }
    destruct (kid_contents_local its st KL) as [E1 E2]. rewrite E1.
    assert (EI : pkg_ins hashW r its (run_build r (local_items run_build run_pkg its)) st
                 = true_ins hashW run_build run_pkg (Pkg r its)).
    { unfold pkg_ins, true_ins. now rewrite E2. }
    rewrite EI.
    pose proof (inv_trust st I (Pkg r its) Hp V) as Tw. change (pid (Pkg r its)) with (r_id r) in Tw.
    assert (NE : true_ins hashW run_build run_pkg (Pkg r its) <> []).
    { unfold true_ins. destruct (has_src its); cbn; discriminate. }
    destruct (negb (c_force c) && match d_input (dissect (s_inputs (getws (r_id r) st))) with
                                   | DiList l => eqb_list beqb l (true_ins hashW run_build run_pkg (Pkg r its))
                                   | _ => false end) eqn:SK.
    - apply andb_true_iff in SK. destruct SK as [_ SK].
      assert (CL : w_content (getws (r_id r) st) = L (Pkg r its)).
      { destruct (s_inputs (getws (r_id r) st)) as [|[|b0 ins]|b0|b0 loc]; cbn [dissect d_input] in SK; try discriminate.
        - apply eqb_list_beqb_eq in SK. now contradiction NE.
        - apply Tw. now apply eqb_list_beqb_eq. }
      split; [|split; [|split]].
      + apply Inv_ev, (Inv_putws r its); auto. intros _. exact Tw.
      + rewrite getws_ev, getws_putws_same. exact CL.
      + discriminate.
      + intros _. destruct (d_input (dissect (s_inputs (getws (r_id r) st)))); try discriminate. exact Logic.I.
    - split; [|split; [|split]].
      + apply Inv_ev, (Inv_putws r its); auto. intros _. cbn. intros _. reflexivity.
      + rewrite getws_ev, getws_putws_same. reflexivity.
      + intros _. rewrite getws_ev, getws_putws_same. reflexivity.
      + discriminate.
  Qed.

  Lemma upload_inv r its d b st :
    Inv st -> In (Pkg r its) NN -> w_content (getws (r_id r) st) = L (Pkg r its) ->
    w_audit (getws (r_id r) st) = Some (hashW (L (Pkg r its))) ->
    b = Tsa (sa_of st) (Pkg r its) -> adm (sa_of st) (Pkg r its) ->
    Inv (upload c r d b st).
  Proof.
    intros I Hp CL AU Eb Ad. unfold upload.
    destruct (c_can_upload c && (d <=? c_upload_depth c)) eqn:U; [|exact I].
    destruct (lookupB b (arch st)) eqn:LK; [now apply Inv_ev|].
    destruct Hup as [S|NU]; [|rewrite NU in U; discriminate].
    apply Inv_ev. destruct I. constructor; auto.
    - intros q sa a Hq Aq. cbn. destruct (beqb (Tsa sa q) b) eqn:B.
      + apply beqb_eq in B. intros X _. inversion X; subst a. cbn. rewrite CL.
        apply (Hsound S (Pkg r its) q Hp Hq).
        rewrite <- (proj1 (tbid_sa_right bidf) _ _ (Ad S)), <- (proj1 (tbid_sa_right bidf) _ _ (Aq S)). congruence.
      + apply inv_arch0; assumption.
    - intros W b0 a. cbn. destruct (beqb b0 b).
      + intros X; inversion X; subst a. unfold Spec.wellformed. cbn. now rewrite AU, CL.
      + apply inv_wf0. exact W.
  Qed.

  (* ---- one package step and its dependencies *)
  Definition ext (st s : state) : Prop :=
    (forall id, memN id (wasrun st) = true -> memN id (wasrun s) = true) /\ grows st s.

  Lemma ext_refl st : ext st st.
  Proof. split; [auto | apply grows_refl]. Qed.

  Lemma ext_trans a b d : ext a b -> ext b d -> ext a d.
  Proof. intros [A1 A2] [B1 B2]. split; [auto | eapply grows_trans; eauto]. Qed.

  Lemma ext_same st s : wasrun s = wasrun st -> srcids s = srcids st -> ext st s.
  Proof. intros E1 E2. split; [now rewrite E1 | intros id v; now rewrite E2]. Qed.

  Lemma upd_ext id st s : upd id st s -> ext st s.
  Proof. intros U. apply ext_same; [eapply upd_wasrun | eapply upd_srcids]; eauto. Qed.

  Definition post (st : state) (must : list label) (x : res) : Prop :=
    match x with
    | Ok s => Inv s /\ (forall id, In id must -> memN id (wasrun s) = true) /\ ext st s
    | Restart s => ~ strict /\ Inv s
    | Err _ _ => True
    | Internal | OutOfFuel => False
    end.

  Lemma adm_of_covered p st : Inv st -> In p NN -> covered p st -> adm (sa_of st) p.
  Proof.
    intros I Hp C S q Hq Hs. specialize (C q Hq Hs). unfold sa_of.
    destruct (lookupN (r_src (recipe_of q)) (srcids st)) as [[b pr]|] eqn:E; [|congruence].
    apply (inv_srcs st I S q b pr); [eapply sub_in; eauto | exact Hs | exact E].
  Qed.

  Lemma handle_changed_inv r its0 st :
    In (Pkg r its0) NN -> has_src its0 = true -> Inv st -> ~ strict -> Inv (handle_changed r st).
  Proof.
    intros Hr Hs0 I NS. unfold handle_changed. apply Inv_ev. destruct I.
    constructor; cbn; auto; try discriminate; try (intros S; contradiction).
    intros p b Hp Hsp. destruct (N.eqb (r_src (recipe_of p)) (r_src r)) eqn:B.
    - apply N.eqb_eq in B. destruct (Hsrc p (Pkg r its0) Hp Hr Hsp Hs0 B) as [Eid _]. cbn [recipe_of] in Eid.
      intros X; inversion X. symmetry. exact Eid.
    - apply inv_srcf0; assumption.
  Qed.

  Lemma cook_checkout_post r its0 st :
    In (Pkg r its0) NN -> has_src its0 = true -> Inv st -> post st [] (cook_checkout c r st).
  Proof.
    intros Hr Hs0 I. unfold cook_checkout.
    destruct (memN (r_src r) (corun st)); [cbn; split; [exact I|split; [intros ? []|apply ext_refl]]|].
    destruct (do_checkout_inv r its0 st Hr I) as (I1 & B1 & B2).
    pose proof (do_checkout_keeps c r st) as (K1 & K2 & K3 & K4).
    unfold verify_src. destruct (lookupN (r_src r) (srcids (do_checkout c r st))) as [[b pr]|] eqn:E.
    - destruct (beqb b (r_srcid r)) eqn:B.
      + cbn. split; [exact I1|]. split; [intros ? []|]. now apply ext_same.
      + apply beqb_neq in B. destruct pr.
        * cbn. assert (NS : ~ strict).
          { intros S. apply B. apply (inv_srcs _ I1 S (Pkg r its0) b true Hr Hs0 E). }
          split; [exact NS | now apply (handle_changed_inv r its0)].
        * cbn. apply B. apply (inv_srcf _ I1 (Pkg r its0) b Hr Hs0 E).
    - cbn. split; [exact I1|]. split; [intros ? []|]. now apply ext_same.
  Qed.

  Lemma desc_id_ne r its : In (Pkg r its) NN -> ~ In (r_id r) (sub_ids_items its).
  Proof.
    intros Hp H. unfold sub_ids_items in H. apply in_map_iff in H. destruct H as (q & E & Hq).
    assert (q = Pkg r its).
    { apply node_of_id; auto. eapply sub_in; [exact Hp|]. cbn. now right. }
    subst q. now apply (not_own_descendant r its).
  Qed.

  Lemma cook_post :
    (forall p d st, In p NN -> Inv st -> post st [pid p] (cook d p st)) /\
    (forall its d r its0 st, In (Pkg r its0) NN -> (has_src its = true -> has_src its0 = true) ->
                             (forall q, In q (nodes_items its) -> In q NN) -> Inv st ->
                             post st (map pid (kids its)) (cook_items d r its st)).
  Proof.
    apply pkg_items_mutind.
    - intros r its IH d st Hp I. rewrite cook_eq.
      destruct (memN (r_id r) (wasrun st)) eqn:M.
      { cbn. split; [exact I|]. split; [|apply ext_refl]. intros id [<-|[]]. exact M. }
      cbn zeta.
      destruct (prepare_inv r its st I Hp M) as [I1 V1].
      pose proof (prepare_upd r st) as U1.
      assert (M1 : memN (r_id r) (wasrun (prepare r st)) = false) by (now rewrite (upd_wasrun _ _ _ U1)).
      destruct (unshare_inv r its _ I1 Hp M1 V1) as [I2 V2].
      pose proof (unshare_upd r (prepare r st)) as U2.
      assert (M2 : memN (r_id r) (wasrun (unshare r (prepare r st))) = false) by (now rewrite (upd_wasrun _ _ _ U2)).
      destruct (get_bid (Pkg r its) (unshare r (prepare r st))) as [b st2] eqn:G.
      destruct (proj1 get_bid_inv (Pkg r its) _ b st2 Hp I2 G) as (I3 & (K1 & K2 & K3 & K4) & Gr3 & Eb & C3).
      assert (V3 : vid_ok r st2) by (unfold vid_ok, getws in *; now rewrite K1).
      assert (M3 : memN (r_id r) (wasrun st2) = false) by (now rewrite K2).
      assert (X0 : ext st st2).
      { eapply ext_trans; [eapply upd_ext; exact U1|]. eapply ext_trans; [eapply upd_ext; exact U2|].
        split; [now rewrite K2 | exact Gr3]. }
      (* the download phase *)
      assert (DP : match dl_phase hashW c r d b st2 with
                   | DlDone true s => Inv s /\ w_content (getws (r_id r) s) = L (Pkg r its) /\ vid_ok r s /\
                                      wasrun s = wasrun st2 /\ srcids s = srcids st2
                   | DlDone false s => Inv s /\ vid_ok r s /\ wasrun s = wasrun st2 /\ srcids s = srcids st2
                   | DlErr _ _ => True
                   end).
      { unfold dl_phase. destruct (memN (r_id r) (tried st2)); [auto|].
        pose proof (download_inv r its d b st2 I3 Hp M3 V3 Eb (adm_of_covered _ _ I3 Hp C3)) as DI.
        pose proof (download_upd hashW c r d b st2) as DU.
        destruct (download r d b st2) as [got s0|e s0]; [|exact Logic.I].
        destruct got; cbn [dl_post] in DI.
        - destruct DI as (J1 & J2 & J3). split; [now apply Inv_set_tried|]. split; [exact J2|]. split; [exact J3|].
          split; [apply (upd_wasrun _ _ _ DU) | apply (upd_srcids _ _ _ DU)].
        - destruct DI as (J1 & J3). split; [now apply Inv_set_tried|]. split; [exact J3|].
          split; [apply (upd_wasrun _ _ _ DU) | apply (upd_srcids _ _ _ DU)]. }
      destruct (dl_phase hashW c r d b st2) as [got s|e s]; [|exact Logic.I].
      destruct got.
      + destruct DP as (J1 & J2 & J3 & J4 & J5). cbn [post].
        split; [apply (Inv_set_wasrun s (Pkg r its)); assumption|].
        split; [intros id [<-|[]]; cbn; now rewrite N.eqb_refl|].
        eapply ext_trans; [exact X0|]. split; [|intros id v; cbn; now rewrite J5].
        intros id Hm. cbn. rewrite J4, Hm. apply orb_true_r.
      + destruct DP as (J1 & J3 & J4 & J5).
        assert (Hk : forall q, In q (nodes_items its) -> In q NN).
        { intros q Hq. eapply sub_in; [exact Hp|]. cbn. now right. }
        specialize (IH d r its s Hp (fun H => H) Hk J1).
        pose proof (proj2 (cook_frame hashW bidf run_build run_pkg c) its d r s) as FR.
        destruct (cook_items d r its s) as [s1|s1|e s1| |]; cbn [post] in IH |- *; auto.
        destruct IH as (Q1 & Q2 & Q3). cbn [res_frame] in FR. destruct FR as [FR1 FR2].
        pose proof (desc_id_ne r its Hp) as NI.
        assert (X1 : ext st s1).
        { eapply ext_trans; [exact X0|]. eapply ext_trans; [|exact Q3]. now apply ext_same. }
        unfold finish. destruct (memN (r_id r) (wasrun s1)) eqn:M4.
        { cbn [post]. split; [exact Q1|]. split; [intros id [<-|[]]; exact M4 | exact X1]. }
        assert (V4 : vid_ok r s1) by (unfold vid_ok; rewrite (FR1 _ NI); exact J3).
        assert (KR : forall q, In q (kids its) -> memN (pid q) (wasrun s1) = true).
        { intros q Hq. apply Q2. now apply in_map. }
        pose proof (local_step_inv r its b s1 Q1 Hp M4 V4 KR) as LS.
        pose proof (local_step_upd hashW run_build run_pkg c r its b s1) as LU.
        destruct (local_step r its b s1) as [built s2]. cbn [snd] in LU.
        destruct LS as (R1 & R2 & R3 & _).
        assert (W2 : wasrun s2 = wasrun s1) by (apply (upd_wasrun _ _ _ LU)).
        assert (S2 : srcids s2 = srcids s1) by (apply (upd_srcids _ _ _ LU)).
        pose proof (Inv_set_wasrun s2 (Pkg r its) R1 Hp R2) as R4. change (pid (Pkg r its)) with (r_id r) in R4.
        set (s3 := set_wasrun s2 (r_id r :: wasrun s2)) in *.
        assert (X3 : ext st s3).
        { eapply ext_trans; [exact X1|]. split; [|intros id v; cbn; now rewrite S2].
          intros id Hm. cbn. rewrite W2, Hm. apply orb_true_r. }
        assert (M5 : memN (r_id r) (wasrun s3) = true) by (cbn; now rewrite N.eqb_refl).
        cbn [post]. destruct built.
        * assert (GR : grows st2 s3).
          { intros id v Hv. cbn. rewrite S2. apply (proj2 Q3). now rewrite J5. }
          split; [apply (upload_inv r its d b s3 R4 Hp R2 (R3 eq_refl))|].
          -- rewrite (grows_tsa _ st2 s3 GR C3). exact Eb.
          -- apply (adm_of_covered _ _ R4 Hp). eapply grows_covered; eauto.
          -- assert (UW : wasrun (upload c r d b s3) = wasrun s3 /\ srcids (upload c r d b s3) = srcids s3).
             { unfold upload. destruct (c_can_upload c && (d <=? c_upload_depth c)); [|auto].
               destruct (lookupB b (arch s3)); auto. }
             destruct UW as [UW1 UW2]. split; [intros id [<-|[]]; now rewrite UW1|].
             eapply ext_trans; [exact X3 | now apply ext_same].
        * split; [exact R4|]. split; [intros id [<-|[]]; exact M5 | exact X3].
    - intros d r its0 st Hr Hh Hk I. cbn. split; [exact I|]. split; [intros ? []|apply ext_refl].
    - intros rest IH d r its0 st Hr Hh Hk I. rewrite cook_items_src.
      assert (Hs0 : has_src its0 = true) by (apply Hh; reflexivity).
      pose proof (cook_checkout_post r its0 st Hr Hs0 I) as CP.
      destruct (cook_checkout c r st) as [s|s|e s| |]; cbn [post] in CP |- *; auto.
      destruct CP as (I1 & _ & X1).
      specialize (IH d r its0 s Hr (fun _ => Hs0) Hk I1). cbn [kids].
      destruct (cook_items d r rest s) as [s1|s1|e s1| |]; cbn [post] in IH |- *; auto.
      destruct IH as (Q1 & Q2 & Q3). split; [exact Q1|]. split; [exact Q2 | eapply ext_trans; eauto].
    - intros p IHp weak dd rest IHr d r its0 st Hr Hh Hk I. rewrite cook_items_dep.
      assert (Hp : In p NN) by (apply Hk; cbn; apply in_app_iff; left; apply nodes_self).
      specialize (IHp (d + dd) st Hp I).
      destruct (cook (d + dd) p st) as [s|s|e s| |]; cbn [post] in IHp |- *; auto.
      destruct IHp as (I1 & P2 & X1).
      assert (Hk' : forall q, In q (nodes_items rest) -> In q NN) by (intros q Hq; apply Hk; cbn; apply in_app_iff; now right).
      specialize (IHr d r its0 s Hr Hh Hk' I1).
      destruct (cook_items d r rest s) as [s1|s1|e s1| |]; cbn [post] in IHr |- *; auto.
      destruct IHr as (Q1 & Q2 & Q3). split; [exact Q1|]. split; [|eapply ext_trans; eauto].
      cbn [kids map]. intros id [<-|Hid]; [|now apply Q2]. apply (proj1 Q3). apply P2. now left.
  Qed.

  Lemma cook_loop_post fuel st :
    Inv st ->
    match cook_loop hashW bidf run_build run_pkg c fuel root st with
    | Ok s => Inv s /\ memN (pid root) (wasrun s) = true
    | Restart _ => False
    | Err _ _ => True
    | Internal => False
    | OutOfFuel => True
    end.
  Proof.
    revert st. induction fuel as [|f IH]; intros st I; cbn [cook_loop]; [exact Logic.I|].
    pose proof (proj1 cook_post root 0 st (nodes_self root) I) as P.
    destruct (cook 0 root st) as [s|s|e s| |]; cbn [post] in P; auto.
    - destruct P as (I1 & P2 & _). split; [exact I1 | apply P2; now left].
    - destruct P as [_ I1]. now apply IH.
  Qed.

  Lemma cook_strict_no_restart st :
    strict -> Inv st ->
    match cook 0 root st with
    | Ok s => Inv s /\ memN (pid root) (wasrun s) = true
    | Err _ _ => True
    | _ => False
    end.
  Proof.
    intros S I. pose proof (proj1 cook_post root 0 st (nodes_self root) I) as P.
    destruct (cook 0 root st) as [s|s|e s| |]; cbn [post] in P; auto.
    - destruct P as (I1 & P2 & _). split; [exact I1 | apply P2; now left].
    - destruct P as [NS _]. contradiction.
  Qed.
End Correct.

(* ------------------------------------------------------------------ download_equals_local *)
Definition act (root : pkg) (id : label) : bytes :=
  match find (fun q => has_src (items_of q) && N.eqb (r_src (recipe_of q)) id) (nodes root) with
  | Some q => r_srcid (recipe_of q)
  | None => []
  end.

Lemma act_right root p : src_consistent root -> In p (nodes root) -> right_on (act root) p.
Proof.
  intros U Hp q Hq Hs. assert (Hq' : In q (nodes root)) by (eapply (proj1 nodes_trans); eauto).
  unfold act.
  destruct (find (fun x => has_src (items_of x) && N.eqb (r_src (recipe_of x)) (r_src (recipe_of q))) (nodes root)) as [x|] eqn:F.
  - apply find_some in F. destruct F as [Hx E]. apply andb_true_iff in E. destruct E as [E1 E2].
    apply N.eqb_eq in E2. exact (proj1 (U x q Hx Hq' E1 Hs E2)).
  - pose proof (find_none _ _ F q Hq') as E. cbn in E. rewrite Hs, N.eqb_refl in E. discriminate.
Qed.

Section Theorems.
  Variable hashW : bytes -> bytes.
  Variable bidf : recipe -> option bytes -> list bytes -> bytes.
  Variable run_build : recipe -> list bytes -> bytes.
  Variable run_pkg : recipe -> bytes -> bytes.

  Local Notation L := (local run_build run_pkg).
  Local Notation T := (tbid bidf).

  Lemma Inv_begin_strict root st0 (allwf : Prop) :
    uniq_ids root ->
    trusted_ws hashW bidf run_build run_pkg root st0 -> translations_right root st0 ->
    archive_sound_for hashW bidf run_build run_pkg root (arch st0) ->
    (allwf -> all_wellformed hashW (arch st0)) ->
    Inv hashW bidf run_build run_pkg root True allwf (begin_invocation st0).
  Proof.
    intros U TW TR AS AW. constructor; cbn; try discriminate; try exact AW.
    - intros p Hp V. specialize (TW p Hp V). change (getws (pid p) (begin_invocation st0)) with (getws (pid p) st0).
      destruct (s_inputs (getws (pid p) st0)) as [|[|b ins]|b|b loc]; auto.
      intros (sa & A & E). apply TW. rewrite E. apply (proj1 (tbid_sa_right bidf)). now apply A.
    - intros _. exact TR.
    - intros p sa a Hp A. rewrite (proj1 (tbid_sa_right bidf) p sa (A Logic.I)). now apply AS.
  Qed.

  Lemma Inv_end_strict root s (allwf : Prop) :
    src_consistent root -> Inv hashW bidf run_build run_pkg root True allwf s ->
    trusted_ws hashW bidf run_build run_pkg root s /\ translations_right root s /\
    archive_sound_for hashW bidf run_build run_pkg root (arch s).
  Proof.
    intros U I. split; [|split].
    - intros p Hp V. pose proof (inv_trust _ _ _ _ _ _ _ _ I p Hp V) as Tg.
      destruct (s_inputs (getws (pid p) s)) as [|[|b ins]|b|b loc]; auto.
      intros E. apply Tg. exists (act root). split; [intros _; now apply act_right|].
      rewrite E. symmetry. apply (proj1 (tbid_sa_right bidf)). now apply act_right.
    - apply (inv_tr _ _ _ _ _ _ _ _ I Logic.I).
    - intros p a Hp LK W. apply (inv_arch _ _ _ _ _ _ _ _ I p (act root) a Hp); auto.
      + intros _. now apply act_right.
      + rewrite (proj1 (tbid_sa_right bidf) p (act root)); [exact LK | now apply act_right].
  Qed.

  Lemma download_equals_local_proof c root st0 :
    uniq_ids root -> src_consistent root -> live_consistent root -> ids_sound_in bidf run_build run_pkg root ->
    trusted_ws hashW bidf run_build run_pkg root st0 -> translations_right root st0 ->
    archive_sound_for hashW bidf run_build run_pkg root (arch st0) ->
    match invoke hashW bidf run_build run_pkg c root st0 with
    | Ok s =>
      cook hashW bidf run_build run_pkg c 0 root (begin_invocation st0) = Ok s /\
      content_of root s = L root /\
      (forall p, In p (nodes root) -> memN (pid p) (wasrun s) = true -> content_of p s = L p) /\
      trusted_ws hashW bidf run_build run_pkg root s /\ translations_right root s /\
      archive_sound_for hashW bidf run_build run_pkg root (arch s)
    | Err _ _ => True
    | _ => False
    end.
  Proof.
    intros U SC LC IS TW TR AS.
    pose proof (Inv_begin_strict root st0 False U TW TR AS (fun f : False => match f with end)) as I0.
    pose proof (cook_strict_no_restart hashW bidf run_build run_pkg c root True False U SC (fun _ => LC) (fun _ => IS)
                                       (or_introl Logic.I) (begin_invocation st0) Logic.I I0) as P.
    unfold invoke. cbn [cook_loop].
    destruct (cook hashW bidf run_build run_pkg c 0 root (begin_invocation st0)) as [s|s|e s| |]; try contradiction; [|exact Logic.I].
    destruct P as [I1 M]. split; [reflexivity|].
    split; [apply (inv_run _ _ _ _ _ _ _ _ I1 root (nodes_self root) M)|].
    split; [intros p Hp Mp; apply (inv_run _ _ _ _ _ _ _ _ I1 p Hp Mp)|].
    now apply (Inv_end_strict root s False).
  Qed.

  (* ---- the Build-Id phase never runs a package step *)
  Definition nopkg (st : state) : Prop := forall e, In e (trace st) -> is_package_event e = false.

  Lemma do_checkout_nopkg c r st : nopkg st -> nopkg (do_checkout c r st).
  Proof.
    intros H. unfold do_checkout. destruct (memN (r_src r) (corun st)); [exact H|].
    assert (H1 : nopkg (ev (ECheckout (r_src r)) (set_srcx st (r_src r :: srcx st)))).
    { intros e [<-|He]; [reflexivity | now apply H]. }
    destruct (negb (memN (r_src r) (srcx st)) && c_can_upload c && r_haslive r); [destruct (r_livecalc r)|]; exact H1.
  Qed.

  Lemma translate_trace c l st t s : translate c l st = (t, s) -> trace s = trace st.
  Proof.
    unfold translate. destruct (lookupB l (trc st)); [intros E; now inversion E|].
    destruct (c_can_download c); [destruct (lookupB l (archl st))|]; intros E; now inversion E.
  Qed.

  Lemma src_bid_nopkg c r st b s : src_bid c r st = (b, s) -> nopkg st -> nopkg s.
  Proof.
    unfold src_bid. destruct (lookupN (r_src r) (srcids st)) as [[b0 pr]|]; [intros E; now inversion E|].
    destruct (negb (memN (r_src r) (srcx st)) && r_haslive r && c_can_download c).
    - destruct (match r_live r with Some l => translate c l st | None => (None, st) end) as [t s0] eqn:TR.
      assert (T0 : trace s0 = trace st).
      { destruct (r_live r); [eapply translate_trace; eauto | now inversion TR]. }
      intros E H.
      assert (H1 : forall k, nopkg (ev (EQuery (r_src r) k) s0)).
      { intros k e [<-|He]; [reflexivity | apply H; now rewrite <- T0]. }
      destruct t; inversion E; subst; [apply H1|].
      apply (do_checkout_nopkg c r _ (H1 false)).
    - intros E H. inversion E; subst. apply (do_checkout_nopkg c r _ H).
  Qed.

  Lemma get_bid_nopkg c :
    (forall p st b s, get_bid bidf c p st = (b, s) -> nopkg st -> nopkg s) /\
    (forall its r st sb kb s, get_bid_items bidf c r its st = (sb, kb, s) -> nopkg st -> nopkg s).
  Proof.
    apply pkg_items_mutind.
    - intros r its IH st b s. rewrite get_bid_eq.
      destruct (lookupN (r_id r) (bdids st)); [intros E; now inversion E|].
      destruct (get_bid_items bidf c r its st) as [[sb kb] s1] eqn:G. intros E H. inversion E; subst.
      apply (IH r st sb kb s1 G H).
    - intros r st sb kb s E. rewrite get_bid_items_nil in E. now inversion E.
    - intros rest IH r st sb kb s. rewrite get_bid_items_src.
      destruct (src_bid c r st) as [b s1] eqn:S. destruct (get_bid_items bidf c r rest s1) as [[sb' kb'] s2] eqn:G.
      intros E H. inversion E; subst. eapply IH; [exact G|]. eapply src_bid_nopkg; eauto.
    - intros p IHp weak dd rest IHr r st sb kb s. rewrite get_bid_items_dep.
      destruct (get_bid bidf c p st) as [b s1] eqn:G1. destruct (get_bid_items bidf c r rest s1) as [[sb' kb'] s2] eqn:G2.
      intros E H. inversion E; subst. eapply IHr; [exact G2|]. eapply IHp; eauto.
  Qed.

  Lemma fresh_trusted root st : ws st = [] -> trusted_ws hashW bidf run_build run_pkg root st.
  Proof. intros E p Hp. unfold getws. rewrite E. cbn. intros V. discriminate. Qed.

  Lemma fresh_prepared r st :
    getws (r_id r) st = fresh_pws ->
    s_inputs (getws (r_id r) (unshare r (prepare r st))) = PvNone /\
    s_result (getws (r_id r) (unshare r (prepare r st))) = None /\
    trace (unshare r (prepare r st)) = trace st /\ tried (unshare r (prepare r st)) = tried st /\
    wasrun (unshare r (prepare r st)) = wasrun st /\ arch (unshare r (prepare r st)) = arch st.
  Proof.
    intros E. unfold prepare. rewrite E. cbn [w_exists fresh_pws andb].
    unfold unshare. rewrite getws_putws_same. cbn. rewrite getws_putws_same. cbn. repeat split.
  Qed.

  Lemma leb0 x : (0 <=? x) = true.
  Proof. apply N.leb_le, N.le_0_l. Qed.

  (* ---- the downloading side *)
  Lemma downloader_takes c r its stB a :
    let root := Pkg r its in
    uniq_ids root -> src_consistent root -> live_consistent root -> ids_sound_in bidf run_build run_pkg root ->
    ws stB = [] -> translations_right root stB ->
    archive_sound_for hashW bidf run_build run_pkg root (arch stB) ->
    lookupB (T root) (arch stB) = Some a -> wellformed hashW a ->
    c_can_download c = true -> try_download c r 0 = true -> c_force c = false ->
    match invoke hashW bidf run_build run_pkg c root stB with
    | Ok sB => content_of root sB = L root /\ nopkg sB /\ In (EDownload (r_id r) true) (trace sB)
    | _ => False
    end.
  Proof.
    intros root U SC LC IS WS TR AS LK WF CD TRY NF. subst root. set (root := Pkg r its) in *.
    pose proof (Inv_begin_strict root stB False U (fresh_trusted root stB WS) TR AS (fun f : False => match f with end)) as I0.
    set (st0 := begin_invocation stB) in *.
    assert (G0 : getws (r_id r) st0 = fresh_pws) by (unfold getws, st0; cbn; now rewrite WS).
    destruct (fresh_prepared r st0 G0) as (P1 & P2 & P3 & P4 & P5 & P6).
    unfold invoke. cbn [cook_loop]. fold st0. unfold root at 1. rewrite cook_eq.
    change (memN (r_id r) (wasrun st0)) with false. cbn iota zeta.
    assert (I2 : Inv hashW bidf run_build run_pkg root True False (unshare r (prepare r st0))).
    { destruct (prepare_inv hashW bidf run_build run_pkg root True False U r its st0 I0 (nodes_self root) eq_refl) as [I1 V1].
      apply (unshare_inv hashW bidf run_build run_pkg root True False U r its _ I1 (nodes_self root)); [|exact V1].
      pose proof (prepare_upd r st0) as UP. now rewrite (upd_wasrun _ _ _ UP). }
    destruct (get_bid bidf c (Pkg r its) (unshare r (prepare r st0))) as [b st2] eqn:G.
    destruct (proj1 (get_bid_inv hashW bidf run_build run_pkg c root True False U SC (fun _ => LC)) (Pkg r its) _ b st2 (nodes_self root) I2 G)
      as (I3 & (K1 & K2 & K3 & K4) & _ & Eb & C3).
    assert (Eb' : b = T root).
    { rewrite Eb. apply (proj1 (tbid_sa_right bidf)).
      apply (adm_of_covered hashW bidf run_build run_pkg root True False root st2 I3 (nodes_self root) C3 Logic.I). }
    assert (NP : nopkg st2).
    { apply (proj1 (get_bid_nopkg c) _ _ _ _ G). intros e. rewrite P3. intros []. }
    unfold dl_phase. rewrite K3, P4. change (memN (r_id r) (tried st0)) with false. cbn iota.
    unfold download. rewrite TRY. cbn [negb]. cbn zeta.
    assert (W2 : getws (r_id r) st2 = getws (r_id r) (unshare r (prepare r st0))) by (unfold getws; now rewrite K1).
    rewrite W2, P1. cbn [dissect bid_differs d_bid orb]. rewrite NF. cbn iota.
    unfold dl_fetch. cbn [touch_pws s_result]. rewrite P2, CD, K4, P6.
    change (arch st0) with (arch stB). rewrite Eb', LK.
    unfold dl_check. rewrite WF, beqb_refl.
    cbn iota. split; [|split].
    - unfold content_of, getws. cbn [pid recipe_of root ws set_wasrun set_tried putws set_ws ev lookupN].
      rewrite N.eqb_refl. cbn [w_content accepted_pws].
      apply (AS root a (nodes_self root) LK WF).
    - intros e. cbn. intros [<-|He]; [reflexivity | now apply NP].
    - cbn. now left.
  Qed.

  (* ---- the uploading side: a fresh workspace that builds everything publishes its root package *)
  Lemma uploader_publishes c r its stA sA :
    let root := Pkg r its in
    uniq_ids root -> src_consistent root -> live_consistent root -> ids_sound_in bidf run_build run_pkg root ->
    ws stA = [] -> never_tries c -> c_can_upload c = true ->
    translations_right root stA ->
    archive_sound_for hashW bidf run_build run_pkg root (arch stA) -> all_wellformed hashW (arch stA) ->
    invoke hashW bidf run_build run_pkg c root stA = Ok sA ->
    Inv hashW bidf run_build run_pkg root True True sA /\ exists a, lookupB (T root) (arch sA) = Some a.
  Proof.
    intros root U SC LC IS WS NT CU TR AS AW. subst root. set (root := Pkg r its) in *.
    pose proof (Inv_begin_strict root stA True U (fresh_trusted root stA WS) TR AS (fun _ => AW)) as I0.
    set (st0 := begin_invocation stA) in *.
    assert (G0 : getws (r_id r) st0 = fresh_pws) by (unfold getws, st0; cbn; now rewrite WS).
    destruct (fresh_prepared r st0 G0) as (P1 & P2 & P3 & P4 & P5 & P6).
    pose proof (cook_strict_no_restart hashW bidf run_build run_pkg c root True True U SC (fun _ => LC) (fun _ => IS)
                                       (or_introl Logic.I) st0 Logic.I I0) as PP.
    unfold invoke. cbn [cook_loop]. fold st0.
    destruct (cook hashW bidf run_build run_pkg c 0 root st0) as [s|s|e s| |] eqn:CK; try contradiction; try discriminate.
    intros X. injection X as <-. destruct PP as [IA _]. split; [exact IA|].
    revert CK. unfold root at 1. rewrite cook_eq.
    change (memN (r_id r) (wasrun st0)) with false. cbn iota zeta.
    assert (I2 : Inv hashW bidf run_build run_pkg root True True (unshare r (prepare r st0)) /\ vid_ok r (unshare r (prepare r st0))).
    { destruct (prepare_inv hashW bidf run_build run_pkg root True True U r its st0 I0 (nodes_self root) eq_refl) as [I1 V1].
      apply (unshare_inv hashW bidf run_build run_pkg root True True U r its _ I1 (nodes_self root)); [|exact V1].
      pose proof (prepare_upd r st0) as UP. now rewrite (upd_wasrun _ _ _ UP). }
    destruct I2 as [I2 V2].
    destruct (get_bid bidf c (Pkg r its) (unshare r (prepare r st0))) as [b st2] eqn:G.
    destruct (proj1 (get_bid_inv hashW bidf run_build run_pkg c root True True U SC (fun _ => LC)) (Pkg r its) _ b st2 (nodes_self root) I2 G)
      as (I3 & (K1 & K2 & K3 & K4) & _ & Eb & C3).
    assert (Eb' : b = T root).
    { rewrite Eb. apply (proj1 (tbid_sa_right bidf)).
      apply (adm_of_covered hashW bidf run_build run_pkg root True True root st2 I3 (nodes_self root) C3 Logic.I). }
    unfold dl_phase. rewrite K3, P4. change (memN (r_id r) (tried st0)) with false. cbn iota.
    unfold download. rewrite (NT r 0). cbn [negb]. cbn iota.
    set (s0 := set_tried st2 (r_id r :: tried st2)).
    assert (IS0 : Inv hashW bidf run_build run_pkg root True True s0) by (now apply Inv_set_tried).
    assert (Hk : forall q, In q (nodes_items its) -> In q (nodes root)) by (intros q Hq; cbn; now right).
    pose proof (proj2 (cook_post hashW bidf run_build run_pkg c root True True U SC (fun _ => LC) (fun _ => IS) (or_introl Logic.I))
                      its 0 r its s0 (nodes_self root) (fun H => H) Hk IS0) as CP.
    pose proof (proj2 (cook_frame hashW bidf run_build run_pkg c) its 0 r s0) as FR.
    destruct (cook_items hashW bidf run_build run_pkg c 0 r its s0) as [s1|s1|e s1| |]; try discriminate.
    cbn [post] in CP. destruct CP as (Q1 & Q2 & Q3). cbn [res_frame] in FR. destruct FR as [FR1 FR2].
    pose proof (desc_id_ne root U r its (nodes_self root)) as NI.
    assert (M4 : memN (r_id r) (wasrun s1) = false).
    { destruct (memN (r_id r) (wasrun s1)) eqn:M; [|reflexivity]. apply (FR2 _ NI) in M.
      unfold s0 in M. cbn in M. now rewrite K2, P5 in M. }
    assert (W1 : getws (r_id r) s1 = getws (r_id r) (unshare r (prepare r st0))).
    { rewrite (FR1 _ NI). unfold s0, getws. cbn. now rewrite K1. }
    unfold finish. rewrite M4.
    assert (V4 : vid_ok r s1) by (unfold vid_ok; rewrite W1; exact V2).
    assert (KR : forall q, In q (kids its) -> memN (pid q) (wasrun s1) = true) by (intros q Hq; apply Q2; now apply in_map).
    pose proof (local_step_inv hashW bidf run_build run_pkg c root True True U r its b s1 Q1 (nodes_self root) M4 V4 KR) as LS.
    destruct (local_step hashW run_build run_pkg c r its b s1) as [built s2].
    destruct LS as (_ & _ & _ & R4). destruct built.
    - intros X. injection X as <-. unfold upload. rewrite CU, leb0. cbn [andb].
      rewrite Eb'. destruct (lookupB (T root) (arch (set_wasrun s2 (r_id r :: wasrun s2)))) as [a|] eqn:LK.
      + exists a. exact LK.
      + eexists. cbn [arch ev set_arch]. apply lookupB_cons_same.
    - exfalso. specialize (R4 eq_refl). rewrite W1, P1 in R4. exact R4.
  Qed.

  Lemma other_workspace_zero_builds_proof cA cB r its stA sA stB :
    let root := Pkg r its in
    uniq_ids root -> src_consistent root -> live_consistent root -> ids_sound_in bidf run_build run_pkg root ->
    (* the uploader: fresh workspace, builds everything itself and uploads *)
    ws stA = [] -> never_tries cA -> c_can_upload cA = true ->
    translations_right root stA ->
    archive_sound_for hashW bidf run_build run_pkg root (arch stA) -> all_wellformed hashW (arch stA) ->
    invoke hashW bidf run_build run_pkg cA root stA = Ok sA ->
    (* the downloader: another fresh workspace on the archive the uploader left *)
    ws stB = [] -> trc stB = [] -> arch stB = arch sA -> archl stB = archl sA ->
    c_can_download cB = true -> try_download cB r 0 = true -> c_force cB = false ->
    match invoke hashW bidf run_build run_pkg cB root stB with
    | Ok sB => content_of root sB = L root /\ nopkg sB /\ In (EDownload (r_id r) true) (trace sB)
    | _ => False
    end.
  Proof.
    intros root U SC LC IS WA NT CU TRA ASA AWA RA WB TB EA EL CD TRY NF.
    destruct (uploader_publishes cA r its stA sA U SC LC IS WA NT CU TRA ASA AWA RA) as [IA [a LK]].
    destruct (Inv_end_strict root sA True SC IA) as (_ & TR1 & AS1).
    apply (downloader_takes cB r its stB a U SC LC IS WB).
    - intros p l x Hp Hl [H|H]; [rewrite TB in H; discriminate|]. rewrite EL in H. apply (TR1 p l x Hp Hl). now right.
    - now rewrite EA.
    - now rewrite EA.
    - apply (inv_wf _ _ _ _ _ _ _ _ IA Logic.I _ _ LK).
    - exact CD.
    - exact TRY.
    - exact NF.
  Qed.
End Theorems.

(* ------------------------------------------------------------------ restarts are bounded *)
Section Termination.
  Variable hashW : bytes -> bytes.
  Variable bidf : recipe -> option bytes -> list bytes -> bytes.
  Variable run_build : recipe -> list bytes -> bytes.
  Variable run_pkg : recipe -> bytes -> bytes.
  Variable c : cfg.

  Local Notation cook := (cook hashW bidf run_build run_pkg c).
  Local Notation cook_items := (cook_items hashW bidf run_build run_pkg c).

  (* a source build-id that is known from an actual checkout *)
  Definition verified (id : label) (st : state) : bool :=
    match lookupN id (srcids st) with Some (_, false) => true | _ => false end.

  Definition vmono (st s : state) : Prop := forall id, verified id st = true -> verified id s = true.

  Lemma vmono_refl st : vmono st st.
  Proof. intros id H. exact H. Qed.

  Lemma vmono_trans a b d : vmono a b -> vmono b d -> vmono a d.
  Proof. intros A B id H. apply B, A, H. Qed.

  Lemma vmono_same st s : srcids s = srcids st -> vmono st s.
  Proof. intros E id. unfold verified. now rewrite E. Qed.

  Lemma vmono_add st s id v :
    srcids s = (id, v) :: srcids st -> lookupN id (srcids st) = None -> vmono st s.
  Proof.
    intros Es E id' H. unfold verified in *. rewrite Es. cbn. destruct (N.eqb id' id) eqn:B; [|exact H].
    apply N.eqb_eq in B. subst. rewrite E in H. discriminate.
  Qed.

  Lemma do_checkout_srcids r st : srcids (do_checkout c r st) = srcids st.
  Proof.
    unfold do_checkout. destruct (memN (r_src r) (corun st)); [reflexivity|].
    destruct (negb (memN (r_src r) (srcx st)) && c_can_upload c && r_haslive r); [destruct (r_livecalc r)|]; reflexivity.
  Qed.

  Lemma translate_srcids l st t s : translate c l st = (t, s) -> srcids s = srcids st.
  Proof.
    unfold translate. destruct (lookupB l (trc st)); [intros E; now inversion E|].
    destruct (c_can_download c); [destruct (lookupB l (archl st))|]; intros E; now inversion E.
  Qed.

  Lemma src_bid_vmono r st b s : src_bid c r st = (b, s) -> vmono st s.
  Proof.
    unfold src_bid. destruct (lookupN (r_src r) (srcids st)) as [[b0 pr]|] eqn:E0; [intros E; inversion E; apply vmono_refl|].
    destruct (negb (memN (r_src r) (srcx st)) && r_haslive r && c_can_download c).
    - destruct (match r_live r with Some l => translate c l st | None => (None, st) end) as [t s0] eqn:TR.
      assert (T0 : srcids s0 = srcids st).
      { destruct (r_live r); [eapply translate_srcids; eauto | now inversion TR]. }
      destruct t; intros E; inversion E; subst.
      + eapply vmono_add; [|exact E0]. cbn. now rewrite T0.
      + eapply vmono_add; [|exact E0]. cbn. rewrite do_checkout_srcids. cbn. now rewrite T0.
    - intros E; inversion E; subst. eapply vmono_add; [|exact E0]. cbn. now rewrite do_checkout_srcids.
  Qed.

  Lemma get_bid_vmono :
    (forall p st b s, get_bid bidf c p st = (b, s) -> vmono st s) /\
    (forall its r st sb kb s, get_bid_items bidf c r its st = (sb, kb, s) -> vmono st s).
  Proof.
    apply pkg_items_mutind.
    - intros r its IH st b s. rewrite get_bid_eq.
      destruct (lookupN (r_id r) (bdids st)); [intros E; inversion E; apply vmono_refl|].
      destruct (get_bid_items bidf c r its st) as [[sb kb] s1] eqn:G. intros E. inversion E; subst.
      eapply vmono_trans; [eapply IH; eauto | now apply vmono_same].
    - intros r st sb kb s E. rewrite get_bid_items_nil in E. inversion E. apply vmono_refl.
    - intros rest IH r st sb kb s. rewrite get_bid_items_src.
      destruct (src_bid c r st) as [b s1] eqn:S. destruct (get_bid_items bidf c r rest s1) as [[sb' kb'] s2] eqn:G.
      intros E. inversion E; subst. eapply vmono_trans; [eapply src_bid_vmono; eauto | eapply IH; eauto].
    - intros p IHp weak dd rest IHr r st sb kb s. rewrite get_bid_items_dep.
      destruct (get_bid bidf c p st) as [b s1] eqn:G1. destruct (get_bid_items bidf c r rest s1) as [[sb' kb'] s2] eqn:G2.
      intros E. inversion E; subst. eapply vmono_trans; [eapply IHp; eauto | eapply IHr; eauto].
  Qed.

  Fixpoint src_ids (p : pkg) : list label :=
    match p with Pkg r its => src_ids_items r its end
  with src_ids_items (r : recipe) (its : items) : list label :=
    match its with
    | INil => []
    | ISrc rest => r_src r :: src_ids_items r rest
    | IDep q _ _ rest => src_ids q ++ src_ids_items r rest
    end.

  Lemma src_ids_length :
    (forall p, length (src_ids p) = n_srcs p) /\ (forall its r, length (src_ids_items r its) = n_srcs_items its).
  Proof.
    apply pkg_items_mutind.
    - intros r its IH. cbn. apply IH.
    - reflexivity.
    - intros rest IH r. cbn. now rewrite IH.
    - intros p IHp weak dd rest IHr r. cbn. now rewrite app_length, IHp, IHr.
  Qed.

  Definition rpost (S : list label) (st : state) (x : res) : Prop :=
    match x with
    | Ok s | Err _ s => vmono st s
    | Restart s => vmono st s /\ exists id, In id S /\ verified id st = false /\ verified id s = true
    | _ => True
    end.

  Lemma rpost_weaken S S' st st' x :
    vmono st st' -> incl S' S -> rpost S' st' x -> rpost S st x.
  Proof.
    intros V I. destruct x as [s|s|e s| |]; cbn; auto.
    - intros H. eapply vmono_trans; eauto.
    - intros [H (id & Hi & F & T0)]. split; [eapply vmono_trans; eauto|].
      exists id. split; [now apply I|]. split; [|exact T0].
      destruct (verified id st) eqn:E; [|reflexivity]. apply V in E. congruence.
    - intros H. eapply vmono_trans; eauto.
  Qed.

  Lemma cook_checkout_rpost r rest st : rpost (src_ids_items r (ISrc rest)) st (cook_checkout c r st).
  Proof.
    unfold cook_checkout. destruct (memN (r_src r) (corun st)); [apply vmono_refl|].
    pose proof (do_checkout_srcids r st) as D. unfold verify_src. rewrite D.
    destruct (lookupN (r_src r) (srcids st)) as [[b pr]|] eqn:E; [|cbn; now apply vmono_same].
    destruct (beqb b (r_srcid r)); [cbn; now apply vmono_same|].
    destruct pr; [|exact I]. cbn.
    assert (V1 : verified (r_src r) st = false) by (unfold verified; now rewrite E).
    split.
    - intros id H. unfold verified in *. cbn. rewrite D. destruct (N.eqb id (r_src r)) eqn:B; [reflexivity | exact H].
    - exists (r_src r). split; [now left|]. split; [exact V1|]. unfold verified. cbn. now rewrite N.eqb_refl.
  Qed.

  Lemma upd_vmono id st s : upd id st s -> vmono st s.
  Proof. intros U. apply vmono_same. eapply upd_srcids; eauto. Qed.

  Lemma cook_rpost :
    (forall p d st, rpost (src_ids p) st (cook d p st)) /\
    (forall its d r st, rpost (src_ids_items r its) st (cook_items d r its st)).
  Proof.
    apply pkg_items_mutind.
    - intros r its IH d st. rewrite cook_eq.
      destruct (memN (r_id r) (wasrun st)); [apply vmono_refl|]. cbn zeta.
      assert (V1 : vmono st (unshare r (prepare r st))).
      { eapply vmono_trans; [eapply upd_vmono, prepare_upd | eapply upd_vmono, unshare_upd]. }
      destruct (get_bid bidf c (Pkg r its) (unshare r (prepare r st))) as [b st2] eqn:G.
      apply (proj1 get_bid_vmono) in G.
      assert (V2 : vmono st st2) by (eapply vmono_trans; eauto).
      assert (DP : match dl_phase hashW c r d b st2 with DlDone _ s | DlErr _ s => vmono st2 s end).
      { unfold dl_phase. destruct (memN (r_id r) (tried st2)); [apply vmono_refl|].
        pose proof (download_upd hashW c r d b st2) as DU.
        destruct (download hashW c r d b st2); [|eapply upd_vmono; eauto].
        eapply vmono_trans; [eapply upd_vmono; eauto | now apply vmono_same]. }
      destruct (dl_phase hashW c r d b st2) as [got s|e s]; [|cbn; eapply vmono_trans; eauto].
      destruct got; [cbn; eapply vmono_trans; [exact V2|]; eapply vmono_trans; [exact DP | now apply vmono_same]|].
      assert (V3 : vmono st s) by (eapply vmono_trans; eauto).
      specialize (IH d r s).
      eapply (rpost_weaken _ (src_ids_items r its)); [exact V3 | apply incl_refl |].
      destruct (cook_items d r its s) as [s1|s1|e s1| |]; cbn [rpost] in IH |- *; auto.
      unfold finish. destruct (memN (r_id r) (wasrun s1)); [exact IH|].
      pose proof (local_step_upd hashW run_build run_pkg c r its b s1) as LU.
      destruct (local_step hashW run_build run_pkg c r its b s1) as [built s2]. cbn [snd] in LU.
      cbn [rpost]. eapply vmono_trans; [exact IH|]. eapply vmono_trans; [eapply upd_vmono; eauto|].
      apply vmono_same. destruct built; [|reflexivity].
      unfold upload. destruct (c_can_upload c && (d <=? c_upload_depth c)); [|reflexivity].
      destruct (lookupB b (arch (set_wasrun s2 (r_id r :: wasrun s2)))); reflexivity.
    - intros d r st. apply vmono_refl.
    - intros rest IH d r st. rewrite cook_items_src.
      pose proof (cook_checkout_rpost r rest st) as CP.
      destruct (cook_checkout c r st) as [s|s|e s| |]; try exact CP; try exact I.
      cbn [rpost] in CP. eapply (rpost_weaken _ (src_ids_items r rest)); [exact CP | | apply IH].
      intros x Hx. cbn. now right.
    - intros p IHp weak dd rest IHr d r st. rewrite cook_items_dep.
      specialize (IHp (d + dd) st).
      destruct (cook (d + dd) p st) as [s|s|e s| |]; cbn [rpost] in IHp |- *; auto.
      + eapply (rpost_weaken _ (src_ids_items r rest)); [exact IHp | | apply IHr].
        intros x Hx. cbn. apply in_app_iff. now right.
      + destruct IHp as [V (id & Hi & F & T0)]. split; [exact V|]. exists id. split; [|auto].
        cbn. apply in_app_iff. now left.
  Qed.

  Definition unverified (S : list label) (st : state) : nat :=
    length (filter (fun id => negb (verified id st)) S).

  Lemma unverified_le S st s : vmono st s -> (unverified S s <= unverified S st)%nat.
  Proof.
    intros V. unfold unverified. induction S as [|x S IH]; cbn; [lia|].
    destruct (verified x st) eqn:E.
    - rewrite (V _ E). cbn. exact IH.
    - cbn. destruct (verified x s); cbn; lia.
  Qed.

  Lemma unverified_lt S st s id :
    vmono st s -> In id S -> verified id st = false -> verified id s = true ->
    (unverified S s < unverified S st)%nat.
  Proof.
    intros V. unfold unverified. induction S as [|x S IH]; cbn; [intros []|].
    intros [->|Hi] F T0.
    - rewrite F, T0. cbn. pose proof (unverified_le S st s V). unfold unverified in *. lia.
    - specialize (IH Hi F T0). destruct (verified x st) eqn:E.
      + rewrite (V _ E). cbn. exact IH.
      + cbn. destruct (verified x s); cbn; lia.
  Qed.

  Lemma cook_loop_fuel root fuel st :
    (unverified (src_ids root) st < fuel)%nat ->
    cook_loop hashW bidf run_build run_pkg c fuel root st <> OutOfFuel.
  Proof.
    revert st. induction fuel as [|f IH]; intros st H; [lia|]. cbn [cook_loop].
    pose proof (proj1 cook_rpost root 0 st) as R.
    destruct (cook 0 root st) as [s|s|e s| |] eqn:CK; try discriminate.
    - cbn [rpost] in R. destruct R as [V (id & Hi & F & T0)]. apply IH.
      pose proof (unverified_lt _ _ _ _ V Hi F T0). lia.
    - (* cook never answers OutOfFuel *)
      exfalso. revert CK. clear. generalize 0 at 1. intros d.
      assert (X : (forall p d st, cook d p st <> OutOfFuel) /\ (forall its d r st, cook_items d r its st <> OutOfFuel)).
      { apply pkg_items_mutind.
        - intros r its IH d0 st0. rewrite cook_eq. destruct (memN (r_id r) (wasrun st0)); [discriminate|]. cbn zeta.
          destruct (get_bid bidf c (Pkg r its) (unshare r (prepare r st0))) as [b st2].
          destruct (dl_phase hashW c r d0 b st2) as [[|] s|e s]; try discriminate.
          specialize (IH d0 r s). destruct (cook_items d0 r its s) as [s1|s1|e1 s1| |]; try discriminate; [|exact IH].
          unfold finish. destruct (memN (r_id r) (wasrun s1)); [discriminate|].
          destruct (local_step hashW run_build run_pkg c r its b s1). discriminate.
        - discriminate.
        - intros rest IH d0 r st0. rewrite cook_items_src. unfold cook_checkout, verify_src.
          destruct (memN (r_src r) (corun st0)); [apply IH|].
          destruct (lookupN (r_src r) (srcids (do_checkout c r st0))) as [[b pr]|]; [|apply IH].
          destruct (beqb b (r_srcid r)); [apply IH|]. destruct pr; discriminate.
        - intros p IHp weak dd rest IHr d0 r st0. rewrite cook_items_dep. specialize (IHp (d0 + dd) st0).
          destruct (cook (d0 + dd) p st0) as [s|s|e s| |]; try discriminate; [apply IHr | exact IHp]. }
      apply (proj1 X).
  Qed.

  Lemma invoke_terminates_proof root st0 :
    invoke hashW bidf run_build run_pkg c root st0 <> OutOfFuel.
  Proof.
    unfold invoke. apply cook_loop_fuel. unfold unverified.
    assert (H : forall (f : label -> bool) l, (length (filter f l) <= length l)%nat).
    { intros f l. induction l as [|x l IH]; cbn; [lia|]. destruct (f x); cbn; lia. }
    specialize (H (fun id => negb (verified id (begin_invocation st0))) (src_ids root)).
    rewrite (proj1 src_ids_length) in H. lia.
  Qed.
End Termination.

(* ------------------------------------------------------------------ convergence after wrong predictions *)
Section Converge.
  Variable hashW : bytes -> bytes.
  Variable bidf : recipe -> option bytes -> list bytes -> bytes.
  Variable run_build : recipe -> list bytes -> bytes.
  Variable run_pkg : recipe -> bytes -> bytes.

  Local Notation L := (local run_build run_pkg).

  Lemma wrong_prediction_converges_proof c root st0 :
    uniq_ids root -> src_consistent root -> c_can_upload c = false ->
    trusted_ws_all hashW bidf run_build run_pkg root st0 ->
    archive_sound_all hashW bidf run_build run_pkg root (arch st0) ->
    match invoke hashW bidf run_build run_pkg c root st0 with
    | Ok s =>
      content_of root s = L root /\
      (forall p, In p (nodes root) -> memN (pid p) (wasrun s) = true -> content_of p s = L p)
    | Err _ _ => True
    | _ => False
    end.
  Proof.
    intros U SC NU TW AS.
    assert (I0 : Inv hashW bidf run_build run_pkg root False False (begin_invocation st0)).
    { constructor; cbn; try discriminate; try (intros F; exfalso; exact F).
      - intros p Hp V. specialize (TW p Hp V). change (getws (pid p) (begin_invocation st0)) with (getws (pid p) st0).
        destruct (s_inputs (getws (pid p) st0)) as [|[|b ins]|b|b loc]; auto.
        intros (sa & _ & E). apply TW. now exists sa.
      - intros p sa a Hp _. now apply AS. }
    pose proof (cook_loop_post hashW bidf run_build run_pkg c root False False U SC
                               (fun f : False => match f with end) (fun f : False => match f with end)
                               (or_intror NU) (S (n_srcs root)) (begin_invocation st0) I0) as P.
    pose proof (invoke_terminates_proof hashW bidf run_build run_pkg c root st0) as NT.
    unfold invoke in *.
    destruct (cook_loop hashW bidf run_build run_pkg c (S (n_srcs root)) root (begin_invocation st0)) as [s|s|e s| |]; auto.
    destruct P as [I1 M]. split.
    - apply (inv_run _ _ _ _ _ _ _ _ I1 root (nodes_self root) M).
    - intros p Hp Mp. apply (inv_run _ _ _ _ _ _ _ _ I1 p Hp Mp).
  Qed.
End Converge.

(* ------------------------------------------------------------------ the builder-side check *)
Section Mismatch.
  Variable hashW : bytes -> bytes.
  Variable bidf : recipe -> option bytes -> list bytes -> bytes.
  Variable run_build : recipe -> list bytes -> bytes.
  Variable run_pkg : recipe -> bytes -> bytes.
  Variable c : cfg.

  Lemma dl_check_rejects r b a w1 st2 :
    ~ wellformed hashW a ->
    exists e, dl_check hashW r b a w1 st2 = DlErr e (putws (r_id r) (extracted_pws a w1) st2) /\
              (e = ErrNoAudit \/ e = ErrCorrupt).
  Proof.
    intros NW. unfold dl_check, wellformed in *. destruct (a_audit a) as [h|]; [|eauto].
    destruct (beqb h (hashW (a_content a))) eqn:B; [|eauto].
    apply beqb_eq in B. subst. now contradiction NW.
  Qed.

  Lemma mismatch_rejected_proof r d b st a :
    try_download c r d = true -> c_can_download c = true ->
    lookupB b (arch st) = Some a -> ~ wellformed hashW a ->
    s_result (getws (r_id r) st) = None \/
      bid_differs (dissect (s_inputs (getws (r_id r) st))) b = true \/ c_force c = true ->
    exists e s, download hashW c r d b st = DlErr e s /\ (e = ErrNoAudit \/ e = ErrCorrupt) /\
                s_result (getws (r_id r) s) = None.
  Proof.
    intros TRY CD LK NW H. unfold download. rewrite TRY. cbn [negb]. cbn zeta.
    destruct (bid_differs (dissect (s_inputs (getws (r_id r) st))) b || c_force c) eqn:PR.
    - unfold dl_fetch. cbn [pruned_pws s_result]. rewrite CD. cbn [arch ev]. rewrite LK.
      destruct (dl_check_rejects r b a (pruned_pws r (getws (r_id r) st))
                                 (ev (EDownload (r_id r) true) (ev (EPrune (r_id r) (if bid_differs (dissect (s_inputs (getws (r_id r) st))) b then PrBuildId else PrForced)) st)) NW)
        as (e & E & He).
      rewrite E. exists e. eexists. split; [reflexivity|]. split; [exact He|]. now rewrite getws_putws_same.
    - apply orb_false_iff in PR. destruct PR as [P1 P2].
      destruct H as [H|[H|H]]; try congruence.
      unfold dl_fetch. cbn [touch_pws s_result]. rewrite H, CD, LK.
      destruct (dl_check_rejects r b a (touch_pws (getws (r_id r) st)) (ev (EDownload (r_id r) true) st) NW) as (e & E & He).
      rewrite E. exists e. eexists. split; [reflexivity|]. split; [exact He|]. rewrite getws_putws_same. exact H.
  Qed.

  (* whatever is marked "downloaded" carries an audit trail that records the hash of exactly the tree in the workspace *)
  Definition audit_ok (st : state) : Prop :=
    forall id, match s_inputs (getws id st) with
               | PvBytes _ => w_audit (getws id st) = Some (hashW (w_content (getws id st)))
               | _ => True
               end.

  Definition pws_ok (w : pws) : Prop :=
    match s_inputs w with PvBytes _ => w_audit w = Some (hashW (w_content w)) | _ => True end.

  Lemma audit_ok_putws id w st : audit_ok st -> pws_ok w -> audit_ok (putws id w st).
  Proof.
    intros A W id'. destruct (N.eq_dec id' id) as [->|NE].
    - rewrite getws_putws_same. exact W.
    - rewrite getws_putws_other by exact NE. apply A.
  Qed.

  Lemma audit_ok_same st s : ws s = ws st -> audit_ok st -> audit_ok s.
  Proof. intros E A id. unfold getws. rewrite E. apply A. Qed.

  Lemma prepare_audit r st : audit_ok st -> audit_ok (prepare r st).
  Proof.
    intros A. unfold prepare.
    destruct (w_exists (getws (r_id r) st) && negb (eqb_option N.eqb (s_vid (getws (r_id r) st)) (Some (r_vid r)))).
    - apply audit_ok_putws; [exact A | exact I].
    - destruct (w_exists (getws (r_id r) st)); [exact A|]. apply audit_ok_putws; [exact A | exact I].
  Qed.

  Lemma unshare_audit r st : audit_ok st -> audit_ok (unshare r st).
  Proof.
    intros A. unfold unshare. destruct (d_shared (dissect (s_inputs (getws (r_id r) st)))); [|exact A].
    apply audit_ok_putws; [exact A | exact I].
  Qed.

  Lemma dl_fetch_audit r d b wd w1 st1 :
    audit_ok st1 -> pws_ok w1 ->
    match dl_fetch hashW c r d b wd w1 st1 with DlDone _ s => audit_ok s | DlErr _ _ => True end.
  Proof.
    intros A W. unfold dl_fetch. destruct (s_result w1).
    - destruct wd; apply audit_ok_putws; auto.
    - destruct (if c_can_download c then lookupB b (arch st1) else None) as [a|].
      + unfold dl_check. destruct (a_audit a) as [h|] eqn:AU; [|exact I].
        destruct (beqb h (hashW (a_content a))) eqn:B; [|exact I].
        apply beqb_eq in B. apply audit_ok_putws; [exact A|]. unfold pws_ok. cbn. now rewrite AU, B.
      + destruct (c_force_depth c <=? d); [exact I|]. apply audit_ok_putws; [|exact W].
        destruct (c_can_download c); exact A.
  Qed.

  Lemma download_audit r d b st :
    audit_ok st -> match download hashW c r d b st with DlDone _ s => audit_ok s | DlErr _ _ => True end.
  Proof.
    intros A. unfold download. destruct (negb (try_download c r d)); [exact A|]. cbn zeta.
    destruct (bid_differs (dissect (s_inputs (getws (r_id r) st))) b || c_force c).
    - apply dl_fetch_audit; [exact A | exact I].
    - apply dl_fetch_audit; [exact A | apply (A (r_id r))].
  Qed.

  Lemma local_step_audit r its b st : audit_ok st -> audit_ok (snd (local_step hashW run_build run_pkg c r its b st)).
  Proof.
    intros A. unfold local_step.
    match goal with |- context [if ?X then _ else _] => destruct X end; cbn [snd].
    - apply audit_ok_putws; [exact A | apply (A (r_id r))].
    - apply audit_ok_putws; [exact A | exact I].
  Qed.

  Lemma cook_audit :
    (forall p d st, audit_ok st ->
        match cook hashW bidf run_build run_pkg c d p st with Ok s | Restart s => audit_ok s | _ => True end) /\
    (forall its d r st, audit_ok st ->
        match cook_items hashW bidf run_build run_pkg c d r its st with Ok s | Restart s => audit_ok s | _ => True end).
  Proof.
    apply pkg_items_mutind.
    - intros r its IH d st A. rewrite cook_eq. destruct (memN (r_id r) (wasrun st)); [exact A|]. cbn zeta.
      pose proof (unshare_audit r _ (prepare_audit r st A)) as A1.
      destruct (get_bid bidf c (Pkg r its) (unshare r (prepare r st))) as [b st2] eqn:G.
      apply (proj1 (get_bid_keeps bidf c)) in G. destruct G as (K1 & _).
      pose proof (audit_ok_same _ st2 K1 A1) as A2.
      assert (DP : match dl_phase hashW c r d b st2 with DlDone _ s => audit_ok s | DlErr _ _ => True end).
      { unfold dl_phase. destruct (memN (r_id r) (tried st2)); [exact A2|].
        pose proof (download_audit r d b st2 A2) as DA. destruct (download hashW c r d b st2) as [g0 s0|e0 s0]; [|exact I].
        now apply (audit_ok_same s0). }
      destruct (dl_phase hashW c r d b st2) as [got s|e s]; [|exact I].
      destruct got; [now apply (audit_ok_same s)|].
      specialize (IH d r s DP). destruct (cook_items hashW bidf run_build run_pkg c d r its s) as [s1|s1|e s1| |]; auto.
      unfold finish. destruct (memN (r_id r) (wasrun s1)); [exact IH|].
      pose proof (local_step_audit r its b s1 IH) as LA.
      destruct (local_step hashW run_build run_pkg c r its b s1) as [built s2]. cbn [snd] in LA.
      destruct built; [|now apply (audit_ok_same s2)].
      unfold upload. destruct (c_can_upload c && (d <=? c_upload_depth c)); [|now apply (audit_ok_same s2)].
      destruct (lookupB b (arch (set_wasrun s2 (r_id r :: wasrun s2)))); now apply (audit_ok_same s2).
    - intros d r st A. exact A.
    - intros rest IH d r st A. rewrite cook_items_src. unfold cook_checkout.
      destruct (memN (r_src r) (corun st)); [now apply IH|].
      pose proof (do_checkout_keeps c r st) as (K1 & _).
      pose proof (audit_ok_same _ _ K1 A) as A1.
      unfold verify_src. destruct (lookupN (r_src r) (srcids (do_checkout c r st))) as [[b pr]|]; [|now apply IH].
      destruct (beqb b (r_srcid r)); [now apply IH|]. destruct pr; [|exact I].
      now apply (audit_ok_same (do_checkout c r st)).
    - intros p IHp weak dd rest IHr d r st A. rewrite cook_items_dep.
      specialize (IHp (d + dd) st A).
      destruct (cook hashW bidf run_build run_pkg c (d + dd) p st) as [s|s|e s| |]; auto.
      now apply IHr.
  Qed.

  Lemma downloaded_matches_audit_proof root st0 :
    audit_ok st0 ->
    match invoke hashW bidf run_build run_pkg c root st0 with Ok s => audit_ok s | _ => True end.
  Proof.
    intros A. unfold invoke.
    assert (A0 : audit_ok (begin_invocation st0)) by (now apply (audit_ok_same st0)).
    generalize (S (n_srcs root)) as fuel. generalize dependent (begin_invocation st0). clear A.
    intros st A fuel. revert st A. induction fuel as [|f IH]; intros st A; cbn [cook_loop]; [exact I|].
    pose proof (proj1 cook_audit root 0 st A) as CA.
    destruct (cook hashW bidf run_build run_pkg c 0 root st) as [s|s|e s| |]; auto.
    now apply IH.
  Qed.
End Mismatch.

(* ------------------------------------------------------------------ honest archives *)
Lemma honest_archive_sound_proof hashW bidf run_build run_pkg root ar :
  honest hashW bidf run_build run_pkg ar -> ids_sound bidf run_build run_pkg ->
  archive_sound_for hashW bidf run_build run_pkg root ar.
Proof.
  intros Ho Is p a Hp LK WF. destruct (Ho _ _ LK WF) as (q & E & C). rewrite C. now apply Is.
Qed.

Lemma download_equals_local_honest_proof hashW bidf run_build run_pkg c root st0 :
  uniq_ids root -> src_consistent root -> live_consistent root -> ids_sound bidf run_build run_pkg ->
  trusted_ws hashW bidf run_build run_pkg root st0 -> translations_right root st0 ->
  honest hashW bidf run_build run_pkg (arch st0) ->
  match invoke hashW bidf run_build run_pkg c root st0 with
  | Ok s =>
    content_of root s = local run_build run_pkg root /\
    (forall p, In p (nodes root) -> memN (pid p) (wasrun s) = true -> content_of p s = local run_build run_pkg p)
  | Err _ _ => True
  | _ => False
  end.
Proof.
  intros U SC LC IS TW TR HO.
  pose proof (download_equals_local_proof hashW bidf run_build run_pkg c root st0 U SC LC
                (fun p q _ _ E => IS p q E) TW TR (honest_archive_sound_proof _ _ _ _ root _ HO IS)) as P.
  destruct (invoke hashW bidf run_build run_pkg c root st0); auto.
  destruct P as (_ & P1 & P2 & _). auto.
Qed.
