(* C07 — model of the decision logic that reuses binary artifacts.
   Definitions only.

   pym/bob/builder.py
     dissectPackageInputState (136-165) and the three persisted shapes,
     __setDownloadMode (494-517; the table itself is regenerated into
       Gen/ConstsC07.v from the current source),
     _cookStep, package-step branch (1111-1163): prepare, build-id, download
       tried once per invocation, else recurse and build, upload,
     _preparePackageStep (1432-1457), _useSharedPackage (non-shared path),
     _downloadPackage (1553-1651), _cookPackageStep (1653-1700),
     live build-ids: __getCheckoutStepBuildId / __translateLiveBuildId /
       __getBuildIdSingle (1779-1890), the comparison at the end of
       _cookCheckoutStep (1368-1375), __handleChangedBuildId (1892-1919),
       cook()'s restart loop (1003-1048).

   Abstractions (all tied by the correspondence in harness/props/c07.py):
   * a package node stands for the package step together with its build step;
     its items are, in the order of Step.getAllDepSteps(), the own checkout
     step (ISrc) and the package steps of dependencies and tools (IDep);
   * the checkout step of a node is identified by r_src (its workspace); several
     package nodes may share one checkout step, its attributes (r_srcid,
     r_haslive, r_live, r_livecalc) are then repeated in each of them
     (Spec.src_consistent);
   * the archive is a finite map  build-id -> artifact  plus the map
     live-build-id -> source build-id;
   * scripts are the section variables run_build / run_pkg, the directory
     hash is hashW, the Build-Id digest (Ids/Model.v build_id) is bidf. *)
From Coq Require Import List NArith Bool.
Require Import BobV.Common.Cases BobV.Gen.ConstsC07.
Import ListNotations.
Open Scope N_scope.

Definition label := N.
Definition bytes := list N.
Definition beqb : bytes -> bytes -> bool := eqb_list N.eqb.

(* ------------------------------------------------------------------ *)
(* persisted package input state (BobState().getInputHashes(dist))      *)

Inductive pyval :=
| PvNone                                  (* nothing stored *)
| PvList (l : list bytes)                 (* built: [BuildId, InputHash1, ...] *)
| PvBytes (b : bytes)                     (* downloaded: BuildId *)
| PvTuple (b : bytes) (loc : bytes).      (* shared: (BuildId, Path) *)

Definition packageInputDownloaded (b : bytes) : pyval := PvBytes b.
Definition packageInputBuilt (b : bytes) (ins : list bytes) : pyval := PvList (b :: ins).
Definition packageInputShared (b loc : bytes) : pyval := PvTuple b loc.

Inductive dinput := DiNone | DiList (l : list bytes) | DiStr (s : bytes).
Inductive dbid := DbNone | DbBytes (b : bytes) | DbEmptyList.

Record dissected := {
  d_down : bool;        (* oldWasDownloaded *)
  d_shared : bool;      (* oldWasShared *)
  d_input : dinput;     (* oldInput *)
  d_bid : dbid          (* oldInputBuildId *)
}.

Definition dissect (v : pyval) : dissected :=
  match v with
  | PvList (b :: ins) => {| d_down := false; d_shared := false; d_input := DiList ins; d_bid := DbBytes b |}
  | PvList [] => {| d_down := false; d_shared := false; d_input := DiList []; d_bid := DbEmptyList |}
  | PvBytes b => {| d_down := true; d_shared := false; d_input := DiNone; d_bid := DbBytes b |}
  | PvTuple b loc => {| d_down := false; d_shared := true; d_input := DiStr loc; d_bid := DbBytes b |}
  | PvNone => {| d_down := false; d_shared := false; d_input := DiNone; d_bid := DbNone |}
  end.

(* ------------------------------------------------------------------ *)
(* download mode -> depth table (regenerated from __setDownloadMode)     *)

Fixpoint dl_find (mode : list N) (can : bool) (t : list (list N * bool * N * N * bool))
  : option (N * N * bool) :=
  match t with
  | [] => None
  | (m, c, d, f, p) :: r =>
    if eqb_str m mode && Bool.eqb c can then Some (d, f, p) else dl_find mode can r
  end.

Definition dl_lookup (mode : list N) (can : bool) : option (N * N * bool) :=
  dl_find mode can DL_TABLE.

Record cfg := {
  c_depth : N;            (* __downloadDepth *)
  c_force_depth : N;      (* __downloadDepthForce *)
  c_packages : bool;      (* __downloadPackages is set (mode packages=<re>) *)
  c_can_download : bool;  (* archive.canDownload() *)
  c_can_upload : bool;    (* archive.canUpload() *)
  c_upload_depth : N;     (* __uploadDepth *)
  c_force : bool          (* -f *)
}.

(* setLocalDownloadMode(mode) / setLocalUploadMode(upload) on an archive whose
   spec has the given flags *)
Definition cfg_of_mode (mode : list N) (flag_download flag_upload upload force : bool) : option cfg :=
  let want := negb (eqb_str mode [110; 111]) in            (* mode != 'no' *)
  let can := flag_download && want in
  match dl_lookup mode can with
  | None => None
  | Some (d, f, p) =>
    Some {| c_depth := d; c_force_depth := f; c_packages := p; c_can_download := can;
            c_can_upload := flag_upload && upload; c_upload_depth := UPLOAD_DEPTH_LOCAL;
            c_force := force |}
  end.

(* ------------------------------------------------------------------ *)
(* workspaces, archive, builder state                                   *)

Record artifact := {
  a_content : bytes;          (* the tree below content/ *)
  a_audit : option bytes      (* result hash recorded in meta/audit.json.gz; None = no audit trail *)
}.

Inductive rhash := RH (h : bytes) | RTS.      (* a directory hash, or the time stamp of an unfinished run *)

Record pws := {
  w_exists : bool;            (* os.path.lexists(dist workspace) *)
  w_content : bytes;          (* its files ([] = empty) *)
  w_audit : option bytes;     (* audit.json.gz next to it: recorded result hash *)
  s_vid : option label;       (* BobState directory state *)
  s_inputs : pyval;           (* BobState input hashes *)
  s_result : option rhash     (* BobState result hash *)
}.

Definition fresh_pws : pws :=
  {| w_exists := false; w_content := []; w_audit := None; s_vid := None; s_inputs := PvNone; s_result := None |}.

Inductive prune_reason := PrRecipe | PrBuildId | PrForced | PrUnshare.

Inductive event :=
| EQuery (id : label) (known : bool)            (* id: the checkout step (r_src) *)
| ECheckout (id : label)                        (* id: the checkout step (r_src) *)
| EPrune (id : label) (r : prune_reason)
| EDownload (id : label) (ok : bool)
| ESkipDownloaded (id : label)
| EPackage (id : label)
| ESkipUnchanged (id : label)
| EUpload (id : label) (stored : bool)
| ERestart.

Record state := {
  (* persistent, per workspace *)
  ws : list (label * pws);
  srcx : list label;                        (* source workspaces that exist (keyed by r_src) *)
  trc : list (bytes * bytes);               (* BobState build-id cache: live build-id -> build-id *)
  (* the shared archive *)
  arch : list (bytes * artifact);
  archl : list (bytes * bytes);
  (* per invocation (LocalBuilder attributes) *)
  wasrun : list label;                      (* __wasRun, build/package steps *)
  corun : list label;                       (* __wasRun, checkout steps (keyed by r_src) *)
  tried : list label;                       (* __wasDownloadTried *)
  srcids : list (label * (bytes * bool));   (* __srcBuildIds: r_src -> (build-id, predicted) *)
  bdids : list (label * bytes);             (* __buildDistBuildIds *)
  trace : list event                        (* newest first *)
}.

Fixpoint lookupN {A} (k : label) (l : list (label * A)) : option A :=
  match l with
  | [] => None
  | (k', v) :: r => if N.eqb k k' then Some v else lookupN k r
  end.

Fixpoint lookupB {A} (k : bytes) (l : list (bytes * A)) : option A :=
  match l with
  | [] => None
  | (k', v) :: r => if beqb k k' then Some v else lookupB k r
  end.

Fixpoint memN (k : label) (l : list label) : bool :=
  match l with
  | [] => false
  | x :: r => N.eqb k x || memN k r
  end.

Definition getws (id : label) (st : state) : pws :=
  match lookupN id (ws st) with Some w => w | None => fresh_pws end.

Definition set_ws st x := {| ws := x; srcx := srcx st; trc := trc st; arch := arch st; archl := archl st;
  wasrun := wasrun st; corun := corun st; tried := tried st; srcids := srcids st; bdids := bdids st; trace := trace st |}.
Definition set_srcx st x := {| ws := ws st; srcx := x; trc := trc st; arch := arch st; archl := archl st;
  wasrun := wasrun st; corun := corun st; tried := tried st; srcids := srcids st; bdids := bdids st; trace := trace st |}.
Definition set_trc st x := {| ws := ws st; srcx := srcx st; trc := x; arch := arch st; archl := archl st;
  wasrun := wasrun st; corun := corun st; tried := tried st; srcids := srcids st; bdids := bdids st; trace := trace st |}.
Definition set_arch st x := {| ws := ws st; srcx := srcx st; trc := trc st; arch := x; archl := archl st;
  wasrun := wasrun st; corun := corun st; tried := tried st; srcids := srcids st; bdids := bdids st; trace := trace st |}.
Definition set_archl st x := {| ws := ws st; srcx := srcx st; trc := trc st; arch := arch st; archl := x;
  wasrun := wasrun st; corun := corun st; tried := tried st; srcids := srcids st; bdids := bdids st; trace := trace st |}.
Definition set_wasrun st x := {| ws := ws st; srcx := srcx st; trc := trc st; arch := arch st; archl := archl st;
  wasrun := x; corun := corun st; tried := tried st; srcids := srcids st; bdids := bdids st; trace := trace st |}.
Definition set_corun st x := {| ws := ws st; srcx := srcx st; trc := trc st; arch := arch st; archl := archl st;
  wasrun := wasrun st; corun := x; tried := tried st; srcids := srcids st; bdids := bdids st; trace := trace st |}.
Definition set_tried st x := {| ws := ws st; srcx := srcx st; trc := trc st; arch := arch st; archl := archl st;
  wasrun := wasrun st; corun := corun st; tried := x; srcids := srcids st; bdids := bdids st; trace := trace st |}.
Definition set_srcids st x := {| ws := ws st; srcx := srcx st; trc := trc st; arch := arch st; archl := archl st;
  wasrun := wasrun st; corun := corun st; tried := tried st; srcids := x; bdids := bdids st; trace := trace st |}.
Definition set_bdids st x := {| ws := ws st; srcx := srcx st; trc := trc st; arch := arch st; archl := archl st;
  wasrun := wasrun st; corun := corun st; tried := tried st; srcids := srcids st; bdids := x; trace := trace st |}.
Definition ev (e : event) st := {| ws := ws st; srcx := srcx st; trc := trc st; arch := arch st; archl := archl st;
  wasrun := wasrun st; corun := corun st; tried := tried st; srcids := srcids st; bdids := bdids st; trace := e :: trace st |}.

Definition putws (id : label) (w : pws) (st : state) : state := set_ws st ((id, w) :: ws st).

(* ------------------------------------------------------------------ *)
(* the project: a package tree                                          *)

Record recipe := {
  r_id : label;             (* identity of the dist workspace *)
  r_src : label;            (* identity of the checkout step = its workspace path; package nodes that
                               differ only after checkout (variants of one recipe) share it.  All
                               checkout state of the builder (__wasRun of checkout steps, __srcBuildIds,
                               existence of the source workspace) is keyed by it, not by the package *)
  r_vid : label;            (* Variant-Id of the package step *)
  r_core : label;           (* everything of the node itself that enters the Build-Id: scripts, consumed
                               variables, tool names/paths/libs, fingerprint output, platform,
                               execution path if not relocatable *)
  r_match : bool;           (* --download=packages=<re> matches the package name *)
  r_haslive : bool;         (* checkout step: hasLiveBuildId() *)
  r_live : option bytes;    (* predictLiveBuildId(); None = the query fails *)
  r_livecalc : option bytes;(* calcLiveBuildId() of the checked-out workspace *)
  r_srcid : bytes;          (* hash of the checked-out sources = Build-Id of the checkout step *)
  r_fp : bytes;             (* fingerprint appended to the package input hashes ([] = none) *)
  r_argmask : list bool     (* which IDep items are "$@" arguments of the build script (used only by the
                               executable instance of run_build) *)
}.

Inductive pkg := Pkg (r : recipe) (its : items)
with items :=
| INil
| ISrc (rest : items)                                   (* the own checkout step *)
| IDep (p : pkg) (weak : bool) (dd : N) (rest : items). (* dependency / tool; weak: only its name enters the
                                                           Build-Id; dd: depth increment (2 through the
                                                           build step, 1 for tools of the package step) *)

Definition recipe_of (p : pkg) : recipe := match p with Pkg r _ => r end.
Definition items_of (p : pkg) : items := match p with Pkg _ its => its end.
Definition pid (p : pkg) : label := r_id (recipe_of p).

Fixpoint has_src (its : items) : bool :=
  match its with
  | INil => false
  | ISrc _ => true
  | IDep _ _ _ rest => has_src rest
  end.

Inductive err := ErrNoAudit | ErrCorrupt | ErrDownloadFailed.

Inductive res :=
| Ok (st : state)
| Restart (st : state)        (* RestartBuildException *)
| Err (e : err) (st : state)  (* BuildError *)
| Internal                    (* AssertionError "Non-predicted incorrect Build-Id found!" *)
| OutOfFuel.

Inductive dlres := DlDone (got : bool) (st : state) | DlErr (e : err) (st : state).

Section Model.
  Variable hashW : bytes -> bytes.                                  (* hashWorkspace *)
  Variable bidf : recipe -> option bytes -> list bytes -> bytes.    (* StepIR.getDigestCoro, package over build step *)
  Variable run_build : recipe -> list bytes -> bytes.               (* build step: dependency contents -> content *)
  Variable run_pkg : recipe -> bytes -> bytes.                      (* package step: build content -> content *)
  Variable c : cfg.

  (* ---- reference: what a purely local build produces, and the Build-Id *)
  Fixpoint local (p : pkg) : bytes :=
    match p with Pkg r its => run_pkg r (run_build r (local_items its)) end
  with local_items (its : items) : list bytes :=
    match its with
    | INil => []
    | ISrc rest => local_items rest
    | IDep q _ _ rest => local q :: local_items rest
    end.

  Fixpoint tbid (p : pkg) : bytes :=
    match p with Pkg r its => bidf r (if has_src its then Some (r_srcid r) else None) (tbid_items its) end
  with tbid_items (its : items) : list bytes :=
    match its with
    | INil => []
    | ISrc rest => tbid_items rest
    | IDep q weak _ rest => if weak then tbid_items rest else tbid q :: tbid_items rest
    end.

  (* ---- checkout step and live build-ids *)
  Definition translate (l : bytes) (st : state) : option bytes * state :=
    match lookupB l (trc st) with
    | Some b => (Some b, st)
    | None =>
      if c_can_download c then
        match lookupB l (archl st) with
        | Some b => (Some b, set_trc st ((l, b) :: trc st))
        | None => (None, st)
        end
      else (None, st)
    end.

  Definition do_checkout (r : recipe) (st : state) : state :=
    if memN (r_src r) (corun st) then st else
    let fresh := negb (memN (r_src r) (srcx st)) in
    let st1 := ev (ECheckout (r_src r)) (set_srcx st (r_src r :: srcx st)) in
    let st2 := if fresh && c_can_upload c && r_haslive r then
                 match r_livecalc r with
                 | Some l => set_archl st1 ((l, r_srcid r) :: archl st1)
                 | None => st1
                 end
               else st1 in
    set_corun st2 (r_src r :: corun st2).

  Definition handle_changed (r : recipe) (st : state) : state :=
    (* __srcBuildIds[key] = (hash, False); derived ids dropped (__buildDistBuildIds reset);
       _clearWasRun(): build/package steps forgotten; _clearDownloadTried(): downloads are
       tried again in the next pass *)
    let st1 := set_srcids st ((r_src r, (r_srcid r, false)) :: srcids st) in
    ev ERestart (set_tried (set_wasrun (set_bdids st1 []) []) []).

  Definition verify_src (r : recipe) (st : state) : res :=
    match lookupN (r_src r) (srcids st) with
    | None => Ok st
    | Some (b, predicted) =>
      if beqb b (r_srcid r) then Ok st
      else if predicted then Restart (handle_changed r st)
      else Internal
    end.

  Definition cook_checkout (r : recipe) (st : state) : res :=
    if memN (r_src r) (corun st) then Ok st else verify_src r (do_checkout r st).

  Definition src_bid (r : recipe) (st : state) : bytes * state :=
    match lookupN (r_src r) (srcids st) with
    | Some (b, _) => (b, st)
    | None =>
      let use_live := negb (memN (r_src r) (srcx st)) && r_haslive r && c_can_download c in
      let '(ret, st1) :=
        if use_live then
          let '(t, s) := match r_live r with Some l => translate l st | None => (None, st) end in
          (t, ev (EQuery (r_src r) (match t with Some _ => true | None => false end)) s)
        else (None, st) in
      match ret with
      | Some b => (b, set_srcids st1 ((r_src r, (b, true)) :: srcids st1))
      | None =>
        let st2 := do_checkout r st1 in
        (r_srcid r, set_srcids st2 ((r_src r, (r_srcid r, false)) :: srcids st2))
      end
    end.

  (* ---- Build-Id with the ids known so far (__getBuildIdSingle) *)
  Fixpoint get_bid (p : pkg) (st : state) : bytes * state :=
    match p with
    | Pkg r its =>
      match lookupN (r_id r) (bdids st) with
      | Some b => (b, st)
      | None =>
        let '(sb, kb, st1) := get_bid_items r its st in
        let b := bidf r sb kb in
        (b, set_bdids st1 ((r_id r, b) :: bdids st1))
      end
    end
  with get_bid_items (r : recipe) (its : items) (st : state) : option bytes * list bytes * state :=
    match its with
    | INil => (None, [], st)
    | ISrc rest =>
      let '(b, st1) := src_bid r st in
      let '(_, kb, st2) := get_bid_items r rest st1 in
      (Some b, kb, st2)
    | IDep q weak _ rest =>
      let '(b, st1) := get_bid q st in
      let '(sb, kb, st2) := get_bid_items r rest st1 in
      (sb, if weak then kb else b :: kb, st2)
    end.

  (* ---- _preparePackageStep, _useSharedPackage (package not shared) *)
  Definition reset_pws (r : recipe) (w : pws) : pws :=
    {| w_exists := w_exists w; w_content := w_content w; w_audit := w_audit w;
       s_vid := Some (r_vid r); s_inputs := PvNone; s_result := None |}.

  (* prune: resetWorkspaceState(path, None) first (an interrupted prune must not leave a state that
     describes the old result), then emptyDirectory + removePath(audit), then
     resetWorkspaceState(path, packageDigest) *)
  Definition invalidated_pws (w : pws) : pws :=
    {| w_exists := w_exists w; w_content := w_content w; w_audit := w_audit w;
       s_vid := None; s_inputs := PvNone; s_result := None |}.

  Definition emptied_pws (w : pws) : pws :=
    {| w_exists := true; w_content := []; w_audit := None;
       s_vid := s_vid w; s_inputs := s_inputs w; s_result := s_result w |}.

  Definition prepare (r : recipe) (st : state) : state :=
    let w := getws (r_id r) st in
    let changed := w_exists w && negb (eqb_option N.eqb (s_vid w) (Some (r_vid r))) in
    if changed then
      (* PRUNE (recipe changed): state invalidated first, directory emptied (the audit trail next to
         it stays), state reset to the new variant *)
      let w0 := invalidated_pws w in
      let w1 := {| w_exists := true; w_content := []; w_audit := w_audit w0;
                   s_vid := s_vid w0; s_inputs := s_inputs w0; s_result := s_result w0 |} in
      putws (r_id r) (reset_pws r w1) (ev (EPrune (r_id r) PrRecipe) st)
    else if w_exists w then st
    else putws (r_id r) (reset_pws r w) st.

  Definition unshare (r : recipe) (st : state) : state :=
    let w := getws (r_id r) st in
    if d_shared (dissect (s_inputs w)) then
      let w1 := {| w_exists := false; w_content := []; w_audit := None;
                   s_vid := s_vid w; s_inputs := s_inputs w; s_result := s_result w |} in
      putws (r_id r) (reset_pws r w1) (ev (EPrune (r_id r) PrUnshare) st)
    else st.

  (* ---- _downloadPackage *)
  Definition try_download (r : recipe) (d : N) : bool :=
    (c_depth c <=? d) || (c_packages c && r_match r).

  (* does the stored Build-Id differ from the current one? *)
  Definition bid_differs (ds : dissected) (b : bytes) : bool :=
    match d_bid ds with
    | DbNone => false
    | DbBytes ob => negb (beqb ob b)
    | DbEmptyList => true
    end.

  Definition touch_pws (w : pws) : pws :=          (* _constructDir: the directory exists afterwards *)
    {| w_exists := true; w_content := w_content w; w_audit := w_audit w;
       s_vid := s_vid w; s_inputs := s_inputs w; s_result := s_result w |}.

  Definition pruned_pws (r : recipe) (w : pws) : pws :=
    reset_pws r (emptied_pws (invalidated_pws w)).

  Definition extracted_pws (a : artifact) (w : pws) : pws :=   (* archive._extract *)
    {| w_exists := true; w_content := a_content a; w_audit := a_audit a;
       s_vid := s_vid w; s_inputs := s_inputs w; s_result := s_result w |}.

  Definition accepted_pws (r : recipe) (b : bytes) (a : artifact) : pws :=
    {| w_exists := true; w_content := a_content a; w_audit := a_audit a;
       s_vid := Some (r_vid r); s_inputs := packageInputDownloaded b;
       s_result := Some (RH (hashW (a_content a))) |}.

  (* an artifact was found: audit trail present? recorded result hash = hash of the extracted tree? *)
  Definition dl_check (r : recipe) (b : bytes) (a : artifact) (w1 : pws) (st2 : state) : dlres :=
    match a_audit a with
    | None => DlErr ErrNoAudit (putws (r_id r) (extracted_pws a w1) st2)
    | Some h =>
      if beqb h (hashW (a_content a)) then DlDone true (putws (r_id r) (accepted_pws r b a) st2)
      else DlErr ErrCorrupt (putws (r_id r) (extracted_pws a w1) st2)
    end.

  Definition dl_fetch (r : recipe) (d : N) (b : bytes) (was_down : bool) (w1 : pws) (st1 : state) : dlres :=
    match s_result w1 with
    | None =>
      match (if c_can_download c then lookupB b (arch st1) else None) with
      | Some a => dl_check r b a w1 (ev (EDownload (r_id r) true) st1)
      | None =>
        let st2 := putws (r_id r) w1 (if c_can_download c then ev (EDownload (r_id r) false) st1 else st1) in
        if c_force_depth c <=? d then DlErr ErrDownloadFailed st2 else DlDone false st2
      end
    | Some _ =>
      if was_down then DlDone true (ev (ESkipDownloaded (r_id r)) (putws (r_id r) w1 st1))
      else DlDone false (putws (r_id r) w1 st1)
    end.

  Definition download (r : recipe) (d : N) (b : bytes) (st : state) : dlres :=
    if negb (try_download r d) then DlDone false st else
    let w0 := getws (r_id r) st in
    let ds := dissect (s_inputs w0) in
    let differs := bid_differs ds b in
    if differs || c_force c then
      dl_fetch r d b (d_down ds) (pruned_pws r w0)
               (ev (EPrune (r_id r) (if differs then PrBuildId else PrForced)) st)
    else dl_fetch r d b (d_down ds) (touch_pws w0) st.

  (* ---- _cookPackageStep (with the build step in front of it) *)
  Fixpoint kid_contents (its : items) (st : state) : list bytes :=
    match its with
    | INil => []
    | ISrc rest => kid_contents rest st
    | IDep q _ _ rest => w_content (getws (pid q) st) :: kid_contents rest st
    end.

  Fixpoint tool_hashes (its : items) (st : state) : list bytes :=
    match its with
    | INil => []
    | ISrc rest => tool_hashes rest st
    | IDep q _ dd rest =>
      if N.eqb dd 1 then hashW (w_content (getws (pid q) st)) :: tool_hashes rest st
      else tool_hashes rest st
    end.

  Definition pkg_ins (r : recipe) (its : items) (buildc : bytes) (st : state) : list bytes :=
    (if has_src its then [r_srcid r] else []) ++ [hashW buildc] ++ tool_hashes its st
    ++ (match r_fp r with [] => [] | f => [f] end).

  Definition local_step (r : recipe) (its : items) (b : bytes) (st : state) : bool * state :=
    let id := r_id r in
    let w := getws id st in
    let ds := dissect (s_inputs w) in
    let buildc := run_build r (kid_contents its st) in
    let ins := pkg_ins r its buildc st in
    let same := match d_input ds with DiList l => eqb_list beqb l ins | _ => false end in
    if negb (c_force c) && same then
      (false, ev (ESkipUnchanged id)
                 (putws id {| w_exists := true; w_content := w_content w; w_audit := w_audit w;
                              s_vid := s_vid w; s_inputs := s_inputs w; s_result := s_result w |} st))
    else
      let cnt := run_pkg r buildc in
      (true, ev (EPackage id)
                (putws id {| w_exists := true; w_content := cnt; w_audit := Some (hashW cnt);
                             s_vid := s_vid w; s_inputs := packageInputBuilt b ins;
                             s_result := Some (RH (hashW cnt)) |} st)).

  Definition upload (r : recipe) (d : N) (b : bytes) (st : state) : state :=
    if c_can_upload c && (d <=? c_upload_depth c) then
      let w := getws (r_id r) st in
      match lookupB b (arch st) with
      | Some _ => ev (EUpload (r_id r) false) st
      | None => ev (EUpload (r_id r) true)
                   (set_arch st ((b, {| a_content := w_content w; a_audit := w_audit w |}) :: arch st))
      end
    else st.

  (* ---- _cookStep for a package step, _cook for its dependencies *)
  Fixpoint cook (d : N) (p : pkg) (st : state) : res :=
    match p with
    | Pkg r its =>
      let id := r_id r in
      if memN id (wasrun st) then Ok st else
      let st1 := unshare r (prepare r st) in
      let '(b, st2) := get_bid (Pkg r its) st1 in
      let dl := if memN id (tried st2) then DlDone false st2
                else match download r d b st2 with
                     | DlDone g s => DlDone g (set_tried s (id :: tried s))
                     | e => e
                     end in
      match dl with
      | DlErr e s => Err e s
      | DlDone true s => Ok (set_wasrun s (id :: wasrun s))
      | DlDone false s =>
        match cook_items d r its s with
        | Ok s1 =>
          if memN id (wasrun s1) then Ok s1 else
          let '(built, s2) := local_step r its b s1 in
          let s3 := set_wasrun s2 (id :: wasrun s2) in
          Ok (if built then upload r d b s3 else s3)
        | other => other
        end
      end
    end
  with cook_items (d : N) (r : recipe) (its : items) (st : state) : res :=
    match its with
    | INil => Ok st
    | ISrc rest =>
      match cook_checkout r st with
      | Ok s => cook_items d r rest s
      | other => other
      end
    | IDep q _ dd rest =>
      match cook (d + dd) q st with
      | Ok s => cook_items d r rest s
      | other => other
      end
    end.

  (* LocalBuilder.cook(): repeat while a restart was requested *)
  Fixpoint cook_loop (fuel : nat) (p : pkg) (st : state) : res :=
    match fuel with
    | O => OutOfFuel
    | S f =>
      match cook 0 p st with
      | Restart st' => cook_loop f p st'
      | other => other
      end
    end.

  Fixpoint n_srcs (p : pkg) : nat :=
    match p with Pkg _ its => n_srcs_items its end
  with n_srcs_items (its : items) : nat :=
    match its with
    | INil => O
    | ISrc rest => S (n_srcs_items rest)
    | IDep q _ _ rest => (n_srcs q + n_srcs_items rest)%nat
    end.

  (* one "bob dev <root>" in a workspace *)
  Definition begin_invocation (st : state) : state :=
    {| ws := ws st; srcx := srcx st; trc := trc st; arch := arch st; archl := archl st;
       wasrun := []; corun := []; tried := []; srcids := []; bdids := []; trace := [] |}.

  Definition invoke (root : pkg) (st : state) : res :=
    cook_loop (S (n_srcs root)) root (begin_invocation st).
End Model.

(* ------------------------------------------------------------------ *)
(* executable instance used by the correspondence: free encodings        *)

Definition lenpref (x : bytes) : bytes := N.of_nat (length x) :: x.

Definition hashW_x (x : bytes) : bytes := x.

Definition bidf_x (r : recipe) (sb : option bytes) (kb : list bytes) : bytes :=
  r_core r :: (match sb with None => [0] | Some s => 1 :: lenpref s end) ++ flat_map lenpref kb.

Fixpoint mask {A} (m : list bool) (l : list A) : list A :=
  match m, l with
  | true :: m', x :: l' => x :: mask m' l'
  | false :: m', _ :: l' => mask m' l'
  | _, _ => []
  end.

Definition run_build_x (r : recipe) (kids : list bytes) : bytes :=
  1 :: r_vid r :: lenpref (r_srcid r) ++ flat_map lenpref (mask (r_argmask r) kids).

Definition run_pkg_x (r : recipe) (buildc : bytes) : bytes := 2 :: r_vid r :: buildc.

(* ---- histories over two workspaces and one archive *)
Record wstate := { p_ws : list (label * pws); p_srcx : list label; p_trc : list (bytes * bytes) }.
Definition fresh_wstate : wstate := {| p_ws := []; p_srcx := []; p_trc := [] |}.

Record world := {
  wd_a : wstate; wd_b : wstate;
  wd_arch : list (bytes * artifact);
  wd_archl : list (bytes * bytes)
}.
Definition fresh_world : world :=
  {| wd_a := fresh_wstate; wd_b := fresh_wstate; wd_arch := []; wd_archl := [] |}.

Inductive tamper :=
| TPlant (src dst : pkg)              (* store the artifact of [src] under the Build-Id of [dst] *)
| TCorrupt (p : pkg)                  (* change the content of p's artifact, keep its audit trail *)
| TStripAudit (p : pkg)               (* remove the audit trail of p's artifact *)
| TDelete (p : pkg)                   (* remove p's artifact *)
| TWrongLive (p : pkg) (b : bytes)    (* map p's live build-id to b *)
| TWipe (in_b : bool).                (* delete a workspace (all of its state) *)

Inductive hstep :=
| HRun (in_b : bool) (c : cfg) (root : pkg)
| HTamper (t : tamper).

Fixpoint removeB {A} (k : bytes) (l : list (bytes * A)) : list (bytes * A) :=
  match l with
  | [] => []
  | (k', v) :: r => if beqb k k' then removeB k r else (k', v) :: removeB k r
  end.

Definition tbid_x := tbid bidf_x.

Definition apply_tamper (t : tamper) (w : world) : world :=
  match t with
  | TPlant src dst =>
    match lookupB (tbid_x src) (wd_arch w) with
    | Some a => {| wd_a := wd_a w; wd_b := wd_b w; wd_arch := (tbid_x dst, a) :: wd_arch w; wd_archl := wd_archl w |}
    | None => w
    end
  | TCorrupt p =>
    match lookupB (tbid_x p) (wd_arch w) with
    | Some a => {| wd_a := wd_a w; wd_b := wd_b w;
                   wd_arch := (tbid_x p, {| a_content := 99 :: a_content a; a_audit := a_audit a |}) :: wd_arch w;
                   wd_archl := wd_archl w |}
    | None => w
    end
  | TStripAudit p =>
    match lookupB (tbid_x p) (wd_arch w) with
    | Some a => {| wd_a := wd_a w; wd_b := wd_b w;
                   wd_arch := (tbid_x p, {| a_content := a_content a; a_audit := None |}) :: wd_arch w;
                   wd_archl := wd_archl w |}
    | None => w
    end
  | TDelete p =>
    {| wd_a := wd_a w; wd_b := wd_b w; wd_arch := removeB (tbid_x p) (wd_arch w); wd_archl := wd_archl w |}
  | TWrongLive p b =>
    match r_live (recipe_of p) with
    | Some l => {| wd_a := wd_a w; wd_b := wd_b w; wd_arch := wd_arch w; wd_archl := (l, b) :: wd_archl w |}
    | None => w
    end
  | TWipe in_b =>
    if in_b then {| wd_a := wd_a w; wd_b := fresh_wstate; wd_arch := wd_arch w; wd_archl := wd_archl w |}
    else {| wd_a := fresh_wstate; wd_b := wd_b w; wd_arch := wd_arch w; wd_archl := wd_archl w |}
  end.

Definition state_of (in_b : bool) (w : world) : state :=
  let p := if in_b then wd_b w else wd_a w in
  {| ws := p_ws p; srcx := p_srcx p; trc := p_trc p; arch := wd_arch w; archl := wd_archl w;
     wasrun := []; corun := []; tried := []; srcids := []; bdids := []; trace := [] |}.

Definition world_of (in_b : bool) (w : world) (st : state) : world :=
  let p := {| p_ws := ws st; p_srcx := srcx st; p_trc := trc st |} in
  {| wd_a := if in_b then wd_a w else p; wd_b := if in_b then p else wd_b w;
     wd_arch := arch st; wd_archl := archl st |}.

(* what is compared with the real tool after every invocation *)
Inductive outcome := OOk | ORestartLeft | OErr (e : err) | OInternal | OOutOfFuel.

Record pobs := {
  o_id : label;
  o_kind : N;               (* persisted input state: 0 none, 1 built, 2 downloaded, 3 shared/other *)
  o_bid_true : bool;        (* the recorded Build-Id is the Build-Id of the node *)
  o_has_result : bool;      (* a result hash is stored *)
  o_local : bool;           (* the workspace content is what a local build produces *)
  o_in_archive : bool       (* an artifact is stored under the node's Build-Id *)
}.

Record obs := { ob_outcome : outcome; ob_trace : list event; ob_pkgs : list pobs }.

Fixpoint nodes (p : pkg) : list pkg :=
  match p with Pkg r its => Pkg r its :: nodes_items its end
with nodes_items (its : items) : list pkg :=
  match its with
  | INil => []
  | ISrc rest => nodes_items rest
  | IDep q _ _ rest => nodes q ++ nodes_items rest
  end.

Fixpoint dedup_nodes (seen : list label) (l : list pkg) : list pkg :=
  match l with
  | [] => []
  | p :: r => if memN (pid p) seen then dedup_nodes seen r else p :: dedup_nodes (pid p :: seen) r
  end.

Definition observe_pkg (st : state) (p : pkg) : pobs :=
  let w := getws (pid p) st in
  let ds := dissect (s_inputs w) in
  {| o_id := pid p;
     o_kind := match s_inputs w with PvNone => 0 | PvList _ => 1 | PvBytes _ => 2 | PvTuple _ _ => 3 end;
     o_bid_true := match d_bid ds with DbBytes b => beqb b (tbid_x p) | _ => false end;
     o_has_result := match s_result w with Some (RH _) => true | _ => false end;
     o_local := w_exists w && beqb (w_content w) (local run_build_x run_pkg_x p);
     o_in_archive := match lookupB (tbid_x p) (arch st) with Some _ => true | None => false end |}.

Definition invoke_x (c : cfg) (root : pkg) (st : state) : res :=
  invoke hashW_x bidf_x run_build_x run_pkg_x c root st.

Definition run_step (h : hstep) (w : world) : world * list obs :=
  match h with
  | HTamper t => (apply_tamper t w, [])
  | HRun in_b c root =>
    let st0 := state_of in_b w in
    let mk o st := {| ob_outcome := o; ob_trace := rev (trace st);
                      ob_pkgs := map (observe_pkg st) (dedup_nodes [] (nodes root)) |} in
    match invoke_x c root st0 with
    | Ok st => (world_of in_b w st, [mk OOk st])
    | Restart st => (world_of in_b w st, [mk ORestartLeft st])
    | Err e st => (world_of in_b w st, [mk (OErr e) st])
    | Internal => (w, [{| ob_outcome := OInternal; ob_trace := []; ob_pkgs := [] |}])
    | OutOfFuel => (w, [{| ob_outcome := OOutOfFuel; ob_trace := []; ob_pkgs := [] |}])
    end
  end.

Fixpoint run_history (hs : list hstep) (w : world) : list obs :=
  match hs with
  | [] => []
  | h :: r => let '(w', o) := run_step h w in o ++ run_history r w'
  end.

(* ---- flat encoding of observations (decoded by the harness) *)
Definition b2n (b : bool) : N := if b then 1 else 0.

Definition enc_event (e : event) : list N :=
  match e with
  | EQuery i k => [1; i; b2n k]
  | ECheckout i => [2; i]
  | EPrune i r => [3; i; match r with PrRecipe => 0 | PrBuildId => 1 | PrForced => 2 | PrUnshare => 3 end]
  | EDownload i ok => [4; i; b2n ok]
  | ESkipDownloaded i => [5; i]
  | EPackage i => [6; i]
  | ESkipUnchanged i => [7; i]
  | EUpload i s => [8; i; b2n s]
  | ERestart => [9]
  end.

Definition enc_outcome (o : outcome) : N :=
  match o with
  | OOk => 0 | ORestartLeft => 1 | OErr ErrNoAudit => 2 | OErr ErrCorrupt => 3
  | OErr ErrDownloadFailed => 4 | OInternal => 5 | OOutOfFuel => 6
  end.

Definition enc_pobs (p : pobs) : list N :=
  [o_id p; o_kind p; b2n (o_bid_true p); b2n (o_has_result p); b2n (o_local p); b2n (o_in_archive p)].

Definition enc_obs (o : obs) : list N :=
  [enc_outcome (ob_outcome o); N.of_nat (length (ob_trace o))] ++ flat_map (fun e => 99 :: enc_event e) (ob_trace o)
  ++ [N.of_nat (length (ob_pkgs o))] ++ flat_map enc_pobs (ob_pkgs o).

Definition enc_history (l : list obs) : list N := N.of_nat (length l) :: flat_map enc_obs l.

(* configuration of one invocation as cmds/build/build.py sets it up:
   setLocalUploadMode(upload); setLocalDownloadMode(mode) consults canDownload()
   while wantDownloadLocal is (mode != 'no'); setLocalDownloadLayerMode([]) then
   switches wantDownloadLocal on unconditionally. *)
Definition cfgm (mode : list N) (flag_download flag_upload upload force : bool) : cfg :=
  match cfg_of_mode mode flag_download flag_upload upload force with
  | Some c0 => {| c_depth := c_depth c0; c_force_depth := c_force_depth c0; c_packages := c_packages c0;
                  c_can_download := flag_download; c_can_upload := c_can_upload c0;
                  c_upload_depth := c_upload_depth c0; c_force := c_force c0 |}
  | None => {| c_depth := 0; c_force_depth := 0; c_packages := false; c_can_download := false;
               c_can_upload := false; c_upload_depth := 0; c_force := false |}
  end.
