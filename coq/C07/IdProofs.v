(* C07 — the id side: what an equal Build-Id says about the inputs of two steps.
   The encoder itself (Ids/Model.v build_id) and its round-trip parsers
   (Ids/Proofs.v) are imported, not copied. *)
From Coq Require Import List NArith Bool Lia Permutation.
Require Import BobV.Common.Sha1 BobV.Ids.Model BobV.Ids.Proofs BobV.Gen.ConstsC07.
Import ListNotations.
Open Scope N_scope.

(* the step a Build-Id describes, with the weak flags dropped *)
Definition strip_tool (nt : str * (tool * bool)) : str * tool := (fst nt, fst (snd nt)).

Definition strip_bid (s : bidin) : stepin :=
  {| si_fp_sandbox := None; si_script := bi_script s; si_tools := map strip_tool (bi_tools s);
     si_env := bi_env s; si_args := bi_args s |}.

Definition no_weak (s : bidin) : Prop := Forall (fun nt => snd (snd nt) = false) (bi_tools s).
Definition platform_ok (p : bytes) : Prop := Forall (fun c => c <> 0) p.
Definition wf_bidin (s : bidin) : Prop := wf_stepin (strip_bid s) /\ platform_ok (bi_platform s).

Lemma platform_tags_ok : Forall platform_ok PLATFORM_TAGS.
Proof. unfold PLATFORM_TAGS, platform_ok. repeat constructor; discriminate. Qed.

Lemma enc_btool_strong nt : snd (snd nt) = false -> enc_btool nt = enc_tool (snd (strip_tool nt)).
Proof. destruct nt as [n [t w]]. cbn. intros ->. reflexivity. Qed.

Lemma bid_recipes_strip s :
  no_weak s -> bid_recipes s = bi_platform s ++ enc_recipes (strip_bid s).
Proof.
  intros NW. unfold bid_recipes, enc_recipes, strip_bid, sorted_tools, sorted_env. cbn [si_script si_tools si_env si_args].
  f_equal. f_equal. f_equal.
  assert (L1 : llen (map strip_tool (bi_tools s)) = llen (bi_tools s)) by (unfold llen; now rewrite map_length).
  rewrite L1. f_equal. f_equal.
  rewrite <- (sort_by_map strip_tool fst fst (fun z => eq_refl)).
  rewrite !flat_map_concat_map, map_map, map_map. f_equal.
  apply map_ext_in. intros nt Hin. apply enc_btool_strong.
  unfold no_weak in NW. rewrite Forall_forall in NW. apply NW.
  eapply Permutation_in; [apply sort_by_perm | exact Hin].
Qed.

Lemma split_platform p1 p2 x y :
  platform_ok p1 -> platform_ok p2 -> p1 ++ zeros20 ++ x = p2 ++ zeros20 ++ y -> p1 = p2 /\ x = y.
Proof.
  revert p2. induction p1 as [|c p1 IH]; intros [|d p2] H1 H2 E.
  - cbn [app] in E. apply app_inv_head in E. auto.
  - exfalso. change zeros20 with (0 :: repeat 0 19) in E at 1. cbn [app] in E. inversion E as [[E0 _]].
    inversion H2; subst. congruence.
  - exfalso. change zeros20 with (0 :: repeat 0 19) in E at 2. cbn [app] in E. inversion E as [[E0 _]].
    inversion H1; subst. congruence.
  - cbn [app] in E. inversion E; subst. inversion H1; inversion H2; subst.
    destruct (IH p2) as [-> ->]; auto.
Qed.

Section WithHash.
  Variable H : bytes -> bytes.
  Hypothesis Hlen : forall x, length (H x) = 20%nat.

  (* equal Build-Ids: equal platform, script, tools (provider id, path, libs),
     consumed variables and argument ids -- or a SHA-1 collision between the two
     recipe streams; and equal host streams (fingerprint followed by the host
     parts of the arguments) -- or a collision there.  Steps with weakly used
     tools are excluded: their names are hashed without delimiter (see
     weak_tool_names_ambiguous) and their variants not at all
     (Ids.Proofs.build_id_relaxes_weak_proof). *)
  Lemma build_id_only_if_proof a b :
    no_weak a -> no_weak b -> wf_bidin a -> wf_bidin b ->
    build_id H a = build_id H b ->
    ((bi_platform a = bi_platform b /\ core (strip_bid a) = core (strip_bid b)) \/
     collision H (bid_recipes a) (bid_recipes b)) /\
    (bid_host a = bid_host b \/ collision H (bid_host a) (bid_host b)).
  Proof.
    intros Na Nb [Wa Pa] [Wb Pb] E. unfold build_id in E.
    assert (T : forall h, match h with [] => [] | n :: l => H (n :: l) end = tail_of H h) by (intros [|? ?]; reflexivity).
    rewrite !T in E.
    apply app_inv_len in E; [|now rewrite !Hlen]. destruct E as [E1 E2]. split.
    - destruct (bytes_eq_dec (bid_recipes a) (bid_recipes b)) as [e|n]; [left | right; split; assumption].
      rewrite (bid_recipes_strip a Na), (bid_recipes_strip b Nb) in e.
      unfold enc_recipes in e.
      repeat rewrite <- app_assoc in e.
      apply split_platform in e; auto. destruct e as [e1 e2]. split; [exact e1|].
      apply enc_recipes_injective_proof; auto. unfold enc_recipes. repeat rewrite <- app_assoc. now f_equal.
    - apply (tail_of_eq H Hlen). exact E2.
  Qed.

  (* when no argument carries a host part, the fingerprints themselves are equal *)
  Lemma build_id_fingerprint_proof a b :
    Forall (fun x => length x = 20%nat) (bi_args a) -> Forall (fun x => length x = 20%nat) (bi_args b) ->
    bid_host a = bid_host b -> bi_fingerprint a = bi_fingerprint b.
  Proof.
    intros Fa Fb. unfold bid_host.
    assert (Z : forall l : list bytes, Forall (fun x => length x = 20%nat) l -> flat_map (skipn 20) l = []).
    { induction 1 as [|x l Hx _ IH]; [reflexivity|]. cbn [flat_map]. rewrite IH, app_nil_r. rewrite <- Hx. apply skipn_all. }
    rewrite (Z _ Fa), (Z _ Fb), !app_nil_r. auto.
  Qed.
End WithHash.

(* the names of weakly used tools enter the Build-Id without any delimiter *)
Definition wk (n : str) : str * (tool * bool) := (n, ({| t_vid := repeat 7 20; t_path := []; t_libs := [] |}, true)).
Definition weak_a : bidin :=
  {| bi_sandbox := None; bi_script := [120]; bi_tools := [wk [97]; wk [98; 99]]; bi_env := []; bi_args := [];
     bi_platform := []; bi_fingerprint := [] |}.
Definition weak_b : bidin :=
  {| bi_sandbox := None; bi_script := [120]; bi_tools := [wk [97; 98]; wk [99]]; bi_env := []; bi_args := [];
     bi_platform := []; bi_fingerprint := [] |}.

Lemma weak_tool_names_ambiguous_proof :
  map fst (bi_tools weak_a) <> map fst (bi_tools weak_b) /\ forall H, build_id H weak_a = build_id H weak_b.
Proof. split; [cbn; intros E; inversion E | intros H; reflexivity]. Qed.
