(* C07 — property theorems.  This file contains only statements, each closed
   by [exact] of a lemma from Proofs.v / IdProofs.v, and non-vacuity examples.

   Reading of the statements.  [invoke hashW bidf run_build run_pkg c root st] is
   one "bob dev <root>" in a workspace whose persistent state, together with
   the archive, is [st]; [c] is any download/upload configuration (every
   --download mode is a value of c_depth/c_force_depth/c_packages).  [local p]
   is what a purely local build of node p produces, [tbid p] its Build-Id.
   hashW (directory hash), bidf (the Build-Id digest), run_build / run_pkg (the
   scripts) are arbitrary functions: nothing is assumed about them except where
   a hypothesis says so (ids_sound, ids_sound_in).
   Hypotheses on the project tree: [uniq_ids] (a dist workspace belongs to one
   node) and [src_consistent] (r_src identifies the checkout step: nodes with an
   own checkout and equal r_src -- variants of one recipe that differ only after
   checkout -- carry the same r_srcid, r_haslive, r_live, r_livecalc). *)
From Coq Require Import List NArith Bool.
Require Import BobV.Common.Cases BobV.Common.Sha1 BobV.Ids.Model BobV.Ids.Proofs.
Require Import BobV.C07.Model BobV.C07.Spec BobV.C07.Proofs BobV.C07.IdProofs.
Import ListNotations.
Open Scope N_scope.

(* P1. A build with downloads yields the results of a purely local build, in
   every download mode, whatever else the archive contains: artifacts whose
   audit trail is missing or does not match are unconstrained (they can only
   make the build fail), every well-formed artifact stored under the Build-Id
   of a node of the project is assumed to hold that node's local result
   (archive_sound_for; implied by "produced by some Bob build under its
   Build-Id" + "equal Build-Id => equal result", see the corollary below).
   The invocation never restarts, the invariant on the workspace (trusted_ws),
   on the live-build-id translations and on the archive is re-established. *)
Theorem download_equals_local :
  forall hashW bidf run_build run_pkg c root st0,
    uniq_ids root -> src_consistent root -> live_consistent root -> ids_sound_in bidf run_build run_pkg root ->
    trusted_ws hashW bidf run_build run_pkg root st0 -> translations_right root st0 ->
    archive_sound_for hashW bidf run_build run_pkg root (arch st0) ->
    match invoke hashW bidf run_build run_pkg c root st0 with
    | Ok s =>
      cook hashW bidf run_build run_pkg c 0 root (begin_invocation st0) = Ok s /\
      content_of root s = local run_build run_pkg root /\
      (forall p, In p (nodes root) -> memN (pid p) (wasrun s) = true -> content_of p s = local run_build run_pkg p) /\
      trusted_ws hashW bidf run_build run_pkg root s /\ translations_right root s /\
      archive_sound_for hashW bidf run_build run_pkg root (arch s)
    | Err _ _ => True
    | _ => False
    end.
Proof. exact download_equals_local_proof. Qed.

(* ... in the form of the property text: honest archive (every well-formed
   stored artifact was produced by some Bob build, of any project state, under
   its Build-Id) and Build-Ids that determine results.  A well-formed forged
   artifact under the right id violates [honest] and is undetectable by
   construction. *)
Theorem download_equals_local_honest :
  forall hashW bidf run_build run_pkg c root st0,
    uniq_ids root -> src_consistent root -> live_consistent root -> ids_sound bidf run_build run_pkg ->
    trusted_ws hashW bidf run_build run_pkg root st0 -> translations_right root st0 ->
    honest hashW bidf run_build run_pkg (arch st0) ->
    match invoke hashW bidf run_build run_pkg c root st0 with
    | Ok s =>
      content_of root s = local run_build run_pkg root /\
      (forall p, In p (nodes root) -> memN (pid p) (wasrun s) = true -> content_of p s = local run_build run_pkg p)
    | Err _ _ => True
    | _ => False
    end.
Proof. exact download_equals_local_honest_proof. Qed.

(* P1. Identical recipes, sources and fingerprint (the same [root]; no path is an
   input) + the uploader built and uploaded from a fresh workspace  ==>  a
   downloader in another fresh workspace that tries the root package (modes
   yes / forced / forced-fallback / a matching packages= expression) gets the
   local result by download and runs no package step at all. *)
Theorem other_workspace_zero_builds :
  forall hashW bidf run_build run_pkg cA cB r its stA sA stB,
    let root := Pkg r its in
    uniq_ids root -> src_consistent root -> live_consistent root -> ids_sound_in bidf run_build run_pkg root ->
    ws stA = [] -> never_tries cA -> c_can_upload cA = true ->
    translations_right root stA ->
    archive_sound_for hashW bidf run_build run_pkg root (arch stA) -> all_wellformed hashW (arch stA) ->
    invoke hashW bidf run_build run_pkg cA root stA = Ok sA ->
    ws stB = [] -> trc stB = [] -> arch stB = arch sA -> archl stB = archl sA ->
    c_can_download cB = true -> try_download cB r 0 = true -> c_force cB = false ->
    match invoke hashW bidf run_build run_pkg cB root stB with
    | Ok sB => content_of root sB = local run_build run_pkg root /\
               (forall e, In e (trace sB) -> is_package_event e = false) /\
               In (EDownload (r_id r) true) (trace sB)
    | _ => False
    end.
Proof. exact other_workspace_zero_builds_proof. Qed.

(* P1. Wrong live-build-id predictions.  (a) For every project, state, archive and
   translation table the restart loop ends within n_srcs root + 1 passes (each
   restart turns the predicted source build-id of one checkout step into a
   verified one). *)
Theorem wrong_prediction_restarts_bounded :
  forall hashW bidf run_build run_pkg c root st0,
    invoke hashW bidf run_build run_pkg c root st0 <> OutOfFuel.
Proof. exact invoke_terminates_proof. Qed.

(* (b) ... and it converges: with arbitrary (wrong) translations, if no well-formed
   artifact is stored under an id that the builder derives from a wrong belief
   (archive_sound_all: whatever source ids are believed, a well-formed artifact
   found under the resulting id holds the node's local result), a downloader
   that does not upload ends with the local results, never with the assertion
   "Non-predicted incorrect Build-Id found!". *)
Theorem wrong_prediction_restarts_and_converges :
  forall hashW bidf run_build run_pkg c root st0,
    uniq_ids root -> src_consistent root -> c_can_upload c = false ->
    trusted_ws_all hashW bidf run_build run_pkg root st0 ->
    archive_sound_all hashW bidf run_build run_pkg root (arch st0) ->
    match invoke hashW bidf run_build run_pkg c root st0 with
    | Ok s =>
      content_of root s = local run_build run_pkg root /\
      (forall p, In p (nodes root) -> memN (pid p) (wasrun s) = true -> content_of p s = local run_build run_pkg p)
    | Err _ _ => True
    | _ => False
    end.
Proof. exact wrong_prediction_converges_proof. Qed.

(* P1. The builder-side check: an artifact without audit trail, or whose recorded
   result hash differs from the hash of the extracted tree, is rejected whenever
   it is fetched, and leaves no result hash behind ... *)
Theorem mismatch_never_accepted :
  forall hashW c r d b st a,
    try_download c r d = true -> c_can_download c = true ->
    lookupB b (arch st) = Some a -> ~ wellformed hashW a ->
    s_result (getws (r_id r) st) = None \/
      bid_differs (dissect (s_inputs (getws (r_id r) st))) b = true \/ c_force c = true ->
    exists e s, download hashW c r d b st = DlErr e s /\ (e = ErrNoAudit \/ e = ErrCorrupt) /\
                s_result (getws (r_id r) s) = None.
Proof. exact mismatch_rejected_proof. Qed.

(* ... and, for whole invocations: every workspace marked "downloaded" carries an
   audit trail recording the hash of exactly the tree it contains. *)
Theorem downloaded_matches_audit :
  forall hashW bidf run_build run_pkg c root st0,
    audit_ok hashW st0 ->
    match invoke hashW bidf run_build run_pkg c root st0 with Ok s => audit_ok hashW s | _ => True end.
Proof. exact downloaded_matches_audit_proof. Qed.

(* P1 (id side). Equal Build-Ids of two steps without weakly used tools: equal
   platform tag, script, tools (provider id, path, libraries), consumed
   variables and argument ids -- or an explicit SHA-1 collision; equal host
   streams (fingerprint, then the host parts of the arguments) -- or a
   collision.  Workspace paths are no input of the encoder. *)
Theorem build_id_only_if :
  forall (H : bytes -> bytes), (forall x, length (H x) = 20%nat) ->
  forall a b, no_weak a -> no_weak b -> wf_bidin a -> wf_bidin b ->
    build_id H a = build_id H b ->
    ((bi_platform a = bi_platform b /\ core (strip_bid a) = core (strip_bid b)) \/
     collision H (bid_recipes a) (bid_recipes b)) /\
    (bid_host a = bid_host b \/ collision H (bid_host a) (bid_host b)).
Proof. exact build_id_only_if_proof. Qed.

Theorem build_id_fingerprint :
  forall a b,
    Forall (fun x => length x = 20%nat) (bi_args a) -> Forall (fun x => length x = 20%nat) (bi_args b) ->
    bid_host a = bid_host b -> bi_fingerprint a = bi_fingerprint b.
Proof. exact build_id_fingerprint_proof. Qed.

(* the weak-tool ambiguity, stated explicitly: names of weakly used tools are
   hashed without delimiter (tools {a, bc} and {ab, c} give the same id) *)
Theorem weak_tool_names_ambiguous :
  map fst (bi_tools weak_a) <> map fst (bi_tools weak_b) /\ forall H, build_id H weak_a = build_id H weak_b.
Proof. exact weak_tool_names_ambiguous_proof. Qed.

Theorem platform_tags_have_no_zero_byte : Forall platform_ok BobV.Gen.ConstsC07.PLATFORM_TAGS.
Proof. exact platform_tags_ok. Qed.

(* ------------------------------------------------------------------ non-vacuity *)
(* x_app depends on x_lib and on two variants x_v1 / x_v2 of one recipe that differ
   only after checkout: two package nodes (dist workspaces 3 and 4, different
   Variant-Ids and Build-Id cores) that share ONE checkout step (r_src 13). *)
Definition x_lib : pkg :=
  Pkg {| r_id := 2; r_src := 12; r_vid := 20; r_core := 200; r_match := false; r_haslive := true; r_live := Some [52];
         r_livecalc := Some [52]; r_srcid := [62]; r_fp := []; r_argmask := [] |} (ISrc INil).
Definition x_v1 : pkg :=
  Pkg {| r_id := 3; r_src := 13; r_vid := 30; r_core := 300; r_match := false; r_haslive := true; r_live := Some [53];
         r_livecalc := Some [53]; r_srcid := [63]; r_fp := []; r_argmask := [] |} (ISrc INil).
Definition x_v2 : pkg :=
  Pkg {| r_id := 4; r_src := 13; r_vid := 31; r_core := 301; r_match := false; r_haslive := true; r_live := Some [53];
         r_livecalc := Some [53]; r_srcid := [63]; r_fp := []; r_argmask := [] |} (ISrc INil).
Definition x_app_r : recipe :=
  {| r_id := 1; r_src := 11; r_vid := 10; r_core := 100; r_match := false; r_haslive := true; r_live := Some [51];
     r_livecalc := Some [51]; r_srcid := [61]; r_fp := []; r_argmask := [true; true; true] |}.
Definition x_app_its : items := ISrc (IDep x_lib false 2 (IDep x_v1 false 2 (IDep x_v2 false 2 INil))).
Definition x_app : pkg := Pkg x_app_r x_app_its.

Definition c_upload : cfg :=      (* --download=no --upload *)
  {| c_depth := 65535; c_force_depth := 65535; c_packages := false; c_can_download := false;
     c_can_upload := true; c_upload_depth := 65535; c_force := false |}.
Definition c_deps : cfg :=        (* --download=deps *)
  {| c_depth := 1; c_force_depth := 65535; c_packages := false; c_can_download := true;
     c_can_upload := false; c_upload_depth := 65535; c_force := false |}.
Definition c_yes : cfg :=         (* --download=yes *)
  {| c_depth := 0; c_force_depth := 65535; c_packages := false; c_can_download := true;
     c_can_upload := false; c_upload_depth := 65535; c_force := false |}.

Definition empty_state : state :=
  {| ws := []; srcx := []; trc := []; arch := []; archl := []; wasrun := []; corun := []; tried := [];
     srcids := []; bdids := []; trace := [] |}.
Definition x_A : state := match invoke_x c_upload x_app empty_state with Ok s => s | _ => empty_state end.
Definition x_B : state :=          (* another, fresh workspace on the archive the uploader left *)
  {| ws := []; srcx := []; trc := []; arch := arch x_A; archl := archl x_A; wasrun := []; corun := []; tried := [];
     srcids := []; bdids := []; trace := [] |}.
Definition x_local := local run_build_x run_pkg_x.

Fixpoint count_ev (f : event -> bool) (l : list event) : N :=
  match l with [] => 0 | e :: r => (if f e then 1 else 0) + count_ev f r end.

(* the uploader (fresh workspace, --download=no --upload): the shared checkout step runs once,
   both package nodes that use it are built and uploaded *)
Example shared_checkout_nonvacuous :
  N.eqb (count_ev (fun e => match e with ECheckout 13 => true | _ => false end) (trace x_A)) 1
  && N.eqb (count_ev (fun e => match e with ECheckout _ => true | _ => false end) (trace x_A)) 3
  && N.eqb (count_ev (fun e => match e with EPackage 3 => true | EPackage 4 => true | _ => false end) (trace x_A)) 2
  && N.eqb (count_ev (fun e => match e with EUpload _ true => true | _ => false end) (trace x_A)) 4
  && negb (beqb (tbid_x x_v1) (tbid_x x_v2)) = true.
Proof. vm_compute. reflexivity. Qed.

(* --download=deps: the dependencies are downloaded (one query for the shared checkout step, whose
   sources are never fetched), the root package built, result = local build *)
Example download_equals_local_nonvacuous :
  match invoke_x c_deps x_app x_B with
  | Ok s => beqb (content_of x_app s) (x_local x_app) && beqb (content_of x_lib s) (x_local x_lib)
            && beqb (content_of x_v1 s) (x_local x_v1) && beqb (content_of x_v2 s) (x_local x_v2)
            && N.eqb (count_ev is_package_event (trace s)) 1
            && N.eqb (count_ev (fun e => match e with EDownload 2 true => true | _ => false end) (trace s)) 1
            && N.eqb (count_ev (fun e => match e with EDownload 3 true => true | EDownload 4 true => true | _ => false end) (trace s)) 2
            && N.eqb (count_ev (fun e => match e with EQuery 13 true => true | _ => false end) (trace s)) 1
            && N.eqb (count_ev (fun e => match e with ECheckout 13 => true | _ => false end) (trace s)) 0
  | _ => false
  end = true.
Proof. vm_compute. reflexivity. Qed.

(* the hypotheses of download_equals_local hold for this instance; the tree really contains
   two different nodes that share a checkout step *)
Example download_equals_local_hypotheses_nonvacuous :
  uniq_ids x_app /\ src_consistent x_app /\ live_consistent x_app /\ ids_sound_in bidf_x run_build_x run_pkg_x x_app /\
  trusted_ws hashW_x bidf_x run_build_x run_pkg_x x_app x_B /\ translations_right x_app x_B /\
  archive_sound_for hashW_x bidf_x run_build_x run_pkg_x x_app (arch x_B) /\
  (In x_v1 (nodes x_app) /\ In x_v2 (nodes x_app) /\ x_v1 <> x_v2 /\ pid x_v1 <> pid x_v2 /\
   has_src (items_of x_v1) = true /\ has_src (items_of x_v2) = true /\
   r_src (recipe_of x_v1) = r_src (recipe_of x_v2)).
Proof.
  assert (N2 : forall p, In p (nodes x_app) -> p = x_app \/ p = x_lib \/ p = x_v1 \/ p = x_v2).
  { intros p [<-|[<-|[<-|[<-|[]]]]]; auto. }
  split; [|split; [|split; [|split; [|split; [|split; [|split]]]]]].
  - intros p q Hp Hq E. destruct (N2 p Hp) as [->|[->|[->| ->]]], (N2 q Hq) as [->|[->|[->| ->]]];
      try reflexivity; vm_compute in E; discriminate.
  - intros p q Hp Hq _ _ E. destruct (N2 p Hp) as [->|[->|[->| ->]]], (N2 q Hq) as [->|[->|[->| ->]]];
      try (repeat split; reflexivity); vm_compute in E; discriminate.
  - intros p q l Hp Hq E1 E2. destruct (N2 p Hp) as [->|[->|[->| ->]]], (N2 q Hq) as [->|[->|[->| ->]]];
      try reflexivity; vm_compute in E1, E2; congruence.
  - intros p q Hp Hq E. destruct (N2 p Hp) as [->|[->|[->| ->]]], (N2 q Hq) as [->|[->|[->| ->]]];
      try reflexivity; vm_compute in E; discriminate.
  - intros p Hp V. destruct (N2 p Hp) as [->|[->|[->| ->]]]; vm_compute in V; discriminate.
  - intros p l x Hp E H. destruct (N2 p Hp) as [->|[->|[->| ->]]]; vm_compute in E; inversion E; subst l;
      vm_compute in H; destruct H as [H|H]; inversion H; reflexivity.
  - intros p a Hp LK W. destruct (N2 p Hp) as [->|[->|[->| ->]]]; vm_compute in LK; inversion LK; subst a; reflexivity.
  - repeat split; try reflexivity; try (cbn; tauto); try discriminate.
Qed.

(* --download=yes in the other workspace: one download, no package step *)
Example other_workspace_zero_builds_nonvacuous :
  match invoke_x c_yes x_app x_B with
  | Ok s => beqb (content_of x_app s) (x_local x_app) && N.eqb (count_ev is_package_event (trace s)) 0
            && N.eqb (count_ev (fun e => match e with EDownload 1 true => true | _ => false end) (trace s)) 1
  | _ => false
  end = true.
Proof. vm_compute. reflexivity. Qed.

(* the archive maps the live build-id of the root's sources to a wrong id: the download
   under the derived id fails, the checkout reveals the truth, one restart, then the download succeeds *)
Definition x_B_wrong : state :=
  {| ws := []; srcx := []; trc := []; arch := arch x_A; archl := ([51], [99]) :: archl x_A; wasrun := []; corun := [];
     tried := []; srcids := []; bdids := []; trace := [] |}.

Example wrong_prediction_restarts_and_converges_nonvacuous :
  match invoke_x c_yes x_app x_B_wrong with
  | Ok s => beqb (content_of x_app s) (x_local x_app) && N.eqb (count_ev is_restart (trace s)) 1
            && N.eqb (count_ev (fun e => match e with EDownload 1 false => true | _ => false end) (trace s)) 1
            (* after the restart the download is tried again, with the right id: nothing is built *)
            && N.eqb (count_ev (fun e => match e with EDownload 1 true => true | _ => false end) (trace s)) 1
            && N.eqb (count_ev is_package_event (trace s)) 0
  | _ => false
  end = true.
Proof. vm_compute. reflexivity. Qed.

(* two wrong predictions in one invocation, one of them for the shared checkout step: two restarts
   (the second one is caused by the first of the two nodes that use the shared step; the other node
   finds the step already verified), then everything is downloaded under the right ids *)
Definition x_B_wrong2 : state :=
  {| ws := []; srcx := []; trc := []; arch := arch x_A; archl := ([51], [99]) :: ([53], [98]) :: archl x_A; wasrun := [];
     corun := []; tried := []; srcids := []; bdids := []; trace := [] |}.

Example wrong_prediction_twice_shared_checkout_nonvacuous :
  match invoke_x c_yes x_app x_B_wrong2 with
  | Ok s => beqb (content_of x_app s) (x_local x_app) && N.eqb (count_ev is_restart (trace s)) 2
            && N.eqb (count_ev (fun e => match e with ECheckout 13 => true | _ => false end) (trace s)) 1
            && N.eqb (count_ev (fun e => match e with EQuery 13 _ => true | _ => false end) (trace s)) 1
            && N.eqb (count_ev (fun e => match e with EDownload 1 true => true | _ => false end) (trace s)) 1
            && N.eqb (count_ev is_package_event (trace s)) 0
  | _ => false
  end = true.
Proof. vm_compute. reflexivity. Qed.

(* a corrupt artifact (content changed, audit trail kept) and one without audit trail *)
Definition x_corrupt (a : artifact) : artifact := {| a_content := 99 :: a_content a; a_audit := a_audit a |}.
Definition x_B_corrupt (f : artifact -> artifact) : state :=
  {| ws := []; srcx := []; trc := [];
     arch := match lookupB (tbid_x x_app) (arch x_A) with Some a => (tbid_x x_app, f a) :: arch x_A | None => [] end;
     archl := archl x_A; wasrun := []; corun := []; tried := []; srcids := []; bdids := []; trace := [] |}.

Example mismatch_never_accepted_nonvacuous :
  match invoke_x c_yes x_app (x_B_corrupt x_corrupt),
        invoke_x c_yes x_app (x_B_corrupt (fun a => {| a_content := a_content a; a_audit := None |})) with
  | Err ErrCorrupt s1, Err ErrNoAudit s2 =>
    match s_result (getws 1 s1), s_result (getws 1 s2) with None, None => true | _, _ => false end
  | _, _ => false
  end = true.
Proof. vm_compute. reflexivity. Qed.

(* Build-Ids of the executable SHA-1 instance: a different fingerprint gives a different id *)
Example build_id_fingerprint_nonvacuous :
  let s fp := {| bi_sandbox := None; bi_script := [120]; bi_tools := []; bi_env := [([65], [49])]; bi_args := [repeat 1 20];
                 bi_platform := []; bi_fingerprint := fp |} in
  eqb_list N.eqb (build_id sha1 (s (repeat 5 20))) (build_id sha1 (s (repeat 6 20))) = false /\
  eqb_list N.eqb (firstn 20 (build_id sha1 (s (repeat 5 20)))) (firstn 20 (build_id sha1 (s (repeat 6 20)))) = true.
Proof. vm_compute. split; reflexivity. Qed.
