(* C07 — predicates used in the statements of the theorems. Definitions only. *)
From Coq Require Import List NArith Bool.
Require Import BobV.Common.Cases BobV.C07.Model.
Import ListNotations.
Open Scope N_scope.

Section Spec.
  Variable hashW : bytes -> bytes.
  Variable bidf : recipe -> option bytes -> list bytes -> bytes.
  Variable run_build : recipe -> list bytes -> bytes.
  Variable run_pkg : recipe -> bytes -> bytes.

  Notation L := (local run_build run_pkg).

  (* ---- the project *)
  (* every workspace belongs to one node: equal dist workspace => same node *)
  Definition uniq_ids (root : pkg) : Prop :=
    forall p q, In p (nodes root) -> In q (nodes root) -> pid p = pid q -> p = q.

  (* r_src identifies the checkout step: package nodes that share a checkout step
     (equal r_src, both with an own checkout) repeat the same attributes of it.
     In a real project the checkout step is one object per workspace path and
     these attributes are functions of that object. *)
  Definition src_consistent (root : pkg) : Prop :=
    forall p q, In p (nodes root) -> In q (nodes root) ->
      has_src (items_of p) = true -> has_src (items_of q) = true ->
      r_src (recipe_of p) = r_src (recipe_of q) ->
      r_srcid (recipe_of p) = r_srcid (recipe_of q) /\
      r_haslive (recipe_of p) = r_haslive (recipe_of q) /\
      r_live (recipe_of p) = r_live (recipe_of q) /\
      r_livecalc (recipe_of p) = r_livecalc (recipe_of q).

  (* a live build-id determines the content of the checkout *)
  Definition live_consistent (root : pkg) : Prop :=
    forall p q l, In p (nodes root) -> In q (nodes root) ->
      r_livecalc (recipe_of q) = Some l -> r_live (recipe_of p) = Some l ->
      r_srcid (recipe_of q) = r_srcid (recipe_of p).

  (* ---- Build-Id under an arbitrary belief about the source build-ids (a belief
     is about checkout steps: it is keyed by r_src) *)
  Fixpoint tbid_sa (sa : label -> bytes) (p : pkg) : bytes :=
    match p with Pkg r its => bidf r (if has_src its then Some (sa (r_src r)) else None) (tbid_sa_items sa its) end
  with tbid_sa_items (sa : label -> bytes) (its : items) : list bytes :=
    match its with
    | INil => []
    | ISrc rest => tbid_sa_items sa rest
    | IDep q weak _ rest => if weak then tbid_sa_items sa rest else tbid_sa sa q :: tbid_sa_items sa rest
    end.

  (* the belief is the truth on the sources below p *)
  Definition right_on (sa : label -> bytes) (p : pkg) : Prop :=
    forall q, In q (nodes p) -> has_src (items_of q) = true -> sa (r_src (recipe_of q)) = r_srcid (recipe_of q).

  (* ---- the archive *)
  Definition wellformed (a : artifact) : Prop := a_audit a = Some (hashW (a_content a)).

  (* "equal Build-Id => equal result" inside the project: two nodes with the same
     Build-Id have the same local result.  This is where the encoding theorem
     (IdProofs.build_id_only_if), script determinism and the absence of SHA-1
     collisions / weak-tool dependence enter. *)
  Definition ids_sound_in (root : pkg) : Prop :=
    forall p q, In p (nodes root) -> In q (nodes root) -> tbid bidf p = tbid bidf q -> L p = L q.

  (* every well-formed artifact stored under the Build-Id of a node of the project
     holds what a local build of that node produces.  It follows from
     [honest] + [ids_sound] below. *)
  Definition archive_sound_for (root : pkg) (ar : list (bytes * artifact)) : Prop :=
    forall p a, In p (nodes root) -> lookupB (tbid bidf p) ar = Some a -> wellformed a -> a_content a = L p.

  (* the same, for whatever source build-ids the builder may believe in *)
  Definition archive_sound_all (root : pkg) (ar : list (bytes * artifact)) : Prop :=
    forall sa p a, In p (nodes root) -> lookupB (tbid_sa sa p) ar = Some a -> wellformed a -> a_content a = L p.

  (* honest archive: every well-formed stored artifact was produced by some Bob
     build (any project, any path, any fingerprint) of a package with that Build-Id *)
  Definition honest (ar : list (bytes * artifact)) : Prop :=
    forall b a, lookupB b ar = Some a -> wellformed a ->
      exists q : pkg, tbid bidf q = b /\ a_content a = L q.

  Definition ids_sound : Prop := forall p q : pkg, tbid bidf p = tbid bidf q -> L p = L q.

  Definition all_wellformed (ar : list (bytes * artifact)) : Prop :=
    forall b a, lookupB b ar = Some a -> wellformed a.

  (* ---- what the persisted state of a workspace promises (C01's trust invariant,
     restricted to package steps) *)
  Fixpoint tool_hashes_local (its : items) : list bytes :=
    match its with
    | INil => []
    | ISrc rest => tool_hashes_local rest
    | IDep q _ dd rest => if N.eqb dd 1 then hashW (L q) :: tool_hashes_local rest else tool_hashes_local rest
    end.

  Definition true_ins (p : pkg) : list bytes :=
    match p with
    | Pkg r its =>
      (if has_src its then [r_srcid r] else []) ++ [hashW (run_build r (local_items run_build run_pkg its))]
      ++ tool_hashes_local its ++ (match r_fp r with [] => [] | f => [f] end)
    end.

  Definition trusted (p : pkg) (w : pws) : Prop :=
    s_vid w = Some (r_vid (recipe_of p)) ->
    match s_inputs w with
    | PvList (b :: ins) => ins = true_ins p -> w_content w = L p
    | PvBytes b => b = tbid bidf p -> w_content w = L p
    | _ => True
    end.

  Definition trusted_ws (root : pkg) (st : state) : Prop :=
    forall p, In p (nodes root) -> trusted p (getws (pid p) st).

  (* the same promise for a workspace that was filled by a download under whatever
     Build-Id the builder believed in at that time *)
  Definition trusted_any (p : pkg) (w : pws) : Prop :=
    s_vid w = Some (r_vid (recipe_of p)) ->
    match s_inputs w with
    | PvList (b :: ins) => ins = true_ins p -> w_content w = L p
    | PvBytes b => (exists sa, b = tbid_sa sa p) -> w_content w = L p
    | _ => True
    end.

  Definition trusted_ws_all (root : pkg) (st : state) : Prop :=
    forall p, In p (nodes root) -> trusted_any p (getws (pid p) st).

  (* the live build-id translations (local cache and archive) tell the truth *)
  Definition translations_right (root : pkg) (st : state) : Prop :=
    forall p l x, In p (nodes root) -> r_live (recipe_of p) = Some l ->
      lookupB l (trc st) = Some x \/ lookupB l (archl st) = Some x -> x = r_srcid (recipe_of p).

  (* ---- observations *)
  Definition content_of (p : pkg) (st : state) : bytes := w_content (getws (pid p) st).

  Definition is_package_event (e : event) : bool :=
    match e with EPackage _ => true | _ => false end.

  Definition is_restart (e : event) : bool :=
    match e with ERestart => true | _ => false end.

  Definition never_tries (c : cfg) : Prop := forall r d, try_download c r d = false.
End Spec.
