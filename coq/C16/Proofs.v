(* C16 — lemmas about the model of directory assignment and `bob clean`. *)
From Coq Require Import List NArith Bool Lia PeanoNat.
From Coq Require DecimalN.
Require Import BobV.C16.Model.
Import ListNotations.
Open Scope N_scope.

(* ------------------------------------------------------------ basics *)
Lemma str_eqb_eq : forall a b, str_eqb a b = true <-> a = b.
Proof.
  induction a as [|x a IH]; destruct b as [|y b]; cbn; split; intro H; try congruence; try reflexivity.
  - apply andb_true_iff in H as [H1 H2]. apply N.eqb_eq in H1. apply IH in H2. congruence.
  - inversion H; subst. apply andb_true_iff. split; [apply N.eqb_refl | apply IH; reflexivity].
Qed.

Lemma str_eqb_refl : forall a, str_eqb a a = true.
Proof. intro a. apply str_eqb_eq. reflexivity. Qed.

Lemma str_eqb_neq : forall a b, str_eqb a b = false <-> a <> b.
Proof.
  intros a b. split; intro H.
  - intro E. apply str_eqb_eq in E. congruence.
  - destruct (str_eqb a b) eqn:E; [apply str_eqb_eq in E; contradiction | reflexivity].
Qed.

Lemma mem_str_In : forall s l, mem_str s l = true <-> In s l.
Proof.
  induction l as [|x l IH]; cbn; split; intro H; try discriminate; try contradiction.
  - apply orb_true_iff in H as [H|H]; [left; apply str_eqb_eq in H; congruence | right; apply IH; exact H].
  - apply orb_true_iff. destruct H as [H|H]; [left; subst; apply str_eqb_refl | right; apply IH; exact H].
Qed.

Lemma mem_str_nIn : forall s l, mem_str s l = false <-> ~ In s l.
Proof.
  intros s l. split; intro H.
  - intro I. apply mem_str_In in I. congruence.
  - destruct (mem_str s l) eqn:E; [apply mem_str_In in E; contradiction | reflexivity].
Qed.

Lemma mem_N_In : forall n l, mem_N n l = true <-> In n l.
Proof.
  induction l as [|x l IH]; cbn; split; intro H; try discriminate; try contradiction.
  - apply orb_true_iff in H as [H|H]; [left; apply N.eqb_eq in H; congruence | right; apply IH; exact H].
  - apply orb_true_iff. destruct H as [H|H]; [left; subst; apply N.eqb_refl | right; apply IH; exact H].
Qed.

Lemma mem_N_nIn : forall n l, mem_N n l = false <-> ~ In n l.
Proof.
  intros n l. split; intro H.
  - intro I. apply mem_N_In in I. congruence.
  - destruct (mem_N n l) eqn:E; [apply mem_N_In in E; contradiction | reflexivity].
Qed.

Section AssocLemmas.
  Context {V : Type}.
  Implicit Types (l : list (str * V)).

  Lemma lookup_In : forall l k v, lookup l k = Some v -> In (k, v) l.
  Proof.
    induction l as [|[k' v'] l IH]; cbn; intros k v H; [discriminate|].
    destruct (str_eqb k k') eqn:E.
    - apply str_eqb_eq in E. inversion H; subst. left; reflexivity.
    - right. apply IH. exact H.
  Qed.

  Lemma lookup_None : forall l k, lookup l k = None <-> ~ In k (map fst l).
  Proof.
    induction l as [|[k' v'] l IH]; cbn; intros k.
    - split; [intros _ []| reflexivity].
    - destruct (str_eqb k k') eqn:E.
      + apply str_eqb_eq in E. subst. split; [discriminate| intro H; exfalso; apply H; left; reflexivity].
      + apply str_eqb_neq in E. rewrite IH. split; intro H.
        * intros [A|A]; [congruence | contradiction].
        * intro A. apply H. right. exact A.
  Qed.

  Lemma lookup_Some_In_keys : forall l k v, lookup l k = Some v -> In k (map fst l).
  Proof. intros l k v H. apply lookup_In in H. apply (in_map fst) in H. exact H. Qed.

  Lemma In_lookup : forall l k v, NoDup (map fst l) -> In (k, v) l -> lookup l k = Some v.
  Proof.
    induction l as [|[k' v'] l IH]; cbn; intros k v ND I; [contradiction|].
    inversion ND as [|? ? NI ND']; subst.
    destruct I as [I|I].
    - inversion I; subst. rewrite str_eqb_refl. reflexivity.
    - destruct (str_eqb k k') eqn:E.
      + apply str_eqb_eq in E. subst. exfalso. apply NI. apply (in_map fst) in I. exact I.
      + apply IH; assumption.
  Qed.

  Lemma lookup_app : forall l1 l2 k,
    lookup (l1 ++ l2) k = match lookup l1 k with Some v => Some v | None => lookup l2 k end.
  Proof.
    induction l1 as [|[k' v'] l1 IH]; cbn; intros l2 k; [reflexivity|].
    destruct (str_eqb k k'); [reflexivity | apply IH].
  Qed.
End AssocLemmas.

Lemma NoDup_app_intro : forall {A} (a b : list A),
  NoDup a -> NoDup b -> (forall x, In x a -> ~ In x b) -> NoDup (a ++ b).
Proof.
  induction a as [|x a IH]; cbn; intros b Ha Hb D; [exact Hb|].
  inversion Ha as [|? ? NI Ha']; subst. constructor.
  - intro I. apply in_app_or in I as [I|I]; [contradiction | apply (D x); [left; reflexivity | exact I]].
  - apply IH; [exact Ha' | exact Hb | intros y Iy; apply D; right; exact Iy].
Qed.

Lemma NoDup_app_l : forall {A} (a b : list A), NoDup (a ++ b) -> NoDup a.
Proof.
  induction a as [|x a IH]; cbn; intros b H; [constructor|].
  inversion H as [|? ? NI H']; subst. constructor.
  - intro I. apply NI. apply in_or_app. left; exact I.
  - apply (IH b). exact H'.
Qed.

Lemma NoDup_app_r : forall {A} (a b : list A), NoDup (a ++ b) -> NoDup b.
Proof.
  induction a as [|x a IH]; cbn; intros b H; [exact H|].
  inversion H; subst. apply IH. assumption.
Qed.

Lemma NoDup_app_disj : forall {A} (a b : list A) x, NoDup (a ++ b) -> In x a -> In x b -> False.
Proof.
  induction a as [|y a IH]; cbn; intros b x H Ia Ib; [contradiction|].
  inversion H as [|? ? NI H']; subst. destruct Ia as [E|Ia].
  - subst. apply NI. apply in_or_app. right; exact Ib.
  - apply (IH b x); assumption.
Qed.

(* ------------------------------------------------------------ numbers and paths *)
Lemma uint_digits_inj : forall u v, uint_digits u = uint_digits v -> u = v.
Proof.
  induction u; destruct v; cbn; intro H; try reflexivity; try discriminate;
    inversion H as [H1]; try (f_equal; apply IHu; exact H1);
    try (exfalso; clear - H; discriminate).
Qed.

Lemma dec_inj : forall n m, dec n = dec m -> n = m.
Proof. intros n m H. apply uint_digits_inj in H. apply DecimalN.Unsigned.to_uint_inj. exact H. Qed.

Lemma uint_digits_no_slash : forall u, ~ In ch_slash (uint_digits u).
Proof.
  induction u; cbn; intro H; try contradiction;
    destruct H as [H|H]; try (apply IHu; exact H); unfold ch_slash in H; discriminate.
Qed.

Lemma dec_no_slash : forall n, ~ In ch_slash (dec n).
Proof. intro n. apply uint_digits_no_slash. Qed.

Lemma dec_starts_slash : forall n, starts_slash (dec n) = false.
Proof.
  intro n. pose proof (dec_no_slash n) as H. unfold starts_slash.
  destruct (dec n) as [|c r]; [reflexivity|].
  destruct (c =? ch_slash) eqn:E; [|reflexivity].
  apply N.eqb_eq in E. exfalso. apply H. left. exact E.
Qed.


Lemma join_dec : forall b n, path_join b (dec n) = norm b ++ dec n.
Proof.
  intros b n. unfold path_join, norm. rewrite dec_starts_slash.
  destruct (is_nil b || ends_slash b); [reflexivity|].
  rewrite <- app_assoc. reflexivity.
Qed.

Lemma join_inj_num : forall b n m, path_join b (dec n) = path_join b (dec m) -> n = m.
Proof.
  intros b n m H. rewrite !join_dec in H. apply app_inv_head in H. apply dec_inj. exact H.
Qed.

Lemma ends_slash_last : forall b, ends_slash b = true -> exists y, b = y ++ [ch_slash].
Proof.
  induction b as [|c b IH]; cbn; intro H; [discriminate|].
  destruct b as [|c' b'].
  - apply N.eqb_eq in H. subst. exists []. reflexivity.
  - destruct (IH H) as [y Hy]. exists (c :: y). cbn. rewrite <- Hy. reflexivity.
Qed.

Lemma norm_shape : forall b, norm b = [] \/ exists y, norm b = y ++ [ch_slash].
Proof.
  intro b. unfold norm. destruct (is_nil b) eqn:E1; cbn.
  - destruct b; [left; reflexivity | discriminate].
  - destruct (ends_slash b) eqn:E2.
    + right. apply ends_slash_last. exact E2.
    + right. exists b. reflexivity.
Qed.

Lemma split_rev : forall (a b r s : str),
  ~ In ch_slash a -> ~ In ch_slash b ->
  (r = [] \/ exists y, r = ch_slash :: y) -> (s = [] \/ exists y, s = ch_slash :: y) ->
  a ++ r = b ++ s -> a = b /\ r = s.
Proof.
  induction a as [|x a IH]; intros b r s Ha Hb Hr Hs E.
  - destruct b as [|y b]; cbn in *; [split; [reflexivity | exact E]|].
    exfalso. destruct Hr as [Hr|[z Hr]]; subst r; [discriminate|].
    inversion E; subst. apply Hb. left; reflexivity.
  - destruct b as [|y b]; cbn in *.
    + exfalso. destruct Hs as [Hs|[z Hs]]; subst s; [discriminate|].
      inversion E; subst. apply Ha. left; reflexivity.
    + inversion E as [[E1 E2]]. subst y.
      destruct (IH b r s) as [A B]; try assumption.
      * intro I. apply Ha. right; exact I.
      * intro I. apply Hb. right; exact I.
      * split; [f_equal; exact A | exact B].
Qed.

Lemma rev_shape : forall x : str, (x = [] \/ exists y, x = y ++ [ch_slash]) ->
  rev x = [] \/ exists y, rev x = ch_slash :: y.
Proof.
  intros x [H|[y H]]; subst; [left; reflexivity|].
  right. exists (rev y). rewrite rev_app_distr. reflexivity.
Qed.

Lemma split_last_slash : forall (x1 x2 d1 d2 : str),
  ~ In ch_slash d1 -> ~ In ch_slash d2 ->
  (x1 = [] \/ exists y, x1 = y ++ [ch_slash]) -> (x2 = [] \/ exists y, x2 = y ++ [ch_slash]) ->
  x1 ++ d1 = x2 ++ d2 -> x1 = x2 /\ d1 = d2.
Proof.
  intros x1 x2 d1 d2 H1 H2 S1 S2 E.
  apply (f_equal (@rev N)) in E. rewrite !rev_app_distr in E.
  destruct (split_rev (rev d1) (rev d2) (rev x1) (rev x2)) as [A B]; try assumption.
  - intro I. apply H1. apply in_rev. exact I.
  - intro I. apply H2. apply in_rev. exact I.
  - apply rev_shape; exact S1.
  - apply rev_shape; exact S2.
  - split.
    + apply (f_equal (@rev N)) in B. rewrite !rev_involutive in B. exact B.
    + apply (f_equal (@rev N)) in A. rewrite !rev_involutive in A. exact A.
Qed.

Lemma join_inj : forall b1 b2 n m,
  path_join b1 (dec n) = path_join b2 (dec m) -> norm b1 = norm b2 /\ n = m.
Proof.
  intros b1 b2 n m H. rewrite !join_dec in H.
  destruct (split_last_slash (norm b1) (norm b2) (dec n) (dec m)) as [A B];
    try apply dec_no_slash; try apply norm_shape; try exact H.
  split; [exact A | apply dec_inj; exact B].
Qed.

Lemma starts_with_app : forall a b, starts_with a (a ++ b) = true.
Proof. induction a as [|x a IH]; cbn; intro b; [reflexivity|]. rewrite N.eqb_refl. apply IH. Qed.

Lemma starts_with_join : forall b n, starts_with b (path_join b (dec n)) = true.
Proof.
  intros b n. rewrite join_dec. unfold norm.
  destruct (is_nil b || ends_slash b); [|rewrite <- app_assoc]; apply starts_with_app.
Qed.


(* ------------------------------------------------------------ develop mode: first pass *)
Definition flat (g : list (str * list str)) : list str := concat (map snd g).
Definition keys_of (st : fstate) : list str := map fst (f_known st) ++ flat (f_groups st).

Lemma first_base_app : forall vs k v,
  first_base (vs ++ [v]) k =
  match first_base vs k with
  | Some b => Some b
  | None => if str_eqb k (fst v) then Some (snd v) else None
  end.
Proof.
  induction vs as [|[k' b'] vs IH]; intros k [kv bv]; cbn.
  - reflexivity.
  - destruct (str_eqb k k'); [reflexivity | apply IH].
Qed.

Lemma first_base_In : forall vs k b, first_base vs k = Some b -> In (k, b) vs.
Proof.
  induction vs as [|[k' b'] vs IH]; cbn; intros k b H; [discriminate|].
  destruct (str_eqb k k') eqn:E.
  - apply str_eqb_eq in E. inversion H; subst. left; reflexivity.
  - right. apply IH. exact H.
Qed.

Lemma flat_group_add_In : forall b k g x,
  In x (flat (group_add b k g)) <-> x = k \/ In x (flat g).
Proof.
  intros b k. induction g as [|[b' ks] g IH]; intro x; unfold flat in *; cbn.
  - intuition.
  - destruct (str_eqb b b'); cbn.
    + rewrite !in_app_iff. cbn. intuition.
    + rewrite !in_app_iff. rewrite IH. intuition.
Qed.

Lemma flat_group_add_NoDup : forall b k g,
  NoDup (flat g) -> ~ In k (flat g) -> NoDup (flat (group_add b k g)).
Proof.
  intros b k. induction g as [|[b' ks] g IH]; intros ND NI; unfold flat in *; cbn in *.
  - constructor; [intros []| constructor].
  - destruct (str_eqb b b'); cbn.
    + rewrite <- app_assoc. cbn.
      apply NoDup_app_intro.
      * apply NoDup_app_l in ND. exact ND.
      * constructor.
        -- intro I. apply NI. apply in_or_app. right; exact I.
        -- apply NoDup_app_r in ND. exact ND.
      * intros x Ix [E|Iy].
        -- subst. apply NI. apply in_or_app. left; exact Ix.
        -- apply (NoDup_app_disj _ _ x ND Ix Iy).
    + apply NoDup_app_intro.
      * apply NoDup_app_l in ND. exact ND.
      * apply IH.
        -- apply NoDup_app_r in ND. exact ND.
        -- intro I. apply NI. apply in_or_app. right; exact I.
      * intros x Ix Iy. apply flat_group_add_In in Iy as [E|Iy].
        -- subst. apply NI. apply in_or_app. left; exact Ix.
        -- apply (NoDup_app_disj _ _ x ND Ix Iy).
Qed.

Lemma group_add_member : forall b k g b' ks k',
  In (b', ks) (group_add b k g) -> In k' ks ->
  (k' = k /\ b' = b) \/ (exists ks0, In (b', ks0) g /\ In k' ks0).
Proof.
  intros b k. induction g as [|[b0 ks0] g IH]; intros b' ks k' I Ik; cbn in I.
  - destruct I as [I|[]]. inversion I; subst. destruct Ik as [E|[]]. left; split; [symmetry; exact E | reflexivity].
  - destruct (str_eqb b b0) eqn:E.
    + apply str_eqb_eq in E. subst b0. destruct I as [I|I].
      * inversion I; subst. apply in_app_or in Ik as [Ik|[Ik|[]]].
        -- right. exists ks0. split; [left; reflexivity | exact Ik].
        -- left. split; [symmetry; exact Ik | reflexivity].
      * right. exists ks. split; [right; exact I | exact Ik].
    + destruct I as [I|I].
      * inversion I; subst. right. exists ks. split; [left; reflexivity | exact Ik].
      * destruct (IH b' ks k' I Ik) as [A|[ks1 [A B]]]; [left; exact A|].
        right. exists ks1. split; [right; exact A | exact B].
Qed.

Lemma group_add_bases : forall b k g x,
  In x (map fst (group_add b k g)) <-> x = b \/ In x (map fst g).
Proof.
  intros b k. induction g as [|[b0 ks0] g IH]; intro x; cbn.
  - intuition.
  - destruct (str_eqb b b0) eqn:E; cbn.
    + apply str_eqb_eq in E. subst. intuition.
    + rewrite IH. intuition.
Qed.

Lemma group_add_bases_NoDup : forall b k g, NoDup (map fst g) -> NoDup (map fst (group_add b k g)).
Proof.
  intros b k. induction g as [|[b0 ks0] g IH]; intro ND; cbn.
  - constructor; [intros []| constructor].
  - inversion ND as [|? ? NI ND']; subst. destruct (str_eqb b b0) eqn:E; cbn.
    + constructor; assumption.
    + constructor.
      * intro I. apply group_add_bases in I as [I|I]; [|contradiction].
        apply str_eqb_neq in E. congruence.
      * apply IH. exact ND'.
Qed.

Record fmt_inv (d : db) (vs : list visit) (st : fstate) : Prop := {
  fi_visited : forall k, In k (f_visited st) <-> first_base vs k <> None;
  fi_keys : forall k, In k (keys_of st) <-> In k (f_visited st);
  fi_nodup : NoDup (keys_of st);
  fi_known : forall k p, In (k, p) (f_known st) ->
               lookup d k = Some p /\ exists b, first_base vs k = Some b /\ starts_with b p = true;
  fi_groups : forall b ks k, In (b, ks) (f_groups st) -> In k ks ->
               first_base vs k = Some b /\
               (lookup d k = None \/ exists p, lookup d k = Some p /\ starts_with b p = false);
  fi_bases_nodup : NoDup (map fst (f_groups st));
  fi_bases : forall b, In b (map fst (f_groups st)) -> In b (map snd vs)
}.

Lemma fmt_inv_nil : forall d, fmt_inv d [] fstate0.
Proof.
  intro d. constructor; cbn.
  - intros k. split; [intros [] | intro H; exfalso; apply H; reflexivity].
  - intros k. split; intros [].
  - constructor.
  - intros k p [].
  - intros b ks k [].
  - constructor.
  - intros b [].
Qed.

Lemma keys_of_flat_In : forall st b ks k, In (b, ks) (f_groups st) -> In k ks -> In k (keys_of st).
Proof.
  intros st b ks k I Ik. unfold keys_of. apply in_or_app. right. unfold flat.
  apply in_concat. exists ks. split; [|exact Ik]. apply (in_map snd) in I. exact I.
Qed.

Lemma fmt_inv_step : forall d vs st v,
  fmt_inv d vs st -> fmt_inv d (vs ++ [v]) (fmt_step d st v).
Proof.
  intros d vs st [key base] [Iv Ik Ind Ikn Ig Ibn Ib].
  assert (Hsnd : forall b, In b (map snd vs) -> In b (map snd (vs ++ [(key, base)]))).
  { intros b I. rewrite map_app. apply in_or_app. left; exact I. }
  assert (Hlast : In base (map snd (vs ++ [(key, base)]))).
  { rewrite map_app. apply in_or_app. right. left. reflexivity. }
  unfold fmt_step. destruct (mem_str key (f_visited st)) eqn:Ev.
  - (* already visited: nothing changes *)
    apply mem_str_In in Ev. assert (Hk : first_base vs key <> None) by (apply Iv; exact Ev).
    assert (FB : forall k, first_base (vs ++ [(key, base)]) k = first_base vs k).
    { intro k. rewrite first_base_app. cbn. destruct (first_base vs k) eqn:E; [reflexivity|].
      destruct (str_eqb k key) eqn:E2; [|reflexivity]. apply str_eqb_eq in E2. subst. congruence. }
    constructor; try assumption.
    + intro k. rewrite FB. apply Iv.
    + intros k p I. rewrite FB. apply Ikn. exact I.
    + intros b ks k I I2. rewrite FB. apply (Ig b ks k I I2).
    + intros b I. apply Hsnd. apply Ib. exact I.
  - apply mem_str_nIn in Ev.
    assert (Hk : first_base vs key = None).
    { destruct (first_base vs key) eqn:E; [|reflexivity]. exfalso. apply Ev. apply Iv. congruence. }
    assert (Hnk : ~ In key (keys_of st)) by (intro I; apply Ev; apply Ik; exact I).
    assert (FBkey : first_base (vs ++ [(key, base)]) key = Some base).
    { rewrite first_base_app. rewrite Hk. cbn. rewrite str_eqb_refl. reflexivity. }
    assert (FBother : forall k b, first_base vs k = Some b -> first_base (vs ++ [(key, base)]) k = Some b).
    { intros k b E. rewrite first_base_app. rewrite E. reflexivity. }
    assert (FBiff : forall k, first_base (vs ++ [(key, base)]) k <> None <-> k = key \/ first_base vs k <> None).
    { intro k. rewrite first_base_app. cbn. destruct (first_base vs k) eqn:E.
      - split; [intros _; right; discriminate | intros _; discriminate].
      - destruct (str_eqb k key) eqn:E2.
        + apply str_eqb_eq in E2. split; [intros _; left; exact E2 | intros _; discriminate].
        + apply str_eqb_neq in E2. split; [intro H; exfalso; apply H; reflexivity|].
          intros [A|A]; [contradiction | exfalso; apply A; reflexivity]. }
    (* the two outcomes: kept, or queued for a number *)
    assert (QueueCase :
      (lookup d key = None \/ exists p, lookup d key = Some p /\ starts_with base p = false) ->
      fmt_inv d (vs ++ [(key, base)])
              {| f_visited := key :: f_visited st; f_known := f_known st;
                 f_groups := group_add base key (f_groups st) |}).
    { intro Hq. constructor; cbn [f_visited f_known f_groups].
      - intro k. rewrite FBiff. rewrite <- Iv. cbn [In]. intuition (subst; auto).
      - intro k. unfold keys_of; cbn [f_visited f_known f_groups]. rewrite in_app_iff, flat_group_add_In.
        unfold keys_of in Ik. cbn [In]. rewrite <- Ik, in_app_iff. intuition (subst; auto).
      - unfold keys_of in *; cbn [f_visited f_known f_groups]. apply NoDup_app_intro.
        + apply NoDup_app_l in Ind. exact Ind.
        + apply flat_group_add_NoDup; [apply NoDup_app_r in Ind; exact Ind|].
          intro I. apply Hnk. apply in_or_app. right; exact I.
        + intros x Ix Iy. apply flat_group_add_In in Iy as [E|Iy].
          * subst. apply Hnk. apply in_or_app. left; exact Ix.
          * apply (NoDup_app_disj _ _ x Ind Ix Iy).
      - intros k p I. destruct (Ikn k p I) as [A [b [B C]]]. split; [exact A|].
        exists b. split; [apply FBother; exact B | exact C].
      - intros b ks k I I2. destruct (group_add_member _ _ _ _ _ _ I I2) as [[E1 E2]|[ks0 [A B]]].
        + subst. split; [exact FBkey | exact Hq].
        + destruct (Ig b ks0 k A B) as [C D]. split; [apply FBother; exact C | exact D].
      - apply group_add_bases_NoDup. exact Ibn.
      - intros b I. apply group_add_bases in I as [E|I]; [subst; exact Hlast | apply Hsnd; apply Ib; exact I]. }
    destruct (lookup d key) as [path|] eqn:El.
    + destruct (starts_with base path) eqn:Es.
      * (* kept *)
        constructor; cbn [f_visited f_known f_groups].
        -- intro k. rewrite FBiff. rewrite <- Iv. cbn [In]. intuition (subst; auto).
        -- intro k. unfold keys_of; cbn [f_visited f_known f_groups]. rewrite map_app, !in_app_iff. cbn [map fst In].
           unfold keys_of in Ik. rewrite <- Ik, in_app_iff. intuition (subst; auto).
        -- unfold keys_of in *; cbn [f_visited f_known f_groups]. rewrite map_app. cbn [map fst]. rewrite <- app_assoc. cbn [app].
           apply NoDup_app_intro.
           ++ apply NoDup_app_l in Ind. exact Ind.
           ++ constructor.
              ** intro I. apply Hnk. apply in_or_app. right; exact I.
              ** apply NoDup_app_r in Ind. exact Ind.
           ++ intros x Ix [E|Iy].
              ** subst. apply Hnk. apply in_or_app. left; exact Ix.
              ** apply (NoDup_app_disj _ _ x Ind Ix Iy).
        -- intros k p I. apply in_app_or in I as [I|[I|[]]].
           ++ destruct (Ikn k p I) as [A [b [B C]]]. split; [exact A|].
              exists b. split; [apply FBother; exact B | exact C].
           ++ inversion I; subst. split; [exact El|]. exists base. split; [exact FBkey | exact Es].
        -- intros b ks k I I2. destruct (Ig b ks k I I2) as [C D]. split; [apply FBother; exact C | exact D].
        -- exact Ibn.
        -- intros b I. apply Hsnd. apply Ib. exact I.
      * apply QueueCase. right. exists path. split; [reflexivity | exact Es].
    + apply QueueCase. left. reflexivity.
Qed.

Lemma fmt_pass_snoc : forall d vs v, fmt_pass d (vs ++ [v]) = fmt_step d (fmt_pass d vs) v.
Proof. intros. unfold fmt_pass. rewrite fold_left_app. reflexivity. Qed.

Lemma fmt_pass_inv : forall d vs, fmt_inv d vs (fmt_pass d vs).
Proof.
  intros d vs. induction vs as [|v vs IH] using rev_ind.
  - apply fmt_inv_nil.
  - rewrite fmt_pass_snoc. apply fmt_inv_step. exact IH.
Qed.

(* ------------------------------------------------------------ develop mode: numbering *)
Fixpoint cands (f : nat) (b : str) (n : N) : list str :=
  match f with O => [] | S f' => path_join b (dec n) :: cands f' b (N.succ n) end.

Lemma cands_form : forall f b n x, In x (cands f b n) -> exists m, n <= m /\ x = path_join b (dec m).
Proof.
  induction f as [|f IH]; cbn; intros b n x H; [contradiction|].
  destruct H as [H|H].
  - exists n. split; [lia | symmetry; exact H].
  - destruct (IH b (N.succ n) x H) as [m [A B]]. exists m. split; [lia | exact B].
Qed.

Lemma cands_NoDup : forall f b n, NoDup (cands f b n).
Proof.
  induction f as [|f IH]; cbn; intros b n; constructor; [|apply IH].
  intro I. apply cands_form in I as [m [A B]]. apply join_inj_num in B. lia.
Qed.

Lemma cands_length : forall f b n, length (cands f b n) = f.
Proof. induction f as [|f IH]; cbn; intros; [reflexivity | rewrite IH; reflexivity]. Qed.

Lemma alloc_none : forall f b n kd, alloc f b n kd = None -> incl (cands f b n) kd.
Proof.
  induction f as [|f IH]; cbn; intros b n kd H x I; [contradiction|].
  destruct (mem_str (path_join b (dec n)) kd) eqn:E; [|discriminate].
  destruct I as [I|I]; [subst; apply mem_str_In; exact E | apply (IH b (N.succ n) kd H x I)].
Qed.

Lemma alloc_fuel_enough : forall f b n kd, (length kd < f)%nat -> alloc f b n kd <> None.
Proof.
  intros f b n kd L H. apply alloc_none in H.
  pose proof (NoDup_incl_length (cands_NoDup f b n) H) as Q. rewrite cands_length in Q. lia.
Qed.

Lemma alloc_spec : forall f b n kd p n',
  alloc f b n kd = Some (p, n') ->
  exists m, n <= m /\ n' = N.succ m /\ p = path_join b (dec m) /\ ~ In p kd.
Proof.
  induction f as [|f IH]; cbn; intros b n kd p n' H; [discriminate|].
  destruct (mem_str (path_join b (dec n)) kd) eqn:E.
  - destruct (IH b (N.succ n) kd p n' H) as [m [A [B [C D]]]]. exists m. repeat split; try assumption; lia.
  - inversion H; subst. exists n. repeat split; try lia. apply mem_str_nIn. exact E.
Qed.

(* what a freshly numbered entry looks like *)
Definition fresh_entry (b : str) (lo : N) (kd : list str) (e : str * str) : Prop :=
  exists m, lo <= m /\ snd e = path_join b (dec m) /\ ~ In (snd e) kd.

Lemma assign_spec : forall f b ks n kd news,
  assign f b n ks kd = Some news ->
  map fst news = ks /\ Forall (fresh_entry b n kd) news /\ NoDup (map snd news).
Proof.
  intros f b. induction ks as [|k ks IH]; cbn; intros n kd news H.
  - inversion H; subst. repeat split; constructor.
  - destruct (alloc f b n kd) as [[p n']|] eqn:Ea; [|discriminate].
    destruct (assign f b n' ks kd) as [r|] eqn:Er; [|discriminate].
    inversion H; subst. apply alloc_spec in Ea as [m [A [B [C D]]]].
    destruct (IH n' kd r Er) as [F1 [F2 F3]]. cbn. repeat split.
    + f_equal. exact F1.
    + constructor.
      * exists m. cbn. repeat split; assumption.
      * eapply Forall_impl; [|exact F2]. intros e [m' [A' [B' C']]]. exists m'. repeat split; try assumption. lia.
    + constructor; [|exact F3]. intro I. apply in_map_iff in I as [e [E1 E2]].
      rewrite Forall_forall in F2. destruct (F2 e E2) as [m' [A' [B' C']]].
      rewrite E1 in B'. rewrite C in B'. apply join_inj_num in B'. lia.
Qed.

Lemma assign_total : forall f b ks n kd, (length kd < f)%nat -> assign f b n ks kd <> None.
Proof.
  intros f b. induction ks as [|k ks IH]; cbn; intros n kd L; [discriminate|].
  destruct (alloc f b n kd) as [[p n']|] eqn:Ea.
  - destruct (assign f b n' ks kd) eqn:Er; [discriminate|]. exfalso. apply (IH n' kd L). exact Er.
  - exfalso. apply (alloc_fuel_enough f b n kd L). exact Ea.
Qed.

Definition group_entry (g : list (str * list str)) (kd : list str) (e : str * str) : Prop :=
  exists b ks, In (b, ks) g /\ In (fst e) ks /\ fresh_entry b 1 kd e.

Lemma write_groups_spec : forall f g kd news,
  write_groups f g kd = Some news ->
  map fst news = flat g /\ Forall (group_entry g kd) news /\
  (NoDup (map fst g) -> sep (map fst g) -> NoDup (map snd news)).
Proof.
  intros f. induction g as [|[b ks] g IH]; cbn; intros kd news H.
  - inversion H; subst. repeat split; constructor.
  - destruct (assign f b 1 ks kd) as [a|] eqn:Ea; [|discriminate].
    destruct (write_groups f g kd) as [c|] eqn:Ec; [|discriminate].
    inversion H; subst. destruct (assign_spec _ _ _ _ _ _ Ea) as [A1 [A2 A3]].
    destruct (IH kd c Ec) as [C1 [C2 C3]].
    assert (HA : Forall (group_entry ((b, ks) :: g) kd) a).
    { rewrite Forall_forall in *. intros e Ie. exists b, ks. split; [left; reflexivity|].
      split; [|apply A2; exact Ie]. rewrite <- A1. apply in_map. exact Ie. }
    assert (HC : Forall (group_entry ((b, ks) :: g) kd) c).
    { eapply Forall_impl; [|exact C2]. intros e [b' [ks' [I1 [I2 I3]]]]. exists b', ks'.
      split; [right; exact I1 | split; assumption]. }
    repeat split.
    + rewrite map_app. unfold flat. cbn. rewrite A1, C1. reflexivity.
    + apply Forall_app. split; assumption.
    + intros ND S. inversion ND as [|? ? NI ND']; subst. rewrite map_app. apply NoDup_app_intro.
      * exact A3.
      * apply C3; [exact ND'|]. intros b1 b2 I1 I2. apply S; right; assumption.
      * intros x Ia Ic. apply in_map_iff in Ia as [ea [E1 I1]]. apply in_map_iff in Ic as [ec [E2 I2]].
        rewrite Forall_forall in A2, C2.
        destruct (A2 ea I1) as [m [_ [B _]]].
        destruct (C2 ec I2) as [b' [ks' [J1 [_ [m' [_ [B' _]]]]]]].
        rewrite E1 in B. rewrite E2 in B'. rewrite B in B'. apply join_inj in B' as [N1 _].
        assert (b = b').
        { apply S; [left; reflexivity | right; apply (in_map fst) in J1; exact J1 | exact N1]. }
        subst b'. apply NI. apply (in_map fst) in J1. exact J1.
Qed.

Lemma write_groups_total : forall f g kd, (length kd < f)%nat -> write_groups f g kd <> None.
Proof.
  intros f. induction g as [|[b ks] g IH]; cbn; intros kd L; [discriminate|].
  destruct (assign f b 1 ks kd) eqn:Ea.
  - destruct (write_groups f g kd) eqn:Ec; [discriminate | exfalso; apply (IH kd L); exact Ec].
  - exfalso. apply (assign_total f b ks 1 kd L). exact Ea.
Qed.

Lemma refresh_total : forall d vs, refresh d vs <> None.
Proof.
  intros d vs. unfold refresh, write_back.
  destruct (write_groups _ _ _) eqn:E; [discriminate|].
  exfalso. eapply write_groups_total; [|exact E]. lia.
Qed.

(* the table is a partial injection: keys unique, directories unique *)
Definition db_ok (d : db) : Prop := NoDup (map fst d) /\ NoDup (map snd d).

Lemma db_ok_inj : forall d k1 k2 p, db_ok d -> lookup d k1 = Some p -> lookup d k2 = Some p -> k1 = k2.
Proof.
  induction d as [|[k v] d IH]; cbn; intros k1 k2 p [N1 N2] H1 H2; [discriminate|].
  inversion N1 as [|? ? NI1 N1']; inversion N2 as [|? ? NI2 N2']; subst.
  destruct (str_eqb k1 k) eqn:E1; destruct (str_eqb k2 k) eqn:E2.
  - apply str_eqb_eq in E1, E2. congruence.
  - inversion H1; subst. exfalso. apply NI2. apply lookup_In in H2. apply (in_map snd) in H2. exact H2.
  - inversion H2; subst. exfalso. apply NI2. apply lookup_In in H1. apply (in_map snd) in H1. exact H1.
  - apply (IH k1 k2 p); [split; assumption | assumption | assumption].
Qed.

Lemma kept_values_NoDup : forall (d : db) (l : list (str * str)),
  db_ok d -> NoDup (map fst l) -> (forall k p, In (k, p) l -> lookup d k = Some p) -> NoDup (map snd l).
Proof.
  intros d. induction l as [|[k p] l IH]; cbn; intros OK ND H; [constructor|].
  inversion ND as [|? ? NI ND']; subst. constructor.
  - intro I. apply in_map_iff in I as [[k' p'] [E I]]. cbn in E. subst p'.
    assert (k' = k).
    { apply (db_ok_inj d k' k p OK); [apply H; right; exact I | apply H; left; reflexivity]. }
    subst. apply NI. apply (in_map fst) in I. exact I.
  - apply IH; [exact OK | exact ND' | intros k' p' I; apply H; right; exact I].
Qed.

Record refresh_facts (d : db) (vs : list visit) (d' : db) : Prop := {
  rf_keys : NoDup (map fst d');
  rf_vals : db_ok d -> sep (map snd vs) -> NoDup (map snd d');
  rf_prefix : forall k p, lookup d' k = Some p -> exists b, first_base vs k = Some b /\ starts_with b p = true;
  rf_keep : forall k p b, lookup d k = Some p -> first_base vs k = Some b -> starts_with b p = true ->
              lookup d' k = Some p;
  rf_total : forall k, first_base vs k <> None -> lookup d' k <> None;
  rf_only : forall k, lookup d' k <> None -> first_base vs k <> None
}.

Lemma refresh_spec : forall d vs d', refresh d vs = Some d' -> refresh_facts d vs d'.
Proof.
  intros d vs d' H. unfold refresh, write_back in H.
  pose proof (fmt_pass_inv d vs) as [Iv Ik Ind Ikn Ig Ibn Ib].
  set (st := fmt_pass d vs) in *.
  destruct (write_groups _ (f_groups st) (map snd (f_known st))) as [news|] eqn:Ew; [|discriminate].
  inversion H; subst d'. clear H.
  destruct (write_groups_spec _ _ _ _ Ew) as [W1 [W2 W3]].
  assert (KEYS : map fst (f_known st ++ news) = keys_of st).
  { rewrite map_app, W1. reflexivity. }
  assert (NDK : NoDup (map fst (f_known st ++ news))) by (rewrite KEYS; exact Ind).
  assert (NEW : forall k p, In (k, p) news -> exists b, first_base vs k = Some b /\ starts_with b p = true).
  { intros k p I. rewrite Forall_forall in W2. destruct (W2 _ I) as [b [ks [J1 [J2 [m [_ [B _]]]]]]].
    cbn in J2, B. destruct (Ig b ks k J1 J2) as [F _]. exists b. split; [exact F|].
    subst p. apply starts_with_join. }
  constructor.
  - exact NDK.
  - intros OK S. rewrite map_app. apply NoDup_app_intro.
    + apply (kept_values_NoDup d); [exact OK | | intros k p I; apply (Ikn k p I)].
      unfold keys_of in Ind. apply NoDup_app_l in Ind. exact Ind.
    + apply W3; [exact Ibn|]. intros b1 b2 I1 I2. apply S; apply Ib; assumption.
    + intros x Ia Ic. apply in_map_iff in Ic as [e [E I]]. rewrite Forall_forall in W2.
      destruct (W2 e I) as [b [ks [_ [_ [m [_ [_ C]]]]]]]. apply C. rewrite E. exact Ia.
  - intros k p L. apply lookup_In in L. apply in_app_or in L as [L|L].
    + destruct (Ikn k p L) as [_ Q]. exact Q.
    + apply NEW. exact L.
  - intros k p b L F S.
    assert (Hin : In k (keys_of st)) by (apply Ik; apply Iv; congruence).
    unfold keys_of in Hin. apply in_app_or in Hin as [Hin|Hin].
    + apply in_map_iff in Hin as [[k' p'] [E I]]. cbn in E. subst k'.
      destruct (Ikn k p' I) as [A _]. assert (p' = p) by congruence. subst p'.
      apply In_lookup; [exact NDK | apply in_or_app; left; exact I].
    + unfold flat in Hin. apply in_concat in Hin as [ks [J1 J2]].
      apply in_map_iff in J1 as [[b' ks'] [E J1]]. cbn in E. subst ks'.
      destruct (Ig b' ks k J1 J2) as [F' Q]. assert (b' = b) by congruence. subst b'.
      destruct Q as [Q|[p' [Q1 Q2]]]; [congruence|]. assert (p' = p) by congruence. subst. congruence.
  - intros k F L. apply lookup_None in L. apply L. rewrite KEYS. apply Ik. apply Iv. exact F.
  - intros k L. apply Iv. apply Ik. rewrite <- KEYS.
    destruct (lookup (f_known st ++ news) k) eqn:E; [|congruence]. apply lookup_Some_In_keys in E. exact E.
Qed.

(* ------------------------------------------------------------ develop mode: histories *)

Lemma prime_visits_cases : forall s ck vs s',
  prime_visits s ck vs = Some s' ->
  (vsn_matches (fst s) ck = true /\ s' = s) \/
  (vsn_matches (fst s) ck = false /\ exists d', refresh (snd s) vs = Some d' /\ s' = (Some ck, d')).
Proof.
  intros s ck vs s' H. unfold prime_visits in H. destruct (vsn_matches (fst s) ck) eqn:M.
  - left. inversion H. split; reflexivity.
  - right. split; [reflexivity|]. destruct (refresh (snd s) vs) as [d'|]; [|discriminate].
    exists d'. inversion H. split; reflexivity.
Qed.

Lemma prime_visits_ok : forall s ck vs s',
  db_ok (snd s) -> sep (map snd vs) -> prime_visits s ck vs = Some s' -> db_ok (snd s').
Proof.
  intros [vsn d] ck vs s' OK S H. unfold prime_visits in H. cbn [fst snd] in *.
  destruct (vsn_matches vsn ck); [inversion H; subst; exact OK|].
  destruct (refresh d vs) as [d'|] eqn:E; [|discriminate]. inversion H; subst. cbn.
  destruct (refresh_spec _ _ _ E) as [K V _ _ _ _]. split; [exact K | apply V; assumption].
Qed.

Lemma run_history_ok : forall h s s',
  db_ok (snd s) -> hist_sep h -> run_history s h = Some s' -> db_ok (snd s').
Proof.
  induction h as [|[ck vs] h IH]; cbn; intros s s' OK S H.
  - inversion H; subst. exact OK.
  - inversion S as [|? ? S1 S2]; subst. destruct (prime_visits s ck vs) as [s1|] eqn:E; [|discriminate].
    apply (IH s1 s'); [|exact S2 | exact H]. apply (prime_visits_ok s ck vs s1 OK S1 E).
Qed.

Lemma db_ok_nil : db_ok [].
Proof. split; constructor. Qed.

Lemma dev_dirs_injective_proof : forall h s',
  hist_sep h -> run_history ostate0 h = Some s' ->
  forall k1 k2 d, lookup (snd s') k1 = Some d -> lookup (snd s') k2 = Some d -> k1 = k2.
Proof.
  intros h s' S H k1 k2 d L1 L2.
  apply (db_ok_inj (snd s') k1 k2 d); [|exact L1 | exact L2].
  apply (run_history_ok h ostate0 s'); [apply db_ok_nil | exact S | exact H].
Qed.

Lemma run_history_total_proof : forall h s, run_history s h <> None.
Proof.
  induction h as [|[ck vs] h IH]; cbn; intros s; [discriminate|].
  destruct (prime_visits s ck vs) as [s1|] eqn:E; [apply IH|].
  exfalso. unfold prime_visits in E. destruct (vsn_matches (fst s) ck); [discriminate|].
  destruct (refresh (snd s) vs) eqn:E2; [discriminate|]. apply (refresh_total _ _ E2).
Qed.

Lemma dev_dirs_stable_proof : forall h s s' k b p,
  lookup (snd s) k = Some p -> starts_with b p = true ->
  (forall ck vs, In (ck, vs) h -> first_base vs k = Some b) ->
  run_history s h = Some s' -> lookup (snd s') k = Some p.
Proof.
  induction h as [|[ck vs] h IH]; cbn; intros s s' k b p L S F H.
  - inversion H; subst. exact L.
  - destruct (prime_visits s ck vs) as [s1|] eqn:E; [|discriminate].
    apply (IH s1 s' k b p); [| exact S | intros ck' vs' I; apply (F ck' vs'); right; exact I | exact H].
    apply prime_visits_cases in E as [[_ E]|[_ [d' [E2 E]]]]; subst s1; [exact L|]. cbn.
    destruct (refresh_spec _ _ _ E2) as [_ _ _ K _ _]. apply (K k p b L); [|exact S].
    apply (F ck vs). left; reflexivity.
Qed.

Lemma dev_dirs_stable_from_refresh_proof : forall d vs d' rest vsn s' k b,
  refresh d vs = Some d' -> first_base vs k = Some b ->
  (forall ck vs', In (ck, vs') rest -> first_base vs' k = Some b) ->
  run_history (vsn, d') rest = Some s' ->
  exists p, lookup d' k = Some p /\ lookup (snd s') k = Some p.
Proof.
  intros d vs d' rest vsn s' k b R F A H.
  destruct (refresh_spec _ _ _ R) as [_ _ P _ T _].
  destruct (lookup d' k) as [p|] eqn:L; [|exfalso; apply (T k); [congruence | exact L]].
  exists p. split; [reflexivity|].
  destruct (P k p L) as [b' [F' S]]. assert (b' = b) by congruence. subst b'.
  apply (dev_dirs_stable_proof rest (vsn, d') s' k b p); assumption.
Qed.

Lemma dev_lookup_total_proof : forall s ck vs s',
  vsn_matches (fst s) ck = false -> prime_visits s ck vs = Some s' ->
  forall k, first_base vs k <> None <-> lookup (snd s') k <> None.
Proof.
  intros s ck vs s' M H k. unfold prime_visits in H. rewrite M in H.
  destruct (refresh (snd s) vs) as [d'|] eqn:E; [|discriminate]. inversion H; subst. cbn.
  destruct (refresh_spec _ _ _ E) as [_ _ _ _ T O]. split; [apply T | apply O].
Qed.

Lemma app_inv_same_length : forall (a1 a2 b1 b2 : str),
  length b1 = length b2 -> a1 ++ b1 = a2 ++ b2 -> a1 = a2 /\ b1 = b2.
Proof.
  induction a1 as [|x a1 IH]; intros a2 b1 b2 L E.
  - destruct a2 as [|y a2]; [split; [reflexivity | exact E]|].
    exfalso. cbn in E. subst b1. cbn in L. rewrite app_length in L. lia.
  - destruct a2 as [|y a2].
    + exfalso. cbn in E. subst b2. cbn in L. rewrite app_length in L. lia.
    + cbn in E. inversion E as [[E1 E2]]. destruct (IH a2 b1 b2 L E2) as [A B]. split; [f_equal; exact A | exact B].
Qed.

Lemma dev_same_dir_same_variant_proof : forall h s' p1 p2 k1 k2 v1 v2 d,
  hist_sep h -> run_history ostate0 h = Some s' ->
  p_vid k1 p1 = Some v1 -> p_vid k2 p2 = Some v2 -> length v1 = length v2 ->
  dev_dir (snd s') k1 p1 = Some d -> dev_dir (snd s') k2 p2 = Some d ->
  utf8 (p_recipe p1) = utf8 (p_recipe p2) /\ v1 = v2.
Proof.
  intros h s' p1 p2 k1 k2 v1 v2 d S H V1 V2 L D1 D2. unfold dev_dir in *. rewrite V1 in D1. rewrite V2 in D2.
  pose proof (dev_dirs_injective_proof h s' S H _ _ _ D1 D2) as E. unfold dev_key in E.
  apply app_inv_same_length in E; assumption.
Qed.

(* ------------------------------------------------------------ release mode *)
Section AssocSet.
  Context {V : Type}.
  Lemma lookup_set_kv : forall (l : list (str * V)) k v k',
    lookup (set_kv l k v) k' = if str_eqb k' k then Some v else lookup l k'.
  Proof.
    induction l as [|[k0 v0] l IH]; cbn; intros k v k'.
    - reflexivity.
    - destruct (str_eqb k k0) eqn:E; cbn.
      + apply str_eqb_eq in E. subst k0. destruct (str_eqb k' k); reflexivity.
      + destruct (str_eqb k' k0) eqn:E2.
        * apply str_eqb_eq in E2. subst k0. destruct (str_eqb k' k) eqn:E3; [|reflexivity].
          apply str_eqb_eq in E3. subst. rewrite str_eqb_refl in E. discriminate.
        * apply IH.
  Qed.
End AssocSet.

Section Release.
  Variable BL GL : list str.             (* base directories / digests that may be presented *)
  Hypothesis BL_sep : sep BL.
  Hypothesis disjoint : forall x, In x BL -> In x GL -> False.


  Record bn_inv (m : bnmap) : Prop := {
    bi_cnt : forall k n, lookup m k = Some (BCnt n) -> In k BL;
    bi_dir : forall k d s, lookup m k = Some (BDir d s) ->
               In k GL /\ exists b j c, In b BL /\ d = path_join b (dec j) /\
                                        lookup m b = Some (BCnt c) /\ 1 <= j /\ j <= c;
    bi_inj : forall g1 g2 d, bn_assigned m g1 = Some d -> bn_assigned m g2 = Some d -> g1 = g2
  }.

  Lemma bn_inv_nil : bn_inv [].
  Proof. constructor; cbn; intros; discriminate. Qed.

  Lemma bn_get_step : forall m b g s m' r,
    bn_inv m -> In b BL -> In g GL -> bn_get m b g s = (m', r) ->
    bn_inv m' /\ (exists d, r = RDir d /\ bn_assigned m' g = Some d) /\
    (forall g' d', bn_assigned m g' = Some d' -> bn_assigned m' g' = Some d').
  Proof.
    intros m b g s m' r [C D J] Hb Hg H. unfold bn_get in H.
    destruct (lookup m g) as [[n|d0 s0]|] eqn:Lg.
    - exfalso. apply (disjoint g); [apply (C g n Lg) | exact Hg].
    - inversion H; subst. split; [constructor; assumption|]. split.
      + exists d0. split; [reflexivity|]. unfold bn_assigned. rewrite Lg. reflexivity.
      + intros; assumption.
    - assert (NE : b <> g) by (intro E; subst; apply (disjoint g); assumption).
      assert (Hcur : exists n, (lookup m b = Some (BCnt n) \/ (lookup m b = None /\ n = 0)) /\
                     m' = set_kv (set_kv m b (BCnt (n + 1))) g (BDir (path_join b (dec (n + 1))) s) /\
                     r = RDir (path_join b (dec (n + 1)))).
      { destruct (lookup m b) as [[n|d1 s1]|] eqn:Lb.
        - exists n. inversion H; subst. split; [left; reflexivity | split; reflexivity].
        - exfalso. destruct (D b d1 s1 Lb) as [G _]. apply (disjoint b); assumption.
        - exists 0. inversion H; subst. split; [right; split; reflexivity | split; reflexivity]. }
      destruct Hcur as [n [Hn [Em Er]]]. clear H. subst m' r.
      set (res := path_join b (dec (n + 1))).
      assert (LK : forall k, lookup (set_kv (set_kv m b (BCnt (n + 1))) g (BDir res s)) k =
                   if str_eqb k g then Some (BDir res s)
                   else if str_eqb k b then Some (BCnt (n + 1)) else lookup m k).
      { intro k. rewrite !lookup_set_kv. reflexivity. }
      assert (Lb' : lookup (set_kv (set_kv m b (BCnt (n + 1))) g (BDir res s)) b = Some (BCnt (n + 1))).
      { rewrite LK. destruct (str_eqb b g) eqn:E; [apply str_eqb_eq in E; contradiction|].
        rewrite str_eqb_refl. reflexivity. }
      assert (OLD : forall g' d', bn_assigned m g' = Some d' ->
                     g' <> g /\ g' <> b /\ bn_assigned (set_kv (set_kv m b (BCnt (n + 1))) g (BDir res s)) g' = Some d').
      { intros g' d' A. unfold bn_assigned in A. destruct (lookup m g') as [[?|d1 s1]|] eqn:L; try discriminate.
        inversion A; subst d1. destruct (D g' d' s1 L) as [G' _].
        assert (N1 : g' <> g) by (intro E; subst; congruence).
        assert (N2 : g' <> b) by (intro E; subst; apply (disjoint b); assumption).
        repeat split; try assumption. unfold bn_assigned. rewrite LK.
        apply str_eqb_neq in N1, N2. rewrite N1, N2, L. reflexivity. }
      assert (NEWONLY : forall g' d', bn_assigned (set_kv (set_kv m b (BCnt (n + 1))) g (BDir res s)) g' = Some d' ->
                     (g' = g /\ d' = res) \/ (g' <> g /\ bn_assigned m g' = Some d')).
      { intros g' d' A. unfold bn_assigned in A. rewrite LK in A.
        destruct (str_eqb g' g) eqn:E1.
        - apply str_eqb_eq in E1. inversion A; subst. left; split; reflexivity.
        - destruct (str_eqb g' b) eqn:E2; [discriminate|]. right. apply str_eqb_neq in E1. split; [exact E1 | exact A]. }
      assert (FRESH : forall g' , bn_assigned m g' = Some res -> False).
      { intros g' A. unfold bn_assigned in A. destruct (lookup m g') as [[?|d1 s1]|] eqn:L; try discriminate.
        inversion A; subst d1. destruct (D g' res s1 L) as [_ [b0 [j [c [B0 [E [Lc [J1 J2]]]]]]]].
        unfold res in E. apply join_inj in E as [E1 E2].
        assert (b = b0) by (apply BL_sep; assumption). subst b0.
        destruct Hn as [Hn|[Hn _]]; [|congruence]. assert (c = n) by congruence. lia. }
      split; [constructor|split].
      + intros k n0 L. rewrite LK in L. destruct (str_eqb k g); [discriminate|].
        destruct (str_eqb k b) eqn:E; [apply str_eqb_eq in E; subst; exact Hb | apply (C k n0 L)].
      + intros k d s1 L. rewrite LK in L. destruct (str_eqb k g) eqn:E1.
        * apply str_eqb_eq in E1. inversion L; subst. split; [exact Hg|].
          exists b, (n + 1), (n + 1). repeat split; try assumption; try lia.
        * destruct (str_eqb k b) eqn:E2; [discriminate|].
          destruct (D k d s1 L) as [G [b0 [j [c [B0 [E [Lc [J1 J2]]]]]]]]. split; [exact G|].
          destruct (str_eqb b0 b) eqn:E3.
          -- apply str_eqb_eq in E3. subst b0. exists b, j, (n + 1). repeat split; try assumption; try lia.
             destruct Hn as [Hn|[Hn _]]; [|congruence]. assert (c = n) by congruence. lia.
          -- exists b0, j, c. repeat split; try assumption. rewrite LK.
             destruct (str_eqb b0 g) eqn:E4; [apply str_eqb_eq in E4; subst; exfalso; apply (disjoint g); assumption|].
             rewrite E3. exact Lc.
      + intros g1 g2 d A1 A2.
        destruct (NEWONLY _ _ A1) as [[E1 F1]|[N1 O1]]; destruct (NEWONLY _ _ A2) as [[E2 F2]|[N2 O2]].
        * congruence.
        * subst. exfalso. apply (FRESH g2). exact O2.
        * subst. exfalso. apply (FRESH g1). exact O1.
        * apply (J g1 g2 d O1 O2).
      + exists res. split; [reflexivity|]. unfold bn_assigned. rewrite LK, str_eqb_refl. reflexivity.
      + intros g' d' A. apply OLD in A as [_ [_ A]]. exact A.
  Qed.

  Lemma bn_run_spec : forall ops m m' rs,
    bn_inv m -> bn_wf BL GL ops -> bn_run m ops = (m', rs) ->
    bn_inv m' /\
    (forall g d, bn_assigned m g = Some d -> bn_assigned m' g = Some d) /\
    length rs = length ops /\
    (forall b g s r, In ((b, g, s), r) (combine ops rs) -> exists d, r = RDir d /\ bn_assigned m' g = Some d).
  Proof.
    induction ops as [|[[b g] s] ops IH]; cbn; intros m m' rs I W H.
    - inversion H; subst. split; [exact I|]. split; [intros; assumption|]. split; [reflexivity|]. intros ? ? ? ? [].
    - inversion W as [|? ? [Wb Wg] W']; subst. cbn in Wb, Wg.
      destruct (bn_get m b g s) as [m1 x] eqn:E1. destruct (bn_run m1 ops) as [m2 xs] eqn:E2.
      inversion H; subst. destruct (bn_get_step _ _ _ _ _ _ I Wb Wg E1) as [I1 [[d [Ex A]] Mono]].
      destruct (IH m1 m' xs I1 W' E2) as [I2 [Mono2 [Len Res]]].
      split; [|split; [|split]].
      + exact I2.
      + intros g' d' A'. apply Mono2. apply Mono. exact A'.
      + cbn. rewrite Len. reflexivity.
      + intros b' g' s' r [In0|In0].
        * inversion In0; subst. exists d. split; [reflexivity | apply Mono2; exact A].
        * apply (Res b' g' s' r In0).
  Qed.
End Release.

(* ------------------------------------------------------------ bob clean *)
Lemma insert_sorted_In : forall x l y, In y (insert_sorted x l) <-> y = x \/ In y l.
Proof.
  intros x. induction l as [|z l IH]; cbn; intro y.
  - intuition.
  - destruct (str_leb x z); cbn; [intuition|]. rewrite IH. intuition.
Qed.

Lemma sort_strs_In : forall l y, In y (sort_strs l) <-> In y l.
Proof.
  induction l as [|x l IH]; cbn; intro y; [reflexivity|].
  rewrite insert_sorted_In, IH. intuition.
Qed.


Fixpoint pkg_ind' (P : pkg -> Prop)
  (H : forall id r n co bu pk deps, Forall P deps -> P (Pkg id r n co bu pk deps)) (p : pkg) : P p :=
  match p with
  | Pkg id r n co bu pk deps =>
      H id r n co bu pk deps
        ((fix go (l : list pkg) : Forall P l :=
            match l with
            | [] => Forall_nil P
            | d :: t => Forall_cons d (pkg_ind' P H d) (go t)
            end) deps)
  end.

Section Walk.
  Variable wp : kind -> pkg -> option str.
  Variable ds : dirstates.

  Fixpoint walk_list (l : list pkg) (s : list N * list str) : option (list N * list str) :=
    match l with
    | [] => Some s
    | d :: r => match walk wp ds d s with
                | Some s' => walk_list r s'
                | None => None
                end
    end.

  Lemma walk_unfold : forall p st,
    walk wp ds p st =
    if mem_N (p_id p) (fst st) then Some st
    else match own_paths wp ds p with
         | None => None
         | Some own => walk_list (p_deps p) (p_id p :: fst st, snd st ++ own)
         end.
  Proof. intros [id r n co bu pk deps] st. reflexivity. Qed.

  Variable root : pkg.
  Hypothesis cons : consistent root.

  Definition closed_in (n : pkg) (s : list N * list str) : Prop :=
    (exists own, own_paths wp ds n = Some own /\ incl own (snd s)) /\
    (forall c, In c (p_deps n) -> In (p_id c) (fst s)).

  Definition walk_post (s s' : list N * list str) : Prop :=
    incl (fst s) (fst s') /\ incl (snd s) (snd s') /\
    (forall n, subnode root n -> In (p_id n) (fst s') -> ~ In (p_id n) (fst s) -> closed_in n s').

  Lemma closed_mono : forall n s1 s2,
    incl (fst s1) (fst s2) -> incl (snd s1) (snd s2) -> closed_in n s1 -> closed_in n s2.
  Proof.
    intros n s1 s2 I1 I2 [[own [A B]] C]. split.
    - exists own. split; [exact A | intros x Ix; apply I2; apply B; exact Ix].
    - intros c Ic. apply I1. apply C. exact Ic.
  Qed.

  Lemma walk_post_trans : forall s1 s2 s3, walk_post s1 s2 -> walk_post s2 s3 -> walk_post s1 s3.
  Proof.
    intros s1 s2 s3 [A1 [B1 C1]] [A2 [B2 C2]]. split; [|split].
    - intros x Ix. apply A2. apply A1. exact Ix.
    - intros x Ix. apply B2. apply B1. exact Ix.
    - intros n U I3 N1. destruct (in_dec N.eq_dec (p_id n) (fst s2)) as [I2|N2].
      + apply (closed_mono n s2 s3 A2 B2). apply C1; assumption.
      + apply C2; assumption.
  Qed.

  Definition walk_ok (p : pkg) : Prop :=
    subnode root p -> forall st st', walk wp ds p st = Some st' ->
    walk_post st st' /\ In (p_id p) (fst st').

  Lemma walk_list_spec : forall l,
    Forall walk_ok l -> (forall d, In d l -> subnode root d) ->
    forall s s', walk_list l s = Some s' ->
    walk_post s s' /\ (forall d, In d l -> In (p_id d) (fst s')).
  Proof.
    induction l as [|d l IH]; intros F U s s' H; cbn in H.
    - inversion H; subst. split; [|intros d []].
      split; [apply incl_refl | split; [apply incl_refl|]]. intros n _ I NI. contradiction.
    - inversion F as [|? ? Fd Fl]; subst.
      destruct (walk wp ds d s) as [s1|] eqn:E; [|discriminate].
      destruct (Fd (U d (or_introl eq_refl)) s s1 E) as [P1 I1].
      destruct (IH Fl (fun x Ix => U x (or_intror Ix)) s1 s' H) as [P2 I2].
      split; [apply (walk_post_trans s s1 s'); assumption|].
      intros x [Ex|Ix]; [subst; destruct P2 as [A _]; apply A; exact I1 | apply I2; exact Ix].
  Qed.

  Lemma walk_spec : forall p, walk_ok p.
  Proof.
    apply pkg_ind'. intros id r n co bu pk deps F U st st' H.
    rewrite walk_unfold in H. cbn [p_id p_deps] in H.
    destruct (mem_N id (fst st)) eqn:M.
    - inversion H; subst. apply mem_N_In in M. split; [|exact M].
      split; [apply incl_refl | split; [apply incl_refl|]]. intros x _ I NI. contradiction.
    - apply mem_N_nIn in M.
      destruct (own_paths wp ds (Pkg id r n co bu pk deps)) as [own|] eqn:O; [|discriminate].
      assert (Ud : forall d, In d deps -> subnode root d).
      { intros d Id. apply (sn_child root (Pkg id r n co bu pk deps) d U). exact Id. }
      destruct (walk_list_spec deps F Ud _ _ H) as [[A [B C]] D]. cbn [fst snd] in A, B, C.
      split; [|apply A; left; reflexivity].
      split; [intros x Ix; apply A; right; exact Ix|].
      split; [intros x Ix; apply B; apply in_or_app; left; exact Ix|].
      intros x Ux Ix NIx. destruct (N.eq_dec (p_id x) id) as [E|NE].
      + assert (x = Pkg id r n co bu pk deps) by (apply cons; [exact Ux | exact U | exact E]). subst x.
        split.
        * exists own. split; [exact O|]. intros y Iy. apply B. apply in_or_app. right; exact Iy.
        * intros c Ic. apply D. exact Ic.
      + apply C; [exact Ux | exact Ix|]. intros [E|I]; [apply NE; symmetry; exact E | contradiction].
  Qed.

  Lemma collect_covers : forall used,
    collect_paths wp ds root = Some used ->
    forall n, subnode root n -> exists own, own_paths wp ds n = Some own /\ incl own used.
  Proof.
    intros used H. unfold collect_paths in H.
    destruct (walk wp ds root ([], [])) as [st'|] eqn:E; [|discriminate]. inversion H; subst used.
    destruct (walk_spec root (sn_root root) _ _ E) as [[_ [_ C]] I].
    assert (ALL : forall n, subnode root n -> In (p_id n) (fst st')).
    { intros n U. induction U as [|p c Up IHp Ic]; [exact I|].
      destruct (C p Up IHp (fun F => F)) as [_ K]. apply K. exact Ic. }
    intros n U. destruct (C n U (ALL n U) (fun F => F)) as [Q _]. exact Q.
  Qed.

  Lemma uptodate_in_own : forall k n path own,
    own_paths wp ds n = Some own -> wp k n = Some path -> uptodate ds k n path -> In path own.
  Proof.
    intros k n path own O W Up. unfold own_paths in O.
    match type of O with
    | match ?B with Some _ => _ | None => _ end = _ => destruct B as [bl|] eqn:EB; [|discriminate]
    end.
    injection O as <-.
    destruct k; cbn in Up.
    - destruct (p_vid KSrc n) as [v|] eqn:V; [|congruence]. rewrite W.
      apply in_or_app. left. left. reflexivity.
    - destruct Up as [v [V L]]. rewrite V, W in EB.
      apply in_or_app. right. apply in_or_app. left.
      destruct L as [L|[rest L]]; rewrite L in EB.
      + injection EB as <-. left. reflexivity.
      + rewrite str_eqb_refl in EB. injection EB as <-. left. reflexivity.
    - destruct Up as [v [V L]]. rewrite V, W.
      apply in_or_app. right. apply in_or_app. right.
      destruct L as [L|L]; rewrite L; [left; reflexivity | rewrite str_eqb_refl; left; reflexivity].
  Qed.
End Walk.

Section CleanProofs.
  Variable expendable : str -> bool.

  Lemma del_paths_In : forall f all used fs d,
    In d (del_paths expendable f all used fs) <->
    exists s, In (d, s) all /\ ~ In d used /\ In d fs /\ (s = false \/ may_clean expendable f d = true).
  Proof.
    intros f all used fs d. unfold del_paths. rewrite sort_strs_In, in_flat_map. split.
    - intros [[d' s] [I C]]. cbn [fst snd] in C.
      destruct (negb (mem_str d' used) && mem_str d' fs && (negb s || may_clean expendable f d')) eqn:E; [|contradiction].
      destruct C as [C|[]]. subst d'. apply andb_true_iff in E as [E E3]. apply andb_true_iff in E as [E1 E2].
      exists s. split; [exact I|]. split; [apply mem_str_nIn; apply negb_true_iff; exact E1|].
      split; [apply mem_str_In; exact E2|]. apply orb_true_iff in E3 as [E3|E3]; [left; apply negb_true_iff; exact E3 | right; exact E3].
    - intros [s [I [N [F M]]]]. exists (d, s). split; [exact I|]. cbn [fst snd].
      apply mem_str_nIn in N. apply mem_str_In in F. rewrite N, F. cbn.
      destruct M as [M|M]; [subst; cbn; left; reflexivity | rewrite M, orb_true_r; left; reflexivity].
  Qed.

  Lemma clean_apply_del : forall f del fs ds, c_del (clean_apply f del fs ds) = del.
  Proof. intros f del fs ds. unfold clean_apply. destruct (cf_dry f); reflexivity. Qed.

  Lemma clean_core_inv : forall mode f wp root bn ds fs r,
    clean_core expendable mode f wp root bn ds fs = Some r ->
    exists used, collect_paths wp ds root = Some used /\
      r = clean_apply f (del_paths expendable f (all_paths mode bn ds) used fs) fs ds.
  Proof.
    intros mode f wp root bn ds fs r H. unfold clean_core in H.
    destruct (collect_paths wp ds root) as [used|]; [|discriminate]. exists used. inversion H. split; reflexivity.
  Qed.

  Lemma clean_deletes_only_unused_proof : forall mode f wp root bn ds fs r d,
    clean_core expendable mode f wp root bn ds fs = Some r -> In d (c_del r) ->
    exists used, collect_paths wp ds root = Some used /\ ~ In d used /\ In d fs /\
                 exists s, In (d, s) (all_paths mode bn ds).
  Proof.
    intros mode f wp root bn ds fs r d H I. apply clean_core_inv in H as [used [C R]]. subst r.
    rewrite clean_apply_del in I. apply del_paths_In in I as [s [A [B [D _]]]].
    exists used. repeat split; try assumption. exists s. exact A.
  Qed.

  Lemma dry_run_noop_proof : forall mode f wp root bn ds fs r,
    cf_dry f = true -> clean_core expendable mode f wp root bn ds fs = Some r -> c_fs r = fs /\ c_ds r = ds.
  Proof.
    intros mode f wp root bn ds fs r Dry H. apply clean_core_inv in H as [used [C R]]. subst r.
    unfold clean_apply. rewrite Dry. split; reflexivity.
  Qed.

  Lemma clean_fs_exact_proof : forall mode f wp root bn ds fs r d,
    cf_dry f = false -> clean_core expendable mode f wp root bn ds fs = Some r ->
    (In d (c_fs r) <-> In d fs /\ ~ In d (c_del r)).
  Proof.
    intros mode f wp root bn ds fs r d Dry H. apply clean_core_inv in H as [used [C R]]. subst r.
    unfold clean_apply. rewrite Dry. cbn [c_fs c_del]. rewrite filter_In.
    split; intros [A B]; (split; [exact A|]).
    - apply mem_str_nIn. apply negb_true_iff. exact B.
    - apply negb_true_iff. apply mem_str_nIn. exact B.
  Qed.

  Lemma sources_only_on_request_proof : forall mode f wp root bn ds fs r d,
    clean_core expendable mode f wp root bn ds fs = Some r -> In d (c_del r) ->
    (forall s, In (d, s) (all_paths mode bn ds) -> s = true) ->
    cf_src f = true /\ (cf_force f = true \/ expendable d = true).
  Proof.
    intros mode f wp root bn ds fs r d H I S. apply clean_core_inv in H as [used [C R]]. subst r.
    rewrite clean_apply_del in I. apply del_paths_In in I as [s [A [_ [_ M]]]].
    rewrite (S s A) in M. destruct M as [M|M]; [discriminate|].
    unfold may_clean in M. destruct (cf_src f); [|discriminate]. split; [reflexivity|].
    destruct (cf_force f); [left; reflexivity | right; exact M].
  Qed.

  Lemma clean_keeps_uptodate_proof : forall mode f wp root bn ds fs r n k path,
    consistent root -> clean_core expendable mode f wp root bn ds fs = Some r ->
    subnode root n -> wp k n = Some path -> uptodate ds k n path ->
    ~ In path (c_del r) /\ (In path fs -> In path (c_fs r)).
  Proof.
    intros mode f wp root bn ds fs r n k path Cons H U W Up.
    pose proof H as H0. apply clean_core_inv in H as [used [C R]].
    destruct (collect_covers wp ds root Cons used C n U) as [own [O Inc]].
    assert (Iu : In path used) by (apply Inc; apply (uptodate_in_own wp ds k n path own O W Up)).
    assert (ND : ~ In path (c_del r)).
    { subst r. rewrite clean_apply_del. intro I. apply del_paths_In in I as [s [_ [B _]]]. contradiction. }
    split; [exact ND|]. intro F. destruct (cf_dry f) eqn:Dry.
    - destruct (dry_run_noop_proof _ _ _ _ _ _ _ _ Dry H0) as [E _]. rewrite E. exact F.
    - apply (clean_fs_exact_proof _ _ _ _ _ _ _ _ path Dry H0). split; assumption.
  Qed.
End CleanProofs.

(* ------------------------------------------------------------ prune decision *)
Lemma strs_eqb_eq : forall a b, strs_eqb a b = true -> a = b.
Proof.
  induction a as [|x a IH]; destruct b as [|y b]; cbn; intro H; try discriminate; [reflexivity|].
  apply andb_true_iff in H as [H1 H2]. apply str_eqb_eq in H1. apply IH in H2. congruence.
Qed.


Section PruneProofs.
  Variable content : Type.
  Variable empty : content.

  Lemma build_pruned_proof : forall (t : there content) old digest,
    dstate_opt_eqb (Some (DBuild digest)) old = false ->
    build_prepare content empty t old digest = (empty, true, Some (DBuild digest)).
  Proof.
    intros t old digest E. unfold build_prepare, construct_dir. destruct t; rewrite ?E; reflexivity.
  Qed.

  Lemma build_other_variant_proof : forall (t : there content) old vid rest,
    stored_vid old <> Some vid ->
    fst (fst (build_prepare content empty t old (vid :: rest))) = empty.
  Proof.
    intros t old vid rest H. rewrite build_pruned_proof; [reflexivity|].
    destruct old as [[|l|v]|]; cbn; try reflexivity.
    destruct l as [|v0 l]; cbn; [reflexivity|].
    destruct (str_eqb vid v0) eqn:E; [|reflexivity]. apply str_eqb_eq in E. subst. cbn in H. congruence.
  Qed.

  Lemma build_incremental_proof : forall c old digest,
    old = Some (DBuild digest) ->
    build_prepare content empty (IsDir c) old digest = (c, false, old).
  Proof.
    intros c old digest E. subst old. unfold build_prepare, construct_dir. cbn.
    assert (R : strs_eqb digest digest = true).
    { induction digest as [|x l IH]; cbn; [reflexivity | rewrite str_eqb_refl, IH; reflexivity]. }
    rewrite R. reflexivity.
  Qed.

  Lemma package_pruned_proof : forall (t : there content) old vid,
    dstate_opt_eqb (Some (DPkg vid)) old = false ->
    package_prepare content empty t old vid = (empty, Some (DPkg vid)).
  Proof.
    intros t old vid E. unfold package_prepare, construct_dir. destruct t; rewrite ?E; reflexivity.
  Qed.

  Lemma package_other_variant_proof : forall (t : there content) old vid,
    stored_vid old <> Some vid -> fst (package_prepare content empty t old vid) = empty.
  Proof.
    intros t old vid H. rewrite package_pruned_proof; [reflexivity|].
    destruct old as [[|l|v]|]; cbn; try reflexivity.
    destruct (str_eqb vid v) eqn:E; [|reflexivity]. apply str_eqb_eq in E. subst. cbn in H. congruence.
  Qed.

  Variable run_script : content -> content.

  Lemma reused_dir_is_pruned_proof : forall (t : there content) old vid rest,
    stored_vid old <> Some vid ->
    build_result content empty run_script t old (vid :: rest) = run_script empty /\
    package_result content empty run_script t old vid = run_script empty.
  Proof.
    intros t old vid rest H. unfold build_result, package_result.
    rewrite build_other_variant_proof, package_other_variant_proof; [split; reflexivity | exact H | exact H].
  Qed.
End PruneProofs.

Lemma release_dirs_proof : forall BL GL ops m' rs,
  sep BL -> (forall x, In x BL -> In x GL -> False) -> bn_wf BL GL ops ->
  bn_run [] ops = (m', rs) ->
  length rs = length ops /\
  (forall b g s r, In ((b, g, s), r) (combine ops rs) -> exists d, r = RDir d /\ bn_assigned m' g = Some d) /\
  (forall g1 g2 d, bn_assigned m' g1 = Some d -> bn_assigned m' g2 = Some d -> g1 = g2).
Proof.
  intros BL GL ops m' rs S D W H.
  destruct (bn_run_spec BL GL S D ops [] m' rs (bn_inv_nil BL GL) W H) as [I [_ [L R]]].
  split; [exact L|]. split; [exact R|]. destruct I as [_ _ J]. exact J.
Qed.

Lemma release_dirs_extend_proof : forall BL GL ops1 ops2 m1 rs1 m2 rs2 g d,
  sep BL -> (forall x, In x BL -> In x GL -> False) -> bn_wf BL GL ops1 -> bn_wf BL GL ops2 ->
  bn_run [] ops1 = (m1, rs1) -> bn_run m1 ops2 = (m2, rs2) ->
  bn_assigned m1 g = Some d -> bn_assigned m2 g = Some d.
Proof.
  intros BL GL ops1 ops2 m1 rs1 m2 rs2 g d S D W1 W2 H1 H2 A.
  destruct (bn_run_spec BL GL S D ops1 [] m1 rs1 (bn_inv_nil BL GL) W1 H1) as [I1 _].
  destruct (bn_run_spec BL GL S D ops2 m1 m2 rs2 I1 W2 H2) as [_ [M _]]. apply M. exact A.
Qed.
