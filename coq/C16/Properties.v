(* C16 — property theorems.  This file contains only statements, each closed
   by [exact] of a lemma from Proofs.v, and non-vacuity examples.

   Vocabulary (all in Model.v): [run_history] iterates DevelopDirOracle.prime
   over a history of project states (cache key, formatter calls in visit
   order); [sep] = no two base directories differ only by a trailing slash;
   [bn_run] = a sequence of BobState.getByNameDirectory calls; [clean_core] =
   doClean in develop / release mode; [build_prepare] / [package_prepare] = the
   prune decision of the builder. *)
From Coq Require Import List NArith Bool.
Require Import BobV.C16.Model BobV.C16.Proofs.
Import ListNotations.
Open Scope N_scope.

(* ------------------------------------------------------------------ develop mode *)

(* After every refresh of every history the dirs table is injective: one
   directory is never assigned to two different keys (recipe name + Variant-Id). *)
Theorem dev_dirs_injective : forall h s',
  hist_sep h -> run_history ostate0 h = Some s' ->
  forall k1 k2 d, lookup (snd s') k1 = Some d -> lookup (snd s') k2 = Some d -> k1 = k2.
Proof. exact dev_dirs_injective_proof. Qed.

(* ... hence two steps that share a develop-mode directory have the same
   recipe name (utf-8) and the same Variant-Id. *)
Theorem dev_same_dir_same_variant : forall h s' p1 p2 k1 k2 v1 v2 d,
  hist_sep h -> run_history ostate0 h = Some s' ->
  p_vid k1 p1 = Some v1 -> p_vid k2 p2 = Some v2 -> length v1 = length v2 ->
  dev_dir (snd s') k1 p1 = Some d -> dev_dir (snd s') k2 p2 = Some d ->
  utf8 (p_recipe p1) = utf8 (p_recipe p2) /\ v1 = v2.
Proof. exact dev_same_dir_same_variant_proof. Qed.

(* A key that still exists (is first presented under the same base directory
   in every later project state) keeps its directory, whatever else appears,
   disappears or is renumbered around it. *)
Theorem dev_dirs_stable : forall h s s' k b p,
  lookup (snd s) k = Some p -> starts_with b p = true ->
  (forall ck vs, In (ck, vs) h -> first_base vs k = Some b) ->
  run_history s h = Some s' -> lookup (snd s') k = Some p.
Proof. exact dev_dirs_stable_proof. Qed.

(* ... in particular from the refresh that first assigned it. *)
Theorem dev_dirs_stable_from_refresh : forall d vs d' rest vsn s' k b,
  refresh d vs = Some d' -> first_base vs k = Some b ->
  (forall ck vs', In (ck, vs') rest -> first_base vs' k = Some b) ->
  run_history (vsn, d') rest = Some s' ->
  exists p, lookup d' k = Some p /\ lookup (snd s') k = Some p.
Proof. exact dev_dirs_stable_from_refresh_proof. Qed.

(* The numbering loop of __writeBack terminates: no history runs out of fuel. *)
Theorem dev_oracle_total : forall h s, run_history s h <> None.
Proof. exact run_history_total_proof. Qed.

(* After a refresh exactly the presented keys have a directory (the assertion
   "missing" of the ready formatter cannot fail, stale keys are dropped). *)
Theorem dev_lookup_total : forall s ck vs s',
  vsn_matches (fst s) ck = false -> prime_visits s ck vs = Some s' ->
  forall k, first_base vs k <> None <-> lookup (snd s') k <> None.
Proof. exact dev_lookup_total_proof. Qed.

(* ------------------------------------------------------------------ release mode *)

(* For every sequence of getByNameDirectory calls (base directories BL and
   digests GL in disjoint name spaces): no call fails, every answer is the
   final table's entry for that digest (a digest keeps its directory), and the
   final table is injective (different digests never share a directory). *)
Theorem release_dirs_injective_and_stable : forall BL GL ops m' rs,
  sep BL -> (forall x, In x BL -> In x GL -> False) -> bn_wf BL GL ops ->
  bn_run [] ops = (m', rs) ->
  length rs = length ops /\
  (forall b g s r, In ((b, g, s), r) (combine ops rs) -> exists d, r = RDir d /\ bn_assigned m' g = Some d) /\
  (forall g1 g2 d, bn_assigned m' g1 = Some d -> bn_assigned m' g2 = Some d -> g1 = g2).
Proof. exact release_dirs_proof. Qed.

Theorem release_dirs_survive_later_calls : forall BL GL ops1 ops2 m1 rs1 m2 rs2 g d,
  sep BL -> (forall x, In x BL -> In x GL -> False) -> bn_wf BL GL ops1 -> bn_wf BL GL ops2 ->
  bn_run [] ops1 = (m1, rs1) -> bn_run m1 ops2 = (m2, rs2) ->
  bn_assigned m1 g = Some d -> bn_assigned m2 g = Some d.
Proof. exact release_dirs_extend_proof. Qed.

(* ------------------------------------------------------------------ reuse of a directory *)

(* A build or package directory whose stored state does not carry the
   Variant-Id of the step that is about to use it is empty when the script
   starts (whatever was there: nothing, a directory with content, a link). *)
Theorem reused_dir_is_pruned : forall (content : Type) (empty : content) (run_script : content -> content)
    (t : there content) old vid rest,
  stored_vid old <> Some vid ->
  build_result content empty run_script t old (vid :: rest) = run_script empty /\
  package_result content empty run_script t old vid = run_script empty.
Proof. exact reused_dir_is_pruned_proof. Qed.

(* Any difference in the stored build digest (variant id or execution paths) prunes. *)
Theorem build_digest_change_prunes : forall (content : Type) (empty : content) (t : there content) old digest,
  dstate_opt_eqb (Some (DBuild digest)) old = false ->
  build_prepare content empty t old digest = (empty, true, Some (DBuild digest)).
Proof. exact build_pruned_proof. Qed.

(* ... and only a difference does: the incremental build keeps its tree. *)
Theorem build_same_digest_keeps : forall (content : Type) (empty : content) c old digest,
  old = Some (DBuild digest) ->
  build_prepare content empty (IsDir c) old digest = (c, false, old).
Proof. exact build_incremental_proof. Qed.

(* ------------------------------------------------------------------ bob clean *)

(* Everything deleted is a known workspace that exists and is not among the
   paths collected from the packages of the current recipes. *)
Theorem clean_deletes_only_unused : forall expendable mode f wp root bn ds fs r d,
  clean_core expendable mode f wp root bn ds fs = Some r -> In d (c_del r) ->
  exists used, collect_paths wp ds root = Some used /\ ~ In d used /\ In d fs /\
               exists s, In (d, s) (all_paths mode bn ds).
Proof. exact clean_deletes_only_unused_proof. Qed.

(* No up-to-date result is lost: the workspace of every step of every package
   reachable from the root whose stored state matches the step (or is absent),
   and every checkout workspace of a valid step, survives. *)
Theorem clean_keeps_uptodate : forall expendable mode f wp root bn ds fs r n k path,
  consistent root -> clean_core expendable mode f wp root bn ds fs = Some r ->
  subnode root n -> wp k n = Some path -> uptodate ds k n path ->
  ~ In path (c_del r) /\ (In path fs -> In path (c_fs r)).
Proof. exact clean_keeps_uptodate_proof. Qed.

(* --dry-run deletes nothing and leaves the recorded states alone. *)
Theorem dry_run_noop : forall expendable mode f wp root bn ds fs r,
  cf_dry f = true -> clean_core expendable mode f wp root bn ds fs = Some r -> c_fs r = fs /\ c_ds r = ds.
Proof. exact dry_run_noop_proof. Qed.

(* Source workspaces go only with -s, and then only if --force is given or the
   SCM status says they are expendable. *)
Theorem sources_only_on_request_and_expendable : forall expendable mode f wp root bn ds fs r d,
  clean_core expendable mode f wp root bn ds fs = Some r -> In d (c_del r) ->
  (forall s, In (d, s) (all_paths mode bn ds) -> s = true) ->
  cf_src f = true /\ (cf_force f = true \/ expendable d = true).
Proof. exact sources_only_on_request_proof. Qed.

(* Without --dry-run exactly the listed paths disappear. *)
Theorem clean_removes_exactly_the_delete_set : forall expendable mode f wp root bn ds fs r d,
  cf_dry f = false -> clean_core expendable mode f wp root bn ds fs = Some r ->
  (In d (c_fs r) <-> In d fs /\ ~ In d (c_del r)).
Proof. exact clean_fs_exact_proof. Qed.

(* ------------------------------------------------------------------ non-vacuity: concrete instances *)
Definition bx : str := [100; 101; 118; 47; 98; 117; 105; 108; 100; 47; 120].           (* "dev/build/x" *)
Definition kA : str := [120; 1; 1].    (* recipe "x" + (short) variant ids *)
Definition kB : str := [120; 2; 2].
Definition kC : str := [120; 3; 3].
Definition hist4 : list (str * list visit) :=
  [ ([1], [(kA, bx); (kB, bx)]);             (* A, B appear        -> x/1, x/2 *)
    ([2], [(kB, bx)]);                       (* A disappears                    *)
    ([3], [(kB, bx); (kC, bx)]);             (* C appears          -> x/1       *)
    ([4], [(kA, bx); (kB, bx); (kC, bx)]) ]. (* A re-appears: 1 and 2 are taken -> x/3 *)

Example dev_history_nonvacuous :
  hist_sep hist4 /\
  exists s, run_history ostate0 hist4 = Some s /\
    lookup (snd s) kA = Some [100; 101; 118; 47; 98; 117; 105; 108; 100; 47; 120; 47; 51] /\ lookup (snd s) kB = Some [100; 101; 118; 47; 98; 117; 105; 108; 100; 47; 120; 47; 50] /\ lookup (snd s) kC = Some [100; 101; 118; 47; 98; 117; 105; 108; 100; 47; 120; 47; 49].
Proof.
  split.
  - unfold hist_sep, hist4. repeat constructor; cbn;
      intros b1 b2 H1 H2 _; repeat (destruct H1 as [H1|H1]; [subst b1|]); try contradiction;
      repeat (destruct H2 as [H2|H2]; [subst b2|]); try contradiction; reflexivity.
  - eexists. split; [vm_compute; reflexivity|]. vm_compute. repeat split; reflexivity.
Qed.

(* P3: the keep rule is a string prefix test: a directory under ".../foo-bar" is
   kept for base ".../foo" (harmless for injectivity, recorded here). *)
Example startswith_prefix_confusion :
  refresh [(kA, [100; 101; 118; 47; 100; 105; 115; 116; 47; 102; 111; 111; 45; 98; 97; 114; 47; 49])] [(kA, [100; 101; 118; 47; 100; 105; 115; 116; 47; 102; 111; 111])] = Some [(kA, [100; 101; 118; 47; 100; 105; 115; 116; 47; 102; 111; 111; 45; 98; 97; 114; 47; 49])].
Proof. vm_compute. reflexivity. Qed.

Example release_nonvacuous :
  bn_run [] [([119; 111; 114; 107; 47; 97; 47; 100; 105; 115; 116], [49], false); ([119; 111; 114; 107; 47; 97; 47; 100; 105; 115; 116], [50], false); ([119; 111; 114; 107; 47; 97; 47; 100; 105; 115; 116], [49], false); ([119; 111; 114; 107; 47; 98; 47; 115; 114; 99], [51], true)] =
  ([([119; 111; 114; 107; 47; 97; 47; 100; 105; 115; 116], BCnt 2); ([49], BDir [119; 111; 114; 107; 47; 97; 47; 100; 105; 115; 116; 47; 49] false); ([50], BDir [119; 111; 114; 107; 47; 97; 47; 100; 105; 115; 116; 47; 50] false); ([119; 111; 114; 107; 47; 98; 47; 115; 114; 99], BCnt 1); ([51], BDir [119; 111; 114; 107; 47; 98; 47; 115; 114; 99; 47; 49] true)],
   [RDir [119; 111; 114; 107; 47; 97; 47; 100; 105; 115; 116; 47; 49]; RDir [119; 111; 114; 107; 47; 97; 47; 100; 105; 115; 116; 47; 50]; RDir [119; 111; 114; 107; 47; 97; 47; 100; 105; 115; 116; 47; 49]; RDir [119; 111; 114; 107; 47; 98; 47; 115; 114; 99; 47; 49]]).
Proof. vm_compute. reflexivity. Qed.

Example reused_dir_nonvacuous :   (* directory of variant [1] with files, handed to variant [2] *)
  build_prepare (list str) [] (IsDir [[97]; [98]]) (Some (DBuild [[1]; [119; 111; 114; 107; 47; 97; 47; 100; 105; 115; 116]])) [[2]; [119; 111; 114; 107; 47; 97; 47; 100; 105; 115; 116]] = ([], true, Some (DBuild [[2]; [119; 111; 114; 107; 47; 97; 47; 100; 105; 115; 116]])) /\
  build_prepare (list str) [] (IsDir [[97]; [98]]) (Some (DBuild [[1]; [119; 111; 114; 107; 47; 97; 47; 100; 105; 115; 116]])) [[1]; [119; 111; 114; 107; 47; 97; 47; 100; 105; 115; 116]] = ([[97]; [98]], false, Some (DBuild [[1]; [119; 111; 114; 107; 47; 97; 47; 100; 105; 115; 116]])) /\
  package_prepare (list str) [] (IsDir [[97]]) (Some (DPkg [1])) [2] = ([], Some (DPkg [2])).
Proof. vm_compute. repeat split; reflexivity. Qed.

(* bob clean --develop -s on: an up-to-date package dir, a stale build dir, an
   unexpendable source dir that is no longer used, an unused expendable one *)
Definition pk0 : pkg := Pkg 0 [120] [120] None (Some [7]) (Some [8]) [].
Definition wp0 (k : kind) (p : pkg) : option str :=
  match k with KSrc => None | KBuild => Some [100; 101; 118; 47; 98; 117; 105; 108; 100; 47; 120; 47; 49; 47; 119; 111; 114; 107; 115; 112; 97; 99; 101] | KDist => Some [100; 101; 118; 47; 100; 105; 115; 116; 47; 120; 47; 49; 47; 119; 111; 114; 107; 115; 112; 97; 99; 101] end.
Definition ds0 : dirstates :=
  [([100; 101; 118; 47; 100; 105; 115; 116; 47; 120; 47; 49; 47; 119; 111; 114; 107; 115; 112; 97; 99; 101], DPkg [8]); ([100; 101; 118; 47; 98; 117; 105; 108; 100; 47; 120; 47; 49; 47; 119; 111; 114; 107; 115; 112; 97; 99; 101], DBuild [[9]; [1]]); ([100; 101; 118; 47; 115; 114; 99; 47; 120; 47; 49; 47; 119; 111; 114; 107; 115; 112; 97; 99; 101], DSrc); ([100; 101; 118; 47; 115; 114; 99; 47; 121; 47; 49; 47; 119; 111; 114; 107; 115; 112; 97; 99; 101], DSrc)].
Example clean_nonvacuous :
  clean_core (fun d => str_eqb d [100; 101; 118; 47; 115; 114; 99; 47; 121; 47; 49; 47; 119; 111; 114; 107; 115; 112; 97; 99; 101]) Develop {| cf_src := true; cf_force := false; cf_dry := false |}
             wp0 pk0 [] ds0 [[100; 101; 118; 47; 100; 105; 115; 116; 47; 120; 47; 49; 47; 119; 111; 114; 107; 115; 112; 97; 99; 101]; [100; 101; 118; 47; 98; 117; 105; 108; 100; 47; 120; 47; 49; 47; 119; 111; 114; 107; 115; 112; 97; 99; 101]; [100; 101; 118; 47; 115; 114; 99; 47; 120; 47; 49; 47; 119; 111; 114; 107; 115; 112; 97; 99; 101]; [100; 101; 118; 47; 115; 114; 99; 47; 121; 47; 49; 47; 119; 111; 114; 107; 115; 112; 97; 99; 101]] =
  Some {| c_del := [[100; 101; 118; 47; 98; 117; 105; 108; 100; 47; 120; 47; 49; 47; 119; 111; 114; 107; 115; 112; 97; 99; 101]; [100; 101; 118; 47; 115; 114; 99; 47; 121; 47; 49; 47; 119; 111; 114; 107; 115; 112; 97; 99; 101]]; c_fs := [[100; 101; 118; 47; 100; 105; 115; 116; 47; 120; 47; 49; 47; 119; 111; 114; 107; 115; 112; 97; 99; 101]; [100; 101; 118; 47; 115; 114; 99; 47; 120; 47; 49; 47; 119; 111; 114; 107; 115; 112; 97; 99; 101]]; c_ds := [([100; 101; 118; 47; 100; 105; 115; 116; 47; 120; 47; 49; 47; 119; 111; 114; 107; 115; 112; 97; 99; 101], DPkg [8]); ([100; 101; 118; 47; 115; 114; 99; 47; 120; 47; 49; 47; 119; 111; 114; 107; 115; 112; 97; 99; 101], DSrc)] |}.
Proof. vm_compute. reflexivity. Qed.
