(* C16 — model of workspace directory assignment and `bob clean`.
   Definitions only.

   Part 0  paths: posixpath.join, str(int), str.startswith, name formatters
   Part 1  develop mode: pym/bob/cmds/build/state.py  DevelopDirOracle
           (__touch visit order, __fmt first-key-wins + keep rule,
            __writeBack numbering, the vsn / cacheKey test of __openAndRefresh)
   Part 2  release mode: pym/bob/state.py getByNameDirectory,
           getExistingByNameDirectory, getAllNameDirectores
   Part 3  pym/bob/cmds/build/clean.py: collectPaths, the develop / release
           branches of doClean (allPaths, mayClean, delPaths, deletion, state
           cleanup)
   Part 4  pym/bob/builder.py 1381-1392 (_cookBuildStep: stored directory
           state vs. build digest, prune) and 1423-1448 (_preparePackageStep)

   Strings (str and bytes alike) are lists of code points / byte values. *)
From Coq Require Import List NArith Bool Decimal.
Import ListNotations.
Open Scope N_scope.

Definition str := list N.

Fixpoint str_eqb (a b : str) : bool :=
  match a, b with
  | [], [] => true
  | x :: a', y :: b' => (x =? y) && str_eqb a' b'
  | _, _ => false
  end.

Fixpoint mem_str (s : str) (l : list str) : bool :=
  match l with [] => false | x :: r => str_eqb s x || mem_str s r end.

Fixpoint mem_N (n : N) (l : list N) : bool :=
  match l with [] => false | x :: r => (n =? x) || mem_N n r end.

(* ---- Python dict with string keys: association list in insertion order *)
Section Assoc.
  Context {V : Type}.
  Fixpoint lookup (l : list (str * V)) (k : str) : option V :=
    match l with
    | [] => None
    | (k', v) :: r => if str_eqb k k' then Some v else lookup r k
    end.
  (* d[k] = v : an existing key keeps its position *)
  Fixpoint set_kv (l : list (str * V)) (k : str) (v : V) : list (str * V) :=
    match l with
    | [] => [(k, v)]
    | (k', v') :: r => if str_eqb k k' then (k', v) :: r else (k', v') :: set_kv r k v
    end.
  Fixpoint del_k (l : list (str * V)) (k : str) : list (str * V) :=
    match l with
    | [] => []
    | (k', v') :: r => if str_eqb k k' then r else (k', v') :: del_k r k
    end.
End Assoc.

(* ================================================================ Part 0 *)
Definition ch_slash : N := 47.
Definition ch_colon : N := 58.

Definition s_dev : str := [100; 101; 118].
Definition s_work : str := [119; 111; 114; 107].
Definition s_src : str := [115; 114; 99].
Definition s_build : str := [98; 117; 105; 108; 100].
Definition s_dist : str := [100; 105; 115; 116].
Definition s_workspace : str := [119; 111; 114; 107; 115; 112; 97; 99; 101].

Definition starts_slash (b : str) : bool :=
  match b with c :: _ => c =? ch_slash | [] => false end.

Fixpoint ends_slash (b : str) : bool :=
  match b with
  | [] => false
  | [c] => c =? ch_slash
  | _ :: r => ends_slash r
  end.

Definition is_nil (a : str) : bool := match a with [] => true | _ => false end.

(* posixpath.join(a, b) *)
Definition path_join (a b : str) : str :=
  if starts_slash b then b
  else if is_nil a || ends_slash a then a ++ b
  else a ++ ch_slash :: b.

(* str(n) for a non-negative int *)
Fixpoint uint_digits (u : uint) : str :=
  match u with
  | Nil => []
  | D0 r => 48 :: uint_digits r
  | D1 r => 49 :: uint_digits r
  | D2 r => 50 :: uint_digits r
  | D3 r => 51 :: uint_digits r
  | D4 r => 52 :: uint_digits r
  | D5 r => 53 :: uint_digits r
  | D6 r => 54 :: uint_digits r
  | D7 r => 55 :: uint_digits r
  | D8 r => 56 :: uint_digits r
  | D9 r => 57 :: uint_digits r
  end.
Definition dec (n : N) : str := uint_digits (N.to_uint n).

(* s.startswith(pre) *)
Fixpoint starts_with (pre s : str) : bool :=
  match pre, s with
  | [], _ => true
  | p :: pr, c :: sr => (p =? c) && starts_with pr sr
  | _ :: _, [] => false
  end.

(* s.replace('::', '/') : non-overlapping, left to right *)
Fixpoint repl_cc (s : str) : str :=
  match s with
  | [] => []
  | c1 :: t =>
      match t with
      | c2 :: r => if (c1 =? ch_colon) && (c2 =? ch_colon) then ch_slash :: repl_cc r
                   else c1 :: repl_cc t
      | [] => [c1]
      end
  end.

(* asHexStr: binascii.hexlify(b).decode("ascii") *)
Definition hex_digit (n : N) : N := if n <? 10 then 48 + n else 87 + n.
Definition hex_str (s : str) : str := flat_map (fun b => [hex_digit (b / 16); hex_digit (b mod 16)]) s.

Inductive kind := KSrc | KBuild | KDist.
Definition label (k : kind) : str :=
  match k with KSrc => s_src | KBuild => s_build | KDist => s_dist end.

(* A package as the directory code sees it: _getId(), getRecipe().getName(),
   getRecipe().getPackageName(), the variant ids of the three steps (None =
   step is not valid) and getDirectDepSteps() in recipe order.  Python hands
   out fresh Package objects on every getDirectDepSteps() call, identified by
   _getId(); hence a tree in which the same id may occur many times. *)
Inductive pkg : Type :=
  Pkg (pid : N) (recipe pname : str) (co bu pk : option str) (deps : list pkg).

Definition p_id (p : pkg) : N := match p with Pkg i _ _ _ _ _ _ => i end.
Definition p_recipe (p : pkg) : str := match p with Pkg _ r _ _ _ _ _ => r end.
Definition p_pname (p : pkg) : str := match p with Pkg _ _ n _ _ _ _ => n end.
Definition p_deps (p : pkg) : list pkg := match p with Pkg _ _ _ _ _ _ d => d end.
Definition p_vid (k : kind) (p : pkg) : option str :=
  match p with Pkg _ _ _ co bu pk _ =>
    match k with KSrc => co | KBuild => bu | KDist => pk end end.

(* recipe name for checkout steps, package name otherwise *)
Definition base_name (k : kind) (p : pkg) : str :=
  match k with KSrc => p_recipe p | _ => p_pname p end.

(* LocalBuilder.developNameFormatter: os.path.join("dev", label, base.replace('::', os.sep)) *)
Definition dev_base (k : kind) (p : pkg) : str :=
  path_join (path_join s_dev (label k)) (repl_cc (base_name k p)).

(* LocalBuilder.releaseNameFormatter: os.path.join("work", base.replace('::', os.sep), label) *)
Definition rel_base (k : kind) (p : pkg) : str :=
  path_join (path_join s_work (repl_cc (base_name k p))) (label k).

(* LocalBuilder.makeRunnable *)
Definition runnable (d : option str) : option str :=
  match d with Some x => Some (path_join x s_workspace) | None => None end.

(* ================================================================ Part 1 *)
(* str.encode("utf8") (no surrogates) *)
Definition utf8_cp (c : N) : list N :=
  if c <? 128 then [c]
  else if c <? 2048 then [192 + c / 64; 128 + c mod 64]
  else if c <? 65536 then [224 + c / 4096; 128 + (c / 64) mod 64; 128 + c mod 64]
  else [240 + c / 262144; 128 + (c / 4096) mod 64; 128 + (c / 64) mod 64; 128 + c mod 64].
Definition utf8 (s : str) : str := flat_map utf8_cp s.

(* key = recipe name (utf-8) + variant id *)
Definition dev_key (p : pkg) (vid : str) : str := utf8 (p_recipe p) ++ vid.

Definition visit := (str * str)%type.     (* (key, baseDir) of one formatter call *)

Definition step_visit (k : kind) (p : pkg) : list visit :=
  match p_vid k p with
  | Some v => [(dev_key p v, dev_base k p)]
  | None => []                     (* Step.getWorkspacePath of an invalid step does not call the formatter *)
  end.

(* __touch: dependencies first (recipe order), then package, build, checkout step *)
Fixpoint touch (p : pkg) (st : list N * list visit) {struct p} : list N * list visit :=
  match p with
  | Pkg id _ _ _ _ _ deps =>
      if mem_N id (fst st) then st
      else
        let st2 := (fix go (ds : list pkg) (s : list N * list visit) : list N * list visit :=
                      match ds with
                      | [] => s
                      | d :: r => go r (touch d s)
                      end) deps (id :: fst st, snd st) in
        (fst st2, snd st2 ++ step_visit KDist p ++ step_visit KBuild p ++ step_visit KSrc p)
  end.

Definition dev_visits (root : pkg) : list visit := snd (touch root ([], [])).

Definition db := list (str * str).       (* table dirs(key PRIMARY KEY, dir) *)

Fixpoint group_add (b k : str) (g : list (str * list str)) : list (str * list str) :=
  match g with
  | [] => [(b, [k])]
  | (b', ks) :: r => if str_eqb b b' then (b', ks ++ [k]) :: r else (b', ks) :: group_add b k r
  end.

Record fstate := {
  f_visited : list str;                 (* self.__visited *)
  f_known : list (str * str);           (* self.__known : key -> kept path *)
  f_groups : list (str * list str)      (* self.__dirs : baseDir -> keys waiting for a number *)
}.

Definition fstate0 : fstate := {| f_visited := []; f_known := []; f_groups := [] |}.

(* __fmt while not ready *)
Definition fmt_step (d : db) (st : fstate) (v : visit) : fstate :=
  let (key, base) := v in
  if mem_str key (f_visited st) then st
  else
    let vis := key :: f_visited st in
    match lookup d key with
    | Some path =>
        if starts_with base path
        then {| f_visited := vis; f_known := f_known st ++ [(key, path)]; f_groups := f_groups st |}
        else {| f_visited := vis; f_known := f_known st; f_groups := group_add base key (f_groups st) |}
    | None => {| f_visited := vis; f_known := f_known st; f_groups := group_add base key (f_groups st) |}
    end.

Definition fmt_pass (d : db) (vs : list visit) : fstate := fold_left (fmt_step d) vs fstate0.

(* the `while True` of __writeBack: first number >= num whose path is not a kept one.
   None = out of fuel (excluded by Proofs.alloc_fuel_enough). *)
Fixpoint alloc (fuel : nat) (base : str) (num : N) (known_dirs : list str) : option (str * N) :=
  match fuel with
  | O => None
  | S f =>
      let path := path_join base (dec num) in
      if mem_str path known_dirs then alloc f base (N.succ num) known_dirs
      else Some (path, N.succ num)
  end.

Fixpoint assign (fuel : nat) (base : str) (num : N) (keys : list str) (known_dirs : list str)
  : option (list (str * str)) :=
  match keys with
  | [] => Some []
  | k :: ks =>
      match alloc fuel base num known_dirs with
      | None => None
      | Some (path, num') =>
          match assign fuel base num' ks known_dirs with
          | None => None
          | Some r => Some ((k, path) :: r)
          end
      end
  end.

Fixpoint write_groups (fuel : nat) (groups : list (str * list str)) (known_dirs : list str)
  : option (list (str * str)) :=
  match groups with
  | [] => Some []
  | (b, ks) :: r =>
      match assign fuel b 1 ks known_dirs, write_groups fuel r known_dirs with
      | Some a, Some c => Some (a ++ c)
      | _, _ => None
      end
  end.

(* __writeBack: DELETE FROM dirs; insert kept entries; number the others *)
Definition write_back (st : fstate) : option db :=
  let kd := map snd (f_known st) in
  match write_groups (S (length kd)) (f_groups st) kd with
  | Some news => Some (f_known st ++ news)
  | None => None
  end.

Definition refresh (d : db) (vs : list visit) : option db := write_back (fmt_pass d vs).

(* persistent oracle state: meta['vsn'] and the dirs table *)
Definition ostate := (option str * db)%type.
Definition ostate0 : ostate := (None, []).

Definition vsn_matches (vsn : option str) (ck : str) : bool :=
  match vsn with Some v => str_eqb v ck | None => false end.

(* __openAndRefresh(cacheKey, rootPackage) on visit lists *)
Definition prime_visits (s : ostate) (ck : str) (vs : list visit) : option ostate :=
  if vsn_matches (fst s) ck then Some s
  else match refresh (snd s) vs with
       | Some d => Some (Some ck, d)
       | None => None
       end.

Definition prime (s : ostate) (ck : str) (root : pkg) : option ostate :=
  prime_visits s ck (dev_visits root).

Fixpoint run_history (s : ostate) (h : list (str * list visit)) : option ostate :=
  match h with
  | [] => Some s
  | (ck, vs) :: r =>
      match prime_visits s ck vs with
      | Some s' => run_history s' r
      | None => None
      end
  end.

(* base directory under which a key is first presented in a project state *)
Fixpoint first_base (vs : list visit) (k : str) : option str :=
  match vs with
  | [] => None
  | (k', b) :: r => if str_eqb k k' then Some b else first_base r k
  end.

(* __fmt when ready (None = the assertion "missing" fails) *)
Definition dev_dir (d : db) (k : kind) (p : pkg) : option str :=
  match p_vid k p with
  | Some v => lookup d (dev_key p v)
  | None => None
  end.

(* ================================================================ Part 2 *)
Inductive bnval := BCnt (n : N) | BDir (d : str) (is_src : bool).
Definition bnmap := list (str * bnval).     (* _BobState.__byNameDirs: counters and digests in ONE dict *)

Inductive bnres := RDir (d : str) | RNone | RInternal.   (* RInternal: TypeError of the untyped dict access *)

(* getByNameDirectory(baseDir, digest, isSourceDir) *)
Definition bn_get (m : bnmap) (base digest : str) (is_src : bool) : bnmap * bnres :=
  match lookup m digest with
  | Some (BDir d _) => (m, RDir d)
  | Some (BCnt _) => (m, RInternal)               (* int[0] *)
  | None =>
      match lookup m base with
      | Some (BDir _ _) => (m, RInternal)         (* tuple + 1 *)
      | cur =>
          let n := match cur with Some (BCnt n) => n | _ => 0 end in
          let num := n + 1 in
          let res := path_join base (dec num) in
          (set_kv (set_kv m base (BCnt num)) digest (BDir res is_src), RDir res)
      end
  end.

(* getExistingByNameDirectory(digest) *)
Definition bn_existing (m : bnmap) (digest : str) : bnres :=
  match lookup m digest with
  | Some (BDir d _) => RDir d
  | Some (BCnt _) => RInternal
  | None => RNone
  end.

(* getAllNameDirectores() *)
Fixpoint bn_dirs (m : bnmap) : list (str * bool) :=
  match m with
  | [] => []
  | (_, BDir d s) :: r => (d, s) :: bn_dirs r
  | (_, BCnt _) :: r => bn_dirs r
  end.

Definition bnop := (str * str * bool)%type.     (* baseDir, digest, isSourceDir *)

Fixpoint bn_run (m : bnmap) (ops : list bnop) : bnmap * list bnres :=
  match ops with
  | [] => (m, [])
  | (b, g, s) :: r =>
      let (m1, x) := bn_get m b g s in
      let (m2, xs) := bn_run m1 r in
      (m2, x :: xs)
  end.

Definition bn_assigned (m : bnmap) (digest : str) : option str :=
  match lookup m digest with Some (BDir d _) => Some d | _ => None end.

(* releaseNameInterrogator on a step: getExistingByNameDirectory(asHexStr(variant id)) *)
Definition rel_dir (m : bnmap) (k : kind) (p : pkg) : option str :=
  match p_vid k p with
  | Some v => match bn_existing m (hex_str v) with RDir d => Some d | _ => None end
  | None => None
  end.

(* ================================================================ Part 3 *)
(* BobState directory state: dict for source dirs, list (first entry =
   incremental variant id) for build dirs, bytes (variant id) for package dirs *)
Inductive dstate := DSrc | DBuild (l : list str) | DPkg (v : str).
Definition dirstates := list (str * dstate).

Fixpoint strs_eqb (a b : list str) : bool :=
  match a, b with
  | [], [] => true
  | x :: a', y :: b' => str_eqb x y && strs_eqb a' b'
  | _, _ => false
  end.

Definition dstate_eqb (a b : dstate) : bool :=
  match a, b with
  | DSrc, DSrc => true          (* only used for "is it this build / package digest": never true then *)
  | DBuild x, DBuild y => strs_eqb x y
  | DPkg x, DPkg y => str_eqb x y
  | _, _ => false
  end.

Definition is_src_state (s : option dstate) : bool :=
  match s with Some DSrc => true | _ => false end.

(* the paths one package contributes in collectPaths.walk; None = internal
   exception (state[0] on a dict or on an empty list) *)
Definition own_paths (wp : kind -> pkg -> option str) (ds : dirstates) (p : pkg) : option (list str) :=
  let src := match p_vid KSrc p, wp KSrc p with
             | Some _, Some path => [path]
             | _, _ => []
             end in
  let bld := match p_vid KBuild p, wp KBuild p with
             | Some v, Some path =>
                 match lookup ds path with
                 | None => Some [path]
                 | Some (DBuild (v0 :: _)) => Some (if str_eqb v v0 then [path] else [])
                 | Some (DBuild []) => None
                 | Some DSrc => None
                 | Some (DPkg _) => Some []             (* bytes[0] is an int: never equal *)
                 end
             | _, _ => Some []
             end in
  let pkgp := match p_vid KDist p, wp KDist p with
              | Some v, Some path =>
                  match lookup ds path with
                  | None => [path]
                  | Some (DPkg v0) => if str_eqb v v0 then [path] else []
                  | Some _ => []
                  end
              | _, _ => []
              end in
  match bld with
  | Some b => Some (src ++ b ++ pkgp)
  | None => None
  end.

(* collectPaths.walk: state = (done ids, paths) *)
Fixpoint walk (wp : kind -> pkg -> option str) (ds : dirstates) (p : pkg) (st : list N * list str)
  {struct p} : option (list N * list str) :=
  match p with
  | Pkg id _ _ _ _ _ deps =>
      if mem_N id (fst st) then Some st
      else
        match own_paths wp ds p with
        | None => None
        | Some own =>
            (fix go (l : list pkg) (s : list N * list str) : option (list N * list str) :=
               match l with
               | [] => Some s
               | d :: r => match walk wp ds d s with
                           | Some s' => go r s'
                           | None => None
                           end
               end) deps (id :: fst st, snd st ++ own)
        end
  end.

Definition collect_paths (wp : kind -> pkg -> option str) (ds : dirstates) (root : pkg) : option (list str) :=
  match walk wp ds root ([], []) with
  | Some st => Some (snd st)
  | None => None
  end.

(* sorted() on str: code point lexicographic *)
Fixpoint str_leb (a b : str) : bool :=
  match a, b with
  | [], _ => true
  | _ :: _, [] => false
  | x :: a', y :: b' => if x <? y then true else if y <? x then false else str_leb a' b'
  end.

Fixpoint insert_sorted (x : str) (l : list str) : list str :=
  match l with
  | [] => [x]
  | y :: r => if str_leb x y then x :: l else y :: insert_sorted x r
  end.

Fixpoint sort_strs (l : list str) : list str :=
  match l with [] => [] | x :: r => insert_sorted x (sort_strs r) end.

Inductive cmode := Develop | Release.

Record cflags := { cf_src : bool; cf_force : bool; cf_dry : bool }.

(* allPaths of doClean *)
Definition all_paths (mode : cmode) (bn : bnmap) (ds : dirstates) : list (str * bool) :=
  match mode with
  | Release => map (fun e => (path_join (fst e) s_workspace, snd e)) (bn_dirs bn)
  | Develop =>
      let rel := map (fun e => path_join (fst e) s_workspace) (bn_dirs bn) in
      flat_map (fun e => if mem_str (fst e) rel then [] else [(fst e, is_src_state (Some (snd e)))]) ds
  end.

Record cres := {
  c_del : list str;        (* delPaths, in deletion / printing order *)
  c_fs : list str;         (* workspace directories that exist afterwards *)
  c_ds : dirstates         (* directory states afterwards *)
}.

Section Clean.
  (* checkRegularSource(d): SCM status says the source workspace is expendable *)
  Variable expendable : str -> bool.

  Definition may_clean (f : cflags) (d : str) : bool :=
    if cf_src f then (if cf_force f then true else expendable d) else false.

  Definition del_paths (f : cflags) (all : list (str * bool)) (used fs : list str) : list str :=
    sort_strs (flat_map (fun e =>
        if negb (mem_str (fst e) used) && mem_str (fst e) fs && (negb (snd e) || may_clean f (fst e))
        then [fst e] else []) all).

  Definition clean_apply (f : cflags) (del fs : list str) (ds : dirstates) : cres :=
    if cf_dry f then {| c_del := del; c_fs := fs; c_ds := ds |}
    else
      let fs' := filter (fun d => negb (mem_str d del)) fs in
      let ds1 := fold_left (fun acc d => del_k acc d) del ds in
      (* "cleanup BobState() of non-existent directories" *)
      let ds2 := filter (fun e => mem_str (fst e) fs') ds1 in
      {| c_del := del; c_fs := fs'; c_ds := ds2 |}.

  (* doClean, modes develop / release, after the name formatter is in shape *)
  Definition clean_core (mode : cmode) (f : cflags) (wp : kind -> pkg -> option str)
             (root : pkg) (bn : bnmap) (ds : dirstates) (fs : list str) : option cres :=
    match collect_paths wp ds root with
    | None => None
    | Some used => Some (clean_apply f (del_paths f (all_paths mode bn ds) used fs) fs ds)
    end.

  (* bob clean --release *)
  Definition clean_release (f : cflags) (root : pkg) (bn : bnmap) (ds : dirstates)
             (fs : list str) : option cres :=
    clean_core Release f (fun k p => runnable (rel_dir bn k p)) root bn ds fs.

  (* bob clean --develop: primes the directory oracle first *)
  Definition clean_develop (f : cflags) (s : ostate) (ck : str) (root : pkg) (bn : bnmap)
             (ds : dirstates) (fs : list str) : option (ostate * cres) :=
    match prime s ck root with
    | None => None
    | Some s' =>
        match clean_core Develop f (fun k p => runnable (dev_dir (snd s') k p)) root bn ds fs with
        | Some r => Some (s', r)
        | None => None
        end
    end.
End Clean.

(* ================================================================ Part 4 *)
Section Prune.
  Variable content : Type.
  Variable empty : content.

  (* what is found at the workspace path *)
  Inductive there := NoDir | IsDir (c : content) | IsLinkOrFile.

  Definition dstate_opt_eqb (a b : option dstate) : bool :=
    match a, b with
    | None, None => true
    | Some x, Some y => dstate_eqb x y
    | _, _ => false
    end.

  (* _constructDir: a link/file left by a shared package is unlinked, a missing
     directory is created *)
  Definition construct_dir (t : there) : content * bool :=
    match t with IsDir c => (c, false) | _ => (empty, true) end.

  (* _cookBuildStep, block "get directory into shape".  Result: content the
     build script will start from, the `created` flag passed to it, the stored
     directory state.  Since the fix "invalidate the workspace state before a
     workspace is pruned" the code writes resetWorkspaceState(path, None)
     before emptyDirectory and resetWorkspaceState(path, buildDigest) after
     it; the model gives the state at the end of the block (the intermediate
     crash points belong to C05/C10). *)
  Definition build_prepare (t : there) (old : option dstate) (digest : list str)
    : content * bool * option dstate :=
    let (c0, created) := construct_dir t in
    if created || negb (dstate_opt_eqb (Some (DBuild digest)) old) then
      let c1 := if negb created then empty (* exists: emptyDirectory *) else c0 in
      (c1, true, Some (DBuild digest))              (* resetWorkspaceState(path, buildDigest) *)
    else (c0, false, old).

  (* _preparePackageStep followed by the _constructDir of _cookPackageStep
     (state at the end; the prune first invalidates with
     resetWorkspaceState(path, None), then empties, then records the digest) *)
  Definition package_prepare (t : there) (old : option dstate) (vid : str)
    : content * option dstate :=
    let something := match t with NoDir => false | _ => true end in
    let prune := something && negb (dstate_opt_eqb (Some (DPkg vid)) old) in
    let t1 := if prune then match t with IsDir _ => IsDir empty | _ => NoDir end else t in
    let something1 := if prune then false else something in
    let st := if something1 then old else Some (DPkg vid) in
    (fst (construct_dir t1), st).

  Variable run_script : content -> content.

  Definition build_result (t : there) (old : option dstate) (digest : list str) : content :=
    run_script (fst (fst (build_prepare t old digest))).

  Definition package_result (t : there) (old : option dstate) (vid : str) : content :=
    run_script (fst (package_prepare t old vid)).
End Prune.

Arguments NoDir {content}.
Arguments IsDir {content} c.
Arguments IsLinkOrFile {content}.

(* ================================================================ vocabulary of the property statements *)
(* the directory part posixpath.join puts in front of a relative name *)
Definition norm (b : str) : str := if is_nil b || ends_slash b then b else b ++ [ch_slash].

(* no two base directories differ only by a trailing slash *)
Definition sep (bs : list str) : Prop :=
  forall b1 b2, In b1 bs -> In b2 bs -> norm b1 = norm b2 -> b1 = b2.

Definition hist_sep (h : list (str * list visit)) : Prop :=
  Forall (fun e => sep (map snd (snd e))) h.

(* release mode: every presented base directory is in BL, every digest in GL *)
Definition bn_wf (BL GL : list str) (ops : list bnop) : Prop :=
  Forall (fun o => In (fst (fst o)) BL /\ In (snd (fst o)) GL) ops.

Inductive subnode (root : pkg) : pkg -> Prop :=
| sn_root : subnode root root
| sn_child : forall p c, subnode root p -> In c (p_deps p) -> subnode root c.

(* equal package ids denote the same package (the contract of Package._getId) *)
Definition consistent (root : pkg) : Prop :=
  forall n1 n2, subnode root n1 -> subnode root n2 -> p_id n1 = p_id n2 -> n1 = n2.

(* the stored state says: this directory holds the result of exactly this step
   (or nothing is recorded about it); checkout workspaces of valid steps always count *)
Definition uptodate (ds : dirstates) (k : kind) (n : pkg) (path : str) : Prop :=
  match k with
  | KSrc => p_vid KSrc n <> None
  | KBuild => exists v, p_vid KBuild n = Some v /\
               (lookup ds path = None \/ exists rest, lookup ds path = Some (DBuild (v :: rest)))
  | KDist => exists v, p_vid KDist n = Some v /\
               (lookup ds path = None \/ lookup ds path = Some (DPkg v))
  end.

(* variant id recorded in a stored build / package directory state *)
Definition stored_vid (s : option dstate) : option str :=
  match s with
  | Some (DBuild (v :: _)) => Some v
  | Some (DPkg v) => Some v
  | _ => None
  end.
