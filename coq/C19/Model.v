(* C19 — model of `bob archive scan|find|clean` (pym/bob/cmds/archive.py:
   ArchiveScanner, the predicate classes, RetainExpression, query,
   doArchiveScan/Find/Clean) and of Audit.getReferencedBuildIds
   (pym/bob/audit.py).  Definitions only.

   Strings are lists of Unicode code points, build-ids lists of bytes.
   sqlite is modelled as two tables:
     files : rows (bid, stat, vars) kept in the order of the PRIMARY KEY index
             (bid ascending; `SELECT bid FROM files WHERE arch=?` is answered by
             a scan of that covering index), one row per bid;
     refs  : the set of (bid, ref) pairs (INSERT OR IGNORE), kept in the order
             of its PRIMARY KEY index as well.
   One archive (one `arch` key) is modelled.  All BobError outcomes are one
   status (SErr).  *)
From Coq Require Import List NArith Bool Sorted.
Require Import BobV.Gen.ConstsC19.
Import ListNotations.
Open Scope N_scope.

Definition str := list N.
Definition bid := list N.

(* ---- Python str / bytes comparison: lexicographic by code point / byte *)
Fixpoint str_cmp (a b : str) : comparison :=
  match a, b with
  | [], [] => Eq
  | [], _ :: _ => Lt
  | _ :: _, [] => Gt
  | x :: a', y :: b' => match x ?= y with Eq => str_cmp a' b' | c => c end
  end.
Definition str_eqb (a b : str) : bool := match str_cmp a b with Eq => true | _ => false end.
Definition str_ltb (a b : str) : bool := match str_cmp a b with Lt => true | _ => false end.
Definition str_leb (a b : str) : bool := match str_cmp a b with Gt => false | _ => true end.

Fixpoint bmem (b : bid) (l : list bid) : bool :=
  match l with [] => false | x :: r => str_eqb b x || bmem b r end.

(* insertion into a duplicate-free list kept in the order of [cmp] (a set stored
   in index order) *)
Fixpoint gins {T : Type} (cmp : T -> T -> comparison) (x : T) (l : list T) : list T :=
  match l with
  | [] => [x]
  | y :: r => match cmp x y with Lt => x :: l | Eq => l | Gt => y :: gins cmp x r end
  end.

(* sorted(set(...)) *)
Definition ins : bid -> list bid -> list bid := gins str_cmp.
Definition usort (l : list bid) : list bid := fold_right ins [] l.

Fixpoint assoc {V : Type} (k : str) (l : list (str * V)) : option V :=
  match l with
  | [] => None
  | (k', v) :: r => if str_eqb k k' then Some v else assoc k r
  end.

Inductive res (A : Type) : Type := Ok (a : A) | Err.   (* Err: BobError ("Bad query: ...") *)
Arguments Ok {A} a.
Arguments Err {A}.

(* ---- audit data of one artifact ------------------------------------- *)
(* what __scan pickles: {'meta':…, 'build':…, 'metaEnv':…}, each str -> str *)
Definition vars := list (str * list (str * str)).

(* one entry of the audit's "references", unfolded along "dependencies"
   (args, tools, sandbox); dist = (meta["step"] == "dist") *)
Inductive arec : Type := ARec (dist : bool) (b : bid) (deps : list arec).

Record audit := { au_vars : vars; au_deps : list arec }.

(* Audit.getReferencedBuildIds: follow the references; a dist artifact
   contributes its build-id and is not looked into, anything else is replaced
   by its own references *)
Fixpoint rec_refs (r : arec) : list bid :=
  match r with
  | ARec dist b deps => if dist then [b] else flat_map rec_refs deps
  end.
Definition audit_refs (au : audit) : list bid := usort (flat_map rec_refs (au_deps au)).

(* ---- predicates ------------------------------------------------------ *)
Inductive cmpop := OLt | OGt | OLe | OGe | OEq | ONe.

Inductive ex : Type :=
| ELit (s : str)                    (* StringLiteral *)
| EVar (path : list str)            (* VarReference, path = text.split(".") *)
| ENot (e : ex)
| EAnd (a b : ex)
| EOr (a b : ex)
| ECmp (op : cmpop) (a b : ex).

(* VarReference.evalString: any exception while descending -> None;
   a result that is not a str (a section dict) -> barf *)
Definition eval_var (d : vars) (path : list str) : res (option str) :=
  match path with
  | [] => Err
  | s :: rest =>
    match assoc s d with
    | None => Ok None
    | Some sec =>
      match rest with
      | [] => Err
      | f :: rest2 =>
        match assoc f sec with
        | None => Ok None
        | Some v => match rest2 with [] => Ok (Some v) | _ :: _ => Ok None end
        end
      end
    end
  end.

Definition opt_str_eqb (a b : option str) : bool :=
  match a, b with
  | None, None => true
  | Some x, Some y => str_eqb x y
  | _, _ => false
  end.

(* the lambdas of ComparePredicate applied to str/None operands; ordering
   comparisons with None raise TypeError -> barf *)
Definition cmp_apply (op : cmpop) (l r : option str) : res bool :=
  match op with
  | OEq => Ok (opt_str_eqb l r)
  | ONe => Ok (negb (opt_str_eqb l r))
  | _ =>
    match l, r with
    | Some a, Some b =>
      Ok (match op with
          | OLt => str_ltb a b
          | OGt => str_ltb b a
          | OLe => str_leb a b
          | OGe => str_leb b a
          | _ => false
          end)
    | _, _ => Err
    end
  end.

Definition eval_string (d : vars) (e : ex) : res (option str) :=
  match e with
  | ELit s => Ok (Some s)
  | EVar p => eval_var d p
  | _ => Err                      (* "operator in string context" *)
  end.

Fixpoint eval_bool (d : vars) (e : ex) : res bool :=
  match e with
  | ELit _ => Err                 (* "string in boolean context" *)
  | EVar _ => Err                 (* "field reference in boolean context" *)
  | ENot a => match eval_bool d a with Ok v => Ok (negb v) | Err => Err end
  | EAnd a b => match eval_bool d a with
                | Ok true => eval_bool d b
                | Ok false => Ok false
                | Err => Err
                end
  | EOr a b => match eval_bool d a with
               | Ok true => Ok true
               | Ok false => eval_bool d b
               | Err => Err
               end
  | ECmp op a b => match eval_string d a with
                   | Err => Err
                   | Ok l => match eval_string d b with
                             | Err => Err
                             | Ok r => cmp_apply op l r
                             end
                   end
  end.

(* ---- RetainExpression ------------------------------------------------ *)
Record rexpr := {
  r_expr : ex;
  r_limit : option N;              (* LIMIT n *)
  r_sort : option (list str);      (* ORDER BY field; None = default *)
  r_asc : bool                     (* toks[3] == "ASC" *)
}.

(* an expression text: RBad = rejected by the pyparsing grammar *)
Inductive rsrc := RBad | RGood (r : rexpr).

Definition sort_path (r : rexpr) : list str :=
  match r_sort r with Some p => p | None => DEFAULT_SORT end.

(* cmpItem(existing, new) *)
Definition cmp_item (asc : bool) (existing new : option str) : bool :=
  match new with
  | None => false
  | Some n => match existing with
              | None => true
              | Some e => if asc then str_leb n e else str_leb e n
              end
  end.

Definition qitem := (bid * option str)%type.

(* i = first index with cmpItem(queue[i][1], new); queue.insert(i, …) *)
Fixpoint q_insert (asc : bool) (q : list qitem) (it : qitem) : list qitem :=
  match q with
  | [] => [it]
  | e :: r => if cmp_item asc (snd e) (snd it) then it :: q else e :: q_insert asc r it
  end.

Fixpoint remove_bids (victims : list bid) (l : list bid) : list bid :=
  match l with
  | [] => []
  | x :: r => if bmem x victims then remove_bids victims r else x :: remove_bids victims r
  end.

Record rstate := { rs_retained : list bid; rs_queue : list qitem }.
Definition rs_init : rstate := {| rs_retained := []; rs_queue := [] |}.

(* RetainExpression.evaluate(bid, data) *)
Definition evaluate (r : rexpr) (st : rstate) (b : bid) (d : vars) : res rstate :=
  if bmem b (rs_retained st) then Ok st else
  match eval_bool d (r_expr r) with
  | Err => Err
  | Ok false => Ok st
  | Ok true =>
    let ret := b :: rs_retained st in
    match r_limit r with
    | None => Ok {| rs_retained := ret; rs_queue := rs_queue st |}
    | Some n =>
      match eval_var d (sort_path r) with
      | Err => Err
      | Ok k =>
        let q := q_insert (r_asc r) (rs_queue st) (b, k) in
        let keep := firstn (N.to_nat n) q in          (* while len(queue) > limit: pop() *)
        let victims := map fst (skipn (N.to_nat n) q) in
        Ok {| rs_retained := remove_bids victims ret; rs_queue := keep |}
      end
    end
  end.

(* ---- the index ------------------------------------------------------- *)
Definition row := (bid * (N * vars))%type.     (* bid, stat, vars *)
Record index := { ix_files : list row; ix_refs : list (bid * bid) }.
Definition ix_empty : index := {| ix_files := []; ix_refs := [] |}.

Fixpoint ins_row (x : row) (l : list row) : list row :=
  match l with
  | [] => [x]
  | y :: r => match str_cmp (fst x) (fst y) with
              | Lt => x :: l
              | Eq => x :: r      (* not reached: the row was deleted before (PRIMARY KEY) *)
              | Gt => y :: ins_row x r
              end
  end.

Fixpoint find_row (b : bid) (l : list row) : option (N * vars) :=
  match l with
  | [] => None
  | y :: r => if str_eqb b (fst y) then Some (snd y) else find_row b r
  end.

Definition build_ids (I : index) : list bid := map fst (ix_files I).          (* getBuildIds *)
Definition refs_of (I : index) (b : bid) : list bid :=                         (* getReferencedBuildIds *)
  map snd (filter (fun p : bid * bid => str_eqb (fst p) b) (ix_refs I)).
Definition get_vars (I : index) (b : bid) : vars :=                            (* getVars *)
  match find_row b (ix_files I) with Some (_, v) => v | None => [] end.

(* PRIMARY KEY (bid, ref, arch): the refs table in index order *)
Definition ref_cmp (a b : bid * bid) : comparison :=
  match str_cmp (fst a) (fst b) with Eq => str_cmp (snd a) (snd b) | c => c end.

(* executemany("INSERT OR IGNORE INTO refs VALUES (?, ?, ?)", …) *)
Definition add_refs (b : bid) (rs : list bid) (t : list (bid * bid)) : list (bid * bid) :=
  fold_right (fun r t' => gins ref_cmp (b, r) t') t rs.

(* ArchiveScanner.remove: the files row and the refs rows of bid *)
Definition ix_remove (b : bid) (I : index) : index :=
  {| ix_files := filter (fun y : row => negb (str_eqb b (fst y))) (ix_files I);
     ix_refs := filter (fun p : bid * bid => negb (str_eqb (fst p) b)) (ix_refs I) |}.

(* __exit__ with __cleanup: DELETE FROM refs WHERE bid NOT IN (SELECT bid FROM files) *)
Definition ix_prune (I : index) : index :=
  {| ix_files := ix_files I;
     ix_refs := filter (fun p : bid * bid => bmem (fst p) (build_ids I)) (ix_refs I) |}.

(* ---- the archive directory ------------------------------------------- *)
(* one file matching the xx/yy/zzz-1.tgz schema: build-id from its name, its
   binStat (abstract token), its audit (None: getAudit returned None) *)
Record afile := { f_bid : bid; f_stat : N; f_audit : option audit }.
Definition archive := list afile.       (* in listDir order; bids distinct *)

Definition ar_put (f : afile) (A : archive) : archive :=
  f :: filter (fun g => negb (str_eqb (f_bid g) (f_bid f))) A.
Definition ar_del (b : bid) (A : archive) : archive :=
  filter (fun g => negb (str_eqb (f_bid g) b)) A.
Definition ar_bids (A : archive) : list bid := map f_bid A.

(* ---- scan -------------------------------------------------------------- *)
Definition scan_new (I : index) (f : afile) : index :=
  match f_audit f with
  | None => I                                        (* "Could not get audit for" *)
  | Some au =>
    {| ix_files := ins_row (f_bid f, (f_stat f, au_vars au)) (ix_files I);
       ix_refs := add_refs (f_bid f) (audit_refs au) (ix_refs I) |}
  end.

(* __scan; the bool is the __cleanup flag *)
Definition scan_one (s : index * bool) (f : afile) : index * bool :=
  let (I, cl) := s in
  match find_row (f_bid f) (ix_files I) with
  | Some (st, _) => if st =? f_stat f then (I, cl)
                    else (scan_new (ix_remove (f_bid f) I) f, true)
  | None => (scan_new I f, cl)
  end.

Definition scan (s : index * bool) (A : archive) : index * bool :=
  let s1 := fold_left scan_one A s in
  let seen := ar_bids A in
  fold_left (fun (t : index * bool) b => if bmem b seen then t else (ix_remove b (fst t), true))
            (build_ids (fst s1)) s1.

Definition ix_exit (s : index * bool) : index := if snd s then ix_prune (fst s) else fst s.

(* ---- query --------------------------------------------------------------- *)
Fixpoint parse_all (es : list rsrc) : res (list rexpr) :=
  match es with
  | [] => Ok []
  | RBad :: _ => Err
  | RGood r :: rest =>
    match r_limit r with
    | Some 0 => Err                         (* "LIMIT takes a number greater or equal to one" *)
    | _ => match parse_all rest with Ok l => Ok (r :: l) | Err => Err end
    end
  end.

(* for expr in retainExpressions: expr.evaluate(bid, data) *)
Fixpoint eval_exprs (sts : list (rexpr * rstate)) (b : bid) (d : vars) : res (list (rexpr * rstate)) :=
  match sts with
  | [] => Ok []
  | (r, st) :: rest =>
    match evaluate r st b d with
    | Err => Err
    | Ok st' => match eval_exprs rest b d with Ok l => Ok ((r, st') :: l) | Err => Err end
    end
  end.

(* for bid in scanner.getBuildIds(): data = scanner.getVars(bid); … *)
Fixpoint eval_rows (I : index) (sts : list (rexpr * rstate)) (bs : list bid) : res (list (rexpr * rstate)) :=
  match bs with
  | [] => Ok sts
  | b :: rest => match eval_exprs sts b (get_vars I b) with
                 | Err => Err
                 | Ok sts' => eval_rows I sts' rest
                 end
  end.

Definition query (I : index) (es : list rsrc) : res (list bid) :=
  match parse_all es with
  | Err => Err
  | Ok rs =>
    match eval_rows I (map (fun r => (r, rs_init)) rs) (build_ids I) with
    | Err => Err
    | Ok sts => Ok (flat_map (fun p => rs_retained (snd p)) sts)
    end
  end.

(* ---- second pass of doArchiveClean --------------------------------------- *)
(* the `while todo:` loop; todo is a worklist (the code pops an arbitrary
   element of a set), fuel bounds the number of iterations *)
Fixpoint close (fuel : nat) (I : index) (ret todo : list bid) : option (list bid) :=
  match todo with
  | [] => Some ret
  | n :: rest =>
    match fuel with
    | O => None
    | S k => if bmem n ret then close k I ret rest
             else close k I (n :: ret) (refs_of I n ++ rest)
    end
  end.

Definition close_fuel (I : index) (todo : list bid) : nat :=
  (length todo + length (ix_refs I))%nat.

Definition closure (I : index) (retained : list bid) : option (list bid) :=
  let todo := flat_map (refs_of I) retained in
  close (close_fuel I todo) I retained todo.

(* ---- commands -------------------------------------------------------------- *)
Inductive status := SOk | SErr | SExit | SFuel.
(* SErr: BobError; SExit: sys.exit(1) of -f; SFuel: the model ran out of fuel
   (excluded by theorem closure_fuel_enough) *)

Inductive cmd :=
| CScan (fail : bool)
| CFind (noscan fail : bool) (es : list rsrc)
| CClean (dry noscan fail : bool) (es : list rsrc).

Record obs := {
  o_status : status;
  o_noaudit : list bid;      (* "Could not get audit for" lines, as a sorted set *)
  o_list : list bid          (* the artifact paths printed, in order *)
}.

Definition noaudit_of (A : archive) : list bid :=
  usort (map f_bid (filter (fun f => match f_audit f with None => true | Some _ => false end) A)).

(* found: any file matched the schema *)
Definition found (A : archive) : bool := match A with [] => false | _ => true end.

(* `if not args.noscan: if not scanner.scan(…) and args.fail: sys.exit(1)`
   -> session after the scan, lines printed, and whether to exit *)
Definition do_scan (noscan fail : bool) (I : index) (A : archive) : (index * bool) * list bid * bool :=
  if noscan then ((I, false), [], false)
  else (scan (I, false) A, noaudit_of A, fail && negb (found A)).

Definition victims_of (I : index) (retained : list bid) : list bid :=
  filter (fun b => negb (bmem b retained)) (build_ids I).

Definition run_cmd (c : cmd) (I : index) (A : archive) : obs * index * archive :=
  match c with
  | CScan fail =>
    let '(s, na, ex) := do_scan false fail I A in
    ({| o_status := if ex then SExit else SOk; o_noaudit := na; o_list := [] |}, ix_exit s, A)
  | CFind noscan fail es =>
    let '(s, na, ex) := do_scan noscan fail I A in
    if ex then ({| o_status := SExit; o_noaudit := na; o_list := [] |}, ix_exit s, A) else
    match query (fst s) es with
    | Err => ({| o_status := SErr; o_noaudit := na; o_list := [] |}, ix_exit s, A)
    | Ok retained => ({| o_status := SOk; o_noaudit := na; o_list := usort retained |}, ix_exit s, A)
    end
  | CClean dry noscan fail es =>
    let '(s, na, ex) := do_scan noscan fail I A in
    if ex then ({| o_status := SExit; o_noaudit := na; o_list := [] |}, ix_exit s, A) else
    match query (fst s) es with
    | Err => ({| o_status := SErr; o_noaudit := na; o_list := [] |}, ix_exit s, A)
    | Ok retained =>
      match closure (fst s) retained with
      | None => ({| o_status := SFuel; o_noaudit := na; o_list := [] |}, ix_exit s, A)
      | Some keep =>
        let victims := victims_of (fst s) keep in
        if dry then ({| o_status := SOk; o_noaudit := na; o_list := victims |}, ix_exit s, A)
        else
          let I2 := fold_left (fun J b => ix_remove b J) victims (fst s) in
          let cl := snd s || match victims with [] => false | _ => true end in
          ({| o_status := SOk; o_noaudit := na; o_list := [] |},
           ix_exit (I2, cl),
           fold_left (fun B b => ar_del b B) victims A)
      end
    end
  end.

(* ---- histories ------------------------------------------------------------- *)
Inductive event :=
| EPut (f : afile)          (* an artifact is uploaded / replaced in place *)
| EDel (b : bid)            (* an artifact file is removed behind bob's back *)
| ECmd (c : cmd).

(* observations of every command: (obs, artifacts present afterwards) *)
Fixpoint run_hist (I : index) (A : archive) (h : list event) : list (obs * list bid) :=
  match h with
  | [] => []
  | EPut f :: r => run_hist I (ar_put f A) r
  | EDel b :: r => run_hist I (ar_del b A) r
  | ECmd c :: r => let '(o, I', A') := run_cmd c I A in
                   (o, usort (ar_bids A')) :: run_hist I' A' r
  end.

(* state reached by a history *)
Fixpoint hist_state (I : index) (A : archive) (h : list event) : index * archive :=
  match h with
  | [] => (I, A)
  | EPut f :: r => hist_state I (ar_put f A) r
  | EDel b :: r => hist_state I (ar_del b A) r
  | ECmd c :: r => let '(_, I', A') := run_cmd c I A in hist_state I' A' r
  end.

(* ---- boolean equalities for the case runner ---------------------------------- *)
Fixpoint bids_eqb (a b : list bid) : bool :=
  match a, b with
  | [], [] => true
  | x :: a', y :: b' => str_eqb x y && bids_eqb a' b'
  | _, _ => false
  end.
Definition status_eqb (a b : status) : bool :=
  match a, b with SOk, SOk | SErr, SErr | SExit, SExit | SFuel, SFuel => true | _, _ => false end.
Definition obs_eqb (a b : obs * list bid) : bool :=
  status_eqb (o_status (fst a)) (o_status (fst b)) &&
  bids_eqb (o_noaudit (fst a)) (o_noaudit (fst b)) &&
  bids_eqb (o_list (fst a)) (o_list (fst b)) &&
  bids_eqb (snd a) (snd b).
Fixpoint obss_eqb (a b : list (obs * list bid)) : bool :=
  match a, b with
  | [], [] => true
  | x :: a', y :: b' => obs_eqb x y && obss_eqb a' b'
  | _, _ => false
  end.

(* ========================================================================
   Specification vocabulary (used by the statements in Properties.v)
   ======================================================================== *)

(* geb asc a b: key a is at least as good as key b (undefined keys are worst) *)
Definition geb (asc : bool) (a b : option str) : bool :=
  match a, b with
  | _, None => true
  | None, Some _ => false
  | Some x, Some y => if asc then str_leb x y else str_leb y x
  end.

(* the LIMIT queue on its own: arrivals its, limit n *)
Definition q_step (asc : bool) (n : nat) (q : list qitem) (it : qitem) : list qitem :=
  firstn n (q_insert asc q it).
Definition q_run (asc : bool) (n : nat) (its : list qitem) : list qitem :=
  fold_left (q_step asc n) its [].

(* reachability over the refs table, starting from S0 *)
Inductive reach (I : index) (S0 : list bid) : bid -> Prop :=
| reach_base b : In b S0 -> reach I S0 b
| reach_step a b : reach I S0 a -> In b (refs_of I a) -> reach I S0 b.

Definition key_of (I : index) (r : rexpr) (b : bid) : option str :=
  match eval_var (get_vars I b) (sort_path r) with Ok k => k | Err => None end.

Definition matches (I : index) (r : rexpr) (b : bid) : bool :=
  match eval_bool (get_vars I b) (r_expr r) with Ok true => true | _ => false end.

(* the matched artifacts with their sort keys, in arrival order *)
Definition mitems (I : index) (r : rexpr) (bs : list bid) : list qitem :=
  map (fun b => (b, key_of I r b)) (filter (matches I r) bs).

(* what one retention expression retains *)
Definition selects (I : index) (r : rexpr) (S : list bid) : Prop :=
  let M := mitems I r (build_ids I) in
  match r_limit r with
  | None => forall x, In x S <-> In x (map fst M)
  | Some n =>
    NoDup S /\ incl S (map fst M) /\ length S = Nat.min (N.to_nat n) (length M) /\
    forall x y, In x S -> In y (map fst M) -> ~ In y S ->
                geb (r_asc r) (key_of I r x) (key_of I r y) = true
  end.

(* ---- what the index should contain for an archive content A *)
Definition ar_find (b : bid) (A : archive) : option afile :=
  find (fun f => str_eqb (f_bid f) b) A.

Definition wf (A : archive) : Prop := NoDup (ar_bids A).       (* one file per build-id *)

Definition rowspec (A : archive) (b : bid) : option (N * vars) :=
  match ar_find b A with
  | Some f => match f_audit f with Some au => Some (f_stat f, au_vars au) | None => None end
  | None => None
  end.

Definition refspec (A : archive) (b : bid) : list bid :=
  match ar_find b A with
  | Some f => match f_audit f with Some au => audit_refs au | None => [] end
  | None => []
  end.

Definition row_lt (a b : row) : Prop := str_cmp (fst a) (fst b) = Lt.
Definition ref_lt (a b : bid * bid) : Prop := ref_cmp a b = Lt.

(* the index is exactly the image of the archive content A: one row per
   artifact with an audit trail (its stat and vars), the references of exactly
   these artifacts, both tables in key order *)
Record Inv (I : index) (A : archive) : Prop := {
  inv_fsorted : StronglySorted row_lt (ix_files I);
  inv_rows : forall b, find_row b (ix_files I) = rowspec A b;
  inv_rsorted : StronglySorted ref_lt (ix_refs I);
  inv_refs : forall b r, In (b, r) (ix_refs I) <-> In r (refspec A b)
}.

(* binStat identifies the content: two files of the same name with the same
   stat have the same audit trail *)
Definition compat (A0 A : archive) : Prop :=
  forall g f, In g A0 -> In f A -> f_bid g = f_bid f -> f_stat g = f_stat f -> f_audit g = f_audit f.

Definition stat_faithful (h : list event) : Prop :=
  forall g f, In (EPut g) h -> In (EPut f) h ->
              f_bid g = f_bid f -> f_stat g = f_stat f -> f_audit g = f_audit f.

Definition scanning (c : cmd) : bool :=
  match c with CScan _ => true | CFind n _ _ => negb n | CClean _ n _ _ => negb n end.

(* the command with the -n (and -f) flag cleared *)
Definition with_scan (c : cmd) : cmd :=
  match c with
  | CScan _ => CScan false
  | CFind _ _ es => CFind false false es
  | CClean d _ _ es => CClean d false false es
  end.

(* the index a command evaluates its expressions on *)
Definition qix (noscan : bool) (I : index) (A : archive) : index :=
  if noscan then I else fst (scan (I, false) A).

Definition ar_del_all (V : list bid) (A : archive) : archive :=
  fold_left (fun B b => ar_del b B) V A.
