(* C19 — property theorems.  Only statements (closed by [exact] of a lemma of
   Proofs.v) and non-vacuity examples.  Vocabulary (geb, q_run, reach, selects,
   Inv, wf, compat, stat_faithful, scanning, with_scan, qix, ar_del_all) is
   defined at the end of Model.v. *)
From Coq Require Import List NArith Arith Bool Sorted.
Require Import BobV.Gen.ConstsC19 BobV.C19.Model BobV.C19.Proofs.
Import ListNotations.
Open Scope N_scope.

(* P1. The bounded queue of RetainExpression.evaluate: after ANY sequence of
   arrivals (distinct build-ids) it holds min(n, #arrivals) items, every retained
   item is at least as good (ORDER BY key, ASC or DESC, undefined key last) as
   every dropped one, best first. *)
Theorem limit_queue_topn : forall asc n its,
  (0 < n)%nat -> NoDup (map fst its) ->
  let q := q_run asc n its in
  length q = Nat.min n (length its) /\ incl q its /\ NoDup (map fst q) /\
  (forall x y, In x q -> In y its -> ~ In y q -> geb asc (snd x) (snd y) = true) /\
  StronglySorted (fun a b : qitem => geb asc (snd a) (snd b) = true) q.
Proof. exact limit_queue_topn_proof. Qed.

(* geb is a total preorder with undefined keys strictly last. *)
Theorem sort_order_total : forall asc,
  (forall a, geb asc a a = true) /\
  (forall a b, geb asc a b = true \/ geb asc b a = true) /\
  (forall a b c, geb asc a b = true -> geb asc b c = true -> geb asc a c = true) /\
  (forall k, geb asc (Some k) None = true /\ geb asc None (Some k) = false).
Proof. exact sort_order_total_proof. Qed.

(* P1. query: a successful query returns the union of what every expression
   [selects]: without LIMIT all matching artifacts; with LIMIT n a duplicate-free
   subset of the matching ones of size min(n, #matching) such that no artifact
   left out has a strictly better sort key than one taken. *)
Theorem query_selects : forall I es S,
  NoDup (build_ids I) -> query I es = Ok S ->
  exists rs Ss, Forall2 (fun e r => e = RGood r /\ r_limit r <> Some 0) es rs /\
                Forall2 (selects I) rs Ss /\
                forall x, In x S <-> exists S1, In S1 Ss /\ In x S1.
Proof. exact query_spec. Qed.

(* P1. clean keeps every artifact that is selected or reachable from a selected
   one through the references (qix = the index the command works on: the
   rescanned one, or with -n the stored one). *)
Theorem clean_keeps_selected_and_closure : forall noscan fail es I A o I' A',
  run_cmd (CClean false noscan fail es) I A = (o, I', A') -> o_status o = SOk ->
  exists sel, query (qix noscan I A) es = Ok sel /\
    forall f, In f A -> reach (qix noscan I A) sel (f_bid f) -> In f A'.
Proof. exact clean_keeps_selected_and_closure_proof. Qed.

(* P1. ... and deletes every other indexed artifact: a file survives iff it is
   retained or not in the index at all. *)
Theorem clean_deletes_everything_else : forall noscan fail es I A o I' A',
  run_cmd (CClean false noscan fail es) I A = (o, I', A') -> o_status o = SOk ->
  exists sel, query (qix noscan I A) es = Ok sel /\
    forall f, In f A' <-> In f A /\ (reach (qix noscan I A) sel (f_bid f) \/
                                     ~ In (f_bid f) (build_ids (qix noscan I A))).
Proof. exact clean_deletes_everything_else_proof. Qed.

(* P1. --dry-run, find, scan and every command that fails delete nothing. *)
Theorem dry_run_deletes_nothing : forall c I A,
  (match c with CClean false _ _ _ => o_status (fst (fst (run_cmd c I A))) <> SOk | _ => True end) ->
  snd (run_cmd c I A) = A.
Proof. exact dry_run_deletes_nothing_proof. Qed.

(* ... and --dry-run prints exactly what the same clean deletes. *)
Theorem dry_run_lists_victims : forall noscan fail es I A,
  let d := run_cmd (CClean true noscan fail es) I A in
  let r := run_cmd (CClean false noscan fail es) I A in
  o_status (fst (fst d)) = o_status (fst (fst r)) /\
  (o_status (fst (fst d)) = SOk ->
   forall f, In f (snd r) <-> In f A /\ ~ In (f_bid f) (o_list (fst (fst d)))).
Proof. exact dry_run_lists_victims_proof. Qed.

(* P1. find lists exactly the directly selected artifacts (sorted, no
   duplicates, nothing that is only referenced) and changes nothing. *)
Theorem find_lists_exactly_selected : forall noscan fail es I A o I' A',
  run_cmd (CFind noscan fail es) I A = (o, I', A') -> o_status o = SOk ->
  exists sel, query (qix noscan I A) es = Ok sel /\ o_list o = usort sel /\
              (forall b, In b (o_list o) <-> In b sel) /\ A' = A.
Proof. exact find_lists_exactly_selected_proof. Qed.

(* P1. scan makes the index the exact image of the archive, whatever index
   (consistent with an earlier archive content A0) it started from. *)
Theorem scan_index_exact : forall I cl A0 A,
  Inv I A0 -> wf A0 -> wf A -> compat A0 A -> Inv (fst (scan (I, cl) A)) A.
Proof. exact scan_Inv. Qed.

(* P1. Index transparency: after ANY history of uploads, removals, in-place
   replacements, touches and earlier commands (scanning or -n, failing or not),
   every command that scans gives the result (output, remaining artifacts, new
   index) it gives on a freshly built index.  Hypothesis: binStat identifies
   content (same name and stat => same audit trail). *)
Theorem index_transparent : forall h c,
  stat_faithful h -> scanning c = true ->
  run_cmd c (fst (hist_state ix_empty [] h)) (snd (hist_state ix_empty [] h)) =
  run_cmd c ix_empty (snd (hist_state ix_empty [] h)).
Proof. exact index_transparent_proof. Qed.

(* P1. What -n means precisely: on an index that is the image of the archive
   content A0 of the last scan, the command gives the status and the list that
   the scanning command gives on A0 (freshly indexed), and deletes from the
   present archive A the artifacts V that this command deletes from A0. *)
Theorem noscan_uses_last_scan : forall c I A A0,
  scanning c = false -> Inv I A0 -> wf A0 ->
  exists V,
    run_cmd c I A =
      ({| o_status := o_status (fst (fst (run_cmd (with_scan c) ix_empty A0)));
          o_noaudit := [];
          o_list := o_list (fst (fst (run_cmd (with_scan c) ix_empty A0))) |},
       snd (fst (run_cmd (with_scan c) ix_empty A0)),
       ar_del_all V A) /\
    snd (run_cmd (with_scan c) ix_empty A0) = ar_del_all V A0 /\
    Inv (snd (fst (run_cmd (with_scan c) ix_empty A0))) (ar_del_all V A0).
Proof. exact noscan_uses_last_scan_proof. Qed.

(* End to end, in terms of the archive content only: after a scanning clean a
   file is left iff it was there and it has no audit trail (not an artifact) or
   is selected / transitively referenced, where the index K is the exact image
   of the archive (Inv K A; its build-ids are distinct, so query_selects
   describes sel). *)
Theorem clean_exact_on_archive : forall I A0 A fail es o I' A',
  Inv I A0 -> wf A0 -> wf A -> compat A0 A ->
  run_cmd (CClean false false fail es) I A = (o, I', A') -> o_status o = SOk ->
  let K := fst (scan (ix_empty, false) A) in
  Inv K A /\ NoDup (build_ids K) /\
  exists sel, query K es = Ok sel /\
    forall f, In f A' <-> In f A /\ (f_audit f = None \/ reach K sel (f_bid f)).
Proof. exact clean_exact_on_archive_proof. Qed.

(* P2. The closure loop always terminates within the model's fuel. *)
Theorem closure_loop_fuel_enough : forall c I A, o_status (fst (fst (run_cmd c I A))) <> SFuel.
Proof. exact never_out_of_fuel_proof. Qed.

(* P2. The closure computed by the loop is reachability over the refs table. *)
Theorem closure_is_reachability : forall I S0 R,
  closure I S0 = Some R -> forall x, In x R <-> reach I S0 x.
Proof. exact closure_correct. Qed.

(* P2. Audit-level references: exactly the dist artifacts reachable through
   non-dist dependency records; nothing below a dist artifact. *)
Theorem refs_skip_intermediate : forall au b,
  In b (audit_refs au) <-> dist_reach (au_deps au) b.
Proof. exact refs_skip_intermediate_proof. Qed.

(* ------------------------------------------------------------------------
   non-vacuity: concrete instances, evaluated
   ------------------------------------------------------------------------ *)
Definition s_a : str := [97].   Definition s_b : str := [98].   Definition s_c : str := [99].
Definition b1 : bid := [1].  Definition b2 : bid := [2].  Definition b3 : bid := [3].
Definition b4 : bid := [4].  Definition b5 : bid := [5].

Example limit_queue_nonvacuous :   (* LIMIT 2 DESC over keys b, undefined, c, b, a: c and the later b stay *)
  q_run false 2 [(b1, Some s_b); (b2, None); (b3, Some s_c); (b4, Some s_b); (b5, Some s_a)]
  = [(b3, Some s_c); (b4, Some s_b)]
  /\ q_run true 3 [(b1, None); (b2, Some s_b); (b3, None)] = [(b2, Some s_b); (b1, None); (b3, None)].
Proof. split; vm_compute; reflexivity. Qed.

Definition mk_vars (pkg date : str) : vars :=
  [([109;101;116;97], [([112;97;99;107;97;103;101], pkg)]);       (* meta.package *)
   ([98;117;105;108;100], [([100;97;116;101], date)]);             (* build.date *)
   ([109;101;116;97;69;110;118], [])].
Definition mk_file (b : bid) (st : N) (pkg date : str) (deps : list arec) : afile :=
  {| f_bid := b; f_stat := st; f_audit := Some {| au_vars := mk_vars pkg date; au_deps := deps |} |}.
Definition e_pkg (v : str) : ex := ECmp OEq (EVar [[109;101;116;97]; [112;97;99;107;97;103;101]]) (ELit v).
Definition r_pkg (v : str) (lim : option N) : rsrc :=
  RGood {| r_expr := e_pkg v; r_limit := lim; r_sort := None; r_asc := false |}.

(* b3 -> (build step) -> b2 -> b1; b4 unrelated; b5 = older build of the same package *)
Definition hist0 : list event :=
  [EPut (mk_file b1 1 s_c s_a []);
   EPut (mk_file b2 2 s_b s_a [ARec true b1 []]);
   EPut (mk_file b3 3 s_a s_b [ARec false b5 [ARec true b2 [ARec true b4 []]]]);
   EPut (mk_file b4 4 s_c s_a []);
   EPut (mk_file b5 5 s_a s_a [ARec true b4 []]);
   ECmd (CScan false);
   EDel b2;                                        (* the intermediate artifact vanishes *)
   EPut (mk_file b5 6 s_a s_a [])].                (* in-place rebuild without the reference *)

Example clean_nonvacuous :
  (* keep the newest artifact of package "a": b3 stays, b1 (only referenced by the vanished b2), b4 (only
     referenced by the replaced b5 and below the dist record b2) and the older b5 go *)
  let s := hist_state ix_empty [] hist0 in
  let '(o, I', A') := run_cmd (CClean false false false [r_pkg s_a (Some 1)]) (fst s) (snd s) in
  o_status o = SOk /\ usort (ar_bids (snd s)) = [b1; b3; b4; b5] /\ usort (ar_bids A') = [b3]
  /\ o_list (fst (fst (run_cmd (CClean true false false [r_pkg s_a (Some 1)]) (fst s) (snd s)))) = [b1; b4; b5]
  /\ o_list (fst (fst (run_cmd (CFind false false [r_pkg s_a None; r_pkg s_c (Some 1)]) (fst s) (snd s)))) = [b3; b4; b5].
Proof. vm_compute. repeat split; reflexivity. Qed.

Example index_transparent_nonvacuous :
  stat_faithful hist0 /\
  fst (hist_state ix_empty [] hist0) <> ix_empty /\
  fst (hist_state ix_empty [] hist0) <> fst (scan (ix_empty, false) (snd (hist_state ix_empty [] hist0))) /\
  run_cmd (CClean false false false [r_pkg s_a (Some 1)]) (fst (hist_state ix_empty [] hist0)) (snd (hist_state ix_empty [] hist0))
  = run_cmd (CClean false false false [r_pkg s_a (Some 1)]) ix_empty (snd (hist_state ix_empty [] hist0)).
Proof.
  split; [|split; [|split]].
  - intros g f Hg Hf. unfold hist0 in *. simpl in Hg, Hf.
    repeat (destruct Hg as [Hg|Hg]; [try discriminate; try (injection Hg as <-)|]); try contradiction;
    repeat (destruct Hf as [Hf|Hf]; [try discriminate; try (injection Hf as <-)|]); try contradiction;
    vm_compute; intros; try reflexivity; try discriminate.
  - vm_compute. discriminate.
  - vm_compute. discriminate.
  - vm_compute. reflexivity.
Qed.

Example noscan_nonvacuous :
  (* with -n the stale index of hist0 still knows the vanished b2 and follows its reference: b1 survives
     (a scanning clean deletes it, see clean_nonvacuous) *)
  let s := hist_state ix_empty [] hist0 in
  usort (ar_bids (snd (run_cmd (CClean false true false [r_pkg s_a (Some 1)]) (fst s) (snd s)))) = [b1; b3].
Proof. vm_compute. reflexivity. Qed.

Example query_error_nonvacuous :
  (* build.date < "b" on an artifact without build section is a query error and deletes nothing *)
  let A := [{| f_bid := b1; f_stat := 1; f_audit := Some {| au_vars := [([109;101;116;97], [])]; au_deps := [] |} |}] in
  let c := CClean false false false
             [RGood {| r_expr := ECmp OLt (EVar [[98;117;105;108;100]; [100;97;116;101]]) (ELit s_b);
                       r_limit := None; r_sort := None; r_asc := false |}] in
  o_status (fst (fst (run_cmd c ix_empty A))) = SErr /\ snd (run_cmd c ix_empty A) = A.
Proof. vm_compute. split; reflexivity. Qed.
