(* C19 — property theorems (stub, being written) *)
From Coq Require Import List NArith Bool.
Require Import BobV.Gen.ConstsC19 BobV.C19.Model BobV.C19.Proofs.
Import ListNotations.
Open Scope N_scope.

Theorem stub : True. Proof. exact dry_stub. Qed.
