(* C19 — lemmas about the archive model. *)
From Coq Require Import List NArith Arith Bool Lia Sorted Permutation.
Require Import BobV.Gen.ConstsC19 BobV.C19.Model.
Import ListNotations.
Open Scope N_scope.

(* ---------------------------------------------------------------- str_cmp *)
Lemma str_cmp_refl a : str_cmp a a = Eq.
Proof. induction a as [|x a IH]; simpl; [reflexivity|]. now rewrite N.compare_refl. Qed.

Lemma str_cmp_eq a b : str_cmp a b = Eq -> a = b.
Proof.
  revert b; induction a as [|x a IH]; intros [|y b]; simpl; try discriminate; [reflexivity|].
  destruct (x ?= y) eqn:E; try discriminate.
  apply N.compare_eq in E. intros H. apply IH in H. congruence.
Qed.

Lemma str_cmp_antisym a b : str_cmp b a = CompOpp (str_cmp a b).
Proof.
  revert b; induction a as [|x a IH]; intros [|y b]; simpl; try reflexivity.
  rewrite (N.compare_antisym x y). destruct (x ?= y); simpl; auto.
Qed.

Lemma str_cmp_lt_trans a b c : str_cmp a b = Lt -> str_cmp b c = Lt -> str_cmp a c = Lt.
Proof.
  revert b c; induction a as [|x a IH]; intros [|y b] [|z c]; simpl; try discriminate; try reflexivity.
  destruct (x ?= y) eqn:E1; try discriminate.
  - apply N.compare_eq in E1; subst y. destruct (x ?= z) eqn:E2; try discriminate; auto.
    intros; eapply IH; eauto.
  - intros _. destruct (y ?= z) eqn:E2; try discriminate.
    + apply N.compare_eq in E2; subst z. now rewrite E1.
    + intros _. assert (x ?= z = Lt) as ->; [|reflexivity].
      apply N.compare_lt_iff. apply N.compare_lt_iff in E1. apply N.compare_lt_iff in E2. eapply N.lt_trans; eauto.
Qed.

Lemma str_cmp_gt_lt a b : str_cmp a b = Gt <-> str_cmp b a = Lt.
Proof. rewrite (str_cmp_antisym a b). destruct (str_cmp a b); simpl; split; congruence. Qed.

Lemma str_eqb_eq a b : str_eqb a b = true <-> a = b.
Proof.
  unfold str_eqb. split.
  - destruct (str_cmp a b) eqn:E; try discriminate. intros _. now apply str_cmp_eq.
  - intros ->. now rewrite str_cmp_refl.
Qed.

Lemma str_eqb_refl a : str_eqb a a = true.
Proof. now apply str_eqb_eq. Qed.

Lemma str_eqb_neq a b : str_eqb a b = false <-> a <> b.
Proof. rewrite <- str_eqb_eq. destruct (str_eqb a b); split; congruence. Qed.

Lemma str_eqb_sym a b : str_eqb a b = str_eqb b a.
Proof.
  destruct (str_eqb a b) eqn:E.
  - apply str_eqb_eq in E; subst. now rewrite str_eqb_refl.
  - symmetry. apply str_eqb_neq. apply str_eqb_neq in E. congruence.
Qed.

Lemma str_leb_refl a : str_leb a a = true.
Proof. unfold str_leb. now rewrite str_cmp_refl. Qed.

Lemma str_leb_total a b : str_leb a b = true \/ str_leb b a = true.
Proof.
  unfold str_leb. rewrite (str_cmp_antisym a b). destruct (str_cmp a b); simpl; auto.
Qed.

Lemma str_leb_trans a b c : str_leb a b = true -> str_leb b c = true -> str_leb a c = true.
Proof.
  unfold str_leb.
  destruct (str_cmp a b) eqn:E1; try discriminate; intros _;
  destruct (str_cmp b c) eqn:E2; try discriminate; intros _.
  - apply str_cmp_eq in E1; subst. now rewrite E2.
  - apply str_cmp_eq in E1; subst. now rewrite E2.
  - apply str_cmp_eq in E2; subst. now rewrite E1.
  - now rewrite (str_cmp_lt_trans _ _ _ E1 E2).
Qed.

Lemma str_leb_antisym a b : str_leb a b = true -> str_leb b a = true -> a = b.
Proof.
  unfold str_leb. rewrite (str_cmp_antisym a b).
  destruct (str_cmp a b) eqn:E; simpl; try discriminate; intros; now apply str_cmp_eq.
Qed.

Lemma str_ltb_leb a b : str_ltb a b = negb (str_leb b a).
Proof. unfold str_ltb, str_leb. rewrite (str_cmp_antisym a b). destruct (str_cmp a b); reflexivity. Qed.

Lemma bmem_In b l : bmem b l = true <-> In b l.
Proof.
  induction l as [|x l IH]; simpl; [split; [discriminate|tauto]|].
  rewrite orb_true_iff, str_eqb_eq, IH. split; intros [H|H]; auto.
Qed.

Lemma bmem_false b l : bmem b l = false <-> ~ In b l.
Proof. rewrite <- bmem_In. destruct (bmem b l); split; congruence. Qed.

(* ---------------------------------------------------------------- the LIMIT queue *)
(* geb asc a b: key a is at least as good as key b (undefined keys are worst) *)
Definition geb (asc : bool) (a b : option str) : bool :=
  match a, b with
  | _, None => true
  | None, Some _ => false
  | Some x, Some y => if asc then str_leb x y else str_leb y x
  end.

Lemma geb_refl asc a : geb asc a a = true.
Proof. destruct a; simpl; auto. destruct asc; apply str_leb_refl. Qed.

Lemma geb_total asc a b : geb asc a b = true \/ geb asc b a = true.
Proof. destruct a, b; simpl; auto. destruct asc; apply str_leb_total. Qed.

Lemma geb_trans asc a b c : geb asc a b = true -> geb asc b c = true -> geb asc a c = true.
Proof.
  destruct a, b, c; simpl; auto; try discriminate.
  destruct asc; intros; eapply str_leb_trans; eauto.
Qed.

Lemma cmp_item_geb asc e n :
  cmp_item asc e n = match n with None => false | Some _ => geb asc n e end.
Proof. destruct n, e; reflexivity. Qed.

Definition qsorted (asc : bool) : list qitem -> Prop :=
  StronglySorted (fun a b => geb asc (snd a) (snd b) = true).

Lemma q_insert_In asc q it x : In x (q_insert asc q it) <-> x = it \/ In x q.
Proof.
  induction q as [|e q IH]; simpl; [intuition|].
  destruct (cmp_item asc (snd e) (snd it)); simpl; [intuition|].
  rewrite IH. intuition.
Qed.

Lemma q_insert_length asc q it : length (q_insert asc q it) = S (length q).
Proof.
  induction q as [|e q IH]; simpl; [reflexivity|].
  destruct (cmp_item asc (snd e) (snd it)); simpl; auto.
Qed.

Lemma q_insert_sorted asc q it : qsorted asc q -> qsorted asc (q_insert asc q it).
Proof.
  unfold qsorted. induction q as [|e q IH]; intros Hs; simpl.
  - constructor; [constructor|constructor].
  - inversion Hs as [|? ? Hs' Hall]; subst.
    destruct (cmp_item asc (snd e) (snd it)) eqn:E.
    + rewrite cmp_item_geb in E. destruct (snd it) as [k|] eqn:Ek; [|discriminate].
      constructor; [exact Hs|].
      constructor; [now rewrite Ek|].
      rewrite Forall_forall in *. intros y Hy. rewrite Ek. eapply geb_trans; eauto.
    + constructor; [auto|].
      rewrite Forall_forall in *. intros y Hy. apply q_insert_In in Hy as [->|Hy]; [|auto].
      rewrite cmp_item_geb in E. destruct (snd it) as [k|] eqn:Ek.
      * destruct (geb_total asc (snd e) (Some k)) as [H|H]; [exact H|congruence].
      * now destruct (snd e).
Qed.

Lemma q_insert_fst asc q it : Permutation (map fst (q_insert asc q it)) (fst it :: map fst q).
Proof.
  induction q as [|e q IH]; simpl; [reflexivity|].
  destruct (cmp_item asc (snd e) (snd it)); simpl; [reflexivity|].
  rewrite IH. apply perm_swap.
Qed.

Definition q_step (asc : bool) (n : nat) (q : list qitem) (it : qitem) : list qitem :=
  firstn n (q_insert asc q it).
Definition q_run (asc : bool) (n : nat) (its : list qitem) : list qitem :=
  fold_left (q_step asc n) its [].

Lemma sorted_firstn {A} (R : A -> A -> Prop) n l : StronglySorted R l -> StronglySorted R (firstn n l).
Proof.
  revert n; induction l as [|x l IH]; intros [|n] Hs; simpl; try constructor.
  - inversion Hs; subst; auto.
  - inversion Hs as [|? ? _ Hall]; subst. rewrite Forall_forall in *. intros y Hy.
    apply Hall. revert Hy. clear. revert n; induction l as [|z l IH]; intros [|n]; simpl; try tauto.
    intros [->|H]; eauto.
Qed.

Lemma In_firstn {A} n (l : list A) x : In x (firstn n l) -> In x l.
Proof. revert n; induction l as [|z l IH]; intros [|n]; simpl; try tauto. intros [->|H]; eauto. Qed.

Lemma In_skipn {A} n (l : list A) x : In x (skipn n l) -> In x l.
Proof. revert n; induction l as [|z l IH]; intros [|n]; simpl; try tauto. intros H; eauto. Qed.

Lemma sorted_split {A} (R : A -> A -> Prop) n l x y :
  StronglySorted R l -> In x (firstn n l) -> In y (skipn n l) -> R x y.
Proof.
  revert n; induction l as [|z l IH]; intros [|n] Hs; simpl; try tauto.
  inversion Hs as [|? ? Hs' Hall]; subst. rewrite Forall_forall in Hall.
  intros [->|Hx] Hy; [apply Hall; eapply In_skipn; eauto|eauto].
Qed.

Lemma q_split asc n l (x y : qitem) :
  qsorted asc l -> In x (firstn n l) -> In y (skipn n l) -> geb asc (snd x) (snd y) = true.
Proof. intros Hs. exact (sorted_split _ n l x y Hs). Qed.

Lemma In_firstn_skipn {A} n (l : list A) x : In x l -> In x (firstn n l) \/ In x (skipn n l).
Proof. intros H. rewrite <- (firstn_skipn n l) in H. apply in_app_or in H. exact H. Qed.

Lemma qitem_eq_dec (a b : qitem) : {a = b} + {a <> b}.
Proof. decide equality; [decide equality; apply list_eq_dec, N.eq_dec | apply list_eq_dec, N.eq_dec]. Qed.

Lemma NoDup_firstn_skipn {A} n (l : list A) x : NoDup l -> In x (firstn n l) -> In x (skipn n l) -> False.
Proof.
  intros Hnd H1 H2. rewrite <- (firstn_skipn n l) in Hnd.
  revert Hnd H1 H2. generalize (firstn n l) (skipn n l). intros l1 l2.
  induction l1 as [|a l1 IH]; simpl; [tauto|].
  intros Hnd [->|H1] H2; inversion Hnd as [|? ? Hnot Hnd']; subst.
  - apply Hnot. apply in_or_app; auto.
  - eauto.
Qed.

Lemma NoDup_app_l {A} (l1 l2 : list A) : NoDup (l1 ++ l2) -> NoDup l1.
Proof.
  induction l1 as [|a l1 IH]; simpl; intros H; [constructor|].
  inversion H as [|? ? Hnot Hnd]; subst. constructor; auto.
  intros Hin. apply Hnot. apply in_or_app; auto.
Qed.

Lemma NoDup_map_fst {A B} (l : list (A * B)) : NoDup (map fst l) -> NoDup l.
Proof.
  induction l as [|a l IH]; simpl; intros H; constructor; inversion H as [|? ? Hnot Hnd']; subst; auto.
  intros Hin. apply Hnot. now apply in_map.
Qed.

Lemma min_step n k : Nat.min n (S (Nat.min n k)) = Nat.min n (k + 1).
Proof.
  destruct (Nat.le_ge_cases n k) as [H|H].
  - rewrite (Nat.min_l n k) by exact H. rewrite !Nat.min_l by lia. reflexivity.
  - rewrite (Nat.min_r n k) by exact H. f_equal. lia.
Qed.

(* invariant of the queue over all arrivals seen so far *)
Record q_inv (asc : bool) (n : nat) (seen q : list qitem) : Prop := {
  qi_sorted : qsorted asc q;
  qi_incl : incl q seen;
  qi_nodup : NoDup (map fst q);
  qi_len : length q = Nat.min n (length seen);
  qi_all : (length seen <= n)%nat -> incl seen q;
  qi_best : forall x y, In x q -> In y seen -> ~ In y q -> geb asc (snd x) (snd y) = true
}.

Lemma q_inv_nil asc n : q_inv asc n [] [].
Proof.
  split; simpl.
  - constructor.
  - intros ? [].
  - constructor.
  - now destruct n.
  - intros _ ? [].
  - intros ? ? [].
Qed.

Lemma q_step_inv asc n (seen q : list qitem) (it : qitem) :
  (0 < n)%nat -> NoDup (map fst (seen ++ [it])) ->
  q_inv asc n seen q -> q_inv asc n (seen ++ [it]) (q_step asc n q it).
Proof.
  intros Hn Hnd [Hs Hi Hndq Hl Ha Hb]. unfold q_step.
  pose proof (q_insert_sorted asc q it Hs) as Hs'.
  assert (~ In (fst it) (map fst q)) as Hfresh.
  { rewrite map_app in Hnd. simpl in Hnd. apply NoDup_remove_2 in Hnd. rewrite app_nil_r in Hnd.
    intros H. apply Hnd. apply in_map_iff in H as (e & He & Hin). apply in_map_iff. exists e. split; auto. }
  assert (NoDup (map fst (q_insert asc q it))) as Hndi.
  { eapply Permutation_NoDup; [symmetry; apply q_insert_fst|]. constructor; auto. }
  assert (NoDup (q_insert asc q it)) as Hndi' by now apply NoDup_map_fst.
  split.
  - now apply sorted_firstn.
  - intros x Hx. apply In_firstn in Hx. apply q_insert_In in Hx as [->|Hx]; apply in_or_app; simpl; auto.
  - rewrite <- (firstn_skipn n (q_insert asc q it)) in Hndi. rewrite map_app in Hndi.
    now apply NoDup_app_l in Hndi.
  - rewrite firstn_length, q_insert_length, app_length, Hl. cbn [length]. apply min_step.
  - rewrite app_length. simpl. intros Hle x Hx.
    rewrite firstn_all2; [|rewrite q_insert_length, Hl; rewrite Nat.min_r; unfold qitem in *; lia].
    apply q_insert_In. apply in_app_or in Hx as [Hx|[<-|[]]]; auto.
    right. apply Ha; [lia|auto].
  - intros x y Hx Hy Hny.
    assert (Hx' := In_firstn _ _ _ Hx).
    apply in_app_or in Hy as [Hy|[<-|[]]].
    + destruct (in_dec qitem_eq_dec y q) as [Hyq|Hyq].
      * assert (In y (q_insert asc q it)) as Hyi by (apply q_insert_In; auto).
        apply (In_firstn_skipn n) in Hyi as [?|Hyi]; [contradiction|].
        eapply (q_split asc n); eauto.
      * apply q_insert_In in Hx' as [->|Hxq]; [|now apply Hb].
        assert (length q = n) as Hfull.
        { destruct (Nat.le_gt_cases (length seen) n) as [Hle|Hlt]; [|lia].
          exfalso. apply Hyq. now apply Ha. }
        destruct (skipn n (q_insert asc q it)) as [|z zs] eqn:Esk.
        { exfalso. assert (length (skipn n (q_insert asc q it)) = 1%nat) as Hlen
            by (rewrite skipn_length, q_insert_length; lia).
          rewrite Esk in Hlen. discriminate. }
        assert (In z (skipn n (q_insert asc q it))) as Hz by (rewrite Esk; left; reflexivity).
        assert (geb asc (snd it) (snd z) = true) as H1 by (eapply (q_split asc n); eauto).
        assert (Hz' := In_skipn _ _ _ Hz). apply q_insert_In in Hz' as [->|Hzq].
        { exfalso. eapply NoDup_firstn_skipn; eauto. }
        eapply geb_trans; [exact H1|]. now apply Hb.
    + assert (In it (q_insert asc q it)) as Hyi by (apply q_insert_In; auto).
      apply (In_firstn_skipn n) in Hyi as [?|Hyi]; [contradiction|].
      eapply (q_split asc n); eauto.
Qed.

Lemma q_run_inv_gen asc n its : (0 < n)%nat ->
  forall seen q, NoDup (map fst (seen ++ its)) -> q_inv asc n seen q ->
  q_inv asc n (seen ++ its) (fold_left (q_step asc n) its q).
Proof.
  intros Hn. induction its as [|it its IH]; intros seen q Hnd Hinv; simpl.
  - now rewrite app_nil_r.
  - replace (seen ++ it :: its) with ((seen ++ [it]) ++ its) in * by (rewrite <- app_assoc; reflexivity).
    apply IH; [exact Hnd|]. apply q_step_inv; auto.
    rewrite map_app in Hnd. now apply NoDup_app_l in Hnd.
Qed.

Lemma q_run_inv asc n its : (0 < n)%nat -> NoDup (map fst its) -> q_inv asc n its (q_run asc n its).
Proof. intros Hn Hnd. apply (q_run_inv_gen asc n its Hn [] []); auto. apply q_inv_nil. Qed.

(* ---------------------------------------------------------------- sets stored in index order *)
Section SortedSet.
  Variable T : Type.
  Variable cmp : T -> T -> comparison.
  Hypothesis cmp_eq : forall a b, cmp a b = Eq -> a = b.
  Hypothesis cmp_refl : forall a, cmp a a = Eq.
  Hypothesis cmp_antisym : forall a b, cmp b a = CompOpp (cmp a b).
  Hypothesis cmp_trans : forall a b c, cmp a b = Lt -> cmp b c = Lt -> cmp a c = Lt.

  Definition slt (a b : T) : Prop := cmp a b = Lt.
  Definition ssorted : list T -> Prop := StronglySorted slt.

  Lemma slt_irrefl a : ~ slt a a.
  Proof. unfold slt. rewrite cmp_refl. discriminate. Qed.

  Lemma gins_In x l y : In y (gins cmp x l) <-> y = x \/ In y l.
  Proof.
    induction l as [|z l IH]; simpl; [intuition|].
    destruct (cmp x z) eqn:E; simpl.
    - apply cmp_eq in E; subst. intuition.
    - intuition.
    - rewrite IH. intuition.
  Qed.

  Lemma gins_sorted x l : ssorted l -> ssorted (gins cmp x l).
  Proof.
    unfold ssorted. induction l as [|z l IH]; intros Hs; simpl.
    - constructor; constructor.
    - inversion Hs as [|? ? Hs' Hall]; subst. destruct (cmp x z) eqn:E.
      + exact Hs.
      + constructor; [exact Hs|]. constructor; [exact E|].
        rewrite Forall_forall in *. intros y Hy. eapply cmp_trans; [exact E|]. now apply Hall.
      + constructor; [auto|]. rewrite Forall_forall in *. intros y Hy.
        apply gins_In in Hy as [->|Hy]; [|auto].
        unfold slt. rewrite (cmp_antisym x z), E. reflexivity.
  Qed.

  Lemma ssorted_ext l1 : forall l2,
    ssorted l1 -> ssorted l2 -> (forall x, In x l1 <-> In x l2) -> l1 = l2.
  Proof.
    unfold ssorted. induction l1 as [|a l1 IH]; intros [|b l2] H1 H2 Hext.
    - reflexivity.
    - exfalso. apply (proj2 (Hext b)). left; reflexivity.
    - exfalso. apply (proj1 (Hext a)). left; reflexivity.
    - inversion H1 as [|? ? H1' Ha]; inversion H2 as [|? ? H2' Hb]; subst.
      rewrite Forall_forall in Ha, Hb.
      assert (a = b) as ->.
      { destruct (proj1 (Hext a) (or_introl eq_refl)) as [->|Hin]; [reflexivity|].
        destruct (proj2 (Hext b) (or_introl eq_refl)) as [->|Hin']; [reflexivity|].
        exfalso. apply (slt_irrefl a). eapply cmp_trans; [apply Ha; exact Hin'|apply Hb; exact Hin]. }
      f_equal. apply IH; auto. intros x. split; intros Hx.
      + destruct (proj1 (Hext x) (or_intror Hx)) as [<-|?]; [|assumption].
        exfalso. apply (slt_irrefl b). now apply Ha.
      + destruct (proj2 (Hext x) (or_intror Hx)) as [<-|?]; [|assumption].
        exfalso. apply (slt_irrefl b). now apply Hb.
  Qed.

  Lemma ssorted_NoDup l : ssorted l -> NoDup l.
  Proof.
    unfold ssorted. induction l as [|a l IH]; intros Hs; constructor; inversion Hs as [|? ? Hs' Ha]; subst; auto.
    rewrite Forall_forall in Ha. intros Hin. apply (slt_irrefl a). now apply Ha.
  Qed.
End SortedSet.

Lemma sorted_filter {A} (R : A -> A -> Prop) (p : A -> bool) l :
  StronglySorted R l -> StronglySorted R (filter p l).
Proof.
  induction l as [|a l IH]; intros Hs; simpl; [constructor|].
  inversion Hs as [|? ? Hs' Ha]; subst. destruct (p a); auto.
  constructor; auto. rewrite Forall_forall in *. intros y Hy. apply filter_In in Hy as [Hy _]. auto.
Qed.

(* instances: build-ids … *)
Definition bsorted : list bid -> Prop := ssorted bid str_cmp.

Lemma ins_In x l y : In y (ins x l) <-> y = x \/ In y l.
Proof. apply gins_In. exact str_cmp_eq. Qed.

Lemma ins_sorted x l : bsorted l -> bsorted (ins x l).
Proof. apply gins_sorted; [exact str_cmp_eq|exact str_cmp_antisym|exact str_cmp_lt_trans]. Qed.

Lemma usort_In l y : In y (usort l) <-> In y l.
Proof.
  induction l as [|x l IH]; simpl; [tauto|].
  change (In y (ins x (usort l)) <-> x = y \/ In y l). rewrite ins_In, IH. intuition.
Qed.

Lemma usort_sorted l : bsorted (usort l).
Proof.
  induction l as [|x l IH]; simpl; [constructor|]. now apply ins_sorted.
Qed.

Lemma bsorted_ext l1 l2 : bsorted l1 -> bsorted l2 -> (forall x, In x l1 <-> In x l2) -> l1 = l2.
Proof. apply ssorted_ext; [exact str_cmp_refl|exact str_cmp_lt_trans]. Qed.

Lemma usort_ext l1 l2 : (forall x, In x l1 <-> In x l2) -> usort l1 = usort l2.
Proof.
  intros H. apply bsorted_ext; try apply usort_sorted. intros x. rewrite !usort_In. apply H.
Qed.

(* … and (bid, ref) pairs *)
Lemma ref_cmp_eq a b : ref_cmp a b = Eq -> a = b.
Proof.
  unfold ref_cmp. destruct a as [a1 a2], b as [b1 b2]; simpl.
  destruct (str_cmp a1 b1) eqn:E; try discriminate.
  intros H. apply str_cmp_eq in E, H. congruence.
Qed.

Lemma ref_cmp_refl a : ref_cmp a a = Eq.
Proof. unfold ref_cmp. now rewrite !str_cmp_refl. Qed.

Lemma ref_cmp_antisym a b : ref_cmp b a = CompOpp (ref_cmp a b).
Proof.
  unfold ref_cmp. rewrite (str_cmp_antisym (fst a) (fst b)).
  destruct (str_cmp (fst a) (fst b)); simpl; auto. apply str_cmp_antisym.
Qed.

Lemma ref_cmp_trans a b c : ref_cmp a b = Lt -> ref_cmp b c = Lt -> ref_cmp a c = Lt.
Proof.
  unfold ref_cmp.
  destruct (str_cmp (fst a) (fst b)) eqn:E1; try discriminate;
  destruct (str_cmp (fst b) (fst c)) eqn:E2; try discriminate; intros H1 H2.
  - apply str_cmp_eq in E1, E2. rewrite E1, E2, str_cmp_refl. eapply str_cmp_lt_trans; eauto.
  - apply str_cmp_eq in E1. rewrite E1, E2. reflexivity.
  - apply str_cmp_eq in E2. rewrite <- E2, E1. reflexivity.
  - now rewrite (str_cmp_lt_trans _ _ _ E1 E2).
Qed.

Definition rsorted : list (bid * bid) -> Prop := ssorted (bid * bid) ref_cmp.

Lemma rins_In x l y : In y (gins ref_cmp x l) <-> y = x \/ In y l.
Proof. apply gins_In. exact ref_cmp_eq. Qed.

Lemma rins_sorted x l : rsorted l -> rsorted (gins ref_cmp x l).
Proof. apply gins_sorted; [exact ref_cmp_eq|exact ref_cmp_antisym|exact ref_cmp_trans]. Qed.

Lemma rsorted_ext l1 l2 : rsorted l1 -> rsorted l2 -> (forall x, In x l1 <-> In x l2) -> l1 = l2.
Proof. apply ssorted_ext; [exact ref_cmp_refl|exact ref_cmp_trans]. Qed.

Lemma add_refs_In b rs t p : In p (add_refs b rs t) <-> (fst p = b /\ In (snd p) rs) \/ In p t.
Proof.
  unfold add_refs. induction rs as [|r rs IH]; simpl; [intuition|].
  rewrite rins_In, IH. destruct p as [p1 p2]; simpl. split.
  - intros [H|[[H1 H2]|H]]; [inversion H; subst; auto| auto | auto].
  - intros [[H1 [H2|H2]]|H]; subst; auto.
Qed.

Lemma add_refs_sorted b rs t : rsorted t -> rsorted (add_refs b rs t).
Proof. unfold add_refs. induction rs as [|r rs IH]; simpl; auto. intros H. now apply rins_sorted, IH. Qed.

(* ---------------------------------------------------------------- the files table (rows keyed by bid) *)
Definition row_lt (a b : row) : Prop := str_cmp (fst a) (fst b) = Lt.
Definition rows_sorted : list row -> Prop := StronglySorted row_lt.

Lemma find_row_ins_row x l b :
  find_row b (ins_row x l) = if str_eqb b (fst x) then Some (snd x) else find_row b l.
Proof.
  induction l as [|y r IH]; simpl; [reflexivity|].
  destruct (str_cmp (fst x) (fst y)) eqn:E; simpl.
  - apply str_cmp_eq in E. rewrite <- E. destruct (str_eqb b (fst x)) eqn:E1; reflexivity.
  - reflexivity.
  - rewrite IH. destruct (str_eqb b (fst y)) eqn:E1; destruct (str_eqb b (fst x)) eqn:E2; try reflexivity.
    apply str_eqb_eq in E1, E2. rewrite <- E1, <- E2, str_cmp_refl in E. discriminate.
Qed.

Lemma find_row_filter b0 l b :
  find_row b (filter (fun y : row => negb (str_eqb b0 (fst y))) l) =
  if str_eqb b b0 then None else find_row b l.
Proof.
  induction l as [|y r IH]; simpl; [now destruct (str_eqb b b0)|].
  destruct (str_eqb b0 (fst y)) eqn:E; simpl.
  - rewrite IH. apply str_eqb_eq in E. subst b0. destruct (str_eqb b (fst y)); reflexivity.
  - rewrite IH. destruct (str_eqb b (fst y)) eqn:E1; [|reflexivity].
    apply str_eqb_eq in E1. subst b. rewrite str_eqb_sym, E. reflexivity.
Qed.

Lemma ins_row_keys x l y : In y (map fst (ins_row x l)) <-> y = fst x \/ In y (map fst l).
Proof.
  induction l as [|z l IH]; simpl; [intuition|].
  destruct (str_cmp (fst x) (fst z)) eqn:E; simpl.
  - apply str_cmp_eq in E. rewrite <- E. intuition.
  - intuition.
  - rewrite IH. intuition.
Qed.

Lemma ins_row_sorted x l : rows_sorted l -> rows_sorted (ins_row x l).
Proof.
  unfold rows_sorted. induction l as [|z l IH]; intros Hs; simpl.
  - constructor; constructor.
  - inversion Hs as [|? ? Hs' Hall]; subst. destruct (str_cmp (fst x) (fst z)) eqn:E.
    + constructor; [exact Hs'|]. apply str_cmp_eq in E. unfold row_lt in *. rewrite E. exact Hall.
    + constructor; [exact Hs|]. constructor; [exact E|].
      rewrite Forall_forall in *. intros y Hy. unfold row_lt in *. eapply str_cmp_lt_trans; [exact E|]. now apply Hall.
    + constructor; [auto|]. rewrite Forall_forall in *. intros y Hy.
      assert (In (fst y) (map fst (ins_row x l))) as Hk by now apply in_map.
      apply ins_row_keys in Hk as [Hk|Hk].
      * unfold row_lt. rewrite Hk. now apply str_cmp_gt_lt.
      * apply in_map_iff in Hk as (w & Hw & Hin). unfold row_lt. rewrite <- Hw. now apply Hall.
Qed.

Lemma find_row_Some_In b l v : find_row b l = Some v -> In (b, v) l.
Proof.
  induction l as [|y r IH]; simpl; [discriminate|].
  destruct (str_eqb b (fst y)) eqn:E.
  - apply str_eqb_eq in E. intros H. inversion H; subst. left. now destruct y.
  - auto.
Qed.

Lemma find_row_None b l : find_row b l = None <-> ~ In b (map fst l).
Proof.
  induction l as [|y r IH]; simpl; [tauto|].
  destruct (str_eqb b (fst y)) eqn:E.
  - apply str_eqb_eq in E. split; [discriminate|]. intros H. exfalso. apply H. auto.
  - apply str_eqb_neq in E. rewrite IH. intuition.
Qed.

Lemma rows_sorted_head_absent a l : rows_sorted (a :: l) -> find_row (fst a) l = None.
Proof.
  intros Hs. inversion Hs as [|? ? _ Hall]; subst. apply find_row_None.
  rewrite Forall_forall in Hall. intros Hin. apply in_map_iff in Hin as (w & Hw & Hin).
  specialize (Hall _ Hin). unfold row_lt in Hall. rewrite Hw, str_cmp_refl in Hall. discriminate.
Qed.

Lemma rows_ext l1 : forall l2,
  rows_sorted l1 -> rows_sorted l2 -> (forall b, find_row b l1 = find_row b l2) -> l1 = l2.
Proof.
  induction l1 as [|a l1 IH]; intros [|c l2] H1 H2 Hext.
  - reflexivity.
  - specialize (Hext (fst c)). simpl in Hext. rewrite str_eqb_refl in Hext. discriminate.
  - specialize (Hext (fst a)). simpl in Hext. rewrite str_eqb_refl in Hext. discriminate.
  - pose proof (rows_sorted_head_absent _ _ H1) as Ha. pose proof (rows_sorted_head_absent _ _ H2) as Hc.
    assert (fst a = fst c) as Hk.
    { pose proof (Hext (fst a)) as E1. pose proof (Hext (fst c)) as E2. simpl in E1, E2.
      rewrite str_eqb_refl in E1, E2.
      destruct (str_eqb (fst a) (fst c)) eqn:E; [now apply str_eqb_eq in E|].
      rewrite str_eqb_sym, E in E2.
      symmetry in E1. apply find_row_Some_In in E1, E2.
      inversion H1 as [|? ? _ Hall1]; inversion H2 as [|? ? _ Hall2]; subst.
      rewrite Forall_forall in Hall1, Hall2.
      specialize (Hall1 _ E2). specialize (Hall2 _ E1). unfold row_lt in *. simpl in *.
      pose proof (str_cmp_refl (fst a)) as R. rewrite (str_cmp_lt_trans _ _ _ Hall1 Hall2) in R. discriminate. }
    assert (a = c) as ->.
    { pose proof (Hext (fst a)) as E1. simpl in E1. rewrite str_eqb_refl, Hk, str_eqb_refl in E1.
      destruct a, c; simpl in *. congruence. }
    f_equal. inversion H1; inversion H2; subst. apply IH; auto.
    intros b. specialize (Hext b). simpl in Hext.
    destruct (str_eqb b (fst c)) eqn:E; [|exact Hext].
    apply str_eqb_eq in E. subst b. now rewrite Ha, Hc.
Qed.

Lemma rows_sorted_filter p l : rows_sorted l -> rows_sorted (filter p l).
Proof. apply sorted_filter. Qed.

Lemma rows_sorted_keys l : rows_sorted l -> bsorted (map fst l).
Proof.
  induction l as [|a l IH]; intros Hs; simpl; [constructor|].
  inversion Hs as [|? ? Hs' Hall]; subst. constructor; [now apply IH|].
  rewrite Forall_forall in *. intros y Hy. apply in_map_iff in Hy as (w & <- & Hin). now apply Hall.
Qed.

(* ---------------------------------------------------------------- second pass: the closure loop *)
Inductive reach (I : index) (S0 : list bid) : bid -> Prop :=
| reach_base b : In b S0 -> reach I S0 b
| reach_step a b : reach I S0 a -> In b (refs_of I a) -> reach I S0 b.

Lemma refs_of_In I a b : In b (refs_of I a) <-> In (a, b) (ix_refs I).
Proof.
  unfold refs_of. rewrite in_map_iff. split.
  - intros (p & Hp & Hin). apply filter_In in Hin as [Hin E]. apply str_eqb_eq in E.
    destruct p as [p1 p2]; simpl in *. now subst.
  - intros Hin. exists (a, b). split; [reflexivity|]. apply filter_In. split; [exact Hin|]. apply str_eqb_refl.
Qed.

Lemma close_correct I S0 fuel : forall ret todo R,
  close fuel I ret todo = Some R ->
  (forall x, In x ret \/ In x todo -> reach I S0 x) ->
  incl S0 ret ->
  (forall y z, In y ret -> In z (refs_of I y) -> In z ret \/ In z todo) ->
  forall x, In x R <-> reach I S0 x.
Proof.
  induction fuel as [|k IH]; intros ret todo R Hc Hsound Hbase Hclosed.
  - destruct todo as [|n rest]; [|discriminate]. simpl in Hc. inversion Hc; subst R. intros x. split.
    + intros Hx. apply Hsound. auto.
    + intros Hr. induction Hr as [b Hb|a b _ IHa Hab]; [now apply Hbase|].
      destruct (Hclosed _ _ IHa Hab) as [?|[]]; assumption.
  - destruct todo as [|n rest].
    + simpl in Hc. inversion Hc; subst R. intros x. split.
      * intros Hx. apply Hsound. auto.
      * intros Hr. induction Hr as [b Hb|a b _ IHa Hab]; [now apply Hbase|].
        destruct (Hclosed _ _ IHa Hab) as [?|[]]; assumption.
    + simpl in Hc. destruct (bmem n ret) eqn:E.
      * apply (IH ret rest R Hc); auto.
        -- intros x [Hx|Hx]; apply Hsound; simpl; auto.
        -- intros y z Hy Hz. destruct (Hclosed _ _ Hy Hz) as [?|[<-|?]]; auto.
           left. now apply bmem_In.
      * apply (IH (n :: ret) (refs_of I n ++ rest) R Hc).
        -- intros x [[<-|Hx]|Hx].
           ++ apply Hsound. simpl; auto.
           ++ apply Hsound. auto.
           ++ apply in_app_or in Hx as [Hx|Hx].
              ** eapply reach_step; [|exact Hx]. apply Hsound. simpl; auto.
              ** apply Hsound. simpl; auto.
        -- intros x Hx. right. now apply Hbase.
        -- intros y z [<-|Hy] Hz.
           ++ right. apply in_or_app. auto.
           ++ destruct (Hclosed _ _ Hy Hz) as [?|[<-|?]]; simpl; auto.
              right. apply in_or_app. auto.
Qed.

Lemma closure_correct I S0 R : closure I S0 = Some R -> forall x, In x R <-> reach I S0 x.
Proof.
  unfold closure. intros Hc. eapply close_correct; [exact Hc| | |].
  - intros x [Hx|Hx]; [now apply reach_base|].
    apply in_flat_map in Hx as (a & Ha & Hx). eapply reach_step; [apply reach_base; exact Ha|exact Hx].
  - apply incl_refl.
  - intros y z Hy Hz. right. apply in_flat_map. eauto.
Qed.

Definition unvisited (I : index) (ret : list bid) : list (bid * bid) :=
  filter (fun p => negb (bmem (fst p) ret)) (ix_refs I).

Lemma unvisited_step (l : list (bid * bid)) n ret : bmem n ret = false ->
  (length (filter (fun p : bid * bid => negb (str_eqb (fst p) n || bmem (fst p) ret)) l) +
   length (filter (fun p : bid * bid => str_eqb (fst p) n) l) =
   length (filter (fun p : bid * bid => negb (bmem (fst p) ret)) l))%nat.
Proof.
  intros Hn. induction l as [|p l IH]; simpl; [reflexivity|].
  destruct (str_eqb (fst p) n) eqn:E; simpl.
  - apply str_eqb_eq in E. rewrite E, Hn. simpl. lia.
  - destruct (bmem (fst p) ret); simpl; lia.
Qed.

Lemma close_fuel_enough I fuel : forall ret todo,
  (length todo + length (unvisited I ret) <= fuel)%nat -> close fuel I ret todo <> None.
Proof.
  induction fuel as [|k IH]; intros ret todo Hm.
  - destruct todo; [discriminate|]. simpl in Hm. lia.
  - destruct todo as [|n rest]; [discriminate|]. simpl. destruct (bmem n ret) eqn:E.
    + apply IH. simpl in Hm. lia.
    + apply IH. rewrite app_length. unfold refs_of. rewrite map_length.
      pose proof (unvisited_step (ix_refs I) n ret E) as Hs.
      unfold unvisited in *. cbn [bmem] in *. cbn [length] in Hm. unfold bid, str in *. lia.
Qed.

Lemma closure_fuel_enough_proof I S0 : closure I S0 <> None.
Proof.
  unfold closure, close_fuel. apply close_fuel_enough.
  unfold unvisited. pose proof (filter_length_le (fun p : bid * bid => negb (bmem (fst p) S0)) (ix_refs I)). unfold bid, str in *. lia.
Qed.
