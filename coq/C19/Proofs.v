(* C19 — lemmas about the archive model. *)
From Coq Require Import List NArith Arith Bool Lia Sorted Permutation.
Require Import BobV.Gen.ConstsC19 BobV.C19.Model.
Import ListNotations.
Open Scope N_scope.

(* ---------------------------------------------------------------- str_cmp *)
Lemma str_cmp_refl a : str_cmp a a = Eq.
Proof. induction a as [|x a IH]; simpl; [reflexivity|]. now rewrite N.compare_refl. Qed.

Lemma str_cmp_eq a b : str_cmp a b = Eq -> a = b.
Proof.
  revert b; induction a as [|x a IH]; intros [|y b]; simpl; try discriminate; [reflexivity|].
  destruct (x ?= y) eqn:E; try discriminate.
  apply N.compare_eq in E. intros H. apply IH in H. congruence.
Qed.

Lemma str_cmp_antisym a b : str_cmp b a = CompOpp (str_cmp a b).
Proof.
  revert b; induction a as [|x a IH]; intros [|y b]; simpl; try reflexivity.
  rewrite (N.compare_antisym x y). destruct (x ?= y); simpl; auto.
Qed.

Lemma str_cmp_lt_trans a b c : str_cmp a b = Lt -> str_cmp b c = Lt -> str_cmp a c = Lt.
Proof.
  revert b c; induction a as [|x a IH]; intros [|y b] [|z c]; simpl; try discriminate; try reflexivity.
  destruct (x ?= y) eqn:E1; try discriminate.
  - apply N.compare_eq in E1; subst y. destruct (x ?= z) eqn:E2; try discriminate; auto.
    intros; eapply IH; eauto.
  - intros _. destruct (y ?= z) eqn:E2; try discriminate.
    + apply N.compare_eq in E2; subst z. now rewrite E1.
    + intros _. assert (x ?= z = Lt) as ->; [|reflexivity].
      apply N.compare_lt_iff. apply N.compare_lt_iff in E1. apply N.compare_lt_iff in E2. eapply N.lt_trans; eauto.
Qed.

Lemma str_cmp_gt_lt a b : str_cmp a b = Gt <-> str_cmp b a = Lt.
Proof. rewrite (str_cmp_antisym a b). destruct (str_cmp a b); simpl; split; congruence. Qed.

Lemma str_eqb_eq a b : str_eqb a b = true <-> a = b.
Proof.
  unfold str_eqb. split.
  - destruct (str_cmp a b) eqn:E; try discriminate. intros _. now apply str_cmp_eq.
  - intros ->. now rewrite str_cmp_refl.
Qed.

Lemma str_eqb_refl a : str_eqb a a = true.
Proof. now apply str_eqb_eq. Qed.

Lemma str_eqb_neq a b : str_eqb a b = false <-> a <> b.
Proof. rewrite <- str_eqb_eq. destruct (str_eqb a b); split; congruence. Qed.

Lemma str_eqb_sym a b : str_eqb a b = str_eqb b a.
Proof.
  destruct (str_eqb a b) eqn:E.
  - apply str_eqb_eq in E; subst. now rewrite str_eqb_refl.
  - symmetry. apply str_eqb_neq. apply str_eqb_neq in E. congruence.
Qed.

Lemma str_leb_refl a : str_leb a a = true.
Proof. unfold str_leb. now rewrite str_cmp_refl. Qed.

Lemma str_leb_total a b : str_leb a b = true \/ str_leb b a = true.
Proof.
  unfold str_leb. rewrite (str_cmp_antisym a b). destruct (str_cmp a b); simpl; auto.
Qed.

Lemma str_leb_trans a b c : str_leb a b = true -> str_leb b c = true -> str_leb a c = true.
Proof.
  unfold str_leb.
  destruct (str_cmp a b) eqn:E1; try discriminate; intros _;
  destruct (str_cmp b c) eqn:E2; try discriminate; intros _.
  - apply str_cmp_eq in E1; subst. now rewrite E2.
  - apply str_cmp_eq in E1; subst. now rewrite E2.
  - apply str_cmp_eq in E2; subst. now rewrite E1.
  - now rewrite (str_cmp_lt_trans _ _ _ E1 E2).
Qed.

Lemma str_leb_antisym a b : str_leb a b = true -> str_leb b a = true -> a = b.
Proof.
  unfold str_leb. rewrite (str_cmp_antisym a b).
  destruct (str_cmp a b) eqn:E; simpl; try discriminate; intros; now apply str_cmp_eq.
Qed.

Lemma str_ltb_leb a b : str_ltb a b = negb (str_leb b a).
Proof. unfold str_ltb, str_leb. rewrite (str_cmp_antisym a b). destruct (str_cmp a b); reflexivity. Qed.

Lemma bmem_In b l : bmem b l = true <-> In b l.
Proof.
  induction l as [|x l IH]; simpl; [split; [discriminate|tauto]|].
  rewrite orb_true_iff, str_eqb_eq, IH. split; intros [H|H]; auto.
Qed.

Lemma bmem_false b l : bmem b l = false <-> ~ In b l.
Proof. rewrite <- bmem_In. destruct (bmem b l); split; congruence. Qed.

(* ---------------------------------------------------------------- the LIMIT queue *)

Lemma geb_refl asc a : geb asc a a = true.
Proof. destruct a; simpl; auto. destruct asc; apply str_leb_refl. Qed.

Lemma geb_total asc a b : geb asc a b = true \/ geb asc b a = true.
Proof. destruct a, b; simpl; auto. destruct asc; apply str_leb_total. Qed.

Lemma geb_trans asc a b c : geb asc a b = true -> geb asc b c = true -> geb asc a c = true.
Proof.
  destruct a, b, c; simpl; auto; try discriminate.
  destruct asc; intros; eapply str_leb_trans; eauto.
Qed.

Lemma cmp_item_geb asc e n :
  cmp_item asc e n = match n with None => false | Some _ => geb asc n e end.
Proof. destruct n, e; reflexivity. Qed.

Definition qsorted (asc : bool) : list qitem -> Prop :=
  StronglySorted (fun a b => geb asc (snd a) (snd b) = true).

Lemma q_insert_In asc q it x : In x (q_insert asc q it) <-> x = it \/ In x q.
Proof.
  induction q as [|e q IH]; simpl; [intuition|].
  destruct (cmp_item asc (snd e) (snd it)); simpl; [intuition|].
  rewrite IH. intuition.
Qed.

Lemma q_insert_length asc q it : length (q_insert asc q it) = S (length q).
Proof.
  induction q as [|e q IH]; simpl; [reflexivity|].
  destruct (cmp_item asc (snd e) (snd it)); simpl; auto.
Qed.

Lemma q_insert_sorted asc q it : qsorted asc q -> qsorted asc (q_insert asc q it).
Proof.
  unfold qsorted. induction q as [|e q IH]; intros Hs; simpl.
  - constructor; [constructor|constructor].
  - inversion Hs as [|? ? Hs' Hall]; subst.
    destruct (cmp_item asc (snd e) (snd it)) eqn:E.
    + rewrite cmp_item_geb in E. destruct (snd it) as [k|] eqn:Ek; [|discriminate].
      constructor; [exact Hs|].
      constructor; [now rewrite Ek|].
      rewrite Forall_forall in *. intros y Hy. rewrite Ek. eapply geb_trans; eauto.
    + constructor; [auto|].
      rewrite Forall_forall in *. intros y Hy. apply q_insert_In in Hy as [->|Hy]; [|auto].
      rewrite cmp_item_geb in E. destruct (snd it) as [k|] eqn:Ek.
      * destruct (geb_total asc (snd e) (Some k)) as [H|H]; [exact H|congruence].
      * now destruct (snd e).
Qed.

Lemma q_insert_fst asc q it : Permutation (map fst (q_insert asc q it)) (fst it :: map fst q).
Proof.
  induction q as [|e q IH]; simpl; [reflexivity|].
  destruct (cmp_item asc (snd e) (snd it)); simpl; [reflexivity|].
  rewrite IH. apply perm_swap.
Qed.


Lemma sorted_firstn {A} (R : A -> A -> Prop) n l : StronglySorted R l -> StronglySorted R (firstn n l).
Proof.
  revert n; induction l as [|x l IH]; intros [|n] Hs; simpl; try constructor.
  - inversion Hs; subst; auto.
  - inversion Hs as [|? ? _ Hall]; subst. rewrite Forall_forall in *. intros y Hy.
    apply Hall. revert Hy. clear. revert n; induction l as [|z l IH]; intros [|n]; simpl; try tauto.
    intros [->|H]; eauto.
Qed.

Lemma In_firstn {A} n (l : list A) x : In x (firstn n l) -> In x l.
Proof. revert n; induction l as [|z l IH]; intros [|n]; simpl; try tauto. intros [->|H]; eauto. Qed.

Lemma In_skipn {A} n (l : list A) x : In x (skipn n l) -> In x l.
Proof. revert n; induction l as [|z l IH]; intros [|n]; simpl; try tauto. intros H; eauto. Qed.

Lemma sorted_split {A} (R : A -> A -> Prop) n l x y :
  StronglySorted R l -> In x (firstn n l) -> In y (skipn n l) -> R x y.
Proof.
  revert n; induction l as [|z l IH]; intros [|n] Hs; simpl; try tauto.
  inversion Hs as [|? ? Hs' Hall]; subst. rewrite Forall_forall in Hall.
  intros [->|Hx] Hy; [apply Hall; eapply In_skipn; eauto|eauto].
Qed.

Lemma q_split asc n l (x y : qitem) :
  qsorted asc l -> In x (firstn n l) -> In y (skipn n l) -> geb asc (snd x) (snd y) = true.
Proof. intros Hs. exact (sorted_split _ n l x y Hs). Qed.

Lemma In_firstn_skipn {A} n (l : list A) x : In x l -> In x (firstn n l) \/ In x (skipn n l).
Proof. intros H. rewrite <- (firstn_skipn n l) in H. apply in_app_or in H. exact H. Qed.

Lemma qitem_eq_dec (a b : qitem) : {a = b} + {a <> b}.
Proof. decide equality; [decide equality; apply list_eq_dec, N.eq_dec | apply list_eq_dec, N.eq_dec]. Qed.

Lemma NoDup_app_disjoint {A} (l1 l2 : list A) x : NoDup (l1 ++ l2) -> In x l1 -> In x l2 -> False.
Proof.
  induction l1 as [|a l1 IH]; simpl; [tauto|].
  intros Hnd [->|H1] H2; inversion Hnd as [|? ? Hnot Hnd']; subst.
  - apply Hnot. apply in_or_app; auto.
  - eauto.
Qed.

Lemma NoDup_firstn_skipn {A} n (l : list A) x : NoDup l -> In x (firstn n l) -> In x (skipn n l) -> False.
Proof.
  intros Hnd H1 H2. rewrite <- (firstn_skipn n l) in Hnd. eapply NoDup_app_disjoint; eauto.
Qed.

Lemma NoDup_app_l {A} (l1 l2 : list A) : NoDup (l1 ++ l2) -> NoDup l1.
Proof.
  induction l1 as [|a l1 IH]; simpl; intros H; [constructor|].
  inversion H as [|? ? Hnot Hnd]; subst. constructor; auto.
  intros Hin. apply Hnot. apply in_or_app; auto.
Qed.

Lemma NoDup_map_fst {A B} (l : list (A * B)) : NoDup (map fst l) -> NoDup l.
Proof.
  induction l as [|a l IH]; simpl; intros H; constructor; inversion H as [|? ? Hnot Hnd']; subst; auto.
  intros Hin. apply Hnot. now apply in_map.
Qed.

Lemma min_step n k : Nat.min n (S (Nat.min n k)) = Nat.min n (k + 1).
Proof.
  destruct (Nat.le_ge_cases n k) as [H|H].
  - rewrite (Nat.min_l n k) by exact H. rewrite !Nat.min_l by lia. reflexivity.
  - rewrite (Nat.min_r n k) by exact H. f_equal. lia.
Qed.

(* invariant of the queue over all arrivals seen so far *)
Record q_inv (asc : bool) (n : nat) (seen q : list qitem) : Prop := {
  qi_sorted : qsorted asc q;
  qi_incl : incl q seen;
  qi_nodup : NoDup (map fst q);
  qi_len : length q = Nat.min n (length seen);
  qi_all : (length seen <= n)%nat -> incl seen q;
  qi_best : forall x y, In x q -> In y seen -> ~ In y q -> geb asc (snd x) (snd y) = true
}.

Lemma q_inv_nil asc n : q_inv asc n [] [].
Proof.
  split; simpl.
  - constructor.
  - intros ? [].
  - constructor.
  - now destruct n.
  - intros _ ? [].
  - intros ? ? [].
Qed.

Lemma q_step_inv asc n (seen q : list qitem) (it : qitem) :
  (0 < n)%nat -> NoDup (map fst (seen ++ [it])) ->
  q_inv asc n seen q -> q_inv asc n (seen ++ [it]) (q_step asc n q it).
Proof.
  intros Hn Hnd [Hs Hi Hndq Hl Ha Hb]. unfold q_step.
  pose proof (q_insert_sorted asc q it Hs) as Hs'.
  assert (~ In (fst it) (map fst q)) as Hfresh.
  { rewrite map_app in Hnd. simpl in Hnd. apply NoDup_remove_2 in Hnd. rewrite app_nil_r in Hnd.
    intros H. apply Hnd. apply in_map_iff in H as (e & He & Hin). apply in_map_iff. exists e. split; auto. }
  assert (NoDup (map fst (q_insert asc q it))) as Hndi.
  { eapply Permutation_NoDup; [symmetry; apply q_insert_fst|]. constructor; auto. }
  assert (NoDup (q_insert asc q it)) as Hndi' by now apply NoDup_map_fst.
  split.
  - now apply sorted_firstn.
  - intros x Hx. apply In_firstn in Hx. apply q_insert_In in Hx as [->|Hx]; apply in_or_app; simpl; auto.
  - rewrite <- (firstn_skipn n (q_insert asc q it)) in Hndi. rewrite map_app in Hndi.
    now apply NoDup_app_l in Hndi.
  - rewrite firstn_length, q_insert_length, app_length, Hl. cbn [length]. apply min_step.
  - rewrite app_length. simpl. intros Hle x Hx.
    rewrite firstn_all2; [|rewrite q_insert_length, Hl; rewrite Nat.min_r; unfold qitem in *; lia].
    apply q_insert_In. apply in_app_or in Hx as [Hx|[<-|[]]]; auto.
    right. apply Ha; [lia|auto].
  - intros x y Hx Hy Hny.
    assert (Hx' := In_firstn _ _ _ Hx).
    apply in_app_or in Hy as [Hy|[<-|[]]].
    + destruct (in_dec qitem_eq_dec y q) as [Hyq|Hyq].
      * assert (In y (q_insert asc q it)) as Hyi by (apply q_insert_In; auto).
        apply (In_firstn_skipn n) in Hyi as [?|Hyi]; [contradiction|].
        eapply (q_split asc n); eauto.
      * apply q_insert_In in Hx' as [->|Hxq]; [|now apply Hb].
        assert (length q = n) as Hfull.
        { destruct (Nat.le_gt_cases (length seen) n) as [Hle|Hlt]; [|lia].
          exfalso. apply Hyq. now apply Ha. }
        destruct (skipn n (q_insert asc q it)) as [|z zs] eqn:Esk.
        { exfalso. assert (length (skipn n (q_insert asc q it)) = 1%nat) as Hlen
            by (rewrite skipn_length, q_insert_length; lia).
          rewrite Esk in Hlen. discriminate. }
        assert (In z (skipn n (q_insert asc q it))) as Hz by (rewrite Esk; left; reflexivity).
        assert (geb asc (snd it) (snd z) = true) as H1 by (eapply (q_split asc n); eauto).
        assert (Hz' := In_skipn _ _ _ Hz). apply q_insert_In in Hz' as [->|Hzq].
        { exfalso. eapply NoDup_firstn_skipn; eauto. }
        eapply geb_trans; [exact H1|]. now apply Hb.
    + assert (In it (q_insert asc q it)) as Hyi by (apply q_insert_In; auto).
      apply (In_firstn_skipn n) in Hyi as [?|Hyi]; [contradiction|].
      eapply (q_split asc n); eauto.
Qed.

Lemma q_run_inv_gen asc n its : (0 < n)%nat ->
  forall seen q, NoDup (map fst (seen ++ its)) -> q_inv asc n seen q ->
  q_inv asc n (seen ++ its) (fold_left (q_step asc n) its q).
Proof.
  intros Hn. induction its as [|it its IH]; intros seen q Hnd Hinv; simpl.
  - now rewrite app_nil_r.
  - replace (seen ++ it :: its) with ((seen ++ [it]) ++ its) in * by (rewrite <- app_assoc; reflexivity).
    apply IH; [exact Hnd|]. apply q_step_inv; auto.
    rewrite map_app in Hnd. now apply NoDup_app_l in Hnd.
Qed.

Lemma q_run_inv asc n its : (0 < n)%nat -> NoDup (map fst its) -> q_inv asc n its (q_run asc n its).
Proof. intros Hn Hnd. apply (q_run_inv_gen asc n its Hn [] []); auto. apply q_inv_nil. Qed.

(* ---------------------------------------------------------------- sets stored in index order *)
Section SortedSet.
  Variable T : Type.
  Variable cmp : T -> T -> comparison.
  Hypothesis cmp_eq : forall a b, cmp a b = Eq -> a = b.
  Hypothesis cmp_refl : forall a, cmp a a = Eq.
  Hypothesis cmp_antisym : forall a b, cmp b a = CompOpp (cmp a b).
  Hypothesis cmp_trans : forall a b c, cmp a b = Lt -> cmp b c = Lt -> cmp a c = Lt.

  Definition slt (a b : T) : Prop := cmp a b = Lt.
  Definition ssorted : list T -> Prop := StronglySorted slt.

  Lemma slt_irrefl a : ~ slt a a.
  Proof. unfold slt. rewrite cmp_refl. discriminate. Qed.

  Lemma gins_In x l y : In y (gins cmp x l) <-> y = x \/ In y l.
  Proof.
    induction l as [|z l IH]; simpl; [intuition|].
    destruct (cmp x z) eqn:E; simpl.
    - apply cmp_eq in E; subst. intuition.
    - intuition.
    - rewrite IH. intuition.
  Qed.

  Lemma gins_sorted x l : ssorted l -> ssorted (gins cmp x l).
  Proof.
    unfold ssorted. induction l as [|z l IH]; intros Hs; simpl.
    - constructor; constructor.
    - inversion Hs as [|? ? Hs' Hall]; subst. destruct (cmp x z) eqn:E.
      + exact Hs.
      + constructor; [exact Hs|]. constructor; [exact E|].
        rewrite Forall_forall in *. intros y Hy. eapply cmp_trans; [exact E|]. now apply Hall.
      + constructor; [auto|]. rewrite Forall_forall in *. intros y Hy.
        apply gins_In in Hy as [->|Hy]; [|auto].
        unfold slt. rewrite (cmp_antisym x z), E. reflexivity.
  Qed.

  Lemma ssorted_ext l1 : forall l2,
    ssorted l1 -> ssorted l2 -> (forall x, In x l1 <-> In x l2) -> l1 = l2.
  Proof.
    unfold ssorted. induction l1 as [|a l1 IH]; intros [|b l2] H1 H2 Hext.
    - reflexivity.
    - exfalso. apply (proj2 (Hext b)). left; reflexivity.
    - exfalso. apply (proj1 (Hext a)). left; reflexivity.
    - inversion H1 as [|? ? H1' Ha]; inversion H2 as [|? ? H2' Hb]; subst.
      rewrite Forall_forall in Ha, Hb.
      assert (a = b) as ->.
      { destruct (proj1 (Hext a) (or_introl eq_refl)) as [->|Hin]; [reflexivity|].
        destruct (proj2 (Hext b) (or_introl eq_refl)) as [->|Hin']; [reflexivity|].
        exfalso. apply (slt_irrefl a). eapply cmp_trans; [apply Ha; exact Hin'|apply Hb; exact Hin]. }
      f_equal. apply IH; auto. intros x. split; intros Hx.
      + destruct (proj1 (Hext x) (or_intror Hx)) as [<-|?]; [|assumption].
        exfalso. apply (slt_irrefl b). now apply Ha.
      + destruct (proj2 (Hext x) (or_intror Hx)) as [<-|?]; [|assumption].
        exfalso. apply (slt_irrefl b). now apply Hb.
  Qed.

  Lemma ssorted_NoDup l : ssorted l -> NoDup l.
  Proof.
    unfold ssorted. induction l as [|a l IH]; intros Hs; constructor; inversion Hs as [|? ? Hs' Ha]; subst; auto.
    rewrite Forall_forall in Ha. intros Hin. apply (slt_irrefl a). now apply Ha.
  Qed.
End SortedSet.

Lemma sorted_filter {A} (R : A -> A -> Prop) (p : A -> bool) l :
  StronglySorted R l -> StronglySorted R (filter p l).
Proof.
  induction l as [|a l IH]; intros Hs; simpl; [constructor|].
  inversion Hs as [|? ? Hs' Ha]; subst. destruct (p a); auto.
  constructor; auto. rewrite Forall_forall in *. intros y Hy. apply filter_In in Hy as [Hy _]. auto.
Qed.

(* instances: build-ids … *)
Definition bsorted : list bid -> Prop := ssorted bid str_cmp.

Lemma ins_In x l y : In y (ins x l) <-> y = x \/ In y l.
Proof. apply gins_In. exact str_cmp_eq. Qed.

Lemma ins_sorted x l : bsorted l -> bsorted (ins x l).
Proof. apply gins_sorted; [exact str_cmp_eq|exact str_cmp_antisym|exact str_cmp_lt_trans]. Qed.

Lemma usort_In l y : In y (usort l) <-> In y l.
Proof.
  induction l as [|x l IH]; simpl; [tauto|].
  change (In y (ins x (usort l)) <-> x = y \/ In y l). rewrite ins_In, IH. intuition.
Qed.

Lemma usort_sorted l : bsorted (usort l).
Proof.
  induction l as [|x l IH]; simpl; [constructor|]. now apply ins_sorted.
Qed.

Lemma bsorted_ext l1 l2 : bsorted l1 -> bsorted l2 -> (forall x, In x l1 <-> In x l2) -> l1 = l2.
Proof. apply ssorted_ext; [exact str_cmp_refl|exact str_cmp_lt_trans]. Qed.

Lemma usort_ext l1 l2 : (forall x, In x l1 <-> In x l2) -> usort l1 = usort l2.
Proof.
  intros H. apply bsorted_ext; try apply usort_sorted. intros x. rewrite !usort_In. apply H.
Qed.

(* … and (bid, ref) pairs *)
Lemma ref_cmp_eq a b : ref_cmp a b = Eq -> a = b.
Proof.
  unfold ref_cmp. destruct a as [a1 a2], b as [b1 b2]; simpl.
  destruct (str_cmp a1 b1) eqn:E; try discriminate.
  intros H. apply str_cmp_eq in E, H. congruence.
Qed.

Lemma ref_cmp_refl a : ref_cmp a a = Eq.
Proof. unfold ref_cmp. now rewrite !str_cmp_refl. Qed.

Lemma ref_cmp_antisym a b : ref_cmp b a = CompOpp (ref_cmp a b).
Proof.
  unfold ref_cmp. rewrite (str_cmp_antisym (fst a) (fst b)).
  destruct (str_cmp (fst a) (fst b)); simpl; auto. apply str_cmp_antisym.
Qed.

Lemma ref_cmp_trans a b c : ref_cmp a b = Lt -> ref_cmp b c = Lt -> ref_cmp a c = Lt.
Proof.
  unfold ref_cmp.
  destruct (str_cmp (fst a) (fst b)) eqn:E1; try discriminate;
  destruct (str_cmp (fst b) (fst c)) eqn:E2; try discriminate; intros H1 H2.
  - apply str_cmp_eq in E1, E2. rewrite E1, E2, str_cmp_refl. eapply str_cmp_lt_trans; eauto.
  - apply str_cmp_eq in E1. rewrite E1, E2. reflexivity.
  - apply str_cmp_eq in E2. rewrite <- E2, E1. reflexivity.
  - now rewrite (str_cmp_lt_trans _ _ _ E1 E2).
Qed.

Definition rsorted : list (bid * bid) -> Prop := ssorted (bid * bid) ref_cmp.

Lemma rins_In x l y : In y (gins ref_cmp x l) <-> y = x \/ In y l.
Proof. apply gins_In. exact ref_cmp_eq. Qed.

Lemma rins_sorted x l : rsorted l -> rsorted (gins ref_cmp x l).
Proof. apply gins_sorted; [exact ref_cmp_eq|exact ref_cmp_antisym|exact ref_cmp_trans]. Qed.

Lemma rsorted_ext l1 l2 : rsorted l1 -> rsorted l2 -> (forall x, In x l1 <-> In x l2) -> l1 = l2.
Proof. apply ssorted_ext; [exact ref_cmp_refl|exact ref_cmp_trans]. Qed.

Lemma add_refs_In b rs t p : In p (add_refs b rs t) <-> (fst p = b /\ In (snd p) rs) \/ In p t.
Proof.
  unfold add_refs. induction rs as [|r rs IH]; simpl; [intuition|].
  rewrite rins_In, IH. destruct p as [p1 p2]; simpl. split.
  - intros [H|[[H1 H2]|H]]; [inversion H; subst; auto| auto | auto].
  - intros [[H1 [H2|H2]]|H]; subst; auto.
Qed.

Lemma add_refs_sorted b rs t : rsorted t -> rsorted (add_refs b rs t).
Proof. unfold add_refs. induction rs as [|r rs IH]; simpl; auto. intros H. now apply rins_sorted, IH. Qed.

(* ---------------------------------------------------------------- the files table (rows keyed by bid) *)
Definition rows_sorted : list row -> Prop := StronglySorted row_lt.

Lemma find_row_ins_row x l b :
  find_row b (ins_row x l) = if str_eqb b (fst x) then Some (snd x) else find_row b l.
Proof.
  induction l as [|y r IH]; simpl; [reflexivity|].
  destruct (str_cmp (fst x) (fst y)) eqn:E; simpl.
  - apply str_cmp_eq in E. rewrite <- E. destruct (str_eqb b (fst x)) eqn:E1; reflexivity.
  - reflexivity.
  - rewrite IH. destruct (str_eqb b (fst y)) eqn:E1; destruct (str_eqb b (fst x)) eqn:E2; try reflexivity.
    apply str_eqb_eq in E1, E2. rewrite <- E1, <- E2, str_cmp_refl in E. discriminate.
Qed.

Lemma find_row_filter b0 l b :
  find_row b (filter (fun y : row => negb (str_eqb b0 (fst y))) l) =
  if str_eqb b b0 then None else find_row b l.
Proof.
  induction l as [|y r IH]; simpl; [now destruct (str_eqb b b0)|].
  destruct (str_eqb b0 (fst y)) eqn:E; simpl.
  - rewrite IH. apply str_eqb_eq in E. subst b0. destruct (str_eqb b (fst y)); reflexivity.
  - rewrite IH. destruct (str_eqb b (fst y)) eqn:E1; [|reflexivity].
    apply str_eqb_eq in E1. subst b. rewrite str_eqb_sym, E. reflexivity.
Qed.

Lemma ins_row_keys x l y : In y (map fst (ins_row x l)) <-> y = fst x \/ In y (map fst l).
Proof.
  induction l as [|z l IH]; simpl; [intuition|].
  destruct (str_cmp (fst x) (fst z)) eqn:E; simpl.
  - apply str_cmp_eq in E. rewrite <- E. intuition.
  - intuition.
  - rewrite IH. intuition.
Qed.

Lemma ins_row_sorted x l : rows_sorted l -> rows_sorted (ins_row x l).
Proof.
  unfold rows_sorted. induction l as [|z l IH]; intros Hs; simpl.
  - constructor; constructor.
  - inversion Hs as [|? ? Hs' Hall]; subst. destruct (str_cmp (fst x) (fst z)) eqn:E.
    + constructor; [exact Hs'|]. apply str_cmp_eq in E. unfold row_lt in *. rewrite E. exact Hall.
    + constructor; [exact Hs|]. constructor; [exact E|].
      rewrite Forall_forall in *. intros y Hy. unfold row_lt in *. eapply str_cmp_lt_trans; [exact E|]. now apply Hall.
    + constructor; [auto|]. rewrite Forall_forall in *. intros y Hy.
      assert (In (fst y) (map fst (ins_row x l))) as Hk by now apply in_map.
      apply ins_row_keys in Hk as [Hk|Hk].
      * unfold row_lt. rewrite Hk. now apply str_cmp_gt_lt.
      * apply in_map_iff in Hk as (w & Hw & Hin). unfold row_lt. rewrite <- Hw. now apply Hall.
Qed.

Lemma find_row_Some_In b l v : find_row b l = Some v -> In (b, v) l.
Proof.
  induction l as [|y r IH]; simpl; [discriminate|].
  destruct (str_eqb b (fst y)) eqn:E.
  - apply str_eqb_eq in E. intros H. inversion H; subst. left. now destruct y.
  - auto.
Qed.

Lemma find_row_None b l : find_row b l = None <-> ~ In b (map fst l).
Proof.
  induction l as [|y r IH]; simpl; [tauto|].
  destruct (str_eqb b (fst y)) eqn:E.
  - apply str_eqb_eq in E. split; [discriminate|]. intros H. exfalso. apply H. auto.
  - apply str_eqb_neq in E. rewrite IH. intuition.
Qed.

Lemma rows_sorted_head_absent a l : rows_sorted (a :: l) -> find_row (fst a) l = None.
Proof.
  intros Hs. inversion Hs as [|? ? _ Hall]; subst. apply find_row_None.
  rewrite Forall_forall in Hall. intros Hin. apply in_map_iff in Hin as (w & Hw & Hin).
  specialize (Hall _ Hin). unfold row_lt in Hall. rewrite Hw, str_cmp_refl in Hall. discriminate.
Qed.

Lemma rows_ext l1 : forall l2,
  rows_sorted l1 -> rows_sorted l2 -> (forall b, find_row b l1 = find_row b l2) -> l1 = l2.
Proof.
  induction l1 as [|a l1 IH]; intros [|c l2] H1 H2 Hext.
  - reflexivity.
  - specialize (Hext (fst c)). simpl in Hext. rewrite str_eqb_refl in Hext. discriminate.
  - specialize (Hext (fst a)). simpl in Hext. rewrite str_eqb_refl in Hext. discriminate.
  - pose proof (rows_sorted_head_absent _ _ H1) as Ha. pose proof (rows_sorted_head_absent _ _ H2) as Hc.
    assert (fst a = fst c) as Hk.
    { pose proof (Hext (fst a)) as E1. pose proof (Hext (fst c)) as E2. simpl in E1, E2.
      rewrite str_eqb_refl in E1, E2.
      destruct (str_eqb (fst a) (fst c)) eqn:E; [now apply str_eqb_eq in E|].
      rewrite str_eqb_sym, E in E2.
      symmetry in E1. apply find_row_Some_In in E1, E2.
      inversion H1 as [|? ? _ Hall1]; inversion H2 as [|? ? _ Hall2]; subst.
      rewrite Forall_forall in Hall1, Hall2.
      specialize (Hall1 _ E2). specialize (Hall2 _ E1). unfold row_lt in *. simpl in *.
      pose proof (str_cmp_refl (fst a)) as R. rewrite (str_cmp_lt_trans _ _ _ Hall1 Hall2) in R. discriminate. }
    assert (a = c) as ->.
    { pose proof (Hext (fst a)) as E1. simpl in E1. rewrite str_eqb_refl, Hk, str_eqb_refl in E1.
      destruct a, c; simpl in *. congruence. }
    f_equal. inversion H1; inversion H2; subst. apply IH; auto.
    intros b. specialize (Hext b). simpl in Hext.
    destruct (str_eqb b (fst c)) eqn:E; [|exact Hext].
    apply str_eqb_eq in E. subst b. now rewrite Ha, Hc.
Qed.

Lemma rows_sorted_filter p l : rows_sorted l -> rows_sorted (filter p l).
Proof. apply sorted_filter. Qed.

Lemma rows_sorted_keys l : rows_sorted l -> bsorted (map fst l).
Proof.
  induction l as [|a l IH]; intros Hs; simpl; [constructor|].
  inversion Hs as [|? ? Hs' Hall]; subst. constructor; [now apply IH|].
  rewrite Forall_forall in *. intros y Hy. apply in_map_iff in Hy as (w & <- & Hin). now apply Hall.
Qed.

(* ---------------------------------------------------------------- second pass: the closure loop *)

Lemma refs_of_In I a b : In b (refs_of I a) <-> In (a, b) (ix_refs I).
Proof.
  unfold refs_of. rewrite in_map_iff. split.
  - intros (p & Hp & Hin). apply filter_In in Hin as [Hin E]. apply str_eqb_eq in E.
    destruct p as [p1 p2]; simpl in *. now subst.
  - intros Hin. exists (a, b). split; [reflexivity|]. apply filter_In. split; [exact Hin|]. apply str_eqb_refl.
Qed.

Lemma close_correct I S0 fuel : forall ret todo R,
  close fuel I ret todo = Some R ->
  (forall x, In x ret \/ In x todo -> reach I S0 x) ->
  incl S0 ret ->
  (forall y z, In y ret -> In z (refs_of I y) -> In z ret \/ In z todo) ->
  forall x, In x R <-> reach I S0 x.
Proof.
  induction fuel as [|k IH]; intros ret todo R Hc Hsound Hbase Hclosed.
  - destruct todo as [|n rest]; [|discriminate]. simpl in Hc. inversion Hc; subst R. intros x. split.
    + intros Hx. apply Hsound. auto.
    + intros Hr. induction Hr as [b Hb|a b _ IHa Hab]; [now apply Hbase|].
      destruct (Hclosed _ _ IHa Hab) as [?|[]]; assumption.
  - destruct todo as [|n rest].
    + simpl in Hc. inversion Hc; subst R. intros x. split.
      * intros Hx. apply Hsound. auto.
      * intros Hr. induction Hr as [b Hb|a b _ IHa Hab]; [now apply Hbase|].
        destruct (Hclosed _ _ IHa Hab) as [?|[]]; assumption.
    + simpl in Hc. destruct (bmem n ret) eqn:E.
      * apply (IH ret rest R Hc); auto.
        -- intros x [Hx|Hx]; apply Hsound; simpl; auto.
        -- intros y z Hy Hz. destruct (Hclosed _ _ Hy Hz) as [?|[<-|?]]; auto.
           left. now apply bmem_In.
      * apply (IH (n :: ret) (refs_of I n ++ rest) R Hc).
        -- intros x [[<-|Hx]|Hx].
           ++ apply Hsound. simpl; auto.
           ++ apply Hsound. auto.
           ++ apply in_app_or in Hx as [Hx|Hx].
              ** eapply reach_step; [|exact Hx]. apply Hsound. simpl; auto.
              ** apply Hsound. simpl; auto.
        -- intros x Hx. right. now apply Hbase.
        -- intros y z [<-|Hy] Hz.
           ++ right. apply in_or_app. auto.
           ++ destruct (Hclosed _ _ Hy Hz) as [?|[<-|?]]; simpl; auto.
              right. apply in_or_app. auto.
Qed.

Lemma closure_correct I S0 R : closure I S0 = Some R -> forall x, In x R <-> reach I S0 x.
Proof.
  unfold closure. intros Hc. eapply close_correct; [exact Hc| | |].
  - intros x [Hx|Hx]; [now apply reach_base|].
    apply in_flat_map in Hx as (a & Ha & Hx). eapply reach_step; [apply reach_base; exact Ha|exact Hx].
  - apply incl_refl.
  - intros y z Hy Hz. right. apply in_flat_map. eauto.
Qed.

Definition unvisited (I : index) (ret : list bid) : list (bid * bid) :=
  filter (fun p => negb (bmem (fst p) ret)) (ix_refs I).

Lemma unvisited_step (l : list (bid * bid)) n ret : bmem n ret = false ->
  (length (filter (fun p : bid * bid => negb (str_eqb (fst p) n || bmem (fst p) ret)) l) +
   length (filter (fun p : bid * bid => str_eqb (fst p) n) l) =
   length (filter (fun p : bid * bid => negb (bmem (fst p) ret)) l))%nat.
Proof.
  intros Hn. induction l as [|p l IH]; simpl; [reflexivity|].
  destruct (str_eqb (fst p) n) eqn:E; simpl.
  - apply str_eqb_eq in E. rewrite E, Hn. simpl. lia.
  - destruct (bmem (fst p) ret); simpl; lia.
Qed.

Lemma close_fuel_enough I fuel : forall ret todo,
  (length todo + length (unvisited I ret) <= fuel)%nat -> close fuel I ret todo <> None.
Proof.
  induction fuel as [|k IH]; intros ret todo Hm.
  - destruct todo; [discriminate|]. simpl in Hm. lia.
  - destruct todo as [|n rest]; [discriminate|]. simpl. destruct (bmem n ret) eqn:E.
    + apply IH. simpl in Hm. lia.
    + apply IH. rewrite app_length. unfold refs_of. rewrite map_length.
      pose proof (unvisited_step (ix_refs I) n ret E) as Hs.
      unfold unvisited in *. cbn [bmem] in *. cbn [length] in Hm. unfold bid, str in *. lia.
Qed.

Lemma filter_len_le {A} (p : A -> bool) l : (length (filter p l) <= length l)%nat.
Proof. induction l as [|a l IH]; simpl; [lia|]. destruct (p a); simpl; lia. Qed.

Lemma closure_fuel_enough_proof I S0 : closure I S0 <> None.
Proof.
  unfold closure, close_fuel. apply close_fuel_enough.
  unfold unvisited. pose proof (filter_len_le (fun p : bid * bid => negb (bmem (fst p) S0)) (ix_refs I)). unfold bid, str in *. lia.
Qed.

(* ---------------------------------------------------------------- first pass: query *)
(* one expression over all rows (the code runs the loops the other way round) *)
Fixpoint run_rexpr (I : index) (r : rexpr) (st : rstate) (bs : list bid) : res rstate :=
  match bs with
  | [] => Ok st
  | b :: rest => match evaluate r st b (get_vars I b) with
                 | Err => Err
                 | Ok st' => run_rexpr I r st' rest
                 end
  end.

Lemma eval_exprs_spec sts : forall b d sts1, eval_exprs sts b d = Ok sts1 ->
  Forall2 (fun p p1 => fst p1 = fst p /\ evaluate (fst p) (snd p) b d = Ok (snd p1)) sts sts1.
Proof.
  induction sts as [|[r st] sts IH]; intros b d sts1 H; simpl in H.
  - inversion H. constructor.
  - destruct (evaluate r st b d) as [st'|] eqn:E; [|discriminate].
    destruct (eval_exprs sts b d) as [l|] eqn:E2; [|discriminate].
    inversion H; subst. constructor; [simpl; auto|]. now apply IH.
Qed.

Lemma eval_rows_split I bs : forall sts sts', eval_rows I sts bs = Ok sts' ->
  Forall2 (fun p p' => fst p' = fst p /\ run_rexpr I (fst p) (snd p) bs = Ok (snd p')) sts sts'.
Proof.
  induction bs as [|b bs IH]; intros sts sts' H; simpl in H.
  - inversion H; subst. induction sts'; constructor; auto.
  - destruct (eval_exprs sts b (get_vars I b)) as [sts1|] eqn:E; [|discriminate].
    apply eval_exprs_spec in E. apply IH in H. clear IH.
    revert sts' H. induction E as [|p p1 l l1 [Hf He] _ IHE]; intros sts' H.
    + inversion H. constructor.
    + inversion H as [|? p' ? l' [Hf' Hr] Hrest]; subst. constructor.
      * split; [congruence|]. simpl. rewrite He. rewrite <- Hf. exact Hr.
      * now apply IHE.
Qed.


Lemma mitems_In I r bs b k :
  In (b, k) (mitems I r bs) <-> In b bs /\ matches I r b = true /\ k = key_of I r b.
Proof.
  unfold mitems. rewrite in_map_iff. split.
  - intros (x & Hx & Hin). inversion Hx; subst. apply filter_In in Hin. tauto.
  - intros (H1 & H2 & ->). exists b. split; [reflexivity|]. now apply filter_In.
Qed.

Lemma mitems_fst I r bs : map fst (mitems I r bs) = filter (matches I r) bs.
Proof. unfold mitems. rewrite map_map. simpl. apply map_id. Qed.

Lemma NoDup_filter {A} (p : A -> bool) l : NoDup l -> NoDup (filter p l).
Proof.
  induction l as [|a l IH]; simpl; intros H; [constructor|].
  inversion H as [|? ? Hn Hd]; subst. destruct (p a); auto. constructor; auto.
  intros Hin. apply filter_In in Hin. tauto.
Qed.

Lemma remove_bids_In V l x : In x (remove_bids V l) <-> In x l /\ ~ In x V.
Proof.
  induction l as [|a l IH]; simpl; [tauto|].
  destruct (bmem a V) eqn:E.
  - apply bmem_In in E. rewrite IH. split; [tauto|]. intros [[->|H] Hn]; tauto.
  - apply bmem_false in E. simpl. rewrite IH. split; [|tauto].
    intros [->|[H Hn]]; auto.
Qed.

Lemma remove_bids_NoDup V l : NoDup l -> NoDup (remove_bids V l).
Proof.
  induction l as [|a l IH]; simpl; intros H; [constructor|].
  inversion H as [|? ? Hn Hd]; subst. destruct (bmem a V); auto. constructor; auto.
  intros Hin. apply remove_bids_In in Hin. tauto.
Qed.

(* state of a LIMIT expression relative to the build-ids processed so far *)
Record lim_inv (st : rstate) (seen : list bid) : Prop := {
  li_same : forall x, In x (rs_retained st) <-> In x (map fst (rs_queue st));
  li_nodup : NoDup (rs_retained st);
  li_seen : incl (rs_retained st) seen;
  li_qnodup : NoDup (map fst (rs_queue st))
}.

Opaque remove_bids.
Lemma evaluate_limit_step I r n st seen b st' :
  r_limit r = Some n -> lim_inv st seen -> ~ In b seen ->
  evaluate r st b (get_vars I b) = Ok st' ->
  lim_inv st' (seen ++ [b]) /\
  rs_queue st' = if matches I r b then q_step (r_asc r) (N.to_nat n) (rs_queue st) (b, key_of I r b)
                 else rs_queue st.
Proof.
  intros Hlim [Hsame Hnd Hseen Hqnd] Hfresh. unfold evaluate, matches, key_of.
  assert (bmem b (rs_retained st) = false) as -> by (apply bmem_false; intros H; apply Hfresh, Hseen, H).
  destruct (eval_bool (get_vars I b) (r_expr r)) as [[|]|] eqn:Eb; try discriminate.
  2:{ intros H; inversion H; subst. split; [|reflexivity].
      split; auto. intros x Hx. apply in_or_app. left. now apply Hseen. }
  rewrite Hlim. destruct (eval_var (get_vars I b) (sort_path r)) as [k|] eqn:Ek; [|discriminate].
  intros [= <-]. cbn [rs_retained rs_queue]. split; [|reflexivity].
  set (q' := q_insert (r_asc r) (rs_queue st) (b, k)).
  assert (NoDup (map fst q')) as Hq'.
  { eapply Permutation_NoDup; [symmetry; apply q_insert_fst|]. simpl. constructor; auto.
    intros Hin. apply Hfresh, Hseen. now apply Hsame. }
  assert (forall x, In x (map fst q') <-> x = b \/ In x (rs_retained st)) as Hq'in.
  { intros x. unfold q'. split; intros Hx.
    - eapply Permutation_in in Hx; [|apply q_insert_fst]. simpl in Hx. rewrite Hsame. intuition.
    - eapply Permutation_in; [symmetry; apply q_insert_fst|]. simpl. rewrite <- Hsame. intuition. }
  pose proof (firstn_skipn (N.to_nat n) q') as Hsplit.
  assert (forall x, In x (map fst (firstn (N.to_nat n) q')) <->
                    In x (map fst q') /\ ~ In x (map fst (skipn (N.to_nat n) q'))) as Hfirst.
  { intros x. rewrite <- Hsplit at 2. rewrite map_app, in_app_iff.
    rewrite <- Hsplit, map_app in Hq'. split.
    - intros Hx. split; [auto|]. intros Hy. eapply NoDup_app_disjoint; eauto.
    - tauto. }
  split; cbn [rs_retained rs_queue].
  - intros x. rewrite remove_bids_In, Hfirst, Hq'in. simpl. intuition.
  - apply remove_bids_NoDup. constructor; auto.
  - intros x Hx. apply remove_bids_In in Hx as [[<-|Hx] _]; apply in_or_app; simpl; auto.
  - rewrite <- Hsplit, map_app in Hq'. now apply NoDup_app_l in Hq'.
Qed.

Transparent remove_bids.

Lemma run_rexpr_limit I r n : r_limit r = Some n ->
  forall bs st seen st', lim_inv st seen -> NoDup (seen ++ bs) ->
  run_rexpr I r st bs = Ok st' ->
  lim_inv st' (seen ++ bs) /\
  rs_queue st' = fold_left (q_step (r_asc r) (N.to_nat n)) (mitems I r bs) (rs_queue st).
Proof.
  intros Hlim. induction bs as [|b bs IH]; intros st seen st' Hinv Hnd H; simpl in H.
  - inversion H; subst. rewrite app_nil_r. auto.
  - destruct (evaluate r st b (get_vars I b)) as [st1|] eqn:E; [|discriminate].
    assert (~ In b seen) as Hfresh.
    { apply NoDup_remove_2 in Hnd. intros Hin. apply Hnd. apply in_or_app; auto. }
    destruct (evaluate_limit_step I r n st seen b st1 Hlim Hinv Hfresh E) as [Hinv1 Hq1].
    replace (seen ++ b :: bs) with ((seen ++ [b]) ++ bs) in * by (rewrite <- app_assoc; reflexivity).
    destruct (IH st1 (seen ++ [b]) st' Hinv1 Hnd H) as [Hinv' Hq']. split; [exact Hinv'|].
    rewrite Hq', Hq1. unfold mitems. simpl. destruct (matches I r b); reflexivity.
Qed.

Lemma run_rexpr_nolimit I r : r_limit r = None ->
  forall bs st st', run_rexpr I r st bs = Ok st' -> NoDup bs -> (forall b, In b bs -> ~ In b (rs_retained st)) ->
  forall x, In x (rs_retained st') <-> In x (rs_retained st) \/ In x (filter (matches I r) bs).
Proof.
  intros Hlim. induction bs as [|b bs IH]; intros st st' H Hnd Hfresh x; simpl in H.
  - inversion H; subst. simpl. tauto.
  - destruct (evaluate r st b (get_vars I b)) as [st1|] eqn:E; [|discriminate].
    inversion Hnd as [|? ? Hnb Hnd']; subst.
    unfold evaluate in E.
    assert (bmem b (rs_retained st) = false) as Hb by (apply bmem_false, Hfresh; left; reflexivity).
    rewrite Hb in E. simpl. unfold matches at 1.
    destruct (eval_bool (get_vars I b) (r_expr r)) as [[|]|] eqn:Eb; try discriminate.
    + rewrite Hlim in E. inversion E; subst st1; clear E.
      rewrite (IH _ _ H Hnd'); simpl.
      * intuition.
      * intros c Hc [<-|Hin]; [contradiction|]. eapply Hfresh; [right; exact Hc|exact Hin].
    + inversion E; subst st1. rewrite (IH _ _ H Hnd'); [tauto|].
      intros c Hc. apply Hfresh. now right.
Qed.

Lemma lim_inv_init : lim_inv rs_init [].
Proof. split; simpl; try constructor; try tauto. intros ? []. Qed.

Lemma NoDup_same_length {A} (l1 l2 : list A) :
  NoDup l1 -> NoDup l2 -> (forall x, In x l1 <-> In x l2) -> length l1 = length l2.
Proof. intros H1 H2 H. apply Permutation_length. now apply NoDup_Permutation. Qed.


Lemma run_rexpr_selects I r st :
  NoDup (build_ids I) -> r_limit r <> Some 0 ->
  run_rexpr I r rs_init (build_ids I) = Ok st -> selects I r (rs_retained st).
Proof.
  intros Hnd Hn0 Hrun. unfold selects. destruct (r_limit r) as [n|] eqn:Hlim.
  - destruct (run_rexpr_limit I r n Hlim (build_ids I) rs_init [] st lim_inv_init Hnd Hrun) as [[Hsame Hnds _ Hqnd] Hq].
    simpl in Hq. fold (q_run (r_asc r) (N.to_nat n) (mitems I r (build_ids I))) in Hq.
    assert (0 < N.to_nat n)%nat as Hpos by (destruct n; [congruence|lia]).
    assert (NoDup (map fst (mitems I r (build_ids I)))) as HndM by (rewrite mitems_fst; now apply NoDup_filter).
    destruct (q_run_inv (r_asc r) (N.to_nat n) _ Hpos HndM) as [_ Hincl _ Hlen _ Hbest].
    rewrite <- Hq in *.
    split; [exact Hnds|]. split; [|split].
    + intros x Hx. apply Hsame in Hx. apply in_map_iff in Hx as (e & <- & He). apply in_map. now apply Hincl.
    + rewrite <- Hlen. transitivity (length (map fst (rs_queue st))); [now apply NoDup_same_length|apply map_length].
    + intros x y Hx Hy Hny.
      apply Hsame in Hx. apply in_map_iff in Hx as ([x' kx] & Hfx & Hex). simpl in Hfx; subst x'.
      apply in_map_iff in Hy as ([y' ky] & Hfy & Hey). simpl in Hfy; subst y'.
      assert (kx = key_of I r x) as <- by (apply Hincl, mitems_In in Hex; tauto).
      assert (ky = key_of I r y) as <- by (apply mitems_In in Hey; tauto).
      apply (Hbest (x, kx) (y, ky) Hex Hey).
      intros Hin. apply Hny, Hsame. apply in_map_iff. exists (y, ky). auto.
  - intros x. rewrite (run_rexpr_nolimit I r Hlim _ _ _ Hrun Hnd); [|intros ? _ []].
    rewrite mitems_fst. simpl. tauto.
Qed.

Lemma parse_all_spec es rs : parse_all es = Ok rs ->
  Forall2 (fun e r => e = RGood r /\ r_limit r <> Some 0) es rs.
Proof.
  revert rs; induction es as [|[|r] es IH]; intros rs H; simpl in H; try discriminate.
  - inversion H. constructor.
  - destruct (r_limit r) as [[|p]|] eqn:El; try discriminate;
    destruct (parse_all es) as [l|] eqn:E; try discriminate; inversion H; subst;
    (constructor; [split; [reflexivity|rewrite El; congruence]|now apply IH]).
Qed.

Lemma query_spec I es S : NoDup (build_ids I) -> query I es = Ok S ->
  exists rs Ss, Forall2 (fun e r => e = RGood r /\ r_limit r <> Some 0) es rs /\
                Forall2 (selects I) rs Ss /\
                forall x, In x S <-> exists S1, In S1 Ss /\ In x S1.
Proof.
  intros Hnd. unfold query. destruct (parse_all es) as [rs|] eqn:Ep; [|discriminate].
  destruct (eval_rows I _ (build_ids I)) as [sts|] eqn:Er; [|discriminate].
  intros H; inversion H; subst S; clear H.
  apply parse_all_spec in Ep. apply eval_rows_split in Er.
  exists rs, (map (fun p => rs_retained (snd p)) sts). split; [exact Ep|]. split.
  - assert (Forall (fun r => r_limit r <> Some 0) rs) as Hn0.
    { clear Er. induction Ep as [|? ? ? ? [_ ?] _ IH]; constructor; auto. }
    clear Ep. revert sts Er. induction rs as [|r rs IH]; intros sts Er; simpl in Er.
    + inversion Er. constructor.
    + inversion Er as [|? [r' st'] ? l' [Hf Hr] Hrest]; subst. simpl in *. subst r'.
      inversion Hn0; subst. constructor; [now apply run_rexpr_selects|]. now apply IH.
  - intros x. rewrite in_flat_map. split.
    + intros (p & Hp & Hx). exists (rs_retained (snd p)). split; [|exact Hx].
      apply in_map_iff. exists p. auto.
    + intros (S1 & HS1 & Hx). apply in_map_iff in HS1 as (p & <- & Hp). eauto.
Qed.

(* ---------------------------------------------------------------- the index as image of the archive *)
Lemma ar_find_None b A : ar_find b A = None <-> ~ In b (ar_bids A).
Proof.
  unfold ar_find, ar_bids. induction A as [|f A IH]; simpl; [tauto|].
  destruct (str_eqb (f_bid f) b) eqn:E.
  - apply str_eqb_eq in E. split; [discriminate|]. intros H. exfalso. apply H. auto.
  - apply str_eqb_neq in E. rewrite IH. tauto.
Qed.

Lemma ar_find_Some b A f : ar_find b A = Some f -> In f A /\ f_bid f = b.
Proof.
  unfold ar_find. intros H. apply find_some in H as [H1 H2]. apply str_eqb_eq in H2. auto.
Qed.

Lemma ar_find_wf A f : wf A -> In f A -> ar_find (f_bid f) A = Some f.
Proof.
  unfold wf, ar_find, ar_bids. induction A as [|g A IH]; simpl; [tauto|].
  intros Hnd [->|Hin].
  - now rewrite str_eqb_refl.
  - inversion Hnd as [|? ? Hn Hnd']; subst. destruct (str_eqb (f_bid g) (f_bid f)) eqn:E; [|auto].
    apply str_eqb_eq in E. exfalso. apply Hn. rewrite E. now apply in_map.
Qed.

Lemma ar_find_snoc b P f :
  ar_find b (P ++ [f]) = match ar_find b P with
                         | Some g => Some g
                         | None => if str_eqb (f_bid f) b then Some f else None
                         end.
Proof.
  unfold ar_find. induction P as [|g P IH]; simpl; [reflexivity|].
  destruct (str_eqb (f_bid g) b); auto.
Qed.

Definition rowof (f : afile) : option (N * vars) :=
  match f_audit f with Some au => Some (f_stat f, au_vars au) | None => None end.
Definition refsof (f : afile) : list bid :=
  match f_audit f with Some au => audit_refs au | None => [] end.

Lemma rowspec_eq A b : rowspec A b = match ar_find b A with Some f => rowof f | None => None end.
Proof. reflexivity. Qed.
Lemma refspec_eq A b : refspec A b = match ar_find b A with Some f => refsof f | None => [] end.
Proof. reflexivity. Qed.

Lemma refspec_rowspec A b r : In r (refspec A b) -> rowspec A b <> None.
Proof.
  rewrite refspec_eq, rowspec_eq. destruct (ar_find b A) as [f|]; [|intros []].
  unfold refsof, rowof. destruct (f_audit f); [discriminate|intros []].
Qed.

Lemma rowspec_absent A b : ~ In b (ar_bids A) -> rowspec A b = None.
Proof. intros H. apply ar_find_None in H. now rewrite rowspec_eq, H. Qed.

Lemma refspec_absent A b : ~ In b (ar_bids A) -> refspec A b = [].
Proof. intros H. apply ar_find_None in H. now rewrite refspec_eq, H. Qed.

Definition mixrow (P A0 : archive) (b : bid) : option (N * vars) :=
  if bmem b (ar_bids P) then rowspec P b else rowspec A0 b.
Definition mixref (P A0 : archive) (b : bid) : list bid :=
  if bmem b (ar_bids P) then refspec P b else refspec A0 b.

Lemma bmem_snoc b P f : bmem b (ar_bids (P ++ [f])) = bmem b (ar_bids P) || str_eqb b (f_bid f).
Proof.
  unfold ar_bids. induction P as [|g P IH]; simpl; [now rewrite orb_false_r|].
  rewrite IH. now rewrite orb_assoc.
Qed.

Lemma mix_snoc P A0 f b : ~ In (f_bid f) (ar_bids P) ->
  mixrow (P ++ [f]) A0 b = (if str_eqb b (f_bid f) then rowof f else mixrow P A0 b) /\
  mixref (P ++ [f]) A0 b = (if str_eqb b (f_bid f) then refsof f else mixref P A0 b).
Proof.
  intros Hn. unfold mixrow, mixref. rewrite bmem_snoc, !rowspec_eq, !refspec_eq, ar_find_snoc.
  destruct (str_eqb b (f_bid f)) eqn:E.
  - apply str_eqb_eq in E. subst b. rewrite orb_true_r.
    apply ar_find_None in Hn. rewrite Hn, str_eqb_refl. auto.
  - rewrite orb_false_r. destruct (bmem b (ar_bids P)) eqn:Eb; [|auto].
    destruct (ar_find b P) as [g|] eqn:Ef; [auto|].
    apply ar_find_None in Ef. apply bmem_In in Eb. contradiction.
Qed.

Lemma ix_remove_row b0 I b :
  find_row b (ix_files (ix_remove b0 I)) = if str_eqb b b0 then None else find_row b (ix_files I).
Proof. simpl. apply find_row_filter. Qed.

Lemma ix_remove_ref b0 I b r :
  In (b, r) (ix_refs (ix_remove b0 I)) <-> b <> b0 /\ In (b, r) (ix_refs I).
Proof.
  simpl. rewrite filter_In. simpl. rewrite negb_true_iff, str_eqb_neq. tauto.
Qed.

Record tables_sorted (I : index) : Prop := {
  ts_files : rows_sorted (ix_files I);
  ts_refs : rsorted (ix_refs I)
}.

Lemma ix_remove_sorted b I : tables_sorted I -> tables_sorted (ix_remove b I).
Proof. intros [H1 H2]. split; simpl; [now apply rows_sorted_filter|now apply sorted_filter]. Qed.

Lemma scan_new_sorted I f : tables_sorted I -> tables_sorted (scan_new I f).
Proof.
  intros [H1 H2]. unfold scan_new. destruct (f_audit f); [|now split].
  split; simpl; [now apply ins_row_sorted|now apply add_refs_sorted].
Qed.

Lemma scan_new_row I f b :
  find_row b (ix_files (scan_new I f)) =
  match f_audit f with
  | Some _ => if str_eqb b (f_bid f) then rowof f else find_row b (ix_files I)
  | None => find_row b (ix_files I)
  end.
Proof.
  unfold scan_new, rowof. destruct (f_audit f); [|reflexivity]. simpl. apply find_row_ins_row.
Qed.

Lemma scan_new_ref I f b r :
  In (b, r) (ix_refs (scan_new I f)) <-> (b = f_bid f /\ In r (refsof f)) \/ In (b, r) (ix_refs I).
Proof.
  unfold scan_new, refsof. destruct (f_audit f); simpl; [|tauto].
  rewrite add_refs_In. simpl. tauto.
Qed.

(* state of the scan loop after the files P have been visited *)
Record scan_inv (J : index) (P A0 : archive) : Prop := {
  si_sorted : tables_sorted J;
  si_rows : forall b, find_row b (ix_files J) = mixrow P A0 b;
  si_refs : forall b r, In (b, r) (ix_refs J) <-> In r (mixref P A0 b)
}.

Lemma scan_one_inv J cl P A0 f :
  scan_inv J P A0 -> wf A0 -> ~ In (f_bid f) (ar_bids P) ->
  (forall g, In g A0 -> f_bid g = f_bid f -> f_stat g = f_stat f -> f_audit g = f_audit f) ->
  scan_inv (fst (scan_one (J, cl) f)) (P ++ [f]) A0.
Proof.
  intros [Hs Hrows Hrefs] Hwf Hn Hcompat. unfold scan_one.
  assert (mixrow P A0 (f_bid f) = rowspec A0 (f_bid f)) as Hm1
    by (unfold mixrow; apply bmem_false in Hn; now rewrite Hn).
  assert (mixref P A0 (f_bid f) = refspec A0 (f_bid f)) as Hm2
    by (unfold mixref; apply bmem_false in Hn; now rewrite Hn).
  destruct (find_row (f_bid f) (ix_files J)) as [[st v]|] eqn:Ef.
  - destruct (st =? f_stat f) eqn:Est; simpl.
    + (* cached stat unchanged: the row is kept *)
      apply N.eqb_eq in Est. subst st.
      rewrite Hrows, Hm1, rowspec_eq in Ef.
      destruct (ar_find (f_bid f) A0) as [g|] eqn:Eg; [|discriminate].
      apply ar_find_Some in Eg as [Hg Hgb].
      assert (f_audit g = f_audit f) as Haud.
      { apply Hcompat; auto. unfold rowof in Ef. destruct (f_audit g); [|discriminate]. congruence. }
      assert (rowof g = rowof f) as Hro.
      { unfold rowof in *. rewrite Haud in *. destruct (f_audit f); [|discriminate]. congruence. }
      assert (refsof g = refsof f) as Hre by (unfold refsof; now rewrite Haud).
      assert (rowspec A0 (f_bid f) = rowof f /\ refspec A0 (f_bid f) = refsof f) as [Hr1 Hr2].
      { rewrite rowspec_eq, refspec_eq. rewrite <- Hgb. rewrite (ar_find_wf A0 g Hwf Hg). auto. }
      split; [exact Hs| |].
      * intros b. destruct (mix_snoc P A0 f b Hn) as [-> _]. rewrite Hrows.
        destruct (str_eqb b (f_bid f)) eqn:E; [|reflexivity]. apply str_eqb_eq in E. subst b. congruence.
      * intros b r. destruct (mix_snoc P A0 f b Hn) as [_ ->]. rewrite Hrefs.
        destruct (str_eqb b (f_bid f)) eqn:E; [|reflexivity]. apply str_eqb_eq in E. subst b. now rewrite Hm2, Hr2.
    + (* stat changed: row and references are dropped and read again *)
      split.
      * apply scan_new_sorted, ix_remove_sorted, Hs.
      * intros b. destruct (mix_snoc P A0 f b Hn) as [-> _]. rewrite scan_new_row, ix_remove_row, Hrows.
        unfold rowof. destruct (f_audit f); destruct (str_eqb b (f_bid f)); reflexivity.
      * intros b r. destruct (mix_snoc P A0 f b Hn) as [_ ->]. rewrite scan_new_ref, ix_remove_ref, Hrefs.
        destruct (str_eqb b (f_bid f)) eqn:E.
        -- apply str_eqb_eq in E. subst b. tauto.
        -- apply str_eqb_neq in E. tauto.
  - (* no row yet *)
    simpl.
    assert (refspec A0 (f_bid f) = []) as Hnor.
    { destruct (refspec A0 (f_bid f)) as [|r l] eqn:E; [reflexivity|].
      exfalso. apply (refspec_rowspec A0 (f_bid f) r); [rewrite E; left; reflexivity|].
      rewrite <- Hm1, <- Hrows. exact Ef. }
    split.
    + apply scan_new_sorted, Hs.
    + intros b. destruct (mix_snoc P A0 f b Hn) as [-> _]. rewrite scan_new_row, Hrows.
      unfold rowof. destruct (f_audit f) eqn:Ea; destruct (str_eqb b (f_bid f)) eqn:E; try reflexivity.
      apply str_eqb_eq in E. subst b. now rewrite <- Hrows.
    + intros b r. destruct (mix_snoc P A0 f b Hn) as [_ ->]. rewrite scan_new_ref, Hrefs.
      destruct (str_eqb b (f_bid f)) eqn:E.
      * apply str_eqb_eq in E. subst b. rewrite Hm2, Hnor. simpl. tauto.
      * apply str_eqb_neq in E. tauto.
Qed.

Lemma scan_loop_inv R : forall P J cl A0,
  scan_inv J P A0 -> wf A0 -> NoDup (ar_bids (P ++ R)) -> compat A0 (P ++ R) ->
  scan_inv (fst (fold_left scan_one R (J, cl))) (P ++ R) A0.
Proof.
  induction R as [|f R IH]; intros P J cl A0 Hinv Hwf Hnd Hc; cbn [fold_left].
  - now rewrite app_nil_r.
  - replace (P ++ f :: R) with ((P ++ [f]) ++ R) in * by (rewrite <- app_assoc; reflexivity).
    destruct (scan_one (J, cl) f) as [J1 cl1] eqn:E.
    apply IH; auto.
    change J1 with (fst (J1, cl1)). rewrite <- E. apply scan_one_inv; auto.
    + unfold ar_bids in Hnd. rewrite !map_app in Hnd. apply NoDup_app_l in Hnd.
      simpl in Hnd. apply NoDup_remove_2 in Hnd. now rewrite app_nil_r in Hnd.
    + intros g Hg. apply Hc; auto. apply in_or_app. left. apply in_or_app. right. left. reflexivity.
Qed.

Definition drop_unseen (seen : list bid) (t : index * bool) (b : bid) : index * bool :=
  if bmem b seen then t else (ix_remove b (fst t), true).

Lemma drop_unseen_spec seen bs : forall s,
  tables_sorted (fst s) ->
  let K := fst (fold_left (drop_unseen seen) bs s) in
  tables_sorted K /\
  (forall b, find_row b (ix_files K) =
             if bmem b bs && negb (bmem b seen) then None else find_row b (ix_files (fst s))) /\
  (forall b r, In (b, r) (ix_refs K) <-> In (b, r) (ix_refs (fst s)) /\ ~ (In b bs /\ ~ In b seen)).
Proof.
  induction bs as [|c bs IH]; intros s Hs; simpl.
  - split; [exact Hs|]. split; [reflexivity|]. intros b r. tauto.
  - destruct (bmem c seen) eqn:Ec.
    + replace (drop_unseen seen s c) with s by (unfold drop_unseen; now rewrite Ec).
      destruct (IH s Hs) as (H1 & H2 & H3). split; [exact H1|]. split.
      * intros b. rewrite H2. destruct (str_eqb b c) eqn:E; [|reflexivity].
        apply str_eqb_eq in E. subst b. rewrite Ec. simpl. now rewrite andb_false_r.
      * intros b r. rewrite H3. apply bmem_In in Ec. split; intros [Ha Hb]; split; auto.
        -- intros [[<-|Hin] Hns]; [contradiction|]. apply Hb. auto.
        -- intros [Hin Hns]. apply Hb. auto.
    + replace (drop_unseen seen s c) with (ix_remove c (fst s), true) by (unfold drop_unseen; now rewrite Ec).
      destruct (IH (ix_remove c (fst s), true)) as (H1 & H2 & H3); [now apply ix_remove_sorted|].
      simpl fst in *. split; [exact H1|]. split.
      * intros b. rewrite H2, ix_remove_row. destruct (str_eqb b c) eqn:E; simpl.
        -- apply str_eqb_eq in E. subst b. rewrite Ec. simpl. now destruct (bmem c bs).
        -- reflexivity.
      * intros b r. rewrite H3, ix_remove_ref. apply bmem_false in Ec. split.
        -- intros [[Hne Hin] Hb]. split; [exact Hin|]. intros [[->|Hin'] Hns]; [now apply Hne|]. apply Hb. auto.
        -- intros [Hin Hb]. split; [split; [|exact Hin]|].
           ++ intros ->. apply Hb. auto.
           ++ intros [Hin' Hns]. apply Hb. auto.
Qed.

Lemma Inv_scan_inv I A0 : Inv I A0 -> scan_inv I [] A0.
Proof. intros [H1 H2 H3 H4]. split; [split; assumption|exact H2|exact H4]. Qed.

Theorem scan_Inv I cl A0 A :
  Inv I A0 -> wf A0 -> wf A -> compat A0 A -> Inv (fst (scan (I, cl) A)) A.
Proof.
  intros Hinv Hwf0 Hwf Hc. unfold scan.
  pose proof (scan_loop_inv A [] I cl A0 (Inv_scan_inv _ _ Hinv) Hwf0 Hwf Hc) as [Hs Hrows Hrefs].
  simpl app in *. set (s1 := fold_left scan_one A (I, cl)) in *.
  change (fun (t : index * bool) b => if bmem b (ar_bids A) then t else (ix_remove b (fst t), true))
    with (drop_unseen (ar_bids A)).
  destruct (drop_unseen_spec (ar_bids A) (build_ids (fst s1)) s1 Hs) as ([K1 K2] & Krows & Krefs).
  split; [exact K1| |exact K2|].
  - intros b. rewrite Krows, Hrows. unfold mixrow.
    destruct (bmem b (ar_bids A)) eqn:Eb; simpl.
    + now rewrite andb_false_r.
    + rewrite andb_true_r. apply bmem_false in Eb. rewrite (rowspec_absent A b Eb).
      destruct (bmem b (build_ids (fst s1))) eqn:Ei; [reflexivity|].
      apply bmem_false in Ei. unfold build_ids in Ei. apply find_row_None in Ei.
      rewrite <- Ei, Hrows. unfold mixrow. apply bmem_false in Eb. now rewrite Eb.
  - intros b r. rewrite Krefs, Hrefs. unfold mixref.
    destruct (bmem b (ar_bids A)) eqn:Eb.
    + apply bmem_In in Eb. tauto.
    + apply bmem_false in Eb. rewrite (refspec_absent A b Eb). split; [|intros []].
      intros [Hin Hno]. apply Hno. split; [|exact Eb].
      apply refspec_rowspec in Hin.
      unfold build_ids. destruct (find_row b (ix_files (fst s1))) eqn:Ef.
      * apply find_row_Some_In in Ef. apply in_map_iff. exists (b, p). auto.
      * exfalso. apply Hin. rewrite <- Ef, Hrows. unfold mixrow. apply bmem_false in Eb. now rewrite Eb.
Qed.

Lemma Inv_unique I J A : Inv I A -> Inv J A -> I = J.
Proof.
  intros [F1 R1 S1 T1] [F2 R2 S2 T2]. destruct I as [fi ri], J as [fj rj]; simpl in *.
  f_equal.
  - apply rows_ext; auto. intros b. now rewrite R1, R2.
  - apply rsorted_ext; auto. intros [b r]. now rewrite T1, T2.
Qed.

Lemma Inv_empty : Inv ix_empty [].
Proof. split; simpl; try constructor; try reflexivity; try tauto. Qed.

Lemma compat_nil A : compat [] A.
Proof. intros g f []. Qed.

Lemma wf_nil : wf [].
Proof. constructor. Qed.

(* the scan result does not depend on the index it started from *)
Theorem scan_canonical I cl cl' A0 A :
  Inv I A0 -> wf A0 -> wf A -> compat A0 A ->
  fst (scan (I, cl) A) = fst (scan (ix_empty, cl') A).
Proof.
  intros. eapply Inv_unique; [eapply scan_Inv; eauto|].
  eapply scan_Inv; [apply Inv_empty|apply wf_nil|assumption|apply compat_nil].
Qed.

Lemma filter_all {A} (p : A -> bool) l : (forall x, In x l -> p x = true) -> filter p l = l.
Proof.
  induction l as [|a l IH]; simpl; intros H; [reflexivity|].
  rewrite (H a (or_introl eq_refl)). f_equal. apply IH. intros x Hx. apply H. auto.
Qed.

Lemma Inv_prune K A : Inv K A -> ix_prune K = K.
Proof.
  intros [F R S T]. unfold ix_prune. destruct K as [fs rs]; simpl in *. f_equal.
  apply filter_all. intros [b r] Hin. simpl. apply bmem_In.
  apply T, refspec_rowspec in Hin. unfold build_ids. simpl.
  destruct (find_row b fs) eqn:Ef; [|now rewrite <- R in Hin].
  apply find_row_Some_In in Ef. apply in_map_iff. exists (b, p). auto.
Qed.

Lemma Inv_exit K cl A : Inv K A -> ix_exit (K, cl) = K.
Proof. intros H. unfold ix_exit. simpl. destruct cl; [now apply (Inv_prune K A)|reflexivity]. Qed.

(* ---------------------------------------------------------------- commands *)
Lemma ar_del_all_In V : forall A f, In f (ar_del_all V A) <-> In f A /\ ~ In (f_bid f) V.
Proof.
  unfold ar_del_all. induction V as [|b V IH]; intros A f; simpl; [tauto|].
  rewrite IH. unfold ar_del. rewrite filter_In, negb_true_iff, str_eqb_neq. intuition.
Qed.

Lemma victims_of_In J keep b : In b (victims_of J keep) <-> In b (build_ids J) /\ ~ In b keep.
Proof. unfold victims_of. rewrite filter_In, negb_true_iff, bmem_false. tauto. Qed.

Definition mk_obs (s : status) (na l : list bid) : obs := {| o_status := s; o_noaudit := na; o_list := l |}.

(* what a command does once the index K to work on is fixed (no __exit__ pruning) *)
Definition finish (c : cmd) (K : index) (A : archive) (na : list bid) : obs * index * archive :=
  match c with
  | CScan _ => (mk_obs SOk na [], K, A)
  | CFind _ _ es =>
    match query K es with
    | Err => (mk_obs SErr na [], K, A)
    | Ok ret => (mk_obs SOk na (usort ret), K, A)
    end
  | CClean dry _ _ es =>
    match query K es with
    | Err => (mk_obs SErr na [], K, A)
    | Ok ret =>
      match closure K ret with
      | None => (mk_obs SFuel na [], K, A)
      | Some keep =>
        if dry then (mk_obs SOk na (victims_of K keep), K, A)
        else (mk_obs SOk na [], fold_left (fun J b => ix_remove b J) (victims_of K keep) K,
              ar_del_all (victims_of K keep) A)
      end
    end
  end.

Lemma ar_find_del b0 A b :
  ar_find b (ar_del b0 A) = if str_eqb b b0 then None else ar_find b A.
Proof.
  unfold ar_find, ar_del. induction A as [|f A IH]; simpl; [now destruct (str_eqb b b0)|].
  destruct (str_eqb (f_bid f) b0) eqn:E; simpl.
  - rewrite IH. apply str_eqb_eq in E. destruct (str_eqb b b0) eqn:E2; [reflexivity|].
    destruct (str_eqb (f_bid f) b) eqn:E3; [|reflexivity].
    apply str_eqb_eq in E3. apply str_eqb_neq in E2. congruence.
  - destruct (str_eqb (f_bid f) b) eqn:E3.
    + apply str_eqb_eq in E3. subst b. now rewrite E.
    + exact IH.
Qed.

Lemma wf_del b A : wf A -> wf (ar_del b A).
Proof.
  unfold wf, ar_del, ar_bids. induction A as [|f A IH]; simpl; intros H; [constructor|].
  inversion H as [|? ? Hn Hd]; subst. destruct (negb (str_eqb (f_bid f) b)); simpl; auto.
  constructor; auto. intros Hin. apply Hn. apply in_map_iff in Hin as (g & Hg & Hin).
  apply filter_In in Hin as [Hin _]. apply in_map_iff. eauto.
Qed.

Lemma wf_put f A : wf A -> wf (ar_put f A).
Proof.
  intros H. unfold ar_put, wf. simpl. constructor.
  - intros Hin. apply in_map_iff in Hin as (g & Hg & Hin). apply filter_In in Hin as [_ Hin].
    rewrite negb_true_iff, str_eqb_neq in Hin. congruence.
  - exact (wf_del (f_bid f) A H).
Qed.

Lemma Inv_remove b K A : Inv K A -> Inv (ix_remove b K) (ar_del b A).
Proof.
  intros [F R S T]. split.
  - simpl. now apply rows_sorted_filter.
  - intros b'. rewrite ix_remove_row, R, !rowspec_eq, ar_find_del. now destruct (str_eqb b' b).
  - simpl. now apply sorted_filter.
  - intros b' r. rewrite ix_remove_ref, T, !refspec_eq, ar_find_del.
    destruct (str_eqb b' b) eqn:E.
    + apply str_eqb_eq in E. simpl. tauto.
    + apply str_eqb_neq in E. tauto.
Qed.

Lemma Inv_remove_all V : forall K A, Inv K A ->
  Inv (fold_left (fun J b => ix_remove b J) V K) (ar_del_all V A).
Proof.
  unfold ar_del_all. induction V as [|b V IH]; intros K A H; simpl; [exact H|].
  apply IH. now apply Inv_remove.
Qed.

Lemma wf_del_all V : forall A, wf A -> wf (ar_del_all V A).
Proof.
  unfold ar_del_all. induction V as [|b V IH]; intros A H; simpl; [exact H|]. apply IH. now apply wf_del.
Qed.

Definition cmd_fail (c : cmd) : bool :=
  match c with CScan f => f | CFind _ f _ => f | CClean _ _ f _ => f end.

Lemma run_cmd_scanning c I A K A1 :
  scanning c = true -> fst (scan (I, false) A) = K -> Inv K A1 ->
  (forall V, Inv (fold_left (fun J b => ix_remove b J) V K) (ar_del_all V A1)) ->
  run_cmd c I A =
  if cmd_fail c && negb (found A) then (mk_obs SExit (noaudit_of A) [], K, A)
  else finish c K A (noaudit_of A).
Proof.
  intros Hsc HK Hinv Hrem.
  destruct (scan (I, false) A) as [K' cl] eqn:Es. simpl in HK. subst K'.
  pose proof (Inv_exit K cl A1 Hinv) as Hex.
  destruct c as [fail|noscan fail es|dry noscan fail es]; simpl in Hsc; unfold run_cmd, do_scan, finish, cmd_fail;
    try (apply negb_true_iff in Hsc; subst noscan); rewrite Es; cbn [fst snd].
  - rewrite Hex. destruct (fail && negb (found A)); reflexivity.
  - destruct (fail && negb (found A)); [now rewrite Hex|].
    destruct (query K es); now rewrite Hex.
  - destruct (fail && negb (found A)); [now rewrite Hex|].
    destruct (query K es) as [ret|]; [|now rewrite Hex].
    destruct (closure K ret) as [keep|]; [|now rewrite Hex].
    destruct dry; [now rewrite Hex|].
    rewrite (Inv_exit _ _ _ (Hrem (victims_of K keep))). reflexivity.
Qed.

Lemma run_cmd_noscan c I A A0 :
  scanning c = false -> Inv I A0 -> run_cmd c I A = finish c I A [].
Proof.
  intros Hsc Hinv. pose proof (Inv_exit I false A0 Hinv) as Hex.
  destruct c as [fail|noscan fail es|dry noscan fail es]; simpl in Hsc; try discriminate;
    apply negb_false_iff in Hsc; subst noscan; unfold run_cmd, do_scan, finish; cbn [fst snd].
  - destruct (query I es); now rewrite Hex.
  - destruct (query I es) as [ret|]; [|now rewrite Hex].
    destruct (closure I ret) as [keep|]; [|now rewrite Hex].
    destruct dry; [now rewrite Hex|].
    rewrite (Inv_exit _ _ _ (Inv_remove_all (victims_of I keep) I A0 Hinv)). reflexivity.
Qed.

(* one command: the result does not depend on the index it starts from *)
Theorem cmd_index_transparent c I A0 A :
  scanning c = true -> Inv I A0 -> wf A0 -> wf A -> compat A0 A ->
  run_cmd c I A = run_cmd c ix_empty A.
Proof.
  intros Hsc Hinv Hwf0 Hwf Hc.
  pose proof (scan_Inv I false A0 A Hinv Hwf0 Hwf Hc) as HK.
  rewrite (run_cmd_scanning c I A _ A Hsc eq_refl HK (fun V => Inv_remove_all V _ _ HK)).
  rewrite (scan_canonical I false false A0 A Hinv Hwf0 Hwf Hc) in *.
  symmetry. apply (run_cmd_scanning c ix_empty A _ A Hsc eq_refl HK (fun V => Inv_remove_all V _ _ HK)).
Qed.

(* ---------------------------------------------------------------- histories *)
Record hinv (hall : list event) (I : index) (A A0 : archive) : Prop := {
  hi_wf : wf A;
  hi_wf0 : wf A0;
  hi_inv : Inv I A0;
  hi_put : forall f, In f A -> In (EPut f) hall;
  hi_put0 : forall f, In f A0 -> In (EPut f) hall
}.

Lemma hinv_compat hall I A A0 : stat_faithful hall -> hinv hall I A A0 -> compat A0 A.
Proof. intros Hsf [_ _ _ H1 H2] g f Hg Hf. apply Hsf; auto. Qed.

Lemma finish_effect c K A na o K' A' :
  finish c K A na = (o, K', A') ->
  exists V, A' = ar_del_all V A /\ K' = fold_left (fun J b => ix_remove b J) V K.
Proof.
  unfold finish. destruct c as [fail|noscan fail es|dry noscan fail es].
  - intros [= _ <- <-]. now exists [].
  - destruct (query K es); intros [= _ <- <-]; now exists [].
  - destruct (query K es) as [ret|]; [|intros [= _ <- <-]; now exists []].
    destruct (closure K ret) as [keep|]; [|intros [= _ <- <-]; now exists []].
    destruct dry; intros [= _ <- <-]; [now exists []|]. now exists (victims_of K keep).
Qed.

Lemma hinv_del_all hall V K A A0 :
  hinv hall K A A0 ->
  hinv hall (fold_left (fun J b => ix_remove b J) V K) (ar_del_all V A) (ar_del_all V A0).
Proof.
  intros [H1 H2 H3 H4 H5]. split.
  - now apply wf_del_all.
  - now apply wf_del_all.
  - now apply Inv_remove_all.
  - intros f Hf. apply ar_del_all_In in Hf. now apply H4.
  - intros f Hf. apply ar_del_all_In in Hf. now apply H5.
Qed.

Lemma hinv_cmd hall c I A A0 o I' A' :
  stat_faithful hall -> hinv hall I A A0 -> run_cmd c I A = (o, I', A') ->
  exists A0', hinv hall I' A' A0'.
Proof.
  intros Hsf Hh Hrun. pose proof (hinv_compat _ _ _ _ Hsf Hh) as Hc.
  destruct Hh as [Hwf Hwf0 Hinv Hput Hput0].
  destruct (scanning c) eqn:Hsc.
  - pose proof (scan_Inv I false A0 A Hinv Hwf0 Hwf Hc) as HK.
    rewrite (run_cmd_scanning c I A _ A Hsc eq_refl HK (fun V => Inv_remove_all V _ _ HK)) in Hrun.
    assert (hinv hall (fst (scan (I, false) A)) A A) as Hh' by (split; auto).
    destruct (cmd_fail c && negb (found A)).
    + inversion Hrun; subst. now exists A'.
    + apply finish_effect in Hrun as (V & -> & ->). exists (ar_del_all V A). now apply hinv_del_all.
  - rewrite (run_cmd_noscan c I A A0 Hsc Hinv) in Hrun.
    apply finish_effect in Hrun as (V & -> & ->). exists (ar_del_all V A0). apply hinv_del_all. now split.
Qed.

Lemma hist_state_hinv hall h : forall I A A0,
  stat_faithful hall -> incl h hall -> hinv hall I A A0 ->
  exists A0', hinv hall (fst (hist_state I A h)) (snd (hist_state I A h)) A0'.
Proof.
  induction h as [|e h IH]; intros I A A0 Hsf Hincl Hh; simpl.
  - now exists A0.
  - assert (incl h hall) as Hincl' by (intros x Hx; apply Hincl; now right).
    destruct e as [f|b|c].
    + apply (IH I (ar_put f A) A0 Hsf Hincl'). destruct Hh as [H1 H2 H3 H4 H5]. split; auto.
      * now apply wf_put.
      * intros g [<-|Hg]; [apply Hincl; now left|]. apply filter_In in Hg as [Hg _]. auto.
    + apply (IH I (ar_del b A) A0 Hsf Hincl'). destruct Hh as [H1 H2 H3 H4 H5]. split; auto.
      * now apply wf_del.
      * intros g Hg. apply filter_In in Hg as [Hg _]. auto.
    + destruct (run_cmd c I A) as [[o I'] A'] eqn:E.
      destruct (hinv_cmd hall c I A A0 o I' A' Hsf Hh E) as (A0' & Hh').
      apply (IH I' A' A0' Hsf Hincl' Hh').
Qed.

Lemma hinv_init hall : hinv hall ix_empty [] [].
Proof. split; try apply wf_nil; try apply Inv_empty; intros f []. Qed.

(* The result of a scanning command after any history of uploads, removals,
   in-place replacements and earlier commands (with or without -n) is the
   result on a freshly built index. *)
Theorem index_transparent_proof : forall h c,
  stat_faithful h -> scanning c = true ->
  run_cmd c (fst (hist_state ix_empty [] h)) (snd (hist_state ix_empty [] h)) =
  run_cmd c ix_empty (snd (hist_state ix_empty [] h)).
Proof.
  intros h c Hsf Hsc.
  destruct (hist_state_hinv h h ix_empty [] [] Hsf (incl_refl _) (hinv_init h)) as (A0 & Hh).
  pose proof (hinv_compat _ _ _ _ Hsf Hh) as Hc. destruct Hh as [H1 H2 H3 _ _].
  now apply (cmd_index_transparent c _ A0).
Qed.

(* -n: the command behaves as the scanning command would have behaved on the
   archive as it was when the index was last brought up to date; the artifacts
   chosen there are deleted from the present archive *)
Theorem noscan_uses_last_scan_proof : forall c I A A0,
  scanning c = false -> Inv I A0 -> wf A0 ->
  exists V,
    run_cmd c I A =
      (mk_obs (o_status (fst (fst (run_cmd (with_scan c) ix_empty A0)))) []
              (o_list (fst (fst (run_cmd (with_scan c) ix_empty A0)))),
       snd (fst (run_cmd (with_scan c) ix_empty A0)),
       ar_del_all V A) /\
    snd (run_cmd (with_scan c) ix_empty A0) = ar_del_all V A0 /\
    Inv (snd (fst (run_cmd (with_scan c) ix_empty A0))) (ar_del_all V A0).
Proof.
  intros c I A A0 Hsc Hinv Hwf.
  rewrite (run_cmd_noscan c I A A0 Hsc Hinv).
  assert (fst (scan (ix_empty, false) A0) = I) as HK.
  { eapply Inv_unique; [|exact Hinv]. eapply scan_Inv; [apply Inv_empty|apply wf_nil|exact Hwf|apply compat_nil]. }
  assert (scanning (with_scan c) = true) as Hsc' by (destruct c; reflexivity).
  rewrite (run_cmd_scanning (with_scan c) ix_empty A0 I A0 Hsc' HK Hinv (fun V => Inv_remove_all V _ _ Hinv)).
  assert (cmd_fail (with_scan c) = false) as -> by (destruct c; reflexivity). simpl andb. cbv iota.
  destruct c as [fail|noscan fail es|dry noscan fail es]; simpl in Hsc; try discriminate; unfold with_scan, finish.
  - destruct (query I es); exists []; simpl; auto.
  - destruct (query I es) as [ret|]; [|exists []; simpl; auto].
    destruct (closure I ret) as [keep|]; [|exists []; simpl; auto].
    destruct dry; [exists []; simpl; auto|].
    exists (victims_of I keep). simpl. split; [reflexivity|]. split; [reflexivity|]. now apply Inv_remove_all.
Qed.

(* ---------------------------------------------------------------- what clean / find do *)
Lemma clean_effect dry noscan fail es I A o I' A' :
  run_cmd (CClean dry noscan fail es) I A = (o, I', A') -> o_status o = SOk ->
  exists sel keep,
    query (qix noscan I A) es = Ok sel /\
    (forall x, In x keep <-> reach (qix noscan I A) sel x) /\
    o_list o = (if dry then victims_of (qix noscan I A) keep else []) /\
    A' = (if dry then A else ar_del_all (victims_of (qix noscan I A) keep) A).
Proof.
  unfold run_cmd, do_scan, qix. destruct noscan; cbn [fst snd].
  - destruct (query I es) as [sel|]; [|intros [= <- _ _]; discriminate].
    destruct (closure I sel) as [keep|] eqn:Ec; [|intros [= <- _ _]; discriminate].
    pose proof (closure_correct I sel keep Ec) as Hk.
    destruct dry; intros [= <- _ <-] _; exists sel, keep; auto.
  - destruct (scan (I, false) A) as [K cl]. cbn [fst snd].
    destruct (fail && negb (found A)); [intros [= <- _ _]; discriminate|].
    destruct (query K es) as [sel|]; [|intros [= <- _ _]; discriminate].
    destruct (closure K sel) as [keep|] eqn:Ec; [|intros [= <- _ _]; discriminate].
    pose proof (closure_correct K sel keep Ec) as Hk.
    destruct dry; intros [= <- _ <-] _; exists sel, keep; auto.
Qed.

Theorem clean_keeps_selected_and_closure_proof noscan fail es I A o I' A' :
  run_cmd (CClean false noscan fail es) I A = (o, I', A') -> o_status o = SOk ->
  exists sel, query (qix noscan I A) es = Ok sel /\
    forall f, In f A -> reach (qix noscan I A) sel (f_bid f) -> In f A'.
Proof.
  intros Hrun Hok. destruct (clean_effect _ _ _ _ _ _ _ _ _ Hrun Hok) as (sel & keep & Hq & Hk & _ & ->).
  exists sel. split; [exact Hq|]. intros f Hf Hr. apply ar_del_all_In. split; [exact Hf|].
  rewrite victims_of_In. intros [_ Hn]. apply Hn. now apply Hk.
Qed.

Theorem clean_deletes_everything_else_proof noscan fail es I A o I' A' :
  run_cmd (CClean false noscan fail es) I A = (o, I', A') -> o_status o = SOk ->
  exists sel, query (qix noscan I A) es = Ok sel /\
    forall f, In f A' <-> In f A /\ (reach (qix noscan I A) sel (f_bid f) \/
                                     ~ In (f_bid f) (build_ids (qix noscan I A))).
Proof.
  intros Hrun Hok. destruct (clean_effect _ _ _ _ _ _ _ _ _ Hrun Hok) as (sel & keep & Hq & Hk & _ & ->).
  exists sel. split; [exact Hq|]. intros f. rewrite ar_del_all_In, victims_of_In, Hk.
  split; intros [Hf H]; split; auto.
  - destruct (in_dec (list_eq_dec N.eq_dec) (f_bid f) (build_ids (qix noscan I A))) as [Hin|Hn]; [|auto].
    left. destruct (bmem (f_bid f) keep) eqn:E.
    + apply bmem_In in E. now apply Hk.
    + apply bmem_false in E. exfalso. apply H. split; [exact Hin|]. intros Hr. apply E. now apply Hk.
  - intros [Hin Hn]. destruct H as [H|H]; auto.
Qed.

Theorem dry_run_deletes_nothing_proof c I A :
  (match c with CClean false _ _ _ => o_status (fst (fst (run_cmd c I A))) <> SOk | _ => True end) ->
  snd (run_cmd c I A) = A.
Proof.
  destruct c as [fail|noscan fail es|dry noscan fail es]; unfold run_cmd, do_scan.
  - intros _. destruct (scan (I, false) A); reflexivity.
  - intros _. destruct noscan; cbn [fst snd].
    + destruct (query I es); reflexivity.
    + destruct (scan (I, false) A) as [K cl]; cbn [fst snd].
      destruct (fail && negb (found A)); [reflexivity|]. destruct (query K es); reflexivity.
  - intros H. destruct noscan; cbn [fst snd] in *.
    + destruct (query I es) as [sel|]; [|reflexivity].
      destruct (closure I sel); [|reflexivity]. destruct dry; [reflexivity|]. simpl in H. congruence.
    + destruct (scan (I, false) A) as [K cl]; cbn [fst snd] in *.
      destruct (fail && negb (found A)); [reflexivity|].
      destruct (query K es) as [sel|]; [|reflexivity].
      destruct (closure K sel); [|reflexivity]. destruct dry; [reflexivity|]. simpl in H. congruence.
Qed.

(* --dry-run prints exactly what the same clean would delete *)
Theorem dry_run_lists_victims_proof noscan fail es I A :
  let d := run_cmd (CClean true noscan fail es) I A in
  let r := run_cmd (CClean false noscan fail es) I A in
  o_status (fst (fst d)) = o_status (fst (fst r)) /\
  (o_status (fst (fst d)) = SOk ->
   forall f, In f (snd r) <-> In f A /\ ~ In (f_bid f) (o_list (fst (fst d)))).
Proof.
  unfold run_cmd, do_scan. destruct noscan; cbn [fst snd].
  - destruct (query I es) as [sel|]; [|simpl; split; [reflexivity|discriminate]].
    destruct (closure I sel) as [keep|]; [|simpl; split; [reflexivity|discriminate]].
    simpl. split; [reflexivity|]. intros _ f. apply ar_del_all_In.
  - destruct (scan (I, false) A) as [K cl]; cbn [fst snd].
    destruct (fail && negb (found A)); [simpl; split; [reflexivity|discriminate]|].
    destruct (query K es) as [sel|]; [|simpl; split; [reflexivity|discriminate]].
    destruct (closure K sel) as [keep|]; [|simpl; split; [reflexivity|discriminate]].
    simpl. split; [reflexivity|]. intros _ f. apply ar_del_all_In.
Qed.

Theorem find_lists_exactly_selected_proof noscan fail es I A o I' A' :
  run_cmd (CFind noscan fail es) I A = (o, I', A') -> o_status o = SOk ->
  exists sel, query (qix noscan I A) es = Ok sel /\ o_list o = usort sel /\
              (forall b, In b (o_list o) <-> In b sel) /\ A' = A.
Proof.
  unfold run_cmd, do_scan, qix. destruct noscan; cbn [fst snd].
  - destruct (query I es) as [sel|]; intros [= <- _ <-]; [|discriminate]. intros _.
    exists sel. simpl. repeat split; auto; apply usort_In.
  - destruct (scan (I, false) A) as [K cl]; cbn [fst snd].
    destruct (fail && negb (found A)); [intros [= <- _ _]; discriminate|].
    destruct (query K es) as [sel|]; intros [= <- _ <-]; [|discriminate]. intros _.
    exists sel. simpl. repeat split; auto; apply usort_In.
Qed.

Theorem never_out_of_fuel_proof c I A : o_status (fst (fst (run_cmd c I A))) <> SFuel.
Proof.
  destruct c as [fail|noscan fail es|dry noscan fail es]; unfold run_cmd, do_scan.
  - destruct (scan (I, false) A) as [K cl]; cbn [fst snd]. destruct (fail && negb (found A)); simpl; discriminate.
  - destruct noscan; cbn [fst snd].
    + destruct (query I es); simpl; discriminate.
    + destruct (scan (I, false) A) as [K cl]; cbn [fst snd].
      destruct (fail && negb (found A)); [simpl; discriminate|]. destruct (query K es); simpl; discriminate.
  - destruct noscan; cbn [fst snd].
    + destruct (query I es) as [sel|]; [|simpl; discriminate].
      destruct (closure I sel) eqn:E; [|now apply closure_fuel_enough_proof in E].
      destruct dry; simpl; discriminate.
    + destruct (scan (I, false) A) as [K cl]; cbn [fst snd].
      destruct (fail && negb (found A)); [simpl; discriminate|].
      destruct (query K es) as [sel|]; [|simpl; discriminate].
      destruct (closure K sel) eqn:E; [|now apply closure_fuel_enough_proof in E].
      destruct dry; simpl; discriminate.
Qed.

(* ---------------------------------------------------------------- audit-level references *)
Inductive dist_reach : list arec -> bid -> Prop :=
| dr_here deps b sub : In (ARec true b sub) deps -> dist_reach deps b
| dr_below deps b0 sub b : In (ARec false b0 sub) deps -> dist_reach sub b -> dist_reach deps b.

Lemma arec_ind' (P : arec -> Prop) :
  (forall d b deps, Forall P deps -> P (ARec d b deps)) -> forall r, P r.
Proof.
  intros H. fix IH 1. intros [d b deps]. apply H.
  induction deps as [|r deps IHd]; constructor; [apply IH|exact IHd].
Qed.

Lemma rec_refs_spec : forall r b, In b (rec_refs r) <->
  match r with ARec true b0 _ => b = b0 | ARec false _ sub => dist_reach sub b end.
Proof.
  induction r as [dist b0 sub IH] using arec_ind'. intros b. destruct dist; simpl.
  - intuition.
  - rewrite Forall_forall in IH. rewrite in_flat_map. split.
    + intros (r & Hr & Hb). apply (IH r Hr) in Hb. destruct r as [[|] b1 sub1].
      * subst. eapply dr_here; eauto.
      * eapply dr_below; eauto.
    + intros H. inversion H as [deps b1 sub1 Hin|deps b1 sub1 b2 Hin Hd]; subst.
      * exists (ARec true b sub1). split; [exact Hin|]. apply (IH _ Hin). reflexivity.
      * exists (ARec false b1 sub1). split; [exact Hin|]. apply (IH _ Hin). exact Hd.
Qed.

Theorem refs_skip_intermediate_proof au b : In b (audit_refs au) <-> dist_reach (au_deps au) b.
Proof.
  unfold audit_refs. rewrite usort_In, in_flat_map. split.
  - intros (r & Hr & Hb). apply rec_refs_spec in Hb. destruct r as [[|] b1 sub1].
    + subst. eapply dr_here; eauto.
    + eapply dr_below; eauto.
  - intros H. destruct H as [deps b1 sub1 Hin|deps b1 sub1 b2 Hin Hd].
    + exists (ARec true b1 sub1). split; [exact Hin|]. apply rec_refs_spec. reflexivity.
    + exists (ARec false b1 sub1). split; [exact Hin|]. apply rec_refs_spec. exact Hd.
Qed.

(* ---------------------------------------------------------------- packaged statements *)
Theorem limit_queue_topn_proof asc n its :
  (0 < n)%nat -> NoDup (map fst its) ->
  let q := q_run asc n its in
  length q = Nat.min n (length its) /\ incl q its /\ NoDup (map fst q) /\
  (forall x y, In x q -> In y its -> ~ In y q -> geb asc (snd x) (snd y) = true) /\
  StronglySorted (fun a b : qitem => geb asc (snd a) (snd b) = true) q.
Proof.
  intros Hn Hnd. destruct (q_run_inv asc n its Hn Hnd) as [H1 H2 H3 H4 _ H6]. repeat split; auto.
Qed.

Theorem sort_order_total_proof asc :
  (forall a, geb asc a a = true) /\
  (forall a b, geb asc a b = true \/ geb asc b a = true) /\
  (forall a b c, geb asc a b = true -> geb asc b c = true -> geb asc a c = true) /\
  (forall k, geb asc (Some k) None = true /\ geb asc None (Some k) = false).
Proof.
  split; [apply geb_refl|]. split; [apply geb_total|]. split; [apply geb_trans|]. intros k. split; reflexivity.
Qed.

Lemma Inv_build_ids K A f : Inv K A -> wf A -> In f A ->
  (~ In (f_bid f) (build_ids K) <-> f_audit f = None).
Proof.
  intros [_ R _ _] Hwf Hf. unfold build_ids. rewrite <- find_row_None, R, rowspec_eq, (ar_find_wf A f Hwf Hf).
  unfold rowof. destruct (f_audit f); split; congruence.
Qed.

Lemma Inv_NoDup_ids K A : Inv K A -> NoDup (build_ids K).
Proof.
  intros [F _ _ _]. unfold build_ids. apply (ssorted_NoDup bid str_cmp str_cmp_refl).
  now apply rows_sorted_keys.
Qed.

Theorem clean_exact_on_archive_proof I A0 A fail es o I' A' :
  Inv I A0 -> wf A0 -> wf A -> compat A0 A ->
  run_cmd (CClean false false fail es) I A = (o, I', A') -> o_status o = SOk ->
  let K := fst (scan (ix_empty, false) A) in
  Inv K A /\ NoDup (build_ids K) /\
  exists sel, query K es = Ok sel /\
    forall f, In f A' <-> In f A /\ (f_audit f = None \/ reach K sel (f_bid f)).
Proof.
  intros Hinv Hwf0 Hwf Hc Hrun Hok K.
  assert (Inv K A) as HK by (eapply scan_Inv; [apply Inv_empty|apply wf_nil|exact Hwf|apply compat_nil]).
  split; [exact HK|]. split; [apply Inv_NoDup_ids with (A := A); exact HK|].
  destruct (clean_deletes_everything_else_proof _ _ _ _ _ _ _ _ Hrun Hok) as (sel & Hq & Hiff).
  unfold qix in *. rewrite (scan_canonical I false false A0 A Hinv Hwf0 Hwf Hc) in *. fold K in Hq, Hiff.
  exists sel. split; [exact Hq|]. intros f. rewrite Hiff. split; intros [Hf H]; split; auto.
  - destruct H as [H|H]; [auto|]. left. now apply (Inv_build_ids K A f HK Hwf Hf).
  - destruct H as [H|H]; [|auto]. right. now apply (Inv_build_ids K A f HK Hwf Hf).
Qed.
