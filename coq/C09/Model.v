(* C09 — model of the file-archive upload / cache-mirror / download paths of
   pym/bob/archive.py (LocalArchive._openUploadFile, LocalArchiveUploader,
   BaseArchive._uploadPackage/_uploadLocalFile/cachePackage, Tee, MirrorWriter,
   MirrorLeecher, LocalArchiveDownloader).  Definitions only.

   A labelled transition system over a small file-system model:
     names -> inode,  inode -> (data, mode),  directories,  fresh-inode counter.
   Any number of processes, each running one job (package uploader, metadata
   uploader, cache mirror, reader) with its own program counter.  A label is
   either one step of one process -- carrying the environment's choices for that
   step: an injected OSError ("fault") and a number (temporary-name choice of
   mkstemp / read size) -- or the kill of one process at whatever program
   counter it has.  Everything is executable ([run], [trace]) so that the
   harness can replay the schedule of a real run with vm_compute. *)
From Coq Require Import List NArith Bool.
Import ListNotations.
Open Scope N_scope.

Definition bid := N.          (* the 20 build-id bytes as a big-endian number *)
Definition inode := N.
Definition data := list N.    (* bytes *)

(* <archive>/xx/yy/<rest>-1.tgz | <rest>-1.buildid/.fprnt | a mkstemp name in directory d *)
Inductive name :=
| Dest (b : bid)
| Meta (b : bid) (sfx : N)
| Tmp (d : N) (k : N).

(* _getPath: the directory is made of the first two bytes of the id *)
Definition dir_of (b : bid) : N := N.shiftr b 144.

Definition ndir (n : name) : N :=
  match n with Dest b => dir_of b | Meta b _ => dir_of b | Tmp d _ => d end.

Definition name_eqb (a b : name) : bool :=
  match a, b with
  | Dest x, Dest y => x =? y
  | Meta x s, Meta y s' => (x =? y) && (s =? s')
  | Tmp d k, Tmp d' k' => (d =? d') && (k =? k')
  | _, _ => false
  end.

Definition is_tmp (n : name) : bool := match n with Tmp _ _ => true | _ => false end.

Record fs := {
  f_dirs : N -> bool;
  f_names : name -> option inode;
  f_data : inode -> data;
  f_mode : inode -> N;
  f_next : inode                (* every inode in use is below f_next *)
}.

Definition fs0 : fs :=
  {| f_dirs := fun _ => false; f_names := fun _ => None; f_data := fun _ => [];
     f_mode := fun _ => 0; f_next := 0 |}.

Definition set_dir (f : fs) (d : N) : fs :=
  {| f_dirs := fun x => if x =? d then true else f_dirs f x; f_names := f_names f;
     f_data := f_data f; f_mode := f_mode f; f_next := f_next f |}.

Definition set_name (f : fs) (n : name) (v : option inode) : fs :=
  {| f_dirs := f_dirs f; f_names := fun x => if name_eqb x n then v else f_names f x;
     f_data := f_data f; f_mode := f_mode f; f_next := f_next f |}.

Definition set_data (f : fs) (i : inode) (d : data) : fs :=
  {| f_dirs := f_dirs f; f_names := f_names f;
     f_data := fun x => if x =? i then d else f_data f x; f_mode := f_mode f; f_next := f_next f |}.

Definition set_mode (f : fs) (i : inode) (m : N) : fs :=
  {| f_dirs := f_dirs f; f_names := f_names f; f_data := f_data f;
     f_mode := fun x => if x =? i then m else f_mode f x; f_next := f_next f |}.

(* open(O_CREAT|O_EXCL, 0600) of a name that does not exist: a NEW inode *)
Definition create_excl (f : fs) (n : name) : fs :=
  let i := f_next f in
  {| f_dirs := f_dirs f; f_names := fun x => if name_eqb x n then Some i else f_names f x;
     f_data := fun x => if x =? i then [] else f_data f x;
     f_mode := fun x => if x =? i then 384 else f_mode f x;
     f_next := N.succ i |}.

(* ---- jobs *)
Inductive kind :=
| KUpload              (* BaseArchive._uploadPackage: _openUploadFile(bid, ".tgz", overwrite=False) *)
| KMirror              (* Tee/MirrorWriter on a cache archive: cachePackage -> same uploader, commit/abort *)
| KMeta (sfx : N)      (* BaseArchive._uploadLocalFile: overwrite=True (.buildid / .fprnt) *)
| KRead.               (* LocalArchiveDownloader + read loop *)

Record job := {
  j_kind : kind;
  j_bid : bid;
  j_chunks : list data;   (* the write() calls issued on the temporary file, in order *)
  j_mode : option N;      (* archive option fileMode *)
  j_ok : bool             (* packing / stream consumption ended without an exception *)
}.

Definition payload (j : job) : data := concat (j_chunks j).

Definition is_uploader (j : job) : bool :=
  match j_kind j with KUpload | KMirror => true | _ => false end.

Definition dest_of (j : job) : name :=
  match j_kind j with KMeta s => Meta (j_bid j) s | _ => Dest (j_bid j) end.

(* What Tee/MirrorLeecher forwards to a mirror.  [src] is the sequence of
   (non-empty) read() results of the source stream.  The consumer (the tar
   stream reader) stops at the end-of-archive marker, possibly before the end
   of the stream.  [ok] = the consumer finished without an exception AND
   Tee.__exit__ could then drain the rest of the stream through the leecher;
   then [n] is the number of reads the consumer made and everything is
   forwarded.  Otherwise (exception in the consumer, or a failing read while
   draining) [n] is the number of reads that had succeeded: those were
   forwarded, nothing more is read and the mirror is aborted. *)
Definition tee_forwarded (src : list data) (consumed : nat) (ok : bool) : list data :=
  firstn consumed src ++ (if ok then skipn consumed src else []).

Definition mirror_job (b : bid) (src : list data) (consumed : nat) (mode : option N) (ok : bool) : job :=
  {| j_kind := KMirror; j_bid := b; j_chunks := tee_forwarded src consumed ok; j_mode := mode; j_ok := ok |}.

Inductive result :=
| ROk                (* "ok" and this process linked the artifact *)
| RSkipped           (* ArtifactExistsError at the exists-check *)
| RLost              (* link -> FileExistsError: "lost race", reported as ok *)
| RFail              (* error reported (or mirror aborted), nothing was published by this process *)
| RFailPub           (* error raised by unlink after this process had linked the artifact *)
| RNotFound          (* reader: no such artifact *)
| RRead (d : data).  (* reader: the bytes read until EOF *)

Inductive pc :=
| PStart
| PIsDir
| PMkdirs
| PMkTemp
| PWrite (t : name) (i : inode) (rest : list data) (ok : bool)  (* fd i open for writing *)
| PClose (t : name) (i : inode) (ok : bool)
| PChmod (t : name) (m : N)
| PPublish (t : name)                  (* link (package) or replace (metadata) *)
| PUnlink (t : name) (r : result)
| PRead (i : inode) (acc : data)       (* fd i open for reading *)
| PDone (r : result)
| PDead (published : bool).            (* killed; the flag remembers whether it had linked the artifact *)

(* observable file-system operation of one step, with its outcome *)
Inductive obs :=
| ONone
| OIsFile (n : name) (r : bool)
| OIsDir (d : N) (r : bool)
| OMkdirs (d : N) (ok : bool)
| OMkTemp (n : name) (ok : bool)
| OWrite (n : name) (len : N) (ok : bool)
| OClose (n : name) (ok : bool)
| OChmod (n : name) (m : N) (ok : bool)
| OLink (t n : name) (r : N)           (* 0 linked, 1 EEXIST, 2 other error *)
| OReplace (t n : name) (ok : bool)
| OUnlink (t : name) (ok : bool)
| OOpen (n : name) (ok : bool)
| ORead (len : N).

Definition is_some {A} (o : option A) : bool := match o with Some _ => true | None => false end.

Definition after_writes (j : job) (t : name) (i : inode) (rest : list data) (ok : bool) : pc :=
  match rest with
  | [] => PClose t i (ok && j_ok j)
  | _ => PWrite t i rest ok
  end.

Definition lenN (d : data) : N := N.of_nat (length d).

(* file.read(k): k = 0 stands for read(-1) (everything that is left) *)
Definition read_at (d : data) (off : nat) (k : N) : data :=
  let rest := skipn off d in
  if k =? 0 then rest else firstn (N.to_nat k) rest.

Definition do_isdir (f : fs) (j : job) (fault : bool) : fs * pc * obs :=
  let d := ndir (dest_of j) in
  (* os.path.isdir swallows OSError and answers False *)
  let r := negb fault && f_dirs f d in
  (f, if r then PMkTemp else PMkdirs, OIsDir d r).

(* One step of one process.  [fault]: the operation raises an OSError that is
   not part of the protocol (EIO, ENOSPC, EPERM ...) and has no effect. *)
Definition step_proc (f : fs) (j : job) (c : pc) (fault : bool) (k : N) : fs * pc * obs :=
  let dest := dest_of j in
  match c with
  | PStart =>
      match j_kind j with
      | KRead =>
          if fault then (f, PDone RFail, OOpen dest false) else
          match f_names f dest with
          | Some i => (f, PRead i [], OOpen dest true)
          | None => (f, PDone RNotFound, OOpen dest false)
          end
      | KMeta _ => do_isdir f j fault      (* overwrite=True: no exists-check *)
      | _ =>
          (* os.path.isfile swallows OSError and answers False *)
          let r := negb fault && is_some (f_names f dest) in
          (f, if r then PDone RSkipped else PIsDir, OIsFile dest r)
      end
  | PIsDir => do_isdir f j fault
  | PMkdirs =>
      let d := ndir dest in
      if fault then (f, PDone RFail, OMkdirs d false)
      else (set_dir f d, PMkTemp, OMkdirs d true)           (* exist_ok=True *)
  | PMkTemp =>
      let t := Tmp (ndir dest) k in
      if fault || negb (f_dirs f (ndir dest)) then (f, PDone RFail, OMkTemp t false)
      else if is_some (f_names f t) then (f, PMkTemp, ONone)  (* O_EXCL: mkstemp tries the next candidate *)
      else (create_excl f t, after_writes j t (f_next f) (j_chunks j) true, OMkTemp t true)
  | PWrite t i rest ok =>
      match rest with
      | [] => (f, PClose t i false, ONone)
      | ch :: r =>
          if fault then (f, after_writes j t i r false, OWrite t (lenN ch) false)
          else (set_data f i (f_data f i ++ ch), after_writes j t i r ok, OWrite t (lenN ch) true)
      end
  | PClose t i ok =>
      (* an exception raised by tmp.close() leaves __exit__ before link AND before unlink *)
      if fault then (f, PDone RFail, OClose t false)
      else (f, if ok then match j_mode j with Some m => PChmod t m | None => PPublish t end
               else PUnlink t RFail, OClose t true)
  | PChmod t m =>
      match f_names f t with
      | Some i => if fault then (f, PDone RFail, OChmod t m false)
                  else (set_mode f i m, PPublish t, OChmod t m true)
      | None => (f, PDone RFail, OChmod t m false)
      end
  | PPublish t =>
      match j_kind j with
      | KMeta _ =>
          match f_names f t with
          | Some i => if fault then (f, PDone RFail, OReplace t dest false)
                      else (set_name (set_name f dest (Some i)) t None, PDone ROk, OReplace t dest true)
          | None => (f, PDone RFail, OReplace t dest false)
          end
      | KRead => (f, PDone RFail, ONone)     (* a reader never gets here *)
      | _ =>
          if fault then (f, PUnlink t RFail, OLink t dest 2) else
          match f_names f t with
          | None => (f, PUnlink t RFail, OLink t dest 2)
          | Some i =>
              if is_some (f_names f dest) then (f, PUnlink t RLost, OLink t dest 1)   (* FileExistsError: pass *)
              else (set_name f dest (Some i), PUnlink t ROk, OLink t dest 0)
          end
      end
  | PUnlink t r =>
      let failed := match r with ROk => RFailPub | _ => RFail end in
      if fault || negb (is_some (f_names f t)) then (f, PDone failed, OUnlink t false)
      else (set_name f t None, PDone r, OUnlink t true)
  | PRead i acc =>
      if fault then (f, PDone RFail, ORead 0) else
      let ch := read_at (f_data f i) (length acc) k in
      match ch with
      | [] => (f, PDone (RRead acc), ORead 0)
      | _ => (f, PRead i (acc ++ ch), ORead (lenN ch))
      end
  | PDone r => (f, PDone r, ONone)
  | PDead b => (f, PDead b, ONone)
  end.

Definition kill_pc (c : pc) : pc :=
  match c with
  | PDone r => PDone r
  | PDead b => PDead b
  | PUnlink _ ROk => PDead true
  | _ => PDead false
  end.

(* ---- the system *)
Record st := { s_fs : fs; s_procs : nat -> option (job * pc) }.

Inductive lab :=
| LStep (p : nat) (fault : bool) (k : N)
| LKill (p : nat).

Definition pupd (ps : nat -> option (job * pc)) (p : nat) (x : job * pc) : nat -> option (job * pc) :=
  fun q => if Nat.eqb q p then Some x else ps q.

Definition step (s : st) (l : lab) : st * obs :=
  match l with
  | LStep p fault k =>
      match s_procs s p with
      | Some (j, c) =>
          match step_proc (s_fs s) j c fault k with
          | (f', c', o) => ({| s_fs := f'; s_procs := pupd (s_procs s) p (j, c') |}, o)
          end
      | None => (s, ONone)
      end
  | LKill p =>
      match s_procs s p with
      | Some (j, c) => ({| s_fs := s_fs s; s_procs := pupd (s_procs s) p (j, kill_pc c) |}, ONone)
      | None => (s, ONone)
      end
  end.

Fixpoint run (s : st) (ls : list lab) : st :=
  match ls with [] => s | l :: r => run (fst (step s l)) r end.

Fixpoint trace (s : st) (ls : list lab) : list obs :=
  match ls with [] => [] | l :: r => snd (step s l) :: trace (fst (step s l)) r end.

(* any number of processes, all at their first instruction, on an empty archive *)
Definition init (js : list job) : st :=
  {| s_fs := fs0; s_procs := fun p => option_map (fun j => (j, PStart)) (nth_error js p) |}.

Definition reachable (s : st) : Prop := exists js ls, s = run (init js) ls.

(* the temporary name a process holds, and whether it is still before its link/replace *)
Definition held (c : pc) : option name :=
  match c with
  | PWrite t _ _ _ => Some t | PClose t _ _ => Some t | PChmod t _ => Some t
  | PPublish t => Some t | PUnlink t _ => Some t
  | _ => None
  end.

Definition pre (c : pc) : bool :=
  match c with
  | PWrite _ _ _ _ => true | PClose _ _ _ => true | PChmod _ _ => true | PPublish _ => true
  | _ => false
  end.

(* the process has linked the artifact name itself *)
Definition published_by (c : pc) : bool :=
  match c with
  | PUnlink _ ROk => true
  | PDone ROk => true
  | PDone RFailPub => true
  | PDead true => true
  | _ => false
  end.

(* ---- what the harness looks at *)
Definition file_at (s : st) (n : name) : option (data * N) :=
  match f_names (s_fs s) n with
  | Some i => Some (f_data (s_fs s) i, f_mode (s_fs s) i)
  | None => None
  end.

Definition pc_of (s : st) (p : nat) : option pc := option_map snd (s_procs s p).

Record outcome := {
  o_trace : list obs;
  o_files : list (option (data * N));   (* file_at for the queried names *)
  o_pcs : list (option pc)
}.

Definition observe (js : list job) (ls : list lab) (names : list name) : outcome :=
  let s := run (init js) ls in
  {| o_trace := trace (init js) ls;
     o_files := map (file_at s) names;
     o_pcs := map (pc_of s) (seq 0 (length js)) |}.
