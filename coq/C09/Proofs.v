(* C09 — proofs: an inductive invariant of the interleaving LTS of Model.v and
   the property lemmas derived from it. *)
From Coq Require Import List NArith Bool Lia PeanoNat.
Require Import BobV.C09.Model.
Import ListNotations.
Open Scope N_scope.

(* ------------------------------------------------------------------ basics *)
Lemma name_eqb_spec a b : reflect (a = b) (name_eqb a b).
Proof.
  destruct a, b; cbn; try (constructor; congruence).
  - destruct (N.eqb_spec b0 b); constructor; congruence.
  - destruct (N.eqb_spec b0 b); destruct (N.eqb_spec sfx sfx0); cbn; constructor; congruence.
  - destruct (N.eqb_spec d d0); destruct (N.eqb_spec k k0); cbn; constructor; congruence.
Qed.

Lemma name_eqb_refl a : name_eqb a a = true.
Proof. destruct (name_eqb_spec a a); congruence. Qed.

(* per-process part of the invariant *)
Definition pinv_pc (f : fs) (j : job) (c : pc) : Prop :=
  match c with
  | PWrite t i rest ok =>
      f_names f t = Some i /\ (ok = true -> payload j = f_data f i ++ concat rest)
  | PClose t i ok =>
      f_names f t = Some i /\ (ok = true -> f_data f i = payload j /\ j_ok j = true)
  | PChmod t _ => exists i, f_names f t = Some i /\ f_data f i = payload j /\ j_ok j = true
  | PPublish t => exists i, f_names f t = Some i /\ f_data f i = payload j /\ j_ok j = true
  | PRead i acc => f_names f (Dest (j_bid j)) = Some i /\ acc = firstn (length acc) (f_data f i)
  | PDone (RRead acc) => exists i, f_names f (Dest (j_bid j)) = Some i /\ f_data f i = acc
  | PUnlink _ (RRead _) => False
  | PUnlink _ RFailPub => False
  | _ => True
  end.

Definition pinv (f : fs) (j : job) (c : pc) : Prop :=
  (forall t, held c = Some t -> is_tmp t = true /\ exists i, f_names f t = Some i) /\
  (forall t i, pre c = true -> held c = Some t -> f_names f t = Some i ->
     forall b, f_names f (Dest b) <> Some i) /\
  pinv_pc f j c.

Record inv (s : st) : Prop := {
  i_p : forall p j c, s_procs s p = Some (j, c) -> pinv (s_fs s) j c;
  i_q : forall p q j c j' c' t, p <> q -> s_procs s p = Some (j, c) -> s_procs s q = Some (j', c') ->
        held c = Some t -> held c' = Some t -> False;
  i_lt : forall n i, f_names (s_fs s) n = Some i -> i < f_next (s_fs s);
  i_inj : forall t t' i, is_tmp t = true -> is_tmp t' = true ->
        f_names (s_fs s) t = Some i -> f_names (s_fs s) t' = Some i -> t = t';
  i_dest : forall b i, f_names (s_fs s) (Dest b) = Some i ->
        exists p j c, s_procs s p = Some (j, c) /\ j_bid j = b /\ is_uploader j = true /\
                      published_by c = true /\ f_data (s_fs s) i = payload j /\ j_ok j = true;
  i_pub : forall p j c, s_procs s p = Some (j, c) -> published_by c = true -> is_uploader j = true ->
        j_ok j = true /\ exists i, f_names (s_fs s) (Dest (j_bid j)) = Some i /\ f_data (s_fs s) i = payload j
}.

(* ------------------------------------------------------------------ effect of one step on the file system *)
Inductive eff (f : fs) (j : job) (c : pc) : fs -> pc -> Prop :=
| eff_same c' : eff f j c f c'
| eff_dir d c' : eff f j c (set_dir f d) c'
| eff_alloc t c' : is_tmp t = true -> f_names f t = None -> held c = None -> held c' = Some t ->
    eff f j c (create_excl f t) c'
| eff_write t i d c' : pre c = true -> held c = Some t -> f_names f t = Some i ->
    eff f j c (set_data f i d) c'
| eff_mode t i m c' : pre c = true -> held c = Some t -> f_names f t = Some i ->
    eff f j c (set_mode f i m) c'
| eff_link t i : pre c = true -> held c = Some t -> f_names f t = Some i ->
    f_names f (Dest (j_bid j)) = None -> is_uploader j = true ->
    f_data f i = payload j -> j_ok j = true ->
    eff f j c (set_name f (Dest (j_bid j)) (Some i)) (PUnlink t ROk)
| eff_unlink t c' : held c = Some t -> held c' = None -> eff f j c (set_name f t None) c'
| eff_replace t i b s c' : held c = Some t -> held c' = None -> f_names f t = Some i ->
    eff f j c (set_name (set_name f (Meta b s) (Some i)) t None) c'.

Ltac dm H :=
  match type of H with
  | context [match ?x with _ => _ end] => destruct x eqn:?
  | context [if ?x then _ else _] => destruct x eqn:?
  end.

Lemma after_writes_held j t i rest ok : held (after_writes j t i rest ok) = Some t.
Proof. destruct rest; reflexivity. Qed.

Lemma after_writes_pre j t i rest ok : pre (after_writes j t i rest ok) = true.
Proof. destruct rest; reflexivity. Qed.

Lemma dest_uploader j : is_uploader j = true -> dest_of j = Dest (j_bid j).
Proof. unfold is_uploader, dest_of. destruct (j_kind j); congruence. Qed.

Lemma step_proc_eff f j c fault k f' c' o :
  pinv f j c -> step_proc f j c fault k = (f', c', o) -> eff f j c f' c'.
Proof.
  intros (Hh & Hs & Hp) H. unfold step_proc, do_isdir in H.
  destruct c; cbn [pinv_pc held pre] in *.
  - (* PStart *) destruct (j_kind j); repeat dm H; inversion H; subst; apply eff_same.
  - repeat dm H; inversion H; subst; apply eff_same.
  - repeat dm H; inversion H; subst; first [apply eff_same | apply eff_dir].
  - (* PMkTemp *) repeat dm H; inversion H; subst; try apply eff_same.
    apply eff_alloc; auto.
    + destruct (f_names f (Tmp (ndir (dest_of j)) k)); [discriminate|reflexivity].
    + apply after_writes_held.
  - (* PWrite *) destruct Hp as [Hn _]. repeat dm H; inversion H; subst; try apply eff_same.
    eapply eff_write; [reflexivity|reflexivity|eassumption].
  - repeat dm H; inversion H; subst; apply eff_same.
  - (* PChmod *) destruct Hp as (i & Hn & _). rewrite Hn in H. repeat dm H; inversion H; subst; try apply eff_same.
    eapply eff_mode; [reflexivity|reflexivity|eassumption].
  - (* PPublish *) destruct Hp as (i & Hn & Hd & Hok). rewrite Hn in H.
    destruct (j_kind j) eqn:Hk; repeat dm H; inversion H; subst; try apply eff_same.
    + assert (U : is_uploader j = true) by (unfold is_uploader; rewrite Hk; reflexivity).
      rewrite (dest_uploader j U) in *.
      eapply eff_link; [reflexivity|reflexivity|eassumption| |assumption|assumption|assumption]. destruct (f_names f (Dest (j_bid j))); [discriminate|reflexivity].
    + assert (U : is_uploader j = true) by (unfold is_uploader; rewrite Hk; reflexivity).
      rewrite (dest_uploader j U) in *.
      eapply eff_link; [reflexivity|reflexivity|eassumption| |assumption|assumption|assumption]. destruct (f_names f (Dest (j_bid j))); [discriminate|reflexivity].
    + unfold dest_of. rewrite Hk. eapply eff_replace; [reflexivity|reflexivity|eassumption].
  - (* PUnlink *) repeat dm H; inversion H; subst; try apply eff_same; eapply eff_unlink; reflexivity.
  - repeat dm H; inversion H; subst; apply eff_same.
  - inversion H; subst; apply eff_same.
  - inversion H; subst; apply eff_same.
Qed.

(* ------------------------------------------------------------------ the stepping process keeps its own invariant *)
Lemma firstn_app_len {A} (a b : list A) : firstn (length a) (a ++ b) = a.
Proof. induction a; cbn; [destruct b; reflexivity | f_equal; assumption]. Qed.

Lemma read_at_prefix (d : data) acc k ch :
  acc = firstn (length acc) d -> read_at d (length acc) k = ch ->
  acc ++ ch = firstn (length (acc ++ ch)) d.
Proof.
  intros Ha Hr. unfold read_at in Hr.
  assert (Hd : d = acc ++ skipn (length acc) d).
  { rewrite Ha at 1. symmetry. apply firstn_skipn. }
  set (rest := skipn (length acc) d) in *.
  assert (exists tl, rest = ch ++ tl) as [tl Htl].
  { destruct (k =? 0); subst ch.
    - exists []. rewrite app_nil_r. reflexivity.
    - exists (skipn (N.to_nat k) rest). symmetry. apply firstn_skipn. }
  rewrite Hd. rewrite Htl. rewrite app_assoc. rewrite firstn_app_len. reflexivity.
Qed.

Lemma read_at_eof (d : data) acc k :
  acc = firstn (length acc) d -> read_at d (length acc) k = [] -> d = acc.
Proof.
  intros Ha Hr. unfold read_at in Hr.
  assert (Hd : d = acc ++ skipn (length acc) d).
  { rewrite Ha at 1. symmetry. apply firstn_skipn. }
  assert (skipn (length acc) d = []) as Hs.
  { destruct (N.eqb_spec k 0); [assumption|].
    destruct (skipn (length acc) d); [reflexivity|].
    destruct (N.to_nat k) eqn:E; [lia | discriminate]. }
  rewrite Hs, app_nil_r in Hd. assumption.
Qed.

Lemma tmp_not_dest t b : is_tmp t = true -> name_eqb t (Dest b) = false.
Proof. destruct t; cbn; congruence. Qed.

Lemma tmp_not_dest' t b : is_tmp t = true -> name_eqb (Dest b) t = false.
Proof. destruct t; cbn; congruence. Qed.

Lemma step_proc_self f j c fault k f' c' o :
  (forall n i, f_names f n = Some i -> i < f_next f) ->
  pinv f j c -> step_proc f j c fault k = (f', c', o) -> pinv f' j c'.
Proof.
  intros Hlt (Hh & Hs & Hp) H. unfold step_proc, do_isdir in H.
  destruct c; cbn [pinv_pc held pre] in *.
  - (* PStart *)
    destruct (j_kind j) eqn:Hk; repeat dm H; inversion H; subst;
      (split; [|split]); cbn; try discriminate; auto.
    split; [|reflexivity]. unfold dest_of in *. rewrite Hk in *. assumption.
  - repeat dm H; inversion H; subst; (split; [|split]); cbn; try discriminate; auto.
  - repeat dm H; inversion H; subst; (split; [|split]); cbn; try discriminate; auto.
  - (* PMkTemp *)
    repeat dm H; inversion H; subst; try ((split; [|split]); cbn; try discriminate; auto; fail).
    assert (Htmp : is_tmp (Tmp (ndir (dest_of j)) k) = true) by reflexivity.
    remember (Tmp (ndir (dest_of j)) k) as t eqn:Et. clear Et.
    assert (Hnone : f_names f t = None) by (destruct (f_names f t); [discriminate|reflexivity]).
    split; [|split].
    + intros t0 Ht0. rewrite after_writes_held in Ht0. inversion Ht0; subst t0. split; [assumption|].
      exists (f_next f). cbn. rewrite name_eqb_refl. reflexivity.
    + intros t0 i _ Ht0. rewrite after_writes_held in Ht0. inversion Ht0; subst t0.
      cbn [f_names create_excl]. rewrite name_eqb_refl. intros Hi b. inversion Hi; subst i.
      rewrite (tmp_not_dest' _ _ Htmp). intros Hb. specialize (Hlt (Dest b) (f_next f) Hb). lia.
    + unfold after_writes. destruct (j_chunks j) eqn:Hc; cbn.
      * rewrite name_eqb_refl, N.eqb_refl. split; [reflexivity|].
        intros Hok. split; [unfold payload; rewrite Hc; reflexivity|]. assumption.
      * rewrite name_eqb_refl, N.eqb_refl. split; [reflexivity|].
        intros _. unfold payload. rewrite Hc. reflexivity.
  - (* PWrite *)
    destruct Hp as [Hn Hd].
    repeat dm H; inversion H; subst; (split; [|split]).
    all: try (rewrite ?after_writes_held; cbn [held pre f_names set_data]; intros; eauto; fail).
    all: try (cbn; intuition congruence; fail).
    + (* fault: ok becomes false *)
      unfold after_writes. destruct l; cbn; (split; [assumption|]); intros X; try discriminate X.
    + unfold after_writes. destruct l; cbn; rewrite N.eqb_refl; (split; [assumption|]).
      * intros Hok. apply andb_true_iff in Hok. destruct Hok as [Hok Hj]. split; [|assumption].
        rewrite (Hd Hok). cbn. rewrite app_nil_r. reflexivity.
      * intros Hok. rewrite (Hd Hok). cbn. rewrite <- app_assoc. reflexivity.
  - (* PClose *)
    destruct Hp as [Hn Hd].
    repeat dm H; inversion H; subst; (split; [|split]); cbn [held pre pinv_pc]; intros; eauto; try discriminate.
    all: try (destruct (Hd eq_refl); eauto; fail).
    all: try exact I.
  - (* PChmod *)
    destruct Hp as (i & Hn & Hd & Hok). rewrite Hn in H.
    repeat dm H; inversion H; subst; (split; [|split]); cbn [held pre pinv_pc f_names f_data set_mode]; intros; eauto; try discriminate.
    all: try exact I.
  - (* PPublish *)
    destruct Hp as (i & Hn & Hd & Hok). rewrite Hn in H.
    destruct (Hh t eq_refl) as [Htmp _].
    destruct (j_kind j) eqn:Hk; repeat dm H; inversion H; subst;
      (split; [|split]); cbn [held pre pinv_pc]; intros; eauto; try discriminate; try exact I.
    all: match goal with X : Some _ = Some _ |- _ => inversion X; subst end.
    all: split; [assumption|]; exists i; cbn; unfold dest_of; rewrite Hk; rewrite (tmp_not_dest _ _ Htmp); assumption.
  - (* PUnlink *)
    repeat dm H; inversion H; subst; (split; [|split]); cbn [held pre pinv_pc]; intros; eauto; try discriminate; try exact I.
    all: destruct r; try exact I; try discriminate; try contradiction.
  - (* PRead *)
    destruct Hp as [Hn Ha].
    repeat dm H; inversion H; subst; (split; [|split]); cbn [held pre pinv_pc]; intros; eauto; try discriminate; try exact I.
    + exists i. split; [assumption|]. eapply read_at_eof; eauto.
    + split; [assumption|]. rewrite <- Heqd. eapply read_at_prefix; eauto.
  - inversion H; subst. split; [|split]; cbn [held pre]; try discriminate; assumption.
  - inversion H; subst. split; [|split]; cbn [held pre]; try discriminate; exact I.
Qed.

(* ------------------------------------------------------------------ small facts about one step *)
Lemma step_proc_held f j c fault k f' c' o :
  step_proc f j c fault k = (f', c', o) ->
  held c' = None \/ held c' = held c \/
  (held c = None /\ exists t, held c' = Some t /\ f_names f t = None).
Proof.
  intros H. unfold step_proc, do_isdir in H.
  destruct c; try destruct (j_kind j); repeat dm H; inversion H; subst; cbn [held];
    rewrite ?after_writes_held; auto.
  all: right; right; split; [reflexivity|]; eexists; split; [reflexivity|].
  all: match goal with X : is_some ?o = false |- ?o = None => destruct o; [discriminate|reflexivity] end.
Qed.

Lemma step_proc_published f j c fault k f' c' o :
  step_proc f j c fault k = (f', c', o) -> published_by c = true -> published_by c' = true.
Proof.
  intros H P. destruct c; try discriminate P; cbn in H.
  - destruct r; try discriminate P. repeat dm H; inversion H; subst; reflexivity.
  - inversion H; subst. assumption.
  - inversion H; subst. assumption.
Qed.

Lemma kill_published_inv c : published_by (kill_pc c) = true -> published_by c = true.
Proof. destruct c; cbn; try congruence. destruct r; cbn; congruence. Qed.

Lemma step_proc_becomes_publisher f j c fault k f' c' o :
  pinv_pc f j c -> step_proc f j c fault k = (f', c', o) ->
  published_by c = false -> published_by c' = true -> is_uploader j = true ->
  exists t i, c = PPublish t /\ c' = PUnlink t ROk /\ f_names f t = Some i /\
              f' = set_name f (Dest (j_bid j)) (Some i).
Proof.
  intros Hpc H Pc Pc' U. unfold step_proc, do_isdir in H. unfold is_uploader in U.
  destruct c; try discriminate Pc.
  all: destruct (j_kind j) eqn:Hk; try discriminate U.
  all: repeat dm H; inversion H; subst; try discriminate Pc'.
  all: try (destruct rest; discriminate Pc').
  all: try (destruct (j_chunks j); discriminate Pc').
  all: try (destruct l; discriminate Pc').
  all: try (cbn in Pc; discriminate Pc).
  all: try (destruct r; cbn in Pc, Pc', Hpc; try contradiction; congruence).
  all: try congruence.
  all: try (unfold dest_of; rewrite Hk; eexists; eexists; repeat split; eauto).
Qed.

Lemma kill_published c : published_by c = true -> published_by (kill_pc c) = true.
Proof. destruct c; cbn; try congruence. destruct r; cbn; congruence. Qed.

(* ------------------------------------------------------------------ frame: the other processes *)
Definition relevant (f : fs) (c : pc) (x : inode) : Prop :=
  (exists t, held c = Some t /\ f_names f t = Some x) \/ (exists b, f_names f (Dest b) = Some x).

Lemma pinv_ext f f' j c :
  (forall n, (held c = Some n \/ exists b, n = Dest b) -> f_names f' n = f_names f n) ->
  (forall x, relevant f c x -> f_data f' x = f_data f x) ->
  pinv f j c -> pinv f' j c.
Proof.
  intros Hn Hd (Hh & Hs & Hp). split; [|split].
  - intros t Ht. rewrite (Hn t (or_introl Ht)). auto.
  - intros t i Hpre Ht. rewrite (Hn t (or_introl Ht)). intros Hi b.
    rewrite (Hn (Dest b)) by (right; eauto). eapply Hs; eauto.
  - destruct c; cbn [pinv_pc held] in *; auto.
    + destruct Hp as [Hnm Hpd]. rewrite (Hn t) by auto. split; [assumption|].
      rewrite (Hd i); [assumption|]. left; eexists; split; [reflexivity|eassumption].
    + destruct Hp as [Hnm Hpd]. rewrite (Hn t) by auto. split; [assumption|].
      rewrite (Hd i); [assumption|]. left; eexists; split; [reflexivity|eassumption].
    + destruct Hp as (i & Hnm & Hpd). exists i. rewrite (Hn t) by auto. split; [assumption|].
      rewrite (Hd i); [assumption|]. left; eexists; split; [reflexivity|eassumption].
    + destruct Hp as (i & Hnm & Hpd). exists i. rewrite (Hn t) by auto. split; [assumption|].
      rewrite (Hd i); [assumption|]. left; eexists; split; [reflexivity|eassumption].
    + destruct Hp as [Hnm Hpd]. rewrite (Hn (Dest (j_bid j))) by (right; eauto). split; [assumption|].
      rewrite (Hd i); [assumption|]. right; eauto.
    + destruct r; auto. destruct Hp as (i & Hnm & Hpd). exists i.
      rewrite (Hn (Dest (j_bid j))) by (right; eauto). split; [assumption|].
      rewrite (Hd i); [assumption|]. right; eauto.
Qed.

Lemma eff_frame f j c f' c' jq cq :
  eff f j c f' c' ->
  pinv f j c -> pinv f jq cq ->
  (forall t, held c = Some t -> held cq = Some t -> False) ->
  (forall n i, f_names f n = Some i -> i < f_next f) ->
  (forall t t' i, is_tmp t = true -> is_tmp t' = true ->
        f_names f t = Some i -> f_names f t' = Some i -> t = t') ->
  pinv f' jq cq.
Proof.
  intros E (Hh & Hs & Hp) Q Hdis Hlt Hinj.
  assert (Qc := Q). destruct Qc as (Qh & Qs & Qp).
  (* inodes relevant to q differ from the inode held by p before publishing *)
  assert (Hne : forall t i x, pre c = true -> held c = Some t -> f_names f t = Some i ->
                relevant f cq x -> x <> i).
  { intros t i x Hpre Ht Hi [(tq & Htq & Hx) | (b & Hb)] ->.
    - destruct (Hh t Ht) as [T1 _]. destruct (Qh tq Htq) as [T2 _].
      assert (t = tq) by (eapply Hinj; eauto). subst. eapply Hdis; eauto.
    - eapply Hs; eauto. }
  inversion E; subst.
  - assumption.
  - apply (pinv_ext f); [intros; reflexivity|intros; reflexivity|assumption].
  - (* alloc *)
    apply (pinv_ext f); [ | |assumption].
    + intros n Hn. cbn. destruct (name_eqb_spec n t); [|reflexivity]. subst n.
      destruct Hn as [Hn | (b & ->)]; [|discriminate].
      destruct (Qh t Hn) as [_ (i & Hi)]. congruence.
    + intros x Hx. cbn. destruct (N.eqb_spec x (f_next f)); [|reflexivity]. subst x.
      destruct Hx as [(tq & _ & Hx) | (b & Hx)]; apply Hlt in Hx; lia.
  - (* write *)
    apply (pinv_ext f); [intros; reflexivity| |assumption].
    intros x Hx. cbn. destruct (N.eqb_spec x i); [|reflexivity]. exfalso. eapply Hne; eauto.
  - apply (pinv_ext f); [intros; reflexivity|intros; reflexivity|assumption].
  - (* link *)
    match goal with X : held c = Some t |- _ => rename X into Ht end.
    match goal with X : f_names f t = Some i |- _ => rename X into Hi end.
    match goal with X : f_names f (Dest (j_bid j)) = None |- _ => rename X into Hnone end.
    destruct (Hh t Ht) as [Ttmp _].
    split; [|split].
    + intros tq Htq. destruct (Qh tq Htq) as [T2 (iq & Hiq)]. split; [assumption|].
      exists iq. cbn. rewrite (tmp_not_dest _ _ T2). assumption.
    + intros tq iq Hpre Htq. destruct (Qh tq Htq) as [T2 _]. cbn [f_names set_name].
      rewrite (tmp_not_dest _ _ T2). intros Hiq b.
      destruct (name_eqb_spec (Dest b) (Dest (j_bid j))).
      * intros X. inversion X; subst iq.
        assert (t = tq) by (eapply Hinj; eauto). subst. eapply Hdis; eauto.
      * eapply Qs; eauto.
    + destruct cq; cbn [pinv_pc held] in *; auto.
      * destruct (Qh t0 eq_refl) as [T2 _]. cbn. rewrite (tmp_not_dest _ _ T2). assumption.
      * destruct (Qh t0 eq_refl) as [T2 _]. cbn. rewrite (tmp_not_dest _ _ T2). assumption.
      * destruct (Qh t0 eq_refl) as [T2 _]. cbn. rewrite (tmp_not_dest _ _ T2). assumption.
      * destruct (Qh t0 eq_refl) as [T2 _]. cbn. rewrite (tmp_not_dest _ _ T2). assumption.
      * destruct Qp as [Qn Qa]. cbn [f_names f_data set_name]. destruct (name_eqb_spec (Dest (j_bid jq)) (Dest (j_bid j))) as [e|e].
        -- rewrite e in Qn. congruence.
        -- auto.
      * destruct r; auto. destruct Qp as (i0 & Qn & Qa). exists i0. cbn [f_names f_data set_name].
        destruct (name_eqb_spec (Dest (j_bid jq)) (Dest (j_bid j))) as [e|e].
        -- rewrite e in Qn. congruence.
        -- auto.
  - (* unlink *)
    destruct (Hh t H) as [Ttmp _].
    apply (pinv_ext f); [ |intros; reflexivity|assumption].
    intros n Hn. cbn. destruct (name_eqb_spec n t); [|reflexivity]. subst n.
    destruct Hn as [Hn | (b & ->)]; [|discriminate]. exfalso. eapply Hdis; eauto.
  - (* replace *)
    destruct (Hh t H) as [Ttmp _].
    apply (pinv_ext f); [ |intros; reflexivity|assumption].
    intros n Hn. cbn. destruct (name_eqb_spec n t).
    + subst n. destruct Hn as [Hn | (b0 & ->)]; [|discriminate]. exfalso. eapply Hdis; eauto.
    + destruct (name_eqb_spec n (Meta b s)); [|reflexivity]. subst n.
      destruct Hn as [Hn | (b0 & Hb0)]; [|discriminate]. destruct (Qh _ Hn) as [X _]. discriminate.
Qed.

(* ------------------------------------------------------------------ global parts of the invariant *)
Lemma eff_lt f j c f' c' :
  eff f j c f' c' ->
  (forall n i, f_names f n = Some i -> i < f_next f) ->
  forall n i, f_names f' n = Some i -> i < f_next f'.
Proof.
  intros E Hlt n x. inversion E; subst; cbn [f_names f_next create_excl set_name set_dir set_data set_mode]; eauto.
  - destruct (name_eqb n t); intros X.
    + inversion X; subst. lia.
    + apply Hlt in X. lia.
  - destruct (name_eqb n (Dest (j_bid j))); intros X; [inversion X; subst|]; eauto.
  - destruct (name_eqb n t); intros X; [discriminate|eauto].
  - destruct (name_eqb n t); [discriminate|].
    destruct (name_eqb n (Meta b s)); intros X; [inversion X; subst|]; eauto.
Qed.

Lemma eff_inj f j c f' c' :
  eff f j c f' c' ->
  (forall n i, f_names f n = Some i -> i < f_next f) ->
  (forall t t' i, is_tmp t = true -> is_tmp t' = true ->
        f_names f t = Some i -> f_names f t' = Some i -> t = t') ->
  forall t t' i, is_tmp t = true -> is_tmp t' = true ->
        f_names f' t = Some i -> f_names f' t' = Some i -> t = t'.
Proof.
  intros E Hlt Hinj a b x Ta Tb.
  inversion E; subst; cbn [f_names f_next create_excl set_name set_dir set_data set_mode]; eauto.
  - destruct (name_eqb_spec a t), (name_eqb_spec b t); intros X Y; subst; auto.
    + inversion X; subst. apply Hlt in Y. lia.
    + inversion Y; subst. apply Hlt in X. lia.
    + eauto.
  - rewrite (tmp_not_dest _ _ Ta), (tmp_not_dest _ _ Tb). eauto.
  - destruct (name_eqb a t), (name_eqb b t); intros X Y; try discriminate. eauto.
  - destruct (name_eqb a t), (name_eqb b t); try discriminate.
    assert (Ma : name_eqb a (Meta b0 s) = false) by (destruct a; try discriminate; reflexivity).
    assert (Mb : name_eqb b (Meta b0 s) = false) by (destruct b; try discriminate; reflexivity).
    rewrite Ma, Mb. eauto.
Qed.

(* one step of any process leaves a present artifact name, its inode, data and mode alone *)
Lemma eff_dest_stable f j c f' c' b i :
  eff f j c f' c' -> pinv f j c ->
  (forall n i, f_names f n = Some i -> i < f_next f) ->
  f_names f (Dest b) = Some i ->
  f_names f' (Dest b) = Some i /\ f_data f' i = f_data f i /\ f_mode f' i = f_mode f i.
Proof.
  intros E (Hh & Hs & _) Hlt Hb.
  inversion E; subst; cbn [f_names f_data f_mode create_excl set_name set_dir set_data set_mode]; auto.
  - rewrite (tmp_not_dest' _ _ H). apply Hlt in Hb as Hl.
    destruct (N.eqb_spec i (f_next f)); [lia|]. auto.
  - destruct (N.eqb_spec i i0); auto. subst. exfalso. eapply Hs; eauto.
  - destruct (N.eqb_spec i i0); auto. subst. exfalso. eapply Hs; eauto.
  - destruct (name_eqb_spec (Dest b) (Dest (j_bid j))) as [e|e]; auto. rewrite e in Hb. congruence.
  - destruct (Hh t H) as [Tt _]. rewrite (tmp_not_dest' _ _ Tt). auto.
  - destruct (Hh t H) as [Tt _]. rewrite (tmp_not_dest' _ _ Tt). cbn. auto.
Qed.

Lemma pupd_same ps p x : pupd ps p x p = Some x.
Proof. unfold pupd. rewrite Nat.eqb_refl. reflexivity. Qed.

Lemma pupd_other ps p x q : q <> p -> pupd ps p x q = ps q.
Proof. unfold pupd. intros H. destruct (Nat.eqb_spec q p); congruence. Qed.

Lemma inv_init js : inv (init js).
Proof.
  constructor; cbn.
  - intros p j c H. destruct (nth_error js p); inversion H; subst.
    split; [|split]; cbn; try discriminate; auto.
  - intros p q j c j' c' t _ H. destruct (nth_error js p); inversion H; subst. discriminate.
  - discriminate.
  - discriminate.
  - discriminate.
  - intros p j c H. destruct (nth_error js p); inversion H; subst. discriminate.
Qed.

Lemma pinv_pc_kill f j c : pinv_pc f j c -> pinv_pc f j (kill_pc c).
Proof.
  destruct c; cbn; auto. destruct r; cbn; auto.
Qed.

Lemma step_inv s l : inv s -> inv (fst (step s l)).
Proof.
  intros I. destruct l as [p fault k | p]; cbn [step].
  - (* a step of process p *)
    destruct (s_procs s p) as [[j c]|] eqn:Hp; [|exact I].
    destruct (step_proc (s_fs s) j c fault k) as [[f' c'] o] eqn:Hst. cbn [fst].
    pose proof (i_p s I p j c Hp) as Pp.
    pose proof (step_proc_eff _ _ _ _ _ _ _ _ Pp Hst) as E.
    pose proof (step_proc_self _ _ _ _ _ _ _ _ (i_lt s I) Pp Hst) as Pself.
    assert (Hdis : forall q jq cq t, q <> p -> s_procs s q = Some (jq, cq) ->
                   held c = Some t -> held cq = Some t -> False).
    { intros q jq cq t Hq Hsq H1 H2. eapply (i_q s I p q); eauto. }
    constructor; cbn [s_fs s_procs].
    + intros q jq cq Hq. destruct (Nat.eq_dec q p) as [->|Hne].
      * rewrite pupd_same in Hq. inversion Hq; subst. assumption.
      * rewrite pupd_other in Hq by assumption.
        eapply eff_frame; eauto using (i_p s I), (i_lt s I), (i_inj s I).
    + (* distinct temporary names *)
      assert (Hnew : forall q jq cq t, q <> p -> s_procs s q = Some (jq, cq) ->
                     held c' = Some t -> held cq = Some t -> False).
      { intros q jq cq t Hq Hsq H1 H2.
        destruct (step_proc_held _ _ _ _ _ _ _ _ Hst) as [X | [X | (X & t0 & Y & Z)]].
        - congruence.
        - rewrite X in H1. eauto.
        - rewrite Y in H1. inversion H1; subst t0.
          destruct (i_p s I q jq cq Hsq) as (Qh & _). destruct (Qh t H2) as [_ (i & Hi)]. congruence. }
      intros a b ja ca jb cb t Hab Ha Hb Hta Htb.
      destruct (Nat.eq_dec a p) as [->|Hap]; destruct (Nat.eq_dec b p) as [->|Hbp]; try congruence.
      * rewrite pupd_same in Ha. rewrite pupd_other in Hb by assumption. inversion Ha; subst. eauto.
      * rewrite pupd_same in Hb. rewrite pupd_other in Ha by assumption. inversion Hb; subst. eauto.
      * rewrite pupd_other in Ha, Hb by assumption. eapply (i_q s I a b); eauto.
    + eapply eff_lt; eauto using (i_lt s I).
    + eapply eff_inj; eauto using (i_lt s I), (i_inj s I).
    + (* every artifact name was linked by a process that finished packing *)
      intros b i Hb.
      assert (Hold : f_names (s_fs s) (Dest b) = Some i ->
                     f_data f' i = f_data (s_fs s) i ->
                     exists q jq cq, pupd (s_procs s) p (j, c') q = Some (jq, cq) /\ j_bid jq = b /\
                       is_uploader jq = true /\ published_by cq = true /\
                       f_data f' i = payload jq /\ j_ok jq = true).
      { intros Hn Hd. destruct (i_dest s I b i Hn) as (q & jq & cq & Hq & B1 & B2 & B3 & B4 & B5).
        destruct (Nat.eq_dec q p) as [->|Hne].
        - rewrite Hp in Hq. inversion Hq; subst. exists p, jq, c'. rewrite pupd_same.
          repeat split; auto; try congruence. eapply step_proc_published; eauto.
        - exists q, jq, cq. rewrite pupd_other by assumption. repeat split; auto; congruence. }
      destruct Pp as (Hh & Hs & _).
      inversion E; subst; cbn [f_names f_data create_excl set_name set_dir set_data set_mode] in Hb.
      * apply Hold; auto.
      * apply Hold; auto.
      * rewrite (tmp_not_dest' _ _ H) in Hb. apply Hold; auto.
        cbn. destruct (N.eqb_spec i (f_next (s_fs s))); [|reflexivity]. apply (i_lt s I) in Hb. lia.
      * apply Hold; auto. cbn. destruct (N.eqb_spec i i0); [|reflexivity]. subst.
        exfalso. eapply Hs; eauto.
      * apply Hold; auto.
      * destruct (name_eqb_spec (Dest b) (Dest (j_bid j))) as [e|e].
        -- inversion e; subst b. inversion Hb; subst i0.
           exists p, j, (PUnlink t ROk). rewrite pupd_same. repeat split; auto.
        -- apply Hold; auto.
      * destruct (Hh t H) as [Tt _]. rewrite (tmp_not_dest' _ _ Tt) in Hb. apply Hold; auto.
      * destruct (Hh t H) as [Tt _]. rewrite (tmp_not_dest' _ _ Tt) in Hb. cbn in Hb. apply Hold; auto.
    + (* a process that linked the artifact finds it there, unchanged *)
      intros q jq cq Hq Pq Uq.
      assert (Hkeep : forall cq0, s_procs s q = Some (jq, cq0) -> published_by cq0 = true ->
                j_ok jq = true /\ exists i, f_names f' (Dest (j_bid jq)) = Some i /\ f_data f' i = payload jq).
      { intros cq0 Hq0 Pq0. destruct (i_pub s I q jq cq0 Hq0 Pq0 Uq) as (Ok & i & Hn & Hd).
        destruct (eff_dest_stable _ _ _ _ _ _ _ E Pp (i_lt s I) Hn) as (S1 & S2 & _).
        split; [assumption|]. exists i. split; [assumption|congruence]. }
      destruct (Nat.eq_dec q p) as [->|Hne].
      * rewrite pupd_same in Hq. inversion Hq; subst jq cq.
        destruct (published_by c) eqn:Pc; [eauto|].
        (* it became the publisher in this very step: the link *)
        destruct (step_proc_becomes_publisher _ _ _ _ _ _ _ _ (proj2 (proj2 Pp)) Hst Pc Pq Uq) as (t & i & -> & -> & Ht & ->).
        destruct Pp as (_ & _ & (i' & Ht' & Hd' & Hok')). rewrite Ht in Ht'. inversion Ht'; subst i'.
        split; [assumption|]. exists i. cbn [f_names f_data set_name]. rewrite name_eqb_refl. split; [reflexivity|assumption].
      * rewrite pupd_other in Hq by assumption. eauto.
  - (* kill of process p *)
    destruct (s_procs s p) as [[j c]|] eqn:Hp; [|exact I]. cbn [fst].
    assert (Hk : held (kill_pc c) = None) by (destruct c; try reflexivity; match goal with |- context [kill_pc (PUnlink _ ?r)] => destruct r end; reflexivity).
    constructor; cbn [s_fs s_procs].
    + intros q jq cq Hq. destruct (Nat.eq_dec q p) as [->|Hne].
      * rewrite pupd_same in Hq. inversion Hq; subst.
        pose proof (i_p s I p jq c Hp) as (A & B & C).
        split; [|split].
        -- rewrite Hk. discriminate.
        -- rewrite Hk. discriminate.
        -- apply pinv_pc_kill. exact C.
      * rewrite pupd_other in Hq by assumption. eapply (i_p s I); eauto.
    + intros a b ja ca jb cb t Hab Ha Hb Hta Htb.
      destruct (Nat.eq_dec a p) as [->|Hap]; destruct (Nat.eq_dec b p) as [->|Hbp]; try congruence.
      * rewrite pupd_same in Ha. inversion Ha; subst. congruence.
      * rewrite pupd_same in Hb. inversion Hb; subst. congruence.
      * rewrite pupd_other in Ha, Hb by assumption. eapply (i_q s I a b); eauto.
    + apply (i_lt s I).
    + apply (i_inj s I).
    + intros b i Hb. destruct (i_dest s I b i Hb) as (q & jq & cq & Hq & B1 & B2 & B3 & B4 & B5).
      destruct (Nat.eq_dec q p) as [->|Hne].
      * rewrite Hp in Hq. inversion Hq; subst. exists p, jq, (kill_pc cq). rewrite pupd_same.
        repeat split; auto. apply kill_published. assumption.
      * exists q, jq, cq. rewrite pupd_other by assumption. repeat split; auto.
    + intros q jq cq Hq Pq Uq. destruct (Nat.eq_dec q p) as [->|Hne].
      * rewrite pupd_same in Hq. inversion Hq; subst jq cq.
        apply kill_published_inv in Pq. eapply (i_pub s I); eauto.
      * rewrite pupd_other in Hq by assumption. eapply (i_pub s I); eauto.
Qed.

Lemma run_inv ls : forall s, inv s -> inv (run s ls).
Proof. induction ls as [|l ls IH]; intros s I; cbn; [assumption|]. apply IH. apply step_inv. assumption. Qed.

Lemma reachable_inv s : reachable s -> inv s.
Proof. intros (js & ls & ->). apply run_inv. apply inv_init. Qed.

(* ------------------------------------------------------------------ the property lemmas *)
Lemma step_jobs s l q :
  option_map fst (s_procs (fst (step s l)) q) = option_map fst (s_procs s q).
Proof.
  destruct l as [p fault k | p]; cbn [step].
  - destruct (s_procs s p) as [[j c]|] eqn:Hp; [|reflexivity].
    destruct (step_proc (s_fs s) j c fault k) as [[f' c'] o]. cbn.
    unfold pupd. destruct (Nat.eqb_spec q p); [subst; rewrite Hp|]; reflexivity.
  - destruct (s_procs s p) as [[j c]|] eqn:Hp; [|reflexivity]. cbn.
    unfold pupd. destruct (Nat.eqb_spec q p); [subst; rewrite Hp|]; reflexivity.
Qed.

Lemma run_jobs ls : forall s q,
  option_map fst (s_procs (run s ls) q) = option_map fst (s_procs s q).
Proof.
  induction ls as [|l ls IH]; intros s q; cbn; [reflexivity|]. rewrite IH. apply step_jobs.
Qed.

Lemma init_jobs js ls p j c :
  s_procs (run (init js) ls) p = Some (j, c) -> nth_error js p = Some j.
Proof.
  intros H. pose proof (run_jobs ls (init js) p) as R. rewrite H in R. cbn in R.
  destruct (nth_error js p); cbn in R; congruence.
Qed.

Lemma absent_or_complete_proof : forall js ls b,
  let s := run (init js) ls in
  f_names (s_fs s) (Dest b) = None \/
  exists i p j c, f_names (s_fs s) (Dest b) = Some i /\
     nth_error js p = Some j /\ s_procs s p = Some (j, c) /\
     j_bid j = b /\ is_uploader j = true /\ j_ok j = true /\ published_by c = true /\
     f_data (s_fs s) i = payload j.
Proof.
  intros js ls b s. destruct (f_names (s_fs s) (Dest b)) as [i|] eqn:Hb; [right|left; reflexivity].
  assert (I : inv s) by (apply run_inv, inv_init).
  destruct (i_dest s I b i Hb) as (p & j & c & Hp & B1 & B2 & B3 & B4 & B5).
  exists i, p, j, c. repeat split; auto. eapply init_jobs; eauto.
Qed.

Lemma step_dest_stable s l b i :
  inv s -> f_names (s_fs s) (Dest b) = Some i ->
  let s' := fst (step s l) in
  f_names (s_fs s') (Dest b) = Some i /\ f_data (s_fs s') i = f_data (s_fs s) i /\
  f_mode (s_fs s') i = f_mode (s_fs s) i.
Proof.
  intros I Hb. destruct l as [p fault k | p]; cbn [step].
  - destruct (s_procs s p) as [[j c]|] eqn:Hp; [|cbn; auto].
    destruct (step_proc (s_fs s) j c fault k) as [[f' c'] o] eqn:Hst. cbn [fst s_fs].
    pose proof (i_p s I p j c Hp) as Pp.
    eapply eff_dest_stable; eauto using step_proc_eff, (i_lt s I).
  - destruct (s_procs s p) as [[j c]|]; cbn; auto.
Qed.

Lemma immutable_proof : forall js ls ls' b i,
  let s := run (init js) ls in
  let s' := run s ls' in
  f_names (s_fs s) (Dest b) = Some i ->
  f_names (s_fs s') (Dest b) = Some i /\ f_data (s_fs s') i = f_data (s_fs s) i /\
  f_mode (s_fs s') i = f_mode (s_fs s) i.
Proof.
  intros js ls ls' b i s. assert (I : inv s) by (apply run_inv, inv_init).
  clearbody s. revert s I. induction ls' as [|l ls' IH]; intros s I s' Hb; subst s'; cbn [run]; auto.
  destruct (step_dest_stable s l b i I Hb) as (A & B & C).
  destruct (IH (fst (step s l)) (step_inv s l I) A) as (A' & B' & C').
  repeat split; congruence.
Qed.

Lemma failed_leaves_nothing_proof : forall js ls b,
  let s := run (init js) ls in
  (forall p j c, s_procs s p = Some (j, c) -> j_bid j = b -> published_by c = false) ->
  f_names (s_fs s) (Dest b) = None.
Proof.
  intros js ls b s H. destruct (f_names (s_fs s) (Dest b)) as [i|] eqn:Hb; [|reflexivity].
  assert (I : inv s) by (apply run_inv, inv_init).
  destruct (i_dest s I b i Hb) as (p & j & c & Hp & B1 & B2 & B3 & B4 & B5).
  rewrite (H p j c Hp B1) in B3. discriminate.
Qed.

Lemma reader_proof : forall js ls p j c,
  let s := run (init js) ls in
  s_procs s p = Some (j, c) ->
  match c with
  | PDone (RRead d) =>
      exists q jq cq, s_procs s q = Some (jq, cq) /\ j_bid jq = j_bid j /\ is_uploader jq = true /\
                      j_ok jq = true /\ d = payload jq
  | PRead i acc =>
      exists q jq cq, s_procs s q = Some (jq, cq) /\ j_bid jq = j_bid j /\ is_uploader jq = true /\
                      j_ok jq = true /\ acc = firstn (length acc) (payload jq)
  | _ => True
  end.
Proof.
  intros js ls p j c s Hp. assert (I : inv s) by (apply run_inv, inv_init).
  destruct (i_p s I p j c Hp) as (_ & _ & Hpc).
  destruct c; try exact I0; try exact Logic.I; cbn [pinv_pc] in Hpc.
  - destruct Hpc as [Hn Ha].
    destruct (i_dest s I _ _ Hn) as (q & jq & cq & Hq & B1 & B2 & B3 & B4 & B5).
    exists q, jq, cq. repeat split; auto. congruence.
  - destruct r; try exact Logic.I. destruct Hpc as (i & Hn & Hd).
    destruct (i_dest s I _ _ Hn) as (q & jq & cq & Hq & B1 & B2 & B3 & B4 & B5).
    exists q, jq, cq. repeat split; auto. congruence.
Qed.

Lemma tee_forwarded_complete src n : concat (tee_forwarded src n true) = concat src.
Proof. unfold tee_forwarded. rewrite firstn_skipn. reflexivity. Qed.

Lemma mirror_proof : forall js ls p b src n mode ok c,
  let s := run (init js) ls in
  s_procs s p = Some (mirror_job b src n mode ok, c) ->
  published_by c = true ->
  ok = true /\ exists i, f_names (s_fs s) (Dest b) = Some i /\ f_data (s_fs s) i = concat src.
Proof.
  intros js ls p b src n mode ok c s Hp Pc. assert (I : inv s) by (apply run_inv, inv_init).
  destruct (i_pub s I p _ c Hp Pc eq_refl) as (Ok & i & Hn & Hd). cbn in Ok, Hn. subst ok.
  split; [reflexivity|]. exists i. split; [assumption|]. rewrite Hd. apply tee_forwarded_complete.
Qed.

(* ------------------------------------------------------------------ a killed process leaves only a temporary name *)
Definition unpub (s : st) (i : inode) : Prop :=
  i < f_next (s_fs s) /\
  (forall b, f_names (s_fs s) (Dest b) <> Some i) /\
  (forall q j c t, s_procs s q = Some (j, c) -> held c = Some t -> f_names (s_fs s) t <> Some i).

Lemma step_unpub s l i : inv s -> unpub s i -> unpub (fst (step s l)) i.
Proof.
  intros I (Hlt & Hd & Hh). destruct l as [p fault k | p]; cbn [step].
  - destruct (s_procs s p) as [[j c]|] eqn:Hp; [|repeat split; auto].
    destruct (step_proc (s_fs s) j c fault k) as [[f' c'] o] eqn:Hst. cbn [fst].
    pose proof (i_p s I p j c Hp) as Pp.
    pose proof (step_proc_eff _ _ _ _ _ _ _ _ Pp Hst) as E.
    pose proof (step_proc_held _ _ _ _ _ _ _ _ Hst) as Hheld.
    assert (Hnm : forall n, f_names f' n = Some i -> f_names (s_fs s) n = Some i \/
                  (exists t, held c = Some t /\ f_names (s_fs s) t = Some i)).
    { intros n. inversion E; subst; cbn [f_names create_excl set_name set_dir set_data set_mode]; auto.
      - destruct (name_eqb n t); auto. intros X. inversion X. lia.
      - destruct (name_eqb n (Dest (j_bid j))); auto. intros X. inversion X; subst. right. eauto.
      - destruct (name_eqb n t); auto. discriminate.
      - destruct (name_eqb n t); [discriminate|]. destruct (name_eqb n (Meta b s0)); auto.
        intros X. inversion X; subst. right. eauto. }
    assert (Hnm' : forall n, f_names f' n = Some i -> f_names (s_fs s) n = Some i).
    { intros n X. destruct (Hnm n X) as [|(t & Ht & Hi)]; auto. exfalso. eapply Hh; eauto. }
    split; [|split]; cbn [s_fs s_procs].
    + assert (f_next (s_fs s) <= f_next f').
      { inversion E; subst; cbn; lia. }
      lia.
    + intros b X. apply Hnm' in X. eapply Hd; eauto.
    + intros q jq cq t Hq Ht X. apply Hnm' in X.
      destruct (Nat.eq_dec q p) as [->|Hne].
      * rewrite pupd_same in Hq. inversion Hq; subst jq cq.
        destruct Hheld as [Y | [Y | (Y & t0 & Z & W)]].
        -- congruence.
        -- rewrite Y in Ht. eapply Hh; eauto.
        -- rewrite Z in Ht. inversion Ht; subst. congruence.
      * rewrite pupd_other in Hq by assumption. eapply Hh; eauto.
  - destruct (s_procs s p) as [[j c]|] eqn:Hp; [|repeat split; auto]. cbn [fst].
    split; [|split]; cbn [s_fs s_procs]; auto.
    intros q jq cq t Hq Ht. destruct (Nat.eq_dec q p) as [->|Hne].
    + rewrite pupd_same in Hq. inversion Hq; subst jq cq.
      destruct c; cbn in Ht; try discriminate. destruct r; discriminate.
    + rewrite pupd_other in Hq by assumption. eapply Hh; eauto.
Qed.

Lemma crash_proof : forall js ls p j c t i ls' b,
  let s := run (init js) ls in
  s_procs s p = Some (j, c) -> pre c = true -> held c = Some t ->
  f_names (s_fs s) t = Some i ->
  let s' := run (fst (step s (LKill p))) ls' in
  f_names (s_fs s') (Dest b) <> Some i.
Proof.
  intros js ls p j c t i ls' b s Hp Hpre Ht Hi.
  assert (I : inv s) by (apply run_inv, inv_init).
  assert (U : unpub (fst (step s (LKill p))) i).
  { cbn [step]. rewrite Hp. cbn [fst]. destruct (i_p s I p j c Hp) as (Ph & Ps & _).
    split; [|split]; cbn [s_fs s_procs].
    - eapply (i_lt s I); eauto.
    - intros b0. eapply Ps; eauto.
    - intros q jq cq tq Hq Htq X. destruct (Nat.eq_dec q p) as [->|Hne].
      + rewrite pupd_same in Hq. inversion Hq; subst jq cq.
        destruct c; cbn in Htq; try discriminate.
      + rewrite pupd_other in Hq by assumption.
        destruct (Ph t Ht) as [T1 _]. destruct (i_p s I q jq cq Hq) as (Qh & _).
        destruct (Qh tq Htq) as [T2 _].
        assert (t = tq) by (eapply (i_inj s I); eauto). subst tq.
        eapply (i_q s I p q); eauto. }
  assert (I1 : inv (fst (step s (LKill p)))) by (apply step_inv; assumption).
  intros s'. subst s'. generalize dependent (fst (step s (LKill p))). clear.
  induction ls' as [|l ls' IH]; intros s1 U I1; cbn [run].
  - destruct U as (_ & Hd & _). apply Hd.
  - apply IH; [apply step_unpub; assumption | apply step_inv; assumption].
Qed.
