(* C09 — property theorems.  Only statements (closed by [exact] of a lemma of
   Proofs.v) and non-vacuity examples.  All theorems quantify over ANY list of
   jobs [js] (any number of package uploaders, cache mirrors, metadata uploaders
   and readers, any build-ids, payloads and chunkings) and ANY schedule [ls]
   (any interleaving, an injected OSError at any operation, a kill of any
   process at any program counter). *)
From Coq Require Import List NArith Bool.
Require Import BobV.C09.Model BobV.C09.Proofs.
Import ListNotations.
Open Scope N_scope.

(* Under the artifact name there is either nothing, or the complete payload of
   one uploader/mirror of that build-id whose packing ended without exception
   and which linked the name itself. *)
Theorem artifact_absent_or_complete : forall js ls b,
  let s := run (init js) ls in
  f_names (s_fs s) (Dest b) = None \/
  exists i p j c, f_names (s_fs s) (Dest b) = Some i /\
     nth_error js p = Some j /\ s_procs s p = Some (j, c) /\
     j_bid j = b /\ is_uploader j = true /\ j_ok j = true /\ published_by c = true /\
     f_data (s_fs s) i = payload j.
Proof. exact absent_or_complete_proof. Qed.

(* Once present, the name keeps its inode, and the inode its bytes and mode,
   whatever any process does afterwards (package uploads, mirrors, overwriting
   metadata uploads, faults, kills). *)
Theorem artifact_immutable : forall js ls ls' b i,
  let s := run (init js) ls in
  let s' := run s ls' in
  f_names (s_fs s) (Dest b) = Some i ->
  f_names (s_fs s') (Dest b) = Some i /\ f_data (s_fs s') i = f_data (s_fs s) i /\
  f_mode (s_fs s') i = f_mode (s_fs s) i.
Proof. exact immutable_proof. Qed.

(* If no process of build-id b has linked the name (each one failed, was
   skipped, lost the race, was aborted, is still before its link or was killed
   before it), nothing is under the artifact name. *)
Theorem failed_upload_leaves_nothing : forall js ls b,
  let s := run (init js) ls in
  (forall p j c, s_procs s p = Some (j, c) -> j_bid j = b -> published_by c = false) ->
  f_names (s_fs s) (Dest b) = None.
Proof. exact failed_leaves_nothing_proof. Qed.

(* A process killed anywhere before its link leaves its file under the temporary
   name only: that inode never appears under any artifact name, now or later. *)
Theorem crash_leaves_only_temp : forall js ls p j c t i ls' b,
  let s := run (init js) ls in
  s_procs s p = Some (j, c) -> pre c = true -> held c = Some t ->
  f_names (s_fs s) t = Some i ->
  let s' := run (fst (step s (LKill p))) ls' in
  f_names (s_fs s') (Dest b) <> Some i.
Proof. exact crash_proof. Qed.

(* A reader interleaved anywhere: what it has read so far is a prefix of, and
   what it returns at EOF is exactly, the complete payload of one uploader of
   that build-id (otherwise it found nothing). *)
Theorem reader_sees_nothing_or_complete : forall js ls p j c,
  let s := run (init js) ls in
  s_procs s p = Some (j, c) ->
  match c with
  | PDone (RRead d) =>
      exists q jq cq, s_procs s q = Some (jq, cq) /\ j_bid jq = j_bid j /\ is_uploader jq = true /\
                      j_ok jq = true /\ d = payload jq
  | PRead i acc =>
      exists q jq cq, s_procs s q = Some (jq, cq) /\ j_bid jq = j_bid j /\ is_uploader jq = true /\
                      j_ok jq = true /\ acc = firstn (length acc) (payload jq)
  | _ => True
  end.
Proof. exact reader_proof. Qed.

(* Cache mirroring: a mirror that linked the name had a consumer that finished
   without exception, and the artifact holds the WHOLE source stream, however
   early the consumer stopped reading; an aborted mirror (ok = false) therefore
   never links. *)
Theorem mirror_commit_abort : forall js ls p b src n mode ok c,
  let s := run (init js) ls in
  s_procs s p = Some (mirror_job b src n mode ok, c) ->
  published_by c = true ->
  ok = true /\ exists i, f_names (s_fs s) (Dest b) = Some i /\ f_data (s_fs s) i = concat src.
Proof. exact mirror_proof. Qed.

(* ---- non-vacuity: concrete runs, evaluated *)
Definition up (b : N) (ch : list data) (m : option N) : job :=
  {| j_kind := KUpload; j_bid := b; j_chunks := ch; j_mode := m; j_ok := true |}.
Definition rd (b : N) : job :=
  {| j_kind := KRead; j_bid := b; j_chunks := []; j_mode := None; j_ok := true |}.
Definition st_ (p : nat) := LStep p false 0.

(* two uploaders race on build-id 5, a reader opens between link and unlink *)
Definition race_jobs := [up 5 [[1; 2]; [3]] (Some 420); up 5 [[9]] None; rd 5].
Definition race_sched :=
  [st_ 0; st_ 0; st_ 0; LStep 0 false 7; st_ 0; st_ 0; st_ 0; st_ 0;     (* p0 up to just before link *)
   st_ 1; st_ 1; LStep 1 false 8; st_ 1; st_ 1;                           (* p1 up to just before link *)
   st_ 1;                                                                 (* p1 links: wins *)
   st_ 0;                                                                 (* p0 links: EEXIST, lost race *)
   st_ 2; st_ 2;                                                          (* reader opens and reads *)
   st_ 0; st_ 1; st_ 2].

Example race_nonvacuous :
  let s := run (init race_jobs) race_sched in
  file_at s (Dest 5) = Some ([9], 384) /\
  file_at s (Tmp 0 7) = None /\ file_at s (Tmp 0 8) = None /\
  map (pc_of s) [0; 1; 2]%nat = [Some (PDone RLost); Some (PDone ROk); Some (PDone (RRead [9]))] /\
  nth 13 (trace (init race_jobs) race_sched) ONone = OLink (Tmp 0 8) (Dest 5) 0 /\
  nth 14 (trace (init race_jobs) race_sched) ONone = OLink (Tmp 0 7) (Dest 5) 1.
Proof. vm_compute. repeat split. Qed.

(* later uploads, an overwriting metadata upload and a kill do not touch it *)
Example immutable_nonvacuous :
  let s := run (init (race_jobs ++ [up 5 [[4; 4]] (Some 256);
              {| j_kind := KMeta 1; j_bid := 5; j_chunks := [[7]]; j_mode := None; j_ok := true |}]))
               (race_sched ++ [st_ 3; st_ 4; st_ 4; st_ 4; st_ 4; st_ 4; LKill 0]) in
  file_at s (Dest 5) = Some ([9], 384) /\ file_at s (Meta 5 1) = Some ([7], 384) /\
  pc_of s 3 = Some (PDone RSkipped).
Proof. vm_compute. repeat split. Qed.

(* exception while packing (second write fails): temporary file removed, nothing published *)
Example failed_upload_nonvacuous :
  let js := [up 5 [[1]; [2]; [3]] None] in
  let ls := [st_ 0; st_ 0; st_ 0; LStep 0 false 3; st_ 0; LStep 0 true 0; st_ 0; st_ 0; st_ 0] in
  let s := run (init js) ls in
  file_at s (Dest 5) = None /\ file_at s (Tmp 0 3) = None /\ pc_of s 0 = Some (PDone RFail) /\
  trace (init js) ls = [OIsFile (Dest 5) false; OIsDir 0 false; OMkdirs 0 true; OMkTemp (Tmp 0 3) true;
                        OWrite (Tmp 0 3) 1 true; OWrite (Tmp 0 3) 1 false; OWrite (Tmp 0 3) 1 true;
                        OClose (Tmp 0 3) true; OUnlink (Tmp 0 3) true].
Proof. vm_compute. repeat split. Qed.

(* kill after the first write: a partial temporary file stays, nothing under the name,
   and a later uploader publishes its own complete payload *)
Example crash_nonvacuous :
  let js := [up 5 [[1]; [2]] None; up 5 [[8; 8]] None] in
  let ls := [st_ 0; st_ 0; st_ 0; LStep 0 false 3; st_ 0; LKill 0;
             st_ 1; st_ 1; LStep 1 false 3; LStep 1 false 4; st_ 1; st_ 1; st_ 1; st_ 1] in
  let s := run (init js) ls in
  file_at s (Tmp 0 3) = Some ([1], 384) /\ file_at s (Dest 5) = Some ([8; 8], 384) /\
  map (pc_of s) [0; 1]%nat = [Some (PDead false); Some (PDone ROk)].
Proof. vm_compute. repeat split. Qed.

(* mirror: consumer stopped after 1 of 3 source reads; commit publishes all three, abort nothing *)
Example mirror_nonvacuous :
  let ls := [st_ 0; st_ 0; st_ 0; LStep 0 false 1; st_ 0; st_ 0; st_ 0; st_ 0; st_ 0; st_ 0] in
  let s1 := run (init [mirror_job 5 [[1]; [2]; [3]] 1 None true]) ls in
  let s2 := run (init [mirror_job 5 [[1]; [2]; [3]] 1 None false]) ls in
  file_at s1 (Dest 5) = Some ([1; 2; 3], 384) /\ pc_of s1 0 = Some (PDone ROk) /\
  file_at s2 (Dest 5) = None /\ file_at s2 (Tmp 0 1) = None /\ pc_of s2 0 = Some (PDone RFail).
Proof. vm_compute. repeat split. Qed.
