(* C17 — property theorems about the concrete syntax of if-expressions
   (model: C17/IfGrammar.v, a PEG transliteration of the pyparsing grammar of
   bob.stringparser.IfExpressionParser).  Only statements, each closed by
   [exact] of a lemma from IfGrammarProofs.v, and examples. *)
From Coq Require Import List NArith Bool.
Require Import BobV.Gen.Consts BobV.C17.Model BobV.C17.IfGrammar BobV.C17.IfGrammarProofs.
Import ListNotations.
Open Scope N_scope.

(* (b) Totality: the fuel handed out by the entry point (length of the text + 1
   for nested parentheses; length of the rest + 1 for every operator loop and
   argument list) always suffices, for every input text. *)
Theorem parse_if_total : forall s, parse_ast_res s <> PFuel.
Proof. exact parse_if_total_proof. Qed.

(* (a) Round trip, general form.  [rend 9 a s] says that s is one of the texts of
   the tree a: any white space (blank, tab, line feed, carriage return) before
   every token, any redundant parentheses, any spelling of a literal that the
   quoting admits (body b of a double quoted string stands for unq 0 b; single
   quoted bodies stand for themselves), minimal or more
   parentheses according to the precedence levels.  Every such text, followed
   by any white space, parses to exactly that tree. *)
Theorem parse_ast_of_text : forall a s w, rend 9 a s -> all_ws w -> parse_ast (s ++ w) = Some a.
Proof. exact rend_parse_ast_proof. Qed.

(* ... and to the evaluated AST of Model.v when the comparison operands are
   strings or function calls (otherwise BinaryStrOperator raises ParseError). *)
Theorem parse_if_of_text : forall a e s w, rend 9 a s -> all_ws w -> to_ifexpr a = Some e ->
  parse_if (s ++ w) = Some e.
Proof. exact rend_parse_if_proof. Qed.

(* (a) Round trip for the renderer with minimal parentheses: every well-formed
   AST (function names in the Word alphabet; single quoted literals without
   single quote, line feed and carriage return; double quoted literals
   arbitrary) comes back from its text. *)
Theorem parse_if_render : forall e, wf_if e = true -> parse_if (render_if e) = Some e.
Proof. exact parse_if_render_proof. Qed.

(* Text between single quotes is the literal, verbatim, whatever backslash
   sequences it contains (bobpaths(7), String literals). *)
Theorem single_quoted_literal_verbatim : forall s,
  ~ In 39 s -> ~ In 10 s -> ~ In 13 s ->
  parse_if (39 :: s ++ [39]) = Some (IStr (SLit s false)).
Proof. exact single_quoted_literal_verbatim_proof. Qed.

(* the same for trees whose comparisons have arbitrary operands (what the
   grammar accepts before the parse actions check the operand types) ... *)
Theorem parse_ast_render : forall a, wf_ast a = true -> parse_ast (render_ast a) = Some a.
Proof. exact parse_ast_render_proof. Qed.

(* ... and for the fully parenthesised renderer *)
Theorem parse_ast_render_full : forall a, wf_ast a = true -> parse_ast (render_full a) = Some a.
Proof. exact parse_ast_render_full_proof. Qed.

(* the renderers are instances of the general notion of text *)
Theorem render_is_text : forall a, wf_ast a = true -> forall k, rend k a (render_at k a).
Proof. exact render_at_rend. Qed.

(* the embedding of Model.ifexpr into parsed trees is undone by the operand check *)
Theorem to_ifexpr_of_ifexpr : forall e, to_ifexpr (of_ifexpr e) = Some e.
Proof. exact to_of_ifexpr. Qed.

(* (c) Precedence and associativity, for arbitrary operand texts.
   Levels: lvl BLt = 2 < lvl BLe < lvl BGt < lvl BGe < lvl BEq < lvl BNe < lvl BAnd = 8 < lvl BOr = 9;
   `!` is level 1, primaries level 0; [rend k a s]: s is a text of a that needs
   no parentheses where level k is admitted.

   a op2 b op1 c  =  a op2 (b op1 c)   whenever op1 binds tighter than op2 *)
Theorem tighter_operator_groups_right : forall op1 op2 a b c sa sb sc w1 w2 w3,
  (lvl op1 < lvl op2)%nat ->
  rend (lvl op2) a sa -> rend (lvl op1) b sb -> rend (lvl op1 - 1) c sc ->
  all_ws w1 -> all_ws w2 -> all_ws w3 ->
  parse_ast (sa ++ w1 ++ op_text op2 ++ (sb ++ w2 ++ op_text op1 ++ sc) ++ w3)
  = Some (ABin op2 a (ABin op1 b c)).
Proof. exact tighter_right_proof. Qed.

(* a op1 b op2 c  =  (a op1 b) op2 c   whenever op1 binds at least as tight as op2;
   op1 = op2 is left associativity *)
Theorem tighter_or_same_operator_groups_left : forall op1 op2 a b c sa sb sc w1 w2 w3,
  (lvl op1 <= lvl op2)%nat ->
  rend (lvl op1) a sa -> rend (lvl op1 - 1) b sb -> rend (lvl op2 - 1) c sc ->
  all_ws w1 -> all_ws w2 -> all_ws w3 ->
  parse_ast ((sa ++ w1 ++ op_text op1 ++ sb) ++ w2 ++ op_text op2 ++ sc ++ w3)
  = Some (ABin op2 (ABin op1 a b) c).
Proof. exact tighter_left_proof. Qed.

(* && binds tighter than ||:   a || b && c = a || (b && c) *)
Theorem and_binds_tighter_than_or : forall a b c sa sb sc w1 w2 w3,
  rend 9 a sa -> rend 8 b sb -> rend 7 c sc -> all_ws w1 -> all_ws w2 -> all_ws w3 ->
  parse_ast (sa ++ w1 ++ [124; 124] ++ (sb ++ w2 ++ [38; 38] ++ sc) ++ w3)
  = Some (ABin BOr a (ABin BAnd b c)).
Proof. exact (fun a b c sa sb sc w1 w2 w3 =>
               tighter_right_proof BAnd BOr a b c sa sb sc w1 w2 w3 (le_n 9)). Qed.

(* every comparison binds tighter than &&:   a && x cmp y = a && (x cmp y) *)
Theorem comparison_binds_tighter_than_and : forall op a x y sa sx sy w1 w2 w3,
  cmp_of op <> None ->
  rend 8 a sa -> rend (lvl op) x sx -> rend (lvl op - 1) y sy -> all_ws w1 -> all_ws w2 -> all_ws w3 ->
  parse_ast (sa ++ w1 ++ [38; 38] ++ (sx ++ w2 ++ op_text op ++ sy) ++ w3)
  = Some (ABin BAnd a (ABin op x y)).
Proof. exact cmp_tighter_than_and_proof. Qed.

(* ! binds tightest:   !a op b = (!a) op b   for every binary operator *)
Theorem not_binds_tightest : forall op a b sa sb w0 w1 w2,
  rend 1 a sa -> rend (lvl op - 1) b sb -> all_ws w0 -> all_ws w1 -> all_ws w2 ->
  parse_ast ((w0 ++ 33 :: sa) ++ w1 ++ op_text op ++ sb ++ w2) = Some (ABin op (ANot a) b).
Proof. exact not_tightest_proof. Qed.

(* binary operators are left associative:   a op b op c = (a op b) op c *)
Theorem binary_operators_left_associative : forall op a b c sa sb sc w1 w2 w3,
  rend (lvl op) a sa -> rend (lvl op - 1) b sb -> rend (lvl op - 1) c sc ->
  all_ws w1 -> all_ws w2 -> all_ws w3 ->
  parse_ast ((sa ++ w1 ++ op_text op ++ sb) ++ w2 ++ op_text op ++ sc ++ w3)
  = Some (ABin op (ABin op a b) c).
Proof. exact (fun op a b c sa sb sc w1 w2 w3 =>
               tighter_left_proof op op a b c sa sb sc w1 w2 w3 (le_n (lvl op))). Qed.

(* ! is a prefix operator that nests:   !!a = !(!a) *)
Theorem not_nests : forall a sa w, rend 1 a sa -> all_ws w ->
  parse_ast ((33 :: 33 :: sa) ++ w) = Some (ANot (ANot a)).
Proof. exact not_nests_proof. Qed.

(* consequence of left associativity and of `!` binding tightest: chained
   comparisons and a comparison of a negation are syntax errors *)
Theorem chained_comparison_rejected : forall op1 op2 a b c,
  cmp_of op2 <> None -> to_ifexpr (ABin op2 (ABin op1 a b) c) = None.
Proof. exact chained_cmp_rejected_proof. Qed.

Theorem comparison_of_negation_rejected : forall op a b,
  cmp_of op <> None -> to_ifexpr (ABin op (ANot a) b) = None.
Proof. exact cmp_of_not_rejected_proof. Qed.

(* ---- examples ---------------------------------------------------------- *)
Definition lit_a := SLit [97] false.
Definition lit_b := SLit [98] false.
Definition lit_c := SLit [99] false.

(* 'a' || 'b' && 'c'   vs   ('a' || 'b') && 'c' : precedence matters *)
Example precedence_matters :
  parse_if [39;97;39; 32;124;124;32; 39;98;39; 32;38;38;32; 39;99;39]
    = Some (IOr (IStr lit_a) (IAnd (IStr lit_b) (IStr lit_c))) /\
  parse_if [40; 39;97;39; 32;124;124;32; 39;98;39; 41; 32;38;38;32; 39;99;39]
    = Some (IAnd (IOr (IStr lit_a) (IStr lit_b)) (IStr lit_c)) /\
  render_if (IAnd (IOr (IStr lit_a) (IStr lit_b)) (IStr lit_c))
    = [40; 39;97;39; 32;124;124;32; 39;98;39; 41; 32;38;38;32; 39;99;39].
Proof. vm_compute. auto. Qed.

(* with D for the double quote character:
   !(eq(Da\DbD, 'x y') <= D$XD && '') || if-then-else(D\\D, 'é', f()) != 'a\qb' || 'c'
   is well formed and comes back from its text *)
Definition ex_if : ifexpr :=
  IOr (IOr (INot (IAnd (ICmp OLe (SFn [101;113] [SLit [97;34;98] true; SLit [120;32;121] false]) (SLit [36;88] true))
                       (IStr (SLit [] false))))
           (ICmp ONe (SFn [105;102;45;116;104;101;110;45;101;108;115;101]
                          [SLit [92] true; SLit [233] false; SFn [102] []])
                     (SLit [97;92;113;98] false)))
      (IStr lit_c).

Example parse_if_render_nonvacuous :
  wf_if ex_if = true /\ parse_if (render_if ex_if) = Some ex_if /\
  parse_ast (render_full (of_ifexpr ex_if)) = Some (of_ifexpr ex_if) /\
  length (render_if ex_if) = 83%nat.
Proof. vm_compute. auto. Qed.

(* white space of all four kinds, no blanks around operators, `<` is a prefix of `<=`, `!` of `!=`:
   <TAB>!f ( 'a'<LF>,Db\DD )<='c'&&'d'!='e'<CR>     (D = double quote)
   is rejected (`!` binds tighter than `<=`), with parentheses after the `!` it is accepted *)
Example text_with_whitespace :
  parse_if [9; 33;102;32;40;32;39;97;39;10;44;34;98;92;34;34;32;41;60;61;39;99;39;38;38;39;100;39;33;61;39;101;39;13]
  = None /\
  parse_if [9; 33;40;102;32;40;32;39;97;39;10;44;34;98;92;34;34;32;41;60;61;39;99;39;41;38;38;39;100;39;33;61;39;101;39;13]
  = Some (IAnd (INot (ICmp OLe (SFn [102] [SLit [97] false; SLit [98;34] true]) lit_c))
               (ICmp ONe (SLit [100] false) (SLit [101] false))).
Proof. vm_compute. auto. Qed.

(* 'a' < 'b' < 'c',  !'a' == 'b',  'a' &&,  ('a',  'a' 'b',  f('a',)  are errors;  ('a') == (DbD) is accepted *)
Example rejected_texts :
  parse_if [39;97;39;32;60;32;39;98;39;32;60;32;39;99;39] = None /\
  parse_if [33;39;97;39;32;61;61;32;39;98;39] = None /\
  parse_if [39;97;39;32;38;38] = None /\
  parse_if [40;39;97;39] = None /\
  parse_if [39;97;39;32;39;98;39] = None /\
  parse_if [102;40;39;97;39;44;41] = None /\
  parse_if [40;39;97;39;41;32;61;61;32;40;34;98;34;41] = Some (ICmp OEq lit_a (SLit [98] true)).
Proof. vm_compute. auto 10. Qed.

(* single quotes keep backslash sequences as written:  'C:\temp\x42\0\73\'  ;
   the same sequences between double quotes are converted by the installed
   pyparsing (tab, B, NUL, 73; D = double quote):  DC:\temp\x42\0\73D ;
   a line feed or carriage return inside single quotes is an error *)
Example single_quoted_literal_verbatim_nonvacuous :
  parse_if [39; 67;58;92;116;101;109;112; 92;120;52;50; 92;48; 92;55;51; 92; 39]
    = Some (IStr (SLit [67;58;92;116;101;109;112; 92;120;52;50; 92;48; 92;55;51; 92] false)) /\
  parse_if [34; 67;58;92;116;101;109;112; 92;120;52;50; 92;48; 92;55;51; 34]
    = Some (IStr (SLit [67;58;9;101;109;112; 66; 0; 55;51] true)) /\
  parse_if [39;97;10;98;39] = None /\ parse_if [39;97;13;98;39] = None.
Proof. vm_compute. auto. Qed.

Print Assumptions parse_if_total.
Print Assumptions parse_ast_of_text.
Print Assumptions parse_if_of_text.
Print Assumptions parse_if_render.
Print Assumptions single_quoted_literal_verbatim.
Print Assumptions parse_ast_render.
Print Assumptions parse_ast_render_full.
Print Assumptions render_is_text.
Print Assumptions tighter_operator_groups_right.
Print Assumptions tighter_or_same_operator_groups_left.
Print Assumptions and_binds_tighter_than_or.
Print Assumptions comparison_binds_tighter_than_and.
Print Assumptions not_binds_tightest.
Print Assumptions binary_operators_left_associative.
Print Assumptions not_nests.
Print Assumptions chained_comparison_rejected.
Print Assumptions comparison_of_negation_rejected.
Print Assumptions precedence_matters.
Print Assumptions parse_if_render_nonvacuous.
