(* C17 — lemmas about the parser model. *)
From Coq Require Import List NArith Bool Lia Wf_nat.
Require Import BobV.Gen.Consts BobV.C17.Model.
Import ListNotations.
Open Scope N_scope.

Lemma str_eqb_refl s : str_eqb s s = true.
Proof. induction s as [|x s IH]; simpl; [reflexivity|]. now rewrite N.eqb_refl, IH. Qed.

Lemma str_eqb_eq a b : str_eqb a b = true <-> a = b.
Proof.
  revert b; induction a as [|x a IH]; intros [|y b]; simpl; split; intro H; try congruence; try reflexivity.
  - apply andb_true_iff in H as [H1 H2]. apply N.eqb_eq in H1. apply IH in H2. congruence.
  - inversion H; subst. now rewrite N.eqb_refl, str_eqb_refl.
Qed.

Lemma mem_In c l : mem c l = true <-> In c l.
Proof.
  induction l as [|x l IH]; simpl; [split; [discriminate|tauto]|].
  rewrite orb_true_iff, N.eqb_eq, IH. split; intros [H|H]; auto.
Qed.

Lemma mem_false_not_In c l : mem c l = false <-> ~ In c l.
Proof. rewrite <- mem_In. destruct (mem c l); split; congruence. Qed.

(* ---- single quotes *)
Lemma getSingleQuoted_app s r :
  ~ In ch_sq s -> getSingleQuoted (s ++ ch_sq :: r) = Some (s, r).
Proof.
  induction s as [|x s IH]; intros H; simpl.
  - reflexivity.
  - destruct (x =? ch_sq) eqn:E.
    + apply N.eqb_eq in E. exfalso; apply H; left; auto.
    + rewrite IH; [reflexivity|]. intro; apply H; right; auto.
Qed.

Lemma special_has c t : In c SPECIAL_CHARS -> In c t ->
  existsb (fun x => mem x t) SPECIAL_CHARS = true.
Proof. intros H1 H2. apply existsb_exists. exists c. split; [exact H1| now apply mem_In]. Qed.

Lemma fuel_for_S2 t : exists n, fuel_for t = S (S n).
Proof. unfold fuel_for. exists (2 * length t)%nat. lia. Qed.

Lemma single_quote_protect_proof c s :
  ~ In ch_sq s -> parse c (ch_sq :: s ++ [ch_sq]) = Ok s.
Proof.
  intros H. unfold parse.
  rewrite (special_has ch_sq) by (simpl; auto 10).
  destruct (fuel_for_S2 (ch_sq :: s ++ [ch_sq])) as [n ->].
  cbn -[getSingleQuoted].
  rewrite getSingleQuoted_app by exact H.
  cbn. reflexivity.
Qed.

(* ---- backslash *)
Definition esc (s : str) : str := flat_map (fun x => [ch_bs; x]) s.

Lemma scan_acc delim : forall t acc,
  scan delim t acc =
  match scan delim t [] with Some (s, r) => Some (rev acc ++ s, r) | None => None end.
Proof.
  intros t. remember (length t) as n eqn:Hn. revert t Hn.
  induction n as [n IH] using lt_wf_ind. intros t Hn acc.
  assert (IH' : forall y, (length y < length t)%nat -> forall a,
     scan delim y a = match scan delim y [] with Some (s, r) => Some (rev a ++ s, r) | None => None end).
  { intros y Hy a. apply (IH (length y)); [lia|reflexivity]. }
  clear IH. destruct t as [|x r]; simpl.
  - now rewrite app_nil_r.
  - destruct (mem x delim); [now rewrite app_nil_r|].
    destruct (x =? ch_bs).
    + destruct r as [|d r']; [reflexivity|].
      rewrite (IH' r') by (simpl; lia).
      rewrite (IH' r' ltac:(simpl; lia) [d]).
      destruct (scan delim r' []) as [[s r0]|]; [|reflexivity].
      simpl. now rewrite <- app_assoc.
    + rewrite (IH' r) by (simpl; lia).
      rewrite (IH' r ltac:(simpl; lia) [x]).
      destruct (scan delim r []) as [[s r0]|]; [|reflexivity].
      simpl. now rewrite <- app_assoc.
Qed.

Lemma scan_esc delim s rest acc :
  mem ch_bs delim = false ->
  scan delim (esc s ++ rest) acc = scan delim rest (rev s ++ acc).
Proof.
  intros Hd. revert acc. induction s as [|x s IH]; intros acc; [reflexivity|].
  simpl. rewrite Hd. rewrite IH. simpl. now rewrite <- app_assoc.
Qed.

(* The token stream of [esc s ++ rest] is that of [rest] with [s] glued in
   front of its first text token — whatever additional delimiters are active. *)
Lemma nextToken_esc extra x s rest :
  mem ch_bs (TOKEN_DELIMS ++ extra) = false ->
  nextToken extra (esc (x :: s) ++ rest) =
  match scan (TOKEN_DELIMS ++ extra) rest [] with
  | Some (t, r) => Ok (TText ((x :: s) ++ t), r)
  | None => PErr
  end.
Proof.
  intros Hd. unfold nextToken. change (esc (x :: s) ++ rest) with (ch_bs :: x :: esc s ++ rest).
  cbv beta iota. rewrite Hd. cbn [scan]. rewrite Hd. change (ch_bs =? ch_bs) with true. cbv beta iota.
  rewrite scan_esc by exact Hd. rewrite scan_acc.
  destruct (scan (TOKEN_DELIMS ++ extra) rest []) as [[t r]|]; [|reflexivity].
  rewrite rev_app_distr. simpl. now rewrite rev_involutive.
Qed.

Lemma backslash_protect_proof c s : parse c (esc s) = Ok s.
Proof.
  destruct s as [|x s].
  - reflexivity.
  - unfold parse. rewrite (special_has ch_bs) by (simpl; auto 10).
    destruct (fuel_for_S2 (esc (x :: s))) as [n ->].
    rewrite <- (app_nil_r (esc (x :: s))).
    cbn [getString]. rewrite nextToken_esc by reflexivity.
    cbn. now rewrite app_nil_r.
Qed.

(* escaped text followed by an active delimiter or the end of a quoted
   context: the text comes back unchanged in front of what follows *)
Lemma backslash_protect_ctx_proof f c extra top keep subst x s d rest acc :
  mem ch_bs (TOKEN_DELIMS ++ extra) = false ->
  mem d (TOKEN_DELIMS ++ extra) = true ->
  getString (S f) c extra top keep subst (esc (x :: s) ++ d :: rest) acc =
  getString f c extra top keep subst (d :: rest) (acc ++ x :: s).
Proof.
  intros Hb Hd. cbn [getString]. rewrite nextToken_esc by exact Hb.
  cbn [scan]. rewrite Hd. cbn [bind]. now rewrite app_nil_r.
Qed.

(* ---- infix conditions vs function-call form *)
Lemma isTrue_of_bool b : isTrue (of_bool b) = b.
Proof. destruct b; vm_compute; reflexivity. Qed.

Lemma call_not c a : call_fun c n_not [a] = Ok (of_bool (isFalse a)).
Proof. reflexivity. Qed.
Lemma call_and c a b : call_fun c n_and [a; b] = Ok (of_bool (isTrue a && isTrue b)).
Proof. unfold call_fun. cbn [str_eqb n_and n_eq n_ne n_not n_or N.eqb Pos.eqb andb forallb]. now rewrite andb_true_r. Qed.
Lemma call_or c a b : call_fun c n_or [a; b] = Ok (of_bool (isTrue a || isTrue b)).
Proof. unfold call_fun. cbn [str_eqb n_and n_eq n_ne n_not n_or N.eqb Pos.eqb andb existsb]. now rewrite orb_false_r. Qed.
Lemma call_eq c a b : call_fun c n_eq [a; b] = Ok (of_bool (str_eqb a b)).
Proof. reflexivity. Qed.
Lemma call_ne c a b : call_fun c n_ne [a; b] = Ok (of_bool (negb (str_eqb a b))).
Proof. reflexivity. Qed.

Lemma eval_s_fn1 c n a :
  eval_s c (SFn n [a]) = bind (eval_s c a) (fun y => call_fun c n [y]).
Proof. cbn [eval_s]. destruct (eval_s c a); reflexivity. Qed.

Lemma eval_s_fn2 c n a b :
  eval_s c (SFn n [a; b]) =
  bind (eval_s c a) (fun y => bind (eval_s c b) (fun z => call_fun c n [y; z])).
Proof. cbn [eval_s]. destruct (eval_s c a); [|reflexivity..]. cbn [bind]. destruct (eval_s c b); reflexivity. Qed.

Definition truth (r : res str) : res bool := bind r (fun v => Ok (isTrue v)).

Lemma if_infix_equiv_proof c : forall e fc,
  to_call e = Some fc -> truth (eval_s c fc) = eval_if c e.
Proof.
  induction e as [s|x IH|l IHl r IHr|l IHl r IHr|op l r]; intros fc H; cbn [to_call] in H.
  - inversion H; subst. reflexivity.
  - destruct (to_call x) as [a|]; [|discriminate]. inversion H; subst; clear H.
    cbn [eval_if]. rewrite <- (IH a eq_refl). rewrite eval_s_fn1. unfold truth.
    destruct (eval_s c a); cbn [bind]; try reflexivity.
    rewrite call_not. cbn [bind]. rewrite isTrue_of_bool. unfold isTrue. now rewrite negb_involutive.
  - destruct (to_call l) as [a|]; [|discriminate]. destruct (to_call r) as [b|]; [|discriminate].
    inversion H; subst; clear H. cbn [eval_if].
    rewrite <- (IHl a eq_refl), <- (IHr b eq_refl). rewrite eval_s_fn2. unfold truth.
    destruct (eval_s c a); cbn [bind]; try reflexivity.
    destruct (eval_s c b); cbn [bind]; try reflexivity.
    rewrite call_and. cbn [bind]. now rewrite isTrue_of_bool.
  - destruct (to_call l) as [a|]; [|discriminate]. destruct (to_call r) as [b|]; [|discriminate].
    inversion H; subst; clear H. cbn [eval_if].
    rewrite <- (IHl a eq_refl), <- (IHr b eq_refl). rewrite eval_s_fn2. unfold truth.
    destruct (eval_s c a); cbn [bind]; try reflexivity.
    destruct (eval_s c b); cbn [bind]; try reflexivity.
    rewrite call_or. cbn [bind]. now rewrite isTrue_of_bool.
  - destruct op; try discriminate; inversion H; subst; clear H; cbn [eval_if cmp_eval];
      rewrite eval_s_fn2; unfold truth;
      (destruct (eval_s c l); cbn [bind]; try reflexivity);
      (destruct (eval_s c r); cbn [bind]; try reflexivity).
    + rewrite call_eq. cbn [bind]. now rewrite isTrue_of_bool.
    + rewrite call_ne. cbn [bind]. now rewrite isTrue_of_bool.
Qed.

(* string comparison operators are code-point lexicographic order *)
Lemma str_ltb_irrefl a : str_ltb a a = false.
Proof. induction a as [|x a IH]; simpl; [reflexivity|]. now rewrite N.ltb_irrefl. Qed.

Lemma str_ltb_trans : forall a b d, str_ltb a b = true -> str_ltb b d = true -> str_ltb a d = true.
Proof.
  induction a as [|x a IH]; intros [|y b] [|z d]; simpl; try congruence.
  destruct (x <? y) eqn:E1, (y <? x) eqn:E2, (y <? z) eqn:E3, (z <? y) eqn:E4, (x <? z) eqn:E5, (z <? x) eqn:E6;
    try rewrite N.ltb_lt in *; try rewrite N.ltb_ge in *; try lia; try congruence; intros; eauto.
Qed.

Lemma str_ltb_total a : forall b, str_ltb a b = true \/ a = b \/ str_ltb b a = true.
Proof.
  induction a as [|x a IH]; intros [|y b]; simpl; auto.
  destruct (x <? y) eqn:E1; auto. destruct (y <? x) eqn:E2; auto.
  rewrite N.ltb_ge in *. assert (x = y) by lia. subst.
  destruct (IH b) as [H|[H|H]]; auto. subst; auto.
Qed.
