(* C17 — property theorems.  This file contains only statements, each closed
   by [exact] of a lemma from Proofs.v, and non-vacuity examples. *)
From Coq Require Import List NArith Bool.
Require Import BobV.Gen.Consts BobV.C17.Model BobV.C17.Proofs BobV.C17.Machine BobV.C17.Spec BobV.C17.MachineProofs BobV.C17.Equiv.
Import ListNotations.
Open Scope N_scope.

(* Text between single quotes comes back unchanged, whatever it contains. *)
Theorem single_quote_protect : forall c s,
  ~ In ch_sq s -> parse c (ch_sq :: s ++ [ch_sq]) = Ok s.
Proof. exact single_quote_protect_proof. Qed.

(* A backslash preserves the literal meaning of the following character:
   any string with every character escaped comes back unchanged. *)
Theorem backslash_protect : forall c s, parse c (esc s) = Ok s.
Proof. exact backslash_protect_proof. Qed.

(* ... in every context (inside double quotes, variable names, defaults,
   function arguments): with any set of additional delimiters active, escaped
   text is glued, verbatim, in front of the text token that follows it ... *)
Theorem escaped_text_is_literal_in_any_context : forall extra x s rest,
  mem ch_bs (TOKEN_DELIMS ++ extra) = false ->
  nextToken extra (esc (x :: s) ++ rest) =
  match scan (TOKEN_DELIMS ++ extra) rest [] with
  | Some (t, r) => Ok (TText ((x :: s) ++ t), r)
  | None => PErr
  end.
Proof. exact nextToken_esc. Qed.

(* ... and when an active delimiter follows, parsing continues at that
   delimiter with the escaped text appended to the value built so far. *)
Theorem backslash_protect_in_context : forall f c extra top keep subst x s d rest acc,
  mem ch_bs (TOKEN_DELIMS ++ extra) = false ->
  mem d (TOKEN_DELIMS ++ extra) = true ->
  getString (S f) c extra top keep subst (esc (x :: s) ++ d :: rest) acc =
  getString f c extra top keep subst (d :: rest) (acc ++ x :: s).
Proof. exact backslash_protect_ctx_proof. Qed.

(* An infix condition (&& || ! == !=) has the truth value of the equivalent
   function-call form, including which errors are raised. *)
Theorem if_infix_equiv : forall c e fc,
  to_call e = Some fc -> truth (eval_s c fc) = eval_if c e.
Proof. exact if_infix_equiv_proof. Qed.

(* < is a strict total order on strings (code-point lexicographic), so
   <, <=, >, >= of cmp_eval are the comparisons of one order. *)
Theorem str_lt_strict_total :
  (forall a, str_ltb a a = false) /\
  (forall a b d, str_ltb a b = true -> str_ltb b d = true -> str_ltb a d = true) /\
  (forall a b, str_ltb a b = true \/ a = b \/ str_ltb b a = true).
Proof. exact (conj str_ltb_irrefl (conj str_ltb_trans (fun a b => str_ltb_total a b))). Qed.

Definition cx0 : ctx :=
  {| c_env := [([88], [118; 97; 108])]; c_nounset := true; c_sandbox := false; c_tools := [] |}.

(* ---- the documented language as a whole (character-level machine model, C17/Machine.v) ----
   Every expression tree of the documented grammar (literals with escapes,
   single and double quotes nested through variables and calls, bare and braced
   variables with default/alternate with and without colon, function calls),
   rendered to concrete syntax, yields exactly its documented value — including
   which error is raised, and including laziness: an untaken default/alternate
   is evaluated with substitution off. *)
Theorem parse_render : forall c e,
  wf_items e = true -> parseM c (r_items e) = e_items c true e.
Proof. exact parse_render_proof. Qed.

(* the same inside any context: any activation kind, any surrounding stack, any following text *)
Theorem parse_render_in_context : forall c e sb k acc below rest,
  wf_items e = true -> (k = KDq -> no_top_dq e = true) -> (ends_bare e = true -> nsafe rest = true) ->
  exec c (FS k sb acc :: below) (r_items e ++ rest) =
  bind (e_items c sb e) (fun v => exec c (FS k sb (acc ++ v) :: below) rest).
Proof. intros c. exact (proj1 (proj2 (machine_computes_documented_value c))). Qed.

(* lazy evaluation of untaken branches: with substitution off nothing fails,
   whatever unset variables or unknown functions the branch mentions *)
Theorem untaken_branch_never_fails : forall c e, exists v, e_items c false e = Ok v.
Proof. intros c. exact (proj1 (proj2 (untaken_never_fails c))). Qed.

(* for arbitrary raw input the machine yields a value, a parse error or an
   unmodelled-function marker: it is total (structural recursion), there is no
   internal failure mode *)
Theorem machine_total : forall c t, parseM c t <> Fuel.
Proof. exact machine_total_proof. Qed.

(* ---- the two models are one function ----
   Model.parse transliterates stringparser.py (recursive descent over tokens,
   one fuel argument for the mutual recursion getString / getVariable /
   getCommand); Machine.parseM is the character-level pushdown machine the
   theorems above are about.  The fuel [fuel_for t] always suffices (every call
   chain of the recursive descent consumes text), and the two functions agree
   on every context and every raw text: values, parse errors and the
   unmodelled-function marker alike. *)
Theorem fuel_enough : forall c t, parse c t <> Fuel.
Proof. exact fuel_enough_proof. Qed.

Theorem parse_is_parseM : forall c t, parse c t = parseM c t.
Proof. exact parse_is_parseM_proof. Qed.

(* hence the documented-language theorem holds of the transliteration itself *)
Theorem parse_render_recursive_descent : forall c e,
  wf_items e = true -> parse c (r_items e) = e_items c true e.
Proof. exact parse_render_rd_proof. Qed.

(* non-vacuity: concrete instances, evaluated *)
Definition ex_ast : items :=     (* "a\$"'q'${Y:-d$X}$(eq,${X},val)$X *)
  ICons (IDq (ICons (ILit [97; 36]) INil))
  (ICons (ISq [113])
  (ICons (IVar (ICons (ILit [89]) INil) (OBody true false (ICons (ILit [100]) (ICons (IBare [88]) INil))))
  (ICons (ICall (WCons (ICons (ILit [101; 113]) INil) (WCons (ICons (IVar (ICons (ILit [88]) INil) ONone) INil)
                (WOne (ICons (ILit [118; 97; 108]) INil)))))
  (ICons (IBare [88]) INil)))).

Example parse_render_nonvacuous :
  wf_items ex_ast = true /\
  parseM cx0 (r_items ex_ast) = Ok [97; 36; 113; 100; 118; 97; 108; 116; 114; 117; 101; 118; 97; 108] /\
  parse cx0 (r_items ex_ast) = parseM cx0 (r_items ex_ast).
Proof. vm_compute. auto. Qed.

Example single_quote_nonvacuous :   (* '$X"\' -> $X"\ *)
  parse cx0 [39; 36; 88; 34; 92; 39] = Ok [36; 88; 34; 92].
Proof. vm_compute. reflexivity. Qed.

Example escaped_quote_before_variable :   (* \"$X\" -> "val"  (finding F1 on the unfixed tree) *)
  parse cx0 [92; 34; 36; 88; 92; 34] = Ok [34; 118; 97; 108; 34].
Proof. vm_compute. reflexivity. Qed.

Example if_infix_nonvacuous :
  let e := IAnd (INot (IStr (SLit [48] false))) (ICmp OEq (SLit [36; 88] true) (SLit [118; 97; 108] false)) in
  exists fc, to_call e = Some fc /\ eval_if cx0 e = Ok true.
Proof. eexists. split; [reflexivity| vm_compute; reflexivity]. Qed.
