(* C17 — the documented substitution language as an AST with its value
   (doc/manual/configuration.rst, "String substitution") and a rendering into
   concrete syntax.  Definitions only. *)
From Coq Require Import List NArith Bool.
Require Import BobV.Gen.Consts BobV.C17.Model BobV.C17.Machine.
Import ListNotations.
Open Scope N_scope.

Inductive item :=
| ILit (s : str)                        (* literal text; meta characters are escaped by a backslash *)
| ISq (s : str)                         (* single quoted *)
| IDq (b : items)                       (* double quoted: a new substitution context *)
| IBare (n : str)                       (* bare variable *)
| IVar (name : items) (op : vop)        (* braced variable with optional default / alternate *)
| ICall (ws : words)                    (* function call: name and arguments *)
with items := INil | ICons (i : item) (r : items)
with vop := ONone | OBody (colon plus : bool) (body : items)
with words := WOne (w : items) | WCons (w : items) (r : words).

Scheme item_mut := Induction for item Sort Prop
  with items_mut := Induction for items Sort Prop
  with vop_mut := Induction for vop Sort Prop
  with words_mut := Induction for words Sort Prop.
Combined Scheme ast_mutind from item_mut, items_mut, vop_mut, words_mut.

(* every character that is a delimiter in some context is escaped in literals *)
Definition META : list N := SPECIAL_CHARS ++ VARNAME_DELIMS ++ CMD_DELIMS.
Definition render_char (x : N) : str := if mem x META then [ch_bs; x] else [x].

Fixpoint r_item (i : item) : str :=
  match i with
  | ILit s => flat_map render_char s
  | ISq s => ch_sq :: s ++ [ch_sq]
  | IDq b => ch_dq :: r_items b ++ [ch_dq]
  | IBare n => ch_dollar :: n
  | IVar name op => ch_dollar :: ch_lbrace :: r_items name ++ r_op op ++ [ch_rbrace]
  | ICall ws => ch_dollar :: ch_lparen :: r_words ws ++ [ch_rparen]
  end
with r_items (e : items) : str :=
  match e with INil => [] | ICons i r => r_item i ++ r_items r end
with r_op (o : vop) : str :=
  match o with
  | ONone => []
  | OBody colon plus body => (if colon then [ch_colon] else []) ++ [if plus then ch_plus else ch_minus] ++ r_items body
  end
with r_words (w : words) : str :=
  match w with WOne w => r_items w | WCons w r => r_items w ++ [ch_comma] ++ r_words r end.

Definition unset_of (c : ctx) (colon : bool) (nm : str) : bool :=
  if in_env (c_env c) nm then (if colon then str_eqb (env_get (c_env c) nm) [] else false) else true.

(* the documented value; [sb] = substitution is live (false inside an untaken
   default/alternate: nothing there is evaluated, so nothing there can fail) *)
Fixpoint e_item (c : ctx) (sb : bool) (i : item) : res str :=
  match i with
  | ILit s => Ok s
  | ISq s => Ok s
  | IDq b => e_items c sb b
  | IBare n => var_value c sb n
  | IVar name op =>
    bind (e_items c sb name) (fun nm =>
    match op with
    | ONone => var_value c sb nm
    | OBody colon plus body =>
      let unset := unset_of c colon nm in
      if plus then bind (e_items c (sb && negb unset) body) (fun a => Ok (if unset then [] else a))
      else bind (e_items c (sb && unset) body) (fun d => Ok (if unset then d else env_get (c_env c) nm))
    end)
  | ICall ws =>
    bind (e_words c sb ws) (fun vs =>
      if sb then match vs with cmd :: args => call_fun c cmd args | [] => PErr end else Ok [])
  end
with e_items (c : ctx) (sb : bool) (e : items) : res str :=
  match e with
  | INil => Ok []
  | ICons i r => bind (e_item c sb i) (fun v => bind (e_items c sb r) (fun w => Ok (v ++ w)))
  end
with e_words (c : ctx) (sb : bool) (w : words) : res (list str) :=
  match w with
  | WOne w => bind (e_items c sb w) (fun v => Ok [v])
  | WCons w r => bind (e_items c sb w) (fun v => bind (e_words c sb r) (fun vs => Ok (v :: vs)))
  end.

(* well-formedness of the concrete syntax *)
Definition nsafe (t : str) : bool :=       (* does not continue a bare variable name *)
  match t with [] => true | x :: _ => negb (mem x NAME_CHARS) end.

Definition name_ok (n : str) : bool :=
  match n with [] => false | h :: t => mem h NAME_START && forallb (fun x => mem x NAME_CHARS) t end.

Definition is_dq (i : item) : bool := match i with IDq _ => true | _ => false end.
Definition is_bare (i : item) : bool := match i with IBare _ => true | _ => false end.

Fixpoint no_top_dq (e : items) : bool :=
  match e with INil => true | ICons i r => negb (is_dq i) && no_top_dq r end.

Fixpoint ends_bare (e : items) : bool :=
  match e with INil => false | ICons i INil => is_bare i | ICons _ r => ends_bare r end.

Fixpoint wf_item (i : item) : bool :=
  match i with
  | ILit s => match s with [] => false | _ => true end
  | ISq s => negb (mem ch_sq s)
  | IDq b => wf_items b && no_top_dq b
  | IBare n => name_ok n
  | IVar name op => wf_items name && wf_op op
  | ICall ws => wf_words ws
  end
with wf_items (e : items) : bool :=
  match e with
  | INil => true
  | ICons i r => wf_item i && wf_items r &&
                 (if is_bare i then match r with INil => true | _ => nsafe (r_items r) end else true)
  end
with wf_op (o : vop) : bool :=
  match o with ONone => true | OBody _ _ body => wf_items body end
with wf_words (w : words) : bool :=
  match w with WOne w => wf_items w | WCons w r => wf_items w && wf_words r end.
