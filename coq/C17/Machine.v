(* C17 — second model of StringParser: a character-level pushdown machine.

   After fix 4e8537c (escaped delimiters are text) the recursive-descent
   parser of stringparser.py has a character-level reading: in every
   getString activation a character is either an active delimiter, a quote,
   `$`, a backslash (next character literal) or literal text.  This file
   states that reading as a structurally recursive machine over the text with
   an explicit stack of activations: no fuel, total by construction.  It is
   tied to the implementation by the same correspondence runs as Model.v;
   the theorem "parse (render e) = documented value of e" is proved for it in
   MachineProofs.v.  Definitions only. *)
From Coq Require Import List NArith Bool.
Require Import BobV.Gen.Consts BobV.C17.Model.
Import ListNotations.
Open Scope N_scope.

(* kind of a getString activation = its additional delimiters *)
Inductive skind :=
| KTop                                            (* delim = [None] *)
| KDq                                             (* the double quote *)
| KVarName                                        (* colon, minus, plus, closing brace; keep *)
| KVarBody (name : str) (unset : bool) (plus : bool)   (* closing brace: default / alternate of a braced variable *)
| KArg.                                           (* comma, closing parenthesis; keep: one word of a function call *)

Definition extra_of (k : skind) : list N :=
  match k with
  | KTop => []
  | KDq => [ch_dq]
  | KVarName => VARNAME_DELIMS
  | KVarBody _ _ _ => VARBODY_DELIMS
  | KArg => CMD_DELIMS
  end.

Inductive frame :=
| FS (k : skind) (sb : bool) (acc : str)          (* getString(delim(k), keep, subst=sb), value so far *)
| FEsc                                            (* after a backslash *)
| FSq (a : str)                                   (* getSingleQuoted *)
| FDollar (sb : bool)                             (* after a dollar sign *)
| FBare (n : str) (sb : bool)                     (* getBareVariable / getRestOfName *)
| FColon (name : str) (sb : bool)                 (* getVariable after a colon *)
| FCmd (words : list str) (sb : bool).            (* getCommand, words so far *)

Definition stack := list frame.

Definition append_val (v : str) (st : stack) : res stack :=
  match st with
  | FS k sb acc :: r => Ok (FS k sb (acc ++ v) :: r)
  | _ => PErr
  end.

Definition var_value (c : ctx) (sb : bool) (name : str) : res str :=
  match lookup (c_env c) name with
  | Some v => Ok v
  | None => if sb && c_nounset c then PErr else Ok []
  end.

(* the operator character of a braced variable; [unset] already includes the colon rule *)
Definition dispatch_op (c : ctx) (name : str) (sb : bool) (unset : bool) (op : N) (below : stack) : res stack :=
  if op =? ch_minus then Ok (FS (KVarBody name unset false) (sb && unset) [] :: below)
  else if op =? ch_plus then Ok (FS (KVarBody name unset true) (sb && negb unset) [] :: below)
  else if op =? ch_rbrace then bind (var_value c sb name) (fun v => append_val v below)
  else PErr.

(* an active additional delimiter [d] ends the activation of kind [k] *)
Definition terminate (c : ctx) (k : skind) (sb : bool) (acc : str) (d : N) (below : stack) : res stack :=
  match k with
  | KTop => PErr
  | KDq => append_val acc below
  | KVarName =>
    if d =? ch_colon then Ok (FColon acc sb :: below)
    else dispatch_op c acc sb (negb (in_env (c_env c) acc)) d below
  | KVarBody name unset plus =>
    append_val (if plus then (if unset then [] else acc) else (if unset then acc else env_get (c_env c) name)) below
  | KArg =>
    match below with
    | FCmd words sbc :: below' =>
      if d =? ch_rparen then
        if sbc then
          match words ++ [acc] with
          | cmd :: args => bind (call_fun c cmd args) (fun v => append_val v below')
          | [] => PErr
          end
        else append_val [] below'
      else Ok (FS KArg sb [] :: FCmd (words ++ [acc]) sbc :: below')
    | _ => PErr
    end
  end.

(* one character in a getString activation *)
Definition step_fs (c : ctx) (k : skind) (sb : bool) (acc : str) (below : stack) (x : N) : res stack :=
  if mem x (extra_of k) then terminate c k sb acc x below
  else if x =? ch_dq then Ok (FS KDq sb [] :: FS k sb acc :: below)
  else if x =? ch_sq then Ok (FSq [] :: FS k sb acc :: below)
  else if x =? ch_dollar then Ok (FDollar sb :: FS k sb acc :: below)
  else if x =? ch_bs then Ok (FEsc :: FS k sb acc :: below)
  else Ok (FS k sb (acc ++ [x]) :: below).

Definition step (c : ctx) (st : stack) (x : N) : res stack :=
  match st with
  | [] => PErr
  | FS k sb acc :: below => step_fs c k sb acc below x
  | FEsc :: below => append_val [x] below
  | FSq a :: below => if x =? ch_sq then append_val a below else Ok (FSq (a ++ [x]) :: below)
  | FDollar sb :: below =>
    if x =? ch_lbrace then Ok (FS KVarName sb [] :: below)
    else if x =? ch_lparen then Ok (FS KArg sb [] :: FCmd [] sb :: below)
    else if mem x NAME_START then Ok (FBare [x] sb :: below)
    else PErr
  | FBare n sb :: below =>
    if mem x NAME_CHARS then Ok (FBare (n ++ [x]) sb :: below)
    else bind (var_value c sb n) (fun v =>
         match below with
         | FS k sb' acc :: below' => step_fs c k sb' (acc ++ v) below' x
         | _ => PErr
         end)
  | FColon name sb :: below =>
    let unset := if in_env (c_env c) name then str_eqb (env_get (c_env c) name) [] else true in
    dispatch_op c name sb unset x below
  | FCmd _ _ :: _ => PErr
  end.

Fixpoint run (c : ctx) (st : stack) (t : str) : res stack :=
  match t with
  | [] => Ok st
  | x :: r => bind (step c st x) (fun st' => run c st' r)
  end.

(* end of text *)
Definition finish (c : ctx) (st : stack) : res str :=
  match st with
  | [FS KTop _ acc] => Ok acc
  | [FBare n sb; FS KTop _ acc] => bind (var_value c sb n) (fun v => Ok (acc ++ v))
  | _ => PErr
  end.

Definition exec (c : ctx) (st : stack) (t : str) : res str := bind (run c st t) (finish c).

Definition parseM (c : ctx) (t : str) : res str := exec c [FS KTop true []] t.
