(* C17 — the character-level machine computes the documented value of every
   expression tree of the documented grammar. *)
From Coq Require Import List NArith Bool Lia.
Require Import BobV.Gen.Consts BobV.C17.Model BobV.C17.Proofs BobV.C17.Machine BobV.C17.Spec.
Import ListNotations.
Open Scope N_scope.

(* ---- bind laws *)
Lemma bind_assoc {A B C} (r : res A) (f : A -> res B) (g : B -> res C) :
  bind (bind r f) g = bind r (fun a => bind (f a) g).
Proof. destruct r; reflexivity. Qed.

Lemma bind_ext {A B} (r : res A) (f g : A -> res B) : (forall a, f a = g a) -> bind r f = bind r g.
Proof. intros H. destruct r; cbn; auto. Qed.

Lemma bind_ok_r {A} (r : res A) : bind r (fun a => Ok a) = r.
Proof. destruct r; reflexivity. Qed.

Section Machine.
  Variable c : ctx.

  Lemma run_app st a b : run c st (a ++ b) = bind (run c st a) (fun st' => run c st' b).
  Proof.
    revert st. induction a as [|x a IH]; intros st; cbn [app run]; [reflexivity|].
    rewrite bind_assoc. apply bind_ext. intros st'. apply IH.
  Qed.

  Lemma exec_cons st x t : exec c st (x :: t) = bind (step c st x) (fun st' => exec c st' t).
  Proof. unfold exec. cbn [run]. apply bind_assoc. Qed.

  Lemma exec_app st a b : exec c st (a ++ b) = bind (run c st a) (fun st' => exec c st' b).
  Proof. unfold exec. rewrite run_app. apply bind_assoc. Qed.

  Lemma exec_run_ok st a b st' : run c st a = Ok st' -> exec c st (a ++ b) = exec c st' b.
  Proof. intros H. rewrite exec_app, H. reflexivity. Qed.

  (* ---- facts about the constant tables *)
  Lemma bs_not_extra k : mem ch_bs (extra_of k) = false.
  Proof. destruct k; reflexivity. Qed.
  Lemma dollar_not_extra k : mem ch_dollar (extra_of k) = false.
  Proof. destruct k; reflexivity. Qed.
  Lemma sq_not_extra k : mem ch_sq (extra_of k) = false.
  Proof. destruct k; reflexivity. Qed.
  Lemma dq_extra_only_dq k : mem ch_dq (extra_of k) = true -> k = KDq.
  Proof. destruct k; cbn; intros H; try discriminate; reflexivity. Qed.

  Lemma extra_sub_meta k x : mem x (extra_of k) = true -> mem x META = true.
  Proof.
    intros H. apply mem_In in H. apply mem_In.
    destruct k; cbn in H; unfold META; cbn;
      repeat match goal with H : _ \/ _ |- _ => destruct H as [H|H] end;
      try contradiction; subst; auto 20.
  Qed.

  Lemma plain_step k sb acc below x :
    mem x META = false -> step_fs c k sb acc below x = Ok (FS k sb (acc ++ [x]) :: below).
  Proof.
    intros H. unfold step_fs.
    assert (E : mem x (extra_of k) = false).
    { destruct (mem x (extra_of k)) eqn:E; [|reflexivity]. apply extra_sub_meta in E. congruence. }
    rewrite E. unfold META in H. cbn in H.
    repeat (apply orb_false_iff in H; destruct H as [? H]).
    unfold ch_dq, ch_sq, ch_dollar, ch_bs.
    repeat match goal with Hq : (x =? _) = false |- _ => rewrite Hq; clear Hq end.
    reflexivity.
  Qed.

  Lemma meta_step k sb acc below x :
    run c (FS k sb acc :: below) [ch_bs; x] = Ok (FS k sb (acc ++ [x]) :: below).
  Proof.
    cbn [run]. cbn [step]. unfold step_fs. rewrite bs_not_extra.
    change (ch_bs =? ch_dq) with false. change (ch_bs =? ch_sq) with false.
    change (ch_bs =? ch_dollar) with false. change (ch_bs =? ch_bs) with true.
    cbn. reflexivity.
  Qed.

  (* ---- literal text *)
  Lemma lit_run s : forall k sb acc below,
    run c (FS k sb acc :: below) (flat_map render_char s) = Ok (FS k sb (acc ++ s) :: below).
  Proof.
    induction s as [|x s IH]; intros k sb acc below; cbn [flat_map].
    - cbn. now rewrite app_nil_r.
    - rewrite run_app. unfold render_char at 1. destruct (mem x META) eqn:E.
      + rewrite meta_step. cbn [bind]. rewrite IH. now rewrite <- app_assoc.
      + cbn [run step]. rewrite (plain_step _ _ _ _ _ E). cbn [bind]. rewrite IH. now rewrite <- app_assoc.
  Qed.

  (* ---- single quotes *)
  Lemma sq_run s : forall a B, mem ch_sq s = false ->
    run c (FSq a :: B) (s ++ [ch_sq]) = bind (append_val (a ++ s) B) (fun st => Ok st).
  Proof.
    induction s as [|x s IH]; intros a B H; cbn [app run step].
    - change (ch_sq =? ch_sq) with true. cbn. rewrite app_nil_r. now rewrite !bind_ok_r.
    - cbn [mem] in H. apply orb_false_iff in H as [H1 H2].
      assert (E : (x =? ch_sq) = false) by (rewrite N.eqb_sym; exact H1).
      rewrite E. cbn [bind]. rewrite IH by exact H2. now rewrite <- app_assoc.
  Qed.

  (* ---- bare variable names *)
  Lemma bare_tail t : forall n sb B, forallb (fun x => mem x NAME_CHARS) t = true ->
    run c (FBare n sb :: B) t = Ok (FBare (n ++ t) sb :: B).
  Proof.
    induction t as [|x t IH]; intros n sb B H; cbn [run step].
    - now rewrite app_nil_r.
    - cbn [forallb] in H. apply andb_true_iff in H as [H1 H2]. rewrite H1. cbn [bind].
      rewrite IH by exact H2. now rewrite <- app_assoc.
  Qed.

  (* ---- helper facts *)
  Lemma nsafe_app a b : a <> [] -> nsafe (a ++ b) = nsafe a.
  Proof. destruct a; [congruence|reflexivity]. Qed.

  Lemma render_char_nonempty x : render_char x <> [].
  Proof. unfold render_char. destruct (mem x META); discriminate. Qed.

  Lemma r_item_nonempty i : wf_item i = true -> r_item i <> [].
  Proof.
    destruct i; cbn; intros H; try discriminate.
    destruct s as [|x s]; [discriminate|]. cbn. 
    pose proof (render_char_nonempty x). destruct (render_char x); [congruence|discriminate].
  Qed.

  Lemma r_items_nonempty e : wf_items e = true -> e <> INil -> r_items e <> [].
  Proof.
    destruct e as [|i r]; [congruence|]. cbn [wf_items r_items]. intros H _.
    apply andb_true_iff in H as [H _]. apply andb_true_iff in H as [H _].
    pose proof (r_item_nonempty i H). destruct (r_item i); [congruence|discriminate].
  Qed.

  (* value of the operator part of a braced variable, given the name *)
  Definition op_value (sb : bool) (nm : str) (o : vop) : res str :=
    match o with
    | ONone => var_value c sb nm
    | OBody colon plus body =>
      let unset := unset_of c colon nm in
      if plus then bind (e_items c (sb && negb unset) body) (fun a => Ok (if unset then [] else a))
      else bind (e_items c (sb && unset) body) (fun d => Ok (if unset then d else env_get (c_env c) nm))
    end.

  Definition call_value (sb : bool) (ws : list str) : res str :=
    if sb then match ws with cmd :: args => call_fun c cmd args | [] => PErr end else Ok [].

  Definition P_item (i : item) : Prop := forall sb k acc below rest,
    wf_item i = true -> (k = KDq -> is_dq i = false) -> (is_bare i = true -> nsafe rest = true) ->
    exec c (FS k sb acc :: below) (r_item i ++ rest) =
    bind (e_item c sb i) (fun v => exec c (FS k sb (acc ++ v) :: below) rest).

  Definition P_items (e : items) : Prop := forall sb k acc below rest,
    wf_items e = true -> (k = KDq -> no_top_dq e = true) -> (ends_bare e = true -> nsafe rest = true) ->
    exec c (FS k sb acc :: below) (r_items e ++ rest) =
    bind (e_items c sb e) (fun v => exec c (FS k sb (acc ++ v) :: below) rest).

  Definition P_op (o : vop) : Prop := forall sb nm k' sb' acc' below' rest,
    wf_op o = true ->
    exec c (FS KVarName sb nm :: FS k' sb' acc' :: below') (r_op o ++ ch_rbrace :: rest) =
    bind (op_value sb nm o) (fun v => exec c (FS k' sb' (acc' ++ v) :: below') rest).

  Definition P_words (w : words) : Prop := forall sb ws0 k' sb' acc' below' rest,
    wf_words w = true ->
    exec c (FS KArg sb [] :: FCmd ws0 sb :: FS k' sb' acc' :: below') (r_words w ++ ch_rparen :: rest) =
    bind (e_words c sb w) (fun vs =>
      bind (call_value sb (ws0 ++ vs)) (fun v => exec c (FS k' sb' (acc' ++ v) :: below') rest)).

  Lemma nsafe_delims : nsafe [ch_dq] = true /\ nsafe [ch_rbrace] = true /\ nsafe [ch_comma] = true /\
                       nsafe [ch_rparen] = true /\ nsafe [ch_colon] = true /\ nsafe [ch_minus] = true /\ nsafe [ch_plus] = true.
  Proof. repeat split; reflexivity. Qed.

  Lemma step_dollar k sb acc below :
    step_fs c k sb acc below ch_dollar = Ok (FDollar sb :: FS k sb acc :: below).
  Proof.
    unfold step_fs. rewrite dollar_not_extra.
    change (ch_dollar =? ch_dq) with false. change (ch_dollar =? ch_sq) with false.
    change (ch_dollar =? ch_dollar) with true. reflexivity.
  Qed.

  Lemma P_lit s : P_item (ILit s).
  Proof.
    intros sb k acc below rest _ _ _. cbn [r_item e_item bind].
    apply exec_run_ok. apply lit_run.
  Qed.

  Lemma P_sq s : P_item (ISq s).
  Proof.
    intros sb k acc below rest W _ _. cbn [r_item e_item bind wf_item] in *.
    apply negb_true_iff in W.
    change ((ch_sq :: s ++ [ch_sq]) ++ rest) with (ch_sq :: (s ++ [ch_sq]) ++ rest).
    rewrite exec_cons. cbn [step]. unfold step_fs. rewrite sq_not_extra.
    change (ch_sq =? ch_dq) with false. change (ch_sq =? ch_sq) with true. cbn [bind].
    rewrite exec_app. rewrite sq_run by exact W. cbn. reflexivity.
  Qed.

  Lemma P_bare n : P_item (IBare n).
  Proof.
    intros sb k acc below rest W _ Hs. cbn [r_item e_item wf_item is_bare] in *.
    specialize (Hs eq_refl).
    destruct n as [|h t]; [discriminate|]. cbn [name_ok] in W. apply andb_true_iff in W as [W1 W2].
    cbn [app]. rewrite exec_cons. cbn [step]. rewrite step_dollar. cbn [bind].
    rewrite exec_cons. cbn [step].
    assert (E1 : (h =? ch_lbrace) = false).
    { destruct (h =? ch_lbrace) eqn:E; [|reflexivity]. apply N.eqb_eq in E. subst. discriminate. }
    assert (E2 : (h =? ch_lparen) = false).
    { destruct (h =? ch_lparen) eqn:E; [|reflexivity]. apply N.eqb_eq in E. subst. discriminate. }
    rewrite E1, E2, W1. cbn [bind].
    rewrite exec_app. rewrite bare_tail by exact W2. cbn [bind app].
    destruct rest as [|x rest].
    - unfold exec. cbn [run bind finish].
      unfold var_value. destruct k, below; cbn; destruct (lookup (c_env c) (h :: t)); try destruct (sb && c_nounset c); reflexivity.
    - cbn [nsafe] in Hs. apply negb_true_iff in Hs.
      rewrite exec_cons. cbn [step]. rewrite Hs. rewrite bind_assoc.
      apply bind_ext. intros v. rewrite exec_cons. reflexivity.
  Qed.

  Lemma step_dq_open k sb acc below : k <> KDq ->
    step_fs c k sb acc below ch_dq = Ok (FS KDq sb [] :: FS k sb acc :: below).
  Proof.
    intros H. unfold step_fs.
    destruct (mem ch_dq (extra_of k)) eqn:E; [apply dq_extra_only_dq in E; congruence|].
    change (ch_dq =? ch_dq) with true. reflexivity.
  Qed.

  Lemma P_dq b : P_items b -> P_item (IDq b).
  Proof.
    intros IH sb k acc below rest W Hk _. cbn [r_item e_item wf_item is_dq] in *.
    apply andb_true_iff in W as [W1 W2].
    assert (Hk' : k <> KDq) by (intros ->; specialize (Hk eq_refl); discriminate).
    change ((ch_dq :: r_items b ++ [ch_dq]) ++ rest) with (ch_dq :: (r_items b ++ [ch_dq]) ++ rest).
    rewrite exec_cons. cbn [step]. rewrite step_dq_open by exact Hk'. cbn [bind].
    rewrite <- app_assoc.
    rewrite (IH sb KDq [] (FS k sb acc :: below) ([ch_dq] ++ rest) W1 (fun _ => W2) (fun _ => eq_refl)).
    apply bind_ext. intros v. cbn [app]. rewrite exec_cons. cbn [step]. unfold step_fs.
    change (mem ch_dq (extra_of KDq)) with true. cbn [terminate append_val bind]. reflexivity.
  Qed.

  Lemma P_nil : P_items INil.
  Proof. intros sb k acc below rest _ _ _. cbn. now rewrite app_nil_r. Qed.

  Lemma P_cons i r : P_item i -> P_items r -> P_items (ICons i r).
  Proof.
    intros Hi Hr sb k acc below rest W Hk Hs. cbn [r_items e_items wf_items no_top_dq] in *.
    apply andb_true_iff in W as [W W3]. apply andb_true_iff in W as [W1 W2].
    rewrite <- app_assoc.
    rewrite (Hi sb k acc below (r_items r ++ rest) W1).
    - rewrite bind_assoc. apply bind_ext. intros v.
      rewrite (Hr sb k (acc ++ v) below rest W2).
      + rewrite bind_assoc. apply bind_ext. intros w. cbn [bind]. now rewrite app_assoc.
      + intros Ek. specialize (Hk Ek). apply andb_true_iff in Hk. apply Hk.
      + intros He. apply Hs. cbn [ends_bare]. destruct r; [discriminate|exact He].
    - intros Ek. specialize (Hk Ek). apply andb_true_iff in Hk as [Hk _]. now apply negb_true_iff in Hk.
    - intros Hb. rewrite Hb in W3. destruct r as [|j r'].
      + cbn [r_items app]. apply Hs. cbn [ends_bare]. exact Hb.
      + rewrite nsafe_app; [exact W3|]. apply r_items_nonempty; [exact W2|discriminate].
  Qed.

  Lemma P_onone : P_op ONone.
  Proof.
    intros sb nm k' sb' acc' below' rest _. cbn [r_op app op_value].
    rewrite exec_cons. cbn [step]. unfold step_fs.
    change (mem ch_rbrace (extra_of KVarName)) with true. cbn [terminate].
    change (ch_rbrace =? ch_colon) with false. unfold dispatch_op.
    change (ch_rbrace =? ch_minus) with false. change (ch_rbrace =? ch_plus) with false.
    change (ch_rbrace =? ch_rbrace) with true. cbv beta iota.
    rewrite !bind_assoc. apply bind_ext. intros v. reflexivity.
  Qed.

  Lemma body_close nm unset plus sbb a k' sb' acc' below' rest :
    exec c (FS (KVarBody nm unset plus) sbb a :: FS k' sb' acc' :: below') (ch_rbrace :: rest) =
    exec c (FS k' sb' (acc' ++ (if plus then (if unset then [] else a) else (if unset then a else env_get (c_env c) nm))) :: below') rest.
  Proof.
    rewrite exec_cons. cbn [step]. unfold step_fs.
    change (mem ch_rbrace (extra_of (KVarBody nm unset plus))) with true.
    cbn [terminate append_val bind]. reflexivity.
  Qed.

  Lemma P_obody colon plus body : P_items body -> P_op (OBody colon plus body).
  Proof.
    intros IH sb nm k' sb' acc' below' rest W. cbn [wf_op] in W. cbn [r_op op_value].
    set (B := FS k' sb' acc' :: below').
    assert (Open : forall t,
      exec c (FS KVarName sb nm :: B) (((if colon then [ch_colon] else []) ++ [if plus then ch_plus else ch_minus]) ++ t) =
      exec c (FS (KVarBody nm (unset_of c colon nm) plus)
                 (if plus then sb && negb (unset_of c colon nm) else sb && unset_of c colon nm) [] :: B) t).
    { intros t. unfold unset_of. destruct colon; cbn [app].
      - rewrite exec_cons. cbn [step]. unfold step_fs.
        change (mem ch_colon (extra_of KVarName)) with true. cbn [terminate].
        change (ch_colon =? ch_colon) with true. cbv beta iota. cbn [bind].
        rewrite exec_cons. cbn [step]. unfold dispatch_op.
        destruct plus.
        + change (ch_plus =? ch_minus) with false. change (ch_plus =? ch_plus) with true. cbv beta iota. cbn [bind].
          destruct (in_env (c_env c) nm); reflexivity.
        + change (ch_minus =? ch_minus) with true. cbv beta iota. cbn [bind].
          destruct (in_env (c_env c) nm); reflexivity.
      - rewrite exec_cons. cbn [step]. unfold step_fs. destruct plus.
        + change (mem ch_plus (extra_of KVarName)) with true. cbn [terminate].
          change (ch_plus =? ch_colon) with false. cbv beta iota. unfold dispatch_op.
          change (ch_plus =? ch_minus) with false. change (ch_plus =? ch_plus) with true. cbv beta iota. cbn [bind].
          destruct (in_env (c_env c) nm); reflexivity.
        + change (mem ch_minus (extra_of KVarName)) with true. cbn [terminate].
          change (ch_minus =? ch_colon) with false. cbv beta iota. unfold dispatch_op.
          change (ch_minus =? ch_minus) with true. cbv beta iota. cbn [bind].
          destruct (in_env (c_env c) nm); reflexivity. }
    rewrite <- !app_assoc. rewrite app_assoc. rewrite Open. clear Open.
    cbv zeta. set (u := unset_of c colon nm).
    destruct plus.
    - rewrite (IH (sb && negb u) (KVarBody nm u true) [] B (ch_rbrace :: rest) W (fun E => ltac:(discriminate E)) (fun _ => eq_refl)).
      rewrite bind_assoc. apply bind_ext. intros a. cbn [bind app]. unfold B. rewrite body_close. reflexivity.
    - rewrite (IH (sb && u) (KVarBody nm u false) [] B (ch_rbrace :: rest) W (fun E => ltac:(discriminate E)) (fun _ => eq_refl)).
      rewrite bind_assoc. apply bind_ext. intros a. cbn [bind app]. unfold B. rewrite body_close. reflexivity.
  Qed.

  Lemma P_var name op : P_items name -> P_op op -> P_item (IVar name op).
  Proof.
    intros Hn Ho sb k acc below rest W _ _. cbn [r_item e_item wf_item] in *.
    apply andb_true_iff in W as [W1 W2].
    change ((ch_dollar :: ch_lbrace :: r_items name ++ r_op op ++ [ch_rbrace]) ++ rest)
      with (ch_dollar :: ch_lbrace :: (r_items name ++ r_op op ++ [ch_rbrace]) ++ rest).
    rewrite exec_cons. cbn [step]. rewrite step_dollar. cbn [bind].
    rewrite exec_cons. cbn [step]. change (ch_lbrace =? ch_lbrace) with true. cbv beta iota. cbn [bind].
    rewrite <- !app_assoc.
    rewrite (Hn sb KVarName [] (FS k sb acc :: below) (r_op op ++ [ch_rbrace] ++ rest) W1 (fun E => ltac:(discriminate E))).
    - rewrite bind_assoc. apply bind_ext. intros nm. cbn [app]. rewrite (Ho sb nm k sb acc below rest W2).
      destruct op; reflexivity.
    - intros _. destruct op as [|colon plus body]; cbn [r_op app]; [reflexivity|].
      destruct colon, plus; reflexivity.
  Qed.

  Lemma P_wone w : P_items w -> P_words (WOne w).
  Proof.
    intros IH sb ws0 k' sb' acc' below' rest W. cbn [wf_words r_words e_words] in *.
    rewrite (IH sb KArg [] (FCmd ws0 sb :: FS k' sb' acc' :: below') (ch_rparen :: rest) W (fun E => ltac:(discriminate E)) (fun _ => eq_refl)).
    rewrite bind_assoc. apply bind_ext. intros v. cbn [bind app].
    rewrite exec_cons. cbn [step]. unfold step_fs.
    change (mem ch_rparen (extra_of KArg)) with true. cbn [terminate].
    change (ch_rparen =? ch_rparen) with true. cbv beta iota. unfold call_value.
    destruct sb.
    - destruct (ws0 ++ [v]) as [|cmd args]; [reflexivity|].
      rewrite !bind_assoc. apply bind_ext. intros r. reflexivity.
    - cbn [append_val bind]. reflexivity.
  Qed.

  Lemma P_wcons w r : P_items w -> P_words r -> P_words (WCons w r).
  Proof.
    intros Hw Hr sb ws0 k' sb' acc' below' rest W. cbn [wf_words r_words e_words] in *.
    apply andb_true_iff in W as [W1 W2].
    rewrite <- !app_assoc.
    rewrite (Hw sb KArg [] (FCmd ws0 sb :: FS k' sb' acc' :: below') ([ch_comma] ++ r_words r ++ ch_rparen :: rest) W1
               (fun E => ltac:(discriminate E)) (fun _ => eq_refl)).
    rewrite bind_assoc. apply bind_ext. intros v. cbn [bind app].
    rewrite exec_cons. cbn [step]. unfold step_fs.
    change (mem ch_comma (extra_of KArg)) with true. cbn [terminate].
    change (ch_comma =? ch_rparen) with false. cbv beta iota. cbn [bind].
    rewrite (Hr sb (ws0 ++ [v]) k' sb' acc' below' rest W2).
    rewrite bind_assoc. apply bind_ext. intros vs. cbn [bind]. now rewrite <- app_assoc.
  Qed.

  Lemma P_call ws : P_words ws -> P_item (ICall ws).
  Proof.
    intros IH sb k acc below rest W _ _. cbn [r_item e_item wf_item] in *.
    change ((ch_dollar :: ch_lparen :: r_words ws ++ [ch_rparen]) ++ rest)
      with (ch_dollar :: ch_lparen :: (r_words ws ++ [ch_rparen]) ++ rest).
    rewrite exec_cons. cbn [step]. rewrite step_dollar. cbn [bind].
    rewrite exec_cons. cbn [step]. change (ch_lparen =? ch_lbrace) with false.
    change (ch_lparen =? ch_lparen) with true. cbv beta iota. cbn [bind].
    rewrite <- app_assoc. cbn [app].
    rewrite (IH sb [] k sb acc below rest W). rewrite bind_assoc. apply bind_ext. intros vs. reflexivity.
  Qed.

  Theorem machine_computes_documented_value :
    (forall i, P_item i) /\ (forall e, P_items e) /\ (forall o, P_op o) /\ (forall w, P_words w).
  Proof.
    apply ast_mutind.
    - exact P_lit.
    - exact P_sq.
    - exact P_dq.
    - exact P_bare.
    - intros name Hn op Ho. exact (P_var name op Hn Ho).
    - exact P_call.
    - exact P_nil.
    - intros i Hi r Hr. exact (P_cons i r Hi Hr).
    - exact P_onone.
    - intros colon plus body Hb. exact (P_obody colon plus body Hb).
    - exact P_wone.
    - intros w Hw r Hr. exact (P_wcons w r Hw Hr).
  Qed.

  (* top level *)
  Lemma parse_render_proof e :
    wf_items e = true -> parseM c (r_items e) = e_items c true e.
  Proof.
    intros W. unfold parseM. rewrite <- (app_nil_r (r_items e)).
    destruct machine_computes_documented_value as (_ & H & _).
    rewrite (H e true KTop [] [] [] W (fun E => ltac:(discriminate E)) (fun _ => eq_refl)).
    rewrite <- (bind_ok_r (e_items c true e)) at 2. apply bind_ext. intros v. reflexivity.
  Qed.

  (* laziness: nothing inside an untaken branch can fail *)
  Lemma untaken_never_fails :
    (forall i, exists v, e_item c false i = Ok v) /\ (forall e, exists v, e_items c false e = Ok v) /\
    (forall o, match o with ONone => True | OBody _ _ body => exists v, e_items c false body = Ok v end) /\
    (forall w, exists vs, e_words c false w = Ok vs).
  Proof.
    apply ast_mutind; intros; cbn [e_item e_items e_words]; auto.
    - eexists; reflexivity.
    - eexists; reflexivity.
    - unfold var_value. destruct (lookup (c_env c) n); eexists; reflexivity.
    - destruct H as [nm ->]. cbn [bind]. destruct op as [|colon plus body].
      + unfold var_value. destruct (lookup (c_env c) nm); eexists; reflexivity.
      + cbn [andb]. destruct H0 as [v ->]. destruct plus; cbn; eexists; reflexivity.
    - destruct H as [vs ->]. cbn. eexists; reflexivity.
    - eexists; reflexivity.
    - destruct H as [v ->], H0 as [w ->]. cbn. eexists; reflexivity.
    - destruct H as [v ->]. cbn. eexists; reflexivity.
    - destruct H as [v ->], H0 as [vs ->]. cbn. eexists; reflexivity.
  Qed.

  (* ---- totality: the machine never runs out of anything *)
  Lemma call_fun_no_fuel name args : call_fun c name args <> Fuel.
  Proof.
    unfold call_fun.
    repeat match goal with
           | |- (if ?b then _ else _) <> _ => destruct b
           | |- match ?l with _ => _ end <> _ => destruct l
           end; discriminate.
  Qed.

  Lemma append_val_no_fuel v st : append_val v st <> Fuel.
  Proof. destruct st as [|[] ?]; discriminate. Qed.

  Lemma var_value_no_fuel sb n : var_value c sb n <> Fuel.
  Proof. unfold var_value. destruct (lookup (c_env c) n); [discriminate|]. destruct (sb && c_nounset c); discriminate. Qed.

  Lemma bind_no_fuel {A B} (r : res A) (f : A -> res B) :
    r <> Fuel -> (forall a, f a <> Fuel) -> bind r f <> Fuel.
  Proof. destruct r; cbn; auto; discriminate. Qed.

  Lemma dispatch_no_fuel name sb unset op below : dispatch_op c name sb unset op below <> Fuel.
  Proof.
    unfold dispatch_op.
    destruct (op =? ch_minus); [discriminate|]. destruct (op =? ch_plus); [discriminate|].
    destruct (op =? ch_rbrace); [|discriminate].
    apply bind_no_fuel; [apply var_value_no_fuel|intros; apply append_val_no_fuel].
  Qed.

  Lemma step_fs_no_fuel k sb acc below x : step_fs c k sb acc below x <> Fuel.
  Proof.
    unfold step_fs. destruct (mem x (extra_of k)).
    - destruct k; cbn [terminate]; try discriminate; try apply append_val_no_fuel.
      + destruct (x =? ch_colon); [discriminate|apply dispatch_no_fuel].
      + destruct below as [|[] ?]; try discriminate.
        destruct (x =? ch_rparen); [|discriminate].
        destruct sb0; [|apply append_val_no_fuel].
        destruct (words ++ [acc]); [discriminate|].
        apply bind_no_fuel; [apply call_fun_no_fuel|intros; apply append_val_no_fuel].
    - destruct (x =? ch_dq); [discriminate|]. destruct (x =? ch_sq); [discriminate|].
      destruct (x =? ch_dollar); [discriminate|]. destruct (x =? ch_bs); discriminate.
  Qed.

  Lemma step_no_fuel st x : step c st x <> Fuel.
  Proof.
    destruct st as [|f below]; [discriminate|]. destruct f; cbn [step].
    - apply step_fs_no_fuel.
    - apply append_val_no_fuel.
    - destruct (x =? ch_sq); [apply append_val_no_fuel|discriminate].
    - destruct (x =? ch_lbrace); [discriminate|]. destruct (x =? ch_lparen); [discriminate|].
      destruct (mem x NAME_START); discriminate.
    - destruct (mem x NAME_CHARS); [discriminate|].
      apply bind_no_fuel; [apply var_value_no_fuel|]. intros v.
      destruct below as [|[] ?]; try discriminate. apply step_fs_no_fuel.
    - apply dispatch_no_fuel.
    - discriminate.
  Qed.

  Lemma machine_total_proof t : parseM c t <> Fuel.
  Proof.
    unfold parseM, exec. generalize [FS KTop true []]. induction t as [|x t IH]; intros st; cbn [run].
    - cbn [bind]. destruct st as [|[] [|[] [|? ?]]]; cbn; try discriminate;
        try (destruct k; discriminate).
      destruct k; try discriminate. apply bind_no_fuel; [apply var_value_no_fuel|discriminate].
    - rewrite bind_assoc. apply bind_no_fuel; [apply step_no_fuel|]. intros st'. apply IH.
  Qed.
End Machine.
