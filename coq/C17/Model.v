(* C17 — model of pym/bob/stringparser.py (StringParser, isFalse, string
   functions, if-expression AST evaluation).  Definitions only.

   Strings are lists of Unicode code points.  The parser state is the
   *remaining* text; the single `self.index -= 1` of getString(keep=True) is
   the push-back of the delimiter that was just consumed. *)
From Coq Require Import List NArith Bool.
Require Import BobV.Gen.Consts.
Import ListNotations.
Open Scope N_scope.

Definition str := list N.

Inductive res (A : Type) : Type :=
| Ok (a : A)
| PErr            (* bob.errors.ParseError *)
| Ext             (* a string function that is not modelled (match, resubst, matchScm, plugins) *)
| Fuel.           (* model ran out of fuel: excluded by theorem fuel_enough *)
Arguments Ok {A} a.
Arguments PErr {A}.
Arguments Ext {A}.
Arguments Fuel {A}.

Definition bind {A B} (r : res A) (f : A -> res B) : res B :=
  match r with Ok a => f a | PErr => PErr | Ext => Ext | Fuel => Fuel end.

Fixpoint mem (c : N) (l : list N) : bool :=
  match l with [] => false | x :: r => (c =? x) || mem c r end.

Fixpoint str_eqb (a b : str) : bool :=
  match a, b with
  | [], [] => true
  | x :: a', y :: b' => (x =? y) && str_eqb a' b'
  | _, _ => false
  end.

Fixpoint str_mem (s : str) (l : list str) : bool :=
  match l with [] => false | x :: r => str_eqb s x || str_mem s r end.

(* ---- environment: association list, first binding wins *)
Definition env := list (str * str).

Fixpoint lookup (e : env) (k : str) : option str :=
  match e with
  | [] => None
  | (k', v) :: r => if str_eqb k k' then Some v else lookup r k
  end.

Record ctx := {
  c_env : env;
  c_nounset : bool;
  c_sandbox : bool;                       (* funArgs["sandbox"] *)
  c_tools : list (str * list (str * str)) (* funArgs["__tools"]: name -> tool environment *)
}.

(* ---- character constants *)
Definition ch_bs : N := 92.   (* backslash *)
Definition ch_dq : N := 34.   (* double quote *)
Definition ch_sq : N := 39.   (* single quote *)
Definition ch_dollar : N := 36.
Definition ch_lbrace : N := 123.
Definition ch_rbrace : N := 125.
Definition ch_lparen : N := 40.
Definition ch_rparen : N := 41.
Definition ch_colon : N := 58.
Definition ch_minus : N := 45.
Definition ch_plus : N := 43.
Definition ch_comma : N := 44.

(* ---- isFalse:  val.strip().lower() in FALSE_WORDS *)
Fixpoint lstrip (s : str) : str :=
  match s with
  | [] => []
  | c :: r => if mem c PY_WHITESPACE then lstrip r else s
  end.

Definition strip (s : str) : str := rev (lstrip (rev (lstrip s))).

Fixpoint assoc_N (c : N) (t : list (N * list N)) : option (list N) :=
  match t with
  | [] => None
  | (k, v) :: r => if c =? k then Some v else assoc_N c r
  end.

(* str.lower(), exact on every code point listed in LOWER_TABLE (all code
   points whose lower-casing produces a character of the FALSE_WORDS alphabet),
   identity elsewhere: enough to decide membership in FALSE_WORDS. *)
Definition lower_c (c : N) : list N :=
  match assoc_N c LOWER_TABLE with Some v => v | None => [c] end.

Definition lower (s : str) : str := flat_map lower_c s.

Definition isFalse (s : str) : bool := str_mem (lower (strip s)) FALSE_WORDS.
Definition isTrue (s : str) : bool := negb (isFalse s).

Definition s_true : str := [116; 114; 117; 101].
Definition s_false : str := [102; 97; 108; 115; 101].
Definition of_bool (b : bool) : str := if b then s_true else s_false.

(* ---- str.replace *)
Fixpoint strip_prefix (p s : str) : option str :=
  match p, s with
  | [], _ => Some s
  | x :: p', y :: s' => if x =? y then strip_prefix p' s' else None
  | _ :: _, [] => None
  end.

(* non-overlapping left-to-right replacement; fuel = length of text + 1 *)
Fixpoint replace_go (fuel : nat) (from to s : str) : str :=
  match fuel with
  | O => s
  | S f =>
    match s with
    | [] => []
    | c :: r =>
      match strip_prefix from s with
      | Some rest => to ++ replace_go f from to rest
      | None => c :: replace_go f from to r
      end
    end
  end.

Definition replace (from to s : str) : str :=
  match from with
  | [] => to ++ flat_map (fun c => c :: to) s
  | _ => replace_go (S (length s)) from to s
  end.

(* ---- built-in string functions (DEFAULT_STRING_FUNS / EXTRA_STRING_FUNS) *)
Definition n_eq := [101; 113].
Definition n_ne := [110; 101].
Definition n_not := [110; 111; 116].
Definition n_or := [111; 114].
Definition n_and := [97; 110; 100].
Definition n_ite := [105; 102; 45; 116; 104; 101; 110; 45; 101; 108; 115; 101].
Definition n_strip := [115; 116; 114; 105; 112].
Definition n_subst := [115; 117; 98; 115; 116].
Definition n_sandbox := [105;115;45;115;97;110;100;98;111;120;45;101;110;97;98;108;101;100].
Definition n_tooldef := [105;115;45;116;111;111;108;45;100;101;102;105;110;101;100].
Definition n_toolenv := [103;101;116;45;116;111;111;108;45;101;110;118].

Fixpoint lookup_tool (ts : list (str * list (str * str))) (k : str) : option (list (str * str)) :=
  match ts with
  | [] => None
  | (k', v) :: r => if str_eqb k k' then Some v else lookup_tool r k
  end.

Definition call_fun (c : ctx) (name : str) (args : list str) : res str :=
  if str_eqb name n_eq then
    match args with [a; b] => Ok (of_bool (str_eqb a b)) | _ => PErr end
  else if str_eqb name n_ne then
    match args with [a; b] => Ok (of_bool (negb (str_eqb a b))) | _ => PErr end
  else if str_eqb name n_not then
    match args with [a] => Ok (of_bool (isFalse a)) | _ => PErr end
  else if str_eqb name n_or then Ok (of_bool (existsb isTrue args))
  else if str_eqb name n_and then Ok (of_bool (forallb isTrue args))
  else if str_eqb name n_ite then
    match args with [a; b; d] => Ok (if isFalse a then d else b) | _ => PErr end
  else if str_eqb name n_strip then
    match args with [a] => Ok (strip a) | _ => PErr end
  else if str_eqb name n_subst then
    match args with [a; b; d] => Ok (replace a b d) | _ => PErr end
  else if str_eqb name n_sandbox then
    match args with [] => Ok (of_bool (c_sandbox c)) | _ => PErr end
  else if str_eqb name n_tooldef then
    match args with
    | [a] => Ok (of_bool (match lookup_tool (c_tools c) a with Some _ => true | None => false end))
    | _ => PErr end
  else if str_eqb name n_toolenv then
    match args with
    | [t; v] => match lookup_tool (c_tools c) t with
                | None => PErr
                | Some e => match lookup e v with Some x => Ok x | None => PErr end
                end
    | [t; v; d] => match lookup_tool (c_tools c) t with
                   | None => PErr
                   | Some e => match lookup e v with Some x => Ok x | None => Ok d end
                   end
    | _ => PErr
    end
  else if str_mem name STRING_FUN_NAMES then Ext
  else PErr.

(* ---- tokens.  A delimiter token is distinguished from text that merely
        spells a delimiter (escaped). *)
Inductive tok := TDelim (c : N) | TText (s : str) | TEOS.

(* the `while i < self.end` scan of nextToken; acc is reversed *)
Fixpoint scan (delim : list N) (t : str) (acc : str) : option (str * str) :=
  match t with
  | [] => Some (rev acc, [])
  | c :: r =>
    if mem c delim then Some (rev acc, t)
    else if c =? ch_bs then
      match r with
      | [] => None                      (* "Unexpected end after escape" *)
      | d :: r' => scan delim r' (d :: acc)
      end
    else scan delim r (c :: acc)
  end.

Definition nextToken (extra : list N) (t : str) : res (tok * str) :=
  let delim := TOKEN_DELIMS ++ extra in
  match t with
  | [] => Ok (TEOS, [])
  | c :: r =>
    if mem c delim then Ok (TDelim c, r)
    else match scan delim t [] with
         | None => PErr
         | Some (s, rest) => Ok (TText s, rest)
         end
  end.

Fixpoint getRestOfName (t : str) : str * str :=
  match t with
  | [] => ([], [])
  | c :: r => if mem c NAME_CHARS then let (n, r') := getRestOfName r in (c :: n, r') else ([], t)
  end.

Fixpoint getSingleQuoted (t : str) : option (str * str) :=
  match t with
  | [] => None
  | c :: r => if c =? ch_sq then Some ([], r)
              else match getSingleQuoted r with
                   | Some (s, r') => Some (c :: s, r')
                   | None => None
                   end
  end.

Definition in_env (e : env) (k : str) : bool :=
  match lookup e k with Some _ => true | None => false end.
Definition env_get (e : env) (k : str) : str :=
  match lookup e k with Some v => v | None => [] end.

(* getString / getVariable / getCommand, mutually recursive in the source,
   here on one fuel argument.  `top` = (None in delim).  *)
Fixpoint getString (fuel : nat) (c : ctx) (extra : list N) (top keep subst : bool)
         (t : str) (acc : str) {struct fuel} : res (str * str) :=
  match fuel with
  | O => Fuel
  | S f =>
    bind (nextToken extra t) (fun tr =>
    match tr with
    | (TEOS, _) => if top then Ok (acc, []) else PErr
    | (TText s, r) => getString f c extra top keep subst r (acc ++ s)
    | (TDelim d, r) =>
      if mem d extra then Ok (acc, if keep then d :: r else r)
      else if d =? ch_dq then
        bind (getString f c [ch_dq] false false subst r []) (fun sr =>
          getString f c extra top keep subst (snd sr) (acc ++ fst sr))
      else if d =? ch_sq then
        match getSingleQuoted r with
        | None => PErr
        | Some (s, r') => getString f c extra top keep subst r' (acc ++ s)
        end
      else (* $ *)
        match r with
        | [] => PErr
        | k :: r1 =>
          if k =? ch_lbrace then
            bind (getVariable f c subst r1) (fun sr =>
              getString f c extra top keep subst (snd sr) (acc ++ fst sr))
          else if k =? ch_lparen then
            bind (getCommand f c subst r1 []) (fun sr =>
              getString f c extra top keep subst (snd sr) (acc ++ fst sr))
          else if mem k NAME_START then
            let (n, r2) := getRestOfName r1 in
            let name := k :: n in
            match lookup (c_env c) name with
            | Some v => getString f c extra top keep subst r2 (acc ++ v)
            | None => if subst && c_nounset c then PErr
                      else getString f c extra top keep subst r2 acc
            end
          else PErr
        end
    end)
  end

with getVariable (fuel : nat) (c : ctx) (subst : bool) (t : str) {struct fuel} : res (str * str) :=
  match fuel with
  | O => Fuel
  | S f =>
    bind (getString f c VARNAME_DELIMS false true subst t []) (fun nr =>
    let name := fst nr in
    match snd nr with
    | [] => PErr
    | op :: r =>
      let unset0 := negb (in_env (c_env c) name) in
      let '(unset, op', r') :=
          if op =? ch_colon then
            match r with
            | [] => (unset0, None, [])
            | o2 :: r2 => (if unset0 then true else str_eqb (env_get (c_env c) name) [], Some o2, r2)
            end
          else (unset0, Some op, r) in
      match op' with
      | None => PErr
      | Some o =>
        if o =? ch_minus then
          bind (getString f c VARBODY_DELIMS false false (subst && unset) r' []) (fun dr =>
            Ok (if unset then fst dr else env_get (c_env c) name, snd dr))
        else if o =? ch_plus then
          bind (getString f c VARBODY_DELIMS false false (subst && negb unset) r' []) (fun ar =>
            Ok (if unset then [] else fst ar, snd ar))
        else if o =? ch_rbrace then
          match lookup (c_env c) name with
          | Some v => Ok (v, r')
          | None => if subst && c_nounset c then PErr else Ok ([], r')
          end
        else PErr
      end
    end)
  end

with getCommand (fuel : nat) (c : ctx) (subst : bool) (t : str) (words : list str) {struct fuel}
     : res (str * str) :=
  match fuel with
  | O => Fuel
  | S f =>
    bind (getString f c CMD_DELIMS false true subst t []) (fun wr =>
    let words' := words ++ [fst wr] in
    match snd wr with
    | [] => PErr
    | e :: r =>
      if e =? ch_rparen then
        if subst then
          match words' with
          | [] => PErr
          | cmd :: args => bind (call_fun c cmd args) (fun v => Ok (v, r))
          end
        else Ok ([], r)
      else getCommand f c subst r words'
    end)
  end.

Definition fuel_for (t : str) : nat := 2 * length t + 2.

Definition parse (c : ctx) (t : str) : res str :=
  if existsb (fun x => mem x t) SPECIAL_CHARS then
    bind (getString (fuel_for t) c [] true false true t []) (fun sr => Ok (fst sr))
  else Ok t.

(* ---------------------------------------------------------------------- *)
(* If-expressions: the AST classes of stringparser.py (the concrete syntax
   is pyparsing's; the harness renders ASTs and lets the real grammar parse
   them). *)

Inductive sexpr :=
| SLit (s : str) (dosubst : bool)       (* double quoted (dosubst) or single quoted literal *)
| SFn (name : str) (args : list sexpr).

Inductive cmpop := OLt | OGt | OLe | OGe | OEq | ONe.

Inductive ifexpr :=
| IStr (e : sexpr)
| INot (e : ifexpr)
| IAnd (l r : ifexpr)
| IOr (l r : ifexpr)
| ICmp (op : cmpop) (l r : sexpr).

Fixpoint str_ltb (a b : str) : bool :=      (* Python str <  : code point lexicographic *)
  match a, b with
  | _, [] => false
  | [], _ :: _ => true
  | x :: a', y :: b' => if x <? y then true else if y <? x then false else str_ltb a' b'
  end.

Definition cmp_eval (op : cmpop) (a b : str) : bool :=
  match op with
  | OLt => str_ltb a b
  | OGt => str_ltb b a
  | OLe => negb (str_ltb b a)
  | OGe => negb (str_ltb a b)
  | OEq => str_eqb a b
  | ONe => negb (str_eqb a b)
  end.

(* StringLiteral.subst = doSubst and any special character in the literal;
   substitution in if-expressions runs with nounset = False *)
Definition ctx_if (c : ctx) : ctx :=
  {| c_env := c_env c; c_nounset := false; c_sandbox := c_sandbox c; c_tools := c_tools c |}.

Fixpoint map_res {A B} (f : A -> res B) (l : list A) : res (list B) :=
  match l with
  | [] => Ok []
  | x :: r => bind (f x) (fun y => bind (map_res f r) (fun ys => Ok (y :: ys)))
  end.

Fixpoint eval_s (c : ctx) (e : sexpr) : res str :=
  match e with
  | SLit s d => if d then parse (ctx_if c) s else Ok s
  | SFn name args =>
    bind ((fix go (l : list sexpr) : res (list str) :=
             match l with
             | [] => Ok []
             | x :: r => bind (eval_s c x) (fun y => bind (go r) (fun ys => Ok (y :: ys)))
             end) args)
         (fun vs => call_fun c name vs)
  end.

Fixpoint eval_if (c : ctx) (e : ifexpr) : res bool :=
  match e with
  | IStr s => bind (eval_s c s) (fun v => Ok (isTrue v))
  | INot x => bind (eval_if c x) (fun b => Ok (negb b))
  | IAnd l r => bind (eval_if c l) (fun a => bind (eval_if c r) (fun b => Ok (a && b)))
  | IOr l r => bind (eval_if c l) (fun a => bind (eval_if c r) (fun b => Ok (a || b)))
  | ICmp op l r => bind (eval_s c l) (fun a => bind (eval_s c r) (fun b => Ok (cmp_eval op a b)))
  end.

(* the equivalent function-call form of an infix expression (&& || ! == !=) *)
Fixpoint to_call (e : ifexpr) : option sexpr :=
  match e with
  | IStr s => Some s
  | INot x => match to_call x with Some a => Some (SFn n_not [a]) | None => None end
  | IAnd l r => match to_call l, to_call r with
                | Some a, Some b => Some (SFn n_and [a; b]) | _, _ => None end
  | IOr l r => match to_call l, to_call r with
               | Some a, Some b => Some (SFn n_or [a; b]) | _, _ => None end
  | ICmp OEq l r => Some (SFn n_eq [l; r])
  | ICmp ONe l r => Some (SFn n_ne [l; r])
  | ICmp _ _ _ => None
  end.
