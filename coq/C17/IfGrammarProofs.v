(* C17 — proofs about the concrete syntax model of if-expressions (IfGrammar.v):
   totality (fuel always suffices), round trip for every text of an AST, and
   the precedence / associativity corollaries. *)
From Coq Require Import List NArith Bool Lia Arith.
Require Import BobV.Gen.Consts BobV.C17.Model BobV.C17.IfGrammar.
Import ListNotations.
Open Scope nat_scope.

(* ====================================================================== *)
(* 1. white space, literals                                               *)

Lemma all_ws_nil : all_ws [].
Proof. reflexivity. Qed.

Lemma all_ws_cons : forall c w, all_ws (c :: w) -> is_ws c = true /\ all_ws w.
Proof. unfold all_ws. simpl. intros c w H. apply andb_prop in H. exact H. Qed.

Lemma skip_ws_app_ws : forall w s, all_ws w -> skip_ws (w ++ s) = skip_ws s.
Proof.
  induction w as [|c w IH]; simpl; intros s H; [reflexivity|].
  apply all_ws_cons in H. destruct H as [H1 H2]. rewrite H1. apply IH. exact H2.
Qed.

Lemma skip_ws_all : forall w, all_ws w -> skip_ws w = [].
Proof.
  intros w H. rewrite <- (app_nil_r w). rewrite skip_ws_app_ws by exact H. reflexivity.
Qed.

Lemma skip_ws_nonws : forall c s, is_ws c = false -> skip_ws (c :: s) = c :: s.
Proof. intros c s H. simpl. rewrite H. reflexivity. Qed.

Lemma skip_ws_len : forall s, length (skip_ws s) <= length s.
Proof. induction s as [|a s IH]; simpl; [lia|]. destruct (is_ws a); simpl; lia. Qed.

Lemma skip_ws_idem : forall s, skip_ws (skip_ws s) = skip_ws s.
Proof.
  induction s as [|a s IH]; simpl; [reflexivity|].
  destruct (is_ws a) eqn:E; [exact IH|]. simpl. rewrite E. reflexivity.
Qed.

Lemma lit_len : forall t s r, lit t s = Some r -> length s = length t + length r.
Proof.
  induction t as [|c t IH]; simpl; intros s r H.
  - inversion H. reflexivity.
  - destruct s as [|d s]; [discriminate|]. destruct (c =? d)%N; [|discriminate].
    apply IH in H. simpl. lia.
Qed.

Lemma lit_app : forall t s, lit t (t ++ s) = Some s.
Proof. induction t as [|c t IH]; simpl; intros s; [reflexivity|]. rewrite N.eqb_refl. apply IH. Qed.

Lemma eat_len : forall c s r, eat c s = Some r -> length r < length s.
Proof.
  unfold eat. intros c s r H. pose proof (skip_ws_len s) as L.
  destruct (skip_ws s) as [|d r0]; [discriminate|]. destruct (d =? c)%N; [|discriminate].
  inversion H; subst. simpl in L. lia.
Qed.

Lemma eat_ws : forall c w s, all_ws w -> eat c (w ++ s) = eat c s.
Proof. intros c w s H. unfold eat. rewrite skip_ws_app_ws by exact H. reflexivity. Qed.

Lemma eat_hit : forall c s, is_ws c = false -> eat c (c :: s) = Some s.
Proof. intros c s H. unfold eat. rewrite skip_ws_nonws by exact H. rewrite N.eqb_refl. reflexivity. Qed.

Lemma eat_miss : forall c d s, is_ws d = false -> (d =? c)%N = false -> eat c (d :: s) = None.
Proof. intros c d s H1 H2. unfold eat. rewrite skip_ws_nonws by exact H1. rewrite H2. reflexivity. Qed.

(* ====================================================================== *)
(* 2. parsers never return more than they were given                      *)

Definition nonincr {A : Type} (p : str -> pres A) : Prop :=
  forall s a r, p s = POk a r -> length r <= length s.

Lemma scan_sq_len : forall s b r, scan_sq s = Some (b, r) -> length s = S (length b + length r).
Proof.
  induction s as [|a s IH]; simpl; intros b r H; [discriminate|].
  destruct (a =? 39)%N.
  - inversion H; subst. simpl. lia.
  - destruct ((a =? 10)%N || (a =? 13)%N); [discriminate|].
    destruct (scan_sq s) as [[b' r']|]; [|discriminate].
    inversion H; subst. specialize (IH _ _ eq_refl). simpl. lia.
Qed.

Lemma scan_dq_len_n : forall n s, length s <= n ->
  forall b r, scan_dq s = Some (b, r) -> length s = S (length b + length r).
Proof.
  induction n as [|n IH]; intros s L b r H.
  - destruct s; [discriminate|simpl in L; lia].
  - destruct s as [|a s]; [discriminate|]. simpl in H. simpl in L.
    destruct (a =? 34)%N.
    + inversion H; subst. simpl. lia.
    + destruct (a =? 92)%N.
      * destruct s as [|d s2]; [discriminate|]. destruct (d =? 10)%N; [discriminate|].
        destruct (scan_dq s2) as [[b' r']|] eqn:E; [|discriminate].
        inversion H; subst. simpl in L. apply IH in E; [|lia]. simpl. lia.
      * destruct ((a =? 10)%N || (a =? 13)%N); [discriminate|].
        destruct (scan_dq s) as [[b' r']|] eqn:E; [|discriminate].
        inversion H; subst. apply IH in E; [|lia]. simpl. lia.
Qed.

Lemma scan_dq_len : forall s b r, scan_dq s = Some (b, r) -> length s = S (length b + length r).
Proof. intros s b r H. exact (scan_dq_len_n (length s) s (le_n _) b r H). Qed.

Lemma p_close_len : forall name args s e r, p_close name args s = POk e r -> length r < length s.
Proof.
  unfold p_close. intros name args s e r H. destruct (eat 41 s) as [r0|] eqn:E; [|discriminate].
  inversion H; subst. exact (eat_len _ _ _ E).
Qed.

Lemma p_more_len : forall arg, nonincr arg ->
  forall k acc s l r, p_more arg k acc s = POk l r -> length r <= length s.
Proof.
  intros arg NI. induction k as [|k IH]; simpl; intros acc s l r H; [discriminate|].
  destruct (eat 44 s) as [r0|] eqn:E.
  - destruct (arg r0) as [a r1| |] eqn:EA.
    + apply IH in H. apply NI in EA. apply eat_len in E. lia.
    + inversion H; subst. lia.
    + discriminate.
  - inversion H; subst. lia.
Qed.

Lemma span_name_len : forall s a b, span_name s = (a, b) -> length s = length a + length b.
Proof.
  induction s as [|c s IH]; simpl; intros a b H.
  - inversion H. reflexivity.
  - destruct (is_namech c).
    + destruct (span_name s) as [a' b'] eqn:E. inversion H; subst. specialize (IH _ _ eq_refl). simpl. lia.
    + inversion H; subst. reflexivity.
Qed.

Lemma p_call_len : forall arg, nonincr arg -> forall s a r, p_call arg s = POk a r -> length r < length s.
Proof.
  intros arg NI s a r H. unfold p_call in H.
  destruct (span_name s) as [name r1] eqn:ES. apply span_name_len in ES.
  destruct (eat 40 r1) as [r2|] eqn:E40; [|discriminate]. apply eat_len in E40.
  unfold p_args in H.
  destruct (arg r2) as [a1 r3| |] eqn:E1.
  - apply NI in E1.
    destruct (p_more arg (S (length r3)) [a1] r3) as [args r4| |] eqn:EM; try discriminate.
    apply (p_more_len _ NI) in EM. apply p_close_len in H. lia.
  - apply p_close_len in H. lia.
  - discriminate.
Qed.

Lemma p_sx_body_nonincr : forall arg, nonincr arg -> nonincr (p_sx_body arg).
Proof.
  intros arg NI s a r H. unfold p_sx_body in H.
  pose proof (skip_ws_len s) as L.
  destruct (skip_ws s) as [|c r0]; [discriminate|]. simpl in L.
  destruct (c =? 39)%N.
  { destruct (scan_sq r0) as [[b r']|] eqn:E; [|discriminate]. inversion H; subst.
    apply scan_sq_len in E. lia. }
  destruct (c =? 34)%N.
  { destruct (scan_dq r0) as [[b r']|] eqn:E; [|discriminate]. inversion H; subst.
    apply scan_dq_len in E. lia. }
  destruct (is_alpha c); [|discriminate].
  apply (p_call_len _ NI) in H. simpl in H. lia.
Qed.

Lemma p_sx_nonincr : forall n, nonincr (p_sx n).
Proof.
  induction n as [|n IH]; simpl.
  - intros s a r H. discriminate.
  - apply p_sx_body_nonincr. exact IH.
Qed.

Lemma parse_sx_nonincr : nonincr parse_sx.
Proof. intros s a r H. exact (p_sx_nonincr _ _ _ _ H). Qed.

Lemma p_loop_nonincr : forall op last, nonincr last ->
  forall k acc s a r, p_loop op last k acc s = POk a r -> length r <= length s.
Proof.
  intros op last NI. induction k as [|k IH]; simpl; intros acc s a r H; [discriminate|].
  destruct (lit (op_text op) (skip_ws s)) as [r0|] eqn:E.
  - destruct (last r0) as [e r1| |] eqn:EL.
    + apply IH in H. apply NI in EL. apply lit_len in E. pose proof (skip_ws_len s). lia.
    + inversion H; subst. lia.
    + discriminate.
  - inversion H; subst. lia.
Qed.

Lemma p_level_nonincr : forall op last, nonincr last -> nonincr (p_level op last).
Proof.
  intros op last NI s a r H. unfold p_level in H.
  destruct (last s) as [e r0| |] eqn:E; try discriminate.
  apply (p_loop_nonincr _ _ NI) in H. apply NI in E. lia.
Qed.

Lemma p_not_nonincr : forall atom, nonincr atom -> nonincr (p_not atom).
Proof.
  intros atom NI s. induction s as [|c s IH]; intros a r H; simpl in H.
  - apply NI in H. exact H.
  - destruct (is_ws c).
    + apply IH in H. simpl. lia.
    + destruct (c =? 33)%N.
      * destruct (p_not atom s) as [e r0| |] eqn:E; try discriminate.
        inversion H; subst. specialize (IH _ _ eq_refl). simpl. lia.
      * apply NI in H. exact H.
Qed.

Lemma p_atom_nonincr : forall rec, nonincr rec -> nonincr (p_atom rec).
Proof.
  intros rec NI s a r H. unfold p_atom in H.
  destruct (eat 40 s) as [r0|] eqn:E.
  - apply eat_len in E. destruct (rec r0) as [e r1| |] eqn:ER; try discriminate.
    apply NI in ER. destruct (eat 41 r1) as [r2|] eqn:E2; [|discriminate].
    apply eat_len in E2. inversion H; subst. lia.
  - destruct (parse_sx s) as [e r1| |] eqn:EP; try discriminate.
    inversion H; subst. exact (parse_sx_nonincr _ _ _ EP).
Qed.

Lemma p_tower_nonincr : forall rec, nonincr rec -> nonincr (p_tower rec).
Proof.
  intros rec NI. unfold p_tower.
  repeat apply p_level_nonincr. apply p_not_nonincr. apply p_atom_nonincr. exact NI.
Qed.

Lemma p_expr_nonincr : forall n, nonincr (p_expr n).
Proof.
  induction n as [|n IH]; simpl.
  - intros s a r H. discriminate.
  - apply p_tower_nonincr. exact IH.
Qed.

(* ====================================================================== *)
(* 3. totality: the fuel of the entry points always suffices              *)

Lemma p_more_fuel : forall arg L, nonincr arg ->
  (forall s, length s <= L -> arg s <> PFuel) ->
  forall k acc s, length s < k -> length s <= L -> p_more arg k acc s <> PFuel.
Proof.
  intros arg L NI NF. induction k as [|k IH]; intros acc s Hk HL; [lia|]. simpl.
  destruct (eat 44 s) as [r0|] eqn:E; [|discriminate].
  apply eat_len in E.
  destruct (arg r0) as [a r1| |] eqn:EA.
  - apply NI in EA. apply IH; lia.
  - discriminate.
  - exfalso. apply (NF r0); [lia|exact EA].
Qed.

Lemma p_sx_fuel : forall n s, length s < n -> p_sx n s <> PFuel.
Proof.
  induction n as [|n IH]; intros s L; [lia|]. simpl. unfold p_sx_body.
  pose proof (skip_ws_len s) as LS.
  destruct (skip_ws s) as [|c r0]; [discriminate|]. simpl in LS.
  destruct (c =? 39)%N. { destruct (scan_sq r0) as [[b r']|]; discriminate. }
  destruct (c =? 34)%N. { destruct (scan_dq r0) as [[b r']|]; discriminate. }
  destruct (is_alpha c); [|discriminate].
  unfold p_call.
  destruct (span_name (c :: r0)) as [name r1] eqn:ES. apply span_name_len in ES. simpl in ES.
  destruct (eat 40 r1) as [r2|] eqn:E40; [|discriminate]. apply eat_len in E40.
  assert (L2 : length r2 < n) by lia.
  unfold p_args.
  destruct (p_sx n r2) as [a1 r3| |] eqn:E1.
  - pose proof (p_sx_nonincr _ _ _ _ E1) as L3.
    destruct (p_more (p_sx n) (S (length r3)) [a1] r3) as [args r4| |] eqn:EM.
    + unfold p_close. destruct (eat 41 r4); discriminate.
    + discriminate.
    + exfalso. revert EM. apply (p_more_fuel (p_sx n) (length r3)).
      * apply p_sx_nonincr.
      * intros s0 L0. apply IH. lia.
      * lia.
      * lia.
  - unfold p_close. destruct (eat 41 r2); discriminate.
  - exfalso. exact (IH _ L2 E1).
Qed.

Lemma parse_sx_fuel : forall s, parse_sx s <> PFuel.
Proof. intros s. apply p_sx_fuel. lia. Qed.

Lemma p_loop_fuel : forall op last L, nonincr last ->
  (forall s, length s <= L -> last s <> PFuel) ->
  forall k acc s, length s < k -> length s <= L -> p_loop op last k acc s <> PFuel.
Proof.
  intros op last L NI NF. induction k as [|k IH]; intros acc s Hk HL; [lia|]. simpl.
  destruct (lit (op_text op) (skip_ws s)) as [r0|] eqn:E; [|discriminate].
  apply lit_len in E. pose proof (skip_ws_len s) as LS.
  assert (OT : 1 <= length (op_text op)) by (destruct op; simpl; lia).
  destruct (last r0) as [e r1| |] eqn:EL.
  - apply NI in EL. apply IH; lia.
  - discriminate.
  - exfalso. apply (NF r0); [lia|exact EL].
Qed.

Definition nofuel (L : nat) (p : parser) : Prop := forall s, length s <= L -> p s <> PFuel.

Lemma p_level_fuel : forall op last L, nonincr last -> nofuel L last -> nofuel L (p_level op last).
Proof.
  intros op last L NI NF s HL. unfold p_level.
  destruct (last s) as [e r0| |] eqn:E.
  - apply NI in E. apply (p_loop_fuel op last L NI NF); lia.
  - discriminate.
  - exfalso. exact (NF s HL E).
Qed.

Lemma p_not_fuel : forall atom L, nofuel L atom -> nofuel L (p_not atom).
Proof.
  intros atom L NF s. induction s as [|c s IH]; intros HL; simpl.
  - apply NF. exact HL.
  - simpl in HL. destruct (is_ws c).
    + apply IH. lia.
    + destruct (c =? 33)%N.
      * destruct (p_not atom s) as [e r0| |] eqn:E; try discriminate.
        exfalso. apply IH; [lia|reflexivity].
      * apply NF. simpl. exact HL.
Qed.

Lemma p_atom_fuel : forall rec L, (forall s, length s < L -> rec s <> PFuel) -> nofuel L (p_atom rec).
Proof.
  intros rec L NF s HL. unfold p_atom.
  destruct (eat 40 s) as [r0|] eqn:E.
  - apply eat_len in E. destruct (rec r0) as [e r1| |] eqn:ER.
    + destruct (eat 41 r1); discriminate.
    + discriminate.
    + exfalso. apply (NF r0); [lia|exact ER].
  - destruct (parse_sx s) as [e r1| |] eqn:EP; try discriminate.
    exfalso. exact (parse_sx_fuel s EP).
Qed.

Lemma p_tower_fuel : forall rec L, nonincr rec ->
  (forall s, length s < L -> rec s <> PFuel) -> nofuel L (p_tower rec).
Proof.
  intros rec L NI NF. unfold p_tower.
  assert (A : nonincr (p_not (p_atom rec))) by (apply p_not_nonincr, p_atom_nonincr, NI).
  assert (B : nofuel L (p_not (p_atom rec))) by (apply p_not_fuel, p_atom_fuel, NF).
  repeat (apply p_level_fuel; [repeat apply p_level_nonincr; exact A|]). exact B.
Qed.

Lemma p_expr_fuel : forall n s, length s < n -> p_expr n s <> PFuel.
Proof.
  induction n as [|n IH]; intros s L; [lia|]. simpl.
  apply (p_tower_fuel (p_expr n) n).
  - apply p_expr_nonincr.
  - exact IH.
  - lia.
Qed.

Lemma parse_if_total_proof : forall s, parse_ast_res s <> PFuel.
Proof.
  intros s. unfold parse_ast_res.
  destruct (p_expr (S (length s)) s) as [e r| |] eqn:E.
  - destruct (skip_ws r); discriminate.
  - discriminate.
  - exfalso. revert E. apply p_expr_fuel. lia.
Qed.

(* ====================================================================== *)
(* 4. quoted strings                                                      *)

Lemma scan_sq_body : forall b rest, sq_body b = true -> scan_sq (b ++ 39%N :: rest) = Some (b, rest).
Proof.
  induction b as [|a b IH]; intros rest H.
  - reflexivity.
  - unfold sq_body in H. cbn [forallb] in H. apply andb_prop in H. destruct H as [H1 H2].
    apply negb_true_iff in H1. apply orb_false_iff in H1. destruct H1 as [H1 H3].
    apply orb_false_iff in H1. destruct H1 as [H0 H1].
    cbn [app scan_sq]. rewrite H0, H1, H3. cbn [orb]. rewrite (IH rest H2). reflexivity.
Qed.

Lemma scan_dq_body_n : forall n b, length b <= n -> forall rest,
  dq_body b = true -> scan_dq (b ++ 34%N :: rest) = Some (b, rest).
Proof.
  induction n as [|n IH]; intros b L rest H.
  - destruct b; [reflexivity|simpl in L; lia].
  - destruct b as [|a b]; [reflexivity|]. cbn [dq_body] in H. cbn [app scan_dq]. simpl in L.
    destruct (a =? 34)%N eqn:E34.
    + apply N.eqb_eq in E34. subst a. cbn in H. discriminate.
    + destruct (a =? 92)%N eqn:E92.
      * destruct b as [|d b2]; [discriminate|]. apply andb_prop in H. destruct H as [H1 H2].
        apply negb_true_iff in H1. cbn [app]. rewrite H1. simpl in L.
        rewrite (IH b2); [reflexivity|lia|exact H2].
      * apply andb_prop in H. destruct H as [H1 H2]. apply negb_true_iff in H1.
        cbn [orb] in H1. rewrite H1.
        rewrite (IH b); [reflexivity|lia|exact H2].
Qed.

Lemma scan_dq_body : forall b rest, dq_body b = true -> scan_dq (b ++ 34%N :: rest) = Some (b, rest).
Proof. intros b rest H. exact (scan_dq_body_n (length b) b (le_n _) rest H). Qed.

Lemma unq_esc_dq : forall s, unq 0 (esc_dq s) = s.
Proof.
  induction s as [|c s IH]; [reflexivity|].
  cbn [esc_dq]. unfold esc_dq_char.
  destruct (c =? 92)%N eqn:E92. { apply N.eqb_eq in E92. subst c. cbn. rewrite IH. reflexivity. }
  destruct (c =? 34)%N eqn:E34. { apply N.eqb_eq in E34. subst c. cbn. rewrite IH. reflexivity. }
  destruct (c =? 10)%N eqn:E10. { apply N.eqb_eq in E10. subst c. cbn. rewrite IH. reflexivity. }
  destruct (c =? 13)%N eqn:E13. { apply N.eqb_eq in E13. subst c. cbn. rewrite IH. reflexivity. }
  cbn [app unq]. rewrite E92. rewrite IH. reflexivity.
Qed.

Lemma dq_body_esc : forall s, dq_body (esc_dq s) = true.
Proof.
  induction s as [|c s IH]; [reflexivity|].
  cbn [esc_dq]. unfold esc_dq_char.
  destruct (c =? 92)%N eqn:E92. { cbn. exact IH. }
  destruct (c =? 34)%N eqn:E34. { cbn. exact IH. }
  destruct (c =? 10)%N eqn:E10. { cbn. exact IH. }
  destruct (c =? 13)%N eqn:E13. { cbn. exact IH. }
  cbn [app dq_body]. rewrite E92, E34, E10, E13. cbn. exact IH.
Qed.

(* ====================================================================== *)
(* 5. literals and function calls: every text parses back                 *)

Lemma alpha_not_ws : forall c, is_alpha c = true -> is_ws c = false.
Proof.
  intros c H. unfold is_alpha in H. unfold is_ws.
  apply orb_true_iff in H. repeat rewrite orb_false_iff. repeat rewrite N.eqb_neq.
  destruct H as [H|H]; apply andb_prop in H; destruct H as [H1 H2];
    apply N.leb_le in H1; apply N.leb_le in H2; repeat split; lia.
Qed.

Lemma alpha_not_quote : forall c, is_alpha c = true -> (c =? 39)%N = false /\ (c =? 34)%N = false.
Proof.
  intros c H. unfold is_alpha in H. repeat rewrite N.eqb_neq.
  apply orb_true_iff in H.
  destruct H as [H|H]; apply andb_prop in H; destruct H as [H1 H2];
    apply N.leb_le in H1; apply N.leb_le in H2; split; lia.
Qed.

Lemma ws_not_namech : forall c, is_ws c = true -> is_namech c = false.
Proof.
  intros c H. unfold is_ws in H.
  repeat rewrite orb_true_iff in H. repeat rewrite N.eqb_eq in H.
  destruct H as [[[H|H]|H]|H]; subst c; reflexivity.
Qed.

Definition stops_name (tail : str) : Prop :=
  match tail with [] => True | d :: _ => is_namech d = false end.

Lemma span_name_app : forall name tail, forallb is_namech name = true -> stops_name tail ->
  span_name (name ++ tail) = (name, tail).
Proof.
  induction name as [|c name IH]; intros tail H T.
  - destruct tail as [|d t]; [reflexivity|]. simpl in T. cbn [app span_name]. rewrite T. reflexivity.
  - cbn [forallb] in H. apply andb_prop in H. destruct H as [H1 H2].
    cbn [app span_name]. rewrite H1. rewrite (IH tail H2 T). reflexivity.
Qed.

Lemma stops_name_ws_paren : forall w x, all_ws w -> stops_name (w ++ 40%N :: x).
Proof.
  intros w x H. destruct w as [|d w]; simpl.
  - reflexivity.
  - apply all_ws_cons in H. destruct H as [H _]. apply ws_not_namech. exact H.
Qed.

Lemma p_sx_body_fail_on : forall arg c s, is_ws c = false -> (c =? 39)%N = false -> (c =? 34)%N = false ->
  is_alpha c = false -> p_sx_body arg (c :: s) = PFail.
Proof.
  intros arg c s H1 H2 H3 H4. unfold p_sx_body. rewrite skip_ws_nonws by exact H1.
  rewrite H2, H3, H4. reflexivity.
Qed.

Lemma rend_more_len : forall es ss, rend_more es ss -> length es <= length ss.
Proof.
  induction 1 as [|w e s es ss Hw He Hm IH]; [simpl; lia|].
  rewrite app_length. simpl. rewrite app_length. lia.
Qed.

Scheme rend_sx_mut := Minimality for rend_sx Sort Prop
  with rend_args_mut := Minimality for rend_args Sort Prop
  with rend_more_mut := Minimality for rend_more Sort Prop.

Definition P_sx (e : sexpr) (s : str) : Prop :=
  forall n rest, length s <= n -> p_sx n (s ++ rest) = POk e rest.
Definition P_args (es : list sexpr) (ss : str) : Prop :=
  forall n name w2 rest, all_ws w2 -> 1 <= n -> length ss <= n ->
    p_args (p_sx n) name (ss ++ w2 ++ 41%N :: rest) = POk (SFn name es) rest.
Definition P_more (es : list sexpr) (ss : str) : Prop :=
  forall n k acc tail, length ss <= n -> length es < k -> eat 44 tail = None ->
    p_more (p_sx n) k acc (ss ++ tail) = POk (acc ++ es) tail.

Lemma eat44_close : forall w2 rest, all_ws w2 -> eat 44 (w2 ++ 41%N :: rest) = None.
Proof. intros w2 rest H. rewrite eat_ws by exact H. apply eat_miss; reflexivity. Qed.

Lemma p_close_ok : forall name args w2 rest, all_ws w2 ->
  p_close name args (w2 ++ 41%N :: rest) = POk (SFn name args) rest.
Proof.
  intros name args w2 rest H. unfold p_close. rewrite eat_ws by exact H.
  rewrite eat_hit by reflexivity. reflexivity.
Qed.

Lemma rend_sx_parse_n : forall e s, rend_sx e s -> P_sx e s.
Proof.
  apply (rend_sx_mut P_sx P_args P_more).
  - (* single quoted *)
    intros w b Hw Hb n rest L.
    destruct n as [|n]; [rewrite app_length in L; simpl in L; lia|].
    cbn [p_sx]. unfold p_sx_body. rewrite <- app_assoc. rewrite skip_ws_app_ws by exact Hw.
    cbn [app]. rewrite skip_ws_nonws by reflexivity. rewrite N.eqb_refl.
    rewrite <- app_assoc. cbn [app]. rewrite (scan_sq_body b rest Hb). reflexivity.
  - (* double quoted *)
    intros w b Hw Hb n rest L.
    destruct n as [|n]; [rewrite app_length in L; simpl in L; lia|].
    cbn [p_sx]. unfold p_sx_body. rewrite <- app_assoc. rewrite skip_ws_app_ws by exact Hw.
    cbn [app]. rewrite skip_ws_nonws by reflexivity.
    replace (34 =? 39)%N with false by reflexivity. rewrite N.eqb_refl.
    rewrite <- app_assoc. cbn [app]. rewrite (scan_dq_body b rest Hb). reflexivity.
  - (* call *)
    intros w name w1 args sargs w2 Hw Hn Hw1 _ IHa Hw2 n rest L.
    destruct name as [|c name]; [discriminate|]. cbn [wf_name] in Hn.
    apply andb_prop in Hn. destruct Hn as [Hc Hr].
    repeat (rewrite app_length in L; simpl in L).
    destruct n as [|n]; [lia|].
    cbn [p_sx]. unfold p_sx_body. rewrite <- app_assoc. rewrite skip_ws_app_ws by exact Hw.
    cbn [app]. rewrite skip_ws_nonws by (apply alpha_not_ws; exact Hc).
    destruct (alpha_not_quote c Hc) as [Q1 Q2]. rewrite Q1, Q2, Hc.
    unfold p_call.
    replace (c :: (name ++ w1 ++ 40%N :: sargs ++ w2 ++ [41%N]) ++ rest)
      with ((c :: name) ++ (w1 ++ 40%N :: (sargs ++ w2 ++ 41%N :: rest))).
    2:{ cbn [app]. f_equal. repeat rewrite <- app_assoc. cbn [app]. repeat rewrite <- app_assoc. reflexivity. }
    rewrite span_name_app.
    + rewrite eat_ws by exact Hw1. rewrite eat_hit by reflexivity.
      apply IHa; [exact Hw2|lia|lia].
    + cbn [forallb]. rewrite Hr. unfold is_namech. rewrite Hc. reflexivity.
    + apply stops_name_ws_paren. exact Hw1.
  - (* no arguments *)
    intros n name w2 rest Hw2 N1 L. unfold p_args. cbn [app].
    destruct n as [|n]; [lia|]. cbn [p_sx].
    assert (F : p_sx_body (p_sx n) (w2 ++ 41%N :: rest) = PFail).
    { unfold p_sx_body. rewrite skip_ws_app_ws by exact Hw2. rewrite skip_ws_nonws by reflexivity. reflexivity. }
    rewrite F. apply p_close_ok. exact Hw2.
  - (* first argument *)
    intros e s es ss _ IHe Hm IHm n name w2 rest Hw2 N1 L.
    rewrite app_length in L. unfold p_args. rewrite <- app_assoc.
    rewrite (IHe n (ss ++ w2 ++ 41%N :: rest)) by lia.
    rewrite (IHm n (S (length (ss ++ w2 ++ 41%N :: rest))) [e] (w2 ++ 41%N :: rest)).
    + apply p_close_ok. exact Hw2.
    + lia.
    + rewrite app_length. assert (length es <= length ss) by (apply rend_more_len; exact Hm). lia.
    + apply eat44_close. exact Hw2.
  - (* no further argument *)
    intros n k acc tail L K E. destruct k as [|k]; [simpl in K; lia|].
    cbn [app p_more]. rewrite E. rewrite app_nil_r. reflexivity.
  - (* further argument *)
    intros w e s es ss Hw _ IHe _ IHm n k acc tail L K E.
    repeat (rewrite app_length in L; simpl in L).
    destruct k as [|k]; [lia|]. simpl in K.
    cbn [p_more]. rewrite <- app_assoc. rewrite eat_ws by exact Hw. cbn [app].
    rewrite eat_hit by reflexivity. rewrite <- app_assoc.
    rewrite (IHe n (ss ++ tail)) by lia.
    rewrite (IHm n k (acc ++ [e]) tail) by (try lia; exact E).
    rewrite <- app_assoc. reflexivity.
Qed.

Lemma rend_sx_parse : forall e s rest, rend_sx e s -> parse_sx (s ++ rest) = POk e rest.
Proof.
  intros e s rest H. unfold parse_sx. apply (rend_sx_parse_n e s H).
  rewrite app_length. lia.
Qed.

(* ====================================================================== *)
(* 6. the operator tower                                                  *)

Definition op_at (k : nat) : binop :=
  match k with
  | 2 => BLt | 3 => BLe | 4 => BGt | 5 => BGe | 6 => BEq | 7 => BNe | 8 => BAnd | _ => BOr
  end.

(* P rec k: the parser of precedence level k (0 primary, 1 '!', 2..9 binary) *)
Fixpoint P (rec : parser) (k : nat) : parser :=
  match k with
  | 0 => p_atom rec
  | S k' => match k' with
            | 0 => p_not (p_atom rec)
            | S _ => p_level (op_at k) (P rec k')
            end
  end.

Lemma P_tower : forall rec, p_tower rec = P rec 9.
Proof. reflexivity. Qed.

Lemma lvl_op_at : forall op, op_at (lvl op) = op.
Proof. destruct op; reflexivity. Qed.

Lemma lvl_range : forall op, 2 <= lvl op <= 9.
Proof. destruct op; simpl; lia. Qed.

Lemma P_S : forall rec i, 1 <= i -> P rec (S i) = p_level (op_at (S i)) (P rec i).
Proof. intros rec i H. destruct i; [lia|reflexivity]. Qed.

Lemma P_nonincr : forall rec, nonincr rec -> forall k, nonincr (P rec k).
Proof.
  intros rec NI. induction k as [|k IH].
  - apply p_atom_nonincr. exact NI.
  - destruct k as [|k].
    + apply p_not_nonincr. apply p_atom_nonincr. exact NI.
    + rewrite P_S by lia. apply p_level_nonincr. exact IH.
Qed.

Definition loop (op : binop) (last : parser) (acc : ifast) (s : str) : pres ifast :=
  p_loop op last (S (length s)) acc s.

Lemma op_text_len : forall op, 1 <= length (op_text op).
Proof. destruct op; simpl; lia. Qed.

Lemma p_loop_fuel_irrel : forall op last, nonincr last ->
  forall k1 k2 acc s, length s < k1 -> length s < k2 ->
  p_loop op last k1 acc s = p_loop op last k2 acc s.
Proof.
  intros op last NI. induction k1 as [|k1 IH]; intros k2 acc s L1 L2; [lia|].
  destruct k2 as [|k2]; [lia|]. cbn [p_loop].
  destruct (lit (op_text op) (skip_ws s)) as [r0|] eqn:E; [|reflexivity].
  destruct (last r0) as [e r1| |] eqn:EL; try reflexivity.
  apply NI in EL. apply lit_len in E. pose proof (skip_ws_len s). pose proof (op_text_len op).
  apply IH; lia.
Qed.

Lemma p_level_loop : forall op last s,
  p_level op last s = match last s with
                      | POk e r => loop op last e r
                      | PFail => PFail
                      | PFuel => PFuel
                      end.
Proof. reflexivity. Qed.

Lemma p_loop_S : forall op last k acc s,
  p_loop op last (S k) acc s =
  match lit (op_text op) (skip_ws s) with
  | None => POk acc s
  | Some r =>
    match last r with
    | POk e r' => p_loop op last k (ABin op acc e) r'
    | PFail => POk acc s
    | PFuel => PFuel
    end
  end.
Proof. reflexivity. Qed.

Lemma loop_step : forall op last acc s r e r', nonincr last ->
  lit (op_text op) (skip_ws s) = Some r -> last r = POk e r' ->
  loop op last acc s = loop op last (ABin op acc e) r'.
Proof.
  intros op last acc s r e r' NI E EL. unfold loop. rewrite (p_loop_S op last (length s)). rewrite E, EL.
  apply NI in EL. apply lit_len in E. pose proof (skip_ws_len s). pose proof (op_text_len op).
  apply p_loop_fuel_irrel; [exact NI|lia|lia].
Qed.

(* the loop of operator op stops at rest: op does not follow, or it is `<` / `>`
   directly followed by `=` *)
Definition nostart (op : binop) (rest : str) : Prop :=
  match lit (op_text op) (skip_ws rest) with
  | None => True
  | Some r => exists r', r = 61%N :: r'
  end.

Lemma loop_nostart : forall op last acc rest,
  (forall r, last (61%N :: r) = PFail) -> nostart op rest -> loop op last acc rest = POk acc rest.
Proof.
  intros op last acc rest F H. unfold loop. rewrite p_loop_S. unfold nostart in H.
  destruct (lit (op_text op) (skip_ws rest)) as [r|]; [|reflexivity].
  destruct H as [r' ->]. rewrite F. reflexivity.
Qed.

Lemma p_not_nonbang : forall atom c s, is_ws c = false -> (c =? 33)%N = false ->
  p_not atom (c :: s) = atom (c :: s).
Proof. intros atom c s H1 H2. cbn [p_not]. rewrite H1, H2. reflexivity. Qed.

Lemma p_not_ws : forall atom w s, all_ws w -> p_not atom (w ++ s) = p_not atom s.
Proof.
  induction w as [|c w IH]; intros s H; [reflexivity|].
  apply all_ws_cons in H. destruct H as [H1 H2]. cbn [app p_not]. rewrite H1. apply IH. exact H2.
Qed.

Lemma P_fail_eq : forall rec k r, P rec k (61%N :: r) = PFail.
Proof.
  intros rec k r.
  assert (A : p_atom rec (61%N :: r) = PFail).
  { unfold p_atom. rewrite eat_miss by reflexivity. unfold parse_sx. cbn [p_sx].
    rewrite p_sx_body_fail_on by reflexivity. reflexivity. }
  induction k as [|k IH]; [exact A|].
  destruct k as [|k].
  - cbn [P]. rewrite p_not_nonbang by reflexivity. exact A.
  - rewrite P_S by lia. unfold p_level. rewrite IH. reflexivity.
Qed.

(* loops rec i d: the loops of the levels i+1 .. i+d, one after the other *)
Fixpoint loops (rec : parser) (i d : nat) (a : ifast) (s : str) : pres ifast :=
  match d with
  | 0 => POk a s
  | S d' => match loop (op_at (S i)) (P rec i) a s with
            | POk a' s' => loops rec (S i) d' a' s'
            | PFail => PFail
            | PFuel => PFuel
            end
  end.

Lemma P_loops : forall rec d i x, 1 <= i ->
  P rec (i + d) x = match P rec i x with
                    | POk a r => loops rec i d a r
                    | PFail => PFail
                    | PFuel => PFuel
                    end.
Proof.
  intros rec. induction d as [|d IH]; intros i x Hi.
  - rewrite Nat.add_0_r. cbn [loops]. destruct (P rec i x); reflexivity.
  - replace (i + S d) with (S i + d) by lia. rewrite IH by lia.
    rewrite (P_S rec i Hi). rewrite p_level_loop. cbn [loops].
    destruct (P rec i x); reflexivity.
Qed.

Lemma loops_stop : forall rec d i a rest,
  (forall j, i < j <= i + d -> nostart (op_at j) rest) -> loops rec i d a rest = POk a rest.
Proof.
  intros rec. induction d as [|d IH]; intros i a rest H; cbn [loops]; [reflexivity|].
  rewrite loop_nostart.
  - apply IH. intros j Hj. apply H. lia.
  - apply P_fail_eq.
  - apply H. lia.
Qed.

Lemma loops_skip : forall rec d1 d2 i a rest,
  (forall j, i < j <= i + d1 -> nostart (op_at j) rest) ->
  loops rec i (d1 + d2) a rest = loops rec (i + d1) d2 a rest.
Proof.
  intros rec. induction d1 as [|d1 IH]; intros d2 i a rest H.
  - rewrite Nat.add_0_r. reflexivity.
  - cbn [Nat.add loops]. rewrite loop_nostart.
    + replace (i + S d1) with (S i + d1) by lia. apply IH. intros j Hj. apply H. lia.
    + apply P_fail_eq.
    + apply H. lia.
Qed.

(* from level 1 up: the loops of the levels 2..c stop at rest *)
Lemma lift1 : forall rec x a rest c d, P rec 1 x = POk a rest -> 1 <= c ->
  (forall j, 2 <= j <= c -> nostart (op_at j) rest) ->
  P rec (c + d) x = loops rec c d a rest.
Proof.
  intros rec x a rest c d H C N.
  replace (c + d) with (1 + ((c - 1) + d)) by lia.
  rewrite P_loops by lia. rewrite H.
  rewrite loops_skip.
  - replace (1 + (c - 1)) with c by lia. reflexivity.
  - intros j Hj. apply N. lia.
Qed.

(* ---- where operators cannot start ------------------------------------ *)
Lemma skip_ws_op : forall op x, skip_ws (op_text op ++ x) = op_text op ++ x.
Proof. destruct op; reflexivity. Qed.

Lemma nostart_end : forall op w, all_ws w -> nostart op w.
Proof.
  intros op w H. unfold nostart. rewrite skip_ws_all by exact H. destruct op; exact I.
Qed.

Lemma nostart_close : forall op w x, all_ws w -> nostart op (w ++ 41%N :: x).
Proof.
  intros op w x H. unfold nostart. rewrite skip_ws_app_ws by exact H.
  rewrite skip_ws_nonws by reflexivity. destruct op; exact I.
Qed.

Lemma nostart_lower : forall op w x j, all_ws w -> 2 <= j -> j < lvl op ->
  nostart (op_at j) (w ++ op_text op ++ x).
Proof.
  intros op w x j H J1 J2. unfold nostart. rewrite skip_ws_app_ws by exact H. rewrite skip_ws_op.
  destruct op; simpl in J2;
    do 9 (destruct j as [|j]; [try lia; cbn; try exact I; try (eexists; reflexivity)|]); lia.
Qed.

(* ---- texts of string typed expressions at level 1 --------------------- *)
Lemma alpha_not_bang_paren : forall c, is_alpha c = true -> (c =? 33)%N = false /\ (c =? 40)%N = false.
Proof.
  intros c H. unfold is_alpha in H. repeat rewrite N.eqb_neq.
  apply orb_true_iff in H.
  destruct H as [H|H]; apply andb_prop in H; destruct H as [H1 H2];
    apply N.leb_le in H1; apply N.leb_le in H2; split; lia.
Qed.

Lemma rend_sx_head : forall e s, rend_sx e s ->
  exists w c t, s = w ++ c :: t /\ all_ws w /\ rend_sx e (c :: t) /\
                is_ws c = false /\ (c =? 33)%N = false /\ (c =? 40)%N = false.
Proof.
  intros e s H. destruct H as [w b Hw Hb|w b Hw Hb|w name w1 args sargs w2 Hw Hn Hw1 Ha Hw2].
  - exists w, 39%N, (b ++ [39%N]). repeat split; try reflexivity; try exact Hw.
    exact (RSq [] b all_ws_nil Hb).
  - exists w, 34%N, (b ++ [34%N]). repeat split; try reflexivity; try exact Hw.
    exact (RDq [] b all_ws_nil Hb).
  - destruct name as [|c name]; [discriminate|].
    assert (Hc : is_alpha c = true).
    { cbn [wf_name] in Hn. apply andb_prop in Hn. destruct Hn as [Hc _]. exact Hc. }
    destruct (alpha_not_bang_paren c Hc) as [B1 B2].
    exists w, c, (name ++ w1 ++ 40%N :: sargs ++ w2 ++ [41%N]). repeat split.
    + exact Hw.
    + exact (RFn [] (c :: name) w1 args sargs w2 all_ws_nil Hn Hw1 Ha Hw2).
    + apply alpha_not_ws. exact Hc.
    + exact B1.
    + exact B2.
Qed.

Lemma P1_str : forall rec e s rest, rend_sx e s -> P rec 1 (s ++ rest) = POk (AStr e) rest.
Proof.
  intros rec e s rest H.
  destruct (rend_sx_head e s H) as [w [c [t [-> [Hw [H0 [H1 [H2 H3]]]]]]]].
  pose proof (rend_sx_parse e (c :: t) rest H0) as HP.
  cbn [P]. rewrite <- app_assoc. rewrite p_not_ws by exact Hw. cbn [app] in *.
  rewrite p_not_nonbang by assumption.
  unfold p_atom. rewrite eat_miss by assumption.
  rewrite HP. reflexivity.
Qed.

(* ====================================================================== *)
(* 7. every text of an AST parses back to it                              *)

(* the level whose loop is still running after an operand of level i *)
Definition cl (i : nat) : nat := Nat.max 1 (i - 1).

Lemma rend_parse_lv : forall i a s, rend i a s -> i <= 9 ->
  forall n d rest, length s <= n -> i <= cl i + d -> cl i + d <= 9 ->
    (forall j, 2 <= j < i -> nostart (op_at j) rest) ->
    P (p_expr n) (cl i + d) (s ++ rest) = loops (p_expr n) (cl i) d a rest.
Proof.
  induction 1 as [k e s Hs
                 |k w x s Hk Hw Hx IH
                 |k op l r sl w sr Hop Hl IHl Hw Hr IHr
                 |k a w s w2 Hw Ha IH Hw2];
    intros K9 n d rest L D1 D9 NS.
  - (* string typed expression *)
    apply lift1.
    + apply P1_str. exact Hs.
    + unfold cl. lia.
    + intros j Hj. apply NS. unfold cl in Hj. lia.
  - (* !x *)
    apply lift1.
    + rewrite <- app_assoc. cbn [P]. rewrite p_not_ws by exact Hw.
      cbn [app p_not]. replace (is_ws 33%N) with false by reflexivity. rewrite N.eqb_refl.
      rewrite app_length in L. simpl in L.
      assert (E : P (p_expr n) (cl 1 + 0) (s ++ rest) = loops (p_expr n) (cl 1) 0 x rest).
      { apply IH; [lia|lia|unfold cl; simpl; lia|unfold cl; simpl; lia|intros j Hj; lia]. }
      cbn [cl Nat.max Nat.sub Nat.add P loops] in E. rewrite E. reflexivity.
    + unfold cl. lia.
    + intros j Hj. apply NS. unfold cl in Hj. lia.
  - (* l op r *)
    pose proof (lvl_range op) as R. remember (lvl op) as j eqn:EJ.
    repeat (rewrite app_length in L). 
    assert (CK : cl k = k - 1) by (unfold cl; lia).
    assert (CJ : cl j = j - 1) by (unfold cl; lia).
    replace ((sl ++ w ++ op_text op ++ sr) ++ rest)
      with (sl ++ (w ++ op_text op ++ (sr ++ rest)))
      by (repeat rewrite <- app_assoc; reflexivity).
    (* the left operand, then the loop of level j goes on *)
    replace (cl k + d) with (cl j + S (cl k + d - j)) by lia.
    rewrite IHl; [|lia|lia|lia|lia|].
    2:{ intros j' Hj'. subst j. apply nostart_lower; [exact Hw|lia|lia]. }
    (* the right operand *)
    assert (ER : P (p_expr n) (j - 1) (sr ++ rest) = POk r rest).
    { destruct (Nat.eq_dec j 2) as [J2|J2].
      - replace (j - 1) with (cl (j - 1) + 0) by (unfold cl; lia).
        rewrite IHr; [reflexivity|lia|lia|unfold cl; lia|unfold cl; lia|intros j' Hj'; lia].
      - replace (j - 1) with (cl (j - 1) + 1) at 1 by (unfold cl; lia).
        rewrite IHr; [|lia|lia|unfold cl; lia|unfold cl; lia|intros j' Hj'; apply NS; lia].
        apply loops_stop. intros j' Hj'. apply NS. unfold cl in Hj'. lia. }
    rewrite CJ. cbn [loops].
    replace (S (j - 1)) with j by lia. rewrite EJ at 1 2. rewrite lvl_op_at. rewrite <- EJ.
    rewrite (loop_step op (P (p_expr n) (j - 1)) l (w ++ op_text op ++ sr ++ rest) (sr ++ rest) r rest).
    + (* fold the loop of level j back and skip the levels j .. k-1 *)
      assert (F : loops (p_expr n) (j - 1) (S (cl k + d - j)) (ABin op l r) rest =
                  match loop op (P (p_expr n) (j - 1)) (ABin op l r) rest with
                  | POk a' s' => loops (p_expr n) j (cl k + d - j) a' s'
                  | PFail => PFail
                  | PFuel => PFuel
                  end).
      { cbn [loops]. replace (S (j - 1)) with j by lia. rewrite EJ at 1. rewrite lvl_op_at. reflexivity. }
      rewrite <- F.
      replace (S (cl k + d - j)) with ((cl k - (j - 1)) + d) by lia.
      rewrite loops_skip.
      * replace (j - 1 + (cl k - (j - 1))) with (cl k) by lia. reflexivity.
      * intros j' Hj'. apply NS. lia.
    + apply P_nonincr. apply p_expr_nonincr.
    + rewrite skip_ws_app_ws by exact Hw. rewrite skip_ws_op. apply lit_app.
    + exact ER.
  - (* parentheses *)
    apply lift1.
    + repeat (rewrite app_length in L; simpl in L).
      destruct n as [|n]; [lia|].
      rewrite <- app_assoc. cbn [P]. rewrite p_not_ws by exact Hw. cbn [app].
      rewrite p_not_nonbang by reflexivity.
      unfold p_atom. rewrite eat_hit by reflexivity.
      replace ((s ++ w2 ++ [41%N]) ++ rest) with (s ++ (w2 ++ 41%N :: rest))
        by (repeat rewrite <- app_assoc; reflexivity).
      cbn [p_expr]. rewrite P_tower.
      assert (E : P (p_expr n) (cl 9 + 1) (s ++ w2 ++ 41%N :: rest)
                  = loops (p_expr n) (cl 9) 1 a (w2 ++ 41%N :: rest)).
      { apply IH; [lia|lia|unfold cl; simpl; lia|unfold cl; simpl; lia|].
        intros j Hj. apply nostart_close. exact Hw2. }
      change (cl 9 + 1) with 9 in E. rewrite E.
      rewrite loops_stop.
      * rewrite eat_ws by exact Hw2. rewrite eat_hit by reflexivity. reflexivity.
      * intros j Hj. apply nostart_close. exact Hw2.
    + unfold cl. lia.
    + intros j Hj. apply NS. unfold cl in Hj. lia.
Qed.

Theorem rend_parse_ast_proof : forall a s w, rend 9 a s -> all_ws w -> parse_ast (s ++ w) = Some a.
Proof.
  intros a s w H Hw. unfold parse_ast, parse_ast_res. cbn [p_expr]. rewrite P_tower.
  assert (E : P (p_expr (length (s ++ w))) (cl 9 + 1) (s ++ w)
              = loops (p_expr (length (s ++ w))) (cl 9) 1 a w).
  { apply (rend_parse_lv 9 a s H).
    - lia.
    - rewrite app_length. lia.
    - unfold cl. simpl. lia.
    - unfold cl. simpl. lia.
    - intros j Hj. apply nostart_end. exact Hw. }
  change (cl 9 + 1) with 9 in E. rewrite E.
  rewrite loops_stop.
  - rewrite skip_ws_all by exact Hw. reflexivity.
  - intros j Hj. apply nostart_end. exact Hw.
Qed.

(* ====================================================================== *)
(* 8. the renderers produce texts of their AST                            *)

Lemma all_ws_app : forall a b, all_ws a -> all_ws b -> all_ws (a ++ b).
Proof. unfold all_ws. intros a b Ha Hb. rewrite forallb_app. rewrite Ha, Hb. reflexivity. Qed.

Lemma rend_sx_ws : forall w e s, all_ws w -> rend_sx e s -> rend_sx e (w ++ s).
Proof.
  intros w e s Hw H. destruct H as [w0 b Hw0 Hb|w0 b Hw0 Hb|w0 name w1 args sargs w2 Hw0 Hn Hw1 Ha Hw2];
    rewrite app_assoc.
  - apply RSq; [apply all_ws_app; assumption|exact Hb].
  - apply RDq; [apply all_ws_app; assumption|exact Hb].
  - apply RFn; try assumption. apply all_ws_app; assumption.
Qed.

Lemma rend_ws : forall k a s, rend k a s -> forall w, all_ws w -> rend k a (w ++ s).
Proof.
  induction 1 as [k e s Hs|k w0 x s Hk Hw0 Hx IH|k op l r sl w0 sr Hop Hl IHl Hw0 Hr IHr|k a w0 s w2 Hw0 Ha IH Hw2];
    intros w Hw.
  - apply R_str. apply rend_sx_ws; assumption.
  - rewrite app_assoc. apply R_not; [exact Hk|apply all_ws_app; assumption|exact Hx].
  - rewrite app_assoc. apply R_bin; [exact Hop|apply IHl; exact Hw|exact Hw0|exact Hr].
  - rewrite app_assoc. apply R_par; [apply all_ws_app; assumption|exact Ha|exact Hw2].
Qed.

Fixpoint sexpr_ind2 (Q : sexpr -> Prop)
    (HL : forall s d, Q (SLit s d))
    (HF : forall name args, Forall Q args -> Q (SFn name args))
    (e : sexpr) : Q e :=
  match e with
  | SLit s d => HL s d
  | SFn name args =>
    HF name args
       ((fix go (l : list sexpr) : Forall Q l :=
           match l with
           | [] => Forall_nil Q
           | x :: r => Forall_cons x (sexpr_ind2 Q HL HF x) (go r)
           end) args)
  end.

Definition render_more : list sexpr -> str :=
  fix go (l : list sexpr) : str :=
    match l with
    | [] => []
    | x :: r => 44%N :: 32%N :: render_sx x ++ go r
    end.

Lemma render_sx_fn : forall name args,
  render_sx (SFn name args) =
  name ++ 40%N :: match args with [] => [] | a :: more => render_sx a ++ render_more more end ++ [41%N].
Proof. intros name args. destruct args; reflexivity. Qed.

Lemma ws_blank : all_ws [32%N].
Proof. reflexivity. Qed.

Lemma render_more_rend : forall l,
  Forall (fun e => wf_sx e = true -> rend_sx e (render_sx e)) l ->
  forallb wf_sx l = true -> rend_more l (render_more l).
Proof.
  induction l as [|x l IH]; intros F W.
  - apply RM_nil.
  - inversion F as [|x0 l0 Fx Fl]; subst. cbn [forallb] in W. apply andb_prop in W. destruct W as [Wx Wl].
    change (render_more (x :: l)) with ([] ++ 44%N :: (32%N :: render_sx x) ++ render_more l).
    apply RM_cons.
    + apply all_ws_nil.
    + apply (rend_sx_ws [32%N]); [apply ws_blank|apply Fx; exact Wx].
    + apply IH; assumption.
Qed.

Lemma render_sx_rend : forall e, wf_sx e = true -> rend_sx e (render_sx e).
Proof.
  induction e as [s d|name args IH] using sexpr_ind2; intros W.
  - destruct d; cbn [render_sx render_lit].
    + pose proof (RDq [] (esc_dq s) all_ws_nil (dq_body_esc s)) as R.
      rewrite unq_esc_dq in R. exact R.
    + cbn [wf_sx] in W. exact (RSq [] s all_ws_nil W).
  - cbn [wf_sx] in W. apply andb_prop in W. destruct W as [Wn Wa].
    rewrite render_sx_fn.
    pose proof (fun sargs Ha => RFn [] name [] args sargs [] all_ws_nil Wn all_ws_nil Ha all_ws_nil) as R.
    cbn [app] in R. apply R.
    destruct args as [|a more].
    + apply RA_nil.
    + inversion IH as [|x0 l0 Fa Fm]; subst. cbn [forallb] in Wa. apply andb_prop in Wa.
      destruct Wa as [Wa Wm]. apply RA_cons.
      * apply Fa. exact Wa.
      * apply render_more_rend; assumption.
Qed.

Definition body (a : ifast) : str :=
  match a with
  | AStr e => render_sx e
  | ANot x => 33%N :: render_at 1 x
  | ABin op l r => render_at (lvl op) l ++ 32%N :: op_text op ++ 32%N :: render_at (lvl op - 1) r
  end.

Lemma render_at_eq : forall k a,
  render_at k a = if Nat.leb (lvl_ast a) k then body a else 40%N :: body a ++ [41%N].
Proof. intros k a. destruct a; reflexivity. Qed.

Lemma lvl_ast_range : forall a, lvl_ast a <= 9.
Proof. destruct a; simpl; try lia. pose proof (lvl_range op). lia. Qed.

Lemma render_at_rend : forall a, wf_ast a = true -> forall k, rend k a (render_at k a).
Proof.
  induction a as [e|x IH|op l IHl r IHr]; intros W.
  - (* string *)
    intros k. rewrite render_at_eq. cbn [lvl_ast Nat.leb body]. apply R_str. apply render_sx_rend. exact W.
  - (* not *)
    cbn [wf_ast] in W.
    assert (B : forall k, 1 <= k -> rend k (ANot x) (body (ANot x))).
    { intros k Hk. cbn [body]. apply (R_not k [] x); [exact Hk|apply all_ws_nil|apply IH; exact W]. }
    intros k. rewrite render_at_eq. destruct (Nat.leb (lvl_ast (ANot x)) k) eqn:E.
    + apply Nat.leb_le in E. apply B. exact E.
    + apply (R_par k (ANot x) [] (body (ANot x)) []); [apply all_ws_nil|apply B; lia|apply all_ws_nil].
  - (* binary *)
    cbn [wf_ast] in W. apply andb_prop in W. destruct W as [Wl Wr].
    assert (B : forall k, lvl op <= k -> rend k (ABin op l r) (body (ABin op l r))).
    { intros k Hk. cbn [body].
      change (render_at (lvl op) l ++ 32%N :: op_text op ++ 32%N :: render_at (lvl op - 1) r)
        with (render_at (lvl op) l ++ [32%N] ++ op_text op ++ ([32%N] ++ render_at (lvl op - 1) r)).
      apply R_bin; [exact Hk|apply IHl; exact Wl|apply ws_blank|].
      apply rend_ws; [apply IHr; exact Wr|apply ws_blank]. }
    intros k. rewrite render_at_eq. destruct (Nat.leb (lvl_ast (ABin op l r)) k) eqn:E.
    + apply Nat.leb_le in E. apply B. exact E.
    + apply (R_par k (ABin op l r) [] (body (ABin op l r)) []); [apply all_ws_nil| |apply all_ws_nil].
      apply B. pose proof (lvl_range op). lia.
Qed.

Lemma render_full_rend : forall a, wf_ast a = true -> rend 9 a (render_full a).
Proof.
  induction a as [e|x IH|op l IHl r IHr]; intros W.
  - apply R_str. apply render_sx_rend. exact W.
  - cbn [wf_ast] in W. cbn [render_full].
    apply (R_not 9 [] x); [lia|apply all_ws_nil|].
    apply (R_par 1 x [] (render_full x) []); [apply all_ws_nil|apply IH; exact W|apply all_ws_nil].
  - cbn [wf_ast] in W. apply andb_prop in W. destruct W as [Wl Wr]. cbn [render_full].
    pose proof (lvl_range op) as R.
    replace (40%N :: render_full l ++ 41%N :: 32%N :: op_text op ++ 32%N :: 40%N :: render_full r ++ [41%N])
      with (([] ++ 40%N :: render_full l ++ [] ++ [41%N]) ++ [32%N] ++ op_text op ++ ([32%N] ++ 40%N :: render_full r ++ [] ++ [41%N]))
      by (cbn [app]; rewrite <- app_assoc; cbn [app]; reflexivity).
    apply R_bin; [lia| |apply ws_blank|].
    + apply R_par; [apply all_ws_nil|apply IHl; exact Wl|apply all_ws_nil].
    + apply R_par; [apply ws_blank|apply IHr; exact Wr|apply all_ws_nil].
Qed.

(* ====================================================================== *)
(* 9. from the parsed tree to Model.ifexpr                                 *)

Lemma to_of_ifexpr : forall e, to_ifexpr (of_ifexpr e) = Some e.
Proof.
  induction e as [s|x IH|l IHl r IHr|l IHl r IHr|c l r]; cbn [of_ifexpr to_ifexpr cmp_of].
  - reflexivity.
  - rewrite IH. reflexivity.
  - rewrite IHl, IHr. reflexivity.
  - rewrite IHl, IHr. reflexivity.
  - destruct c; reflexivity.
Qed.

Lemma rend_parse_if_proof : forall a e s w, rend 9 a s -> all_ws w -> to_ifexpr a = Some e ->
  parse_if (s ++ w) = Some e.
Proof.
  intros a e s w H Hw T. unfold parse_if. rewrite (rend_parse_ast_proof a s w H Hw). exact T.
Qed.

Theorem parse_if_render_proof : forall e, wf_if e = true -> parse_if (render_if e) = Some e.
Proof.
  intros e W. unfold render_if, render_ast. rewrite <- (app_nil_r (render_at 9 (of_ifexpr e))).
  apply (rend_parse_if_proof (of_ifexpr e)).
  - apply render_at_rend. exact W.
  - apply all_ws_nil.
  - apply to_of_ifexpr.
Qed.

Theorem parse_ast_render_proof : forall a, wf_ast a = true -> parse_ast (render_ast a) = Some a.
Proof.
  intros a W. unfold render_ast. rewrite <- (app_nil_r (render_at 9 a)).
  apply rend_parse_ast_proof; [apply render_at_rend; exact W|apply all_ws_nil].
Qed.

Theorem parse_ast_render_full_proof : forall a, wf_ast a = true -> parse_ast (render_full a) = Some a.
Proof.
  intros a W. rewrite <- (app_nil_r (render_full a)).
  apply rend_parse_ast_proof; [apply render_full_rend; exact W|apply all_ws_nil].
Qed.

(* ====================================================================== *)
(* 10. precedence and associativity                                        *)

(* a binary operator takes as left operand everything of its own level or
   tighter, as right operand everything strictly tighter: texts joined by an
   operator parse to the operator applied to the two trees *)
Lemma join_parse : forall op l r sl sr w1 w2, rend (lvl op) l sl -> rend (lvl op - 1) r sr ->
  all_ws w1 -> all_ws w2 ->
  parse_ast (sl ++ w1 ++ op_text op ++ sr ++ w2) = Some (ABin op l r).
Proof.
  intros op l r sl sr w1 w2 Hl Hr H1 H2. pose proof (lvl_range op).
  replace (sl ++ w1 ++ op_text op ++ sr ++ w2) with ((sl ++ w1 ++ op_text op ++ sr) ++ w2)
    by (repeat rewrite <- app_assoc; reflexivity).
  apply rend_parse_ast_proof; [|exact H2]. apply R_bin; [lia|exact Hl|exact H1|exact Hr].
Qed.

(* a op2 b op1 c = a op2 (b op1 c) when op1 binds tighter than op2 *)
Lemma tighter_right_proof : forall op1 op2 a b c sa sb sc w1 w2 w3, lvl op1 < lvl op2 ->
  rend (lvl op2) a sa -> rend (lvl op1) b sb -> rend (lvl op1 - 1) c sc ->
  all_ws w1 -> all_ws w2 -> all_ws w3 ->
  parse_ast (sa ++ w1 ++ op_text op2 ++ (sb ++ w2 ++ op_text op1 ++ sc) ++ w3)
  = Some (ABin op2 a (ABin op1 b c)).
Proof.
  intros op1 op2 a b c sa sb sc w1 w2 w3 Hlt Ha Hb Hc H1 H2 H3.
  apply (join_parse op2 a (ABin op1 b c) sa (sb ++ w2 ++ op_text op1 ++ sc) w1 w3); try assumption.
  apply (R_bin (lvl op2 - 1) op1 b c sb w2 sc); [lia|exact Hb|exact H2|exact Hc].
Qed.

(* a op1 b op2 c = (a op1 b) op2 c when op1 binds at least as tight as op2
   (op1 = op2: left associativity) *)
Lemma tighter_left_proof : forall op1 op2 a b c sa sb sc w1 w2 w3, lvl op1 <= lvl op2 ->
  rend (lvl op1) a sa -> rend (lvl op1 - 1) b sb -> rend (lvl op2 - 1) c sc ->
  all_ws w1 -> all_ws w2 -> all_ws w3 ->
  parse_ast ((sa ++ w1 ++ op_text op1 ++ sb) ++ w2 ++ op_text op2 ++ sc ++ w3)
  = Some (ABin op2 (ABin op1 a b) c).
Proof.
  intros op1 op2 a b c sa sb sc w1 w2 w3 Hle Ha Hb Hc H1 H2 H3.
  apply (join_parse op2 (ABin op1 a b) c (sa ++ w1 ++ op_text op1 ++ sb) sc w2 w3); try assumption.
  apply (R_bin (lvl op2) op1 a b sa w1 sb); [exact Hle|exact Ha|exact H1|exact Hb].
Qed.

(* ! binds tighter than every binary operator: !a op b = (!a) op b *)
Lemma not_tightest_proof : forall op a b sa sb w0 w1 w2,
  rend 1 a sa -> rend (lvl op - 1) b sb -> all_ws w0 -> all_ws w1 -> all_ws w2 ->
  parse_ast ((w0 ++ 33%N :: sa) ++ w1 ++ op_text op ++ sb ++ w2) = Some (ABin op (ANot a) b).
Proof.
  intros op a b sa sb w0 w1 w2 Ha Hb H0 H1 H2. pose proof (lvl_range op).
  apply (join_parse op (ANot a) b (w0 ++ 33%N :: sa) sb w1 w2); try assumption.
  apply R_not; [lia|exact H0|exact Ha].
Qed.

(* ! is a prefix operator: !!a = !(!a) *)
Lemma not_nests_proof : forall a sa w, rend 1 a sa -> all_ws w ->
  parse_ast ((33%N :: 33%N :: sa) ++ w) = Some (ANot (ANot a)).
Proof.
  intros a sa w Ha Hw. apply rend_parse_ast_proof; [|exact Hw].
  apply (R_not 9 [] (ANot a) (33%N :: sa)); [lia|apply all_ws_nil|].
  apply (R_not 1 [] a sa); [lia|apply all_ws_nil|exact Ha].
Qed.

(* comparison operands must be strings: a comparison of a comparison or of a
   negation is a ParseError (BinaryStrOperator.__init__) *)
Lemma chained_cmp_rejected_proof : forall op1 op2 a b c,
  cmp_of op2 <> None -> to_ifexpr (ABin op2 (ABin op1 a b) c) = None.
Proof.
  intros op1 op2 a b c H. cbn [to_ifexpr]. destruct (cmp_of op2); [reflexivity|contradiction].
Qed.

Lemma cmp_of_not_rejected_proof : forall op a b, cmp_of op <> None -> to_ifexpr (ABin op (ANot a) b) = None.
Proof.
  intros op a b H. cbn [to_ifexpr]. destruct (cmp_of op); [reflexivity|contradiction].
Qed.

Lemma cmp_lvl : forall op, cmp_of op <> None -> lvl op <= 7.
Proof. destruct op; simpl; intros H; try lia; contradiction. Qed.

(* every comparison binds tighter than &&: a && x cmp y = a && (x cmp y) *)
Lemma cmp_tighter_than_and_proof : forall op a x y sa sx sy w1 w2 w3,
  cmp_of op <> None ->
  rend 8 a sa -> rend (lvl op) x sx -> rend (lvl op - 1) y sy -> all_ws w1 -> all_ws w2 -> all_ws w3 ->
  parse_ast (sa ++ w1 ++ [38; 38]%N ++ (sx ++ w2 ++ op_text op ++ sy) ++ w3)
  = Some (ABin BAnd a (ABin op x y)).
Proof.
  intros op a x y sa sx sy w1 w2 w3 Hc. pose proof (cmp_lvl op Hc).
  apply (tighter_right_proof op BAnd a x y sa sx sy w1 w2 w3). simpl. lia.
Qed.

(* single quoted literals are taken verbatim *)
Lemma single_quoted_verbatim_proof : forall s, sq_body s = true ->
  parse_if (39%N :: s ++ [39%N]) = Some (IStr (SLit s false)).
Proof.
  intros s H. rewrite <- (app_nil_r (39%N :: s ++ [39%N])).
  apply (rend_parse_if_proof (AStr (SLit s false))); [|apply all_ws_nil|reflexivity].
  apply R_str. exact (RSq [] s all_ws_nil H).
Qed.

Lemma sq_body_notin : forall s, ~ In 39%N s -> ~ In 10%N s -> ~ In 13%N s -> sq_body s = true.
Proof.
  intros s H1 H2 H3. unfold sq_body. apply forallb_forall. intros c Hc.
  apply negb_true_iff. repeat rewrite orb_false_iff. repeat rewrite N.eqb_neq.
  repeat split; intros E; subst c; contradiction.
Qed.

Lemma single_quoted_literal_verbatim_proof : forall s,
  ~ In 39%N s -> ~ In 10%N s -> ~ In 13%N s ->
  parse_if (39%N :: s ++ [39%N]) = Some (IStr (SLit s false)).
Proof.
  intros s H1 H2 H3. apply single_quoted_verbatim_proof. apply sq_body_notin; assumption.
Qed.
